(* Control-flow safety of the interpreter from a STATIC, decidable check of the program (a bytecode verifier).

   [tyck p sh]: every instruction of the program is consistent with a shape assignment [sh] -- for each
   instruction boundary the SHAPE of the grouping stack on entry: a list of kinds
       KM (a mark, 1 word)   KC (a counter: count+mark, 2 words)   KJ (a jump record: crawl pos + track pos, 2 words).
   The dynamic invariant [winv]: the backtracking stack is a sequence of FRAMES (header = +-pc of the instruction
   that pushed it, then the data words that instruction's Back/Back2 handler pops); each frame records the shape
   its handler expects ([in]) and the shape that was current just before the frame was pushed ([pre]), the
   frames chain (pre of a frame = in of the frame below), the grouping stack has the current shape, and every
   KJ record points to a frame-aligned position of the backtracking stack below a Setjump frame.
   cf_sound: tyck -> winv is preserved by every successful step of the unbounded-stack interpreter, hence every
   state reachable from the initial state of an attempt is at an instruction boundary and its grouping stack
   has statically bounded depth: CompileTotal.path_ok holds for EVERY input. *)
From Verif Require Import Base.Prelude Model.Tree Model.Spec Model.VM Model.Writer Gen.RunnerGen Gen.CodeGen
  Proofs.VMLimitProofs Proofs.VMLimitSimProofs Proofs.VMCapacityProofs Proofs.VMU Proofs.VMUBridge
  Proofs.CompileTotal Proofs.CompileLimit.
From Coq Require Import Relations ZifyBool.

Inductive kind := KM | KC | KJ.
Definition shape := list kind.
Definition kwords (k : kind) : Z := match k with KM => 1 | _ => 2 end.
Fixpoint swords (t : shape) : Z := match t with [] => 0 | k :: t' => kwords k + swords t' end.
Definition kind_eqb (a b : kind) : bool :=
  match a, b with KM, KM | KC, KC | KJ, KJ => true | _, _ => false end.
Fixpoint shape_eqb (a b : shape) : bool :=
  match a, b with
  | [], [] => true
  | x :: a', y :: b' => kind_eqb x y && shape_eqb a' b'
  | _, _ => false
  end.
Lemma shape_eqb_eq a : forall b, shape_eqb a b = true -> a = b.
Proof.
  induction a as [|x a IH]; intros [|y b] H; cbn [shape_eqb] in H; try discriminate; [reflexivity|].
  apply andb_prop in H. destruct H as [H1 H2]. rewrite (IH b H2). destruct x, y; try discriminate; reflexivity.
Qed.
Lemma swords_nonneg t : 0 <= swords t.
Proof. induction t as [|k t IH]; cbn [swords]; [lia|]. destruct k; cbn [kwords]; lia. Qed.

Record frame := { f_pc : Z; f_neg : bool; f_data : list Z }.
Definition f_hdr (F : frame) : Z := if f_neg F then - f_pc F else f_pc F.
Fixpoint flatten (fr : list frame) : list Z :=
  match fr with [] => [] | F :: fr' => f_hdr F :: f_data F ++ flatten fr' end.

Lemma flatten_app a b : flatten (a ++ b) = flatten a ++ flatten b.
Proof. induction a as [|F a IH]; cbn [flatten app]; [reflexivity|]. rewrite IH, app_assoc. reflexivity. Qed.

Fixpoint sh_get (pc : Z) (sh : list (Z * shape)) : option shape :=
  match sh with [] => None | (c, t) :: sh' => if pc =? c then Some t else sh_get pc sh' end.

Section CF.
Variable e : env.
Variable p : program.
Variable sh : list (Z * shape).

(* the code word at an instruction boundary *)
Definition instr_at (pc : Z) : option Z :=
  match List.find (fun co => fst co =? pc) (cp_dec (codes p)) with Some co => Some (snd co) | None => None end.

Lemma instr_at_bnd pc w : instr_at pc = Some w -> cp_boundary (codes p) pc w /\ code_at p pc = Some w.
Proof.
  unfold instr_at. destruct (List.find _ _) as [[c w']|] eqn:E; [|discriminate]. intros H. injection H as <-.
  apply find_some in E. destruct E as [Hin Hc]. cbn [fst] in Hc. assert (c = pc) by lia. subst c.
  split; [exact Hin|]. apply cp_boundary_word. exact Hin.
Qed.

Definition sh_at (pc : Z) : option shape :=
  match instr_at pc with Some _ => sh_get pc sh | None => None end.

Lemma sh_at_instr pc t : sh_at pc = Some t -> exists w, instr_at pc = Some w.
Proof. unfold sh_at. destruct (instr_at pc) as [w|]; [intros _; exists w; reflexivity|discriminate]. Qed.

Definition is_shape (o : option shape) (t : shape) : bool :=
  match o with Some t' => shape_eqb t' t | None => false end.
Lemma is_shape_eq o t : is_shape o t = true -> o = Some t.
Proof. destruct o as [t'|]; cbn [is_shape]; [|discriminate]. intros H. apply shape_eqb_eq in H. subst. reflexivity. Qed.

Definition arg1 (pc : Z) : Z := match code_at p (pc + 1) with Some a => a | None => -1 end.

Definition in_list (x : Z) (l : list Z) : bool := zmem x l.
(* opcodes whose only effects are on the text position: advance to the next instruction or fail *)
Definition plain_ops : list Z :=
  [Onerep; Notonerep; Setrep; One; Notone; SetOp; Multi; Ref; Bol; Eol; Boundary; Nonboundary; Beginning; Start; EndZ; EndOp;
   Testref; ECMABoundary; NonECMABoundary; Oneloopatomic; Notoneloopatomic; Setloopatomic; UpdateBumpalong;
   Oneloop; Notoneloop; Setloop; Onelazy; Notonelazy; Setlazy].

(* an instruction without a shape is dead code: the invariant never reaches it *)
Definition instr_ok (pc w : Z) : bool :=
  match sh_at pc with
  | None => true
  | Some tp =>
      let op := Z.land w 63 in
      let nx := sh_at (pc + opcode_size w) in
      let tg := sh_at (arg1 pc) in
      if in_list op plain_ops then is_shape nx tp
      else if op =? Stop then true
      else if op =? Nothing then true
      else if op =? Goto then is_shape tg tp
      else if op =? Lazybranch then is_shape nx tp && is_shape tg tp
      else if (op =? Setmark) || (op =? Nullmark) then is_shape nx (KM :: tp)
      else if (op =? Getmark) || (op =? Capturemark) then match tp with KM :: t' => is_shape nx t' | _ => false end
      else if (op =? Branchmark) || (op =? Lazybranchmark) then
        match tp with KM :: t' => is_shape nx t' && is_shape tg tp | _ => false end
      else if (op =? Setcount) || (op =? Nullcount) then is_shape nx (KC :: tp)
      else if (op =? Branchcount) || (op =? Lazybranchcount) then
        match tp with KC :: t' => is_shape nx t' && is_shape tg tp | _ => false end
      else if op =? Setjump then is_shape nx (KJ :: tp)
      else if op =? Forejump then match tp with KJ :: t' => is_shape nx t' | _ => false end
      else if op =? Backjump then match tp with KJ :: _ => true | _ => false end
      else false
  end.

(* the frame a Back / Back2 handler expects: (shape on entry of the handler, shape before the frame was pushed) *)
Definition frame_type (F : frame) : option (shape * shape) :=
  match instr_at (f_pc F), sh_at (f_pc F) with
  | Some w, Some tp =>
      let op := Z.land w 63 in let n := f_neg F in let d := f_data F in
      if op =? Lazybranch then (if negb n && (zlen d =? 1) then Some (tp, tp) else None)
      else if (op =? Setmark) || (op =? Nullmark) then (if negb n && (zlen d =? 0) then Some (KM :: tp, tp) else None)
      else if (op =? Getmark) || (op =? Capturemark) then
        match tp with KM :: t' => if negb n && (zlen d =? 1) then Some (t', tp) else None | _ => None end
      else if op =? Branchmark then
        match tp with
        | KM :: t' => if n then (if zlen d =? 1 then Some (t', tp) else None)
                      else (if zlen d =? 2 then Some (tp, tp) else None)
        | _ => None
        end
      else if op =? Lazybranchmark then
        match tp with
        | KM :: t' => if n then match d with [fl; _] => if fl =? 0 then Some (t', tp) else Some (tp, tp) | _ => None end
                      else (if zlen d =? 2 then Some (t', tp) else None)
        | _ => None
        end
      else if (op =? Setcount) || (op =? Nullcount) then (if negb n && (zlen d =? 0) then Some (KC :: tp, tp) else None)
      else if op =? Branchcount then
        match tp with
        | KC :: t' => if n then (if zlen d =? 2 then Some (t', tp) else None)
                      else (if zlen d =? 1 then Some (tp, tp) else None)
        | _ => None
        end
      else if op =? Lazybranchcount then
        match tp with
        | KC :: t' => if n then (if zlen d =? 1 then Some (tp, tp) else None)
                      else (if zlen d =? 3 then Some (t', tp) else None)
        | _ => None
        end
      else if op =? Setjump then (if negb n && (zlen d =? 0) then Some (KJ :: tp, tp) else None)
      else if op =? Forejump then
        match tp with KJ :: t' => if negb n && (zlen d =? 1) then Some (t', t') else None | _ => None end
      else if (3 <=? op) && (op <=? 8) then (if negb n && (zlen d =? 2) then Some (tp, tp) else None)
      else None
  | _, _ => None
  end.

(* the frames chain *)
Fixpoint TWf (fr : list frame) (t : shape) : Prop :=
  match fr with
  | [] => True
  | F :: fr' => exists pre, frame_type F = Some (t, pre) /\ TWf fr' pre
  end.

Definition is_setjump (F : frame) (t : shape) : Prop :=
  f_neg F = false /\ sh_at (f_pc F) = Some t /\ exists w, instr_at (f_pc F) = Some w /\ Z.land w 63 = Setjump.

(* the grouping stack has shape t, and its jump records point below Setjump frames *)
Fixpoint SWf (S : list Z) (t : shape) (fr : list frame) : Prop :=
  match t, S with
  | [], [] => True
  | KM :: t', _ :: S' => SWf S' t' fr
  | KC :: t', _ :: _ :: S' => SWf S' t' fr
  | KJ :: t', _ :: tr :: S' =>
      exists fu FJ f0, fr = fu ++ FJ :: f0 /\ tr = zlen (flatten f0) /\ is_setjump FJ t' /\ SWf S' t' f0
  | _, _ => False
  end.

Lemma SWf_len S : forall t fr, SWf S t fr -> zlen S = swords t.
Proof.
  induction S as [S IH] using (well_founded_induction (Wf_nat.well_founded_ltof _ (@length Z))).
  intros t fr H. destruct t as [|k t].
  - destruct S; [reflexivity|contradiction].
  - destruct k; cbn [SWf] in H.
    + destruct S as [|x S']; [contradiction|]. rewrite zlen_cons. cbn [swords kwords].
      rewrite (IH S' ltac:(unfold ltof; cbn [length]; lia) t fr H). reflexivity.
    + destruct S as [|x [|y S']]; try contradiction. rewrite !zlen_cons. cbn [swords kwords].
      rewrite (IH S' ltac:(unfold ltof; cbn [length]; lia) t fr H). lia.
    + destruct S as [|x [|y S']]; try contradiction. destruct H as (fu & FJ & f0 & _ & _ & _ & H).
      rewrite !zlen_cons. cbn [swords kwords].
      rewrite (IH S' ltac:(unfold ltof; cbn [length]; lia) t f0 H). lia.
Qed.

(* pushing frames keeps the jump records valid *)
Lemma SWf_ext S : forall t fr g, SWf S t fr -> SWf S t (g ++ fr).
Proof.
  induction S as [S IH] using (well_founded_induction (Wf_nat.well_founded_ltof _ (@length Z))).
  intros t fr g H. destruct t as [|k t].
  - destruct S; [exact I|contradiction].
  - destruct k; cbn [SWf] in H |- *.
    + destruct S as [|x S']; [contradiction|]. apply (IH S' ltac:(unfold ltof; cbn [length]; lia)). exact H.
    + destruct S as [|x [|y S']]; try contradiction. apply (IH S' ltac:(unfold ltof; cbn [length]; lia)). exact H.
    + destruct S as [|x [|y S']]; try contradiction. destruct H as (fu & FJ & f0 & -> & Htr & HJ & H).
      exists (g ++ fu), FJ, f0. split; [rewrite app_assoc; reflexivity|]. split; [exact Htr|]. split; [exact HJ|exact H].
Qed.

Lemma SWf_ext1 S t fr F : SWf S t fr -> SWf S t (F :: fr).
Proof. apply (SWf_ext S t fr [F]). Qed.

Definition op_of (F : frame) : option Z := match instr_at (f_pc F) with Some w => Some (Z.land w 63) | None => None end.

(* popping a frame that is not a Setjump frame keeps the jump records valid *)
Lemma SWf_pop S : forall t fr F, op_of F <> Some Setjump -> SWf S t (F :: fr) -> SWf S t fr.
Proof.
  induction S as [S IH] using (well_founded_induction (Wf_nat.well_founded_ltof _ (@length Z))).
  intros t fr F HF H. destruct t as [|k t].
  - destruct S; [exact I|contradiction].
  - destruct k; cbn [SWf] in H |- *.
    + destruct S as [|x S']; [contradiction|]. apply (IH S' ltac:(unfold ltof; cbn [length]; lia) t fr F HF). exact H.
    + destruct S as [|x [|y S']]; try contradiction. apply (IH S' ltac:(unfold ltof; cbn [length]; lia) t fr F HF). exact H.
    + destruct S as [|x [|y S']]; try contradiction. destruct H as (fu & FJ & f0 & Hfr & Htr & HJ & H).
      destruct fu as [|F' fu].
      * cbn [app] in Hfr. injection Hfr as <- <-. exfalso. apply HF.
        destruct HJ as (_ & _ & w & Hw & Hop). unfold op_of. rewrite Hw, Hop. reflexivity.
      * cbn [app] in Hfr. injection Hfr as <- ->. exists fu, FJ, f0. split; [reflexivity|]. split; [exact Htr|]. split; [exact HJ|exact H].
Qed.

(* the chain below a Setjump frame *)
Lemma TWf_below fu : forall t FJ f0 tj, TWf (fu ++ FJ :: f0) t -> is_setjump FJ tj -> TWf f0 tj.
Proof.
  induction fu as [|F fu IH]; intros t FJ f0 tj H HJ.
  - cbn [app TWf] in H. destruct H as (pre & Hft & H).
    destruct HJ as (Hn & Hs & w & Hw & Hop). unfold frame_type in Hft. rewrite Hw, Hs in Hft. cbv zeta in Hft.
    rewrite Hop in Hft. cbn in Hft. rewrite Hn in Hft. cbn [negb andb] in Hft.
    destruct (zlen (f_data FJ) =? 0); [|discriminate]. injection Hft as _ <-. exact H.
  - cbn [app TWf] in H. destruct H as (pre & _ & H). exact (IH pre FJ f0 tj H HJ).
Qed.

(* trackto: keeping the oldest words *)
Lemma cf_skipn_app {A} (a b : list A) : skipn (Z.to_nat (zlen (a ++ b) - zlen b)) (a ++ b) = b.
Proof.
  rewrite zlen_app. replace (Z.to_nat (zlen a + zlen b - zlen b)) with (length a) by (unfold zlen; lia).
  rewrite skipn_app, skipn_all, Nat.sub_diag. reflexivity.
Qed.

(* ---------- the static check ---------- *)
Definition tyck : bool :=
  forallb (fun co => instr_ok (fst co) (snd co)) (cp_dec (codes p)) &&
  match instr_at 0 with
  | Some w0 => (Z.land w0 63 =? Lazybranch) &&
               match instr_at (arg1 0) with Some w1 => Z.land w1 63 =? Stop | None => false end
  | None => false
  end &&
  is_shape (sh_at 0) [] &&
  forallb (fun kv => swords (snd kv) + 4 <=? sinit p) sh.

Hypothesis Hty : tyck = true.

Lemma ty_instr pc w : instr_at pc = Some w -> instr_ok pc w = true.
Proof.
  intros H. unfold tyck in Hty. apply andb_prop in Hty. destruct Hty as [H1 _].
  apply andb_prop in H1. destruct H1 as [H1 _]. apply andb_prop in H1. destruct H1 as [H1 _].
  rewrite forallb_forall in H1. unfold instr_at in H.
  destruct (List.find _ _) as [[c w']|] eqn:E; [|discriminate]. injection H as <-.
  apply find_some in E. destruct E as [Hin Hc]. cbn [fst] in Hc. assert (c = pc) by lia. subst c.
  exact (H1 _ Hin).
Qed.

Lemma ty_zero : exists w0 w1, instr_at 0 = Some w0 /\ Z.land w0 63 = Lazybranch /\
  instr_at (arg1 0) = Some w1 /\ Z.land w1 63 = Stop /\ sh_at 0 = Some [].
Proof.
  unfold tyck in Hty. apply andb_prop in Hty. destruct Hty as [H1 _].
  apply andb_prop in H1. destruct H1 as [H1 H3]. apply andb_prop in H1. destruct H1 as [_ H2].
  destruct (instr_at 0) as [w0|]; [|discriminate]. apply andb_prop in H2. destruct H2 as [Ha Hb].
  destruct (instr_at (arg1 0)) as [w1|]; [|discriminate].
  exists w0, w1. repeat split; try reflexivity; try lia. apply is_shape_eq. exact H3.
Qed.

Lemma sh_get_in pc t l : sh_get pc l = Some t -> In (pc, t) l.
Proof.
  induction l as [|[c t'] l IH]; cbn [sh_get]; [discriminate|]. destruct (pc =? c) eqn:E.
  - intros H. injection H as <-. left. f_equal. lia.
  - intros H. right. apply IH. exact H.
Qed.

Lemma ty_bound pc t : sh_at pc = Some t -> swords t + 4 <= sinit p.
Proof.
  intros H. unfold sh_at in H. destruct (instr_at pc); [|discriminate]. apply sh_get_in in H.
  unfold tyck in Hty. apply andb_prop in Hty. destruct Hty as [_ H4]. rewrite forallb_forall in H4.
  specialize (H4 _ H). cbn [snd] in H4. lia.
Qed.

(* ---------- the dynamic invariant ---------- *)
Definition bottom_ok (fr : list frame) : Prop :=
  fr = [] \/ exists fr' x, fr = fr' ++ [{| f_pc := 0; f_neg := false; f_data := [x] |}].

Definition winv4 (pc0 md : Z) (T S : list Z) : Prop :=
  exists fr t, TWf fr t /\ SWf S t fr /\ bottom_ok fr /\
    if md =? 0 then sh_at pc0 = Some t /\ T = flatten fr /\ (fr = [] -> pc0 = 0 \/ pc0 = arg1 0)
    else exists F fr', fr = F :: fr' /\ f_pc F = pc0 /\ f_neg F = negb (md =? BackBit) /\ T = f_data F ++ flatten fr'.
Definition winv (s : vm) : Prop := winv4 (pc s) (mode s) (track s) (stack s).

Lemma bottom_cons F fr : fr <> [] -> bottom_ok fr -> bottom_ok (F :: fr).
Proof.
  intros Hne [->|(fr' & x & ->)]; [congruence|]. right. exists (F :: fr'), x. reflexivity.
Qed.
Lemma bottom_tail F fr : bottom_ok (F :: fr) -> bottom_ok fr.
Proof.
  intros [H|(fr' & x & H)]; [discriminate|]. destruct fr' as [|G fr'].
  - cbn [app] in H. injection H as _ H. left. exact H.
  - cbn [app] in H. injection H as _ H. right. exists fr', x. exact H.
Qed.
Lemma bottom_suffix fu : forall F f0, bottom_ok (fu ++ F :: f0) -> bottom_ok f0.
Proof.
  induction fu as [|G fu IH]; intros F f0 H; cbn [app] in H.
  - eapply bottom_tail. exact H.
  - apply (IH F f0). eapply bottom_tail. exact H.
Qed.
Lemma bottom_single x : bottom_ok [{| f_pc := 0; f_neg := false; f_data := [x] |}].
Proof. right. exists [], x. reflexivity. Qed.

Lemma frame_type_instr F t pre : frame_type F = Some (t, pre) ->
  exists w tp, instr_at (f_pc F) = Some w /\ sh_at (f_pc F) = Some tp.
Proof.
  unfold frame_type. destruct (instr_at (f_pc F)) as [w|]; [|discriminate].
  destruct (sh_at (f_pc F)) as [tp|]; [|discriminate]. intros _. exists w, tp. split; reflexivity.
Qed.

Lemma instr_at_nonneg pc w : instr_at pc = Some w -> 0 <= pc.
Proof.
  intros H. apply instr_at_bnd in H. destruct H as [H _]. unfold cp_boundary, cp_dec in H.
  apply cp_dec_aux_pos in H. exact H.
Qed.

(* a negative frame is not at position 0 *)
Lemma frame_neg_pos F t pre : frame_type F = Some (t, pre) -> f_neg F = true -> 0 < f_pc F.
Proof.
  intros Hft Hn. destruct (frame_type_instr F t pre Hft) as (w & tp & Hw & Hs).
  pose proof (instr_at_nonneg _ _ Hw) as H0. destruct (Z.eq_dec (f_pc F) 0) as [E|E]; [exfalso|lia].
  destruct ty_zero as (w0 & w1 & H00 & Hop & _). unfold frame_type in Hft. rewrite Hw, Hs in Hft. cbv zeta in Hft.
  rewrite E in Hw. rewrite H00 in Hw. injection Hw as <-. rewrite Hop in Hft. cbn in Hft. rewrite Hn in Hft.
  cbn in Hft. discriminate.
Qed.

(* the bound on the grouping stack *)
Lemma frame_type_bound F t pre : frame_type F = Some (t, pre) -> swords t + 2 <= sinit p.
Proof.
  intros Hft. destruct (frame_type_instr F t pre Hft) as (w & tp & Hw & Hs).
  pose proof (ty_bound _ _ Hs) as Hb. unfold frame_type in Hft. rewrite Hw, Hs in Hft. cbv zeta in Hft.
  repeat match type of Hft with
         | (if ?b then _ else _) = _ => destruct b
         | match ?x with _ => _ end = _ => destruct x
         end; try discriminate; injection Hft as <- _; cbn [swords kwords] in *; lia.
Qed.

Lemma winv_good s : winv s -> st_good p s.
Proof.
  intros (fr & t & HT & HS & Hb & H). pose proof (SWf_len _ _ _ HS) as Hl. unfold st_good, bnd.
  destruct (mode s =? 0).
  - destruct H as (Hsh & _ & _). pose proof (ty_bound _ _ Hsh).
    destruct (sh_at_instr _ _ Hsh) as [w Hw]. apply instr_at_bnd in Hw. split; [exists w; exact (proj1 Hw)|lia].
  - destruct H as (F & fr' & -> & Hpc & _ & _). cbn [TWf] in HT. destruct HT as (pre & Hft & _).
    pose proof (frame_type_bound _ _ _ Hft). destruct (frame_type_instr _ _ _ Hft) as (w & tp & Hw & _).
    rewrite Hpc in Hw. apply instr_at_bnd in Hw. split; [exists w; exact (proj1 Hw)|lia].
Qed.


(* ---------- inversion of the interpreter's helpers ---------- *)
Lemma cf_tpush_inv s ws s1 : tpush s ws = Ok s1 -> s1 = set_track s (ws ++ track s).
Proof. unfold tpush. destruct (_ <? _); [discriminate|]. intros H. injection H as <-. reflexivity. Qed.
Lemma cf_spush_inv s ws s1 : spush s ws = Ok s1 -> s1 = set_stack s (ws ++ stack s).
Proof. unfold spush. destruct (_ <? _); [discriminate|]. intros H. injection H as <-. reflexivity. Qed.

Lemma cf_ensure_inv L s s1 : ensure_storage p L s = Ok s1 ->
  pc s1 = pc s /\ mode s1 = mode s /\ track s1 = track s /\ stack s1 = stack s.
Proof.
  unfold ensure_storage. intros H.
  repeat match type of H with context [if ?b then _ else _] => destruct b end;
    try discriminate; injection H as <-; repeat split.
Qed.

Lemma cf_adv_inv s i s0 : cont (advance p s i) = Ok (Next s0) -> s0 = set_pc s (pc s + i + 1) 0.
Proof.
  unfold cont, advance. destruct (code_at p (pc s + i + 1)); cbn [bind]; [|discriminate].
  intros H. injection H as <-. reflexivity.
Qed.

Lemma cf_goto_inv L s a s0 : cont (goto p L s a) = Ok (Next s0) ->
  pc s0 = a /\ mode s0 = 0 /\ track s0 = track s /\ stack s0 = stack s.
Proof.
  unfold cont, goto. intros H.
  destruct (a <=? pc s).
  - destruct (ensure_storage p L s) as [s1| | |] eqn:E; cbn [bind] in H; try discriminate.
    apply cf_ensure_inv in E. destruct E as (E1 & E2 & E3 & E4).
    destruct (code_at p a); cbn [bind] in H; [|discriminate]. injection H as <-. vm_cbn. repeat split; assumption.
  - cbn [bind] in H. destruct (code_at p a); cbn [bind] in H; [|discriminate]. injection H as <-. vm_cbn. repeat split.
Qed.

Lemma cf_brk_inv L s s0 : brk p L s = Ok (Next s0) ->
  exists np T', track s = np :: T' /\ pc s0 = Z.abs np /\ mode s0 = (if np <? 0 then Back2Bit else BackBit) /\
                track s0 = T' /\ stack s0 = stack s.
Proof.
  unfold brk, backtrack. intros H. destruct (track s) as [|np T'] eqn:Et; [discriminate|].
  exists np, T'. split; [reflexivity|].
  destruct (np <? 0) eqn:En.
  - destruct (code_at p (- np)); [|discriminate].
    destruct (- np <? pc s).
    + destruct (ensure_storage p L (set_track s T')) as [s1| | |] eqn:E; cbn [bind] in H; try discriminate.
      apply cf_ensure_inv in E. destruct E as (E1 & E2 & E3 & E4). injection H as <-. vm_cbn.
      repeat split; try assumption; lia.
    + cbn [bind] in H. injection H as <-. vm_cbn. repeat split; lia.
  - destruct (code_at p np); [|discriminate].
    destruct (np <? pc s).
    + destruct (ensure_storage p L (set_track s T')) as [s1| | |] eqn:E; cbn [bind] in H; try discriminate.
      apply cf_ensure_inv in E. destruct E as (E1 & E2 & E3 & E4). injection H as <-. vm_cbn.
      repeat split; try assumption; lia.
    + cbn [bind] in H. injection H as <-. vm_cbn. repeat split; lia.
Qed.

(* ---------- the three ways a step ends ---------- *)
Lemma exit_fwd0 pc1 t fr S : sh_at pc1 = Some t -> TWf fr t -> SWf S t fr -> bottom_ok fr ->
  (fr = [] -> pc1 = 0 \/ pc1 = arg1 0) -> winv4 pc1 0 (flatten fr) S.
Proof.
  intros Hs HT HS Hb Hne. exists fr, t. split; [exact HT|]. split; [exact HS|]. split; [exact Hb|].
  change (0 =? 0) with true. cbv iota. split; [exact Hs|]. split; [reflexivity|exact Hne].
Qed.
Lemma exit_fwd pc1 t fr S : sh_at pc1 = Some t -> TWf fr t -> SWf S t fr -> bottom_ok fr -> fr <> [] ->
  winv4 pc1 0 (flatten fr) S.
Proof. intros Hs HT HS Hb Hne. apply (exit_fwd0 _ t); try assumption. intros E. congruence. Qed.

Lemma exit_adv s i s0 t fr : cont (advance p s i) = Ok (Next s0) ->
  sh_at (pc s + i + 1) = Some t -> track s = flatten fr -> TWf fr t -> SWf (stack s) t fr -> bottom_ok fr -> fr <> [] ->
  winv s0.
Proof.
  intros H Hs Ht HT HS Hb Hne. apply cf_adv_inv in H. subst s0. unfold winv. vm_cbn. rewrite Ht.
  apply (exit_fwd _ t); assumption.
Qed.

Lemma exit_goto L s a s0 t fr : cont (goto p L s a) = Ok (Next s0) ->
  sh_at a = Some t -> track s = flatten fr -> TWf fr t -> SWf (stack s) t fr -> bottom_ok fr -> fr <> [] ->
  winv s0.
Proof.
  intros H Hs Ht HT HS Hb Hne. apply cf_goto_inv in H. destruct H as (H1 & H2 & H3 & H4).
  unfold winv. rewrite H1, H2, H3, H4, Ht. apply (exit_fwd _ t); assumption.
Qed.

Lemma exit_goto0 L s a s0 t fr : cont (goto p L s a) = Ok (Next s0) ->
  sh_at a = Some t -> track s = flatten fr -> TWf fr t -> SWf (stack s) t fr -> bottom_ok fr ->
  (fr = [] -> a = 0 \/ a = arg1 0) -> winv s0.
Proof.
  intros H Hs Ht HT HS Hb Hne. apply cf_goto_inv in H. destruct H as (H1 & H2 & H3 & H4).
  unfold winv. rewrite H1, H2, H3, H4, Ht. apply (exit_fwd0 _ t); assumption.
Qed.

Lemma exit_brk L s s0 F fr' t : brk p L s = Ok (Next s0) ->
  track s = flatten (F :: fr') -> TWf (F :: fr') t -> SWf (stack s) t (F :: fr') -> bottom_ok (F :: fr') ->
  winv s0.
Proof.
  intros H Ht HT HS Hb. apply cf_brk_inv in H. destruct H as (np & T' & Hnp & H1 & H2 & H3 & H4).
  rewrite Ht in Hnp. cbn [flatten] in Hnp. injection Hnp as <- <-.
  pose proof HT as HT0. cbn [TWf] in HT. destruct HT as (pre & Hft & _).
  destruct (frame_type_instr _ _ _ Hft) as (w & tp & Hw & _). pose proof (instr_at_nonneg _ _ Hw) as Hnn.
  unfold winv. rewrite H1, H2, H3, H4. exists (F :: fr'), t.
  split; [exact HT0|]. split; [exact HS|]. split; [exact Hb|].
  unfold f_hdr. destruct (f_neg F) eqn:En.
  - pose proof (frame_neg_pos F t pre Hft En) as Hpos. replace (- f_pc F <? 0) with true by lia.
    change (Back2Bit =? 0) with false. cbv iota. exists F, fr'. split; [reflexivity|]. split; [lia|].
    split; [rewrite En; reflexivity|reflexivity].
  - replace (f_pc F <? 0) with false by lia. change (BackBit =? 0) with false. cbv iota.
    exists F, fr'. split; [reflexivity|]. split; [lia|]. split; [rewrite En; reflexivity|reflexivity].
Qed.


Lemma exit_brk_any L s s0 fr t : brk p L s = Ok (Next s0) ->
  track s = flatten fr -> TWf fr t -> SWf (stack s) t fr -> bottom_ok fr -> winv s0.
Proof.
  intros H Ht HT HS Hb. destruct fr as [|F fr'].
  - exfalso. apply cf_brk_inv in H. destruct H as (np & T' & Hnp & _). rewrite Ht in Hnp. discriminate Hnp.
  - eapply exit_brk; eassumption.
Qed.

Lemma zl0 {A} (l : list A) : zlen l = 0 -> l = [].
Proof. destruct l; [reflexivity|]. rewrite zlen_cons. pose proof (zlen_nonneg l). lia. Qed.
Lemma zl1 {A} (l : list A) : zlen l = 1 -> exists a, l = [a].
Proof. destruct l as [|a l]; [discriminate|]. rewrite zlen_cons. intros H. rewrite (zl0 l ltac:(lia)). eexists. reflexivity. Qed.
Lemma zl2 {A} (l : list A) : zlen l = 2 -> exists a b, l = [a; b].
Proof.
  destruct l as [|a l]; [discriminate|]. rewrite zlen_cons. intros H. destruct (zl1 l ltac:(lia)) as [b ->].
  eexists _, _. reflexivity.
Qed.
Lemma zl3 {A} (l : list A) : zlen l = 3 -> exists a b c, l = [a; b; c].
Proof.
  destruct l as [|a l]; [discriminate|]. rewrite zlen_cons. intros H. destruct (zl2 l ltac:(lia)) as (b & c & ->).
  eexists _, _, _. reflexivity.
Qed.

Lemma bottom_singleton F : bottom_ok [F] -> exists x, F = {| f_pc := 0; f_neg := false; f_data := [x] |}.
Proof.
  intros [H|(fr' & x & H)]; [discriminate|]. destruct fr' as [|G fr'].
  - cbn [app] in H. injection H as ->. exists x. reflexivity.
  - cbn [app] in H. injection H as _ H. destruct fr'; discriminate H.
Qed.

(* ---------- one step, forward mode ---------- *)
Ltac cf_cbv_in H :=
  cbv beta iota zeta delta
      [pc mode tp track tcap stack scap crawl mcaps
       set_pc set_tp set_track set_stack set_caps set_tcap set_scap bind] in H.

Ltac cf_case_in H :=
  match type of H with
  | context [match ?x with _ => _ end] =>
      lazymatch x with
      | context [match _ with _ => _ end] => fail
      | context [bind _ _] => fail
      | _ => destruct x eqn:?
      end
  | context [bind ?x _] =>
      lazymatch x with
      | context [match _ with _ => _ end] => fail
      | context [bind _ _] => fail
      | _ => destruct x eqn:?
      end
  end.

Ltac binv H :=
  repeat match type of H with
         | bind ?x _ = Ok _ => let E := fresh "E" in destruct x eqn:E; cbn [bind] in H; try discriminate H
         end.

Lemma opsize_of w : opcode_size w = zassoc (Z.land w 63) opcode_size_tbl 0.
Proof. reflexivity. Qed.

(* operations that only touch the capture arrays keep pc, mode, track, stack *)
Definition same4 (a b : vm) : Prop := pc a = pc b /\ mode a = mode b /\ track a = track b /\ stack a = stack b.

Lemma cf_do_capture_inv s a x t s1 : do_capture s a x t = Ok s1 -> same4 s1 s.
Proof.
  unfold do_capture. destruct (t <? x); destruct (add_match _ _ _ _); try discriminate;
    intros H; injection H as <-; repeat split.
Qed.
Lemma cf_do_transfer_inv s a b x t s1 : do_transfer s a b x t = Ok s1 -> same4 s1 s.
Proof.
  unfold do_transfer. intros H.
  repeat match type of H with
         | context [match ?x with _ => _ end] =>
             lazymatch x with
             | context [match _ with _ => _ end] => fail
             | _ => destruct x eqn:?
             end
         end; try discriminate; injection H as <-; repeat split.
Qed.
Lemma cf_uncapture_to_inv f s t s1 : uncapture_to f s t = Ok s1 -> same4 s1 s.
Proof.
  rewrite uncapture_to_pure. destruct (unc_pure _ _ _ _) as [[cr m]| | |]; cbn [bind]; try discriminate.
  intros H. injection H as <-. repeat split.
Qed.
Lemma cf_uncapture_inv s s1 : uncapture s = Ok s1 -> same4 s1 s.
Proof.
  unfold uncapture. destruct (crawl s); [discriminate|]. destruct (remove_match _ _); [|discriminate].
  intros H. injection H as <-. repeat split.
Qed.

Lemma cf_opnd0 s a : opnd p s 0 = Ok a -> a = arg1 (pc s).
Proof.
  unfold opnd, arg1. replace (pc s + 0 + 1) with (pc s + 1) by lia.
  destruct (code_at p (pc s + 1)); [|discriminate]. intros H. injection H as <-. reflexivity.
Qed.

Lemma cf_trackto_inv s fu F f0 s1 :
  track s = flatten (fu ++ F :: f0) -> trackto s (zlen (flatten f0)) = Ok s1 -> s1 = set_track s (flatten f0).
Proof.
  intros Ht. unfold trackto. destruct (_ || _); [discriminate|]. intros H. injection H as <-.
  rewrite Ht. f_equal. rewrite flatten_app. cbn [flatten].
  replace (flatten fu ++ f_hdr F :: f_data F ++ flatten f0) with ((flatten fu ++ f_hdr F :: f_data F) ++ flatten f0)
    by (rewrite <- app_assoc; reflexivity).
  apply cf_skipn_app.
Qed.

(* UpdateBumpalong: the oldest word of the backtracking stack is the data word of the bottom frame *)
Definition fbot (x : Z) : frame := {| f_pc := 0; f_neg := false; f_data := [x] |}.

Lemma fbot_type x y t pre : frame_type (fbot x) = Some (t, pre) -> frame_type (fbot y) = Some (t, pre).
Proof. unfold frame_type. cbn [fbot f_pc f_neg f_data]. intros H. exact H. Qed.

Lemma TWf_rebottom fr' : forall t x y, TWf (fr' ++ [fbot x]) t -> TWf (fr' ++ [fbot y]) t.
Proof.
  induction fr' as [|F fr' IH]; intros t x y H; cbn [app TWf] in H |- *.
  - destruct H as (pre & Hft & _). exists pre. split; [exact (fbot_type x y t pre Hft)|exact I].
  - destruct H as (pre & Hft & H). exists pre. split; [exact Hft|exact (IH pre x y H)].
Qed.

Lemma fbot_not_setjump x t : ~ is_setjump (fbot x) t.
Proof.
  intros (_ & _ & w & Hw & Hop). cbn [fbot f_pc] in Hw.
  destruct ty_zero as (w0 & w1 & H00 & Hop0 & _). rewrite H00 in Hw. injection Hw as <-. rewrite Hop0 in Hop. discriminate.
Qed.

Lemma flatten_rebottom_len fr' x y : zlen (flatten (fr' ++ [fbot x])) = zlen (flatten (fr' ++ [fbot y])).
Proof. rewrite !flatten_app, !zlen_app. reflexivity. Qed.

Lemma SWf_rebottom S : forall t fr' x y, SWf S t (fr' ++ [fbot x]) -> SWf S t (fr' ++ [fbot y]).
Proof.
  induction S as [S IH] using (well_founded_induction (Wf_nat.well_founded_ltof _ (@length Z))).
  intros t fr' x y H. destruct t as [|k t].
  - destruct S; [exact I|contradiction].
  - destruct k; cbn [SWf] in H |- *.
    + destruct S as [|a S']; [contradiction|]. apply (IH S' ltac:(unfold ltof; cbn [length]; lia) t fr' x y). exact H.
    + destruct S as [|a [|b S']]; try contradiction. apply (IH S' ltac:(unfold ltof; cbn [length]; lia) t fr' x y). exact H.
    + destruct S as [|a [|b S']]; try contradiction. destruct H as (fu & FJ & f0 & Hfr & Htr & HJ & H).
      (* f0 is a non-empty suffix ending in the bottom frame *)
      assert (Hf0 : exists g, f0 = g ++ [fbot x] /\ fr' = fu ++ FJ :: g).
      { destruct (exists_last (l := f0)) as (g & z & ->).
        - intros ->. assert (E : fr' ++ [fbot x] = (fu ++ []) ++ [FJ]) by (rewrite app_nil_r; exact Hfr).
          apply app_inj_tail in E. destruct E as [_ E]. subst FJ. exact (fbot_not_setjump x t HJ).
        - exists g. assert (E : fr' ++ [fbot x] = (fu ++ FJ :: g) ++ [z]) by (rewrite <- app_assoc; exact Hfr).
          apply app_inj_tail in E. destruct E as [E1 E2]. subst z. split; [reflexivity|exact E1]. }
      destruct Hf0 as (g & -> & ->).
      exists fu, FJ, (g ++ [fbot y]). split; [rewrite <- app_assoc; reflexivity|].
      split; [rewrite Htr; apply flatten_rebottom_len|]. split; [exact HJ|].
      apply (IH S' ltac:(unfold ltof; cbn [length]; lia) t g x y). exact H.
Qed.

Lemma flatten_bottom fr' x : flatten (fr' ++ [fbot x]) = flatten fr' ++ [0; x].
Proof. rewrite flatten_app. reflexivity. Qed.

Lemma setjump_not_last fu FJ t : bottom_ok (fu ++ [FJ]) -> is_setjump FJ t -> False.
Proof.
  intros [H|(fr' & x & H)] HJ.
  - destruct fu; discriminate H.
  - apply app_inj_tail in H. destruct H as [_ ->]. exact (fbot_not_setjump x t HJ).
Qed.

Ltac pushinv :=
  repeat match goal with
         | E : tpush _ _ = Ok ?v |- _ => apply cf_tpush_inv in E; subst v
         | E : spush _ _ = Ok ?v |- _ => apply cf_spush_inv in E; subst v
         end.

(* a step of a "plain" opcode: evaluate, then every leaf is an advance or a failure with the stacks unchanged *)
Ltac plain_auto H PA PB :=
  repeat (cf_cbv_in H; cf_case_in H);
  cf_cbv_in H;
  first [ discriminate H
        | eapply PA; [exact H|reflexivity|reflexivity|reflexivity|cbn; lia]
        | eapply PB; [exact H|reflexivity|reflexivity] ].

Ltac opnd0 :=
  match goal with E : opnd p ?s 0 = Ok ?a |- _ => apply cf_opnd0 in E; subst a end.

Ltac take E Hok := apply Z.eqb_eq in E; rewrite E in Hok; cbn -[sh_at arg1 is_shape] in Hok.

Ltac ftype Hw Hsh op E :=
  unfold frame_type; cbn [f_pc f_neg f_data]; rewrite Hw, Hsh; cbv zeta; fold op; rewrite E; reflexivity.

Lemma winv_fwd s s0 : winv s -> mode s = 0 -> step e p (-1) s = Ok (Next s0) -> winv s0.
Proof.
  intros (fr & tau & HT & HS & Hb & Hm) Hmd H. rewrite Hmd in Hm. change (0 =? 0) with true in Hm. cbv iota in Hm.
  destruct Hm as (Hsh & Htr & Hnil).
  destruct (sh_at_instr _ _ Hsh) as [w Hw].
  pose proof (ty_instr _ _ Hw) as Hok. unfold instr_ok in Hok. rewrite Hsh in Hok. cbv zeta in Hok.
  destruct (instr_at_bnd _ _ Hw) as [_ Hcode].
  unfold step in H. rewrite Hcode in H. cbv zeta in H. rewrite Hmd in H. change (0 =? 0) with true in H. cbv iota in H.
  rewrite opsize_of in Hok.
  set (op := Z.land w 63) in *.
  assert (Hne : op <> Lazybranch -> op <> Stop -> fr <> []).
  { intros N1 N2 ->. destruct ty_zero as (w0 & w1 & H00 & Hop0 & H01 & Hop1 & _).
    destruct (Hnil eq_refl) as [E|E]; rewrite E in Hw.
    - rewrite H00 in Hw. injection Hw as <-. apply N1. exact Hop0.
    - rewrite H01 in Hw. injection Hw as <-. apply N2. exact Hop1. }
  (* what a step that only reads does: advance with the stacks unchanged, or fail *)
  assert (Hplain : in_list op plain_ops = true ->
            (forall X i, cont (advance p X i) = Ok (Next s0) -> pc X = pc s -> track X = track s -> stack X = stack s ->
                         pc s + i + 1 = pc s + zassoc op opcode_size_tbl 0 -> winv s0) /\
            (forall X, brk p (-1) X = Ok (Next s0) -> track X = track s -> stack X = stack s -> winv s0)).
  { intros Hp. rewrite Hp in Hok. apply is_shape_eq in Hok.
    assert (Hne' : fr <> []).
    { apply Hne; intros E; rewrite E in Hp; discriminate Hp. }
    split.
    - intros X i HX Hpc HtX HsX Hi.
      eapply (exit_adv X i s0 tau fr HX); try assumption.
      + rewrite Hpc, Hi. exact Hok.
      + rewrite HtX. exact Htr.
      + rewrite HsX. exact HS.
    - intros X HX HtX HsX. destruct fr as [|F fr']; [congruence|].
      eapply (exit_brk (-1) X s0 F fr' tau HX).
      + rewrite HtX. exact Htr.
      + exact HT.
      + rewrite HsX. exact HS.
      + exact Hb. }
  assert (Hnx : in_list op plain_ops = true -> sh_at (pc s + zassoc op opcode_size_tbl 0) = Some tau /\ fr <> []).
  { intros Hp. rewrite Hp in Hok. apply is_shape_eq in Hok. split; [exact Hok|].
    apply Hne; intros E; rewrite E in Hp; discriminate Hp. }
  destruct (op =? Stop) eqn:E0; [discriminate H|].
  destruct (op =? Nothing) eqn:E1.
  { (* Nothing *)
    apply Z.eqb_eq in E1. assert (Hne' : fr <> []) by (apply Hne; rewrite E1; discriminate).
    destruct fr as [|F fr']; [congruence|]. eapply (exit_brk (-1) s s0 F fr' tau H); assumption. }
  destruct (op =? Goto) eqn:E2.
  { take E2 Hok. apply is_shape_eq in Hok. binv H. opnd0.
    eapply (exit_goto (-1) s _ s0 tau fr H); try assumption. apply Hne; rewrite E2; discriminate. }
  destruct (op =? Testref) eqn:E3.
  { apply Z.eqb_eq in E3. destruct (Hplain ltac:(rewrite E3; reflexivity)) as [PA PB]. rewrite E3 in PA.
    binv H. match type of H with match ?x with _ => _ end = _ => destruct x as [[|]|] end;
      [|eapply PB; [exact H|reflexivity|reflexivity]|discriminate H].
    eapply PA; [exact H|reflexivity|reflexivity|reflexivity|cbn; lia]. }
  destruct (op =? Lazybranch) eqn:E4.
  { take E4 Hok. apply andb_prop in Hok. destruct Hok as [Hok1 Hok2]. apply is_shape_eq in Hok1.
    binv H. match goal with E : tpush _ _ = Ok ?v |- _ => apply cf_tpush_inv in E; subst v end.
    eapply (exit_adv _ 1 s0 tau ({| f_pc := pc s; f_neg := false; f_data := [tp s] |} :: fr) H).
    - vm_cbn. replace (pc s + 1 + 1) with (pc s + 2) by lia. exact Hok1.
    - vm_cbn. cbn [flatten f_hdr f_neg f_pc f_data app]. rewrite Htr. reflexivity.
    - cbn [TWf]. exists tau. split; [ftype Hw Hsh op E4|exact HT].
    - vm_cbn. apply SWf_ext1. exact HS.
    - destruct fr as [|G fr']; [|apply bottom_cons; [discriminate|exact Hb]].
      destruct (Hnil eq_refl) as [E|E]; [rewrite E; apply bottom_single|].
      exfalso. destruct ty_zero as (w0 & w1 & _ & _ & H01 & Hop1 & _). rewrite E in Hw. rewrite H01 in Hw.
      injection Hw as <-. fold op in Hop1. rewrite E4 in Hop1. discriminate.
    - discriminate. }
  destruct ((op =? Setmark) || (op =? Nullmark)) eqn:E56.
  { assert (Hop : op = Setmark \/ op = Nullmark) by (apply orb_prop in E56; destruct E56 as [X|X]; apply Z.eqb_eq in X; tauto).
    assert (HokS : sh_at (pc s + 1) = Some (KM :: tau)).
    { apply is_shape_eq. destruct Hop as [Ea|Ea]; rewrite Ea in Hok; cbn -[sh_at arg1 is_shape] in Hok; exact Hok. }
    clear Hok. rename HokS into Hok.
    assert (Hfr : frame_type {| f_pc := pc s; f_neg := false; f_data := [] |} = Some (KM :: tau, tau)).
    { unfold frame_type. cbn [f_pc f_neg f_data]. rewrite Hw, Hsh. cbv zeta. fold op. destruct Hop as [->| ->]; reflexivity. }
    assert (Hne' : fr <> []) by (apply Hne; intros EE; rewrite EE in Hop; destruct Hop; discriminate).
    assert (G : forall v, cont (advance p (set_track (set_stack s ([v] ++ stack s)) ([pc s] ++ track (set_stack s ([v] ++ stack s)))) 0) = Ok (Next s0) -> winv s0).
    { intros v HH. eapply (exit_adv _ 0 s0 (KM :: tau) ({| f_pc := pc s; f_neg := false; f_data := [] |} :: fr) HH).
      - vm_cbn. replace (pc s + 0 + 1) with (pc s + 1) by lia. exact Hok.
      - vm_cbn. cbn [flatten f_hdr f_neg f_pc f_data app]. rewrite Htr. reflexivity.
      - cbn [TWf]. exists tau. split; [exact Hfr|exact HT].
      - vm_cbn. cbn [app SWf]. apply SWf_ext1. exact HS.
      - apply bottom_cons; assumption.
      - discriminate. }
    destruct (op =? Setmark); [|destruct (op =? Nullmark); [|destruct Hop as [X|X]; rewrite X in *; discriminate]];
      binv H; pushinv; eapply G; exact H. }
  destruct (op =? Setmark) eqn:E5; [cbn [orb] in E56; discriminate|].
  destruct (op =? Nullmark) eqn:E6; [rewrite orb_true_r in E56; discriminate|]. clear E56.
  destruct ((op =? Getmark) || (op =? Capturemark)) eqn:E78.
  { assert (Hop : op = Getmark \/ op = Capturemark) by (apply orb_prop in E78; destruct E78 as [X|X]; apply Z.eqb_eq in X; tauto).
    assert (HokS : match tau with KM :: t' => is_shape (sh_at (pc s + zassoc op opcode_size_tbl 0)) t' | _ => false end = true).
    { destruct Hop as [Ea|Ea]; rewrite Ea in Hok |- *; cbn -[sh_at arg1 is_shape] in Hok |- *; exact Hok. }
    clear Hok. rename HokS into Hok.
    destruct tau as [|[| |] t']; try discriminate Hok. apply is_shape_eq in Hok.
    assert (Hne' : fr <> []) by (apply Hne; intros EE; rewrite EE in Hop; destruct Hop; discriminate).
    assert (Hfr : forall x, frame_type {| f_pc := pc s; f_neg := false; f_data := [x] |} = Some (t', KM :: t')).
    { intros x. unfold frame_type. cbn [f_pc f_neg f_data]. rewrite Hw, Hsh. cbv zeta. fold op. destruct Hop as [->| ->]; reflexivity. }
    assert (G : forall X x st i, cont (advance p X i) = Ok (Next s0) -> pc X = pc s -> stack s = x :: st ->
                 track X = [pc s; x] ++ track s -> stack X = st -> pc s + i + 1 = pc s + zassoc op opcode_size_tbl 0 -> winv s0).
    { intros X x st i HH Hpc Hst HtX HsX Hi.
      eapply (exit_adv X i s0 t' ({| f_pc := pc s; f_neg := false; f_data := [x] |} :: fr) HH).
      - rewrite Hpc, Hi. exact Hok.
      - rewrite HtX. cbn [flatten f_hdr f_neg f_pc f_data app]. rewrite Htr. reflexivity.
      - cbn [TWf]. exists (KM :: t'). split; [apply Hfr|exact HT].
      - rewrite HsX. apply SWf_ext1. rewrite Hst in HS. exact HS.
      - apply bottom_cons; assumption.
      - discriminate. }
    destruct (op =? Getmark) eqn:E7.
    - apply Z.eqb_eq in E7. destruct (stack s) as [|x st] eqn:Es; [discriminate H|]. binv H. pushinv.
      eapply (G _ x st 0 H); try reflexivity. rewrite E7. cbn. lia.
    - destruct (op =? Capturemark) eqn:E8; [|destruct Hop as [X|X]; rewrite X in *; discriminate].
      apply Z.eqb_eq in E8. binv H.
      match type of H with (if negb ?b then _ else _) = _ => destruct b end; cbn [negb] in H.
      + destruct (stack s) as [|x st] eqn:Es; [discriminate H|]. binv H.
        match goal with E : (if ?c then do_capture _ _ _ _ else do_transfer _ _ _ _ _) = Ok ?v |- _ =>
          assert (Hv : same4 v (set_stack s st)) by (destruct c; [eapply cf_do_capture_inv|eapply cf_do_transfer_inv]; exact E) end.
        destruct Hv as (V1 & V2 & V3 & V4). vm_cbn_in V1. vm_cbn_in V3. vm_cbn_in V4. pushinv.
        eapply (G _ x st 2 H); vm_cbn; try assumption; try reflexivity.
        * rewrite V3. reflexivity.
        * rewrite E8. cbn. lia.
      + destruct fr as [|F fr']; [congruence|]. eapply (exit_brk (-1) s s0 F fr' (KM :: t') H); assumption. }
  destruct (op =? Getmark) eqn:E7; [cbn [orb] in E78; discriminate|].
  destruct (op =? Capturemark) eqn:E8; [rewrite orb_true_r in E78; discriminate|]. clear E78.
  destruct (op =? Branchmark) eqn:E9.
  { apply Z.eqb_eq in E9. rewrite E9 in Hok. cbn -[sh_at arg1 is_shape] in Hok.
    destruct tau as [|[| |] t']; try discriminate Hok. apply andb_prop in Hok. destruct Hok as [Hok1 Hok2].
    apply is_shape_eq in Hok1. apply is_shape_eq in Hok2.
    assert (Hne' : fr <> []) by (apply Hne; intros EE; rewrite E9 in EE; discriminate).
    binv H. opnd0. destruct (stack s) as [|x st] eqn:Es; [discriminate H|].
    match type of H with (if ?b then _ else _) = _ => destruct b end; binv H; pushinv.
    - eapply (exit_goto (-1) _ _ s0 (KM :: t') ({| f_pc := pc s; f_neg := false; f_data := [tp s; x] |} :: fr) H).
      + exact Hok2.
      + vm_cbn. cbn [flatten f_hdr f_neg f_pc f_data app]. rewrite Htr. reflexivity.
      + cbn [TWf]. exists (KM :: t'). split; [ftype Hw Hsh op E9|exact HT].
      + vm_cbn. cbn [app SWf]. apply SWf_ext1. exact HS.
      + apply bottom_cons; assumption.
      + discriminate.
    - eapply (exit_adv _ 1 s0 t' ({| f_pc := pc s; f_neg := true; f_data := [x] |} :: fr) H).
      + vm_cbn. replace (pc s + 1 + 1) with (pc s + 2) by lia. exact Hok1.
      + vm_cbn. cbn [flatten f_hdr f_neg f_pc f_data app]. rewrite Htr. reflexivity.
      + cbn [TWf]. exists (KM :: t'). split; [ftype Hw Hsh op E9|exact HT].
      + vm_cbn. apply SWf_ext1. exact HS.
      + apply bottom_cons; assumption.
      + discriminate. }
  destruct (op =? Lazybranchmark) eqn:E10.
  { apply Z.eqb_eq in E10. rewrite E10 in Hok. cbn -[sh_at arg1 is_shape] in Hok.
    destruct tau as [|[| |] t']; try discriminate Hok. apply andb_prop in Hok. destruct Hok as [Hok1 Hok2].
    apply is_shape_eq in Hok1. apply is_shape_eq in Hok2.
    assert (Hne' : fr <> []) by (apply Hne; intros EE; rewrite E10 in EE; discriminate).
    destruct (stack s) as [|x st] eqn:Es; [discriminate H|]. binv H.
    assert (G : forall F, frame_type F = Some (t', KM :: t') ->
              cont (advance p (set_track (set_stack s st) (f_hdr F :: f_data F ++ track (set_stack s st))) 1) = Ok (Next s0) -> winv s0).
    { intros F HF HH. eapply (exit_adv _ 1 s0 t' (F :: fr) HH).
      - vm_cbn. replace (pc s + 1 + 1) with (pc s + 2) by lia. exact Hok1.
      - vm_cbn. cbn [flatten]. rewrite Htr. reflexivity.
      - cbn [TWf]. exists (KM :: t'). split; [exact HF|exact HT].
      - vm_cbn. apply SWf_ext1. exact HS.
      - apply bottom_cons; assumption.
      - discriminate. }
    match goal with E : (if ?b then _ else _) = Ok ?v |- _ => destruct b; [match type of E with (if ?c then _ else _) = _ => destruct c end|] end;
      pushinv.
    - apply (G {| f_pc := pc s; f_neg := false; f_data := [tp s; x] |}); [ftype Hw Hsh op E10|exact H].
    - apply (G {| f_pc := pc s; f_neg := false; f_data := [tp s; tp s] |}); [ftype Hw Hsh op E10|exact H].
    - apply (G {| f_pc := pc s; f_neg := true; f_data := [0; x] |}); [ftype Hw Hsh op E10|exact H]. }
  destruct ((op =? Setcount)) eqn:E11.
  { apply Z.eqb_eq in E11. rewrite E11 in Hok. cbn -[sh_at arg1 is_shape] in Hok. apply is_shape_eq in Hok.
    assert (Hne' : fr <> []) by (apply Hne; intros EE; rewrite E11 in EE; discriminate).
    binv H. pushinv.
    eapply (exit_adv _ 1 s0 (KC :: tau) ({| f_pc := pc s; f_neg := false; f_data := [] |} :: fr) H).
    - vm_cbn. replace (pc s + 1 + 1) with (pc s + 2) by lia. exact Hok.
    - vm_cbn. cbn [flatten f_hdr f_neg f_pc f_data app]. rewrite Htr. reflexivity.
    - cbn [TWf]. exists tau. split; [ftype Hw Hsh op E11|exact HT].
    - vm_cbn. cbn [app SWf]. apply SWf_ext1. exact HS.
    - apply bottom_cons; assumption.
    - discriminate. }
  destruct ((op =? Nullcount)) eqn:E12.
  { apply Z.eqb_eq in E12. rewrite E12 in Hok. cbn -[sh_at arg1 is_shape] in Hok. apply is_shape_eq in Hok.
    assert (Hne' : fr <> []) by (apply Hne; intros EE; rewrite E12 in EE; discriminate).
    binv H. pushinv.
    eapply (exit_adv _ 1 s0 (KC :: tau) ({| f_pc := pc s; f_neg := false; f_data := [] |} :: fr) H).
    - vm_cbn. replace (pc s + 1 + 1) with (pc s + 2) by lia. exact Hok.
    - vm_cbn. cbn [flatten f_hdr f_neg f_pc f_data app]. rewrite Htr. reflexivity.
    - cbn [TWf]. exists tau. split; [ftype Hw Hsh op E12|exact HT].
    - vm_cbn. cbn [app SWf]. apply SWf_ext1. exact HS.
    - apply bottom_cons; assumption.
    - discriminate. }
  destruct (op =? Branchcount) eqn:E13.
  { apply Z.eqb_eq in E13. rewrite E13 in Hok. cbn -[sh_at arg1 is_shape] in Hok.
    destruct tau as [|[| |] t']; try discriminate Hok. apply andb_prop in Hok. destruct Hok as [Hok1 Hok2].
    apply is_shape_eq in Hok1. apply is_shape_eq in Hok2.
    assert (Hne' : fr <> []) by (apply Hne; intros EE; rewrite E13 in EE; discriminate).
    binv H. opnd0. destruct (stack s) as [|cnt [|mark st]] eqn:Es; try discriminate H.
    match type of H with (if ?b then _ else _) = _ => destruct b end; binv H; pushinv.
    - eapply (exit_adv _ 2 s0 t' ({| f_pc := pc s; f_neg := true; f_data := [cnt; mark] |} :: fr) H).
      + vm_cbn. replace (pc s + 2 + 1) with (pc s + 3) by lia. exact Hok1.
      + vm_cbn. cbn [flatten f_hdr f_neg f_pc f_data app]. rewrite Htr. reflexivity.
      + cbn [TWf]. exists (KC :: t'). split; [ftype Hw Hsh op E13|exact HT].
      + vm_cbn. apply SWf_ext1. exact HS.
      + apply bottom_cons; assumption.
      + discriminate.
    - eapply (exit_goto (-1) _ _ s0 (KC :: t') ({| f_pc := pc s; f_neg := false; f_data := [mark] |} :: fr) H).
      + exact Hok2.
      + vm_cbn. cbn [flatten f_hdr f_neg f_pc f_data app]. rewrite Htr. reflexivity.
      + cbn [TWf]. exists (KC :: t'). split; [ftype Hw Hsh op E13|exact HT].
      + vm_cbn. cbn [app SWf]. apply SWf_ext1. exact HS.
      + apply bottom_cons; assumption.
      + discriminate. }
  destruct (op =? Lazybranchcount) eqn:E14.
  { apply Z.eqb_eq in E14. rewrite E14 in Hok. cbn -[sh_at arg1 is_shape] in Hok.
    destruct tau as [|[| |] t']; try discriminate Hok. apply andb_prop in Hok. destruct Hok as [Hok1 Hok2].
    apply is_shape_eq in Hok1. apply is_shape_eq in Hok2.
    assert (Hne' : fr <> []) by (apply Hne; intros EE; rewrite E14 in EE; discriminate).
    binv H. opnd0. destruct (stack s) as [|cnt [|mark st]] eqn:Es; try discriminate H.
    match type of H with (if ?b then _ else _) = _ => destruct b end; binv H; pushinv.
    - eapply (exit_goto (-1) _ _ s0 (KC :: t') ({| f_pc := pc s; f_neg := true; f_data := [mark] |} :: fr) H).
      + exact Hok2.
      + vm_cbn. cbn [flatten f_hdr f_neg f_pc f_data app]. rewrite Htr. reflexivity.
      + cbn [TWf]. exists (KC :: t'). split; [ftype Hw Hsh op E14|exact HT].
      + vm_cbn. cbn [app SWf]. apply SWf_ext1. exact HS.
      + apply bottom_cons; assumption.
      + discriminate.
    - eapply (exit_adv _ 2 s0 t' ({| f_pc := pc s; f_neg := false; f_data := [tp s; cnt; mark] |} :: fr) H).
      + vm_cbn. replace (pc s + 2 + 1) with (pc s + 3) by lia. exact Hok1.
      + vm_cbn. cbn [flatten f_hdr f_neg f_pc f_data app]. rewrite Htr. reflexivity.
      + cbn [TWf]. exists (KC :: t'). split; [ftype Hw Hsh op E14|exact HT].
      + vm_cbn. apply SWf_ext1. exact HS.
      + apply bottom_cons; assumption.
      + discriminate. }
  destruct (op =? Setjump) eqn:E15.
  { apply Z.eqb_eq in E15. rewrite E15 in Hok. cbn -[sh_at arg1 is_shape] in Hok. apply is_shape_eq in Hok.
    assert (Hne' : fr <> []) by (apply Hne; intros EE; rewrite E15 in EE; discriminate).
    binv H. pushinv.
    eapply (exit_adv _ 0 s0 (KJ :: tau) ({| f_pc := pc s; f_neg := false; f_data := [] |} :: fr) H).
    - vm_cbn. replace (pc s + 0 + 1) with (pc s + 1) by lia. exact Hok.
    - vm_cbn. cbn [flatten f_hdr f_neg f_pc f_data app]. rewrite Htr. reflexivity.
    - cbn [TWf]. exists tau. split; [ftype Hw Hsh op E15|exact HT].
    - vm_cbn. cbn [app SWf]. exists [], {| f_pc := pc s; f_neg := false; f_data := [] |}, fr.
      split; [reflexivity|]. split; [rewrite Htr; reflexivity|]. split; [|exact HS].
      split; [reflexivity|]. split; [exact Hsh|]. exists w. split; [exact Hw|exact E15].
    - apply bottom_cons; assumption.
    - discriminate. }
  destruct (op =? Backjump) eqn:E16.
  { apply Z.eqb_eq in E16. rewrite E16 in Hok. cbn -[sh_at arg1 is_shape] in Hok.
    destruct tau as [|[| |] t']; try discriminate Hok.
    destruct (stack s) as [|cr [|tr st]] eqn:Es; try discriminate H.
    cbn [SWf] in HS. destruct HS as (fu & FJ & f0 & Hfr & Htr' & HJ & HS').
    binv H. subst tr.
    match goal with E : trackto _ _ = Ok ?v |- _ =>
      apply (cf_trackto_inv (set_stack s st) fu FJ f0) in E; [subst v|vm_cbn; rewrite Htr, Hfr; reflexivity] end.
    match goal with E : uncapture_to _ _ _ = Ok ?v |- _ => apply cf_uncapture_to_inv in E; destruct E as (V1 & V2 & V3 & V4) end.
    vm_cbn_in V3. vm_cbn_in V4.
    destruct f0 as [|F f0'].
    - exfalso. apply cf_brk_inv in H. destruct H as (np & T' & Hnp & _). rewrite V3 in Hnp. discriminate Hnp.
    - rewrite Hfr in HT, Hb. eapply (exit_brk (-1) _ s0 F f0' t' H).
      + rewrite V3. reflexivity.
      + eapply TWf_below; eassumption.
      + rewrite V4. exact HS'.
      + eapply bottom_suffix. exact Hb. }
  destruct (op =? Forejump) eqn:E17.
  { apply Z.eqb_eq in E17. rewrite E17 in Hok. cbn -[sh_at arg1 is_shape] in Hok.
    destruct tau as [|[| |] t']; try discriminate Hok. apply is_shape_eq in Hok.
    destruct (stack s) as [|cr [|tr st]] eqn:Es; try discriminate H.
    cbn [SWf] in HS. destruct HS as (fu & FJ & f0 & Hfr & Htr' & HJ & HS').
    binv H. subst tr.
    match goal with E : trackto _ _ = Ok ?v |- _ =>
      apply (cf_trackto_inv (set_stack s st) fu FJ f0) in E; [subst v|vm_cbn; rewrite Htr, Hfr; reflexivity] end.
    pushinv. rewrite Hfr in HT, Hb.
    assert (Hf0 : f0 <> []).
    { intros ->. eapply setjump_not_last; [|exact HJ]. exact Hb. }
    eapply (exit_adv _ 0 s0 t' ({| f_pc := pc s; f_neg := false; f_data := [cr] |} :: f0) H).
    - vm_cbn. replace (pc s + 0 + 1) with (pc s + 1) by lia. exact Hok.
    - vm_cbn. reflexivity.
    - cbn [TWf]. exists t'. split; [ftype Hw Hsh op E17|]. eapply TWf_below; eassumption.
    - vm_cbn. apply SWf_ext1. exact HS'.
    - apply bottom_cons; [exact Hf0|]. eapply bottom_suffix. exact Hb.
    - discriminate. }
  destruct (op =? Bol) eqn:EP0.
  { apply Z.eqb_eq in EP0. destruct (Hplain ltac:(rewrite EP0; reflexivity)) as [PA PB]. rewrite EP0 in PA.
    clear Hok Hplain Hnx Hne. plain_auto H PA PB. }
  destruct (op =? Eol) eqn:EP1.
  { apply Z.eqb_eq in EP1. destruct (Hplain ltac:(rewrite EP1; reflexivity)) as [PA PB]. rewrite EP1 in PA.
    clear Hok Hplain Hnx Hne. plain_auto H PA PB. }
  destruct (op =? Boundary) eqn:EP2.
  { apply Z.eqb_eq in EP2. destruct (Hplain ltac:(rewrite EP2; reflexivity)) as [PA PB]. rewrite EP2 in PA.
    clear Hok Hplain Hnx Hne. plain_auto H PA PB. }
  destruct (op =? Nonboundary) eqn:EP3.
  { apply Z.eqb_eq in EP3. destruct (Hplain ltac:(rewrite EP3; reflexivity)) as [PA PB]. rewrite EP3 in PA.
    clear Hok Hplain Hnx Hne. plain_auto H PA PB. }
  destruct (op =? ECMABoundary) eqn:EP4.
  { apply Z.eqb_eq in EP4. destruct (Hplain ltac:(rewrite EP4; reflexivity)) as [PA PB]. rewrite EP4 in PA.
    clear Hok Hplain Hnx Hne. plain_auto H PA PB. }
  destruct (op =? NonECMABoundary) eqn:EP5.
  { apply Z.eqb_eq in EP5. destruct (Hplain ltac:(rewrite EP5; reflexivity)) as [PA PB]. rewrite EP5 in PA.
    clear Hok Hplain Hnx Hne. plain_auto H PA PB. }
  destruct (op =? Beginning) eqn:EP6.
  { apply Z.eqb_eq in EP6. destruct (Hplain ltac:(rewrite EP6; reflexivity)) as [PA PB]. rewrite EP6 in PA.
    clear Hok Hplain Hnx Hne. plain_auto H PA PB. }
  destruct (op =? Start) eqn:EP7.
  { apply Z.eqb_eq in EP7. destruct (Hplain ltac:(rewrite EP7; reflexivity)) as [PA PB]. rewrite EP7 in PA.
    clear Hok Hplain Hnx Hne. plain_auto H PA PB. }
  destruct (op =? EndZ) eqn:EP8.
  { apply Z.eqb_eq in EP8. destruct (Hplain ltac:(rewrite EP8; reflexivity)) as [PA PB]. rewrite EP8 in PA.
    clear Hok Hplain Hnx Hne. plain_auto H PA PB. }
  destruct (op =? EndOp) eqn:EP9.
  { apply Z.eqb_eq in EP9. destruct (Hplain ltac:(rewrite EP9; reflexivity)) as [PA PB]. rewrite EP9 in PA.
    clear Hok Hplain Hnx Hne. plain_auto H PA PB. }
  destruct ((op =? One) || (op =? Notone) || (op =? SetOp)) eqn:EG1.
  { assert (Hop : op = One \/ op = Notone \/ op = SetOp).
    { apply orb_prop in EG1. destruct EG1 as [X|X]; [apply orb_prop in X; destruct X as [X|X]|]; apply Z.eqb_eq in X; tauto. }
    destruct Hop as [Ea|[Ea|Ea]]; destruct (Hplain ltac:(rewrite Ea; reflexivity)) as [PA PB]; rewrite Ea in PA;
      clear Hok Hplain Hnx Hne EG1; plain_auto H PA PB. }
  destruct (op =? Multi) eqn:EP20.
  { apply Z.eqb_eq in EP20. destruct (Hplain ltac:(rewrite EP20; reflexivity)) as [PA PB]. rewrite EP20 in PA.
    clear Hok Hplain Hnx Hne. plain_auto H PA PB. }
  destruct (op =? Ref) eqn:EP21.
  { apply Z.eqb_eq in EP21. destruct (Hplain ltac:(rewrite EP21; reflexivity)) as [PA PB]. rewrite EP21 in PA.
    clear Hok Hplain Hnx Hne. plain_auto H PA PB. }
  destruct ((op =? Onerep) || (op =? Notonerep) || (op =? Setrep)) eqn:EG2.
  { assert (Hop : op = Onerep \/ op = Notonerep \/ op = Setrep).
    { apply orb_prop in EG2. destruct EG2 as [X|X]; [apply orb_prop in X; destruct X as [X|X]|]; apply Z.eqb_eq in X; tauto. }
    destruct Hop as [Ea|[Ea|Ea]]; destruct (Hplain ltac:(rewrite Ea; reflexivity)) as [PA PB]; rewrite Ea in PA;
      clear Hok Hplain Hnx Hne EG2; plain_auto H PA PB. }
  destruct ((op =? Oneloop) || (op =? Notoneloop) || (op =? Setloop) || (op =? Oneloopatomic) || (op =? Notoneloopatomic) || (op =? Setloopatomic)) eqn:EG3.
  { assert (Hop : op = Oneloop \/ op = Notoneloop \/ op = Setloop \/ op = Oneloopatomic \/ op = Notoneloopatomic \/ op = Setloopatomic).
    { repeat (apply orb_prop in EG3; destruct EG3 as [EG3|X]; [|apply Z.eqb_eq in X; tauto]). apply Z.eqb_eq in EG3. tauto. }
    assert (Hp : in_list op plain_ops = true) by (destruct Hop as [Ea|[Ea|[Ea|[Ea|[Ea|Ea]]]]]; rewrite Ea; reflexivity).
    destruct (Hnx Hp) as [Hnext Hne']. destruct (Hplain Hp) as [PA PB].
    assert (Hsz : zassoc op opcode_size_tbl 0 = 3) by (destruct Hop as [Ea|[Ea|[Ea|[Ea|[Ea|Ea]]]]]; rewrite Ea; reflexivity).
    rewrite Hsz in Hnext, PA.
    binv H. cbv zeta in H.
    match type of H with match ?x with _ => _ end = _ => destruct x as [[i t']|] end; [|discriminate H].
    binv H.
    match goal with E : (if ?b then tpush _ _ else Ok _) = Ok ?v |- _ => destruct b eqn:Eb end.
    - pushinv. apply andb_prop in Eb. destruct Eb as [_ Eat]. 
      assert (Hop3 : op = Oneloop \/ op = Notoneloop \/ op = Setloop).
      { destruct Hop as [Ea|[Ea|[Ea|[Ea|[Ea|Ea]]]]]; try tauto; rewrite Ea in Eat; discriminate Eat. }
      match type of H with cont (advance p (set_track _ ([pc s; ?d1; ?d2] ++ _)) 2) = _ =>
        eapply (exit_adv _ 2 s0 tau ({| f_pc := pc s; f_neg := false; f_data := [d1; d2] |} :: fr) H) end.
      + vm_cbn. replace (pc s + 2 + 1) with (pc s + 3) by lia. exact Hnext.
      + vm_cbn. cbn [flatten f_hdr f_neg f_pc f_data app]. rewrite Htr. reflexivity.
      + cbn [TWf]. exists tau. split; [|exact HT].
        unfold frame_type. cbn [f_pc f_neg f_data]. rewrite Hw, Hsh. cbv zeta. fold op.
        destruct Hop3 as [Ea|[Ea|Ea]]; rewrite Ea; reflexivity.
      + vm_cbn. apply SWf_ext1. exact HS.
      + apply bottom_cons; assumption.
      + discriminate.
    - match goal with E : Ok _ = Ok ?v |- _ => injection E as <- end.
      eapply PA; [exact H|reflexivity|reflexivity|reflexivity|lia]. }
  destruct ((op =? Onelazy) || (op =? Notonelazy) || (op =? Setlazy)) eqn:EG4.
  { assert (Hop : op = Onelazy \/ op = Notonelazy \/ op = Setlazy).
    { apply orb_prop in EG4. destruct EG4 as [X|X]; [apply orb_prop in X; destruct X as [X|X]|]; apply Z.eqb_eq in X; tauto. }
    assert (Hp : in_list op plain_ops = true) by (destruct Hop as [Ea|[Ea|Ea]]; rewrite Ea; reflexivity).
    destruct (Hnx Hp) as [Hnext Hne']. destruct (Hplain Hp) as [PA PB].
    assert (Hsz : zassoc op opcode_size_tbl 0 = 3) by (destruct Hop as [Ea|[Ea|Ea]]; rewrite Ea; reflexivity).
    rewrite Hsz in Hnext, PA.
    binv H. cbv zeta in H. binv H.
    match goal with E : (if ?b then tpush _ _ else Ok _) = Ok ?v |- _ => destruct b eqn:Eb end.
    - pushinv.
      match type of H with cont (advance p (set_track _ ([pc s; ?d1; ?d2] ++ _)) 2) = _ =>
        eapply (exit_adv _ 2 s0 tau ({| f_pc := pc s; f_neg := false; f_data := [d1; d2] |} :: fr) H) end.
      + vm_cbn. replace (pc s + 2 + 1) with (pc s + 3) by lia. exact Hnext.
      + vm_cbn. cbn [flatten f_hdr f_neg f_pc f_data app]. rewrite Htr. reflexivity.
      + cbn [TWf]. exists tau. split; [|exact HT].
        unfold frame_type. cbn [f_pc f_neg f_data]. rewrite Hw, Hsh. cbv zeta. fold op.
        destruct Hop as [Ea|[Ea|Ea]]; rewrite Ea; reflexivity.
      + vm_cbn. apply SWf_ext1. exact HS.
      + apply bottom_cons; assumption.
      + discriminate.
    - match goal with E : Ok _ = Ok ?v |- _ => injection E as <- end.
      eapply PA; [exact H|reflexivity|reflexivity|reflexivity|lia]. }
  destruct (op =? UpdateBumpalong) eqn:EU; [|discriminate H].
  apply Z.eqb_eq in EU.
  assert (Hp : in_list op plain_ops = true) by (rewrite EU; reflexivity).
  destruct (Hnx Hp) as [Hnext Hne']. destruct (Hplain Hp) as [PA PB]. rewrite EU in Hnext, PA.
  change (zassoc UpdateBumpalong opcode_size_tbl 0) with 1 in Hnext, PA.
  destruct Hb as [Hb|(fr' & x & Hb)]; [congruence|].
  assert (Hrev : rev (track s) = x :: 0 :: rev (flatten fr')).
  { rewrite Htr, Hb. change [{| f_pc := 0; f_neg := false; f_data := [x] |}] with [fbot x].
    rewrite flatten_bottom, rev_app_distr. reflexivity. }
  rewrite Hrev in H.
  assert (G : cont (advance p (set_track s (rev (tp s :: 0 :: rev (flatten fr')))) 0) = Ok (Next s0) -> winv s0).
  { intros HH. eapply (exit_adv _ 0 s0 tau (fr' ++ [fbot (tp s)]) HH).
    - vm_cbn. replace (pc s + 0 + 1) with (pc s + 1) by lia. exact Hnext.
    - vm_cbn. rewrite flatten_bottom. cbn [rev]. rewrite rev_involutive, <- app_assoc. reflexivity.
    - apply (TWf_rebottom fr' tau x). change [fbot x] with [{| f_pc := 0; f_neg := false; f_data := [x] |}]. rewrite <- Hb. exact HT.
    - vm_cbn. apply (SWf_rebottom _ tau fr' x). change [fbot x] with [{| f_pc := 0; f_neg := false; f_data := [x] |}]. rewrite <- Hb. exact HS.
    - right. exists fr', (tp s). reflexivity.
    - destruct fr'; discriminate. }
  destruct (zlen (track s) =? tcap s); destruct (x <? tp s);
    first [exact (G H) | eapply PA; [exact H|reflexivity|reflexivity|reflexivity|lia]].
Qed.


(* ---------- one step, Back mode ---------- *)
Lemma SWf_pop_setjump S t F fr cr tr : SWf (cr :: tr :: S) (KJ :: t) (F :: fr) -> SWf S t fr.
Proof.
  cbn [SWf]. intros (fu & FJ & f0 & Hfr & _ & _ & H). destruct fu as [|G fu]; cbn [app] in Hfr.
  - injection Hfr as _ ->. exact H.
  - injection Hfr as _ ->. replace (fu ++ FJ :: f0) with ((fu ++ [FJ]) ++ f0) by (rewrite <- app_assoc; reflexivity).
    apply SWf_ext. exact H.
Qed.

Ltac ftinv Hft Hw Hshp op E :=
  unfold frame_type in Hft; rewrite Hw, Hshp in Hft; cbv zeta in Hft; fold op in Hft; rewrite E in Hft;
  cbn -[zlen] in Hft.

Lemma winv_back s s0 : winv s -> mode s = BackBit -> step e p (-1) s = Ok (Next s0) -> winv s0.
Proof.
  intros (fr & tau & HT & HS & Hb & Hm) Hmd H. rewrite Hmd in Hm. change (BackBit =? 0) with false in Hm. cbv iota in Hm.
  destruct Hm as (F & fr' & -> & Hpc & Hneg & Htr). change (BackBit =? BackBit) with true in Hneg. cbn [negb] in Hneg.
  cbn [TWf] in HT. destruct HT as (pre & Hft & HT).
  destruct (frame_type_instr _ _ _ Hft) as (w & tp0 & Hw & Hshp).
  pose proof (ty_instr _ _ Hw) as Hok. unfold instr_ok in Hok. rewrite Hshp in Hok. cbv zeta in Hok.
  destruct (instr_at_bnd _ _ Hw) as [_ Hcode]. rewrite Hpc in Hcode, Hok.
  unfold step in H. rewrite Hcode in H. cbv zeta in H. rewrite Hmd in H.
  change (BackBit =? 0) with false in H. change (BackBit =? BackBit) with true in H. cbv iota in H.
  rewrite opsize_of in Hok.
  set (op := Z.land w 63) in *.
  assert (Hopf : op_of F = Some op) by (unfold op_of; rewrite Hw; reflexivity).
  pose proof (bottom_tail _ _ Hb) as Hb'.
  (* the frame being resumed is not the bottom frame unless it is the Lazybranch at 0 *)
  assert (Hnb : op <> Lazybranch -> fr' <> []).
  { intros N ->. destruct (bottom_singleton _ Hb) as [x ->]. cbn [f_pc] in Hw.
    destruct ty_zero as (w0 & w1 & H00 & Hop0 & _). rewrite H00 in Hw. injection Hw as <-. apply N. exact Hop0. }
  destruct (op =? Lazybranch) eqn:E1.
  { apply Z.eqb_eq in E1. ftinv Hft Hw Hshp op E1. rewrite Hneg in Hft. cbn [negb andb] in Hft.
    destruct (zlen (f_data F) =? 1) eqn:Ez; [|discriminate Hft]. injection Hft as <- <-.
    destruct (zl1 (f_data F) ltac:(lia)) as [x Ed]. rewrite Ed in Htr. cbn [app] in Htr.
    rewrite E1 in Hok. cbn -[sh_at arg1 is_shape] in Hok. apply andb_prop in Hok. destruct Hok as [_ Hok2]. apply is_shape_eq in Hok2.
    rewrite Htr in H. binv H. opnd0.
    eapply (exit_goto0 (-1) _ _ s0 tp0 fr' H).
    - exact Hok2.
    - vm_cbn. reflexivity.
    - exact HT.
    - vm_cbn. eapply SWf_pop; [|exact HS]. rewrite Hopf, E1. discriminate.
    - exact Hb'.
    - intros ->. destruct (bottom_singleton _ Hb) as [y ->]. cbn [f_pc] in Hpc. rewrite <- Hpc. right. reflexivity. }
  assert (Hne' : fr' <> []) by (apply Hnb; intros EE; rewrite EE in E1; discriminate). clear Hnb.
  destruct ((op =? Setmark) || (op =? Nullmark)) eqn:E23.
  { assert (Hop : op = Setmark \/ op = Nullmark) by (apply orb_prop in E23; destruct E23 as [X|X]; apply Z.eqb_eq in X; tauto).
    assert (Hft' : tau = KM :: tp0 /\ pre = tp0 /\ f_data F = []).
    { destruct Hop as [Ea|Ea]; ftinv Hft Hw Hshp op Ea; rewrite Hneg in Hft; cbn [negb andb] in Hft;
        (destruct (zlen (f_data F) =? 0) eqn:Ez; [|discriminate Hft]); injection Hft as <- <-;
        (split; [reflexivity|]); (split; [reflexivity|]); apply zl0; lia. }
    destruct Hft' as (-> & -> & Ed). rewrite Ed in Htr. cbn [app] in Htr.
    destruct (stack s) as [|x st] eqn:Es; [discriminate H|].
    eapply (exit_brk_any (-1) _ s0 fr' tp0 H).
    - vm_cbn. exact Htr.
    - exact HT.
    - vm_cbn. eapply SWf_pop; [|exact HS]. rewrite Hopf. destruct Hop as [->| ->]; discriminate.
    - exact Hb'. }
  destruct (op =? Getmark) eqn:E4.
  { apply Z.eqb_eq in E4. ftinv Hft Hw Hshp op E4. destruct tp0 as [|[| |] t']; try discriminate Hft.
    rewrite Hneg in Hft. cbn [negb andb] in Hft.
    destruct (zlen (f_data F) =? 1) eqn:Ez; [|discriminate Hft]. injection Hft as <- <-.
    destruct (zl1 (f_data F) ltac:(lia)) as [x Ed]. rewrite Ed in Htr. cbn [app] in Htr.
    rewrite Htr in H. binv H. pushinv.
    eapply (exit_brk_any (-1) _ s0 fr' (KM :: t') H).
    - vm_cbn. reflexivity.
    - exact HT.
    - vm_cbn. cbn [app SWf]. eapply SWf_pop; [|exact HS]. rewrite Hopf, E4. discriminate.
    - exact Hb'. }
  destruct (op =? Capturemark) eqn:E5.
  { apply Z.eqb_eq in E5. ftinv Hft Hw Hshp op E5. destruct tp0 as [|[| |] t']; try discriminate Hft.
    rewrite Hneg in Hft. cbn [negb andb] in Hft.
    destruct (zlen (f_data F) =? 1) eqn:Ez; [|discriminate Hft]. injection Hft as <- <-.
    destruct (zl1 (f_data F) ltac:(lia)) as [x Ed]. rewrite Ed in Htr. cbn [app] in Htr.
    rewrite Htr in H. binv H. pushinv.
    match goal with E : uncapture _ = Ok ?v |- _ => apply cf_uncapture_inv in E; destruct E as (_ & _ & V3 & V4) end.
    assert (V : exists u, brk p (-1) u = Ok (Next s0) /\ track u = flatten fr' /\ stack u = x :: stack s).
    { match goal with E : (if ?b then uncapture ?v else Ok ?v) = Ok ?u |- _ => destruct b;
        [apply cf_uncapture_inv in E; destruct E as (_ & _ & U3 & U4); exists u; rewrite U3, U4, V3, V4
        |injection E as <-; exists v; rewrite V3, V4] end;
      vm_cbn; (split; [exact H|split; reflexivity]). }
    destruct V as (u & Hu & Ut & Us).
    eapply (exit_brk_any (-1) u s0 fr' (KM :: t') Hu).
    - exact Ut.
    - exact HT.
    - rewrite Us. cbn [SWf]. eapply SWf_pop; [|exact HS]. rewrite Hopf, E5. discriminate.
    - exact Hb'. }
  destruct (op =? Branchmark) eqn:E6.
  { apply Z.eqb_eq in E6. ftinv Hft Hw Hshp op E6. destruct tp0 as [|[| |] t']; try discriminate Hft.
    rewrite Hneg in Hft. destruct (zlen (f_data F) =? 2) eqn:Ez; [|discriminate Hft]. injection Hft as <- <-.
    destruct (zl2 (f_data F) ltac:(lia)) as (t2 & t1 & Ed). rewrite Ed in Htr. cbn [app] in Htr.
    rewrite E6 in Hok. cbn -[sh_at arg1 is_shape] in Hok. apply andb_prop in Hok. destruct Hok as [Hok1 _]. apply is_shape_eq in Hok1.
    rewrite Htr in H. destruct (stack s) as [|x st] eqn:Es; [discriminate H|]. binv H. pushinv.
    eapply (exit_adv _ 1 s0 t' ({| f_pc := pc s; f_neg := true; f_data := [t1] |} :: fr') H).
    - vm_cbn. replace (pc s + 1 + 1) with (pc s + 2) by lia. exact Hok1.
    - vm_cbn. reflexivity.
    - cbn [TWf]. exists (KM :: t'). split; [|exact HT].
      unfold frame_type. cbn [f_pc f_neg f_data]. rewrite <- Hpc, Hw, Hshp. cbv zeta. fold op. rewrite E6. reflexivity.
    - vm_cbn. apply SWf_ext1. eapply SWf_pop; [|exact HS]. rewrite Hopf, E6. discriminate.
    - apply bottom_cons; assumption.
    - discriminate. }
  destruct (op =? Lazybranchmark) eqn:E7.
  { apply Z.eqb_eq in E7. ftinv Hft Hw Hshp op E7. destruct tp0 as [|[| |] t']; try discriminate Hft.
    rewrite Hneg in Hft. destruct (zlen (f_data F) =? 2) eqn:Ez; [|discriminate Hft]. injection Hft as <- <-.
    destruct (zl2 (f_data F) ltac:(lia)) as (t2 & t1 & Ed). rewrite Ed in Htr. cbn [app] in Htr.
    rewrite E7 in Hok. cbn -[sh_at arg1 is_shape] in Hok. apply andb_prop in Hok. destruct Hok as [_ Hok2]. apply is_shape_eq in Hok2.
    rewrite Htr in H. binv H. opnd0. pushinv.
    eapply (exit_goto (-1) _ _ s0 (KM :: t') ({| f_pc := pc s; f_neg := true; f_data := [1; t1] |} :: fr') H).
    - exact Hok2.
    - vm_cbn. reflexivity.
    - cbn [TWf]. exists (KM :: t'). split; [|exact HT].
      unfold frame_type. cbn [f_pc f_neg f_data]. rewrite <- Hpc, Hw, Hshp. cbv zeta. fold op. rewrite E7. reflexivity.
    - vm_cbn. cbn [app SWf]. apply SWf_ext1. eapply SWf_pop; [|exact HS]. rewrite Hopf, E7. discriminate.
    - apply bottom_cons; assumption.
    - discriminate. }
  destruct ((op =? Setcount) || (op =? Nullcount)) eqn:E89.
  { assert (Hop : op = Setcount \/ op = Nullcount) by (apply orb_prop in E89; destruct E89 as [X|X]; apply Z.eqb_eq in X; tauto).
    assert (Hft' : tau = KC :: tp0 /\ pre = tp0 /\ f_data F = []).
    { destruct Hop as [Ea|Ea]; ftinv Hft Hw Hshp op Ea; rewrite Hneg in Hft; cbn [negb andb] in Hft;
        (destruct (zlen (f_data F) =? 0) eqn:Ez; [|discriminate Hft]); injection Hft as <- <-;
        (split; [reflexivity|]); (split; [reflexivity|]); apply zl0; lia. }
    destruct Hft' as (-> & -> & Ed). rewrite Ed in Htr. cbn [app] in Htr.
    destruct (stack s) as [|x [|y st]] eqn:Es; try discriminate H.
    eapply (exit_brk_any (-1) _ s0 fr' tp0 H).
    - vm_cbn. exact Htr.
    - exact HT.
    - vm_cbn. eapply SWf_pop; [|exact HS]. rewrite Hopf. destruct Hop as [->| ->]; discriminate.
    - exact Hb'. }
  destruct (op =? Branchcount) eqn:E10.
  { apply Z.eqb_eq in E10. ftinv Hft Hw Hshp op E10. destruct tp0 as [|[| |] t']; try discriminate Hft.
    rewrite Hneg in Hft. destruct (zlen (f_data F) =? 1) eqn:Ez; [|discriminate Hft]. injection Hft as <- <-.
    destruct (zl1 (f_data F) ltac:(lia)) as (t1 & Ed). rewrite Ed in Htr. cbn [app] in Htr.
    rewrite E10 in Hok. cbn -[sh_at arg1 is_shape] in Hok. apply andb_prop in Hok. destruct Hok as [Hok1 _]. apply is_shape_eq in Hok1.
    rewrite Htr in H. destruct (stack s) as [|cnt [|mark st]] eqn:Es; try discriminate H. cbv zeta in H.
    assert (HS' : SWf st t' fr').
    { eapply SWf_pop; [|exact HS]. rewrite Hopf, E10. discriminate. }
    match type of H with (if ?b then _ else _) = _ => destruct b end; binv H; pushinv.
    - eapply (exit_adv _ 2 s0 t' ({| f_pc := pc s; f_neg := true; f_data := [cnt - 1; t1] |} :: fr') H).
      + vm_cbn. replace (pc s + 2 + 1) with (pc s + 3) by lia. exact Hok1.
      + vm_cbn. reflexivity.
      + cbn [TWf]. exists (KC :: t'). split; [|exact HT].
        unfold frame_type. cbn [f_pc f_neg f_data]. rewrite <- Hpc, Hw, Hshp. cbv zeta. fold op. rewrite E10. reflexivity.
      + vm_cbn. apply SWf_ext1. exact HS'.
      + apply bottom_cons; assumption.
      + discriminate.
    - eapply (exit_brk_any (-1) _ s0 fr' (KC :: t') H).
      + vm_cbn. reflexivity.
      + exact HT.
      + vm_cbn. cbn [app SWf]. exact HS'.
      + exact Hb'. }
  destruct (op =? Lazybranchcount) eqn:E11.
  { apply Z.eqb_eq in E11. ftinv Hft Hw Hshp op E11. destruct tp0 as [|[| |] t']; try discriminate Hft.
    rewrite Hneg in Hft. destruct (zlen (f_data F) =? 3) eqn:Ez; [|discriminate Hft]. injection Hft as <- <-.
    destruct (zl3 (f_data F) ltac:(lia)) as (t3 & t2 & t1 & Ed). rewrite Ed in Htr. cbn [app] in Htr.
    rewrite E11 in Hok. cbn -[sh_at arg1 is_shape] in Hok. apply andb_prop in Hok. destruct Hok as [_ Hok2]. apply is_shape_eq in Hok2.
    rewrite Htr in H. binv H. opnd0. cbv zeta in H.
    assert (HS' : SWf (stack s) t' fr').
    { eapply SWf_pop; [|exact HS]. rewrite Hopf, E11. discriminate. }
    match type of H with (if ?b then _ else _) = _ => destruct b end; binv H; pushinv.
    - eapply (exit_goto (-1) _ _ s0 (KC :: t') ({| f_pc := pc s; f_neg := true; f_data := [t1] |} :: fr') H).
      + exact Hok2.
      + vm_cbn. reflexivity.
      + cbn [TWf]. exists (KC :: t'). split; [|exact HT].
        unfold frame_type. cbn [f_pc f_neg f_data]. rewrite <- Hpc, Hw, Hshp. cbv zeta. fold op. rewrite E11. reflexivity.
      + vm_cbn. cbn [app SWf]. apply SWf_ext1. exact HS'.
      + apply bottom_cons; assumption.
      + discriminate.
    - eapply (exit_brk_any (-1) _ s0 fr' (KC :: t') H).
      + vm_cbn. reflexivity.
      + exact HT.
      + vm_cbn. cbn [app SWf]. exact HS'.
      + exact Hb'. }
  destruct (op =? Setjump) eqn:E12.
  { apply Z.eqb_eq in E12. ftinv Hft Hw Hshp op E12. rewrite Hneg in Hft. cbn [negb andb] in Hft.
    destruct (zlen (f_data F) =? 0) eqn:Ez; [|discriminate Hft]. injection Hft as <- <-.
    rewrite (zl0 (f_data F) ltac:(lia)) in Htr. cbn [app] in Htr.
    destruct (stack s) as [|cr [|tr st]] eqn:Es; try discriminate H.
    eapply (exit_brk_any (-1) _ s0 fr' tp0 H).
    - vm_cbn. exact Htr.
    - exact HT.
    - vm_cbn. eapply SWf_pop_setjump. exact HS.
    - exact Hb'. }
  destruct (op =? Forejump) eqn:E13.
  { apply Z.eqb_eq in E13. ftinv Hft Hw Hshp op E13. destruct tp0 as [|[| |] t']; try discriminate Hft.
    rewrite Hneg in Hft. cbn [negb andb] in Hft.
    destruct (zlen (f_data F) =? 1) eqn:Ez; [|discriminate Hft]. injection Hft as <- <-.
    destruct (zl1 (f_data F) ltac:(lia)) as (x & Ed). rewrite Ed in Htr. cbn [app] in Htr.
    rewrite Htr in H. binv H.
    match goal with E : uncapture_to _ _ _ = Ok ?v |- _ => apply cf_uncapture_to_inv in E; destruct E as (_ & _ & V3 & V4) end.
    vm_cbn_in V3. vm_cbn_in V4.
    eapply (exit_brk_any (-1) _ s0 fr' t' H).
    - exact V3.
    - exact HT.
    - rewrite V4. eapply SWf_pop; [|exact HS]. rewrite Hopf, E13. discriminate.
    - exact Hb'. }
  assert (Hloop : forall (Hop : (3 <=? op) && (op <=? 8) = true),
            in_list op plain_ops = true /\ zassoc op opcode_size_tbl 0 = 3 /\ tau = tp0 /\ pre = tp0 /\
            exists t2 t1, f_data F = [t2; t1]).
  { intros Hop. assert (Hv : op = 3 \/ op = 4 \/ op = 5 \/ op = 6 \/ op = 7 \/ op = 8) by lia.
    assert (G : in_list op plain_ops = true /\ zassoc op opcode_size_tbl 0 = 3 /\
                frame_type F = (if negb (f_neg F) && (zlen (f_data F) =? 2) then Some (tp0, tp0) else None)).
    { unfold frame_type. rewrite Hw, Hshp. cbv zeta. fold op.
      destruct Hv as [Ea|[Ea|[Ea|[Ea|[Ea|Ea]]]]]; rewrite Ea; repeat split. }
    destruct G as (G1 & G2 & G3). rewrite G3, Hneg in Hft. cbn [negb andb] in Hft.
    destruct (zlen (f_data F) =? 2) eqn:Ez; [|discriminate Hft]. injection Hft as <- <-.
    split; [exact G1|]. split; [exact G2|]. split; [reflexivity|]. split; [reflexivity|]. apply zl2. lia. }
  assert (Hfrm : forall (Hop : (3 <=? op) && (op <=? 8) = true) d1 d2,
            frame_type {| f_pc := pc s; f_neg := false; f_data := [d1; d2] |} = Some (tp0, tp0)).
  { intros Hop d1 d2. assert (Hv : op = 3 \/ op = 4 \/ op = 5 \/ op = 6 \/ op = 7 \/ op = 8) by lia.
    unfold frame_type. cbn [f_pc f_neg f_data]. rewrite <- Hpc, Hw, Hshp. cbv zeta. fold op.
    destruct Hv as [Ea|[Ea|[Ea|[Ea|[Ea|Ea]]]]]; rewrite Ea; reflexivity. }
  assert (HSp : op <> Setjump -> SWf (stack s) tau fr').
  { intros N. eapply SWf_pop; [|exact HS]. rewrite Hopf. congruence. }
  destruct ((op =? Oneloop) || (op =? Notoneloop) || (op =? Setloop)) eqn:EL1.
  { assert (Hr : (3 <=? op) && (op <=? 8) = true).
    { apply orb_prop in EL1. destruct EL1 as [X|X]; [apply orb_prop in X; destruct X as [X|X]|]; apply Z.eqb_eq in X; rewrite X; reflexivity. }
    destruct (Hloop Hr) as (Hp & Hsz & -> & -> & t2 & t1 & Ed). rewrite Hp in Hok. apply is_shape_eq in Hok. rewrite Hsz in Hok.
    rewrite Ed in Htr. cbn [app] in Htr. rewrite Htr in H. binv H.
    assert (HS' : SWf (stack s) tp0 fr') by (apply HSp; intros EE; rewrite EE in Hr; discriminate Hr).
    match goal with E : (if ?b then tpush _ _ else Ok _) = Ok ?v |- _ => destruct b end.
    - pushinv.
      match type of H with cont (advance p (set_track _ ([pc s; ?d1; ?d2] ++ _)) 2) = _ =>
        eapply (exit_adv _ 2 s0 tp0 ({| f_pc := pc s; f_neg := false; f_data := [d1; d2] |} :: fr') H) end.
      + vm_cbn. replace (pc s + 2 + 1) with (pc s + 3) by lia. exact Hok.
      + vm_cbn. reflexivity.
      + cbn [TWf]. exists tp0. split; [apply Hfrm; exact Hr|exact HT].
      + vm_cbn. apply SWf_ext1. exact HS'.
      + apply bottom_cons; assumption.
      + discriminate.
    - match goal with E : Ok _ = Ok ?v |- _ => injection E as <- end.
      eapply (exit_adv _ 2 s0 tp0 fr' H); try assumption.
      + vm_cbn. replace (pc s + 2 + 1) with (pc s + 3) by lia. exact Hok.
      + vm_cbn. reflexivity. }
  destruct ((op =? Onelazy) || (op =? Notonelazy) || (op =? Setlazy)) eqn:EL2; [|discriminate H].
  assert (Hr : (3 <=? op) && (op <=? 8) = true).
  { apply orb_prop in EL2. destruct EL2 as [X|X]; [apply orb_prop in X; destruct X as [X|X]|]; apply Z.eqb_eq in X; rewrite X; reflexivity. }
  destruct (Hloop Hr) as (Hp & Hsz & -> & -> & t2 & t1 & Ed). rewrite Hp in Hok. apply is_shape_eq in Hok. rewrite Hsz in Hok.
  rewrite Ed in Htr. cbn [app] in Htr. rewrite Htr in H. binv H.
  assert (HS' : SWf (stack s) tp0 fr') by (apply HSp; intros EE; rewrite EE in Hr; discriminate Hr).
  match type of H with match ?sc with _ => _ end = _ => destruct sc as [[xc t']|] end; [|discriminate H].
  cbv zeta in H.
  match type of H with (if ?b then _ else _) = _ => destruct b end.
  - binv H. match goal with E : (if ?b then tpush _ _ else Ok _) = Ok ?v |- _ => destruct b end.
    + pushinv.
      match type of H with cont (advance p (set_track _ ([pc s; ?d1; ?d2] ++ _)) 2) = _ =>
        eapply (exit_adv _ 2 s0 tp0 ({| f_pc := pc s; f_neg := false; f_data := [d1; d2] |} :: fr') H) end.
      * vm_cbn. replace (pc s + 2 + 1) with (pc s + 3) by lia. exact Hok.
      * vm_cbn. reflexivity.
      * cbn [TWf]. exists tp0. split; [apply Hfrm; exact Hr|exact HT].
      * vm_cbn. apply SWf_ext1. exact HS'.
      * apply bottom_cons; assumption.
      * discriminate.
    + match goal with E : Ok _ = Ok ?v |- _ => injection E as <- end.
      eapply (exit_adv _ 2 s0 tp0 fr' H); try assumption.
      * vm_cbn. replace (pc s + 2 + 1) with (pc s + 3) by lia. exact Hok.
      * vm_cbn. reflexivity.
  - eapply (exit_brk_any (-1) _ s0 fr' tp0 H).
    + vm_cbn. reflexivity.
    + exact HT.
    + vm_cbn. exact HS'.
    + exact Hb'.
Qed.

(* ---------- one step, Back2 mode ---------- *)
Lemma winv_back2 s s0 : winv s -> mode s <> 0 -> mode s <> BackBit -> step e p (-1) s = Ok (Next s0) -> winv s0.
Proof.
  intros (fr & tau & HT & HS & Hb & Hm) Hmd0 Hmd1 H.
  replace (mode s =? 0) with false in Hm by lia. replace (mode s =? BackBit) with false in Hm by lia.
  destruct Hm as (F & fr' & -> & Hpc & Hneg & Htr). cbn [negb] in Hneg.
  cbn [TWf] in HT. destruct HT as (pre & Hft & HT).
  destruct (frame_type_instr _ _ _ Hft) as (w & tp0 & Hw & Hshp).
  destruct (instr_at_bnd _ _ Hw) as [_ Hcode]. rewrite Hpc in Hcode.
  unfold step in H. rewrite Hcode in H. cbv zeta in H.
  replace (mode s =? 0) with false in H by lia. replace (mode s =? BackBit) with false in H by lia.
  set (op := Z.land w 63) in *.
  assert (Hopf : op_of F = Some op) by (unfold op_of; rewrite Hw; reflexivity).
  pose proof (bottom_tail _ _ Hb) as Hb'.
  assert (HSp : op <> Setjump -> SWf (stack s) tau fr').
  { intros N. eapply SWf_pop; [|exact HS]. rewrite Hopf. congruence. }
  destruct (op =? Branchmark) eqn:E1.
  { apply Z.eqb_eq in E1. ftinv Hft Hw Hshp op E1. destruct tp0 as [|[| |] t']; try discriminate Hft.
    rewrite Hneg in Hft. destruct (zlen (f_data F) =? 1) eqn:Ez; [|discriminate Hft]. injection Hft as <- <-.
    destruct (zl1 (f_data F) ltac:(lia)) as (x & Ed). rewrite Ed in Htr. cbn [app] in Htr.
    rewrite Htr in H. binv H. pushinv.
    eapply (exit_brk_any (-1) _ s0 fr' (KM :: t') H).
    - vm_cbn. reflexivity.
    - exact HT.
    - vm_cbn. cbn [app SWf]. apply HSp. rewrite E1. discriminate.
    - exact Hb'. }
  destruct (op =? Lazybranchmark) eqn:E2.
  { apply Z.eqb_eq in E2. ftinv Hft Hw Hshp op E2. destruct tp0 as [|[| |] t']; try discriminate Hft.
    rewrite Hneg in Hft. destruct (f_data F) as [|fl [|t1 [|? ?]]] eqn:Ed; try discriminate Hft.
    cbn [app] in Htr. rewrite Htr in H. cbv zeta in H.
    destruct (fl =? 0) eqn:Efl; injection Hft as <- <-; cbn [negb] in H.
    - binv H. match goal with E : Ok _ = Ok ?v |- _ => injection E as <- end. pushinv.
      eapply (exit_brk_any (-1) _ s0 fr' (KM :: t') H).
      + vm_cbn. reflexivity.
      + exact HT.
      + vm_cbn. cbn [app SWf]. apply HSp. rewrite E2. discriminate.
      + exact Hb'.
    - binv H. pose proof (HSp ltac:(rewrite E2; discriminate)) as HS'.
      match goal with E : match stack ?u with _ => _ end = Ok ?v |- _ => vm_cbn_in E; destruct (stack s) as [|y st] eqn:Es; [discriminate E|]; injection E as <- end.
      pushinv.
      eapply (exit_brk_any (-1) _ s0 fr' (KM :: t') H).
      + vm_cbn. reflexivity.
      + exact HT.
      + vm_cbn. cbn [app SWf]. cbn [SWf] in HS'. exact HS'.
      + exact Hb'. }
  destruct (op =? Branchcount) eqn:E3.
  { apply Z.eqb_eq in E3. ftinv Hft Hw Hshp op E3. destruct tp0 as [|[| |] t']; try discriminate Hft.
    rewrite Hneg in Hft. destruct (zlen (f_data F) =? 2) eqn:Ez; [|discriminate Hft]. injection Hft as <- <-.
    destruct (zl2 (f_data F) ltac:(lia)) as (t2 & t1 & Ed). rewrite Ed in Htr. cbn [app] in Htr.
    rewrite Htr in H. binv H. pushinv.
    eapply (exit_brk_any (-1) _ s0 fr' (KC :: t') H).
    - vm_cbn. reflexivity.
    - exact HT.
    - vm_cbn. cbn [app SWf]. apply HSp. rewrite E3. discriminate.
    - exact Hb'. }
  destruct (op =? Lazybranchcount) eqn:E4; [|discriminate H].
  apply Z.eqb_eq in E4. ftinv Hft Hw Hshp op E4. destruct tp0 as [|[| |] t']; try discriminate Hft.
  rewrite Hneg in Hft. destruct (zlen (f_data F) =? 1) eqn:Ez; [|discriminate Hft]. injection Hft as <- <-.
  destruct (zl1 (f_data F) ltac:(lia)) as (t1 & Ed). rewrite Ed in Htr. cbn [app] in Htr.
  rewrite Htr in H. destruct (stack s) as [|cnt [|mk st]] eqn:Es; try discriminate H. binv H. pushinv.
  pose proof (HSp ltac:(rewrite E4; discriminate)) as HS'.
  eapply (exit_brk_any (-1) _ s0 fr' (KC :: t') H).
  - vm_cbn. reflexivity.
  - exact HT.
  - vm_cbn. cbn [app SWf]. cbn [SWf] in HS'. exact HS'.
  - exact Hb'.
Qed.


(* ---------- every successful step of the unbounded-stack interpreter keeps the invariant ---------- *)
Lemma winv_same4 a b : pc a = pc b -> mode a = mode b -> track a = track b -> stack a = stack b -> winv a -> winv b.
Proof. unfold winv. intros -> -> -> ->. exact (fun H => H). Qed.

Lemma winv_step s s0 : winv s -> step e p (-1) s = Ok (Next s0) -> winv s0.
Proof.
  intros Hi H. destruct (Z.eq_dec (mode s) 0) as [E0|N0]; [exact (winv_fwd s s0 Hi E0 H)|].
  destruct (Z.eq_dec (mode s) BackBit) as [E1|N1]; [exact (winv_back s s0 Hi E1 H)|].
  exact (winv_back2 s s0 Hi N0 N1 H).
Qed.

Lemma winv_ustep s s' : winv s -> ustep e p s = Ok (Next s') -> winv s'.
Proof.
  intros Hi H. unfold ustep in H.
  destruct (step e p (-1) (repad p s)) as [[s0|s0|c|w]| | |] eqn:E; try discriminate. injection H as <-.
  assert (Hi' : winv (repad p s)) by (eapply winv_same4; [| | | |exact Hi]; reflexivity).
  pose proof (winv_step _ _ Hi' E) as G. eapply winv_same4; [| | | |exact G]; reflexivity.
Qed.

Lemma winv_init t : winv (a0 p t).
Proof.
  destruct ty_zero as (w0 & w1 & H00 & Hop0 & H01 & Hop1 & Hs0).
  exists [], []. split; [exact I|]. split; [exact I|]. split; [left; reflexivity|].
  cbn [a0 VMU.mk mode pc track]. change (0 =? 0) with true. cbv iota.
  split; [exact Hs0|]. split; [reflexivity|]. intros _. left. reflexivity.
Qed.

Theorem cf_path_ok t : path_ok e p (a0 p t).
Proof.
  intros s Hs. apply winv_good. apply clos_rt_rt1n in Hs.
  assert (G : forall a b, clos_refl_trans_1n vm (ustep1 e p) a b -> winv a -> winv b).
  { induction 1 as [a|a b c Hab _ IH]; intros Ha; [exact Ha|]. apply IH. eapply winv_ustep; eassumption. }
  exact (G _ _ Hs (winv_init t)).
Qed.

End CF.

(* ---------- a shape assignment computed from the code (one forward pass) ---------- *)
Section Infer.
Variable p : program.

Definition sh_add (pc : Z) (t : shape) (known : list (Z * shape)) : list (Z * shape) :=
  match sh_get pc known with Some _ => known | None => known ++ [(pc, t)] end.

Definition infer_step (known : list (Z * shape)) (co : Z * Z) : list (Z * shape) :=
  let pc0 := fst co in let w := snd co in
  match sh_get pc0 known with
  | None => known
  | Some tp =>
      let op := Z.land w 63 in
      let nx := pc0 + opcode_size w in
      let tg := arg1 p pc0 in
      if in_list op plain_ops then sh_add nx tp known
      else if (op =? Stop) || (op =? Nothing) || (op =? Backjump) then known
      else if op =? Goto then sh_add nx tp (sh_add tg tp known)
      else if op =? Lazybranch then sh_add tg tp (sh_add nx tp known)
      else if (op =? Setmark) || (op =? Nullmark) then sh_add nx (KM :: tp) known
      else if (op =? Getmark) || (op =? Capturemark) then match tp with KM :: t' => sh_add nx t' known | _ => known end
      else if (op =? Branchmark) || (op =? Lazybranchmark) then
        match tp with KM :: t' => sh_add tg tp (sh_add nx t' known) | _ => known end
      else if (op =? Setcount) || (op =? Nullcount) then sh_add nx (KC :: tp) known
      else if (op =? Branchcount) || (op =? Lazybranchcount) then
        match tp with KC :: t' => sh_add tg tp (sh_add nx t' known) | _ => known end
      else if op =? Setjump then sh_add nx (KJ :: tp) known
      else if op =? Forejump then match tp with KJ :: t' => sh_add nx t' known | _ => known end
      else known
  end.

Definition infer : list (Z * shape) := fold_left infer_step (cp_dec (codes p)) [(0, [])].
Definition tyck_auto : bool := tyck p infer.

End Infer.

(* control-flow safety from the static check, for every input and every start position *)
Theorem cf_sound e p : tyck_auto p = true -> forall t, path_ok e p (a0 p t).
Proof. intros H t. exact (cf_path_ok e p (infer p) H t). Qed.

Print Assumptions cf_sound.
