(* C05, proofs part 5b: "same first result, and only P-states dropped" (hpr), from EVERY state.
   Used for FindLastExpressionInLoopForAutoAtomic inside eliminateEndingBacktracking: the last child L of the body of
   a loop at the END of the pattern is made atomic; the states L no longer stops at (P: the next character passes L's
   test) are states where the body, which begins with a node disjoint from L, has no result at all; so iterating
   again from them fails and the loop loses these states only, never its first result. *)
From Verif Require Import Base.Prelude Model.Tree Model.Spec Model.Rewrite
  Proofs.SpecProofs Proofs.SpecBoundsProofs Proofs.SpecTermProofs Proofs.RewriteProofs Proofs.FinalOptDen Proofs.FinalOptK.
From Coq Require Import ZifyBool.

Definition hpr {A} (P : A -> Prop) (l l' : list A) : Prop := drops P l l' /\ hq l l'.

Lemma hpr_refl {A} (P : A -> Prop) l : hpr P l l.
Proof. split; [apply drops_refl | apply hq_refl]. Qed.

Lemma hpr_nil_iff {A} (P : A -> Prop) l l' : hpr P l l' -> (l = [] <-> l' = []).
Proof. intros [_ H]. apply hq_nil_iff. exact H. Qed.

Lemma hpr_app {A} (P : A -> Prop) a a' b b' : hpr P a a' -> hpr P b b' -> hpr P (a ++ b) (a' ++ b').
Proof. intros [H1 H2] [H3 H4]. split; [apply drops_app; assumption | apply hq_app; assumption]. Qed.

Lemma hpr_flat_map_same {A} (P : A -> Prop) (G G' : A -> list A) l :
  (forall a, hpr P (G a) (G' a)) -> hpr P (flat_map G l) (flat_map G' l).
Proof. intros H. induction l as [|a l IH]; cbn [flat_map]; [apply hpr_refl | apply hpr_app; [apply H | exact IH]]. Qed.

Lemma hpr_flat_map_single {A} (P : A -> Prop) (F : A -> list A) l l' :
  (forall a, exists b, F a = [b] /\ (P a -> P b)) -> hpr P l l' -> hpr P (flat_map F l) (flat_map F l').
Proof.
  intros HF [Hd Hh]. split.
  - apply drops_flat_map; [|exact Hd]. intros a Ha. destruct (HF a) as (b & -> & Hb). constructor; [apply Hb; exact Ha | constructor].
  - unfold hq in *. destruct l as [|x l], l' as [|x' l']; cbn in Hh; try discriminate; [reflexivity|].
    injection Hh as <-. cbn [flat_map]. destruct (HF x) as (b & -> & _). reflexivity.
Qed.

Lemma drops_Forall {A} (P : A -> Prop) l l' : drops P l l' -> Forall P l' -> Forall P l.
Proof.
  induction 1; intros HF; [constructor | |].
  - inversion HF; subst. constructor; auto.
  - constructor; auto.
Qed.

Lemma hq_app_nonempty {A} (a a' b b' : list A) : a <> [] -> hq a a' -> hq (a ++ b) (a' ++ b').
Proof. unfold hq. intros Hne H. destruct a as [|x a]; [contradiction|]. destruct a' as [|x' a']; cbn in *; [discriminate | exact H]. Qed.

Section PruneIter.
Variable P : st -> Prop.
Variables B B' : st -> list st.
Hypothesis HB : forall s, hpr P (B s) (B' s).
Hypothesis HdB' : forall q, P q -> B' q = [].
Variable lazy : bool.
Variable limit : Z.
Hypothesis Hlim : 0 <= limit.

Lemma HdB q : P q -> B q = [].
Proof. intros Hq. apply (hpr_nil_iff P _ _ (HB q)). apply HdB'. exact Hq. Qed.

(* from a P-state there is no further iteration *)
Lemma iterD_dead (X : st -> list st) q mark count : X q = [] ->
  iterD X lazy limit q mark count = if count <? 0 then [] else [q].
Proof.
  intros Hq. rewrite fd_iterD_eq. unfold iter_again. rewrite Hq. cbn [flat_map app]. destruct lazy.
  - destruct (count <? 0); [reflexivity|]. destruct ((count <? limit) && negb (pos q =? mark)); reflexivity.
  - destruct ((limit <=? count) || (pos q =? mark) && (0 <=? count)) eqn:E.
    + replace (count <? 0) with false by lia. reflexivity.
    + destruct (0 <=? count) eqn:E0; [replace (count <? 0) with false by lia | replace (count <? 0) with true by lia]; reflexivity.
Qed.

Lemma iterD_nonempty (X : st -> list st) a mark count : 0 <= count -> iterD X lazy limit a mark count <> [].
Proof.
  intros Hc. rewrite fd_iterD_eq. destruct lazy.
  - replace (count <? 0) with false by lia. discriminate.
  - destruct ((limit <=? count) || (pos a =? mark) && (0 <=? count)); [discriminate|].
    replace (0 <=? count) with true by lia. intros E. apply app_eq_nil in E. destruct E as [_ E]. discriminate.
Qed.

(* one more round: the bodies' results, each followed by the remaining iterations *)
Lemma again_hpr mk c :
  (forall s', hpr P (iterD B lazy limit s' mk c) (iterD B' lazy limit s' mk c)) ->
  forall s, hpr P (flat_map (fun s' => iterD B lazy limit s' mk c) (B s)) (flat_map (fun s' => iterD B' lazy limit s' mk c) (B' s)).
Proof.
  intros IH s. destruct (HB s) as [Hd Hh]. split.
  - clear Hh. induction Hd as [|a l l' Hd IHd|q l l' Hq Hd IHd]; cbn [flat_map]; [constructor | |].
    + apply drops_app; [apply (IH a) | exact IHd].
    + apply drops_all; [|exact IHd].
      apply (drops_Forall P _ (iterD B' lazy limit q mk c)); [apply (IH q)|].
      rewrite (iterD_dead B' q mk c (HdB' q Hq)). destruct (c <? 0); constructor; [exact Hq | constructor].
  - destruct (Z_lt_ge_dec c 0) as [Hneg|Hnn].
    + (* iterations still owed: a dropped state contributes nothing on either side *)
      clear Hh. induction Hd as [|a l l' Hd IHd|q l l' Hq Hd IHd]; cbn [flat_map]; [apply hq_refl | |].
      * apply hq_app; [apply (IH a) | exact IHd].
      * rewrite (iterD_dead B q mk c (HdB q Hq)). replace (c <? 0) with true by lia. exact IHd.
    + (* the first body result leads the way on both sides *)
      unfold hq in Hh. destruct (B s) as [|x l], (B' s) as [|x' l']; cbn in Hh; try discriminate; [apply hq_refl|].
      injection Hh as <-. cbn [flat_map]. apply hq_app_nonempty; [apply iterD_nonempty; lia | apply (IH x)].
Qed.

Lemma iter_hpr : forall n s mark count, iter_fuel limit count = n ->
  hpr P (iterD B lazy limit s mark count) (iterD B' lazy limit s mark count).
Proof.
  induction n as [n IH] using lt_wf_ind. intros s mark count Hn.
  rewrite !fd_iterD_eq.
  assert (Hag : (count < 0 \/ count < limit) -> hpr P (iter_again B lazy limit s count) (iter_again B' lazy limit s count)).
  { intros Hc. unfold iter_again. apply again_hpr. intros s'.
    apply (IH (iter_fuel limit (count + 1))); [subst n; unfold iter_fuel; lia | reflexivity]. }
  destruct lazy.
  - destruct (count <? 0) eqn:Ec; [apply Hag; lia|].
    apply (hpr_app P [s] [s]); [apply hpr_refl|].
    destruct ((count <? limit) && negb (pos s =? mark)) eqn:E2; [apply Hag; lia | apply hpr_refl].
  - destruct ((limit <=? count) || (pos s =? mark) && (0 <=? count)) eqn:E1; [apply hpr_refl|].
    apply hpr_app; [apply Hag; lia | apply hpr_refl].
Qed.

End PruneIter.

Section PruneLoop.
Variable e : env.
Notation den := (den e).

Lemma loop_limit_nonneg m n : m <= n -> 0 <= loop_limit m n.
Proof. unfold loop_limit. intros. destruct (n =? INF); [unfold INF|]; lia. Qed.

Lemma loop_hpr (P : st -> Prop) lazy o m n r r' : 0 <= loop_limit m n ->
  (forall s, hpr P (den r s) (den r' s)) -> (forall q, P q -> den r' q = []) ->
  forall s, hpr P (den (NLoop lazy o m n r) s) (den (NLoop lazy o m n r') s).
Proof.
  intros Hlim HB Hd s. rewrite !fd_den_loop. destruct (m =? 0).
  - apply (iter_hpr P _ _ HB Hd lazy _ Hlim _ _ _ _ eq_refl).
  - apply (again_hpr P _ _ HB Hd lazy _ Hlim). intros s'. apply (iter_hpr P _ _ HB Hd lazy _ Hlim _ _ _ _ eq_refl).
Qed.

End PruneLoop.
