(* C05 — the rewrite rules of syntax/tree.go as theorems about the reference semantics (Model/Spec.v).
   Relations and the modelled pieces of tree.go are in Model/Rewrite.v. *)
From Verif Require Import Base.Prelude Model.Tree Model.Spec Model.Rewrite.
From Coq Require Import ZifyBool.

Ltac rw_inv H := inversion H; subst; clear H.

(* ------------------------------------------------------------------------------------------ *)
(* 0. result lists: inversion and monotonicity ("Ok-refinement": Fuel is below everything)      *)
(* ------------------------------------------------------------------------------------------ *)

Definition rle {A} (r r' : res A) : Prop := forall a, r = Ok a -> r' = Ok a.

Lemma rle_refl {A} (r : res A) : rle r r.
Proof. intros a H; exact H. Qed.

Lemma rle_trans {A} (a b c : res A) : rle a b -> rle b c -> rle a c.
Proof. intros H1 H2 x Hx. auto. Qed.

Lemma rw_bind_ok {A B} (r : res A) (k : A -> res B) b :
  bind r k = Ok b -> exists a, r = Ok a /\ k a = Ok b.
Proof. destruct r; simpl; intros H; try discriminate. eauto. Qed.

Lemma rle_bind {A B} (r r' : res A) (k k' : A -> res B) :
  rle r r' -> (forall a, rle (k a) (k' a)) -> rle (bind r k) (bind r' k').
Proof.
  intros Hr Hk b H. apply rw_bind_ok in H as (a & Ha & Hb).
  rewrite (Hr _ Ha). simpl. apply Hk, Hb.
Qed.

Lemma rle_bindl {A B} (l : list A) (f g : A -> res (list B)) :
  (forall a, In a l -> rle (f a) (g a)) -> rle (bindl l f) (bindl l g).
Proof.
  induction l as [|a l IH]; intros H; simpl; [apply rle_refl|].
  apply rle_bind; [apply H; left; reflexivity|]. intros x.
  apply rle_bind; [apply IH; intros; apply H; right; assumption|]. intros y. apply rle_refl.
Qed.

Lemma rle_bindr {A B} (r r' : res (list A)) (f g : A -> res (list B)) :
  rle r r' -> (forall a, rle (f a) (g a)) -> rle (bindr r f) (bindr r' g).
Proof. intros Hr Hf. unfold bindr. apply rle_bind; [exact Hr|]. intros l. apply rle_bindl. auto. Qed.

Lemma rle_appr {A} (a a' b b' : res (list A)) : rle a a' -> rle b b' -> rle (appr a b) (appr a' b').
Proof.
  intros Ha Hb. unfold appr. apply rle_bind; [exact Ha|]. intros x.
  apply rle_bind; [exact Hb|]. intros y. apply rle_refl.
Qed.

Lemma rle_first_only {A} (a a' : res (list A)) : rle a a' -> rle (first_only a) (first_only a').
Proof. intros Ha. unfold first_only. apply rle_bind; [exact Ha|]. intros; apply rle_refl. Qed.

Lemma first_only_ok {A} (r : res (list A)) l : first_only r = Ok l <-> exists l0, r = Ok l0 /\ l = hd_list l0.
Proof.
  unfold first_only. split.
  - intros H. apply rw_bind_ok in H as (l0 & H0 & H1). exists l0. split; [exact H0|].
    destruct l0; inversion H1; reflexivity.
  - intros (l0 & -> & ->). simpl. destruct l0; reflexivity.
Qed.

Lemma first_only_Ok {A} (l : list A) : first_only (Ok l) = Ok (hd_list l).
Proof. destruct l; reflexivity. Qed.

Lemma hd_list_idem {A} (l : list A) : hd_list (hd_list l) = hd_list l.
Proof. destruct l; reflexivity. Qed.

Lemma hd_list_app {A} (l1 l2 : list A) : hd_list (l1 ++ l2) = match l1 with [] => hd_list l2 | _ => hd_list l1 end.
Proof. destruct l1; reflexivity. Qed.

Lemma bind_ret {A} (r : res A) : bind r (fun x => Ok x) = r.
Proof. destruct r; reflexivity. Qed.

Lemma bindl_ok {A B} (l : list A) (f : A -> res (list B)) z :
  bindl l f = Ok z <-> exists zs, Forall2 (fun a x => f a = Ok x) l zs /\ z = concat zs.
Proof.
  revert z. induction l as [|a l IH]; intros z; simpl.
  - split.
    + intros H. inversion H. exists []. split; [constructor | reflexivity].
    + intros (zs & HF & ->). inversion HF. reflexivity.
  - split.
    + intros H. apply rw_bind_ok in H as (x & Hx & H). apply rw_bind_ok in H as (y & Hy & H).
      inversion H; subst. apply IH in Hy as (zs & HF & ->).
      exists (x :: zs). split; [constructor; assumption | reflexivity].
    + intros (zs & HF & ->). inversion HF as [|a' x l' zs' Hx HF']; subst.
      rewrite Hx. simpl. assert (bindl l f = Ok (concat zs')) as -> by (apply IH; eauto).
      reflexivity.
Qed.

Lemma bindl_app {A B} (l1 l2 : list A) (f : A -> res (list B)) :
  bindl (l1 ++ l2) f = appr (bindl l1 f) (bindl l2 f).
Proof.
  induction l1 as [|a l1 IH]; simpl.
  - unfold appr. simpl. symmetry. apply bind_ret.
  - destruct (f a) as [x| | |]; simpl; try reflexivity.
    rewrite IH. unfold appr. destruct (bindl l1 f) as [y| | |]; simpl; try reflexivity.
    destruct (bindl l2 f) as [w| | |]; simpl; try reflexivity.
    rewrite app_assoc. reflexivity.
Qed.

(* ------------------------------------------------------------------------------------------ *)
(* 1. one fuel step of [sem], and monotonicity in the fuel                                      *)
(* ------------------------------------------------------------------------------------------ *)

Section Step.
Variable e : env.

Definition sem_step (f : nat) (rec : node -> st -> res (list st)) (t : node) (s : st) : res (list st) :=
  match t with
  | NChar k o c =>
      Ok (if (0 <? avail e o (pos s)) && char_test e k c (next_char e o (pos s))
          then [with_pos s (pos s + dir o)] else [])
  | NCharLoop k l o c m n => Ok (sem_charloop e k l o c m n s)
  | NMulti o str => Ok (sem_multi e o str s)
  | NRef o g => Ok (sem_ref e o g s)
  | NAnchor a => Ok (if anchor_ok e a (pos s) then [s] else [])
  | NNothing => Ok []
  | NEmpty => Ok [s]
  | NBump => Ok [s]
  | NConcat _ l => seq_sem rec l s
  | NAlternate _ l => alt_sem rec s l
  | NLoop lazy _ m n r =>
      let limit := if n =? INF then INF else n - m in
      if m =? 0 then iter f (rec r) lazy limit s (-1) 0
      else bindr (rec r s) (fun s' => iter f (rec r) lazy limit s' (pos s) (1 - m))
  | NCapture _ g u r =>
      if u =? -1 then
        bindr (rec r s) (fun s' =>
          Ok [{| pos := pos s'; caps := cap_push g (span (pos s) (pos s')) (caps s') |}])
      else
        bindr (rec r s) (fun s' =>
          match cap_get u (caps s') with
          | [] => Ok []
          | top :: _ =>
              let c1 := cap_pop u (caps s') in
              Ok [{| pos := pos s';
                     caps := if g =? -1 then c1 else cap_push g (balance_span (pos s) (pos s') top) c1 |}]
          end)
  | NGroup r => rec r s
  | NPosLook _ r => do l <- first_only (rec r s) ; Ok (map (fun s' => with_pos s' (pos s)) l)
  | NNegLook _ r => do l <- rec r s ; Ok (match l with [] => [s] | _ => [] end)
  | NAtomic r => first_only (rec r s)
  | NBackRefCond _ g yes no =>
      if is_matched g (caps s) then rec yes s
      else match no with Some n => rec n s | None => Ok [s] end
  | NExprCond _ c yes no =>
      do l <- first_only (rec c s) ;
      match l with
      | s' :: _ => rec yes (with_pos s' (pos s))
      | [] => match no with Some n => rec n s | None => Ok [s] end
      end
  end.

Lemma sem_S f t s : sem e (S f) t s = sem_step f (sem e f) t s.
Proof. destruct t; reflexivity. Qed.

Lemma sem_O t s : sem e 0 t s = Fuel.
Proof. reflexivity. Qed.

Lemma rle_seq_sem rec rec' l :
  (forall t s, rle (rec t s) (rec' t s)) -> forall s, rle (seq_sem rec l s) (seq_sem rec' l s).
Proof.
  intros H. induction l as [|x l IH]; intros s; simpl; [apply rle_refl|].
  apply rle_bindr; [apply H | exact IH].
Qed.

Lemma rle_alt_sem rec rec' l s :
  (forall t s, rle (rec t s) (rec' t s)) -> rle (alt_sem rec s l) (alt_sem rec' s l).
Proof.
  intros H. induction l as [|x l IH]; simpl; [apply rle_refl|].
  apply rle_appr; [apply H | exact IH].
Qed.

Lemma rle_iter (body body' : st -> res (list st)) lazy limit :
  (forall s, rle (body s) (body' s)) ->
  forall f f', (f <= f')%nat -> forall s mark count,
  rle (iter f body lazy limit s mark count) (iter f' body' lazy limit s mark count).
Proof.
  intros Hb. induction f as [|f IH]; intros f' Hle s mark count.
  - intros a H. discriminate.
  - destruct f' as [|f']; [lia|]. assert (Hle' : (f <= f')%nat) by lia.
    cbn [iter].
    assert (Hag : rle (bindr (body s) (fun s' => iter f body lazy limit s' (pos s) (count + 1)))
                      (bindr (body' s) (fun s' => iter f' body' lazy limit s' (pos s) (count + 1)))).
    { apply rle_bindr; [apply Hb|]. intros a. apply IH. exact Hle'. }
    destruct lazy.
    + destruct (count <? 0); [exact Hag|].
      apply rle_appr; [apply rle_refl|].
      destruct ((count <? limit) && negb (pos s =? mark)); [exact Hag | apply rle_refl].
    + destruct ((limit <=? count) || (pos s =? mark) && (0 <=? count)); [apply rle_refl|].
      apply rle_appr; [exact Hag | apply rle_refl].
Qed.

Lemma rle_sem_step rec rec' f f' :
  (forall t s, rle (rec t s) (rec' t s)) -> (f <= f')%nat ->
  forall t s, rle (sem_step f rec t s) (sem_step f' rec' t s).
Proof.
  intros H Hle t s. destruct t; cbn [sem_step]; try apply rle_refl.
  - apply rle_seq_sem, H.
  - apply rle_alt_sem, H.
  - destruct (m =? 0).
    + apply rle_iter; [intros; apply H | exact Hle].
    + apply rle_bindr; [apply H|]. intros a. apply rle_iter; [intros; apply H | exact Hle].
  - destruct (u =? -1); (apply rle_bindr; [apply H | intros; apply rle_refl]).
  - apply H.
  - apply rle_bind; [apply rle_first_only, H | intros; apply rle_refl].
  - apply rle_bind; [apply H | intros; apply rle_refl].
  - apply rle_first_only, H.
  - destruct (is_matched g (caps s)); [apply H|]. destruct no; [apply H | apply rle_refl].
  - apply rle_bind; [apply rle_first_only, H|]. intros [|s' ?]; [|apply H].
    destruct no; [apply H | apply rle_refl].
Qed.

Lemma rw_sem_mono_S : forall f t s, rle (sem e f t s) (sem e (S f) t s).
Proof.
  induction f as [|f IH]; intros t s.
  - intros a H. discriminate.
  - rewrite (sem_S (S f)), (sem_S f). apply rle_sem_step; [exact IH | lia].
Qed.

Theorem rw_sem_mono : forall f f' t s l, (f <= f')%nat -> sem e f t s = Ok l -> sem e f' t s = Ok l.
Proof.
  intros f f' t s l Hle. induction Hle as [|f' Hle IH]; intros H; [exact H|].
  apply rw_sem_mono_S, IH, H.
Qed.

(* the denotation is a partial function *)
Theorem rw_evals_det t s l1 l2 : rw_evals e t s l1 -> rw_evals e t s l2 -> l1 = l2.
Proof.
  intros [f1 H1] [f2 H2].
  apply (rw_sem_mono f1 (Nat.max f1 f2)) in H1; [|lia].
  apply (rw_sem_mono f2 (Nat.max f1 f2)) in H2; [|lia].
  congruence.
Qed.

End Step.
