(* C05 — the rewrite rules of syntax/tree.go as theorems about the reference semantics (Model/Spec.v).
   Relations and the modelled pieces of tree.go are in Model/Rewrite.v. *)
From Verif Require Import Base.Prelude Model.Tree Model.Spec Model.Rewrite.
From Coq Require Import ZifyBool.

Ltac rw_inv H := inversion H; subst; clear H.

(* ------------------------------------------------------------------------------------------ *)
(* 0. result lists: inversion and monotonicity ("Ok-refinement": Fuel is below everything)      *)
(* ------------------------------------------------------------------------------------------ *)

Definition rle {A} (r r' : res A) : Prop := forall a, r = Ok a -> r' = Ok a.

Lemma rle_refl {A} (r : res A) : rle r r.
Proof. intros a H; exact H. Qed.

Lemma rle_trans {A} (a b c : res A) : rle a b -> rle b c -> rle a c.
Proof. intros H1 H2 x Hx. auto. Qed.

Lemma rw_bind_ok {A B} (r : res A) (k : A -> res B) b :
  bind r k = Ok b -> exists a, r = Ok a /\ k a = Ok b.
Proof. destruct r; simpl; intros H; try discriminate. eauto. Qed.

Lemma rle_bind {A B} (r r' : res A) (k k' : A -> res B) :
  rle r r' -> (forall a, rle (k a) (k' a)) -> rle (bind r k) (bind r' k').
Proof.
  intros Hr Hk b H. apply rw_bind_ok in H as (a & Ha & Hb).
  rewrite (Hr _ Ha). simpl. apply Hk, Hb.
Qed.

Lemma rle_bindl {A B} (l : list A) (f g : A -> res (list B)) :
  (forall a, In a l -> rle (f a) (g a)) -> rle (bindl l f) (bindl l g).
Proof.
  induction l as [|a l IH]; intros H; simpl; [apply rle_refl|].
  apply rle_bind; [apply H; left; reflexivity|]. intros x.
  apply rle_bind; [apply IH; intros; apply H; right; assumption|]. intros y. apply rle_refl.
Qed.

Lemma rle_bindr {A B} (r r' : res (list A)) (f g : A -> res (list B)) :
  rle r r' -> (forall a, rle (f a) (g a)) -> rle (bindr r f) (bindr r' g).
Proof. intros Hr Hf. unfold bindr. apply rle_bind; [exact Hr|]. intros l. apply rle_bindl. auto. Qed.

Lemma rle_appr {A} (a a' b b' : res (list A)) : rle a a' -> rle b b' -> rle (appr a b) (appr a' b').
Proof.
  intros Ha Hb. unfold appr. apply rle_bind; [exact Ha|]. intros x.
  apply rle_bind; [exact Hb|]. intros y. apply rle_refl.
Qed.

Lemma rle_first_only {A} (a a' : res (list A)) : rle a a' -> rle (first_only a) (first_only a').
Proof. intros Ha. unfold first_only. apply rle_bind; [exact Ha|]. intros; apply rle_refl. Qed.

Lemma first_only_ok {A} (r : res (list A)) l : first_only r = Ok l <-> exists l0, r = Ok l0 /\ l = hd_list l0.
Proof.
  unfold first_only. split.
  - intros H. apply rw_bind_ok in H as (l0 & H0 & H1). exists l0. split; [exact H0|].
    destruct l0; inversion H1; reflexivity.
  - intros (l0 & -> & ->). simpl. destruct l0; reflexivity.
Qed.

Lemma first_only_Ok {A} (l : list A) : first_only (Ok l) = Ok (hd_list l).
Proof. destruct l; reflexivity. Qed.

Lemma hd_list_idem {A} (l : list A) : hd_list (hd_list l) = hd_list l.
Proof. destruct l; reflexivity. Qed.

Lemma hd_list_app {A} (l1 l2 : list A) : hd_list (l1 ++ l2) = match l1 with [] => hd_list l2 | _ => hd_list l1 end.
Proof. destruct l1; reflexivity. Qed.

Lemma bind_ret {A} (r : res A) : bind r (fun x => Ok x) = r.
Proof. destruct r; reflexivity. Qed.

Lemma bindl_ok {A B} (l : list A) (f : A -> res (list B)) z :
  bindl l f = Ok z <-> exists zs, Forall2 (fun a x => f a = Ok x) l zs /\ z = concat zs.
Proof.
  revert z. induction l as [|a l IH]; intros z; simpl.
  - split.
    + intros H. inversion H. exists []. split; [constructor | reflexivity].
    + intros (zs & HF & ->). inversion HF. reflexivity.
  - split.
    + intros H. apply rw_bind_ok in H as (x & Hx & H). apply rw_bind_ok in H as (y & Hy & H).
      inversion H; subst. apply IH in Hy as (zs & HF & ->).
      exists (x :: zs). split; [constructor; assumption | reflexivity].
    + intros (zs & HF & ->). inversion HF as [|a' x l' zs' Hx HF']; subst.
      rewrite Hx. simpl. assert (bindl l f = Ok (concat zs')) as -> by (apply IH; eauto).
      reflexivity.
Qed.

Lemma bindl_app {A B} (l1 l2 : list A) (f : A -> res (list B)) :
  bindl (l1 ++ l2) f = appr (bindl l1 f) (bindl l2 f).
Proof.
  induction l1 as [|a l1 IH]; simpl.
  - unfold appr. simpl. symmetry. apply bind_ret.
  - destruct (f a) as [x| | |]; simpl; try reflexivity.
    rewrite IH. unfold appr. destruct (bindl l1 f) as [y| | |]; simpl; try reflexivity.
    destruct (bindl l2 f) as [w| | |]; simpl; try reflexivity.
    rewrite app_assoc. reflexivity.
Qed.

Lemma bindl_ext {A B} (l : list A) (f g : A -> res (list B)) :
  (forall a, f a = g a) -> bindl l f = bindl l g.
Proof. intros H. induction l as [|a l IH]; simpl; [reflexivity|]. rewrite H, IH. reflexivity. Qed.

Lemma bindr_ext {A B} (r : res (list A)) (f g : A -> res (list B)) :
  (forall a, f a = g a) -> bindr r f = bindr r g.
Proof. intros H. destruct r; simpl; try reflexivity. apply bindl_ext, H. Qed.

Lemma bindl_single {A B} (a : A) (k : A -> res (list B)) : bindl [a] k = k a.
Proof. simpl. destruct (k a); simpl; [rewrite app_nil_r|..]; reflexivity. Qed.

(* ------------------------------------------------------------------------------------------ *)
(* 1. one fuel step of [sem], and monotonicity in the fuel                                      *)
(* ------------------------------------------------------------------------------------------ *)

Section Step.
Variable e : env.

Definition sem_step (f : nat) (rec : node -> st -> res (list st)) (t : node) (s : st) : res (list st) :=
  match t with
  | NChar k o c =>
      Ok (if (0 <? avail e o (pos s)) && char_test e k c (next_char e o (pos s))
          then [with_pos s (pos s + dir o)] else [])
  | NCharLoop k l o c m n => Ok (sem_charloop e k l o c m n s)
  | NMulti o str => Ok (sem_multi e o str s)
  | NRef o g => Ok (sem_ref e o g s)
  | NAnchor a => Ok (if anchor_ok e a (pos s) then [s] else [])
  | NNothing => Ok []
  | NEmpty => Ok [s]
  | NBump => Ok [s]
  | NConcat _ l => seq_sem rec l s
  | NAlternate _ l => alt_sem rec s l
  | NLoop lazy _ m n r =>
      let limit := if n =? INF then INF else n - m in
      if m =? 0 then iter f (rec r) lazy limit s (-1) 0
      else bindr (rec r s) (fun s' => iter f (rec r) lazy limit s' (pos s) (1 - m))
  | NCapture _ g u r =>
      if u =? -1 then
        bindr (rec r s) (fun s' =>
          Ok [{| pos := pos s'; caps := cap_push g (span (pos s) (pos s')) (caps s') |}])
      else
        bindr (rec r s) (fun s' =>
          match cap_get u (caps s') with
          | [] => Ok []
          | top :: _ =>
              let c1 := cap_pop u (caps s') in
              Ok [{| pos := pos s';
                     caps := if g =? -1 then c1 else cap_push g (balance_span (pos s) (pos s') top) c1 |}]
          end)
  | NGroup r => rec r s
  | NPosLook _ r => do l <- first_only (rec r s) ; Ok (map (fun s' => with_pos s' (pos s)) l)
  | NNegLook _ r => do l <- rec r s ; Ok (match l with [] => [s] | _ => [] end)
  | NAtomic r => first_only (rec r s)
  | NBackRefCond _ g yes no =>
      if is_matched g (caps s) then rec yes s
      else match no with Some n => rec n s | None => Ok [s] end
  | NExprCond _ c yes no =>
      do l <- first_only (rec c s) ;
      match l with
      | s' :: _ => rec yes (with_pos s' (pos s))
      | [] => match no with Some n => rec n s | None => Ok [s] end
      end
  end.

Lemma sem_S f t s : sem e (S f) t s = sem_step f (sem e f) t s.
Proof. destruct t; reflexivity. Qed.

Lemma sem_O t s : sem e 0 t s = Fuel.
Proof. reflexivity. Qed.

Lemma rle_seq_sem rec rec' l :
  (forall t s, rle (rec t s) (rec' t s)) -> forall s, rle (seq_sem rec l s) (seq_sem rec' l s).
Proof.
  intros H. induction l as [|x l IH]; intros s; simpl; [apply rle_refl|].
  apply rle_bindr; [apply H | exact IH].
Qed.

Lemma rle_alt_sem rec rec' l s :
  (forall t s, rle (rec t s) (rec' t s)) -> rle (alt_sem rec s l) (alt_sem rec' s l).
Proof.
  intros H. induction l as [|x l IH]; simpl; [apply rle_refl|].
  apply rle_appr; [apply H | exact IH].
Qed.

Lemma rle_iter (body body' : st -> res (list st)) lazy limit :
  (forall s, rle (body s) (body' s)) ->
  forall f f', (f <= f')%nat -> forall s mark count,
  rle (iter f body lazy limit s mark count) (iter f' body' lazy limit s mark count).
Proof.
  intros Hb. induction f as [|f IH]; intros f' Hle s mark count.
  - intros a H. discriminate.
  - destruct f' as [|f']; [lia|]. assert (Hle' : (f <= f')%nat) by lia.
    cbn [iter].
    assert (Hag : rle (bindr (body s) (fun s' => iter f body lazy limit s' (pos s) (count + 1)))
                      (bindr (body' s) (fun s' => iter f' body' lazy limit s' (pos s) (count + 1)))).
    { apply rle_bindr; [apply Hb|]. intros a. apply IH. exact Hle'. }
    destruct lazy.
    + destruct (count <? 0); [exact Hag|].
      apply rle_appr; [apply rle_refl|].
      destruct ((count <? limit) && negb (pos s =? mark)); [exact Hag | apply rle_refl].
    + destruct ((limit <=? count) || (pos s =? mark) && (0 <=? count)); [apply rle_refl|].
      apply rle_appr; [exact Hag | apply rle_refl].
Qed.

Lemma rle_sem_step rec rec' f f' :
  (forall t s, rle (rec t s) (rec' t s)) -> (f <= f')%nat ->
  forall t s, rle (sem_step f rec t s) (sem_step f' rec' t s).
Proof.
  intros H Hle t s. destruct t; cbn [sem_step]; try apply rle_refl.
  - apply rle_seq_sem, H.
  - apply rle_alt_sem, H.
  - destruct (m =? 0).
    + apply rle_iter; [intros; apply H | exact Hle].
    + apply rle_bindr; [apply H|]. intros a. apply rle_iter; [intros; apply H | exact Hle].
  - destruct (u =? -1); (apply rle_bindr; [apply H | intros; apply rle_refl]).
  - apply H.
  - apply rle_bind; [apply rle_first_only, H | intros; apply rle_refl].
  - apply rle_bind; [apply H | intros; apply rle_refl].
  - apply rle_first_only, H.
  - destruct (is_matched g (caps s)); [apply H|]. destruct no; [apply H | apply rle_refl].
  - apply rle_bind; [apply rle_first_only, H|]. intros [|s' ?]; [|apply H].
    destruct no; [apply H | apply rle_refl].
Qed.

Lemma rw_sem_mono_S : forall f t s, rle (sem e f t s) (sem e (S f) t s).
Proof.
  induction f as [|f IH]; intros t s.
  - intros a H. discriminate.
  - rewrite (sem_S (S f)), (sem_S f). apply rle_sem_step; [exact IH | lia].
Qed.

Theorem rw_sem_mono : forall f f' t s l, (f <= f')%nat -> sem e f t s = Ok l -> sem e f' t s = Ok l.
Proof.
  intros f f' t s l Hle. induction Hle as [|f' Hle IH]; intros H; [exact H|].
  apply rw_sem_mono_S, IH, H.
Qed.

(* the denotation is a partial function *)
Theorem rw_evals_det t s l1 l2 : rw_evals e t s l1 -> rw_evals e t s l2 -> l1 = l2.
Proof.
  intros [f1 H1] [f2 H2].
  apply (rw_sem_mono f1 (Nat.max f1 f2)) in H1; [|lia].
  apply (rw_sem_mono f2 (Nat.max f1 f2)) in H2; [|lia].
  congruence.
Qed.

End Step.

(* ------------------------------------------------------------------------------------------ *)
(* 2. fuel-free characterisation of [rw_evals] per constructor                                  *)
(* ------------------------------------------------------------------------------------------ *)

Section Evals.
Variable e : env.

Notation evals := (rw_evals e).

Lemma evals_S t s l : evals t s l <-> exists f, sem_step e f (sem e f) t s = Ok l.
Proof.
  split.
  - intros [[|f] H]; [discriminate|]. exists f. rewrite <- sem_S. exact H.
  - intros [f H]. exists (S f). rewrite sem_S. exact H.
Qed.

Lemma evals_common t (lx : list st) zs :
  Forall2 (fun a za => evals t a za) lx zs ->
  exists F, forall f, (F <= f)%nat -> Forall2 (fun a za => sem e f t a = Ok za) lx zs.
Proof.
  induction 1 as [|a za lx zs [fa Ha] _ (F & IH)].
  - exists 0%nat. intros; constructor.
  - exists (Nat.max fa F). intros f Hf. constructor.
    + apply (rw_sem_mono e fa); [lia | exact Ha].
    + apply IH. lia.
Qed.

Lemma Forall2_impl' {A B} (R1 R2 : A -> B -> Prop) l l' :
  (forall a b, R1 a b -> R2 a b) -> Forall2 R1 l l' -> Forall2 R2 l l'.
Proof. intros H; induction 1; constructor; auto. Qed.

(* leaves: the result does not depend on the fuel *)
Definition leaf_result (t : node) (s : st) : option (list st) :=
  match t with
  | NChar k o c =>
      Some (if (0 <? avail e o (pos s)) && char_test e k c (next_char e o (pos s))
            then [with_pos s (pos s + dir o)] else [])
  | NCharLoop k l o c m n => Some (sem_charloop e k l o c m n s)
  | NMulti o str => Some (sem_multi e o str s)
  | NRef o g => Some (sem_ref e o g s)
  | NAnchor a => Some (if anchor_ok e a (pos s) then [s] else [])
  | NNothing => Some []
  | NEmpty => Some [s]
  | NBump => Some [s]
  | _ => None
  end.

Lemma sem_leaf t s r f : leaf_result t s = Some r -> sem e (S f) t s = Ok r.
Proof. destruct t; simpl; intros H; inversion H; reflexivity. Qed.

Lemma evals_leaf t s r l : leaf_result t s = Some r -> (evals t s l <-> l = r).
Proof.
  intros H. split.
  - intros [[|f] Hf]; [discriminate|]. rewrite (sem_leaf _ _ _ _ H) in Hf. congruence.
  - intros ->. exists 1%nat. apply sem_leaf, H.
Qed.

Lemma evals_concat_nil o s z : evals (NConcat o []) s z <-> z = [s].
Proof.
  split.
  - intros [[|f] H]; [discriminate|]. rewrite sem_S in H. simpl in H. congruence.
  - intros ->. exists 1%nat. reflexivity.
Qed.

Lemma evals_concat_cons o x l s z :
  evals (NConcat o (x :: l)) s z <->
  exists lx zs, evals x s lx /\ Forall2 (fun a za => evals (NConcat o l) a za) lx zs /\ z = concat zs.
Proof.
  split.
  - intros [[|f] H]; [discriminate|]. rewrite sem_S in H. cbn [sem_step seq_sem] in H.
    unfold bindr in H. apply rw_bind_ok in H as (lx & Hx & H).
    apply bindl_ok in H as (zs & HF & ->).
    exists lx, zs. split; [exists f; exact Hx|]. split; [|reflexivity].
    eapply Forall2_impl'; [|exact HF]. intros a za Ha. exists (S f). rewrite sem_S. exact Ha.
  - intros (lx & zs & [fx Hx] & HF & ->). apply evals_common in HF as (F & HF).
    exists (S (S (Nat.max fx F))). rewrite sem_S. cbn [sem_step seq_sem].
    rewrite (rw_sem_mono e fx (S (Nat.max fx F)) _ _ _ ltac:(lia) Hx). unfold bindr. cbn [bind].
    apply bindl_ok. exists zs. split; [|reflexivity].
    eapply Forall2_impl'; [|apply (HF (S (S (Nat.max fx F)))); lia].
    intros a za Ha. cbv beta in Ha. rewrite sem_S in Ha. cbn [sem_step] in Ha.
    exact Ha.
Qed.

Lemma evals_alt_nil o s z : evals (NAlternate o []) s z <-> z = [].
Proof.
  split.
  - intros [[|f] H]; [discriminate|]. rewrite sem_S in H. simpl in H. congruence.
  - intros ->. exists 1%nat. reflexivity.
Qed.

Lemma evals_alt_cons o x l s z :
  evals (NAlternate o (x :: l)) s z <->
  exists lx ly, evals x s lx /\ evals (NAlternate o l) s ly /\ z = lx ++ ly.
Proof.
  split.
  - intros [[|f] H]; [discriminate|]. rewrite sem_S in H. cbn [sem_step alt_sem] in H.
    unfold appr in H. apply rw_bind_ok in H as (lx & Hx & H). apply rw_bind_ok in H as (ly & Hy & H).
    inversion H; subst. exists lx, ly. split; [exists f; exact Hx|]. split; [|reflexivity].
    exists (S f). rewrite sem_S. exact Hy.
  - intros (lx & ly & [fx Hx] & [fy Hy] & ->).
    exists (S (Nat.max fx fy)). rewrite sem_S. cbn [sem_step alt_sem].
    rewrite (rw_sem_mono e fx (Nat.max fx fy) _ _ _ ltac:(lia) Hx).
    apply (rw_sem_mono e fy (S (Nat.max fx fy))) in Hy; [|lia]. rewrite sem_S in Hy. cbn [sem_step] in Hy.
    unfold appr. cbn [bind]. rewrite Hy. reflexivity.
Qed.

Lemma evals_atomic r s z : evals (NAtomic r) s z <-> exists l, evals r s l /\ z = hd_list l.
Proof.
  split.
  - intros [[|f] H]; [discriminate|]. rewrite sem_S in H. cbn [sem_step] in H.
    apply first_only_ok in H as (l0 & H0 & ->). exists l0. split; [exists f; exact H0 | reflexivity].
  - intros (l & [f H] & ->). exists (S f). rewrite sem_S. cbn [sem_step]. rewrite H. apply first_only_Ok.
Qed.

Lemma evals_group r s z : evals (NGroup r) s z <-> evals r s z.
Proof.
  split.
  - intros [[|f] H]; [discriminate|]. rewrite sem_S in H. exists f. exact H.
  - intros [f H]. exists (S f). rewrite sem_S. exact H.
Qed.

Lemma evals_poslook o r s z :
  evals (NPosLook o r) s z <-> exists l, evals r s l /\ z = map (fun s' => with_pos s' (pos s)) (hd_list l).
Proof.
  split.
  - intros [[|f] H]; [discriminate|]. rewrite sem_S in H. cbn [sem_step] in H.
    apply rw_bind_ok in H as (l1 & H1 & H). apply first_only_ok in H1 as (l0 & H0 & ->).
    inversion H; subst. exists l0. split; [exists f; exact H0 | reflexivity].
  - intros (l & [f H] & ->). exists (S f). rewrite sem_S. cbn [sem_step]. rewrite H, first_only_Ok. reflexivity.
Qed.

Lemma evals_neglook o r s z :
  evals (NNegLook o r) s z <-> exists l, evals r s l /\ z = match hd_list l with [] => [s] | _ => [] end.
Proof.
  split.
  - intros [[|f] H]; [discriminate|]. rewrite sem_S in H. cbn [sem_step] in H.
    apply rw_bind_ok in H as (l1 & H1 & H). inversion H; subst.
    exists l1. split; [exists f; exact H1 | destruct l1; reflexivity].
  - intros (l & [f H] & ->). exists (S f). rewrite sem_S. cbn [sem_step]. rewrite H. destruct l; reflexivity.
Qed.

Definition capture_close (g u : Z) (s s' : st) : list st :=
  if u =? -1 then [{| pos := pos s'; caps := cap_push g (span (pos s) (pos s')) (caps s') |}]
  else match cap_get u (caps s') with
       | [] => []
       | top :: _ =>
           let c1 := cap_pop u (caps s') in
           [{| pos := pos s';
               caps := if g =? -1 then c1 else cap_push g (balance_span (pos s) (pos s') top) c1 |}]
       end.

Lemma bindl_pure {A B} (l : list A) (k : A -> list B) : bindl l (fun a => Ok (k a)) = Ok (flat_map k l).
Proof. induction l as [|a l IH]; simpl; [reflexivity|]. rewrite IH. reflexivity. Qed.

Lemma evals_capture o g u r s z :
  evals (NCapture o g u r) s z <-> exists l, evals r s l /\ z = flat_map (capture_close g u s) l.
Proof.
  split.
  - intros [[|f] H]; [discriminate|]. rewrite sem_S in H. cbn [sem_step] in H.
    assert (H' : bindr (sem e f r s) (fun s' => Ok (capture_close g u s s')) = Ok z).
    { unfold capture_close. destruct (u =? -1); [exact H|].
      unfold bindr in *. apply rw_bind_ok in H as (l & Hl & H). rewrite Hl. cbn [bind].
      rewrite <- H. clear. induction l as [|a l IH]; simpl; [reflexivity|]. rewrite IH.
      destruct (cap_get u (caps a)); reflexivity. }
    unfold bindr in H'. apply rw_bind_ok in H' as (l & Hl & H'). rewrite bindl_pure in H'. inversion H'; subst.
    exists l. split; [exists f; exact Hl | reflexivity].
  - intros (l & [f H] & ->). exists (S f). rewrite sem_S. cbn [sem_step]. rewrite H.
    unfold bindr, capture_close. cbn [bind]. destruct (u =? -1).
    + apply bindl_pure.
    + rewrite <- (bindl_pure l). clear. induction l as [|a l IH]; simpl; [reflexivity|]. rewrite IH.
      destruct (cap_get u (caps a)); reflexivity.
Qed.

Lemma evals_backref_cond o g y n s z :
  evals (NBackRefCond o g y n) s z <->
  (if is_matched g (caps s) then evals y s z
   else match n with Some n' => evals n' s z | None => z = [s] end).
Proof.
  split.
  - intros [[|f] H]; [discriminate|]. rewrite sem_S in H. cbn [sem_step] in H.
    destruct (is_matched g (caps s)); [exists f; exact H|].
    destruct n; [exists f; exact H | congruence].
  - intros H. destruct (is_matched g (caps s)) eqn:E.
    + destruct H as [f H]. exists (S f). rewrite sem_S. cbn [sem_step]. rewrite E. exact H.
    + destruct n as [n'|].
      * destruct H as [f H]. exists (S f). rewrite sem_S. cbn [sem_step]. rewrite E. exact H.
      * subst. exists 1%nat. rewrite sem_S. cbn [sem_step]. rewrite E. reflexivity.
Qed.

Lemma evals_expr_cond o c y n s z :
  evals (NExprCond o c y n) s z <->
  exists lc, evals c s lc /\
    match lc with
    | s' :: _ => evals y (with_pos s' (pos s)) z
    | [] => match n with Some n' => evals n' s z | None => z = [s] end
    end.
Proof.
  split.
  - intros [[|f] H]; [discriminate|]. rewrite sem_S in H. cbn [sem_step] in H.
    apply rw_bind_ok in H as (l1 & H1 & H). apply first_only_ok in H1 as (lc & Hc & ->).
    exists lc. split; [exists f; exact Hc|].
    destruct lc as [|s' lc]; cbn [hd_list] in H.
    + destruct n; [exists f; exact H | congruence].
    + exists f. exact H.
  - intros (lc & [fc Hc] & H).
    assert (Hgo : forall f, (fc <= f)%nat ->
              sem e (S f) (NExprCond o c y n) s =
              match lc with
              | s' :: _ => sem e f y (with_pos s' (pos s))
              | [] => match n with Some n' => sem e f n' s | None => Ok [s] end
              end).
    { intros f Hf. rewrite sem_S. cbn [sem_step].
      rewrite (rw_sem_mono e fc f _ _ _ Hf Hc), first_only_Ok. destruct lc; reflexivity. }
    destruct lc as [|s' lc].
    + destruct n as [n'|].
      * destruct H as [f H]. exists (S (Nat.max fc f)). rewrite Hgo by lia.
        apply (rw_sem_mono e f); [lia | exact H].
      * subst. exists (S fc). rewrite Hgo by lia. reflexivity.
    + destruct H as [f H]. exists (S (Nat.max fc f)). rewrite Hgo by lia.
      apply (rw_sem_mono e f); [lia | exact H].
Qed.

End Evals.

Ltac leaf_inv H :=
  match type of H with rw_evals ?e ?t ?s ?l => apply (proj1 (evals_leaf e t s _ l eq_refl)) in H end.
Ltac leaf_intro :=
  match goal with |- rw_evals ?e ?t ?s ?l => apply (proj2 (evals_leaf e t s _ l eq_refl)) end.

(* ------------------------------------------------------------------------------------------ *)
(* 3. the relations: order structure, strong implies denotational                               *)
(* ------------------------------------------------------------------------------------------ *)

Section Basics.
Variable e : env.

Lemma rw_refines_refl t : rw_refines e t t.
Proof. intros s l H; exact H. Qed.
Lemma rw_refines_trans a b c : rw_refines e a b -> rw_refines e b c -> rw_refines e a c.
Proof. intros H1 H2 s l H. auto. Qed.
Lemma rw_hrefines_refl t : rw_hrefines e t t.
Proof. intros s l H; exists l; split; [exact H | reflexivity]. Qed.
Lemma rw_hrefines_trans a b c : rw_hrefines e a b -> rw_hrefines e b c -> rw_hrefines e a c.
Proof.
  intros H1 H2 s l H. apply H1 in H as (l1 & H & E1). apply H2 in H as (l2 & H & E2).
  exists l2. split; [exact H | congruence].
Qed.
Lemma rw_refines_hrefines a b : rw_refines e a b -> rw_hrefines e a b.
Proof. intros H s l Hl. exists l. split; [apply H, Hl | reflexivity]. Qed.

Lemma rw_eq_refl t : rw_eq e t t.
Proof. split; apply rw_refines_refl. Qed.
Lemma rw_eq_sym a b : rw_eq e a b -> rw_eq e b a.
Proof. intros [H1 H2]; split; assumption. Qed.
Lemma rw_eq_trans a b c : rw_eq e a b -> rw_eq e b c -> rw_eq e a c.
Proof. intros [H1 H2] [H3 H4]; split; eapply rw_refines_trans; eassumption. Qed.
Lemma rw_heq_refl t : rw_heq e t t.
Proof. split; apply rw_hrefines_refl. Qed.
Lemma rw_heq_sym a b : rw_heq e a b -> rw_heq e b a.
Proof. intros [H1 H2]; split; assumption. Qed.
Lemma rw_heq_trans a b c : rw_heq e a b -> rw_heq e b c -> rw_heq e a c.
Proof. intros [H1 H2] [H3 H4]; split; eapply rw_hrefines_trans; eassumption. Qed.
Lemma rw_eq_heq a b : rw_eq e a b -> rw_heq e a b.
Proof. intros [H1 H2]; split; apply rw_refines_hrefines; assumption. Qed.

Lemma rw_eqs_refl t : rw_eqs e t t.
Proof. intros f s; reflexivity. Qed.
Lemma rw_eqs_sym a b : rw_eqs e a b -> rw_eqs e b a.
Proof. intros H f s; symmetry; apply H. Qed.
Lemma rw_eqs_trans a b c : rw_eqs e a b -> rw_eqs e b c -> rw_eqs e a c.
Proof. intros H1 H2 f s; rewrite H1; apply H2. Qed.
Lemma rw_heqs_refl t : rw_heqs e t t.
Proof. intros f s; reflexivity. Qed.
Lemma rw_heqs_sym a b : rw_heqs e a b -> rw_heqs e b a.
Proof. intros H f s; symmetry; apply H. Qed.
Lemma rw_heqs_trans a b c : rw_heqs e a b -> rw_heqs e b c -> rw_heqs e a c.
Proof. intros H1 H2 f s; rewrite H1; apply H2. Qed.
Lemma rw_eqs_heqs a b : rw_eqs e a b -> rw_heqs e a b.
Proof. intros H f s; rewrite H; reflexivity. Qed.

Lemma rw_eqs_eq a b : rw_eqs e a b -> rw_eq e a b.
Proof. intros H; split; intros s l [f Hf]; exists f; [rewrite <- H | rewrite H]; exact Hf. Qed.

Lemma rw_heqs_hrefines a b : rw_heqs e a b -> rw_hrefines e a b.
Proof.
  intros H s l [f Hf]. specialize (H f s). rewrite Hf, first_only_Ok in H. symmetry in H.
  apply first_only_ok in H as (l0 & H0 & E). exists l0. split; [exists f; exact H0 | exact E].
Qed.
Lemma rw_heqs_heq a b : rw_heqs e a b -> rw_heq e a b.
Proof. intros H; split; apply rw_heqs_hrefines; [exact H | apply rw_heqs_sym, H]. Qed.

(* whenever both trees evaluate, related trees give the same (first) result *)
Lemma rw_hrefines_agree a b s la lb :
  rw_hrefines e a b -> rw_evals e a s la -> rw_evals e b s lb -> hd_list la = hd_list lb.
Proof.
  intros H Ha Hb. apply H in Ha as (l' & Hl' & E). rewrite (rw_evals_det e _ _ _ _ Hb Hl'). exact E.
Qed.

End Basics.

(* ------------------------------------------------------------------------------------------ *)
(* 4. R1 — a single-character loop in atomic position (makeLoopAtomic, tree.go:710-740)          *)
(* ------------------------------------------------------------------------------------------ *)

Section CharLoop.
Variable e : env.

Lemma run_len_bounds k c o n p : 0 <= run_len e k c o n p <= Z.of_nat n.
Proof.
  revert p. induction n as [|n IH]; intros p; cbn [run_len]; [lia|].
  destruct ((0 <? avail e o p) && char_test e k c (next_char e o p)); [specialize (IH (p + dir o))|]; lia.
Qed.

Lemma run_len_min k c o a b p :
  run_len e k c o (Nat.min a b) p = Z.min (run_len e k c o a p) (Z.of_nat b).
Proof.
  revert b p. induction a as [|a IH]; intros b p.
  - cbn [Nat.min run_len]. lia.
  - destruct b as [|b].
    + cbn [Nat.min]. pose proof (run_len_bounds k c o (S a) p). cbn [run_len] in *. lia.
    + cbn [Nat.min run_len].
      destruct ((0 <? avail e o p) && char_test e k c (next_char e o p)); [rewrite IH|]; lia.
Qed.

Lemma count_down_head r m : m <= r -> exists tl, count_down r m = r :: tl.
Proof.
  intros H. unfold count_down. assert (r <? m = false) as -> by lia.
  destruct (Z.to_nat (r - m + 1)) as [|k] eqn:E; [lia|]. simpl. eauto.
Qed.

Lemma count_up_head m r : m <= r -> exists tl, count_up m r = m :: tl.
Proof.
  intros H. unfold count_up. assert (r <? m = false) as -> by lia.
  destruct (Z.to_nat (r - m + 1)) as [|k] eqn:E; [lia|]. simpl. eauto.
Qed.

Lemma with_pos_same (s : st) : with_pos s (pos s) = s.
Proof. destruct s; reflexivity. Qed.

Ltac leaf_fuel f s := intros f s; destruct f as [|f]; [reflexivity|]; rewrite !sem_S; cbn [sem_step].

(* R1, greedy: the first result of a greedy loop is the maximal run.  No side condition. *)
Theorem end_backtracking_charloop k o c m n :
  rw_heqs e (NCharLoop k LGreedy o c m n) (NCharLoop k LAtomic o c m n).
Proof.
  leaf_fuel f s. unfold sem_charloop. cbv zeta.
  set (r := run_len e k c o _ (pos s)). destruct (r <? m) eqn:E; [reflexivity|].
  destruct (count_down_head r m ltac:(lia)) as [tl ->]. reflexivity.
Qed.

(* R1, lazy: makeLoopAtomic turns a lazy loop into the repeater of its minimum (n := m). *)
Theorem end_backtracking_charloop_lazy k o c m n : 0 <= m <= n -> m < INF ->
  rw_heqs e (NCharLoop k LLazy o c m n) (NCharLoop k LAtomic o c m m).
Proof.
  intros Hmn Hm. leaf_fuel f s. unfold sem_charloop. cbv zeta.
  set (A := avail e o (pos s)).
  assert (m =? INF = false) as -> by lia.
  set (cap1 := if n =? INF then A else Z.min n A).
  assert (Hcap : Z.to_nat (Z.min m A) = Nat.min (Z.to_nat cap1) (Z.to_nat m)).
  { unfold cap1. destruct (n =? INF); lia. }
  rewrite Hcap, run_len_min.
  set (r := run_len e k c o (Z.to_nat cap1) (pos s)).
  pose proof (run_len_bounds k c o (Z.to_nat cap1) (pos s)) as Hr. fold r in Hr.
  replace (Z.of_nat (Z.to_nat m)) with m by lia.
  destruct (r <? m) eqn:E.
  - assert (Z.min r m <? m = true) as -> by lia. reflexivity.
  - assert (Z.min r m <? m = false) as -> by lia.
    destruct (count_up_head m r ltac:(lia)) as [tl ->]. cbn [map first_only bind].
    replace (Z.min r m) with m by lia. reflexivity.
Qed.

(* R1, lazy with minimum 0: makeLoopAtomic produces Empty (tree.go:724-729). *)
Theorem end_backtracking_charloop_lazy0 k o c n :
  rw_heqs e (NCharLoop k LLazy o c 0 n) NEmpty.
Proof.
  leaf_fuel f s. unfold sem_charloop. cbv zeta.
  set (r := run_len e k c o _ (pos s)).
  pose proof (run_len_bounds k c o (Z.to_nat (if n =? INF then avail e o (pos s) else Z.min n (avail e o (pos s)))) (pos s)) as Hr.
  fold r in Hr. assert (r <? 0 = false) as -> by lia.
  destruct (count_up_head 0 r ltac:(lia)) as [tl ->]. cbn [map first_only bind].
  replace (pos s + dir o * 0) with (pos s) by lia. rewrite with_pos_same. reflexivity.
Qed.

(* a One repeater {m,m} and the Multi of m copies (tree.go:730-738); under IgnoreCase a Multi
   lower-cases the text and a One does not, so the rune must be one the lower-casing leaves alone *)
Definition ci_neutral (o c : Z) : Prop := is_ci o = true -> forall x, (c =? lower e x) = (x =? c).

Lemma run_len_full k c o n p :
  run_len e k c o n p = Z.of_nat n <->
  forall i, 0 <= i < Z.of_nat n ->
    (0 <? avail e o (p + dir o * i)) && char_test e k c (next_char e o (p + dir o * i)) = true.
Proof.
  revert p. induction n as [|n IH]; intros p.
  - cbn [run_len]. split; [intros _ i Hi; lia | reflexivity].
  - cbn [run_len]. pose proof (run_len_bounds k c o n (p + dir o)) as Hb. split.
    + intros H i Hi.
      destruct ((0 <? avail e o p) && char_test e k c (next_char e o p)) eqn:E; [|lia].
      destruct (Z.eq_dec i 0) as [->|Hne].
      * replace (p + dir o * 0) with p by lia. exact E.
      * assert (H' : run_len e k c o n (p + dir o) = Z.of_nat n) by lia.
        rewrite IH in H'. specialize (H' (i - 1) ltac:(lia)).
        replace (p + dir o + dir o * (i - 1)) with (p + dir o * i) in H' by lia. exact H'.
    + intros H. pose proof (H 0 ltac:(lia)) as H0. replace (p + dir o * 0) with p in H0 by lia.
      rewrite H0. assert (H' : run_len e k c o n (p + dir o) = Z.of_nat n).
      { apply IH. intros i Hi. specialize (H (i + 1) ltac:(lia)).
        replace (p + dir o * (i + 1)) with (p + dir o + dir o * i) in H by lia. exact H. }
      lia.
Qed.

Lemma str_match_repeat ci c n p :
  str_match_at e ci (repeat c n) p = true <->
  forall i, 0 <= i < Z.of_nat n -> (c =? (if ci then lower e (char_at e (p + i)) else char_at e (p + i))) = true.
Proof.
  revert p. induction n as [|n IH]; intros p.
  - cbn. split; [intros _ i Hi; lia | reflexivity].
  - cbn [repeat str_match_at]. rewrite andb_true_iff, IH. split.
    + intros [H0 H] i Hi. destruct (Z.eq_dec i 0) as [->|Hne].
      * replace (p + 0) with p by lia. exact H0.
      * specialize (H (i - 1) ltac:(lia)). replace (p + 1 + (i - 1)) with (p + i) in H by lia. exact H.
    + intros H. split.
      * specialize (H 0 ltac:(lia)). replace (p + 0) with p in H by lia. exact H.
      * intros i Hi. specialize (H (i + 1) ltac:(lia)). replace (p + (i + 1)) with (p + 1 + i) in H by lia. exact H.
Qed.

Lemma zlen_repeat (c : Z) n : zlen (repeat c n) = Z.of_nat n.
Proof. unfold zlen. rewrite repeat_length. reflexivity. Qed.

Theorem charloop_repeater_multi o c m : 1 <= m -> m < INF -> ci_neutral o c ->
  rw_eqs e (NCharLoop COne LAtomic o c m m) (NMulti o (repeat c (Z.to_nat m))).
Proof.
  intros Hm Hinf Hci. leaf_fuel f s. f_equal. unfold sem_charloop, sem_multi. cbv zeta.
  assert (m =? INF = false) as -> by lia. rewrite zlen_repeat.
  replace (Z.of_nat (Z.to_nat m)) with m by lia.
  set (A := avail e o (pos s)). set (p := pos s).
  destruct (A <? m) eqn:EA.
  - pose proof (run_len_bounds COne c o (Z.to_nat (Z.min m A)) p) as Hb.
    assert (run_len e COne c o (Z.to_nat (Z.min m A)) p <? m = true) as -> by lia. reflexivity.
  - replace (Z.min m A) with m by lia.
    set (start := if is_rtl o then p - m else p).
    assert (Hiff : run_len e COne c o (Z.to_nat m) p = Z.of_nat (Z.to_nat m) <->
                   str_match_at e (is_ci o) (repeat c (Z.to_nat m)) start = true).
    { rewrite run_len_full, str_match_repeat.
      assert (Hav : forall i, 0 <= i < Z.of_nat (Z.to_nat m) -> (0 <? avail e o (p + dir o * i)) = true).
      { intros i Hi. unfold A, avail, dir in *. fold p in EA. destruct (is_rtl o); lia. }
      assert (Htest : forall x, (c =? (if is_ci o then lower e x else x)) = char_test e COne c x).
      { intros x. cbn [char_test]. destruct (is_ci o) eqn:Eci; [apply Hci; exact Eci | apply Z.eqb_sym]. }
      unfold start, next_char, dir in Hav |- *. destruct (is_rtl o).
      - split; intros H i Hi.
        + specialize (H (Z.of_nat (Z.to_nat m) - 1 - i) ltac:(lia)). rewrite Hav in H by lia. cbn [andb] in H.
          rewrite Htest. replace (p - m + i) with (p + -1 * (Z.of_nat (Z.to_nat m) - 1 - i) - 1) by lia. exact H.
        + rewrite (Hav i Hi). cbn [andb]. specialize (H (Z.of_nat (Z.to_nat m) - 1 - i) ltac:(lia)).
          rewrite Htest in H. replace (p - m + (Z.of_nat (Z.to_nat m) - 1 - i)) with (p + -1 * i - 1) in H by lia. exact H.
      - split; intros H i Hi.
        + specialize (H i Hi). rewrite (Hav i Hi) in H. cbn [andb] in H. rewrite Htest.
          replace (p + i) with (p + 1 * i) by lia. exact H.
        + rewrite (Hav i Hi). cbn [andb]. specialize (H i Hi). rewrite Htest in H.
          replace (p + 1 * i) with (p + i) by lia. exact H. }
    pose proof (run_len_bounds COne c o (Z.to_nat m) p) as Hb.
    destruct (str_match_at e (is_ci o) (repeat c (Z.to_nat m)) start) eqn:ES.
    + assert (Hr : run_len e COne c o (Z.to_nat m) p = m) by (apply proj2 in Hiff; specialize (Hiff eq_refl); lia).
      rewrite Hr. assert (m <? m = false) as -> by lia. reflexivity.
    + assert (Hr : run_len e COne c o (Z.to_nat m) p <> Z.of_nat (Z.to_nat m)).
      { intros H. apply Hiff in H. discriminate. }
      assert (run_len e COne c o (Z.to_nat m) p <? m = true) as -> by lia. reflexivity.
Qed.

(* R1 as the code applies it: whatever makeLoopAtomic produces has the same first result *)
Theorem make_loop_atomic_heqs k l o c m n : loop_atomic_ok e k l o c m n ->
  rw_heqs e (NCharLoop k l o c m n) (make_loop_atomic (NCharLoop k l o c m n)).
Proof.
  destruct l; cbn [loop_atomic_ok make_loop_atomic].
  - intros _. apply end_backtracking_charloop.
  - intros (Hmn & Hinf & Hci). destruct (m =? 0) eqn:E0.
    + assert (m = 0) as -> by lia. apply end_backtracking_charloop_lazy0.
    + assert (Hgen : rw_heqs e (NCharLoop k LLazy o c m n) (NCharLoop k LAtomic o c m m))
        by (apply end_backtracking_charloop_lazy; assumption).
      destruct k; try exact Hgen.
      destruct ((2 <=? m) && (m <=? MULTI_VS_REPEATER_LIMIT)) eqn:E2; [|exact Hgen].
      eapply rw_heqs_trans; [exact Hgen|]. apply rw_eqs_heqs, charloop_repeater_multi; try lia.
      intros Eci. apply Hci; [reflexivity | exact Eci].
  - intros _. apply rw_heqs_refl.
Qed.

End CharLoop.

(* ------------------------------------------------------------------------------------------ *)
(* 5. R2 — what atomic positions observe; propagation of ≈ₕ along the ending-backtracking walk   *)
(* ------------------------------------------------------------------------------------------ *)

Section Congr.
Variable e : env.
Notation evals := (rw_evals e).
Notation "t ⊑ t'" := (rw_refines e t t') (at level 70).
Notation "t ⊑ₕ t'" := (rw_hrefines e t t') (at level 70).
Notation "t ≈ t'" := (rw_eq e t t') (at level 70).
Notation "t ≈ₕ t'" := (rw_heq e t t') (at level 70).

Lemma hd_list_nil_inv {A} (l l' : list A) : hd_list l = hd_list l' -> l = [] -> l' = [].
Proof. intros H ->. destruct l'; [reflexivity | discriminate]. Qed.

Lemma hd_list_app_congr {A} (a a' b b' : list A) :
  hd_list a = hd_list a' -> hd_list b = hd_list b' -> hd_list (a ++ b) = hd_list (a' ++ b').
Proof. intros Ha Hb. destruct a, a'; try discriminate; simpl in *; congruence. Qed.

Lemma hd_list_concat_congr {A} (zs zs' : list (list A)) :
  Forall2 (fun z z' => hd_list z = hd_list z') zs zs' -> hd_list (concat zs) = hd_list (concat zs').
Proof. induction 1; simpl; [reflexivity|]. apply hd_list_app_congr; assumption. Qed.

Lemma Forall2_exists {A B} (P Q : A -> B -> Prop) (R : B -> B -> Prop) l zs :
  (forall a z, P a z -> exists z', Q a z' /\ R z z') ->
  Forall2 P l zs -> exists zs', Forall2 Q l zs' /\ Forall2 R zs zs'.
Proof.
  intros H. induction 1 as [|a z l zs Hp _ (zs' & HQ & HR)].
  - exists []. split; constructor.
  - destruct (H _ _ Hp) as (z' & Hq & Hr). exists (z' :: zs'). split; constructor; assumption.
Qed.

(* --- the observers: equal FIRST results are all they see --- *)

Theorem atomic_observes_head t t' : t ⊑ₕ t' -> NAtomic t ⊑ NAtomic t'.
Proof.
  intros H s z Hz. apply evals_atomic in Hz as (l & Hl & ->).
  apply H in Hl as (l' & Hl' & E). apply evals_atomic. exists l'. split; [exact Hl' | congruence].
Qed.

Theorem poslook_observes_head o t t' : t ⊑ₕ t' -> NPosLook o t ⊑ NPosLook o t'.
Proof.
  intros H s z Hz. apply evals_poslook in Hz as (l & Hl & ->).
  apply H in Hl as (l' & Hl' & E). apply evals_poslook. exists l'. split; [exact Hl' | congruence].
Qed.

Theorem neglook_observes_head o t t' : t ⊑ₕ t' -> NNegLook o t ⊑ NNegLook o t'.
Proof.
  intros H s z Hz. apply evals_neglook in Hz as (l & Hl & ->).
  apply H in Hl as (l' & Hl' & E). apply evals_neglook. exists l'. split; [exact Hl' | rewrite E; reflexivity].
Qed.

Theorem exprcond_observes_head o c c' y n : c ⊑ₕ c' -> NExprCond o c y n ⊑ NExprCond o c' y n.
Proof.
  intros H s z Hz. apply evals_expr_cond in Hz as (lc & Hc & Hz).
  apply H in Hc as (lc' & Hc' & E). apply evals_expr_cond. exists lc'. split; [exact Hc'|].
  destruct lc as [|a lc], lc' as [|a' lc']; try discriminate; [exact Hz|].
  simpl in E. inversion E; subst. exact Hz.
Qed.

Lemma attempt_ok f root p r :
  attempt e f root p = Ok r <->
  exists l, sem e f root {| pos := p; caps := [] |} = Ok l /\ r = match l with [] => None | s :: _ => Some s end.
Proof.
  unfold attempt. split.
  - intros H. apply rw_bind_ok in H as (l & Hl & H). exists l. split; [exact Hl | congruence].
  - intros (l & -> & ->). reflexivity.
Qed.

Theorem attempt_observes_head root root' : root ⊑ₕ root' ->
  forall f p r, attempt e f root p = Ok r -> exists f', attempt e f' root' p = Ok r.
Proof.
  intros H f p r Hr. apply attempt_ok in Hr as (l & Hl & ->).
  destruct (H _ _ (ex_intro _ f Hl)) as (l' & [f' Hl'] & E). exists f'. apply attempt_ok.
  exists l'. split; [exact Hl'|]. destruct l, l'; try discriminate; [reflexivity|]. simpl in E. congruence.
Qed.

Lemma attempt_mono f f' root p r : (f <= f')%nat -> attempt e f root p = Ok r -> attempt e f' root p = Ok r.
Proof.
  intros Hle H. apply attempt_ok in H as (l & Hl & ->). apply attempt_ok. exists l.
  split; [eapply rw_sem_mono; eassumption | reflexivity].
Qed.

Lemma scan_from_observes_head root root' rtl : root ⊑ₕ root' ->
  forall n f p r, scan_from e f n root rtl p = Ok r ->
  exists f', forall f'', (f' <= f'')%nat -> scan_from e f'' n root' rtl p = Ok r.
Proof.
  intros H. induction n as [|n IH]; intros f p r Hr.
  - exists 0%nat. intros; exact Hr.
  - cbn [scan_from] in Hr. apply rw_bind_ok in Hr as (a & Ha & Hr).
    destruct (attempt_observes_head _ _ H _ _ _ Ha) as (fa & Ha').
    destruct a as [s|].
    + exists fa. intros f'' Hf. cbn [scan_from]. rewrite (attempt_mono _ _ _ _ _ Hf Ha'). exact Hr.
    + destruct (if rtl then p <=? 0 else tlen e <=? p) eqn:E.
      * exists fa. intros f'' Hf. cbn [scan_from]. rewrite (attempt_mono _ _ _ _ _ Hf Ha'). cbn [bind]. rewrite E. exact Hr.
      * apply IH in Hr as (fr & Hr). exists (Nat.max fa fr). intros f'' Hf. cbn [scan_from].
        rewrite (attempt_mono fa f'' _ _ _ ltac:(lia) Ha'). cbn [bind]. rewrite E. apply Hr. lia.
Qed.

(* the whole search (Spec.find: the scan over start positions) only observes the first result of the root *)
Theorem find_observes_head root root' rtl : root ⊑ₕ root' ->
  forall f start prevlen r, find e f root rtl start prevlen = Ok r ->
  exists f', find e f' root' rtl start prevlen = Ok r.
Proof.
  intros H f start prevlen r Hr. unfold find in *.
  destruct ((prevlen =? 0) && (start =? (if rtl then 0 else tlen e))); [exists 0%nat; exact Hr|].
  apply (scan_from_observes_head _ _ _ H) in Hr as (f' & Hr). exists f'. apply Hr. lia.
Qed.

(* --- propagation of ⊑ₕ through the positions eliminateEndingBacktracking walks --- *)

Lemma atomic_heq t : NAtomic t ≈ₕ t.
Proof.
  split; intros s z Hz.
  - apply evals_atomic in Hz as (l & Hl & ->). exists l. split; [exact Hl | apply hd_list_idem].
  - exists (hd_list z). split; [apply evals_atomic; eauto | symmetry; apply hd_list_idem].
Qed.

Lemma atomic_tail t t' : t ⊑ₕ t' -> NAtomic t ⊑ₕ NAtomic t'.
Proof. intros H. apply rw_refines_hrefines, atomic_observes_head, H. Qed.

Lemma poslook_tail o t t' : t ⊑ₕ t' -> NPosLook o t ⊑ₕ NPosLook o t'.
Proof. intros H. apply rw_refines_hrefines, poslook_observes_head, H. Qed.

Lemma neglook_tail o t t' : t ⊑ₕ t' -> NNegLook o t ⊑ₕ NNegLook o t'.
Proof. intros H. apply rw_refines_hrefines, neglook_observes_head, H. Qed.

Lemma group_tail t t' : t ⊑ₕ t' -> NGroup t ⊑ₕ NGroup t'.
Proof.
  intros H s z Hz. apply (proj1 (evals_group _ _ _ _)) in Hz. apply H in Hz as (z' & Hz' & E).
  exists z'. split; [apply (proj2 (evals_group _ _ _ _)); exact Hz' | exact E].
Qed.

Lemma hd_list_flat_map_single {A B} (k : A -> B) (l : list A) :
  hd_list (flat_map (fun a => [k a]) l) = map k (hd_list l).
Proof. destruct l; reflexivity. Qed.

(* a PLAIN capture (u = -1) maps every result of its child to exactly one result *)
Lemma capture_tail o g t t' : t ⊑ₕ t' -> NCapture o g (-1) t ⊑ₕ NCapture o g (-1) t'.
Proof.
  intros H s z Hz. apply evals_capture in Hz as (l & Hl & ->).
  apply H in Hl as (l' & Hl' & E). eexists. split; [apply evals_capture; exists l'; split; [exact Hl' | reflexivity]|].
  unfold capture_close. change (-1 =? -1) with true. cbv iota.
  rewrite !hd_list_flat_map_single. congruence.
Qed.

Lemma concat_last_tail o pre t t' : t ⊑ₕ t' -> NConcat o (pre ++ [t]) ⊑ₕ NConcat o (pre ++ [t']).
Proof.
  intros H. induction pre as [|x pre IH]; intros s z Hz; cbn [app] in *.
  - apply evals_concat_cons in Hz as (lx & zs & Hx & HF & ->).
    apply H in Hx as (lx' & Hx' & E).
    assert (Hnil : forall l zs, Forall2 (fun a za => evals (NConcat o []) a za) l zs -> concat zs = l).
    { induction 1 as [|a za l0 zs0 Ha _ IH0]; [reflexivity|]. apply evals_concat_nil in Ha. subst. simpl. congruence. }
    rewrite (Hnil _ _ HF). exists lx'. split; [|exact E].
    apply evals_concat_cons. exists lx', (map (fun a => [a]) lx'). split; [exact Hx'|]. split.
    + clear. induction lx'; constructor; [apply evals_concat_nil; reflexivity | assumption].
    + clear. induction lx'; simpl; congruence.
  - apply evals_concat_cons in Hz as (lx & zs & Hx & HF & ->).
    destruct (Forall2_exists _ (fun a za => evals (NConcat o (pre ++ [t'])) a za)
                (fun z z' => hd_list z = hd_list z') _ _ (fun a z Hz => IH a z Hz) HF) as (zs' & HF' & HR).
    exists (concat zs'). split; [|apply hd_list_concat_congr, HR].
    apply evals_concat_cons. exists lx, zs'. auto.
Qed.

Lemma alt_all_tail o l l' : Forall2 (rw_hrefines e) l l' -> NAlternate o l ⊑ₕ NAlternate o l'.
Proof.
  induction 1 as [|x x' l l' Hx _ IH]; intros s z Hz.
  - exists z. split; [exact Hz | reflexivity].
  - apply evals_alt_cons in Hz as (lx & ly & Hlx & Hly & ->).
    apply Hx in Hlx as (lx' & Hlx' & Ex). apply IH in Hly as (ly' & Hly' & Ey).
    exists (lx' ++ ly'). split; [apply evals_alt_cons; eauto | apply hd_list_app_congr; assumption].
Qed.

Definition opt_hrefines (n n' : option node) : Prop :=
  match n, n' with
  | Some a, Some b => a ⊑ₕ b
  | None, None => True
  | _, _ => False
  end.

Lemma backref_cond_tail o g y y' n n' : y ⊑ₕ y' -> opt_hrefines n n' -> NBackRefCond o g y n ⊑ₕ NBackRefCond o g y' n'.
Proof.
  intros Hy Hn s z Hz. apply evals_backref_cond in Hz.
  destruct (is_matched g (caps s)) eqn:E.
  - apply Hy in Hz as (z' & Hz' & Eh). exists z'. split; [|exact Eh]. apply evals_backref_cond. rewrite E. exact Hz'.
  - destruct n as [a|], n' as [b|]; cbn [opt_hrefines] in Hn; try contradiction.
    + apply Hn in Hz as (z' & Hz' & Eh). exists z'. split; [|exact Eh]. apply evals_backref_cond. rewrite E. exact Hz'.
    + exists z. split; [|reflexivity]. apply evals_backref_cond. rewrite E. exact Hz.
Qed.

Lemma expr_cond_tail o c c' y y' n n' : c ⊑ₕ c' -> y ⊑ₕ y' -> opt_hrefines n n' ->
  NExprCond o c y n ⊑ₕ NExprCond o c' y' n'.
Proof.
  intros Hc Hy Hn s z Hz. apply evals_expr_cond in Hz as (lc & Hlc & Hz).
  apply Hc in Hlc as (lc' & Hlc' & E).
  destruct lc as [|a lc], lc' as [|a' lc']; try discriminate.
  - destruct n as [b|], n' as [b'|]; cbn [opt_hrefines] in Hn; try contradiction.
    + apply Hn in Hz as (z' & Hz' & Eh). exists z'. split; [|exact Eh]. apply evals_expr_cond. exists []. auto.
    + exists z. split; [|reflexivity]. apply evals_expr_cond. exists []. auto.
  - simpl in E. inversion E; subst a'. apply Hy in Hz as (z' & Hz' & Eh). exists z'. split; [|exact Eh].
    apply evals_expr_cond. exists (a :: lc'). auto.
Qed.

End Congr.

Scheme ends_to_min := Minimality for ends_to Sort Prop
  with ends_to_list_min := Minimality for ends_to_list Sort Prop
  with ends_to_opt_min := Minimality for ends_to_opt Sort Prop.
Combined Scheme ends_to_mutind from ends_to_min, ends_to_list_min, ends_to_opt_min.

Section Ending.
Variable e : env.
Notation evals := (rw_evals e).

(* --- loops in the walk --- *)

(* same-fuel "equal first result" on results *)
Definition hle_f {A} (r r' : res (list A)) : Prop :=
  forall l, r = Ok l -> exists l', r' = Ok l' /\ hd_list l = hd_list l'.

Lemma hle_f_refl {A} (r : res (list A)) : hle_f r r.
Proof. intros l H. exists l. split; [exact H | reflexivity]. Qed.

Lemma hle_f_bindl {A B} (l : list A) (f g : A -> res (list B)) :
  (forall a, hle_f (f a) (g a)) -> hle_f (bindl l f) (bindl l g).
Proof.
  intros H. induction l as [|a l IH]; [apply hle_f_refl|]. intros z Hz. cbn [bindl] in *.
  apply rw_bind_ok in Hz as (x & Hx & Hz). apply rw_bind_ok in Hz as (y & Hy & Hz). inversion Hz; subst.
  destruct (H a _ Hx) as (x' & Hx' & Ex). destruct (IH _ Hy) as (y' & Hy' & Ey).
  exists (x' ++ y'). rewrite Hx', Hy'. split; [reflexivity | apply hd_list_app_congr; assumption].
Qed.

Lemma hle_f_bindr {A B} (r : res (list A)) (f g : A -> res (list B)) :
  (forall a, hle_f (f a) (g a)) -> hle_f (bindr r f) (bindr r g).
Proof. intros H. destruct r; try (intros l Hl; discriminate). apply hle_f_bindl, H. Qed.

(* a lazy loop in atomic position never iterates beyond its minimum (tree.go:811-812): the first result
   is the one with exactly m iterations.  One-directional: the original may run out of fuel (or, on
   ill-formed trees, not terminate) exploring further iterations the rewritten loop does not have. *)
Lemma iter_lazy_min (body : st -> res (list st)) limit : 0 <= limit ->
  forall f s mark count, count <= 0 ->
  hle_f (iter f body true limit s mark count) (iter f body true 0 s mark count).
Proof.
  intros Hl. induction f as [|f IH]; intros s mark count Hc; [intros l H; discriminate|].
  cbn [iter]. destruct (count <? 0) eqn:E.
  - apply hle_f_bindr. intros a. apply IH. lia.
  - assert (count = 0) as -> by lia. change (0 <? 0) with false. cbn [andb].
    intros l H. unfold appr in H. cbn [bind] in H. apply rw_bind_ok in H as (y & _ & H). inversion H; subst.
    exists [s]. split; reflexivity.
Qed.

Theorem lazyloop_min_tail o m n r : 0 <= m <= n -> m < INF ->
  rw_hrefines e (NLoop true o m n r) (NLoop true o m m r).
Proof.
  intros Hmn Hinf s z [[|f] H]; [discriminate|]. rewrite sem_S in H. cbn [sem_step] in H.
  assert (Hlim : 0 <= (if n =? INF then INF else n - m)) by (destruct (n =? INF); unfold INF in *; lia).
  assert (Hgoal : hle_f (sem e (S f) (NLoop true o m n r) s) (sem e (S f) (NLoop true o m m r) s)).
  { rewrite !sem_S. cbn [sem_step]. assert (m =? INF = false) as -> by lia. replace (m - m) with 0 by lia.
    destruct (m =? 0) eqn:E0.
    - apply iter_lazy_min; [exact Hlim | lia].
    - apply hle_f_bindr. intros a. apply iter_lazy_min; [exact Hlim | lia]. }
  rewrite sem_S in Hgoal. cbn [sem_step] in Hgoal. destruct (Hgoal _ H) as (z' & Hz' & E).
  exists z'. split; [exists (S f); exact Hz' | exact E].
Qed.

(* a loop {1,1} is its body *)
Lemma evals_loop_11 lazy o r s z : evals (NLoop lazy o 1 1 r) s z <-> evals r s z.
Proof.
  assert (Hit : forall f s' mark, iter (S f) (sem e (S f) r) lazy 0 s' mark 0 = Ok [s']).
  { intros f s' mark. cbn [iter]. destruct lazy; reflexivity. }
  split.
  - intros [[|[|f]] H]; try discriminate; rewrite sem_S in H; cbn [sem_step] in H.
    + change (1 =? 0) with false in H. change (1 =? INF) with false in H. cbv iota in H. change (1 - 1) with 0 in H.
      unfold bindr in H. apply rw_bind_ok in H as (l & Hl & H). exists (S f).
      rewrite (bindl_ext _ _ (fun a => Ok [a])) in H by (intros a; apply Hit).
      rewrite bindl_pure in H. inversion H; subst. rewrite Hl. f_equal. clear. induction l; simpl; congruence.
  - intros [f H]. apply (rw_sem_mono e f (S f)) in H; [|lia]. exists (S (S f)). rewrite sem_S. cbn [sem_step].
    change (1 =? 0) with false. change (1 =? INF) with false. cbv iota. change (1 - 1) with 0.
    rewrite H. unfold bindr. cbn [bind].
    rewrite (bindl_ext _ _ (fun a => Ok [a])) by (intros a; apply Hit).
    rewrite bindl_pure. f_equal. clear. induction z; simpl; congruence.
Qed.

Lemma iter_S f (body : st -> res (list st)) lazy limit s mark count :
  iter (S f) body lazy limit s mark count =
  let again := bindr (body s) (fun s' => iter f body lazy limit s' (pos s) (count + 1)) in
  if lazy then
    if count <? 0 then again
    else appr (Ok [s]) (if (count <? limit) && negb (pos s =? mark) then again else Ok [])
  else
    if (limit <=? count) || ((pos s =? mark) && (0 <=? count)) then Ok [s]
    else appr again (Ok (if 0 <=? count then [s] else [])).
Proof. reflexivity. Qed.

Lemma iter_at_limit f (body : st -> res (list st)) lazy lim a mark x :
  0 <= lim -> iter f body lazy lim a mark lim = Ok x -> x = [a].
Proof.
  intros Hl H. destruct f as [|f]; [discriminate|]. cbn [iter] in H.
  assert (lim <? 0 = false) as E1 by lia. assert (lim <? lim = false) as E2 by lia. assert (lim <=? lim = true) as E3 by lia.
  destruct lazy; rewrite ?E1, ?E2, ?E3 in H; cbn in H; congruence.
Qed.

Lemma bindl_singletons {A} (l : list A) (K : A -> res (list A)) y :
  (forall a x, K a = Ok x -> x = [a]) -> bindl l K = Ok y -> y = l.
Proof.
  intros HK. revert y. induction l as [|a l IH]; intros y H; cbn [bindl] in H; [congruence|].
  apply rw_bind_ok in H as (x & Hx & H). apply rw_bind_ok in H as (y' & Hy' & H). inversion H; subst.
  rewrite (HK _ _ Hx), (IH _ Hy'). reflexivity.
Qed.

(* an optional group {0,1}: the body's results and "skip", in the order the flavour dictates *)
Lemma evals_loop_01 lazy o r s z :
  evals (NLoop lazy o 0 1 r) s z <->
  if pos s =? -1 then z = [s]
  else exists l, evals r s l /\ z = if lazy then s :: l else l ++ [s].
Proof.
  assert (Hit : forall f (body : st -> res (list st)) s' mark, iter (S f) body lazy 1 s' mark 1 = Ok [s']).
  { intros f body s' mark. cbn [iter]. destruct lazy; reflexivity. }
  assert (Hflat : forall l : list st, flat_map (fun a => [a]) l = l) by (induction l; simpl; congruence).
  split.
  - intros [[|[|f]] H]; try discriminate; rewrite sem_S in H; cbn [sem_step] in H;
      change (0 =? 0) with true in H; change (1 =? INF) with false in H; cbv iota in H; change (1 - 0) with 1 in H.
    + cbn [iter] in H. destruct (pos s =? -1) eqn:Ep.
      * destruct lazy; cbn in H; inversion H; reflexivity.
      * destruct lazy.
        -- change (0 <? 0) with false in H. change ((0 <? 1) && negb false) with true in H. cbv iota in H.
           unfold appr in H. cbn [bind] in H. apply rw_bind_ok in H as (y & Hy & H). inversion H; subst.
           unfold bindr in Hy. apply rw_bind_ok in Hy as (l & Hl & Hy).
           apply bindl_singletons in Hy; [|intros a x Hx; eapply (iter_at_limit _ _ _ 1); [lia | exact Hx]].
           subst y. exists l. split; [exists (S f); exact Hl | reflexivity].
        -- change ((1 <=? 0) || false && (0 <=? 0)) with false in H. change (0 <=? 0) with true in H. cbv iota in H.
           unfold appr in H. apply rw_bind_ok in H as (y & Hy & H). cbn [bind] in H. inversion H; subst.
           unfold bindr in Hy. apply rw_bind_ok in Hy as (l & Hl & Hy).
           apply bindl_singletons in Hy; [|intros a x Hx; eapply (iter_at_limit _ _ _ 1); [lia | exact Hx]].
           subst y. exists l. split; [exists (S f); exact Hl | reflexivity].
  - destruct (pos s =? -1) eqn:Ep.
    + intros ->. exists 2%nat. rewrite sem_S. cbn [sem_step]. change (0 =? 0) with true. cbv iota. cbn [iter].
      destruct lazy.
      * change (0 <? 0) with false. cbv iota. rewrite Ep. rewrite andb_false_r. reflexivity.
      * rewrite Ep. change (0 <=? 0) with true. rewrite orb_true_r. reflexivity.
    + intros (l & [f Hl] & ->). apply (rw_sem_mono e f (S f)) in Hl; [|lia].
      exists (S (S (S f))). rewrite sem_S. cbn [sem_step]. change (0 =? 0) with true. change (1 =? INF) with false. cbv iota.
      change (1 - 0) with 1. rewrite iter_S. cbv zeta. apply (rw_sem_mono e (S f) (S (S f))) in Hl; [|lia].
      destruct lazy.
      * change (0 <? 0) with false. change (0 <? 1) with true. cbv iota. rewrite Ep. cbn [andb negb].
        rewrite Hl. unfold bindr. cbn [bind].
        rewrite (bindl_ext _ _ (fun a => Ok [a])) by (intros a; apply Hit). rewrite bindl_pure, Hflat. reflexivity.
      * change (1 <=? 0) with false. rewrite Ep. cbn [orb andb]. cbv iota.
        rewrite Hl. unfold bindr. cbn [bind].
        rewrite (bindl_ext _ _ (fun a => Ok [a])) by (intros a; apply Hit). rewrite bindl_pure, Hflat. reflexivity.
Qed.

(* the body of a loop with maximum 1 is at the end when the loop is (tree.go:815-821) *)
Theorem loop_one_tail lazy o m r r' : m = 0 \/ m = 1 -> rw_hrefines e r r' ->
  rw_hrefines e (NLoop lazy o m 1 r) (NLoop lazy o m 1 r').
Proof.
  intros [-> | ->] H s z Hz.
  - apply evals_loop_01 in Hz. destruct (pos s =? -1) eqn:Ep.
    + subst z. exists [s]. split; [apply evals_loop_01; rewrite Ep; reflexivity | reflexivity].
    + destruct Hz as (l & Hl & ->). destruct (H _ _ Hl) as (l' & Hl' & E).
      exists (if lazy then s :: l' else l' ++ [s]). split; [apply evals_loop_01; rewrite Ep; eauto|].
      destruct lazy; [reflexivity | apply hd_list_app_congr; [exact E | reflexivity]].
  - apply (proj1 (evals_loop_11 _ _ _ _ _)) in Hz. destruct (H _ _ Hz) as (l' & Hl' & E).
    exists l'. split; [apply (proj2 (evals_loop_11 _ _ _ _ _)); exact Hl' | exact E].
Qed.

(* R2: every step of the ending-backtracking walk (Model/Rewrite.ends_to) preserves the first result:
   whenever the original tree evaluates, the rewritten one does and the first results are equal *)
Theorem eliminate_ending_sound_all :
  (forall t t', ends_to e t t' -> rw_hrefines e t t') /\
  (forall l l', ends_to_list e l l' -> Forall2 (rw_hrefines e) l l') /\
  (forall n n', ends_to_opt e n n' -> opt_hrefines e n n').
Proof.
  apply (ends_to_mutind e (fun t t' => rw_hrefines e t t')
           (fun l l' => Forall2 (rw_hrefines e) l l')
           (fun n n' => opt_hrefines e n n')).
  - intros t. apply rw_hrefines_refl.
  - intros k l o c m n H. apply rw_heqs_hrefines, make_loop_atomic_heqs, H.
  - intros t t' _ H. apply atomic_tail, H.
  - intros t t' _ H. eapply rw_hrefines_trans; [exact H | apply (proj2 (atomic_heq e t'))].
  - intros o t t' _ H. apply poslook_tail, H.
  - intros o t t' _ H. apply neglook_tail, H.
  - intros o g t t' _ H. apply capture_tail, H.
  - intros t t' _ H. apply group_tail, H.
  - intros o pre t t' _ H. apply concat_last_tail, H.
  - intros o l l' _ H. apply alt_all_tail, H.
  - intros o g y y' n n' _ H1 _ H2. apply backref_cond_tail; assumption.
  - intros o c c' y y' n n' _ H1 _ H2 _ H3. apply expr_cond_tail; assumption.
  - intros o m n r Hmn Hinf. apply lazyloop_min_tail; assumption.
  - intros lazy o m r r' Hm _ H. apply loop_one_tail; assumption.
  - intros a b c _ H1 _ H2. eapply rw_hrefines_trans; eassumption.
  - constructor.
  - intros t t' l l' _ H1 _ H2. constructor; assumption.
  - exact I.
  - intros t t' _ H. exact H.
Qed.

Theorem eliminate_ending_sound t t' : ends_to e t t' -> rw_hrefines e t t'.
Proof. apply eliminate_ending_sound_all. Qed.

(* consequence for the search: the match found on the rewritten tree is the one found on the original *)
Corollary eliminate_ending_find root root' rtl : ends_to e root root' ->
  forall f start prevlen r, find e f root rtl start prevlen = Ok r ->
  exists f', find e f' root' rtl start prevlen = Ok r.
Proof. intros H. apply find_observes_head, eliminate_ending_sound, H. Qed.

End Ending.

(* ------------------------------------------------------------------------------------------ *)
(* 6. R3 — the bump-along marker is Empty for the reference semantics                            *)
(* ------------------------------------------------------------------------------------------ *)

Section Bump.
Variable e : env.

Theorem bump_is_noop : rw_eqs e NBump NEmpty.
Proof. intros [|f] s; reflexivity. Qed.

Lemma seq_sem_bump rec l1 l2 s :
  (forall s, rec NBump s = Ok [s]) -> seq_sem rec (l1 ++ NBump :: l2) s = seq_sem rec (l1 ++ l2) s.
Proof.
  intros Hb. revert s. induction l1 as [|x l1 IH]; intros s; cbn [app seq_sem].
  - rewrite Hb. unfold bindr. cbn [bind]. apply bindl_single.
  - apply bindr_ext. exact IH.
Qed.

(* as the code inserts it (index 1 of the leading concatenation: after the loop, tree.go:355-357):
   same result with the same fuel *)
Theorem bump_insert_eqs o x l1 l2 :
  rw_eqs e (NConcat o (x :: l1 ++ l2)) (NConcat o (x :: l1 ++ NBump :: l2)).
Proof.
  intros [|[|f]] s; try reflexivity. rewrite !sem_S. cbn [sem_step].
  symmetry. apply (seq_sem_bump _ (x :: l1)). intros s'. reflexivity.
Qed.

(* anywhere in any concatenation *)
Theorem bump_insert_eq o l1 l2 : rw_eq e (NConcat o (l1 ++ l2)) (NConcat o (l1 ++ NBump :: l2)).
Proof.
  split; intros s z [[|f] H]; try discriminate; rewrite sem_S in H; cbn [sem_step] in H.
  - exists (S (S f)). rewrite sem_S. cbn [sem_step]. rewrite seq_sem_bump by (intros; reflexivity).
    eapply rle_seq_sem; [|exact H]. intros; apply rw_sem_mono_S.
  - destruct f as [|f].
    + destruct l1; cbn in H; discriminate.
    + exists (S (S f)). rewrite sem_S. cbn [sem_step]. rewrite seq_sem_bump in H by (intros; reflexivity). exact H.
Qed.

End Bump.

(* ------------------------------------------------------------------------------------------ *)
(* 7. R4 — a greedy loop followed by something that cannot start where the loop gave back        *)
(*    (findAndMakeLoopsAtomic / canBeMadeAtomic, tree.go:375-470, 872-1027)                      *)
(* ------------------------------------------------------------------------------------------ *)

Section AutoAtomic.
Variable e : env.
Notation evals := (rw_evals e).

Lemma sem_charloop_unfold k l o c m n s :
  sem_charloop e k l o c m n s =
  let r := loop_run e k o c n s in
  if r <? m then [] else
  match l with
  | LGreedy => map (loop_state o s) (count_down r m)
  | LLazy => map (loop_state o s) (count_up m r)
  | LAtomic => [loop_state o s r]
  end.
Proof. reflexivity. Qed.

Lemma count_down_aux_in n a j : In j (count_down_aux n a) <-> a - Z.of_nat n < j <= a.
Proof.
  revert a. induction n as [|n IH]; intros a; cbn [count_down_aux In].
  - lia.
  - rewrite IH. lia.
Qed.

Lemma count_down_in a b j : In j (count_down a b) <-> b <= j <= a.
Proof.
  unfold count_down. destruct (a <? b) eqn:E.
  - simpl. lia.
  - rewrite count_down_aux_in. lia.
Qed.

Lemma count_down_cons r m : m <= r -> count_down r m = r :: count_down (r - 1) m.
Proof.
  intros H. unfold count_down. assert (r <? m = false) as -> by lia.
  replace (Z.to_nat (r - m + 1)) with (S (Z.to_nat (r - 1 - m + 1))) by lia. cbn [count_down_aux].
  destruct (r - 1 <? m) eqn:E; [|reflexivity].
  replace (Z.to_nat (r - 1 - m + 1)) with 0%nat by lia. reflexivity.
Qed.

Lemma bindl_all_nil {A B} (l : list A) (k : A -> res (list B)) :
  (forall a, In a l -> k a = Ok []) -> bindl l k = Ok [].
Proof.
  induction l as [|a l IH]; intros H; simpl; [reflexivity|].
  rewrite (H a) by (left; reflexivity). simpl. rewrite IH by (intros; apply H; right; assumption). reflexivity.
Qed.

(* R4, same-fuel form: the successor [x] fails outright (whatever the fuel) at every state where the
   loop stopped early *)
Theorem auto_atomic_charloop_strong k o o1 c m n x rest :
  (forall f s j, m <= j < loop_run e k o1 c n s -> sem e (S f) x (loop_state o1 s j) = Ok []) ->
  rw_eqs e (NConcat o (NCharLoop k LGreedy o1 c m n :: x :: rest))
           (NConcat o (NCharLoop k LAtomic o1 c m n :: x :: rest)).
Proof.
  intros Hx [|[|f]] s; try reflexivity. rewrite !sem_S. cbn [sem_step seq_sem].
  rewrite !sem_S. cbn [sem_step]. rewrite !sem_charloop_unfold. cbv zeta.
  set (r := loop_run e k o1 c n s). destruct (r <? m) eqn:E; [reflexivity|].
  rewrite (count_down_cons r m) by lia. cbn [map]. unfold bindr at 1 3. cbn [bind bindl].
  set (K := fun s0 => bindr (sem e (S f) x s0) (seq_sem (sem e (S f)) rest)).
  rewrite (bindl_all_nil (map (loop_state o1 s) (count_down (r - 1) m)) K); [reflexivity|].
  intros a Ha. apply in_map_iff in Ha as (j & <- & Hj). apply count_down_in in Hj.
  unfold K. rewrite Hx by (fold r; lia). reflexivity.
Qed.

Lemma seq_fails_evals o rest s : rw_seq_fails e rest s <-> evals (NConcat o rest) s [].
Proof.
  split.
  - intros [f H]. exists (S f). rewrite sem_S. exact H.
  - intros [[|f] H]; [discriminate|]. exists f. rewrite sem_S in H. exact H.
Qed.

Lemma concat_all_nil {A} (zs : list (list A)) : Forall (fun z => z = []) zs -> concat zs = [].
Proof. induction 1; simpl; [reflexivity|]. subst. assumption. Qed.

Lemma evals_charloop k l o c m n s lx :
  evals (NCharLoop k l o c m n) s lx <-> lx = sem_charloop e k l o c m n s.
Proof. apply evals_leaf. reflexivity. Qed.

(* R4, general form: the whole continuation [rest] evaluates to "no result" at every state where the
   loop stopped early *)
Theorem auto_atomic_charloop k o o1 c m n rest :
  (forall s j, m <= j < loop_run e k o1 c n s -> rw_seq_fails e rest (loop_state o1 s j)) ->
  rw_eq e (NConcat o (NCharLoop k LGreedy o1 c m n :: rest))
          (NConcat o (NCharLoop k LAtomic o1 c m n :: rest)).
Proof.
  intros Hfail.
  assert (Hearly : forall s a, In a (map (loop_state o1 s) (count_down (loop_run e k o1 c n s - 1) m)) ->
                               evals (NConcat o rest) a []).
  { intros s a Ha. apply in_map_iff in Ha as (j & <- & Hj). apply count_down_in in Hj.
    apply seq_fails_evals, Hfail. lia. }
  split; intros s z Hz; apply evals_concat_cons in Hz as (lx & zs & Hx & HF & ->);
    apply evals_concat_cons.
  - apply (proj1 (evals_charloop _ _ _ _ _ _ _ _)) in Hx. subst lx. rewrite sem_charloop_unfold in HF. cbv zeta in HF.
    exists (sem_charloop e k LAtomic o1 c m n s). rewrite sem_charloop_unfold. cbv zeta.
    destruct (loop_run e k o1 c n s <? m) eqn:E.
    + inversion HF; subst. exists []. split; [apply (proj2 (evals_charloop _ _ _ _ _ _ _ _)); rewrite sem_charloop_unfold; cbv zeta; rewrite E; reflexivity|].
      split; [constructor | reflexivity].
    + rewrite (count_down_cons _ m) in HF by lia. cbn [map] in HF. inversion HF as [|a0 z0 l0 zs0 H0 HF0]; subst.
      exists [z0]. split; [apply (proj2 (evals_charloop _ _ _ _ _ _ _ _)); rewrite sem_charloop_unfold; cbv zeta; rewrite E; reflexivity|].
      split; [constructor; [exact H0 | constructor]|]. cbn [concat]. f_equal.
      apply concat_all_nil. clear H0 HF.
      assert (Hall : forall a, In a (map (loop_state o1 s) (count_down (loop_run e k o1 c n s - 1) m)) ->
                               evals (NConcat o rest) a []) by (apply Hearly).
      revert Hall HF0. generalize (map (loop_state o1 s) (count_down (loop_run e k o1 c n s - 1) m)).
      intros l Hall HF0. induction HF0 as [|a za l zs Ha _ IH]; constructor.
      * eapply rw_evals_det; [exact Ha | apply Hall; left; reflexivity].
      * apply IH. intros; apply Hall; right; assumption.
  - apply (proj1 (evals_charloop _ _ _ _ _ _ _ _)) in Hx. subst lx. rewrite sem_charloop_unfold in HF. cbv zeta in HF.
    exists (sem_charloop e k LGreedy o1 c m n s). rewrite sem_charloop_unfold. cbv zeta.
    destruct (loop_run e k o1 c n s <? m) eqn:E.
    + inversion HF; subst. exists []. split; [apply (proj2 (evals_charloop _ _ _ _ _ _ _ _)); rewrite sem_charloop_unfold; cbv zeta; rewrite E; reflexivity|].
      split; [constructor | reflexivity].
    + inversion HF as [|a0 z0 l0 zs0 H0 HF0]; subst. inversion HF0; subst.
      rewrite (count_down_cons _ m) by lia. cbn [map].
      set (early := map (loop_state o1 s) (count_down (loop_run e k o1 c n s - 1) m)).
      exists (z0 :: map (fun _ => []) early).
      split; [apply (proj2 (evals_charloop _ _ _ _ _ _ _ _)); rewrite sem_charloop_unfold; cbv zeta; rewrite E, (count_down_cons _ m) by lia; reflexivity|].
      split.
      * constructor; [exact H0|]. specialize (Hearly s). fold early in Hearly. clearbody early.
        induction early as [|a l IH]; constructor; [apply Hearly; left; reflexivity | apply IH; intros; apply Hearly; right; assumption].
      * cbn [concat]. f_equal. symmetry. apply concat_all_nil. clear. induction early; constructor; auto.
Qed.

(* ---- what is true of every state at which the loop stopped early ---- *)

Lemma run_len_char k c o n p j : 0 <= j < run_len e k c o n p ->
  (0 <? avail e o (p + dir o * j)) && char_test e k c (next_char e o (p + dir o * j)) = true.
Proof.
  revert p j. induction n as [|n IH]; intros p j Hj; cbn [run_len] in Hj; [lia|].
  destruct ((0 <? avail e o p) && char_test e k c (next_char e o p)) eqn:E; [|lia].
  destruct (Z.eq_dec j 0) as [->|Hne].
  - replace (p + dir o * 0) with p by lia. exact E.
  - specialize (IH (p + dir o) (j - 1) ltac:(lia)).
    replace (p + dir o + dir o * (j - 1)) with (p + dir o * j) in IH by lia. exact IH.
Qed.

Lemma early_next_in k o c m n s j : 0 <= m -> m <= j < loop_run e k o c n s ->
  next_in e k o c (loop_state o s j).
Proof.
  intros Hm [Hj1 Hj2]. unfold loop_run in Hj2. cbv zeta in Hj2.
  pose proof (run_len_char k c o _ (pos s) j (conj (Z.le_trans _ _ _ Hm Hj1) Hj2)) as H. apply andb_true_iff in H.
  unfold next_in, loop_state. cbn [pos with_pos]. exact H.
Qed.

(* ---- syntactic sufficient conditions (the cases of canBeMadeAtomic), each as "x fails, whatever the
   fuel, at every state whose next character passes the loop's test" ---- *)

Definition tests_disjoint (k : ckind) (c : Z) (k' : ckind) (c' : Z) : Prop :=
  forall ch, char_test e k c ch = true -> char_test e k' c' ch = false.

Lemma avail_same_dir o o' p : is_rtl o' = is_rtl o -> avail e o' p = avail e o p.
Proof. unfold avail. intros ->. reflexivity. Qed.
Lemma next_char_same_dir o o' p : is_rtl o' = is_rtl o -> next_char e o' p = next_char e o p.
Proof. unfold next_char. intros ->. reflexivity. Qed.

(* successor One / Notone / Set with a disjoint test (tree.go:919-921, 946, 960-961) *)
Lemma succ_char_fails k o c k' o' c' s f : is_rtl o' = is_rtl o -> tests_disjoint k c k' c' ->
  next_in e k o c s -> sem e (S f) (NChar k' o' c') s = Ok [].
Proof.
  intros Hd Hdis [Ha Ht]. rewrite sem_S. cbn [sem_step].
  rewrite (avail_same_dir o o'), (next_char_same_dir o o') by exact Hd.
  rewrite (Hdis _ Ht), andb_false_r. reflexivity.
Qed.

(* successor Multi whose first character fails the loop's test (tree.go:925, 948, 964); left-to-right *)
Lemma succ_multi_fails k o c o' c0 str s f : is_rtl o = false -> is_rtl o' = false ->
  (forall ch, char_test e k c ch = true -> (c0 =? (if is_ci o' then lower e ch else ch)) = false) ->
  next_in e k o c s -> sem e (S f) (NMulti o' (c0 :: str)) s = Ok [].
Proof.
  intros Ho Ho' Hdis [Ha Ht]. rewrite sem_S. cbn [sem_step]. unfold sem_multi. cbv zeta.
  destruct (avail e o' (pos s) <? zlen (c0 :: str)); [reflexivity|].
  rewrite Ho'. cbn [str_match_at]. unfold next_char in Ht. rewrite Ho in Ht.
  rewrite (Hdis _ Ht). reflexivity.
Qed.

(* successor loop (any flavour) with min >= 1 and a disjoint test (tree.go:922-924, 947, 962-963) *)
Lemma succ_charloop_fails k o c k' l' o' c' m' n' s f : is_rtl o' = is_rtl o -> tests_disjoint k c k' c' ->
  1 <= m' -> next_in e k o c s -> sem e (S f) (NCharLoop k' l' o' c' m' n') s = Ok [].
Proof.
  intros Hd Hdis Hm [Ha Ht]. rewrite sem_S. cbn [sem_step]. rewrite sem_charloop_unfold. cbv zeta.
  assert (Hr : loop_run e k' o' c' n' s = 0).
  { unfold loop_run. cbv zeta. destruct (Z.to_nat _) as [|cap]; [reflexivity|]. cbn [run_len].
    rewrite (next_char_same_dir o o') by exact Hd. rewrite (Hdis _ Ht), andb_false_r. reflexivity. }
  rewrite Hr. assert (0 <? m' = true) as -> by lia. reflexivity.
Qed.

(* successor \z (tree.go:926, 949, 965); left-to-right *)
Lemma succ_end_fails k o c s f : is_rtl o = false -> next_in e k o c s -> sem e (S f) (NAnchor AEnd) s = Ok [].
Proof.
  intros Ho [Ha _]. rewrite sem_S. cbn [sem_step anchor_ok]. unfold avail in Ha. rewrite Ho in Ha.
  assert (tlen e <=? pos s = false) as -> by lia. reflexivity.
Qed.

(* successor $ when the loop's test rejects '\n' (tree.go:928, 967); left-to-right *)
Lemma succ_eol_fails k o c s f : is_rtl o = false -> char_test e k c 10 = false ->
  next_in e k o c s -> sem e (S f) (NAnchor AEol) s = Ok [].
Proof.
  intros Ho Hnl [Ha Ht]. rewrite sem_S. cbn [sem_step anchor_ok]. unfold avail in Ha. unfold next_char in Ht.
  rewrite Ho in Ha, Ht. assert (tlen e <=? pos s = false) as -> by lia.
  destruct (char_at e (pos s) =? 10) eqn:E; [|reflexivity].
  assert (char_at e (pos s) = 10) as E' by lia. rewrite E' in Ht. congruence.
Qed.

(* successor \Z when the loop's test rejects '\n' (tree.go:927, 966); left-to-right *)
Lemma succ_endz_fails k o c s f : is_rtl o = false -> char_test e k c 10 = false ->
  next_in e k o c s -> sem e (S f) (NAnchor AEndZ) s = Ok [].
Proof.
  intros Ho Hnl [Ha Ht]. rewrite sem_S. cbn [sem_step anchor_ok]. unfold avail in Ha. unfold next_char in Ht.
  rewrite Ho in Ha, Ht. cbv zeta.
  destruct (1 <? tlen e - pos s) eqn:E1; [reflexivity|].
  destruct (endz_strict e).
  - assert (tlen e - pos s <=? 0 = false) as -> by lia. reflexivity.
  - assert (tlen e - pos s =? 1 = true) as -> by lia.
    destruct (char_at e (pos s) =? 10) eqn:E; [|reflexivity].
    assert (char_at e (pos s) = 10) as E' by lia. rewrite E' in Ht. congruence.
Qed.

(* ---- the corollaries: one per case of canBeMadeAtomic ---- *)

Ltac auto_atomic_by L :=
  intros; apply auto_atomic_charloop_strong; intros f s j Hj;
  eapply L; try eassumption; eapply early_next_in; eassumption.

Theorem auto_atomic_then_char k o o1 c m n k' o' c' rest :
  0 <= m -> is_rtl o' = is_rtl o1 -> tests_disjoint k c k' c' ->
  rw_eqs e (NConcat o (NCharLoop k LGreedy o1 c m n :: NChar k' o' c' :: rest))
           (NConcat o (NCharLoop k LAtomic o1 c m n :: NChar k' o' c' :: rest)).
Proof. auto_atomic_by succ_char_fails. Qed.

Theorem auto_atomic_then_multi k o o1 c m n o' c0 str rest :
  0 <= m -> is_rtl o1 = false -> is_rtl o' = false ->
  (forall ch, char_test e k c ch = true -> (c0 =? (if is_ci o' then lower e ch else ch)) = false) ->
  rw_eqs e (NConcat o (NCharLoop k LGreedy o1 c m n :: NMulti o' (c0 :: str) :: rest))
           (NConcat o (NCharLoop k LAtomic o1 c m n :: NMulti o' (c0 :: str) :: rest)).
Proof.
  intros Hm Ho Ho' Hd. apply auto_atomic_charloop_strong. intros f s j Hj.
  apply (succ_multi_fails k o1 c); try assumption. eapply early_next_in; eassumption.
Qed.

Theorem auto_atomic_then_charloop k o o1 c m n k' l' o' c' m' n' rest :
  0 <= m -> is_rtl o' = is_rtl o1 -> tests_disjoint k c k' c' -> 1 <= m' ->
  rw_eqs e (NConcat o (NCharLoop k LGreedy o1 c m n :: NCharLoop k' l' o' c' m' n' :: rest))
           (NConcat o (NCharLoop k LAtomic o1 c m n :: NCharLoop k' l' o' c' m' n' :: rest)).
Proof. auto_atomic_by succ_charloop_fails. Qed.

Theorem auto_atomic_then_end k o o1 c m n rest :
  0 <= m -> is_rtl o1 = false ->
  rw_eqs e (NConcat o (NCharLoop k LGreedy o1 c m n :: NAnchor AEnd :: rest))
           (NConcat o (NCharLoop k LAtomic o1 c m n :: NAnchor AEnd :: rest)).
Proof. auto_atomic_by succ_end_fails. Qed.

Theorem auto_atomic_then_eol k o o1 c m n rest :
  0 <= m -> is_rtl o1 = false -> char_test e k c 10 = false ->
  rw_eqs e (NConcat o (NCharLoop k LGreedy o1 c m n :: NAnchor AEol :: rest))
           (NConcat o (NCharLoop k LAtomic o1 c m n :: NAnchor AEol :: rest)).
Proof. auto_atomic_by succ_eol_fails. Qed.

Theorem auto_atomic_then_endz k o o1 c m n rest :
  0 <= m -> is_rtl o1 = false -> char_test e k c 10 = false ->
  rw_eqs e (NConcat o (NCharLoop k LGreedy o1 c m n :: NAnchor AEndZ :: rest))
           (NConcat o (NCharLoop k LAtomic o1 c m n :: NAnchor AEndZ :: rest)).
Proof. auto_atomic_by succ_endz_fails. Qed.

End AutoAtomic.

(* ------------------------------------------------------------------------------------------ *)
(* 8. full-list congruences (≈ is usable inside concatenations, alternations, groups, ...)       *)
(* ------------------------------------------------------------------------------------------ *)

Section Congr2.
Variable e : env.
Notation evals := (rw_evals e).

Lemma evals_concat_opts o o' l s z : evals (NConcat o l) s z <-> evals (NConcat o' l) s z.
Proof. split; intros [[|f] H]; try discriminate; exists (S f); rewrite sem_S in *; exact H. Qed.

Lemma evals_alt_opts o o' l s z : evals (NAlternate o l) s z <-> evals (NAlternate o' l) s z.
Proof. split; intros [[|f] H]; try discriminate; exists (S f); rewrite sem_S in *; exact H. Qed.

Lemma evals_alt_map {A} o (g : A -> node) bs s z :
  evals (NAlternate o (map g bs)) s z <->
  exists zs, Forall2 (fun a za => evals (g a) s za) bs zs /\ z = concat zs.
Proof.
  revert z. induction bs as [|b bs IH]; intros z; cbn [map].
  - rewrite evals_alt_nil. split.
    + intros ->. exists []. split; [constructor | reflexivity].
    + intros (zs & HF & ->). inversion HF. reflexivity.
  - rewrite evals_alt_cons. split.
    + intros (lx & ly & Hx & Hy & ->). apply IH in Hy as (zs & HF & ->).
      exists (lx :: zs). split; [constructor; assumption | reflexivity].
    + intros (zs & HF & ->). inversion HF as [|b' z0 bs' zs' H0 HF']; subst.
      exists z0, (concat zs'). split; [exact H0|]. split; [apply IH; eauto | reflexivity].
Qed.

Lemma evals_alt_all o l s z :
  evals (NAlternate o l) s z <-> exists zs, Forall2 (fun t za => evals t s za) l zs /\ z = concat zs.
Proof. rewrite <- (map_id l) at 1. apply evals_alt_map. Qed.

Lemma alt_congr o l l' : Forall2 (rw_refines e) l l' -> rw_refines e (NAlternate o l) (NAlternate o l').
Proof.
  intros H s z Hz. apply evals_alt_all in Hz as (zs & HF & ->). apply evals_alt_all. exists zs. split; [|reflexivity].
  clear -H HF. revert zs HF. induction H as [|t t' l l' Ht _ IH]; intros zs HF; inversion HF; subst; constructor; auto.
Qed.

Lemma alt_prefix_congr o pre l l' :
  rw_refines e (NAlternate o l) (NAlternate o l') -> rw_refines e (NAlternate o (pre ++ l)) (NAlternate o (pre ++ l')).
Proof.
  intros H. induction pre as [|x pre IH]; [exact H|]. intros s z Hz. cbn [app] in *.
  apply evals_alt_cons in Hz as (lx & ly & Hx & Hy & ->). apply evals_alt_cons. exists lx, ly. auto.
Qed.

Lemma concat_prefix_congr o pre l l' :
  rw_refines e (NConcat o l) (NConcat o l') -> rw_refines e (NConcat o (pre ++ l)) (NConcat o (pre ++ l')).
Proof.
  intros H. induction pre as [|x pre IH]; [exact H|]. intros s z Hz. cbn [app] in *.
  apply evals_concat_cons in Hz as (lx & zs & Hx & HF & ->). apply evals_concat_cons. exists lx, zs.
  split; [exact Hx|]. split; [|reflexivity]. eapply Forall2_impl'; [|exact HF]. intros a za Ha. apply IH, Ha.
Qed.

Lemma concat_head_congr o x x' l : rw_refines e x x' -> rw_refines e (NConcat o (x :: l)) (NConcat o (x' :: l)).
Proof.
  intros H s z Hz. apply evals_concat_cons in Hz as (lx & zs & Hx & HF & ->). apply evals_concat_cons.
  exists lx, zs. auto.
Qed.

Lemma concat_congr o l l' : Forall2 (rw_refines e) l l' -> rw_refines e (NConcat o l) (NConcat o l').
Proof.
  induction 1 as [|x x' l l' Hx _ IH]; [apply rw_refines_refl|].
  eapply rw_refines_trans; [apply concat_head_congr, Hx|].
  apply (concat_prefix_congr o [x']), IH.
Qed.

Lemma capture_congr o g u t t' : rw_refines e t t' -> rw_refines e (NCapture o g u t) (NCapture o g u t').
Proof.
  intros H s z Hz. apply evals_capture in Hz as (l & Hl & ->). apply evals_capture. exists l. auto.
Qed.

Lemma group_congr t t' : rw_refines e t t' -> rw_refines e (NGroup t) (NGroup t').
Proof. intros H s z Hz. apply (proj1 (evals_group _ _ _ _)) in Hz. apply (proj2 (evals_group _ _ _ _)). auto. Qed.

Lemma concat_singleton o t : rw_eq e (NConcat o [t]) t.
Proof.
  assert (Hnil : forall l zs, Forall2 (fun a za => evals (NConcat o []) a za) l zs -> concat zs = l).
  { induction 1 as [|a za l0 zs0 Ha _ IH0]; [reflexivity|]. apply evals_concat_nil in Ha. subst. simpl. congruence. }
  split; intros s z Hz.
  - apply evals_concat_cons in Hz as (lx & zs & Hx & HF & ->). rewrite (Hnil _ _ HF). exact Hx.
  - apply evals_concat_cons. exists z, (map (fun a => [a]) z). split; [exact Hz|]. split.
    + clear. induction z; constructor; [apply evals_concat_nil; reflexivity | assumption].
    + clear. induction z; simpl; congruence.
Qed.

End Congr2.

(* ------------------------------------------------------------------------------------------ *)
(* 9. R5 — alternations in atomic position (reduceAtomic, tree.go:605-700)                       *)
(* ------------------------------------------------------------------------------------------ *)

Section AtomicAlt.
Variable e : env.
Notation evals := (rw_evals e).

Lemma evals_empty s z : evals NEmpty s z <-> z = [s].
Proof. apply evals_leaf. reflexivity. Qed.

(* branches after an Empty branch are never the first result *)
Theorem trim_after_empty o pre post :
  rw_hrefines e (NAlternate o (pre ++ NEmpty :: post)) (NAlternate o (pre ++ [NEmpty])).
Proof.
  induction pre as [|x pre IH]; intros s z Hz; cbn [app] in *.
  - apply evals_alt_cons in Hz as (lx & ly & Hx & _ & ->). apply evals_empty in Hx. subst lx.
    exists [s]. split; [|reflexivity]. apply evals_alt_cons. exists [s], [].
    split; [apply evals_empty; reflexivity|]. split; [apply evals_alt_nil; reflexivity | reflexivity].
  - apply evals_alt_cons in Hz as (lx & ly & Hx & Hy & ->). apply IH in Hy as (ly' & Hy' & E).
    exists (lx ++ ly'). split; [apply evals_alt_cons; eauto|]. apply hd_list_app_congr; [reflexivity | exact E].
Qed.

(* an alternation whose FIRST branch is Empty is Empty (tree.go:616-618) *)
Theorem trim_first_empty o post : rw_hrefines e (NAlternate o (NEmpty :: post)) NEmpty.
Proof.
  intros s z Hz. apply evals_alt_cons in Hz as (lx & ly & Hx & _ & ->). apply evals_empty in Hx. subst lx.
  exists [s]. split; [apply evals_empty; reflexivity | reflexivity].
Qed.

(* the converse direction needs the dropped branches to evaluate at all (the model's fuel could run
   out inside a branch the rewritten tree no longer has) *)
Theorem trim_after_empty_heq o pre post :
  (forall s, exists l, evals (NAlternate o post) s l) ->
  rw_heq e (NAlternate o (pre ++ NEmpty :: post)) (NAlternate o (pre ++ [NEmpty])).
Proof.
  intros Hterm. split; [apply trim_after_empty|].
  induction pre as [|x pre IH]; intros s z Hz; cbn [app] in *.
  - apply evals_alt_cons in Hz as (lx & ly & Hx & Hy & ->). apply evals_empty in Hx. subst lx.
    destruct (Hterm s) as (lp & Hp). exists ([s] ++ lp). split; [|reflexivity].
    apply evals_alt_cons. exists [s], lp. split; [apply evals_empty; reflexivity | auto].
  - apply evals_alt_cons in Hz as (lx & ly & Hx & Hy & ->). apply IH in Hy as (ly' & Hy' & E).
    exists (lx ++ ly'). split; [apply evals_alt_cons; eauto|]. apply hd_list_app_congr; [reflexivity | exact E].
Qed.

(* two branches that never both succeed from the same state *)
Definition branches_exclusive (a b : node) : Prop :=
  forall s la lb, evals a s la -> evals b s lb -> la = [] \/ lb = [].

Lemma swap_exclusive_refines o a b post : branches_exclusive a b ->
  rw_refines e (NAlternate o (a :: b :: post)) (NAlternate o (b :: a :: post)).
Proof.
  intros Hex s z Hz. apply evals_alt_cons in Hz as (la & l1 & Ha & H1 & ->).
  apply evals_alt_cons in H1 as (lb & lp & Hb & Hp & ->).
  assert (E : la ++ lb ++ lp = lb ++ la ++ lp).
  { destruct (Hex _ _ _ Ha Hb) as [-> | ->]; simpl; reflexivity. }
  rewrite E. apply evals_alt_cons. exists lb, (la ++ lp). split; [exact Hb|]. split; [|reflexivity].
  apply evals_alt_cons. eauto.
Qed.

(* swapping two adjacent exclusive branches changes NOTHING (the full result list is the same), so in
   particular it is sound in atomic position, where the code does it *)
Theorem reorder_exclusive o pre a b post : branches_exclusive a b ->
  rw_eq e (NAlternate o (pre ++ a :: b :: post)) (NAlternate o (pre ++ b :: a :: post)).
Proof.
  intros Hex. split; apply alt_prefix_congr, swap_exclusive_refines; [exact Hex|].
  intros s la lb Ha Hb. destruct (Hex _ _ _ Hb Ha); auto.
Qed.

(* first-character tests (Model/Rewrite.branch_first_test = findBranchOneOrMultiStart generalised) *)
Lemma leaf_first_test_sound t T s l : leaf_first_test e t = Some T -> evals t s l -> l <> [] ->
  (pos s <? tlen e) = true /\ T (char_at e (pos s)) = true.
Proof.
  intros HT Hl Hne. destruct t; cbn [leaf_first_test] in HT; try discriminate.
  - destruct (is_rtl o) eqn:Eo; [discriminate|]. inversion HT; subst T.
    leaf_inv Hl. subst l. unfold avail, next_char in Hne. rewrite Eo in Hne.
    destruct ((0 <? tlen e - pos s) && char_test e k c (char_at e (pos s))) eqn:E; [|contradiction].
    apply andb_true_iff in E as [E1 E2]. split; [lia | exact E2].
  - destruct s0 as [|c0 str]; [discriminate|]. destruct (is_rtl o) eqn:Eo; [discriminate|]. inversion HT; subst T.
    leaf_inv Hl. subst l. unfold sem_multi, avail in Hne. cbv zeta in Hne. rewrite Eo in Hne.
    destruct (tlen e - pos s <? zlen (c0 :: str)) eqn:E1; [contradiction|].
    cbn [str_match_at] in Hne.
    destruct (c0 =? (if is_ci o then lower e (char_at e (pos s)) else char_at e (pos s))) eqn:E2; [|contradiction].
    split; [|reflexivity]. unfold zlen in E1. cbn [length] in E1. lia.
Qed.

Lemma branch_first_test_sound t T s l : branch_first_test e t = Some T -> evals t s l -> l <> [] ->
  (pos s <? tlen e) = true /\ T (char_at e (pos s)) = true.
Proof.
  intros HT Hl Hne. destruct t as [ | | | | | | | |oc lc| | | | | | | | | ]; cbn [branch_first_test] in HT; try (eapply leaf_first_test_sound; eassumption).
  destruct lc as [|x lc]; [discriminate|].
  apply evals_concat_cons in Hl as (lx & zs & Hx & HF & ->).
  eapply leaf_first_test_sound; [exact HT | exact Hx|]. intros ->. inversion HF; subst. apply Hne. reflexivity.
Qed.

Lemma first_tests_exclusive a b Ta Tb :
  branch_first_test e a = Some Ta -> branch_first_test e b = Some Tb ->
  (forall x, Ta x = true -> Tb x = false) -> branches_exclusive a b.
Proof.
  intros Ha Hb Hdis s la lb Hla Hlb.
  destruct la as [|a0 la]; [left; reflexivity|]. destruct lb as [|b0 lb]; [right; reflexivity|]. exfalso.
  destruct (branch_first_test_sound _ _ _ _ Ha Hla ltac:(discriminate)) as [_ H1].
  destruct (branch_first_test_sound _ _ _ _ Hb Hlb ltac:(discriminate)) as [_ H2].
  rewrite (Hdis _ H1) in H2. discriminate.
Qed.

(* R5 reorder: adjacent branches whose first characters can never both match may be swapped *)
Theorem reorder_disjoint o pre a b post Ta Tb :
  branch_first_test e a = Some Ta -> branch_first_test e b = Some Tb ->
  (forall x, Ta x = true -> Tb x = false) ->
  rw_eq e (NAlternate o (pre ++ a :: b :: post)) (NAlternate o (pre ++ b :: a :: post)).
Proof. intros Ha Hb Hdis. apply reorder_exclusive. eapply first_tests_exclusive; eassumption. Qed.

(* as the code decides it: One / Multi-led branches with DIFFERENT first runes (FirstCharOfOneOrMulti),
   left-to-right, case-sensitive *)
Theorem reorder_first_char o pre a b post oa ca ob cb :
  branch_first_char a = Some (oa, ca) -> branch_first_char b = Some (ob, cb) ->
  is_rtl oa = false -> is_rtl ob = false -> is_ci oa = false -> is_ci ob = false -> ca <> cb ->
  rw_eq e (NAlternate o (pre ++ a :: b :: post)) (NAlternate o (pre ++ b :: a :: post)).
Proof.
  intros Ha Hb Ra Rb Ca Cb Hne.
  assert (Hleaf : forall t o0 c0, leaf_first_char t = Some (o0, c0) -> is_rtl o0 = false -> is_ci o0 = false ->
                    exists T, leaf_first_test e t = Some T /\ forall x, T x = true <-> x = c0).
  { intros t o0 c0 Ht Hr Hc. destruct t; cbn [leaf_first_char] in Ht; try discriminate.
    - destruct k; try discriminate. inversion Ht; subst. cbn [leaf_first_test]. rewrite Hr.
      eexists. split; [reflexivity|]. intros x. cbn [char_test]. lia.
    - destruct s as [|c1 str]; [discriminate|]. inversion Ht; subst. cbn [leaf_first_test]. rewrite Hr, Hc.
      eexists. split; [reflexivity|]. intros x. cbv beta. lia. }
  assert (Hbr : forall t o0 c0, branch_first_char t = Some (o0, c0) -> is_rtl o0 = false -> is_ci o0 = false ->
                    exists T, branch_first_test e t = Some T /\ forall x, T x = true <-> x = c0).
  { intros t o0 c0 Ht Hr Hc. destruct t as [ | | | | | | | |oc lc| | | | | | | | | ]; cbn [branch_first_char] in Ht; cbn [branch_first_test]; try (apply (Hleaf _ _ _ Ht Hr Hc)).
    destruct lc as [|x lc]; [discriminate|]. apply (Hleaf _ _ _ Ht Hr Hc). }
  destruct (Hbr _ _ _ Ha Ra Ca) as (Ta & HTa & Ea). destruct (Hbr _ _ _ Hb Rb Cb) as (Tb & HTb & Eb).
  apply (reorder_disjoint o pre a b post Ta Tb HTa HTb).
  intros x Hx. apply Ea in Hx. destruct (Tb x) eqn:E; [|reflexivity]. apply Eb in E. congruence.
Qed.

End AtomicAlt.

(* ------------------------------------------------------------------------------------------ *)
(* 10. R6 — factoring a common prefix out of alternation branches                                *)
(*     (extractCommonPrefixText / extractCommonPrefixOneNotoneSet, tree.go:1066-1262)            *)
(* ------------------------------------------------------------------------------------------ *)

Section Prefix.
Variable e : env.
Notation evals := (rw_evals e).

(* at most one result from any state *)
Definition single_result (p : node) : Prop := forall s l, evals p s l -> (length l <= 1)%nat.

Lemma evals_concat_after_single o p a s s1 z : evals p s [s1] ->
  (evals (NConcat o (p :: a)) s z <-> evals (NConcat o a) s1 z).
Proof.
  intros Hp. rewrite evals_concat_cons. split.
  - intros (lx & zs & Hx & HF & ->). rewrite (rw_evals_det e _ _ _ _ Hx Hp) in HF.
    inversion HF as [|a0 z0 l0 zs0 H0 HF0]; subst. inversion HF0; subst. cbn [concat]. rewrite app_nil_r. exact H0.
  - intros H. exists [s1], [z]. split; [exact Hp|]. split; [constructor; [exact H | constructor]|].
    cbn [concat]. rewrite app_nil_r. reflexivity.
Qed.

Lemma evals_concat_after_none o p a s z : evals p s [] ->
  (evals (NConcat o (p :: a)) s z <-> z = []).
Proof.
  intros Hp. rewrite evals_concat_cons. split.
  - intros (lx & zs & Hx & HF & ->). rewrite (rw_evals_det e _ _ _ _ Hx Hp) in HF. inversion HF. reflexivity.
  - intros ->. exists [], []. split; [exact Hp|]. split; [constructor | reflexivity].
Qed.

Lemma concat_all_nil' {A} (zs : list (list A)) : Forall (fun z => z = []) zs -> concat zs = [].
Proof. induction 1; simpl; [reflexivity|]. subst. assumption. Qed.

(* R6, n branches: Alt[p·a1, ..., p·an] ≈ p·Alt[a1, ..., an] for a single-result p.
   The options stamped on Concatenate / Alternate nodes are irrelevant to the semantics, so they are
   left arbitrary (the code gives the new nodes the options of the alternation or of the prefix). *)
Theorem alt_prefix_factor o1 o2 o3 o4 o5 p bs : bs <> [] -> single_result p ->
  rw_eq e (NAlternate o1 (map (fun a => NConcat o2 (p :: a)) bs))
          (NConcat o3 [p; NAlternate o4 (map (NConcat o5) bs)]).
Proof.
  intros Hne Hsingle. split; intros s z Hz.
  - apply evals_alt_map in Hz as (zs & HF & ->).
    assert (Hp : exists lp, evals p s lp).
    { destruct bs as [|b bs]; [contradiction|]. inversion HF as [|b' z0 bs' zs' H0 _]; subst.
      apply evals_concat_cons in H0 as (lx & _ & Hx & _). eauto. }
    destruct Hp as (lp & Hp). pose proof (Hsingle _ _ Hp) as Hlen.
    destruct lp as [|s1 [|s2 lp]]; [| |cbn in Hlen; lia].
    + assert (Hall : Forall (fun z => z = []) zs).
      { clear -HF Hp. induction HF as [|b z0 bs zs H0 _ IH]; constructor; [|exact IH].
        apply (evals_concat_after_none _ _ _ _ _ Hp) in H0. exact H0. }
      rewrite (concat_all_nil' _ Hall). apply (evals_concat_after_none _ _ _ _ _ Hp). reflexivity.
    + apply (evals_concat_after_single _ _ _ _ _ _ Hp). apply (proj2 (concat_singleton e _ _)). apply evals_alt_map.
      exists zs. split; [|reflexivity]. eapply Forall2_impl'; [|exact HF]. intros b z0 H0. cbv beta in *.
      apply (evals_concat_after_single _ _ _ _ _ _ Hp) in H0. eapply evals_concat_opts, H0.
  - pose proof Hz as Hz0. apply evals_concat_cons in Hz0 as (lp & _ & Hp & _).
    pose proof (Hsingle _ _ Hp) as Hlen. destruct lp as [|s1 [|s2 lp]]; [| |cbn in Hlen; lia].
    + apply (evals_concat_after_none _ _ _ _ _ Hp) in Hz. subst z. apply evals_alt_map.
      exists (map (fun _ => []) bs). split.
      * clear -Hp. induction bs; constructor; [apply (evals_concat_after_none _ _ _ _ _ Hp); reflexivity | assumption].
      * symmetry. apply concat_all_nil'. clear. induction bs; constructor; auto.
    + apply (evals_concat_after_single _ _ _ _ _ _ Hp) in Hz. apply (proj1 (concat_singleton e _ _)) in Hz.
      apply evals_alt_map in Hz as (zs & HF & ->). apply evals_alt_map. exists zs. split; [|reflexivity].
      eapply Forall2_impl'; [|exact HF]. intros b z0 H0. cbv beta in *.
      apply (evals_concat_after_single _ _ _ _ _ _ Hp). eapply evals_concat_opts, H0.
Qed.

(* the two-branch form *)
Corollary alt_prefix_factor2 o p a b : single_result p ->
  rw_eq e (NAlternate o [NConcat o (p :: a); NConcat o (p :: b)])
          (NConcat o [p; NAlternate o [NConcat o a; NConcat o b]]).
Proof. intros H. apply (alt_prefix_factor o o o o o p [a; b]); [discriminate | exact H]. Qed.

(* inside a longer alternation: the run [bs] of branches sharing the prefix is replaced by one branch *)
Lemma alt_group o o' pre mid post :
  rw_eq e (NAlternate o (pre ++ mid ++ post)) (NAlternate o (pre ++ NAlternate o' mid :: post)).
Proof.
  split; apply alt_prefix_congr; intros s z Hz.
  - apply evals_alt_all in Hz as (zs & HF & ->).
    apply Forall2_app_inv_l in HF as (z1 & z2 & H1 & H2 & ->).
    rewrite concat_app. apply evals_alt_cons. exists (concat z1), (concat z2).
    split; [apply evals_alt_all; eauto|]. split; [apply evals_alt_all; eauto | reflexivity].
  - apply evals_alt_cons in Hz as (l1 & l2 & H1 & H2 & ->).
    apply evals_alt_all in H1 as (z1 & HF1 & ->). apply evals_alt_all in H2 as (z2 & HF2 & ->).
    apply evals_alt_all. exists (z1 ++ z2). split; [apply Forall2_app; assumption | symmetry; apply concat_app].
Qed.

Theorem alt_prefix_factor_in o o2 o3 o4 o5 pre p bs post : bs <> [] -> single_result p ->
  rw_eq e (NAlternate o (pre ++ map (fun a => NConcat o2 (p :: a)) bs ++ post))
          (NAlternate o (pre ++ NConcat o3 [p; NAlternate o4 (map (NConcat o5) bs)] :: post)).
Proof.
  intros Hne Hs. eapply rw_eq_trans; [apply (alt_group o o)|].
  destruct (alt_prefix_factor o o2 o3 o4 o5 p bs Hne Hs) as [H1 H2].
  split; apply alt_prefix_congr; intros s z Hz; apply evals_alt_cons in Hz as (l1 & l2 & Hl1 & Hl2 & ->);
    apply evals_alt_cons; exists l1, l2; auto.
Qed.

(* which prefixes are single-result: what the two extraction passes pull out *)
Lemma single_result_leaf p :
  (forall s r, leaf_result e p s = Some r -> (length r <= 1)%nat) ->
  (forall s, leaf_result e p s <> None) -> single_result p.
Proof.
  intros H Hn s l Hl. destruct (leaf_result e p s) as [r|] eqn:E; [|destruct (Hn s E)].
  apply (evals_leaf e _ _ _ _ E) in Hl. subst l. eapply H, E.
Qed.

Lemma single_result_char k o c : single_result (NChar k o c).
Proof.
  apply single_result_leaf; [|discriminate]. intros s r H. inversion H; subst.
  destruct (_ && _); simpl; lia.
Qed.

Lemma single_result_multi o str : single_result (NMulti o str).
Proof.
  apply single_result_leaf; [|discriminate]. intros s r H. inversion H; subst. unfold sem_multi. cbv zeta.
  destruct (_ <? _); [simpl; lia|]. destruct (str_match_at _ _ _ _); simpl; lia.
Qed.

Lemma single_result_charloop_atomic k o c m n : single_result (NCharLoop k LAtomic o c m n).
Proof.
  apply single_result_leaf; [|discriminate]. intros s r H. inversion H; subst. unfold sem_charloop. cbv zeta.
  destruct (_ <? _); simpl; lia.
Qed.

(* a fixed-count loop {m,m} of any flavour (the code requires M == N, tree.go:1207-1211) *)
Lemma single_result_charloop_fixed k l o c m : 0 <= m < INF -> single_result (NCharLoop k l o c m m).
Proof.
  intros Hm. apply single_result_leaf; [|discriminate]. intros s r H. inversion H; subst. clear H.
  rewrite sem_charloop_unfold. cbv zeta. set (r := loop_run e k o c m s).
  assert (Hr : r <= m).
  { unfold r, loop_run. cbv zeta. assert (m =? INF = false) as -> by lia.
    pose proof (run_len_bounds e k c o (Z.to_nat (Z.min m (avail e o (pos s)))) (pos s)). lia. }
  destruct (r <? m) eqn:E; [simpl; lia|]. assert (r = m) as -> by lia.
  destruct l; cbn [length map]; try lia.
  - unfold count_down. assert (m <? m = false) as -> by lia. replace (Z.to_nat (m - m + 1)) with 1%nat by lia. simpl. lia.
  - unfold count_up. assert (m <? m = false) as -> by lia. replace (Z.to_nat (m - m + 1)) with 1%nat by lia. simpl. lia.
Qed.

Lemma single_result_atomic t : single_result (NAtomic t).
Proof. intros s l Hl. apply evals_atomic in Hl as (l0 & _ & ->). destruct l0; simpl; lia. Qed.

(* splitting a literal (what processOneOrMulti leaves behind, tree.go:1295-1311); left-to-right *)
Lemma str_match_app ci u v p :
  str_match_at e ci (u ++ v) p = str_match_at e ci u p && str_match_at e ci v (p + zlen u).
Proof.
  revert p. induction u as [|c u IH]; intros p; cbn [app str_match_at].
  - unfold zlen. simpl. replace (p + 0) with p by lia. reflexivity.
  - rewrite IH. unfold zlen. cbn [length]. replace (p + 1 + Z.of_nat (length u)) with (p + Z.of_nat (S (length u))) by lia.
    rewrite andb_assoc. reflexivity.
Qed.

Theorem multi_split o o' u v : is_rtl o = false ->
  rw_eq e (NMulti o (u ++ v)) (NConcat o' [NMulti o u; NMulti o v]).
Proof.
  intros Ho.
  assert (Hm : forall str s, sem_multi e o str s =
            if tlen e - pos s <? zlen str then [] else
            if str_match_at e (is_ci o) str (pos s) then [with_pos s (pos s + zlen str)] else []).
  { intros str s. unfold sem_multi, avail, dir. cbv zeta. rewrite Ho.
    replace (pos s + 1 * zlen str) with (pos s + zlen str) by lia. reflexivity. }
  assert (Hlen : zlen (u ++ v) = zlen u + zlen v) by (unfold zlen; rewrite app_length; lia).
  assert (Hu : 0 <= zlen u) by (unfold zlen; lia). assert (Hv : 0 <= zlen v) by (unfold zlen; lia).
  assert (Hsem : forall s, evals (NConcat o' [NMulti o u; NMulti o v]) s (sem_multi e o (u ++ v) s)).
  { intros s. apply evals_concat_cons. exists (sem_multi e o u s). rewrite !Hm, Hlen, str_match_app.
    destruct (tlen e - pos s <? zlen u) eqn:E1.
    - exists []. split; [leaf_intro; rewrite Hm, E1; reflexivity|].
      split; [constructor|]. assert (tlen e - pos s <? zlen u + zlen v = true) as -> by lia. reflexivity.
    - destruct (str_match_at e (is_ci o) u (pos s)) eqn:E2.
      + eexists [_]. split; [leaf_intro; rewrite Hm, E1, E2; reflexivity|].
        split; [constructor; [apply concat_singleton; leaf_intro; reflexivity | constructor]|].
        cbn [concat]. rewrite app_nil_r, Hm. cbn [pos with_pos andb].
        replace (tlen e - (pos s + zlen u) <? zlen v) with (tlen e - pos s <? zlen u + zlen v) by lia.
        destruct (tlen e - pos s <? zlen u + zlen v); [reflexivity|].
        destruct (str_match_at e (is_ci o) v (pos s + zlen u)); [|reflexivity].
        unfold with_pos. cbn [pos caps]. rewrite Z.add_assoc. reflexivity.
      + exists []. split; [leaf_intro; rewrite Hm, E1, E2; reflexivity|].
        split; [constructor|]. cbn [andb concat]. destruct (tlen e - pos s <? zlen u + zlen v); reflexivity. }
  split; intros s z Hz.
  - leaf_inv Hz. subst z. apply Hsem.
  - rewrite (rw_evals_det e _ _ _ _ Hz (Hsem s)). leaf_intro. reflexivity.
Qed.

(* a One and the one-rune Multi (case-sensitive, or a rune the lower-casing leaves alone) *)
Theorem char_is_multi o c : ci_neutral e o c -> rw_eqs e (NChar COne o c) (NMulti o [c]).
Proof.
  intros Hci [|f] s; [reflexivity|]. rewrite !sem_S. cbn [sem_step]. f_equal. unfold sem_multi. cbv zeta.
  change (zlen [c]) with 1. cbn [str_match_at]. rewrite andb_true_r.
  replace (avail e o (pos s) <? 1) with (negb (0 <? avail e o (pos s))) by lia.
  destruct (0 <? avail e o (pos s)); cbn [negb andb]; [|reflexivity].
  assert (Hc : (c =? (if is_ci o then lower e (next_char e o (pos s)) else next_char e o (pos s))) =
               char_test e COne c (next_char e o (pos s))).
  { cbn [char_test]. destruct (is_ci o) eqn:E; [apply Hci, E | apply Z.eqb_sym]. }
  unfold next_char, dir in *. destruct (is_rtl o); rewrite Hc; replace (pos s + 1 * 1) with (pos s + 1) by lia;
    replace (pos s + -1 * 1) with (pos s + -1) by lia; reflexivity.
Qed.

End Prefix.

(* ------------------------------------------------------------------------------------------ *)
(* 11. the rule that is FALSE: ending-backtracking removal inside a balancing group              *)
(* ------------------------------------------------------------------------------------------ *)

(* concrete environments for the witnesses and the Examples of Properties/C05.v:
   text [t], sets: 0 = [ab], 1 = [bc], 2 = \w (a-z here); no case folding *)
Definition rw_ex_env (t : list Z) : env :=
  {| txt := t; tstart := 0; ecma := false; endz_strict := false;
     set_in := fun id x => if id =? 0 then (97 <=? x) && (x <=? 98)
                           else if id =? 1 then (98 <=? x) && (x <=? 99)
                           else (97 <=? x) && (x <=? 122);
     lower := fun x => x;
     is_word := fun x => (97 <=? x) && (x <=? 122);
     is_eword := fun x => (97 <=? x) && (x <=? 122) |}.
Definition rw_s0 : st := {| pos := 0; caps := [] |}.

(* (?<1-2>x|(?<2>x)) on "x": the alternation x|(?<2>x) and its atomic wrapping have the same FIRST
   result, but under the balancing capture (close fails while group 2 is empty, and the matcher
   backtracks into the alternation) the first results differ: one match vs none.
   The engine agrees (pattern `(?<a-b>x|(?<b>x))` on "x": no match with the rewrite, a match without). *)
Definition rw_bal_alt : node := NAlternate 0 [NChar COne 0 120; NCapture 0 2 (-1) (NChar COne 0 120)].

Theorem rw_capture_balancing_not_heq :
  exists e t t', rw_heq e t t' /\ ~ rw_hrefines e (NCapture 0 1 2 t) (NCapture 0 1 2 t').
Proof.
  exists (rw_ex_env [120]), rw_bal_alt, (NAtomic rw_bal_alt). split; [apply rw_heq_sym, atomic_heq|].
  intros H.
  assert (H1 : rw_evals (rw_ex_env [120]) (NCapture 0 1 2 rw_bal_alt) rw_s0
                 [{| pos := 1; caps := [(2, []); (1, [(0, 1)])] |}]) by (exists 5%nat; vm_compute; reflexivity).
  assert (H2 : rw_evals (rw_ex_env [120]) (NCapture 0 1 2 (NAtomic rw_bal_alt)) rw_s0 [])
    by (exists 5%nat; vm_compute; reflexivity).
  apply H in H1 as (l' & Hl' & E). rewrite (rw_evals_det _ _ _ _ _ Hl' H2) in E. discriminate.
Qed.

(* readable view of a result list for the Examples: the end positions, in priority order *)
Definition rw_positions (r : res (list st)) : list Z := match r with Ok l => map pos l | _ => [-1] end.

(* ------------------------------------------------------------------------------------------ *)
(* 12. R4 continued: a calculus for "the continuation fails wherever the loop stopped early"     *)
(*     mirroring canBeMadeAtomic (skip down into what is guaranteed to follow, step over          *)
(*     nullable disjoint loops and zero-width tests), lazy loops, boundary anchors                *)
(* ------------------------------------------------------------------------------------------ *)

Section AutoAtomic2.
Variable e : env.
Notation evals := (rw_evals e).

(* when all but one of the results of the head of a concatenation are dead ends, only that one counts *)
Lemma concat_cons_prune o x rest s l1 a l2 z :
  evals x s (l1 ++ a :: l2) ->
  (forall b, In b l1 \/ In b l2 -> evals (NConcat o rest) b []) ->
  (evals (NConcat o (x :: rest)) s z <-> evals (NConcat o rest) a z).
Proof.
  intros Hx Hdead. rewrite evals_concat_cons. split.
  - intros (lx & zs & Hx' & HF & ->). rewrite (rw_evals_det e _ _ _ _ Hx' Hx) in HF.
    apply Forall2_app_inv_l in HF as (zs1 & zs' & H1 & H2 & ->).
    inversion H2 as [|a' za l2' zs2 Ha H2']; subst.
    assert (Hnil : forall l zs0, (forall b, In b l -> evals (NConcat o rest) b []) ->
                     Forall2 (fun a0 za0 => evals (NConcat o rest) a0 za0) l zs0 -> concat zs0 = []).
    { intros l zs0 Hl HF. induction HF as [|b zb l zs0 Hb _ IH]; [reflexivity|]. cbn [concat].
      rewrite (rw_evals_det e _ _ _ _ Hb (Hl b (or_introl eq_refl))). apply IH. intros; apply Hl; right; assumption. }
    rewrite concat_app. cbn [concat]. rewrite (Hnil _ _ (fun b Hb => Hdead b (or_introl Hb)) H1).
    rewrite (Hnil _ _ (fun b Hb => Hdead b (or_intror Hb)) H2'). rewrite app_nil_r. exact Ha.
  - intros Ha. exists (l1 ++ a :: l2), (map (fun _ => []) l1 ++ z :: map (fun _ => []) l2).
    split; [exact Hx|]. split.
    + apply Forall2_app; [|constructor; [exact Ha|]].
      * clear -Hdead. induction l1 as [|b l1 IH]; constructor; [apply Hdead; left; left; reflexivity|].
        apply IH. intros b' [Hb|Hb]; apply Hdead; [left; right; assumption | right; assumption].
      * clear -Hdead. induction l2 as [|b l2 IH]; constructor; [apply Hdead; right; left; reflexivity|].
        apply IH. intros b' [Hb|Hb]; apply Hdead; [left; assumption | right; right; assumption].
    + rewrite concat_app. cbn [concat].
      assert (Hn : forall (l : list st), concat (map (fun _ => @nil st) l) = []) by (induction l; simpl; auto).
      rewrite !Hn, app_nil_r. reflexivity.
Qed.

Lemma count_up_aux_snoc n a : count_up_aux (S n) a = count_up_aux n a ++ [a + Z.of_nat n].
Proof.
  revert a. induction n as [|n IH]; intros a.
  - simpl. replace (a + 0) with a by lia. reflexivity.
  - change (count_up_aux (S (S n)) a) with (a :: count_up_aux (S n) (a + 1)). rewrite IH.
    cbn [count_up_aux app]. f_equal. f_equal. f_equal. lia.
Qed.

Lemma count_up_snoc m r : m <= r -> count_up m r = count_up m (r - 1) ++ [r].
Proof.
  intros H. unfold count_up. assert (r <? m = false) as -> by lia.
  replace (Z.to_nat (r - m + 1)) with (S (Z.to_nat (r - 1 - m + 1))) by lia. rewrite count_up_aux_snoc.
  destruct (r - 1 <? m) eqn:E.
  - replace (Z.to_nat (r - 1 - m + 1)) with 0%nat by lia. simpl. f_equal. lia.
  - f_equal. f_equal. lia.
Qed.

Lemma count_up_aux_in n a j : In j (count_up_aux n a) <-> a <= j < a + Z.of_nat n.
Proof.
  revert a. induction n as [|n IH]; intros a; cbn [count_up_aux In]; [lia|]. rewrite IH. lia.
Qed.

Lemma count_up_in a b j : In j (count_up a b) <-> a <= j <= b.
Proof.
  unfold count_up. destruct (b <? a) eqn:E; [simpl; lia|]. rewrite count_up_aux_in. lia.
Qed.

(* all three flavours of a loop in front of a continuation that is dead at every early stop *)
Lemma charloop_then_dead k l o o1 c m n rest s z :
  (forall j, m <= j < loop_run e k o1 c n s -> rw_seq_fails e rest (loop_state o1 s j)) ->
  (evals (NConcat o (NCharLoop k l o1 c m n :: rest)) s z <->
   if loop_run e k o1 c n s <? m then z = [] else evals (NConcat o rest) (loop_state o1 s (loop_run e k o1 c n s)) z).
Proof.
  intros Hdead. set (r := loop_run e k o1 c n s) in *.
  assert (Hx : evals (NCharLoop k l o1 c m n) s (sem_charloop e k l o1 c m n s)) by (leaf_intro; reflexivity).
  rewrite sem_charloop_unfold in Hx. cbv zeta in Hx. fold r in Hx.
  destruct (r <? m) eqn:E.
  - rewrite evals_concat_cons. split.
    + intros (lx & zs & Hx' & HF & ->). rewrite (rw_evals_det e _ _ _ _ Hx' Hx) in HF. inversion HF. reflexivity.
    + intros ->. exists [], []. split; [exact Hx|]. split; [constructor | reflexivity].
  - assert (Hd : forall j, m <= j <= r - 1 -> evals (NConcat o rest) (loop_state o1 s j) []).
    { intros j Hj. apply seq_fails_evals, Hdead. lia. }
    destruct l.
    + rewrite (count_down_cons r m) in Hx by lia. cbn [map] in Hx.
      apply (concat_cons_prune o _ rest s [] _ _ z Hx).
      intros b [[]|Hb]. apply in_map_iff in Hb as (j & <- & Hj). apply count_down_in in Hj. apply Hd. lia.
    + rewrite (count_up_snoc m r) in Hx by lia. rewrite map_app in Hx. cbn [map] in Hx.
      apply (concat_cons_prune o _ rest s _ _ [] z Hx).
      intros b [Hb|[]]. apply in_map_iff in Hb as (j & <- & Hj). apply count_up_in in Hj. apply Hd. lia.
    + apply (concat_cons_prune o _ rest s [] _ [] z Hx). intros b [[]|[]].
Qed.

(* R4 for LAZY loops (processNode, tree.go:438-457): a lazy loop followed by something that fails at
   every early stop is the atomic GREEDY loop — "lazy to greedy" then makeLoopAtomic *)
Theorem auto_atomic_lazy k o o1 c m n rest :
  (forall s j, m <= j < loop_run e k o1 c n s -> rw_seq_fails e rest (loop_state o1 s j)) ->
  rw_eq e (NConcat o (NCharLoop k LLazy o1 c m n :: rest))
          (NConcat o (NCharLoop k LAtomic o1 c m n :: rest)).
Proof.
  intros H. split; intros s z Hz.
  - apply (charloop_then_dead k LAtomic o o1 c m n rest s z (H s)).
    apply (charloop_then_dead k LLazy o o1 c m n rest s z (H s)). exact Hz.
  - apply (charloop_then_dead k LLazy o o1 c m n rest s z (H s)).
    apply (charloop_then_dead k LAtomic o o1 c m n rest s z (H s)). exact Hz.
Qed.

(* ---- the calculus ---- *)

(* [x] / the continuation [rest] is dead at every state whose next character passes the test (k,c) *)
Definition fails_in (k : ckind) (o c : Z) (x : node) : Prop := forall s, next_in e k o c s -> rw_fails e x s.
Definition cont_fails_in (k : ckind) (o c : Z) (rest : list node) : Prop :=
  forall s, next_in e k o c s -> rw_seq_fails e rest s.

Theorem auto_atomic_by_cont k o o1 c m n rest : 0 <= m -> cont_fails_in k o1 c rest ->
  rw_eq e (NConcat o (NCharLoop k LGreedy o1 c m n :: rest)) (NConcat o (NCharLoop k LAtomic o1 c m n :: rest)) /\
  rw_eq e (NConcat o (NCharLoop k LLazy o1 c m n :: rest)) (NConcat o (NCharLoop k LAtomic o1 c m n :: rest)).
Proof.
  intros Hm Hc. split; [apply auto_atomic_charloop | apply auto_atomic_lazy];
    intros s j Hj; apply Hc; eapply early_next_in; eassumption.
Qed.

Lemma cont_fails_head k o c x rest : fails_in k o c x -> cont_fails_in k o c (x :: rest).
Proof.
  intros H s Hs. destruct (H s Hs) as [f Hf]. exists f. cbn [seq_sem]. rewrite Hf. reflexivity.
Qed.

(* stepping over a successor that can only match the empty string there *)
Lemma cont_fails_skip k o c x rest :
  (forall s, next_in e k o c s -> exists l, evals x s l /\ (l = [] \/ l = [s])) ->
  cont_fails_in k o c rest -> cont_fails_in k o c (x :: rest).
Proof.
  intros Hx Hr s Hs. destruct (Hx s Hs) as (l & [f Hf] & Hl). destruct Hl as [-> | ->].
  - exists f. cbn [seq_sem]. rewrite Hf. reflexivity.
  - destruct (Hr s Hs) as [f' Hf']. exists (Nat.max f f'). cbn [seq_sem].
    rewrite (rw_sem_mono e f (Nat.max f f') _ _ _ ltac:(lia) Hf). unfold bindr. cbn [bind]. rewrite bindl_single.
    eapply rle_seq_sem; [|exact Hf']. intros t s' a Ha. eapply rw_sem_mono; [|exact Ha]. lia.
Qed.

(* a leaf that fails whatever the fuel *)
Lemma fails_in_leaf k o c x : (forall s f, next_in e k o c s -> sem e (S f) x s = Ok []) -> fails_in k o c x.
Proof. intros H s Hs. exists 1%nat. apply H, Hs. Qed.

Lemma fails_in_char k o c k' o' c' : is_rtl o' = is_rtl o -> tests_disjoint e k c k' c' -> fails_in k o c (NChar k' o' c').
Proof. intros Hd Hdis. apply fails_in_leaf. intros s f Hs. eapply succ_char_fails; eassumption. Qed.

Lemma fails_in_multi k o c o' c0 str : is_rtl o = false -> is_rtl o' = false ->
  (forall ch, char_test e k c ch = true -> (c0 =? (if is_ci o' then lower e ch else ch)) = false) ->
  fails_in k o c (NMulti o' (c0 :: str)).
Proof. intros Ho Ho' Hdis. apply fails_in_leaf. intros s f Hs. apply (succ_multi_fails e k o c); assumption. Qed.

Lemma fails_in_charloop k o c k' l' o' c' m' n' : is_rtl o' = is_rtl o -> tests_disjoint e k c k' c' -> 1 <= m' ->
  fails_in k o c (NCharLoop k' l' o' c' m' n').
Proof. intros Hd Hdis Hm. apply fails_in_leaf. intros s f Hs. eapply succ_charloop_fails; eassumption. Qed.

Lemma fails_in_end k o c : is_rtl o = false -> fails_in k o c (NAnchor AEnd).
Proof. intros Ho. apply fails_in_leaf. intros s f Hs. eapply succ_end_fails; eassumption. Qed.

Lemma fails_in_eol k o c : is_rtl o = false -> char_test e k c 10 = false -> fails_in k o c (NAnchor AEol).
Proof. intros Ho Hnl. apply fails_in_leaf. intros s f Hs. eapply succ_eol_fails; eassumption. Qed.

Lemma fails_in_endz k o c : is_rtl o = false -> char_test e k c 10 = false -> fails_in k o c (NAnchor AEndZ).
Proof. intros Ho Hnl. apply fails_in_leaf. intros s f Hs. eapply succ_endz_fails; eassumption. Qed.

(* skipping down to "the closest node guaranteed to follow" (tree.go:879-890): first child of a
   concatenation, child of a capture / atomic / group / positive lookahead, body of a loop with min > 0 *)
Lemma fails_in_concat k o c o' x l : fails_in k o c x -> fails_in k o c (NConcat o' (x :: l)).
Proof.
  intros H s Hs. apply evals_concat_cons. exists [], []. split; [apply H, Hs|]. split; [constructor | reflexivity].
Qed.

Lemma fails_in_capture k o c o' g u x : fails_in k o c x -> fails_in k o c (NCapture o' g u x).
Proof. intros H s Hs. apply evals_capture. exists []. split; [apply H, Hs | reflexivity]. Qed.

Lemma fails_in_atomic k o c x : fails_in k o c x -> fails_in k o c (NAtomic x).
Proof. intros H s Hs. apply evals_atomic. exists []. split; [apply H, Hs | reflexivity]. Qed.

Lemma fails_in_group k o c x : fails_in k o c x -> fails_in k o c (NGroup x).
Proof. intros H s Hs. apply (proj2 (evals_group _ _ _ _)). apply H, Hs. Qed.

Lemma fails_in_poslook k o c o' x : fails_in k o c x -> fails_in k o c (NPosLook o' x).
Proof. intros H s Hs. apply evals_poslook. exists []. split; [apply H, Hs | reflexivity]. Qed.

Lemma fails_in_loop k o c lazy o' m' n' x : m' <> 0 -> fails_in k o c x -> fails_in k o c (NLoop lazy o' m' n' x).
Proof.
  intros Hm H s Hs. destruct (H s Hs) as [f Hf]. exists (S f). rewrite sem_S. cbn [sem_step].
  assert (m' =? 0 = false) as -> by lia. rewrite Hf. reflexivity.
Qed.

(* an alternation: every branch (tree.go:904-912) *)
Lemma fails_in_alt k o c o' l : Forall (fails_in k o c) l -> fails_in k o c (NAlternate o' l).
Proof.
  intros H s Hs. apply evals_alt_all. exists (map (fun _ => []) l). split.
  - induction H as [|x l Hx _ IH]; constructor; [apply Hx, Hs | exact IH].
  - clear. induction l; simpl; auto.
Qed.

(* an expression conditional with both branches (tree.go:904): the condition and the "no" branch *)
Lemma fails_in_expr_cond k o c o' cnd y n : fails_in k o c cnd -> fails_in k o c n ->
  fails_in k o c (NExprCond o' cnd y (Some n)).
Proof. intros Hc Hn s Hs. apply evals_expr_cond. exists []. split; [apply Hc, Hs | apply Hn, Hs]. Qed.

(* stepping over a nullable loop with a disjoint test (tree.go:933-935, 954, 971-972), any flavour *)
Lemma cont_fails_skip_charloop0 k o c k' l' o' c' n' rest : is_rtl o' = is_rtl o -> tests_disjoint e k c k' c' ->
  cont_fails_in k o c rest -> cont_fails_in k o c (NCharLoop k' l' o' c' 0 n' :: rest).
Proof.
  intros Hd Hdis. apply cont_fails_skip. intros s [Ha Ht]. exists [s]. split; [|right; reflexivity].
  leaf_intro. rewrite sem_charloop_unfold. cbv zeta.
  assert (Hr : loop_run e k' o' c' n' s = 0).
  { unfold loop_run. cbv zeta. destruct (Z.to_nat _) as [|cap]; [reflexivity|]. cbn [run_len].
    rewrite (next_char_same_dir e o o') by exact Hd. rewrite (Hdis _ Ht), andb_false_r. reflexivity. }
  rewrite Hr. change (0 <? 0) with false. cbv iota.
  assert (Hs : loop_state o' s 0 = s).
  { unfold loop_state. replace (pos s + dir o' * 0) with (pos s) by lia. destruct s; reflexivity. }
  destruct l'; [change (count_down 0 0) with [0] | change (count_up 0 0) with [0] | ]; cbn [map]; rewrite Hs; reflexivity.
Qed.

(* stepping over any zero-width test, Empty and the bump-along marker *)
Lemma cont_fails_skip_anchor k o c a rest : cont_fails_in k o c rest -> cont_fails_in k o c (NAnchor a :: rest).
Proof.
  apply cont_fails_skip. intros s _. eexists. split; [leaf_intro; reflexivity|].
  destruct (anchor_ok e a (pos s)); [right | left]; reflexivity.
Qed.

Lemma cont_fails_skip_empty k o c rest : cont_fails_in k o c rest -> cont_fails_in k o c (NEmpty :: rest).
Proof. apply cont_fails_skip. intros s _. eexists. split; [leaf_intro; reflexivity | right; reflexivity]. Qed.

Lemma cont_fails_skip_bump k o c rest : cont_fails_in k o c rest -> cont_fails_in k o c (NBump :: rest).
Proof. apply cont_fails_skip. intros s _. eexists. split; [leaf_intro; reflexivity | right; reflexivity]. Qed.

(* ---- boundary anchors (tree.go:936-939, 973-976): \b after a loop of word characters with min >= 1
   fails between two loop characters.  The states must lie inside the text (pos >= 0), which every
   state reached from a search does; hence a per-state statement. ---- *)
Lemma auto_atomic_charloop_strong_at k o o1 c m n x rest s :
  (forall f j, m <= j < loop_run e k o1 c n s -> sem e (S f) x (loop_state o1 s j) = Ok []) ->
  forall f, sem e f (NConcat o (NCharLoop k LGreedy o1 c m n :: x :: rest)) s =
            sem e f (NConcat o (NCharLoop k LAtomic o1 c m n :: x :: rest)) s.
Proof.
  intros Hx [|[|f]]; try reflexivity. rewrite !sem_S. cbn [sem_step seq_sem].
  rewrite !sem_S. cbn [sem_step]. rewrite !sem_charloop_unfold. cbv zeta.
  set (r := loop_run e k o1 c n s). destruct (r <? m) eqn:E; [reflexivity|].
  rewrite (count_down_cons r m) by lia. cbn [map]. unfold bindr at 1 3. cbn [bind bindl].
  set (K := fun s0 => bindr (sem e (S f) x s0) (seq_sem (sem e (S f)) rest)).
  rewrite (bindl_all_nil (map (loop_state o1 s) (count_down (r - 1) m)) K); [reflexivity|].
  intros a Ha. apply in_map_iff in Ha as (j & <- & Hj). apply count_down_in in Hj.
  unfold K. rewrite Hx by (fold r; lia). reflexivity.
Qed.

Theorem auto_atomic_then_boundary k o o1 c m n a w rest :
  (a = ABoundary /\ w = is_word e) \/ (a = AECMABoundary /\ w = is_eword e) ->
  1 <= m -> is_rtl o1 = false -> (forall ch, char_test e k c ch = true -> w ch = true) ->
  forall f s, 0 <= pos s ->
    sem e f (NConcat o (NCharLoop k LGreedy o1 c m n :: NAnchor a :: rest)) s =
    sem e f (NConcat o (NCharLoop k LAtomic o1 c m n :: NAnchor a :: rest)) s.
Proof.
  intros Ha Hm Ho Hw f s Hp. apply auto_atomic_charloop_strong_at. intros f' j Hj.
  unfold loop_run in Hj. cbv zeta in Hj. destruct Hj as [Hj1 Hj2].
  assert (H1 : (0 <? avail e o1 (pos s + dir o1 * j)) && char_test e k c (next_char e o1 (pos s + dir o1 * j)) = true)
    by (eapply run_len_char; split; [lia | exact Hj2]).
  assert (H0 : (0 <? avail e o1 (pos s + dir o1 * (j - 1))) && char_test e k c (next_char e o1 (pos s + dir o1 * (j - 1))) = true)
    by (eapply run_len_char; split; [lia | eapply Z.lt_trans; [|exact Hj2]; lia]).
  apply andb_true_iff in H1 as [A1 T1]. apply andb_true_iff in H0 as [A0 T0].
  unfold avail, next_char, dir in A1, T1, A0, T0. rewrite Ho in A1, T1, A0, T0.
  apply Hw in T1. apply Hw in T0.
  rewrite sem_S. cbn [sem_step]. unfold loop_state, dir. rewrite Ho. cbn [pos with_pos].
  assert (Hb : is_boundary e w (pos s + 1 * j) = false).
  { unfold is_boundary. replace (pos s + 1 * j - 1) with (pos s + 1 * (j - 1)) by lia. rewrite T0, T1.
    assert (0 <? pos s + 1 * j = true) as -> by lia. assert (pos s + 1 * j <? tlen e = true) as -> by lia. reflexivity. }
  destruct Ha as [[-> ->] | [-> ->]]; cbn [anchor_ok]; rewrite Hb; reflexivity.
Qed.

End AutoAtomic2.

(* ------------------------------------------------------------------------------------------ *)
(* 13. R6 in atomic position: the factored alternation is re-wrapped (tree.go:1161-1165, 1241-1245) *)
(* ------------------------------------------------------------------------------------------ *)

Section PrefixAtomic.
Variable e : env.

Theorem alt_prefix_factor_atomic o1 o2 o3 o4 o5 p bs : bs <> [] -> single_result e p ->
  rw_eq e (NAtomic (NAlternate o1 (map (fun a => NConcat o2 (p :: a)) bs)))
          (NAtomic (NConcat o3 [p; NAtomic (NAlternate o4 (map (NConcat o5) bs))])).
Proof.
  intros Hne Hs. destruct (alt_prefix_factor e o1 o2 o3 o4 o5 p bs Hne Hs) as [H1 H2].
  pose proof (concat_last_tail e o3 [p] _ _ (proj2 (atomic_heq e (NAlternate o4 (map (NConcat o5) bs))))) as W1.
  pose proof (concat_last_tail e o3 [p] _ _ (proj1 (atomic_heq e (NAlternate o4 (map (NConcat o5) bs))))) as W2.
  cbn [app] in W1, W2. split; apply atomic_observes_head.
  - eapply rw_hrefines_trans; [apply rw_refines_hrefines, H1 | exact W1].
  - eapply rw_hrefines_trans; [exact W2 | apply rw_refines_hrefines, H2].
Qed.

End PrefixAtomic.

(* ------------------------------------------------------------------------------------------ *)
(* 14. R4 for a loop that ends a nested group: pruning                                           *)
(* ------------------------------------------------------------------------------------------ *)

Section Prune.
Variable e : env.
Notation evals := (rw_evals e).

Lemma drops_refl {A} (P : A -> Prop) l : drops P l l.
Proof. induction l; constructor; assumption. Qed.

Lemma drops_all {A} (P : A -> Prop) x l l' : Forall P x -> drops P l l' -> drops P (x ++ l) l'.
Proof. induction 1; intros Hd; simpl; [exact Hd | apply drops_drop; auto]. Qed.

Lemma drops_app {A} (P : A -> Prop) l1 l1' l2 l2' : drops P l1 l1' -> drops P l2 l2' -> drops P (l1 ++ l2) (l1' ++ l2').
Proof. induction 1; intros H2; simpl; [exact H2 | apply drops_keep; auto | apply drops_drop; auto]. Qed.

Lemma drops_concat {A} (P : A -> Prop) zs zs' : Forall2 (drops P) zs zs' -> drops P (concat zs) (concat zs').
Proof. induction 1; simpl; [constructor | apply drops_app; assumption]. Qed.

Lemma drops_mono {A} (P Q : A -> Prop) l l' : (forall a, P a -> Q a) -> drops P l l' -> drops Q l l'.
Proof. intros H. induction 1; constructor; auto. Qed.

Lemma drops_flat_map {A} (P : A -> Prop) (k : A -> list A) l l' :
  (forall a, P a -> Forall P (k a)) -> drops P l l' -> drops P (flat_map k l) (flat_map k l').
Proof.
  intros Hk. induction 1; simpl; [constructor | apply drops_app; [apply drops_refl | assumption] |].
  apply drops_all; [apply Hk; assumption | assumption].
Qed.

Notation prunes := (rw_prunes e).

Lemma prunes_refl (P : st -> Prop) t : prunes P t t.
Proof. split; intros s l H; exists l; split; [exact H | apply drops_refl | exact H | apply drops_refl]. Qed.

Lemma prunes_mono (P Q : st -> Prop) t t' : (forall s, P s -> Q s) -> prunes P t t' -> prunes Q t t'.
Proof.
  intros HPQ [H1 H2]. split; intros s l H.
  - destruct (H1 _ _ H) as (l' & Hl' & Hd). exists l'. split; [exact Hl' | eapply drops_mono; eassumption].
  - destruct (H2 _ _ H) as (l' & Hl' & Hd). exists l'. split; [exact Hl' | eapply drops_mono; eassumption].
Qed.

(* base: a loop (greedy or lazy) and its atomic greedy form *)
Lemma prunes_loop (P : st -> Prop) k l o c m n : 0 <= m -> (forall s, next_in e k o c s -> P s) ->
  prunes P (NCharLoop k l o c m n) (NCharLoop k LAtomic o c m n).
Proof.
  intros Hm HP.
  assert (Hd : forall s, drops P (sem_charloop e k l o c m n s) (sem_charloop e k LAtomic o c m n s)).
  { intros s. rewrite !sem_charloop_unfold. cbv zeta. set (r := loop_run e k o c n s).
    destruct (r <? m) eqn:E; [constructor|].
    assert (Hearly : forall j, m <= j <= r - 1 -> P (loop_state o s j)).
    { intros j Hj. apply HP. apply (early_next_in e k o c m n s j Hm). fold r. lia. }
    destruct l.
    - rewrite (count_down_cons r m) by lia. cbn [map]. apply drops_keep.
      rewrite <- (app_nil_r (map _ _)). apply drops_all; [|constructor].
      apply Forall_forall. intros a Ha. apply in_map_iff in Ha as (j & <- & Hj). apply count_down_in in Hj. apply Hearly. lia.
    - rewrite (count_up_snoc m r) by lia. rewrite map_app. cbn [map]. apply drops_all; [|apply drops_refl].
      apply Forall_forall. intros a Ha. apply in_map_iff in Ha as (j & <- & Hj). apply count_up_in in Hj. apply Hearly. lia.
    - apply drops_refl. }
  split; intros s z Hz; leaf_inv Hz; subst z; eexists; (split; [leaf_intro; reflexivity | apply Hd]).
Qed.

Lemma prunes_capture (P : st -> Prop) o g u t t' : pos_pred P -> prunes P t t' -> prunes P (NCapture o g u t) (NCapture o g u t').
Proof.
  intros HP [H1 H2].
  assert (Hk : forall s a, P a -> Forall P (capture_close g u s a)).
  { intros s a Ha. unfold capture_close. destruct (u =? -1).
    - constructor; [|constructor]. eapply HP; [|exact Ha]. reflexivity.
    - destruct (cap_get u (caps a)); constructor; [|constructor]. eapply HP; [|exact Ha]. reflexivity. }
  split; intros s z Hz; apply evals_capture in Hz as (l & Hl & ->).
  - destruct (H1 _ _ Hl) as (l' & Hl' & Hd). eexists. split; [apply evals_capture; eauto|].
    apply drops_flat_map; [apply Hk | exact Hd].
  - destruct (H2 _ _ Hl) as (l' & Hl' & Hd). eexists. split; [apply evals_capture; eauto|].
    apply drops_flat_map; [apply Hk | exact Hd].
Qed.

Lemma prunes_group (P : st -> Prop) t t' : prunes P t t' -> prunes P (NGroup t) (NGroup t').
Proof.
  intros [H1 H2]. split; intros s z Hz; apply (proj1 (evals_group _ _ _ _)) in Hz.
  - destruct (H1 _ _ Hz) as (l' & Hl' & Hd). exists l'. split; [apply (proj2 (evals_group _ _ _ _)), Hl' | exact Hd].
  - destruct (H2 _ _ Hz) as (l' & Hl' & Hd). exists l'. split; [apply (proj2 (evals_group _ _ _ _)), Hl' | exact Hd].
Qed.

Lemma prunes_concat_last (P : st -> Prop) o pre t t' : prunes P t t' -> prunes P (NConcat o (pre ++ [t])) (NConcat o (pre ++ [t'])).
Proof.
  intros [H1 H2].
  assert (Hnil : forall l zs, Forall2 (fun a za => evals (NConcat o []) a za) l zs -> concat zs = l).
  { induction 1 as [|a za l0 zs0 Ha _ IH0]; [reflexivity|]. apply evals_concat_nil in Ha. subst. simpl. congruence. }
  assert (Hsingle : forall x s z, evals (NConcat o [x]) s z <-> evals x s z).
  { intros x s z. split; intros H; [apply (proj1 (concat_singleton e o x)) | apply (proj2 (concat_singleton e o x))]; exact H. }
  induction pre as [|x pre [IH1 IH2]]; cbn [app].
  - split; intros s z Hz; apply (proj1 (Hsingle _ _ _)) in Hz.
    + destruct (H1 _ _ Hz) as (l' & Hl' & Hd). exists l'. split; [apply (proj2 (Hsingle _ _ _)), Hl' | exact Hd].
    + destruct (H2 _ _ Hz) as (l' & Hl' & Hd). exists l'. split; [apply (proj2 (Hsingle _ _ _)), Hl' | exact Hd].
  - split; intros s z Hz; apply evals_concat_cons in Hz as (lx & zs & Hx & HF & ->).
    + destruct (Forall2_exists _ (fun a za => evals (NConcat o (pre ++ [t'])) a za) (drops P) _ _
                  (fun a z Hz => IH1 a z Hz) HF) as (zs' & HF' & HR).
      exists (concat zs'). split; [apply evals_concat_cons; eauto | apply drops_concat, HR].
    + destruct (Forall2_exists _ (fun a za => evals (NConcat o (pre ++ [t])) a za) (fun z' z => drops P z z') _ _
                  (fun a z Hz => IH2 a z Hz) HF) as (zs' & HF' & HR).
      exists (concat zs'). split; [apply evals_concat_cons; eauto|]. apply drops_concat.
      clear -HR. induction HR; constructor; assumption.
Qed.

Lemma prunes_alt (P : st -> Prop) o l l' : Forall2 (prunes P) l l' -> prunes P (NAlternate o l) (NAlternate o l').
Proof.
  induction 1 as [|x x' l l' [Hx1 Hx2] _ [IH1 IH2]]; [apply prunes_refl|].
  split; intros s z Hz; apply evals_alt_cons in Hz as (lx & ly & Hlx & Hly & ->).
  - destruct (Hx1 _ _ Hlx) as (lx' & Hlx' & Dx). destruct (IH1 _ _ Hly) as (ly' & Hly' & Dy).
    exists (lx' ++ ly'). split; [apply evals_alt_cons; eauto | apply drops_app; assumption].
  - destruct (Hx2 _ _ Hlx) as (lx' & Hlx' & Dx). destruct (IH2 _ _ Hly) as (ly' & Hly' & Dy).
    exists (lx' ++ ly'). split; [apply evals_alt_cons; eauto | apply drops_app; assumption].
Qed.

Definition opt_prunes (P : st -> Prop) (n n' : option node) : Prop :=
  match n, n' with Some a, Some b => prunes P a b | None, None => True | _, _ => False end.

Lemma prunes_backref_cond (P : st -> Prop) o g y y' n n' : prunes P y y' -> opt_prunes P n n' ->
  prunes P (NBackRefCond o g y n) (NBackRefCond o g y' n').
Proof.
  intros [Y1 Y2] Hn. split; intros s z Hz; apply evals_backref_cond in Hz; destruct (is_matched g (caps s)) eqn:E.
  - destruct (Y1 _ _ Hz) as (z' & Hz' & D). exists z'. split; [apply evals_backref_cond; rewrite E; exact Hz' | exact D].
  - destruct n as [a|], n' as [b|]; cbn [opt_prunes] in Hn; try contradiction.
    + destruct (proj1 Hn _ _ Hz) as (z' & Hz' & D). exists z'. split; [apply evals_backref_cond; rewrite E; exact Hz' | exact D].
    + exists z. split; [apply evals_backref_cond; rewrite E; exact Hz | apply drops_refl].
  - destruct (Y2 _ _ Hz) as (z' & Hz' & D). exists z'. split; [apply evals_backref_cond; rewrite E; exact Hz' | exact D].
  - destruct n as [a|], n' as [b|]; cbn [opt_prunes] in Hn; try contradiction.
    + destruct (proj2 Hn _ _ Hz) as (z' & Hz' & D). exists z'. split; [apply evals_backref_cond; rewrite E; exact Hz' | exact D].
    + exists z. split; [apply evals_backref_cond; rewrite E; exact Hz | apply drops_refl].
Qed.

Lemma prunes_expr_cond (P : st -> Prop) o c y y' n n' : prunes P y y' -> opt_prunes P n n' ->
  prunes P (NExprCond o c y n) (NExprCond o c y' n').
Proof.
  intros [Y1 Y2] Hn. split; intros s z Hz; apply evals_expr_cond in Hz as (lc & Hc & Hz); destruct lc as [|a lc].
  - destruct n as [b|], n' as [b'|]; cbn [opt_prunes] in Hn; try contradiction.
    + destruct (proj1 Hn _ _ Hz) as (z' & Hz' & D). exists z'. split; [apply evals_expr_cond; exists []; auto | exact D].
    + exists z. split; [apply evals_expr_cond; exists []; auto | apply drops_refl].
  - destruct (Y1 _ _ Hz) as (z' & Hz' & D). exists z'. split; [apply evals_expr_cond; exists (a :: lc); auto | exact D].
  - destruct n as [b|], n' as [b'|]; cbn [opt_prunes] in Hn; try contradiction.
    + destruct (proj2 Hn _ _ Hz) as (z' & Hz' & D). exists z'. split; [apply evals_expr_cond; exists []; auto | exact D].
    + exists z. split; [apply evals_expr_cond; exists []; auto | apply drops_refl].
  - destruct (Y2 _ _ Hz) as (z' & Hz' & D). exists z'. split; [apply evals_expr_cond; exists (a :: lc); auto | exact D].
Qed.

(* use: in front of a continuation that is dead at every P-state, pruning is invisible *)
Theorem prunes_then_dead (P : st -> Prop) o t t' rest : prunes P t t' -> (forall s, P s -> rw_seq_fails e rest s) ->
  rw_eq e (NConcat o (t :: rest)) (NConcat o (t' :: rest)).
Proof.
  intros [H1 H2] Hdead.
  assert (Hd : forall a, P a -> evals (NConcat o rest) a []) by (intros a Ha; apply seq_fails_evals, Hdead, Ha).
  split; intros s z Hz; apply evals_concat_cons in Hz as (lx & zs & Hx & HF & ->); apply evals_concat_cons.
  - destruct (H1 _ _ Hx) as (lx' & Hx' & D). exists lx'.
    assert (Hz : exists zs', Forall2 (fun a za => evals (NConcat o rest) a za) lx' zs' /\ concat zs = concat zs').
    { clear -D HF Hd. revert zs HF. induction D as [|a l l' D IH|a l l' Pa D IH]; intros zs HF; inversion HF as [|a' za l0 zs0 Ha HF0]; subst.
      - exists []. split; [constructor | reflexivity].
      - destruct (IH _ HF0) as (zs' & HF' & E). exists (za :: zs'). split; [constructor; assumption | simpl; congruence].
      - destruct (IH _ HF0) as (zs' & HF' & E). exists zs'. split; [exact HF'|]. simpl.
        rewrite (rw_evals_det e _ _ _ _ Ha (Hd a Pa)). exact E. }
    destruct Hz as (zs' & HF' & E). exists zs'. auto.
  - destruct (H2 _ _ Hx) as (lx' & Hx' & D). exists lx'.
    assert (Hz : exists zs', Forall2 (fun a za => evals (NConcat o rest) a za) lx' zs' /\ concat zs = concat zs').
    { clear -D HF Hd. revert zs HF. induction D as [|a l l' D IH|a l l' Pa D IH]; intros zs HF.
      - inversion HF; subst. exists []. split; [constructor | reflexivity].
      - inversion HF as [|a' za l0 zs0 Ha HF0]; subst.
        destruct (IH _ HF0) as (zs' & HF' & E). exists (za :: zs'). split; [constructor; assumption | simpl; congruence].
      - destruct (IH _ HF) as (zs' & HF' & E). exists ([] :: zs'). split; [constructor; [apply Hd, Pa | exact HF'] | exact E]. }
    destruct Hz as (zs' & HF' & E). exists zs'. auto.
Qed.

End Prune.

Scheme atomized_min := Minimality for atomized Sort Prop
  with atomized_list_min := Minimality for atomized_list Sort Prop
  with atomized_opt_min := Minimality for atomized_opt Sort Prop.
Combined Scheme atomized_mutind from atomized_min, atomized_list_min, atomized_opt_min.

Section Nested.
Variable e : env.
Variable P : st -> Prop.
Hypothesis P_pos : pos_pred P.

Theorem atomized_prunes_all :
  (forall t t', atomized e P t t' -> rw_prunes e P t t') /\
  (forall l l', atomized_list e P l l' -> Forall2 (rw_prunes e P) l l') /\
  (forall n n', atomized_opt e P n n' -> opt_prunes e P n n').
Proof.
  apply (atomized_mutind e P (fun t t' => rw_prunes e P t t') (fun l l' => Forall2 (rw_prunes e P) l l')
           (fun n n' => opt_prunes e P n n')).
  - intros t. apply prunes_refl.
  - intros k l o c m n Hm HP. apply prunes_loop; assumption.
  - intros o g u t t' _ H. apply prunes_capture; assumption.
  - intros t t' _ H. apply prunes_group, H.
  - intros o pre t t' _ H. apply prunes_concat_last, H.
  - intros o l l' _ H. apply prunes_alt, H.
  - intros o g y y' n n' _ Hy _ Hn. apply prunes_backref_cond; assumption.
  - intros o c y y' n n' _ Hy _ Hn. apply prunes_expr_cond; assumption.
  - constructor.
  - intros t t' l l' _ H _ Hl. constructor; assumption.
  - exact I.
  - intros t t' _ H. exact H.
Qed.

(* R4, nested: loops at the END of [t] (through captures, groups, last children of concatenations,
   branches of alternations and conditionals) may all be made atomic when the continuation is dead at
   every state whose next character passes one of those loops' tests *)
Theorem auto_atomic_nested o pre t t' rest :
  atomized e P t t' -> (forall s, P s -> rw_seq_fails e rest s) ->
  rw_eq e (NConcat o (pre ++ t :: rest)) (NConcat o (pre ++ t' :: rest)).
Proof.
  intros Ha Hdead. destruct (prunes_then_dead e P o t t' rest (proj1 atomized_prunes_all _ _ Ha) Hdead) as [H1 H2].
  split; apply concat_prefix_congr; assumption.
Qed.

End Nested.

(* ------------------------------------------------------------------------------------------ *)
(* 15. R4 at the END of an atomic context (canBeMadeAtomic's "we hit the root", tree.go:1012-1016) *)
(* ------------------------------------------------------------------------------------------ *)

Section AtEnd.
Variable e : env.
Notation evals := (rw_evals e).

(* In atomic position the loop may become atomic when the continuation, wherever it has a result after
   an early stop, also has one after the maximal run ("if it fails after the last loop character it fails
   after every earlier one").  One-directional: the original also has to evaluate the early stops. *)
Theorem auto_atomic_at_end k o o1 c m n rest :
  (forall s j l lr, m <= j < loop_run e k o1 c n s ->
      evals (NConcat o rest) (loop_state o1 s j) l ->
      evals (NConcat o rest) (loop_state o1 s (loop_run e k o1 c n s)) lr -> lr = [] -> l = []) ->
  rw_hrefines e (NConcat o (NCharLoop k LGreedy o1 c m n :: rest))
                (NConcat o (NCharLoop k LAtomic o1 c m n :: rest)).
Proof.
  intros Hmono s z Hz. apply evals_concat_cons in Hz as (lx & zs & Hx & HF & ->).
  leaf_inv Hx. subst lx. rewrite sem_charloop_unfold in HF. cbv zeta in HF.
  set (r := loop_run e k o1 c n s) in *.
  destruct (r <? m) eqn:E.
  - inversion HF; subst. exists []. split; [|reflexivity]. apply evals_concat_cons. exists [], [].
    split; [leaf_intro; rewrite sem_charloop_unfold; cbv zeta; fold r; rewrite E; reflexivity|]. split; [constructor | reflexivity].
  - rewrite (count_down_cons r m) in HF by lia. cbn [map] in HF. inversion HF as [|a0 z0 l0 zs0 H0 HF0]; subst.
    exists z0. split.
    + apply evals_concat_cons. exists [loop_state o1 s r], [z0].
      split; [leaf_intro; rewrite sem_charloop_unfold; cbv zeta; fold r; rewrite E; reflexivity|].
      split; [constructor; [exact H0 | constructor] | cbn [concat]; rewrite app_nil_r; reflexivity].
    + cbn [concat]. destruct z0 as [|a z0]; [|reflexivity]. cbn [app].
      assert (Hall : Forall (fun zz => zz = []) zs0).
      { clear HF. assert (Hin : forall a, In a (map (loop_state o1 s) (count_down (r - 1) m)) ->
                           exists j, m <= j < r /\ a = loop_state o1 s j).
        { intros a Ha. apply in_map_iff in Ha as (j & <- & Hj). apply count_down_in in Hj. exists j. split; [lia | reflexivity]. }
        revert Hin HF0. generalize (map (loop_state o1 s) (count_down (r - 1) m)). intros lst Hin HF0.
        induction HF0 as [|a za lst zs1 Ha _ IH]; constructor.
        - destruct (Hin a (or_introl eq_refl)) as (j & Hj & ->). eapply (Hmono s j za []); [fold r; exact Hj | exact Ha | exact H0 | reflexivity].
        - apply IH. intros a' Ha'. apply Hin. right. exact Ha'. }
      rewrite (concat_all_nil _ Hall). reflexivity.
Qed.

(* a continuation that always has a result (nullable loops, Empty, the bump-along marker): a*b*, a*b?c* ... *)
Definition always_matches (x : node) : Prop := forall s l, evals x s l -> l <> [].

Lemma always_matches_charloop0 k l o c n : always_matches (NCharLoop k l o c 0 n).
Proof.
  intros s z Hz. leaf_inv Hz. subst z. rewrite sem_charloop_unfold. cbv zeta.
  pose proof (run_len_bounds e k c o (Z.to_nat (if n =? INF then avail e o (pos s) else Z.min n (avail e o (pos s)))) (pos s)) as Hb.
  unfold loop_run. cbv zeta. set (r := run_len e k c o _ (pos s)) in *. assert (r <? 0 = false) as -> by lia.
  destruct l.
  - destruct (count_down_head r 0 ltac:(lia)) as [tl ->]. discriminate.
  - destruct (count_up_head 0 r ltac:(lia)) as [tl ->]. discriminate.
  - discriminate.
Qed.

Lemma always_matches_empty : always_matches NEmpty.
Proof. intros s z Hz. leaf_inv Hz. subst. discriminate. Qed.

Lemma always_matches_bump : always_matches NBump.
Proof. intros s z Hz. leaf_inv Hz. subst. discriminate. Qed.

Lemma always_matches_seq o rest : Forall always_matches rest -> forall s l, evals (NConcat o rest) s l -> l <> [].
Proof.
  induction 1 as [|x rest Hx _ IH]; intros s l Hl.
  - apply evals_concat_nil in Hl. subst. discriminate.
  - apply evals_concat_cons in Hl as (lx & zs & Hlx & HF & ->). pose proof (Hx _ _ Hlx) as Hne.
    destruct lx as [|a lx]; [contradiction|]. inversion HF as [|a' za l0 zs0 Ha _]; subst.
    pose proof (IH _ _ Ha) as Hza. cbn [concat]. destruct za; [contradiction | discriminate].
Qed.

Theorem auto_atomic_before_nullable_end k o o1 c m n rest : Forall always_matches rest ->
  rw_hrefines e (NConcat o (NCharLoop k LGreedy o1 c m n :: rest))
                (NConcat o (NCharLoop k LAtomic o1 c m n :: rest)).
Proof.
  intros Hall. apply auto_atomic_at_end. intros s j l lr _ _ Hlr ->. exfalso.
  exact (always_matches_seq o rest Hall _ _ Hlr eq_refl).
Qed.

End AtEnd.

(* REFUTED: "step over a \B that follows a loop of non-word characters, then reach the end of the
   expression" (tree.go:952-954, 989-991 + 1012-1016).  -+\B on "--a": the \B holds between the two '-'
   and fails after the second (a word character follows), so the first result of the greedy loop is
   position 1 and the atomic loop has none.  The engine agrees (`\W+\B` on "--a": no match with the
   rewrite, match "-" without): known finding c05-nonboundary-end. *)
Definition rw_nb_env : env := rw_ex_env [45; 45; 97].
Definition rw_nb_tree (l : lkind) : node := NConcat 0 [NCharLoop COne l 0 45 1 INF; NAnchor ANonboundary].

Theorem rw_nonboundary_at_end_refuted :
  ~ (forall e k o o1 c m n, 1 <= m -> is_rtl o1 = false ->
       (forall ch, char_test e k c ch = true -> is_word e ch = false) ->
       rw_hrefines e (NConcat o [NCharLoop k LGreedy o1 c m n; NAnchor ANonboundary])
                     (NConcat o [NCharLoop k LAtomic o1 c m n; NAnchor ANonboundary])).
Proof.
  intros H. specialize (H rw_nb_env COne 0 0 45 1 INF ltac:(lia) eq_refl).
  assert (Hw : forall ch, char_test rw_nb_env COne 45 ch = true -> is_word rw_nb_env ch = false).
  { intros ch Hc. cbn [char_test] in Hc. apply Z.eqb_eq in Hc. subst. reflexivity. }
  specialize (H Hw).
  assert (H1 : rw_evals rw_nb_env (rw_nb_tree LGreedy) rw_s0 [{| pos := 1; caps := [] |}]) by (exists 4%nat; vm_compute; reflexivity).
  assert (H2 : rw_evals rw_nb_env (rw_nb_tree LAtomic) rw_s0 []) by (exists 4%nat; vm_compute; reflexivity).
  apply H in H1 as (l' & Hl' & E). rewrite (rw_evals_det _ _ _ _ _ Hl' H2) in E. discriminate.
Qed.
