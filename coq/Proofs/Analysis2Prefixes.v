(* C04, part 9: soundness of findPrefixes (Analysis2.fp_core / find_prefixes), both flavours:
   every match of a left-to-right pattern starts with one of the published prefixes. *)
From Coq Require Import ZifyBool.
From Verif Require Import Base.Prelude Model.CharClass Base.Utf8 Model.Tree Model.Spec Model.Analysis Model.Analysis2
     Proofs.SpecProofs Proofs.CharClassRanges Proofs.CharClassProofs
     Proofs.AnalysisReach Proofs.AnalysisProofs Proofs.AnalysisPrefix Proofs.Analysis2Cls Proofs.Analysis2Lal.

(* ------------------------------------------------------------------------------------------ *)
(* GetSetChars lists the characters in ascending order                                         *)

Fixpoint asc_from (lo : Z) (l : list Z) : Prop :=
  match l with [] => True | x :: t => lo <= x /\ asc_from (x + 1) t end.

Lemma asc_from_weaken lo lo' l : lo' <= lo -> asc_from lo l -> asc_from lo' l.
Proof. destruct l; cbn [asc_from]; [auto|]. intros H [H1 H2]. split; [lia|exact H2]. Qed.

Lemma asc_from_app lo mid l1 l2 :
  asc_from lo l1 -> (forall x, In x l1 -> x < mid) -> lo <= mid -> asc_from mid l2 -> asc_from lo (l1 ++ l2).
Proof.
  revert lo. induction l1 as [|a l1 IH]; intros lo H1 Hb Hlm H2; cbn [app].
  - apply (asc_from_weaken mid lo); assumption.
  - cbn [asc_from] in *. destruct H1 as [Ha H1]. split; [exact Ha|].
    apply IH; [exact H1|intros x Hx; apply Hb; right; exact Hx| |exact H2].
    specialize (Hb a (or_introl eq_refl)). lia.
Qed.

Lemma gsc_range_asc (keep : Z -> bool) : forall n budget ch b' l,
  gsc_range keep budget n ch = Some (b', l) -> asc_from ch l /\ forall x, In x l -> x < ch + Z.of_nat n.
Proof.
  induction n as [|n IH]; intros budget ch b' l H; cbn [gsc_range] in H.
  - injection H as <- <-. split; [exact I|intros x []].
  - destruct budget as [|b]; [discriminate H|].
    destruct (gsc_range keep b n (ch + 1)) as [[b1 l1]|] eqn:E; [|discriminate H].
    injection H as <- <-. destruct (IH _ _ _ _ E) as [Ha Hb].
    destruct (keep ch).
    + split; [cbn [asc_from]; split; [lia|exact Ha]|]. intros x [<-|Hx]; [lia|]. specialize (Hb x Hx). lia.
    + split; [apply (asc_from_weaken (ch + 1)); [lia|exact Ha]|]. intros x Hx. specialize (Hb x Hx). lia.
Qed.

Lemma gsc_ranges_asc (keep : Z -> bool) : forall rs budget l p,
  sorted_from p rs -> gsc_ranges keep budget rs = Some l -> asc_from (p + 2) l.
Proof.
  induction rs as [|[a b] rs IH]; intros budget l p Hs H; cbn [gsc_ranges] in H.
  - injection H as <-. exact I.
  - cbn [sorted_from] in Hs. destruct Hs as (H1 & H2 & H3).
    set (n := if b <? a then 0%nat else Z.to_nat (Z.min (b - a + 1) (Z.of_nat budget + 1))) in H.
    destruct (gsc_range keep budget n a) as [[b1 l1]|] eqn:E1; [|discriminate H].
    destruct (gsc_ranges keep b1 rs) as [l2|] eqn:E2; [|discriminate H]. injection H as <-.
    destruct (gsc_range_asc keep n budget a b1 l1 E1) as [Ha Hb].
    assert (Hn : Z.of_nat n <= b - a + 1) by (subst n; destruct (b <? a) eqn:Eb; lia).
    apply (asc_from_app (p + 2) (b + 2)).
    + apply (asc_from_weaken a); [lia|exact Ha].
    + intros x Hx. specialize (Hb x Hx). lia.
    + lia.
    + exact (IH _ _ b H3 E2).
Qed.

Lemma get_set_chars_two cat_in c maxc a b :
  canonical c -> get_set_chars cat_in c maxc = [a; b] -> a < b.
Proof.
  intros Hc. unfold get_set_chars. destruct (cats c); [|discriminate].
  destruct (maxc <? zlen (ranges c)); [discriminate|].
  destruct (neg c && negb (no_sub c)); [discriminate|].
  destruct (gsc_ranges _ (Z.to_nat maxc) (ranges c)) as [l|] eqn:E; [|discriminate].
  intros ->. assert (Hcr : canonical_ranges (ranges c)) by (destruct c; cbn in Hc |- *; tauto).
  destruct (canonical_sorted_from _ Hcr) as [p Hp].
  pose proof (gsc_ranges_asc _ _ _ _ p Hp E) as Ha. cbn [asc_from] in Ha. lia.
Qed.

(* the second character of containsAsciiIgnoreCaseCharacter is the lower-case letter *)
Lemma contains_ascii_ic_second cat_in c a b :
  gcls cat_in c -> contains_ascii_ic cat_in c = Some (a, b) ->
  97 <= b <= 122 /\ a = b - 32 /\
  forall x, char_in cat_in c x = true -> x = b \/ x = b - 32.
Proof.
  intros Hg. unfold contains_ascii_ic. destruct (neg c) eqn:En; [discriminate|].
  destruct (get_set_chars cat_in c 3) as [|a0 [|b0 [|c0 l0]]] eqn:Eg; try discriminate.
  destruct ((a0 <? 127) && (b0 <? 127) && (Z.lor a0 32 =? Z.lor b0 32) && is_ascii_letter a0 && is_ascii_letter b0) eqn:Et;
    [|discriminate].
  intros H. injection H as <- <-.
  apply andb_true_iff in Et. destruct Et as [Et Lb]. apply andb_true_iff in Et. destruct Et as [Et La].
  apply andb_true_iff in Et. destruct Et as [_ Eq].
  pose proof (get_set_chars_two cat_in c 3 a0 b0 (proj1 Hg) Eg) as Hlt.
  rewrite (lal_lor32 a0 La), (lal_lor32 b0 Lb) in Eq. unfold is_ascii_letter in La, Lb.
  assert (Hab : 97 <= b0 <= 122 /\ a0 = b0 - 32).
  { destruct (a0 <=? 90) eqn:E1; destruct (b0 <=? 90) eqn:E2; lia. }
  destruct Hab as [H1 H2]. split; [exact H1|]. split; [exact H2|].
  intros x Hx. pose proof (proj1 (get_set_chars_complete cat_in c 3 a0 [b0] Hg En Eg x) Hx) as Hin.
  destruct Hin as [<-|[<-|[]]]; [right; exact H2|left; reflexivity].
Qed.

(* ------------------------------------------------------------------------------------------ *)
(* the inner loops of fp_core as top-level functions                                           *)

Section Loops.
Variable cat_in : Z -> Z -> bool.
Variable part_cc : Z -> bool.
Variable sets : list cls.
Variable ic : bool.
Notation FP := (fp_core cat_in part_cc sets ic).

Fixpoint fp_cat (l : list node) (res : list (list Z)) : bool * list (list Z) :=
  match l with
  | [] => (true, res)
  | x :: l' => let '(ok, res') := FP true x res in if ok then fp_cat l' res' else (false, res')
  end.

Section Rep.
Variable r : node.
Variable last : bool.
Fixpoint fp_rep (k : nat) (res : list (list Z)) : bool * list (list Z) :=
  match k with
  | O => (last, res)
  | S k' => let '(ok, res') := FP true r res in if ok then fp_rep k' res' else (false, res')
  end.
End Rep.

Fixpoint fp_alt (l : list node) (all : list (list Z)) : option (list (list Z)) :=
  match l with
  | [] => Some all
  | x :: l' =>
      let br := snd (FP true x [[]]) in
      if MAX_PREFIXES <? zlen all + zlen br then None
      else if existsb (fun p => blen p =? 0) br then None
      else fp_alt l' (all ++ br)
  end.

Fixpoint fp_multi_ic (s : list Z) (res : list (list Z)) : bool * list (list Z) :=
  match s with
  | [] => (true, res)
  | c :: s' => if part_cc c then (false, res) else fp_multi_ic s' (map (fun r => r ++ [c]) res)
  end.

(* the entry test of findPrefixesCore *)
Definition fp_pre (rtl : bool) (res : list (list Z)) : bool :=
  existsb (fun p => MAX_PREFIX_LEN <=? blen p) res || rtl || (MAX_PREFIXES <? zlen res).

Lemma fp_concat_eq chk o l res :
  FP chk (NConcat o l) res = if chk && fp_pre (is_rtl o) res then (false, res) else fp_cat l res.
Proof. reflexivity. Qed.

Lemma fp_alternate_eq chk o l res :
  FP chk (NAlternate o l) res =
  if chk && fp_pre (is_rtl o) res then (false, res)
  else if MAX_PREFIXES <? zlen l then (false, res)
  else match fp_alt l [] with
       | None => (false, res)
       | Some all => match res with
                     | [[]] => (false, all)
                     | _ => (false, flat_map (fun sfx => map (fun r => r ++ sfx) res) all)
                     end
       end.
Proof. reflexivity. Qed.

Lemma fp_loop_eq chk lz o m n r res :
  FP chk (NLoop lz o m n r) res =
  if chk && fp_pre (is_rtl o) res then (false, res)
  else if 0 <? m then
    let limit := if m <? MAX_PREFIX_LEN then m else MAX_PREFIX_LEN in
    fp_rep r (limit =? n) (Z.to_nat limit) res
  else (false, res).
Proof. reflexivity. Qed.

Lemma fp_multi_eq chk o s res :
  FP chk (NMulti o s) res =
  if chk && fp_pre (is_rtl o) res then (false, res)
  else if negb ic then (true, map (fun r => r ++ s) res) else fp_multi_ic s res.
Proof. reflexivity. Qed.

Lemma fp_cat_cons x l res :
  fp_cat (x :: l) res = let p := FP true x res in if fst p then fp_cat l (snd p) else (false, snd p).
Proof. cbn [fp_cat]. destruct (FP true x res). reflexivity. Qed.

Lemma fp_rep_S r last k res :
  fp_rep r last (S k) res = let p := FP true r res in if fst p then fp_rep r last k (snd p) else (false, snd p).
Proof. cbn [fp_rep]. destruct (FP true r res). reflexivity. Qed.

End Loops.

Lemma pfx_str_match_nth (e : env) : forall str p i, str_match_at e false str p = true -> (i < length str)%nat ->
  nth i str 0 = char_at e (p + Z.of_nat i).
Proof.
  induction str as [|c str IH]; intros p i Hm Hi; cbn [length] in Hi; [lia|].
  cbn [str_match_at] in Hm. apply andb_true_iff in Hm. destruct Hm as [Hc Hr].
  destruct i as [|i]; cbn [nth].
  - replace (p + Z.of_nat 0) with p by lia. lia.
  - rewrite (IH (p + 1) i Hr) by lia. f_equal. lia.
Qed.

(* ------------------------------------------------------------------------------------------ *)
(* soundness against the reference semantics                                                   *)

Section Sound.
Variable e : env.
Variable cat_in : Z -> Z -> bool.
Variable part_cc : Z -> bool.
Variable sets : list cls.
Variable ic : bool.
Hypothesis Hgood : forall id, gcls cat_in (set_cls sets id).
Hypothesis Hagree : forall id x, set_in e id x = char_in cat_in (set_cls sets id) x.
Hypothesis Hshort : tlen e < INF.
Notation FP := (fp_core cat_in part_cc sets ic).

(* how a published prefix rune c matches a text rune x *)
Definition pm (c x : Z) : bool := if ic then ci_match c x else (x =? c).
Definition pw_ok (P : list Z) (p : Z) : Prop :=
  forall i, 0 <= i < zlen P -> p + i < tlen e /\ pm (nth (Z.to_nat i) P 0) (char_at e (p + i)) = true.

Lemma pm_refl c : pm c c = true.
Proof. unfold pm. destruct ic; [apply ci_match_refl|apply Z.eqb_refl]. Qed.

Lemma pw_nil p : pw_ok [] p.
Proof. intros i Hi. unfold zlen in Hi. cbn [length] in Hi. lia. Qed.

Lemma pw_app a b p : pw_ok a p -> pw_ok b (p + zlen a) -> pw_ok (a ++ b) p.
Proof.
  unfold pw_ok, zlen. intros Ha Hb i Hi. rewrite app_length in Hi.
  destruct (Z_lt_ge_dec i (Z.of_nat (length a))) as [Hl|Hl].
  - rewrite app_nth1 by lia. apply Ha. lia.
  - rewrite app_nth2 by lia. specialize (Hb (i - Z.of_nat (length a)) ltac:(lia)).
    replace (p + Z.of_nat (length a) + (i - Z.of_nat (length a))) with (p + i) in Hb by lia.
    replace (Z.to_nat i - length a)%nat with (Z.to_nat (i - Z.of_nat (length a))) by lia. exact Hb.
Qed.

Lemma pw_single c p : p < tlen e -> pm c (char_at e p) = true -> pw_ok [c] p.
Proof.
  intros Hp Hm i Hi. unfold zlen in Hi. cbn [length] in Hi. assert (i = 0) by lia. subst i.
  replace (p + 0) with p by lia. cbn [nth Z.to_nat]. split; assumption.
Qed.

Lemma pw_repeat c : forall k p,
  (forall i, 0 <= i < Z.of_nat k -> p + i < tlen e /\ pm c (char_at e (p + i)) = true) -> pw_ok (repeat c k) p.
Proof.
  intros k p H i Hi. unfold zlen in Hi. rewrite repeat_length in Hi.
  assert (Hn : nth (Z.to_nat i) (repeat c k) 0 = c).
  { apply (repeat_spec k c). apply nth_In. rewrite repeat_length. lia. }
  rewrite Hn. apply H. lia.
Qed.

Lemma zlen_app {A} (a b : list A) : zlen (a ++ b) = zlen a + zlen b.
Proof. unfold zlen. rewrite app_length. lia. Qed.

(* the result still contains a prefix of the text read from p0; when the node was fully processed
   that prefix ends where the node ends *)
Definition step_ok (r : bool * list (list Z)) (p0 : Z) (y : st) : Prop :=
  exists R', In R' (snd r) /\ pw_ok R' p0 /\ (fst r = true -> p0 + zlen R' = pos y).

Lemma step_stop res p0 y R : In R res -> pw_ok R p0 -> step_ok (false, res) p0 y.
Proof. intros Hin Hp. exists R. cbn [fst snd]. split; [exact Hin|]. split; [exact Hp|discriminate]. Qed.

Lemma step_keep (b : bool) res p0 y R : In R res -> pw_ok R p0 -> p0 + zlen R = pos y -> step_ok (b, res) p0 y.
Proof. intros Hin Hp He. exists R. cbn [fst snd]. split; [exact Hin|]. split; [exact Hp|intros _; exact He]. Qed.

(* every candidate gets the same suffix w, which is what the node read *)
Lemma step_append (b : bool) res p0 s y R w :
  In R res -> pw_ok R p0 -> p0 + zlen R = pos s -> pw_ok w (pos s) -> (b = true -> pos y = pos s + zlen w) ->
  step_ok (b, map (fun r => r ++ w) res) p0 y.
Proof.
  intros Hin Hp He Hw Hy. exists (R ++ w). cbn [fst snd].
  split; [apply in_map_iff; exists R; split; [reflexivity|exact Hin]|].
  split; [apply pw_app; [exact Hp|rewrite He; exact Hw]|].
  intros Hb. rewrite zlen_app, (Hy Hb). lia.
Qed.

Lemma fp_expand_in res chars R c : In R res -> In c chars -> In (R ++ [c]) (fp_expand res chars).
Proof.
  intros HR Hc. unfold fp_expand. apply in_flat_map. exists c. split; [exact Hc|].
  apply in_map_iff. exists R. split; [reflexivity|exact HR].
Qed.

(* the set expansion: [k] characters of the text, each one of [chars] *)
Lemma fp_set_reps_ok chars : forall k res R p0,
  ic = false -> In R res -> pw_ok R p0 ->
  (forall i, 0 <= i < Z.of_nat k -> p0 + zlen R + i < tlen e /\ In (char_at e (p0 + zlen R + i)) chars) ->
  exists R', In R' (snd (fp_set_reps k res chars)) /\ pw_ok R' p0 /\
             (fst (fp_set_reps k res chars) = true -> zlen R' = zlen R + Z.of_nat k).
Proof.
  induction k as [|k IH]; intros res R p0 Hic HR Hp Hch; cbn [fp_set_reps].
  - exists R. cbn [fst snd]. split; [exact HR|]. split; [exact Hp|intros _; lia].
  - destruct (MAX_PREFIXES <? zlen res * zlen chars).
    + exists R. cbn [fst snd]. split; [exact HR|]. split; [exact Hp|discriminate].
    + destruct (Hch 0 ltac:(lia)) as [H0 Hin0]. replace (p0 + zlen R + 0) with (p0 + zlen R) in * by lia.
      set (x := char_at e (p0 + zlen R)) in *.
      assert (Hp1 : pw_ok (R ++ [x]) p0).
      { apply pw_app; [exact Hp|]. apply pw_single; [exact H0|]. unfold pm. rewrite Hic. apply Z.eqb_refl. }
      destruct (IH (fp_expand res chars) (R ++ [x]) p0 Hic (fp_expand_in res chars R x HR Hin0) Hp1) as [R' [A [B C]]].
      { intros i Hi. rewrite zlen_app. assert (Hz1 : zlen [x] = 1) by reflexivity. rewrite Hz1.
        specialize (Hch (i + 1) ltac:(lia)). replace (p0 + (zlen R + 1) + i) with (p0 + zlen R + (i + 1)) by lia.
        exact Hch. }
      exists R'. split; [exact A|]. split; [exact B|]. intros Hok. rewrite (C Hok), zlen_app. assert (Hz1 : zlen [x] = 1) by reflexivity. lia.
Qed.

Definition HT (t : node) (s y : st) : Prop :=
  shape_ok false t = true -> no_ci_lit t = true -> inb e s -> caps_nonneg (caps s) ->
  forall chk res p0 R, In R res -> pw_ok R p0 -> p0 + zlen R = pos s -> step_ok (FP chk t res) p0 y.

Definition HS (l : list node) (s y : st) : Prop :=
  forallb (shape_ok false) l = true -> forallb no_ci_lit l = true -> inb e s -> caps_nonneg (caps s) ->
  forall res p0 R, In R res -> pw_ok R p0 -> p0 + zlen R = pos s ->
    step_ok (fp_cat cat_in part_cc sets ic l res) p0 y.

Definition HI (r : node) (L : Z) (s : st) (count : Z) (y : st) : Prop :=
  shape_ok false r = true -> no_ci_lit r = true -> 0 <= L -> inb e s -> caps_nonneg (caps s) ->
  forall last k res p0 R, Z.of_nat k <= - count -> In R res -> pw_ok R p0 -> p0 + zlen R = pos s ->
    exists R', In R' (snd (fp_rep cat_in part_cc sets ic r last k res)) /\ pw_ok R' p0 /\
      (fst (fp_rep cat_in part_cc sets ic r last k res) = true -> Z.of_nat k = - count -> L = 0 -> p0 + zlen R' = pos y).


Lemma fp_rep_last r last : forall k res, fst (fp_rep cat_in part_cc sets ic r last k res) = true -> last = true.
Proof.
  induction k as [|k IH]; intros res H; [exact H|].
  rewrite fp_rep_S in H. cbv zeta in H. destruct (fst (FP true r res)); [exact (IH _ H)|discriminate H].
Qed.

Lemma fp_alt_incl : forall l all0 all,
  fp_alt cat_in part_cc sets ic l all0 = Some all ->
  incl all0 all /\ forall x, In x l -> incl (snd (FP true x [[]])) all.
Proof.
  induction l as [|x l IH]; intros all0 all H; cbn [fp_alt] in H.
  - injection H as <-. split; [apply incl_refl|intros x []].
  - destruct (MAX_PREFIXES <? zlen all0 + zlen (snd (FP true x [[]]))); [discriminate H|].
    destruct (existsb (fun p => blen p =? 0) (snd (FP true x [[]]))); [discriminate H|].
    destruct (IH _ _ H) as [I1 I2]. split.
    + intros z Hz. apply I1. apply in_or_app. left. exact Hz.
    + intros x0 [<-|Hx0]; [intros z Hz; apply I1; apply in_or_app; right; exact Hz|apply I2; exact Hx0].
Qed.

Lemma fp_multi_ic_ok : forall str res p0 R q,
  In R res -> pw_ok R p0 -> p0 + zlen R = q -> str_match_at e false str q = true -> q + zlen str <= tlen e ->
  exists R', In R' (snd (fp_multi_ic part_cc str res)) /\ pw_ok R' p0 /\
             (fst (fp_multi_ic part_cc str res) = true -> zlen R' = zlen R + zlen str).
Proof.
  induction str as [|c str IH]; intros res p0 R q HR Hp Hq Hm Hlen; cbn [fp_multi_ic].
  - exists R. cbn [fst snd]. split; [exact HR|]. split; [exact Hp|]. intros _. unfold zlen at 3. cbn [length]. lia.
  - destruct (part_cc c).
    + exists R. cbn [fst snd]. split; [exact HR|]. split; [exact Hp|discriminate].
    + cbn [str_match_at] in Hm. apply andb_true_iff in Hm. destruct Hm as [Hc Hm].
      assert (Hz : zlen (c :: str) = 1 + zlen str) by (unfold zlen; cbn [length]; lia).
      assert (Hz0 : 0 <= zlen str) by (unfold zlen; lia).
      assert (Hp1 : pw_ok (R ++ [c]) p0).
      { apply pw_app; [exact Hp|]. rewrite Hq. apply pw_single; [lia|]. assert (char_at e q = c) as -> by lia. apply pm_refl. }
      destruct (IH (map (fun r => r ++ [c]) res) p0 (R ++ [c]) (q + 1)) as [R' [A [B C]]].
      * apply in_map_iff. exists R. split; [reflexivity|exact HR].
      * exact Hp1.
      * rewrite zlen_app. assert (Hz1 : zlen [c] = 1) by reflexivity. lia.
      * exact Hm.
      * lia.
      * exists R'. split; [exact A|]. split; [exact B|]. intros Hok. rewrite (C Hok), zlen_app.
        assert (Hz1 : zlen [c] = 1) by reflexivity. lia.
Qed.

Lemma prefixes_all :
  (forall t s y, Reach e t s y -> HT t s y) /\
  (forall l s y, ReachSeq e l s y -> HS l s y) /\
  (forall r L s count y, ReachIter e r L s count y -> HI r L s count y).
Proof.
  apply Reach_mutind.
  - (* R_char *)
    intros k o c s Hc Hs Hn Hb Hcn chk res p0 R HR Hp Hq.
    cbn [shape_ok] in Hs. apply eqb_prop in Hs.
    apply andb_true_iff in Hc. destruct Hc as [Hav Hch]. unfold avail, next_char, dir in *. rewrite Hs in *.
    destruct k; cbn [fp_core char_test] in *; rewrite Hs;
      (destruct (chk && _) eqn:Epre; [apply (step_stop res p0 _ R HR Hp)|]).
    + destruct (negb ic || negb (part_cc c)); [|apply (step_stop res p0 _ R HR Hp)].
      apply (step_append true res p0 s _ R [c] HR Hp Hq).
      * apply pw_single; [lia|]. assert (char_at e (pos s) = c) as -> by lia. apply pm_refl.
      * intros _. cbn [pos with_pos]. reflexivity.
    + apply (step_stop res p0 _ R HR Hp).
    + rewrite Hagree in Hch.
      destruct (neg (set_cls sets c)) eqn:En; [apply (step_stop res p0 _ R HR Hp)|].
      destruct (get_set_chars cat_in (set_cls sets c) MAX_PREFIXES) as [|c0 cs] eqn:Eg; [apply (step_stop res p0 _ R HR Hp)|].
      destruct (negb ic) eqn:Eic.
      * apply negb_true_iff in Eic.
        destruct (fp_set_reps_ok (c0 :: cs) 1 res R p0 Eic HR Hp) as [R' [A [B C]]].
        { intros i Hi. assert (i = 0) by lia. subst i. rewrite Hq. replace (pos s + 0) with (pos s) by lia.
          split; [lia|]. exact (proj1 (get_set_chars_complete cat_in _ _ c0 cs (Hgood c) En Eg _) Hch). }
        destruct (fp_set_reps 1 res (c0 :: cs)) as [ok res'] eqn:Er. cbn [fst snd] in *.
        destruct ok; exists R'; cbn [fst snd]; (split; [exact A|]); (split; [exact B|]); [|discriminate].
        intros _. rewrite (C eq_refl). cbn [pos with_pos]. lia.
      * destruct (contains_ascii_ic cat_in (set_cls sets c)) as [[a b]|] eqn:Ec; [|apply (step_stop res p0 _ R HR Hp)].
        destruct (contains_ascii_ic_second cat_in _ a b (Hgood c) Ec) as (Hb1 & _ & Hx).
        apply (step_append true res p0 s _ R [b] HR Hp Hq).
        -- apply pw_single; [lia|]. unfold pm. apply negb_false_iff in Eic. rewrite Eic. unfold ci_match.
           destruct (Hx _ Hch) as [->| ->]; lia.
        -- intros _. cbn [pos with_pos]. reflexivity.
  - (* R_charloop *)
    intros k l o c m n s y Hin Hs Hn Hb Hcn chk res p0 R HR Hp Hq.
    cbn [shape_ok] in Hs. apply andb_true_iff in Hs. destruct Hs as [Hs Hmn].
    apply andb_true_iff in Hs. destruct Hs as [Hs Hm0]. apply eqb_prop in Hs.
    pose proof (an_charloop_in e _ _ _ _ _ _ _ _ Hin) as [j0 [Hy0 [_ [Hav0 _]]]].
    apply an_charloop_in2 in Hin. destruct Hin as [j [maxn [Hy [Hj Hjn]]]].
    assert (j0 = j).
    { rewrite Hy in Hy0. unfold with_pos in Hy0. injection Hy0. unfold dir. rewrite Hs. lia. }
    subst j0 y. unfold avail, dir in *. rewrite Hs in *.
    set (reps := fp_reps false m).
    assert (Hreps : 0 <= reps <= m /\ reps <= MAX_PREFIX_LEN).
    { subst reps. unfold fp_reps, MAX_PREFIX_LEN. destruct (m <? 8) eqn:E8; lia. }
    assert (Hend : reps = n -> j = reps).
    { intros Hrn. assert (Hn2 : n <> INF) by (unfold MAX_PREFIX_LEN, INF in *; lia). specialize (Hjn Hn2). lia. }
    assert (Htest : forall i, 0 <= i < reps -> pos s + i < tlen e /\ char_test e k c (char_at e (pos s + i)) = true).
    { intros i Hi. destruct (lal_run_nth e k c o Hs maxn (pos s) i ltac:(lia)) as [H1 H2]. split; assumption. }
    destruct k; cbn [fp_core] in *; rewrite Hs;
      (destruct (chk && _) eqn:Epre; [apply (step_stop res p0 _ R HR Hp)|]); fold reps.
    + destruct (negb ic || negb (part_cc c)); [|apply (step_stop res p0 _ R HR Hp)].
      apply (step_append (reps =? n) res p0 s _ R (repeat c (Z.to_nat reps)) HR Hp Hq).
      * apply pw_repeat. intros i Hi. destruct (Htest i ltac:(lia)) as [H1 H2]. split; [exact H1|].
        cbn [char_test] in H2. assert (char_at e (pos s + i) = c) as -> by lia. apply pm_refl.
      * intros Hrn. cbn [pos with_pos]. unfold zlen. rewrite repeat_length. rewrite (Hend ltac:(lia)). lia.
    + apply (step_stop res p0 _ R HR Hp).
    + destruct (neg (set_cls sets c)) eqn:En; [apply (step_stop res p0 _ R HR Hp)|].
      destruct (get_set_chars cat_in (set_cls sets c) MAX_PREFIXES) as [|c0 cs] eqn:Eg; [apply (step_stop res p0 _ R HR Hp)|].
      assert (Hmem : forall i, 0 <= i < reps -> char_in cat_in (set_cls sets c) (char_at e (pos s + i)) = true).
      { intros i Hi. destruct (Htest i Hi) as [_ H2]. cbn [char_test] in H2. rewrite Hagree in H2. exact H2. }
      destruct (negb ic) eqn:Eic.
      * apply negb_true_iff in Eic.
        destruct (fp_set_reps_ok (c0 :: cs) (Z.to_nat reps) res R p0 Eic HR Hp) as [R' [A [B C]]].
        { intros i Hi. rewrite Hq. destruct (Htest i ltac:(lia)) as [H1 _]. split; [exact H1|].
          exact (proj1 (get_set_chars_complete cat_in _ _ c0 cs (Hgood c) En Eg _) (Hmem i ltac:(lia))). }
        destruct (fp_set_reps (Z.to_nat reps) res (c0 :: cs)) as [ok res'] eqn:Er. cbn [fst snd] in *.
        destruct ok; exists R'; cbn [fst snd]; (split; [exact A|]); (split; [exact B|]); [|discriminate].
        intros Hrn. rewrite (C eq_refl). cbn [pos with_pos]. rewrite (Hend ltac:(lia)). lia.
      * destruct (contains_ascii_ic cat_in (set_cls sets c)) as [[a b]|] eqn:Ec; [|apply (step_stop res p0 _ R HR Hp)].
        destruct (contains_ascii_ic_second cat_in _ a b (Hgood c) Ec) as (Hb1 & _ & Hx).
        apply (step_append (reps =? n) res p0 s _ R (repeat b (Z.to_nat reps)) HR Hp Hq).
        -- apply pw_repeat. intros i Hi. destruct (Htest i ltac:(lia)) as [H1 _]. split; [exact H1|].
           unfold pm. apply negb_false_iff in Eic. rewrite Eic. unfold ci_match.
           destruct (Hx _ (Hmem i ltac:(lia))) as [->| ->]; lia.
        -- intros Hrn. cbn [pos with_pos]. unfold zlen. rewrite repeat_length. rewrite (Hend ltac:(lia)). lia.
  - (* R_multi *)
    intros o str s y Hin Hs Hn Hb Hcn chk res p0 R HR Hp Hq. rewrite fp_multi_eq.
    cbn [shape_ok no_ci_lit] in Hs, Hn. apply eqb_prop in Hs. apply negb_true_iff in Hn.
    apply an_multi_in in Hin. destruct Hin as [-> [Hav Hm]]. rewrite Hn, Hs in Hm. unfold avail, dir in *. rewrite Hs in *.
    destruct (chk && _) eqn:Epre; [apply (step_stop res p0 _ R HR Hp)|].
    destruct (negb ic).
    + apply (step_append true res p0 s _ R str HR Hp Hq).
      * intros i Hi. split; [lia|].
        rewrite (pfx_str_match_nth e str (pos s) (Z.to_nat i) Hm) by (unfold zlen in Hi; lia).
        replace (pos s + Z.of_nat (Z.to_nat i)) with (pos s + i) by lia. apply pm_refl.
      * intros _. cbn [pos with_pos]. lia.
    + destruct (fp_multi_ic_ok str res p0 R (pos s) HR Hp Hq Hm ltac:(lia)) as [R' [A [B C]]].
      exists R'. split; [exact A|]. split; [exact B|]. intros Hok. rewrite (C Hok). cbn [pos with_pos]. lia.
  - (* R_ref *)
    intros o g s y _ _ _ _ _ chk res p0 R HR Hp _. cbn [fp_core]. destruct (chk && _); apply (step_stop res p0 _ R HR Hp).
  - (* R_anchor *)
    intros a s _ _ _ _ _ chk res p0 R HR Hp Hq. cbn [fp_core].
    destruct (chk && _); [apply (step_stop res p0 _ R HR Hp)|apply (step_keep true res p0 _ R HR Hp Hq)].
  - (* R_empty *)
    intros s _ _ _ _ chk res p0 R HR Hp Hq. cbn [fp_core].
    destruct (chk && _); [apply (step_stop res p0 _ R HR Hp)|apply (step_keep true res p0 _ R HR Hp Hq)].
  - (* R_bump *)
    intros s _ _ _ _ chk res p0 R HR Hp Hq. cbn [fp_core].
    destruct (chk && _); [apply (step_stop res p0 _ R HR Hp)|apply (step_keep true res p0 _ R HR Hp Hq)].
  - (* R_concat *)
    intros o l s y _ IH Hs Hn Hb Hcn chk res p0 R HR Hp Hq. rewrite fp_concat_eq.
    destruct (chk && _); [apply (step_stop res p0 _ R HR Hp)|]. cbn [shape_ok no_ci_lit] in Hs, Hn.
    exact (IH Hs Hn Hb Hcn res p0 R HR Hp Hq).
  - (* R_alt *)
    intros o l x s y Hin Hr IH Hs Hn Hb Hcn chk res p0 R HR Hp Hq. rewrite fp_alternate_eq.
    destruct (chk && _); [apply (step_stop res p0 _ R HR Hp)|].
    destruct (MAX_PREFIXES <? zlen l); [apply (step_stop res p0 _ R HR Hp)|].
    destruct (fp_alt cat_in part_cc sets ic l []) as [all|] eqn:Ea; [|apply (step_stop res p0 _ R HR Hp)].
    destruct (fp_alt_incl l [] all Ea) as [_ Hincl].
    pose proof (an_alt_forallb false l Hs) as Hfa. cbn [no_ci_lit] in Hn.
    assert (Hsx : shape_ok false x = true) by (rewrite forallb_forall in Hfa; apply Hfa; exact Hin).
    assert (Hnx : no_ci_lit x = true) by (rewrite forallb_forall in Hn; apply Hn; exact Hin).
    destruct (IH Hsx Hnx Hb Hcn true [[]] (pos s) [] (or_introl eq_refl) (pw_nil _)) as [R2 [A2 [B2 _]]];
      [unfold zlen; cbn [length]; lia|].
    pose proof (Hincl x Hin R2 A2) as Hall.
    assert (Hgen : In (R ++ R2) (flat_map (fun sfx => map (fun r => r ++ sfx) res) all)).
    { apply in_flat_map. exists R2. split; [exact Hall|]. apply in_map_iff. exists R. split; [reflexivity|exact HR]. }
    assert (Hpw : pw_ok (R ++ R2) p0) by (apply pw_app; [exact Hp|rewrite Hq; exact B2]).
    destruct res as [|[|a0 r0] [|r1 rs]]; try (apply (step_stop _ p0 _ (R ++ R2) Hgen Hpw)).
    destruct HR as [<-|[]]. cbn [app] in Hpw. apply (step_stop all p0 _ R2 Hall Hpw).
  - (* R_loop0 *)
    intros lazy o m n r s y Hm0 _ _ Hs Hn Hb Hcn chk res p0 R HR Hp Hq. subst m. rewrite fp_loop_eq.
    destruct (chk && _); apply (step_stop res p0 _ R HR Hp).
  - (* R_loop1 *)
    intros lazy o m n r s s1 y Hm0 Hr1 IH1 Hr2 IH2 Hs Hn Hb Hcn chk res p0 R HR Hp Hq. rewrite fp_loop_eq.
    destruct (chk && _); [apply (step_stop res p0 _ R HR Hp)|].
    cbn [shape_ok no_ci_lit] in Hs, Hn. apply andb_true_iff in Hs. destruct Hs as [Hmn Hsr].
    replace (0 <? m) with true by lia. cbv zeta.
    set (limit := if m <? MAX_PREFIX_LEN then m else MAX_PREFIX_LEN).
    assert (Hlim : 1 <= limit <= m /\ limit <= 8) by (subst limit; unfold MAX_PREFIX_LEN; destruct (m <? 8) eqn:E8; lia).
    assert (HL : 0 <= loop_limit m n) by (unfold loop_limit, INF; destruct (n =? 2147483647); lia).
    destruct (Z.to_nat limit) as [|k'] eqn:Ek; [lia|].
    rewrite fp_rep_S. cbv zeta.
    destruct (IH1 Hsr Hn Hb Hcn true res p0 R HR Hp Hq) as [R1 [A1 [B1 C1]]].
    destruct (fst (FP true r res)) eqn:E1; [|exists R1; cbn [fst snd]; split; [exact A1|]; split; [exact B1|discriminate]].
    destruct (an_fwd e r s s1 Hr1 Hsr Hb Hcn) as [Hb1 _].
    pose proof (an_reach_caps e _ _ _ Hr1 Hcn) as Hcn1.
    destruct (IH2 Hsr Hn HL Hb1 Hcn1 (limit =? n) k' (snd (FP true r res)) p0 R1 ltac:(lia) A1 B1 (C1 eq_refl)) as [R' [A [B C]]].
    exists R'. split; [exact A|]. split; [exact B|]. intros Hok.
    pose proof (fp_rep_last r _ _ _ Hok) as Hlast. apply C; [exact Hok|lia|].
    unfold loop_limit. replace (n =? INF) with false by (unfold INF; lia). lia.
  - (* R_capture *)
    intros o g r s s1 _ IH Hs Hn Hb Hcn chk res p0 R HR Hp Hq. cbn [fp_core].
    destruct (chk && _); [apply (step_stop res p0 _ R HR Hp)|]. cbn [shape_ok no_ci_lit] in Hs, Hn.
    exact (IH Hs Hn Hb Hcn false res p0 R HR Hp Hq).
  - (* R_balance *)
    intros o g u r s s1 top rest _ _ IH _ Hs Hn Hb Hcn chk res p0 R HR Hp Hq. cbn [fp_core].
    destruct (chk && _); [apply (step_stop res p0 _ R HR Hp)|]. cbn [shape_ok no_ci_lit] in Hs, Hn.
    exact (IH Hs Hn Hb Hcn false res p0 R HR Hp Hq).
  - (* R_group *)
    intros r s y _ _ _ _ _ _ chk res p0 R HR Hp _. cbn [fp_core]. destruct (chk && _); apply (step_stop res p0 _ R HR Hp).
  - (* R_poslook *)
    intros o r s s1 _ _ _ _ _ _ chk res p0 R HR Hp Hq. cbn [fp_core].
    destruct (chk && _); [apply (step_stop res p0 _ R HR Hp)|apply (step_keep true res p0 _ R HR Hp)]. exact Hq.
  - (* R_neglook *)
    intros o r s _ _ _ _ chk res p0 R HR Hp Hq. cbn [fp_core].
    destruct (chk && _); [apply (step_stop res p0 _ R HR Hp)|apply (step_keep true res p0 _ R HR Hp Hq)].
  - (* R_atomic *)
    intros r s y _ IH Hs Hn Hb Hcn chk res p0 R HR Hp Hq. cbn [fp_core].
    destruct (chk && _); [apply (step_stop res p0 _ R HR Hp)|]. cbn [shape_ok no_ci_lit] in Hs, Hn.
    exact (IH Hs Hn Hb Hcn false res p0 R HR Hp Hq).
  - intros; intros ? ? ? ? chk res p0 R HR Hp ?; cbn [fp_core]; destruct (chk && _); apply (step_stop res p0 _ R HR Hp).
  - intros; intros ? ? ? ? chk res p0 R HR Hp ?; cbn [fp_core]; destruct (chk && _); apply (step_stop res p0 _ R HR Hp).
  - intros; intros ? ? ? ? chk res p0 R HR Hp ?; cbn [fp_core]; destruct (chk && _); apply (step_stop res p0 _ R HR Hp).
  - intros; intros ? ? ? ? chk res p0 R HR Hp ?; cbn [fp_core]; destruct (chk && _); apply (step_stop res p0 _ R HR Hp).
  - intros; intros ? ? ? ? chk res p0 R HR Hp ?; cbn [fp_core]; destruct (chk && _); apply (step_stop res p0 _ R HR Hp).
  - intros; intros ? ? ? ? chk res p0 R HR Hp ?; cbn [fp_core]; destruct (chk && _); apply (step_stop res p0 _ R HR Hp).
  - (* RS_nil *)
    intros s _ _ _ _ res p0 R HR Hp Hq. cbn [fp_cat]. apply (step_keep true res p0 _ R HR Hp Hq).
  - (* RS_cons *)
    intros x l s s1 y Hr1 IH1 Hr2 IH2 Hs Hn Hb Hcn res p0 R HR Hp Hq. rewrite fp_cat_cons. cbv zeta.
    cbn [forallb] in Hs, Hn. apply andb_true_iff in Hs. destruct Hs as [Hsx Hsl].
    apply andb_true_iff in Hn. destruct Hn as [Hnx Hnl].
    destruct (IH1 Hsx Hnx Hb Hcn true res p0 R HR Hp Hq) as [R1 [A1 [B1 C1]]].
    destruct (fst (FP true x res)) eqn:E1; [|exists R1; cbn [fst snd]; split; [exact A1|]; split; [exact B1|discriminate]].
    destruct (an_fwd e x s s1 Hr1 Hsx Hb Hcn) as [Hb1 _].
    pose proof (an_reach_caps e _ _ _ Hr1 Hcn) as Hcn1.
    exact (IH2 Hsl Hnl Hb1 Hcn1 (snd (FP true x res)) p0 R1 A1 B1 (C1 eq_refl)).
  - (* RI_stop *)
    intros r L s count Hc Hs Hn HL Hb Hcn last k res p0 R Hk HR Hp Hq.
    assert (k = 0%nat) by lia. subst k. cbn [fp_rep fst snd]. exists R. split; [exact HR|]. split; [exact Hp|].
    intros _ _ _. exact Hq.
  - (* RI_more *)
    intros r L s count s1 y Hc Hr1 IH1 Hr2 IH2 Hs Hn HL Hb Hcn last k res p0 R Hk HR Hp Hq.
    destruct k as [|k'].
    + cbn [fp_rep fst snd]. exists R. split; [exact HR|]. split; [exact Hp|]. intros _ H0 HL0. lia.
    + rewrite fp_rep_S. cbv zeta.
      destruct (IH1 Hs Hn Hb Hcn true res p0 R HR Hp Hq) as [R1 [A1 [B1 C1]]].
      destruct (fst (FP true r res)) eqn:E1; [|exists R1; cbn [fst snd]; split; [exact A1|]; split; [exact B1|discriminate]].
      destruct (an_fwd e r s s1 Hr1 Hs Hb Hcn) as [Hb1 _].
      pose proof (an_reach_caps e _ _ _ Hr1 Hcn) as Hcn1.
      destruct (IH2 Hs Hn HL Hb1 Hcn1 last k' (snd (FP true r res)) p0 R1 ltac:(lia) A1 B1 (C1 eq_refl)) as [R' [A [B C]]].
      exists R'. split; [exact A|]. split; [exact B|]. intros Hok Hk2 HL0. apply C; [exact Hok|lia|exact HL0].
Qed.

(* findPrefixes returned the list ps: every successful attempt at p reads text that starts with one of them
   (rune by rune: equal, or -- ignoreCase -- the published lower-case ASCII letter's upper-case form) *)
Theorem a2_prefixes_sound fuel root p s' ps :
  shape_ok false root = true -> no_ci_lit root = true -> 0 <= p <= tlen e ->
  find_prefixes cat_in part_cc sets ic root = Some ps ->
  attempt e fuel root p = Ok (Some s') ->
  exists P, In P ps /\ pw_ok P p.
Proof.
  intros Hs Hn Hp Hf Ha. pose proof (attempt_reach e _ _ _ _ Ha) as Hr.
  assert (Hb : inb e {| pos := p; caps := [] |}) by exact Hp.
  unfold find_prefixes in Hf.
  destruct ((MAX_PREFIXES <? zlen (snd (FP true root [[]]))) || existsb (fun q => blen q <? MIN_PREFIX_LEN) (snd (FP true root [[]])));
    [discriminate Hf|]. injection Hf as <-.
  destruct (proj1 prefixes_all _ _ _ Hr Hs Hn Hb an_caps_nonneg_nil true [[]] p [] (or_introl eq_refl) (pw_nil _))
    as [R' [A [B _]]]; [unfold zlen; cbn [length pos]; lia|].
  exists R'. split; assumption.
Qed.

End Sound.
