(* Proofs about Model/Options.v: the option stack machine (C18). *)
From Verif Require Import Base.Prelude Model.Options.

(* ---------- scanOptions ---------- *)

Lemma scan_options_on_gen : forall bs o, scan_options false (map OBit bs) o = fold_left Z.lor bs o.
Proof.
  induction bs as [|b bs IH]; intros o; cbn [map scan_options fold_left]; [reflexivity|].
  apply IH.
Qed.

Lemma scan_options_on : forall bs o, scan_options false (opt_on bs) o = union_bits bs o.
Proof. intros. apply scan_options_on_gen. Qed.

Lemma scan_options_off_gen : forall bs o, scan_options true (map OBit bs) o = fold_left Z.ldiff bs o.
Proof.
  induction bs as [|b bs IH]; intros o; cbn [map scan_options fold_left]; [reflexivity|].
  apply IH.
Qed.

Lemma scan_options_off : forall bs o, scan_options false (opt_off bs) o = clear_bits bs o.
Proof. intros. unfold opt_off. cbn [scan_options]. apply scan_options_off_gen. Qed.

(* ---------- frames: running below a deeper stack ---------- *)

Definition o_base (base : list Z) (st : ostate) : ostate :=
  mkO (o_opts st) (o_stack st ++ base) (o_skip st).

Lemma o_base_nil : forall st, o_base [] st = st.
Proof. intros [o s k]. unfold o_base. cbn. now rewrite app_nil_r. Qed.

Lemma o_base_opts : forall base st, o_opts (o_base base st) = o_opts st.
Proof. reflexivity. Qed.

Lemma map_o_base_opts : forall base l, map o_opts (map (o_base base) l) = map o_opts l.
Proof. intros. rewrite map_map. apply map_ext. intros. reflexivity. Qed.

(* a step the main pass accepts is the same step, in either pass, under any deeper stack *)
Lemma ostep_frame : forall p base st t st',
  ostep MainPass st t = Ok st' -> ostep p (o_base base st) t = Ok (o_base base st').
Proof.
  intros p base [o s k] t st' H.
  unfold ostep in *. cbn [o_skip o_base o_opts o_stack] in *.
  destruct k.
  - destruct t; inversion H; subst; reflexivity.
  - destruct t; cbn [o_push o_set o_pop o_pop_keep o_set_skip o_opts o_stack o_skip] in *;
      try (inversion H; subst; reflexivity);
      try (destruct p; inversion H; subst; reflexivity);
      try (destruct (has o opt_x); inversion H; subst; reflexivity);
      try (destruct s as [|x s]; [discriminate|]; cbn in *; inversion H; subst; reflexivity).
Qed.

Lemma otrace_frame : forall ts p base st l st',
  otrace MainPass st ts = (l, Ok st') ->
  otrace p (o_base base st) ts = (map (o_base base) l, Ok (o_base base st')).
Proof.
  induction ts as [|t ts IH]; intros p base st l st' H; cbn [otrace] in *.
  - inversion H; subst. reflexivity.
  - destruct (ostep MainPass st t) as [st1| | |] eqn:E; try (inversion H; fail).
    + rewrite (ostep_frame p base _ _ _ E).
      destruct (otrace MainPass st1 ts) as [l1 f1] eqn:E1.
      inversion H; subst.
      rewrite (IH p base _ _ _ E1). reflexivity.
Qed.

(* both passes see the same states wherever the main pass gets to *)
Lemma passes_agree_ok : forall ts st l st',
  otrace MainPass st ts = (l, Ok st') -> otrace PreScan st ts = (l, Ok st').
Proof.
  intros ts st l st' H.
  pose proof (otrace_frame ts PreScan [] st l st' H) as F.
  rewrite !o_base_nil in F. rewrite F. f_equal.
  rewrite <- (map_id l) at 2. apply map_ext. intros. apply o_base_nil.
Qed.

Lemma ostep_pre_of_main : forall st t st', ostep MainPass st t = Ok st' -> ostep PreScan st t = Ok st'.
Proof.
  intros st t st' H. pose proof (ostep_frame PreScan [] st t st' H) as F.
  now rewrite !o_base_nil in F.
Qed.

Lemma passes_agree_prefix : forall ts st,
  firstn (length (fst (otrace MainPass st ts))) (fst (otrace PreScan st ts)) = fst (otrace MainPass st ts).
Proof.
  induction ts as [|t ts IH]; intros st; cbn [otrace]; [reflexivity|].
  destruct (ostep MainPass st t) as [st1|c|w|] eqn:E.
  - rewrite (ostep_pre_of_main _ _ _ E).
    specialize (IH st1).
    destruct (otrace MainPass st1 ts) as [l1 f1]. destruct (otrace PreScan st1 ts) as [l2 f2].
    cbn [fst length firstn] in *. now rewrite IH.
  - destruct (ostep PreScan st t) as [st2| | |]; [destruct (otrace PreScan st2 ts)|..]; reflexivity.
  - destruct (ostep PreScan st t) as [st2| | |]; [destruct (otrace PreScan st2 ts)|..]; reflexivity.
  - destruct (ostep PreScan st t) as [st2| | |]; [destruct (otrace PreScan st2 ts)|..]; reflexivity.
Qed.

(* the pre-scan's option machine never faults *)
Lemma ostep_prescan_ok : forall st t, exists st', ostep PreScan st t = Ok st'.
Proof.
  intros [o s k] t. unfold ostep. cbn [o_skip].
  destruct k; [destruct t; eexists; reflexivity|].
  destruct t; try (eexists; reflexivity).
  destruct s; eexists; reflexivity.
Qed.

(* ---------- otrace over concatenation ---------- *)

Lemma otrace_app : forall ts1 ts2 p st l1 st1,
  otrace p st ts1 = (l1, Ok st1) ->
  otrace p st (ts1 ++ ts2) = (l1 ++ fst (otrace p st1 ts2), snd (otrace p st1 ts2)).
Proof.
  induction ts1 as [|t ts1 IH]; intros ts2 p st l1 st1 H; cbn [otrace app] in *.
  - inversion H; subst. cbn. now destruct (otrace p st1 ts2).
  - destruct (ostep p st t) as [st'| | |] eqn:E; try (inversion H; fail).
    destruct (otrace p st' ts1) as [l' f'] eqn:E'.
    inversion H; subst.
    rewrite (IH ts2 p st' l' st1 E'). reflexivity.
Qed.

(* ---------- the three spellings ---------- *)

(* "(?cs)" in front of ts: from then on exactly as if compiled with the resulting options *)
Lemma leading_setting : forall p cs o ts,
  otrace p (o_init o) (TOptSet cs :: ts) =
  (o_init o :: fst (otrace p (o_init (scan_options false cs o)) ts),
   snd (otrace p (o_init (scan_options false cs o)) ts)).
Proof.
  intros. cbn [otrace]. unfold ostep, o_init. cbn.
  now destruct (otrace p {| o_opts := scan_options false cs o; o_stack := []; o_skip := false |} ts).
Qed.

(* "(?cs:" ts ")" *)
Lemma wrapping_group : forall p cs o ts l st',
  otrace MainPass (o_init (scan_options false cs o)) ts = (l, Ok st') ->
  o_stack st' = [] -> o_skip st' = false ->
  otrace p (o_init o) (TOptGroup cs :: ts ++ [TClose]) =
  (o_init o :: map (o_base [o]) l ++ [o_base [o] st'], Ok (o_init o)).
Proof.
  intros p cs o ts l st' H Hs Hk.
  cbn [otrace]. unfold ostep at 1. cbn [o_init o_skip o_push o_set o_opts o_stack].
  pose proof (otrace_frame ts p [o] _ _ _ H) as F.
  change (o_base [o] (o_init (scan_options false cs o))) with (mkO (scan_options false cs o) [o] false) in F.
  change (o_set (scan_options false cs) (o_push (o_init o))) with (mkO (scan_options false cs o) [o] false).
  rewrite (otrace_app ts [TClose] p _ _ _ F).
  cbn [otrace]. destruct st' as [o' s' k']. cbn in Hs, Hk. subst.
  unfold ostep, o_base. cbn. destruct p; reflexivity.
Qed.

(* ---------- scoping: after the ")" of ANY group the options and the stack are what they were ---------- *)

Definition opens (t : gtok) : bool :=
  match t with
  | TOpen | TNamed _ | TNumbered _ | TGroup _ | TOptGroup _ | TCondHead | TCondNum _ | TCondName _ => true
  | _ => false
  end.

Lemma opens_step : forall p st g, o_skip st = false -> opens g = true ->
  exists o1, ostep p st g = Ok (mkO o1 (o_opts st :: o_stack st) false).
Proof.
  intros p [o s k] g Hk Hg. cbn in Hk. subst k.
  destruct g; try discriminate Hg; unfold ostep; cbn; try (eexists; reflexivity).
  - destruct p; eexists; reflexivity.
  - destruct p; eexists; reflexivity.
Qed.

Lemma scope_restores : forall p st g ts o1 l st2,
  o_skip st = false -> opens g = true ->
  ostep p st g = Ok (mkO o1 (o_opts st :: o_stack st) false) ->
  otrace MainPass (mkO o1 [] false) ts = (l, Ok st2) ->
  o_stack st2 = [] -> o_skip st2 = false ->
  snd (otrace p st (g :: ts ++ [TClose])) = Ok st.
Proof.
  intros p st g ts o1 l st2 Hk Hg Hstep Hrun Hs2 Hk2.
  cbn [otrace]. rewrite Hstep.
  pose proof (otrace_frame ts p (o_opts st :: o_stack st) _ _ _ Hrun) as F.
  change (o_base (o_opts st :: o_stack st) (mkO o1 [] false)) with (mkO o1 (o_opts st :: o_stack st) false) in F.
  rewrite (otrace_app ts [TClose] p _ _ _ F).
  destruct (otrace p (o_base (o_opts st :: o_stack st) st2) [TClose]) as [l3 f3] eqn:E3.
  cbn [snd].
  destruct st2 as [o2 s2 k2]. cbn in Hs2, Hk2. subst.
  cbn [otrace] in E3. unfold ostep, o_base in E3. cbn in E3.
  destruct st as [o s k]. cbn in Hk. subst k. cbn in E3.
  destruct p; inversion E3; reflexivity.
Qed.

(* ---------- the same, in terms of [stamps] / [ofinal] ---------- *)

Lemma stamps_leading : forall p cs o ts,
  stamps p o (TOptSet cs :: ts) = o :: stamps p (scan_options false cs o) ts
  /\ ofinal p o (TOptSet cs :: ts) = ofinal p (scan_options false cs o) ts.
Proof.
  intros. unfold stamps, ofinal. rewrite leading_setting. cbn [fst snd map o_init o_opts]. split; reflexivity.
Qed.

Lemma stamps_main_pre : forall o ts st', ofinal MainPass o ts = Ok st' ->
  stamps PreScan o ts = stamps MainPass o ts /\ ofinal PreScan o ts = Ok st'.
Proof.
  intros o ts st' H. unfold stamps, ofinal in *.
  destruct (otrace MainPass (o_init o) ts) as [l f] eqn:E. cbn [snd] in H. subst f.
  rewrite (passes_agree_ok _ _ _ _ E). split; reflexivity.
Qed.

Lemma stamps_wrapping : forall p cs o ts st',
  ofinal MainPass (scan_options false cs o) ts = Ok st' -> o_stack st' = [] -> o_skip st' = false ->
  stamps p o (TOptGroup cs :: ts ++ [TClose]) = o :: stamps p (scan_options false cs o) ts ++ [o_opts st']
  /\ ofinal p o (TOptGroup cs :: ts ++ [TClose]) = Ok (o_init o).
Proof.
  intros p cs o ts st' H Hs Hk.
  assert (Hp : stamps p (scan_options false cs o) ts = stamps MainPass (scan_options false cs o) ts).
  { destruct p; [apply (stamps_main_pre _ _ _ H)|reflexivity]. }
  rewrite Hp. unfold stamps, ofinal in *.
  destruct (otrace MainPass (o_init (scan_options false cs o)) ts) as [l f] eqn:E. cbn [snd] in H. subst f.
  rewrite (wrapping_group p cs o ts l st' E Hs Hk). cbn [fst snd map o_init o_opts].
  rewrite map_app, map_o_base_opts. split; reflexivity.
Qed.

Lemma stamps_passes : forall o ts,
  firstn (length (stamps MainPass o ts)) (stamps PreScan o ts) = stamps MainPass o ts.
Proof.
  intros. unfold stamps. rewrite map_length, firstn_map. f_equal. apply passes_agree_prefix.
Qed.
