(* C03: the scan loop with a sound candidate finder / minimum length / bump-along shortcut returns
   exactly what the accelerator-free loop returns.  Model: Model/Scan.v. *)
From Verif Require Import Base.Prelude Model.Scan.
From Coq Require Import ZifyBool.

Section ScanSound.
Variable R : Type.
Variable n : Z.
Variable rtl : bool.
Variable min_required : Z.
Variable finder : Z -> bool * Z.
Variable exec : Z -> option R * Z.

(* vocabulary, direction-independent *)
Definition sc_in_text (p : Z) : Prop := 0 <= p <= n.
(* q is at-or-beyond p in scan order *)
Definition sc_ord (p q : Z) : Prop := if rtl then q <= p else p <= q.
(* p comes strictly before q in scan order *)
Definition sc_before (p q : Z) : Prop := if rtl then q < p else p < q.
(* number of characters ahead of p in scan direction = distance to the far end (stoppos) *)
Definition sc_ahead (p : Z) : Z := if rtl then p else n - p.
(* one run of the matcher at x does not produce a match *)
Definition sc_fails (x : Z) : Prop := fst (exec x) = None.

(* (H1) the finder is sound.  When it answers true at q, nothing before q matches.  When it answers
   false leaving Runtextpos = q, the loop behaves exactly as after a failed attempt at q (stop when
   q is the far end, else resume at q+bump): so what is needed is that nothing from p up to AND
   INCLUDING q matches.  (findFirstCharDefault leaves q = the far end when it gives up, so there
   this reads "nothing from p to the far end matches"; a finder that returns false without moving,
   e.g. runner.go:1568-1570, only needs "p itself does not match".) *)
Definition sc_H1_true : Prop :=
  forall p q, sc_in_text p -> finder p = (true, q) ->
    sc_ord p q /\ sc_in_text q /\ (forall x, sc_ord p x -> sc_before x q -> sc_fails x).
Definition sc_H1_false : Prop :=
  forall p q, sc_in_text p -> finder p = (false, q) ->
    sc_ord p q /\ sc_in_text q /\ (forall x, sc_ord p x -> sc_ord x q -> sc_fails x).
(* (H2) nothing matches with fewer than min_required characters ahead *)
Definition sc_H2 : Prop :=
  forall x, sc_in_text x -> sc_ahead x < min_required -> sc_fails x.
(* (H3) a failed run of the matcher from p leaves a position q at-or-beyond p, and nothing from p to
   q inclusive matches (q = p without the bump-along shortcut) *)
Definition sc_H3 : Prop :=
  forall p q, sc_in_text p -> exec p = (None, q) ->
    sc_ord p q /\ sc_in_text q /\ (forall x, sc_ord p x -> sc_ord x q -> sc_fails x).

Ltac sc_unf :=
  unfold sc_in_text, sc_ord, sc_before, sc_ahead, stoppos, bump in *.
Ltac sc_lia := sc_unf; destruct rtl; lia.

Let nloop := naive_loop n rtl exec.

Lemma sc_naive_loop_S : forall f p,
  nloop (S f) p =
  match fst (exec p) with
  | Some m => Ok (Some m)
  | None => if p =? stoppos n rtl then Ok None else nloop f (p + bump rtl)
  end.
Proof.
  intros f p. unfold nloop, naive_loop. cbn [scan_loop].
  unfold min_cut. change (0 <? 0) with false. cbn [andb].
  unfold naive_finder, naive_exec. destruct (exec p) as [[m|] q]; reflexivity.
Qed.

Lemma sc_naive_ok : forall fuel p,
  sc_in_text p -> (Z.to_nat (sc_ahead p) < fuel)%nat -> exists r, nloop fuel p = Ok r.
Proof.
  induction fuel as [|f IH]; intros p Hp Hf; [lia|].
  rewrite sc_naive_loop_S. destruct (fst (exec p)) as [m|]; [eauto|].
  destruct (p =? stoppos n rtl) eqn:E; [eauto|].
  apply IH; sc_lia.
Qed.

Lemma sc_naive_all_fail : forall fuel p,
  sc_in_text p -> (Z.to_nat (sc_ahead p) < fuel)%nat ->
  (forall x, sc_ord p x -> sc_in_text x -> sc_fails x) ->
  nloop fuel p = Ok None.
Proof.
  induction fuel as [|f IH]; intros p Hp Hf Hall; [lia|].
  rewrite sc_naive_loop_S.
  assert (Hx : sc_fails p) by (apply Hall; [sc_lia | exact Hp]).
  unfold sc_fails in Hx. rewrite Hx.
  destruct (p =? stoppos n rtl) eqn:E; [reflexivity|].
  apply IH; [sc_lia | sc_lia |].
  intros x Hox Hix. apply Hall; [sc_lia | exact Hix].
Qed.

Lemma sc_naive_fuel : forall fuel fuel' p,
  sc_in_text p -> (Z.to_nat (sc_ahead p) < fuel)%nat -> (Z.to_nat (sc_ahead p) < fuel')%nat ->
  nloop fuel p = nloop fuel' p.
Proof.
  induction fuel as [|f IH]; intros fuel' p Hp Hf Hf'; [lia|].
  destruct fuel' as [|f']; [lia|].
  rewrite !sc_naive_loop_S. destruct (fst (exec p)) as [m|]; [reflexivity|].
  destruct (p =? stoppos n rtl) eqn:E; [reflexivity|].
  apply IH; sc_lia.
Qed.

(* skipping failing positions *)
Lemma sc_naive_skip : forall k fuel p q,
  k = Z.to_nat (sc_ahead p - sc_ahead q) ->
  sc_in_text p -> sc_in_text q -> sc_ord p q ->
  (forall x, sc_ord p x -> sc_before x q -> sc_fails x) ->
  (Z.to_nat (sc_ahead p) < fuel)%nat ->
  nloop fuel p = nloop fuel q.
Proof.
  induction k as [|k IH]; intros fuel p q Hk Hp Hq Ho Hall Hf.
  - assert (p = q) by sc_lia. subst q. reflexivity.
  - destruct fuel as [|f]; [lia|].
    rewrite sc_naive_loop_S.
    assert (Hx : sc_fails p) by (apply Hall; sc_lia).
    unfold sc_fails in Hx. rewrite Hx.
    destruct (p =? stoppos n rtl) eqn:E; [exfalso; sc_lia|].
    rewrite (IH f (p + bump rtl) q); try sc_lia.
    + apply sc_naive_fuel; sc_lia.
    + intros x Hox Hbx. apply Hall; sc_lia.
Qed.

Hypothesis H1t : sc_H1_true.
Hypothesis H1f : sc_H1_false.
Hypothesis H2 : sc_H2.
Hypothesis H3 : sc_H3.

Lemma sc_loop_eq_naive : forall fuel p fuel',
  sc_in_text p ->
  (Z.to_nat (sc_ahead p) < fuel)%nat -> (Z.to_nat (sc_ahead p) < fuel')%nat ->
  scan_loop n rtl min_required finder exec fuel p = nloop fuel' p.
Proof.
  induction fuel as [|f IH]; intros p fuel' Hp Hf Hf'; [lia|].
  (* what happens after a failure that left Runtextpos = q' *)
  assert (Hresume : forall q',
            sc_ord p q' -> sc_in_text q' ->
            (forall x, sc_ord p x -> sc_ord x q' -> sc_fails x) ->
            (if q' =? stoppos n rtl then Ok None
             else scan_loop n rtl min_required finder exec f (q' + bump rtl)) = nloop fuel' p).
  { intros q' Ho Hq Hall.
    destruct (q' =? stoppos n rtl) eqn:E.
    - symmetry. apply sc_naive_all_fail; [exact Hp | exact Hf' |].
      intros x Hox Hix. apply Hall; [exact Hox | sc_lia].
    - rewrite (IH (q' + bump rtl) fuel'); try sc_lia.
      symmetry. apply (sc_naive_skip (Z.to_nat (sc_ahead p - sc_ahead (q' + bump rtl)))); try sc_lia.
      intros x Hox Hbx. apply Hall; sc_lia. }
  cbn [scan_loop].
  destruct (min_cut n rtl min_required p) eqn:Ecut.
  { symmetry. apply sc_naive_all_fail; [exact Hp | exact Hf' |].
    intros x Hox Hix. apply H2; [exact Hix|]. unfold min_cut in Ecut. sc_lia. }
  destruct (finder p) as [found q] eqn:Efind. destruct found.
  - destruct (H1t p q Hp Efind) as (Hoq & Hq & Hskip).
    assert (Hnq : nloop fuel' p = nloop fuel' q).
    { apply (sc_naive_skip (Z.to_nat (sc_ahead p - sc_ahead q))); auto. }
    destruct (exec q) as [[m|] q'] eqn:Eexec.
    + rewrite Hnq. destruct fuel' as [|f']; [lia|].
      rewrite sc_naive_loop_S, Eexec. reflexivity.
    + destruct (H3 q q' Hq Eexec) as (Hoq' & Hq' & Hfail).
      apply Hresume; [sc_lia | exact Hq' |].
      intros x Hox Hxq'.
      assert (Hcase : sc_before x q \/ sc_ord q x) by sc_lia.
      destruct Hcase as [Hb|Hb]; [apply Hskip; assumption | apply Hfail; assumption].
  - destruct (H1f p q Hp Efind) as (Hoq & Hq & Hfail).
    apply Hresume; assumption.
Qed.

(* Fuel n+2 is never exhausted, and the accelerated loop returns what the naive loop returns. *)
Theorem sc_scan_finder_sound : forall start prevlen,
  sc_in_text start ->
  exists r, scan n rtl min_required finder exec start prevlen = Ok r
         /\ naive_scan n rtl exec start prevlen = Ok r.
Proof.
  intros start prevlen Hs.
  unfold naive_scan, scan.
  destruct (prevlen =? 0) eqn:Epl.
  - destruct (start =? stoppos n rtl) eqn:Est; [eauto|].
    assert (Hp : sc_in_text (start + bump rtl)) by sc_lia.
    assert (Hfu : (Z.to_nat (sc_ahead (start + bump rtl)) < scan_fuel n)%nat)
      by (unfold scan_fuel; sc_lia).
    destruct (sc_naive_ok (scan_fuel n) _ Hp Hfu) as [r Hr].
    exists r. split; [|exact Hr].
    rewrite (sc_loop_eq_naive (scan_fuel n) _ (scan_fuel n) Hp Hfu Hfu). exact Hr.
  - assert (Hfu : (Z.to_nat (sc_ahead start) < scan_fuel n)%nat)
      by (unfold scan_fuel; sc_lia).
    destruct (sc_naive_ok (scan_fuel n) _ Hs Hfu) as [r Hr].
    exists r. split; [|exact Hr].
    rewrite (sc_loop_eq_naive (scan_fuel n) _ (scan_fuel n) Hs Hfu Hfu). exact Hr.
Qed.

(* The naive scan returns the first successful attempt in scan order (this pins down what
   "identical to attempting at every position" means, independently of the loop). *)
Lemma sc_naive_loop_spec : forall fuel p r,
  sc_in_text p -> nloop fuel p = Ok r ->
  match r with
  | Some m => exists x, sc_ord p x /\ sc_in_text x /\ fst (exec x) = Some m
                        /\ forall y, sc_ord p y -> sc_before y x -> sc_fails y
  | None => forall x, sc_ord p x -> sc_in_text x -> sc_fails x
  end.
Proof.
  induction fuel as [|f IH]; intros p r Hp Hr; [discriminate|].
  rewrite sc_naive_loop_S in Hr.
  destruct (fst (exec p)) as [m|] eqn:Ep.
  - inversion Hr; subst r. exists p. repeat split; try sc_lia; try assumption.
  - destruct (p =? stoppos n rtl) eqn:E.
    + inversion Hr; subst r. intros x Hox Hix.
      assert (x = p) by sc_lia. subst x. exact Ep.
    + assert (Hp' : sc_in_text (p + bump rtl)) by sc_lia.
      specialize (IH _ _ Hp' Hr). destruct r as [m|].
      * destruct IH as (x & Hox & Hix & Hex & Hbef).
        exists x. repeat split; try sc_lia; try assumption.
        intros y Hy Hby.
        assert (Hc : y = p \/ sc_ord (p + bump rtl) y) by sc_lia.
        destruct Hc as [->|Hc]; [exact Ep | apply Hbef; assumption].
      * intros x Hox Hix.
        assert (Hc : x = p \/ sc_ord (p + bump rtl) x) by sc_lia.
        destruct Hc as [->|Hc]; [exact Ep | apply IH; assumption].
Qed.

End ScanSound.

(* ------------------------------------------------------------------------------------------
   findFirstCharDefault's anchor part (Model/Scan.v [ffc_default], runner.go:1382-1412) satisfies
   (H1), given the C04 facts about the generated [Anchors] bits: a successful attempt of a program
   whose Anchors has the Beginning bit happens at 0, Start: at Runtextstart, EndZ: at the end or just
   before a final newline, End: at the end; and the Boyer-Moore prefix is present at every successful
   attempt position.  The rest of the finder (reached when no anchor bit is set) is assumed sound. *)
Section AnchorSound.
Variable R : Type.
Variable text : list Z.
Variable rtl : bool.
Variable anchors : Z.
Variable ts : Z.
Variable bm : option (Z -> bool).
Variable rest : Z -> bool * Z.
Variable exec : Z -> option R * Z.

Let n := a_n text.
Let succeeds (x : Z) : Prop := fst (exec x) <> None.

Hypothesis Fbeg : abit anchors ANCH_BEGINNING = true ->
  forall x, sc_in_text n x -> succeeds x -> x = 0.
Hypothesis Fstart : abit anchors ANCH_START = true ->
  forall x, sc_in_text n x -> succeeds x -> x = ts.
Hypothesis Fendz : abit anchors ANCH_ENDZ = true ->
  forall x, sc_in_text n x -> succeeds x -> x = n \/ (x = n - 1 /\ a_char text x = 10).
Hypothesis Fend : abit anchors ANCH_END = true ->
  forall x, sc_in_text n x -> succeeds x -> x = n.
Hypothesis Fbm : forall is_match, bm = Some is_match ->
  forall x, sc_in_text n x -> succeeds x -> is_match x = true.
Hypothesis Frest_t : sc_H1_true R n rtl rest exec.
Hypothesis Frest_f : sc_H1_false R n rtl rest exec.

Lemma sc_anchor_fails : forall x p,
  sc_in_text n x ->
  (succeeds x ->
   (abit anchors ANCH_BEGINNING = true -> x = 0) ->
   (abit anchors ANCH_START = true -> x = ts) ->
   (abit anchors ANCH_ENDZ = true -> x = n \/ (x = n - 1 /\ a_char text x = 10)) ->
   (abit anchors ANCH_END = true -> x = n) ->
   (x = p -> a_char text x = a_char text p) ->
   (forall is_match, bm = Some is_match -> is_match x = true) -> False) ->
  sc_fails R exec x.
Proof.
  intros x p Hx H. unfold sc_fails. destruct (fst (exec x)) as [r|] eqn:Ex; [exfalso | reflexivity].
  assert (Hs : succeeds x) by (unfold succeeds; congruence).
  apply H; auto; try (intros ->; reflexivity); try (intros im Him; eapply Fbm; eauto).
Qed.

Ltac anc_lia := unfold sc_in_text, sc_ord, sc_before in *; unfold n in *; cbv beta iota in *; lia.

Theorem sc_anchor_H1 :
  sc_H1_true R n rtl (ffc_default text rtl anchors ts bm rest) exec /\
  sc_H1_false R n rtl (ffc_default text rtl anchors ts bm rest) exec.
Proof.
  assert (Hn : 0 <= n) by (unfold n, a_n, zlen; lia).
  pose proof sc_anchor_fails as AF.
  split; intros p q Hp Hf; unfold ffc_default in Hf;
    (destruct (abit anchors (ANCH_BEGINNING + ANCH_START + ANCH_ENDZ + ANCH_END)) eqn:Eany;
     [| first [exact (Frest_t p q Hp Hf) | exact (Frest_f p q Hp Hf)]]).
  - (* found = true *)
    destruct rtl; cbn [negb] in Hf.
    + destruct ((abit anchors ANCH_END && (p <? a_n text))
                || (abit anchors ANCH_ENDZ &&
                    ((p <? a_n text - 1) || ((p =? a_n text - 1) && negb (a_char text p =? 10))))
                || (abit anchors ANCH_START && (p <? ts))) eqn:E1.
      { destruct bm; discriminate. }
      destruct (abit anchors ANCH_BEGINNING && (0 <? p)) eqn:E2.
      * assert (q = 0) by (destruct bm; inversion Hf; reflexivity). subst q.
        repeat split; try anc_lia.
        intros x Hx1 Hx2. apply (AF x p); [anc_lia|]. intros. anc_lia.
      * assert (q = p) by (destruct bm; inversion Hf; reflexivity). subst q.
        repeat split; anc_lia.
    + destruct ((abit anchors ANCH_BEGINNING && (0 <? p)) || (abit anchors ANCH_START && (ts <? p))) eqn:E1.
      { destruct bm; discriminate. }
      destruct (abit anchors ANCH_ENDZ && (p <? a_n text - 1)) eqn:E2.
      * assert (q = n - 1) by (destruct bm; inversion Hf; reflexivity). subst q.
        repeat split; try anc_lia.
        intros x Hx1 Hx2. apply (AF x p); [anc_lia|]. intros. anc_lia.
      * destruct (abit anchors ANCH_END && (p <? a_n text)) eqn:E3.
        -- assert (q = n) by (destruct bm; inversion Hf; reflexivity). subst q.
           repeat split; try anc_lia.
           intros x Hx1 Hx2. apply (AF x p); [anc_lia|]. intros. anc_lia.
        -- assert (q = p) by (destruct bm; inversion Hf; reflexivity). subst q.
           repeat split; anc_lia.
  - (* found = false: gave up (far end), or the Boyer-Moore prefix is absent at the jumped-to position *)
    destruct rtl; cbn [negb] in Hf.
    + destruct ((abit anchors ANCH_END && (p <? a_n text))
                || (abit anchors ANCH_ENDZ &&
                    ((p <? a_n text - 1) || ((p =? a_n text - 1) && negb (a_char text p =? 10))))
                || (abit anchors ANCH_START && (p <? ts))) eqn:E1.
      { inversion Hf; subst q. repeat split; try anc_lia.
        intros x Hx1 Hx2. apply (AF x p); [anc_lia|]. intros. anc_lia. }
      destruct bm as [im|] eqn:Ebm; [|destruct (abit anchors ANCH_BEGINNING && (0 <? p)); discriminate].
      destruct (abit anchors ANCH_BEGINNING && (0 <? p)) eqn:E2; inversion Hf as [[Him Hq]]; subst q.
      * repeat split; try anc_lia.
        intros x Hx1 Hx2. apply (AF x p); [anc_lia|]. intros Hs H1 H2 H3 H4 H5 H6.
        specialize (H6 im eq_refl).
        assert (Hc : x = 0 \/ x <> 0) by lia. destruct Hc as [->|Hc]; [congruence | anc_lia].
      * repeat split; try anc_lia.
        intros x Hx1 Hx2. assert (x = p) by anc_lia. subst x.
        apply (AF p p); [anc_lia|]. intros Hs H1 H2 H3 H4 H5 H6.
        specialize (H6 im eq_refl). congruence.
    + destruct ((abit anchors ANCH_BEGINNING && (0 <? p)) || (abit anchors ANCH_START && (ts <? p))) eqn:E1.
      { inversion Hf; subst q. repeat split; try anc_lia.
        intros x Hx1 Hx2. apply (AF x p); [anc_lia|]. intros. anc_lia. }
      destruct bm as [im|] eqn:Ebm.
      2:{ destruct (abit anchors ANCH_ENDZ && (p <? a_n text - 1));
          [|destruct (abit anchors ANCH_END && (p <? a_n text))]; discriminate. }
      destruct (abit anchors ANCH_ENDZ && (p <? a_n text - 1)) eqn:E2.
      * inversion Hf as [[Him Hq]]; subst q. repeat split; try anc_lia.
        intros x Hx1 Hx2. apply (AF x p); [anc_lia|]. intros Hs H1 H2 H3 H4 H5 H6.
        specialize (H6 im eq_refl).
        assert (Hc : x = a_n text - 1 \/ x <> a_n text - 1) by lia.
        destruct Hc as [->|Hc]; [congruence | anc_lia].
      * destruct (abit anchors ANCH_END && (p <? a_n text)) eqn:E3;
          inversion Hf as [[Him Hq]]; subst q.
        -- repeat split; try anc_lia.
           intros x Hx1 Hx2. apply (AF x p); [anc_lia|]. intros Hs H1 H2 H3 H4 H5 H6.
           specialize (H6 im eq_refl).
           assert (Hc : x = a_n text \/ x <> a_n text) by lia.
           destruct Hc as [->|Hc]; [congruence | anc_lia].
        -- repeat split; try anc_lia.
           intros x Hx1 Hx2. assert (x = p) by anc_lia. subst x.
           apply (AF p p); [anc_lia|]. intros Hs H1 H2 H3 H4 H5 H6.
           specialize (H6 im eq_refl). congruence.
Qed.

End AnchorSound.

(* ------------------------------------------------------------------------------------------
   Boolean checkers for (H1)-(H3) on a concrete (finite) instance, with soundness: used for the
   non-vacuity Examples of Properties/C03.v (by vm_compute). *)
Section Checkers.
Variable R : Type.
Variable n : Z.
Variable rtl : bool.
Variable min_required : Z.
Variable finder : Z -> bool * Z.
Variable exec : Z -> option R * Z.

Lemma sc_range_in : forall x, sc_in_text n x -> In x (sc_range n).
Proof.
  intros x Hx. unfold sc_range, sc_in_text in *.
  replace x with (Z.of_nat (Z.to_nat x)) by lia. apply in_map. apply in_seq. lia.
Qed.

Lemma sc_fails_b_ok : forall x, sc_fails_b R exec x = true -> sc_fails R exec x.
Proof.
  intros x H. unfold sc_fails_b, sc_fails in *. destruct (fst (exec x)); [discriminate | reflexivity].
Qed.

Ltac scb_lia := unfold sc_in_text, sc_ord, sc_before, sc_in_text_b, sc_ord_b, sc_before_b in *;
                destruct rtl; lia.

Lemma sc_all_fail_incl_ok : forall p q, sc_in_text n p -> sc_in_text n q ->
  sc_all_fail_incl R n rtl exec p q = true ->
  forall x, sc_ord rtl p x -> sc_ord rtl x q -> sc_fails R exec x.
Proof.
  intros p q Hp Hq H x H1 H2. unfold sc_all_fail_incl in H. rewrite forallb_forall in H.
  assert (Hx : sc_in_text n x) by scb_lia.
  specialize (H x (sc_range_in x Hx)). apply sc_fails_b_ok.
  assert (Hc : sc_ord_b rtl p x && sc_ord_b rtl x q = true) by scb_lia.
  rewrite Hc in H. exact H.
Qed.

Lemma sc_all_fail_excl_ok : forall p q, sc_in_text n p -> sc_in_text n q ->
  sc_all_fail_excl R n rtl exec p q = true ->
  forall x, sc_ord rtl p x -> sc_before rtl x q -> sc_fails R exec x.
Proof.
  intros p q Hp Hq H x H1 H2. unfold sc_all_fail_excl in H. rewrite forallb_forall in H.
  assert (Hx : sc_in_text n x) by scb_lia.
  specialize (H x (sc_range_in x Hx)). apply sc_fails_b_ok.
  assert (Hc : sc_ord_b rtl p x && sc_before_b rtl x q = true) by scb_lia.
  rewrite Hc in H. exact H.
Qed.

Lemma sc_chk_H1_ok : sc_chk_H1 R n rtl finder exec = true ->
  sc_H1_true R n rtl finder exec /\ sc_H1_false R n rtl finder exec.
Proof.
  intros H. unfold sc_chk_H1 in H. rewrite forallb_forall in H.
  split; intros p q Hp Hf; specialize (H p (sc_range_in p Hp)); rewrite Hf in H;
    apply andb_prop in H; destruct H as [H Hall]; apply andb_prop in H; destruct H as [Ho Hq];
    assert (Hq' : sc_in_text n q) by scb_lia;
    (split; [scb_lia | split; [exact Hq'|]]).
  - apply sc_all_fail_excl_ok; assumption.
  - apply sc_all_fail_incl_ok; assumption.
Qed.

Lemma sc_chk_H2_ok : sc_chk_H2 R n rtl min_required exec = true -> sc_H2 R n rtl min_required exec.
Proof.
  intros H x Hx Ha. unfold sc_chk_H2 in H. rewrite forallb_forall in H.
  specialize (H x (sc_range_in x Hx)). apply sc_fails_b_ok.
  assert (Hc : ((if rtl then x else n - x) <? min_required) = true) by (unfold sc_ahead in Ha; destruct rtl; lia).
  rewrite Hc in H. exact H.
Qed.

Lemma sc_chk_H3_ok : sc_chk_H3 R n rtl exec = true -> sc_H3 R n rtl exec.
Proof.
  intros H p q Hp He. unfold sc_chk_H3 in H. rewrite forallb_forall in H.
  specialize (H p (sc_range_in p Hp)). rewrite He in H.
  apply andb_prop in H; destruct H as [H Hall]; apply andb_prop in H; destruct H as [Ho Hq].
  assert (Hq' : sc_in_text n q) by scb_lia.
  split; [scb_lia | split; [exact Hq'|]].
  apply sc_all_fail_incl_ok; assumption.
Qed.

End Checkers.

(* (H1, false case) in the form "nothing from p to the far end matches" - what findFirstCharDefault's
   give-up paths establish - implies the weaker form used by the theorem *)
Lemma sc_H1_false_of_far_end : forall R n rtl finder (exec : Z -> option R * Z),
  (forall p q, sc_in_text n p -> finder p = (false, q) ->
     sc_ord rtl p q /\ sc_in_text n q /\
     (forall x, sc_ord rtl p x -> sc_in_text n x -> sc_fails R exec x)) ->
  sc_H1_false R n rtl finder exec.
Proof.
  intros R n rtl finder exec H p q Hp Hf. destruct (H p q Hp Hf) as (Ho & Hq & Hall).
  split; [exact Ho | split; [exact Hq|]].
  intros x H1 H2. apply Hall; [exact H1|].
  unfold sc_in_text, sc_ord in *. destruct rtl; lia.
Qed.
