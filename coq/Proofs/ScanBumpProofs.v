(* C03, bump-along shortcut on the reference semantics (Model/Spec.v).
   When the pattern starts with an unbounded single-character loop followed by the
   UpdateBumpalong marker (syntax/tree.go:338-361), an attempt that fails at p also fails at every
   p' in (p, p + run], where run is the maximal run of the loop's character test from p: this is
   hypothesis (H3) of Proofs/ScanProofs.v for the real shortcut (runner.go:956-965 writes the
   position the loop reached, which is <= p + run, into the slot the scan resumes from). *)
From Verif Require Import Base.Prelude Model.Tree Model.Spec.

Section Bump.
Variable e : env.

(* ---------- lists ---------- *)
Definition bp_prefix {A} (l' l : list A) : Prop := exists t, l = l' ++ t.

Lemma bp_bindl_prefix : forall {A B} (f : A -> res (list B)) (l' t : list A) r,
  bindl (l' ++ t) f = Ok r -> exists r', bindl l' f = Ok r' /\ bp_prefix r' r.
Proof.
  intros A B f l'. induction l' as [|a l' IH]; intros t r H.
  - exists []. split; [reflexivity | exists r; reflexivity].
  - cbn [app bindl] in H. destruct (f a) as [x| | |] eqn:Ea; try discriminate.
    cbn [bind] in H. destruct (bindl (l' ++ t) f) as [y| | |] eqn:Eb; try discriminate.
    cbn [bind] in H. inversion H; subst r.
    destruct (IH t y Eb) as (y' & Hy' & (t' & Ht')).
    exists (x ++ y'). split.
    + cbn [bindl]. rewrite Ea. cbn [bind]. rewrite Hy'. reflexivity.
    + exists t'. rewrite Ht'. rewrite app_assoc. reflexivity.
Qed.

Lemma bp_bindl_nil_in : forall {A B} (f : A -> res (list B)) (l : list A),
  bindl l f = Ok [] -> forall a, In a l -> f a = Ok [].
Proof.
  intros A B f l. induction l as [|b l IH]; intros H a Hin; [destruct Hin|].
  cbn [bindl] in H. destruct (f b) as [x| | |] eqn:Eb; try discriminate.
  cbn [bind] in H. destruct (bindl l f) as [y| | |] eqn:El; try discriminate.
  cbn [bind] in H. inversion H as [Hxy]. apply app_eq_nil in Hxy. destruct Hxy as [-> ->].
  destruct Hin as [<-|Hin]; [exact Eb | apply IH; [reflexivity | exact Hin]].
Qed.

Lemma bp_bindl_all_nil : forall {A B} (f : A -> res (list B)) (l : list A),
  (forall a, In a l -> f a = Ok []) -> bindl l f = Ok [].
Proof.
  intros A B f l. induction l as [|b l IH]; intros H; [reflexivity|].
  cbn [bindl]. rewrite (H b (or_introl eq_refl)). cbn [bind].
  rewrite IH; [reflexivity|]. intros a Ha. apply H. right. exact Ha.
Qed.

(* ---------- count_down / count_up ---------- *)
Lemma bp_cda_app : forall n1 n2 a,
  count_down_aux (n1 + n2) a = count_down_aux n1 a ++ count_down_aux n2 (a - Z.of_nat n1).
Proof.
  induction n1 as [|n1 IH]; intros n2 a.
  - cbn. f_equal. lia.
  - cbn [Nat.add count_down_aux app]. f_equal. rewrite IH. f_equal. f_equal. lia.
Qed.

Lemma bp_cda_map_shift : forall {A} (g1 g2 : Z -> A) d,
  (forall j, g1 j = g2 (j + d)) ->
  forall n a, map g1 (count_down_aux n a) = map g2 (count_down_aux n (a + d)).
Proof.
  intros A g1 g2 d Hg. induction n as [|n IH]; intros a; [reflexivity|].
  cbn [count_down_aux map]. rewrite Hg. f_equal. rewrite IH. f_equal. f_equal. lia.
Qed.

Lemma bp_cua_in : forall n a j, In j (count_up_aux n a) <-> a <= j < a + Z.of_nat n.
Proof.
  induction n as [|n IH]; intros a j.
  - cbn. lia.
  - cbn [count_up_aux In]. rewrite IH. lia.
Qed.

Lemma bp_count_up_in : forall a b j, In j (count_up a b) <-> a <= j <= b.
Proof.
  intros a b j. unfold count_up. destruct (b <? a) eqn:E.
  - cbn. lia.
  - rewrite bp_cua_in. lia.
Qed.

(* ---------- the run of a left-to-right single-character loop ---------- *)
Variable k : ckind.
Variable c : Z.
Variable ol : Z.                        (* the loop node's options *)
Hypothesis Hltr : is_rtl ol = false.

(* maximal run of the loop's character test from p *)
Definition bp_run (p : Z) : Z := run_len e k c ol (Z.to_nat (avail e ol p)) p.

Lemma bp_run_len_nonneg : forall maxn p, 0 <= run_len e k c ol maxn p.
Proof.
  induction maxn as [|m IH]; intros p; cbn [run_len]; [lia|].
  destruct ((0 <? avail e ol p) && char_test e k c (next_char e ol p)); [|lia].
  specialize (IH (p + dir ol)). lia.
Qed.

Lemma bp_run_step : forall p,
  bp_run p = if (0 <? tlen e - p) && char_test e k c (char_at e p) then 1 + bp_run (p + 1) else 0.
Proof.
  intros p. unfold bp_run, avail. rewrite Hltr.
  destruct (Z.to_nat (tlen e - p)) as [|m] eqn:Em.
  - cbn [run_len]. assert (H : (0 <? tlen e - p) = false) by lia. rewrite H. reflexivity.
  - cbn [run_len]. unfold avail, next_char, dir. rewrite Hltr.
    replace (Z.to_nat (tlen e - (p + 1))) with m by lia. reflexivity.
Qed.

Lemma bp_run_shift : forall d p,
  Z.of_nat d <= bp_run p -> bp_run (p + Z.of_nat d) = bp_run p - Z.of_nat d.
Proof.
  induction d as [|d IH]; intros p Hd.
  - replace (p + Z.of_nat 0) with p by lia. lia.
  - rewrite (bp_run_step p) in Hd |- *.
    destruct ((0 <? tlen e - p) && char_test e k c (char_at e p)); [|lia].
    replace (p + Z.of_nat (S d)) with ((p + 1) + Z.of_nat d) by lia.
    rewrite IH; lia.
Qed.

(* closed form of the loop's result list for a left-to-right unbounded loop *)
Definition bp_mk (s : st) (j : Z) : st := with_pos s (pos s + j).

Lemma bp_charloop_ltr : forall l m s,
  sem_charloop e k l ol c m INF s =
  let r := bp_run (pos s) in
  if r <? m then [] else
  match l with
  | LGreedy => map (bp_mk s) (count_down r m)
  | LLazy => map (bp_mk s) (count_up m r)
  | LAtomic => [bp_mk s r]
  end.
Proof.
  intros l m s. unfold sem_charloop. rewrite Z.eqb_refl. fold (bp_run (pos s)). cbv zeta.
  destruct (bp_run (pos s) <? m); [reflexivity|].
  assert (Hmk : forall j, with_pos s (pos s + dir ol * j) = bp_mk s j).
  { intros j. unfold bp_mk, dir. rewrite Hltr. f_equal. lia. }
  destruct l.
  - apply map_ext. exact Hmk.
  - apply map_ext. exact Hmk.
  - rewrite Hmk. reflexivity.
Qed.

Definition bp_shift (s : st) (d : Z) : st := with_pos s (pos s + d).

Lemma bp_mk_shift : forall s d j, bp_mk (bp_shift s d) j = bp_mk s (j + d).
Proof. intros s d j. unfold bp_mk, bp_shift, with_pos. cbn [pos caps]. f_equal. lia. Qed.

(* greedy / atomic: the results from p+d are a prefix of the results from p *)
Lemma bp_charloop_prefix : forall l m s d,
  l <> LLazy -> 0 < d <= bp_run (pos s) ->
  bp_prefix (sem_charloop e k l ol c m INF (bp_shift s d)) (sem_charloop e k l ol c m INF s).
Proof.
  intros l m s d Hl Hd. rewrite !bp_charloop_ltr. cbv zeta.
  assert (Hr : bp_run (pos (bp_shift s d)) = bp_run (pos s) - d).
  { unfold bp_shift, with_pos. cbn [pos]. replace d with (Z.of_nat (Z.to_nat d)) by lia.
    apply bp_run_shift. lia. }
  rewrite Hr. set (r := bp_run (pos s)) in *.
  destruct (r - d <? m) eqn:E1; [eexists; reflexivity|].
  assert (E2 : (r <? m) = false) by lia. rewrite E2.
  destruct l; [|congruence|].
  - unfold count_down. assert (E3 : (r - d <? m) = false) by lia.
    assert (E4 : (r <? m) = false) by lia. rewrite E3, E4.
    rewrite (bp_cda_map_shift (bp_mk (bp_shift s d)) (bp_mk s) d (bp_mk_shift s d)).
    replace (r - d + d) with r by lia.
    replace (Z.to_nat (r - m + 1)) with (Z.to_nat (r - d - m + 1) + Z.to_nat d)%nat by lia.
    rewrite bp_cda_app, map_app. eexists; reflexivity.
  - exists []. rewrite bp_mk_shift. replace (r - d + d) with r by lia. reflexivity.
Qed.

(* any kind (greedy, lazy, atomic): every result from p+d is a result from p *)
Lemma bp_charloop_incl : forall l m s d,
  0 < d <= bp_run (pos s) ->
  incl (sem_charloop e k l ol c m INF (bp_shift s d)) (sem_charloop e k l ol c m INF s).
Proof.
  intros l m s d Hd.
  destruct l.
  - destruct (bp_charloop_prefix LGreedy m s d) as [t Ht]; [discriminate | exact Hd |].
    rewrite Ht. apply incl_appl, incl_refl.
  - rewrite !bp_charloop_ltr. cbv zeta.
    assert (Hr : bp_run (pos (bp_shift s d)) = bp_run (pos s) - d).
    { unfold bp_shift, with_pos. cbn [pos]. replace d with (Z.of_nat (Z.to_nat d)) by lia.
      apply bp_run_shift. lia. }
    rewrite Hr. set (r := bp_run (pos s)) in *.
    destruct (r - d <? m) eqn:E1; [intros x Hx; destruct Hx|].
    assert (E2 : (r <? m) = false) by lia. rewrite E2.
    intros x Hx. apply in_map_iff in Hx. destruct Hx as (j & <- & Hj).
    apply bp_count_up_in in Hj. rewrite bp_mk_shift.
    apply in_map. apply bp_count_up_in. lia.
  - destruct (bp_charloop_prefix LAtomic m s d) as [t Ht]; [discriminate | exact Hd |].
    rewrite Ht. apply incl_appl, incl_refl.
Qed.

(* ---------- the shapes the parser produces ---------- *)
(* the concatenation the marker is inserted into: loop, marker, anything *)
Definition bp_core (l : lkind) (o m : Z) (rest : list node) : node :=
  NConcat o (NCharLoop k l ol c m INF :: NBump :: rest).

(* greedy or atomic loop: the concatenation may sit under any nesting of atomic groups and of
   concatenations whose FIRST child leads to it (tree.go:340-347 walks exactly these) *)
Inductive bp_shape_g : node -> Prop :=
| BSG_core : forall l o m rest, l <> LLazy -> bp_shape_g (bp_core l o m rest)
| BSG_atomic : forall t, bp_shape_g t -> bp_shape_g (NAtomic t)
| BSG_concat : forall o t rest, bp_shape_g t -> bp_shape_g (NConcat o (t :: rest)).

(* any loop kind, lazy included: only atomic groups above the concatenation (the whole pattern is
   then the concatenation, so a failed attempt has tried every length of the loop) *)
Inductive bp_shape_a : node -> Prop :=
| BSA_core : forall l o m rest, bp_shape_a (bp_core l o m rest)
| BSA_atomic : forall t, bp_shape_a t -> bp_shape_a (NAtomic t).

Definition bp_seqf (f : nat) : list node -> st -> res (list st) :=
  fix seq (l : list node) (s : st) : res (list st) :=
    match l with
    | [] => Ok [s]
    | x :: l' => bindr (sem e f x s) (seq l')
    end.

Lemma bp_sem_concat_cons : forall f o x l s,
  sem e (S f) (NConcat o (x :: l)) s = bindr (sem e f x s) (bp_seqf f l).
Proof. reflexivity. Qed.

Lemma bp_sem_atomic : forall f t s, sem e (S f) (NAtomic t) s = first_only (sem e f t s).
Proof. reflexivity. Qed.

Lemma bp_sem_charloop : forall f l m s,
  sem e (S f) (NCharLoop k l ol c m INF) s = Ok (sem_charloop e k l ol c m INF s).
Proof. reflexivity. Qed.

Lemma bp_bindr_ok : forall {A B} (r : res (list A)) (g : A -> res (list B)) l,
  bindr r g = Ok l -> exists l0, r = Ok l0 /\ bindl l0 g = Ok l.
Proof.
  intros A B r g l H. unfold bindr in H. destruct r as [l0| | |]; try discriminate.
  exists l0. split; [reflexivity | exact H].
Qed.

Lemma bp_shape_g_prefix : forall t, bp_shape_g t ->
  forall f s l d, 0 < d <= bp_run (pos s) ->
  sem e f t s = Ok l ->
  exists l', sem e f t (bp_shift s d) = Ok l' /\ bp_prefix l' l.
Proof.
  intros t Ht. induction Ht as [l o m rest Hl | t Ht IH | o t rest Ht IH]; intros f s res d Hd Hs.
  - destruct f as [|f]; [discriminate|]. unfold bp_core in *.
    rewrite bp_sem_concat_cons in Hs |- *.
    apply bp_bindr_ok in Hs. destruct Hs as (l0 & Hl0 & Hb).
    destruct f as [|f]; [discriminate|].
    rewrite bp_sem_charloop in Hl0 |- *. inversion Hl0; subst l0.
    destruct (bp_charloop_prefix l m s d Hl Hd) as [t0 Ht0].
    rewrite Ht0 in Hb. apply bp_bindl_prefix in Hb. exact Hb.
  - destruct f as [|f]; [discriminate|].
    rewrite bp_sem_atomic in Hs |- *.
    unfold first_only in Hs |- *.
    destruct (sem e f t s) as [l0| | |] eqn:E0; try discriminate.
    cbn [bind] in Hs. inversion Hs; subst res.
    destruct (IH f s l0 d Hd E0) as (l0' & Hl0' & (t0 & Ht0)).
    rewrite Hl0'. cbn [bind]. eexists. split; [reflexivity|].
    destruct l0' as [|a l0']; [eexists; reflexivity|].
    rewrite Ht0. cbn [app]. exists []. reflexivity.
  - destruct f as [|f]; [discriminate|].
    rewrite bp_sem_concat_cons in Hs |- *.
    apply bp_bindr_ok in Hs. destruct Hs as (l0 & Hl0 & Hb).
    destruct (IH f s l0 d Hd Hl0) as (l0' & Hl0' & (t0 & Ht0)).
    rewrite Hl0'. unfold bindr. cbn [bind]. rewrite Ht0 in Hb.
    apply bp_bindl_prefix in Hb. exact Hb.
Qed.

Lemma bp_shape_a_nil : forall t, bp_shape_a t ->
  forall f s d, 0 < d <= bp_run (pos s) ->
  sem e f t s = Ok [] -> sem e f t (bp_shift s d) = Ok [].
Proof.
  intros t Ht. induction Ht as [l o m rest | t Ht IH]; intros f s d Hd Hs.
  - destruct f as [|f]; [discriminate|]. unfold bp_core in *.
    rewrite bp_sem_concat_cons in Hs |- *.
    apply bp_bindr_ok in Hs. destruct Hs as (l0 & Hl0 & Hb).
    destruct f as [|f]; [discriminate|].
    rewrite bp_sem_charloop in Hl0 |- *. inversion Hl0; subst l0.
    unfold bindr. cbn [bind]. apply bp_bindl_all_nil. intros a Ha.
    apply (bp_bindl_nil_in _ _ Hb). apply (bp_charloop_incl l m s d Hd). exact Ha.
  - destruct f as [|f]; [discriminate|].
    rewrite bp_sem_atomic in Hs |- *. unfold first_only in Hs |- *.
    destruct (sem e f t s) as [l0| | |] eqn:E0; try discriminate.
    cbn [bind] in Hs. destruct l0 as [|a l0]; [|discriminate].
    rewrite (IH f s d Hd E0). reflexivity.
Qed.

(* ---------- whole attempts ---------- *)
Lemma bp_attempt_none : forall fuel o body p,
  attempt e fuel (NCapture o 0 (-1) body) p = Ok None <->
  exists f, fuel = S f /\ sem e f body {| pos := p; caps := [] |} = Ok [].
Proof.
  intros fuel o body p. unfold attempt. split.
  - intros H. destruct fuel as [|f]; [discriminate|]. exists f. split; [reflexivity|].
    cbn [sem] in H. change (-1 =? -1) with true in H. cbv iota in H.
    destruct (sem e f body {| pos := p; caps := [] |}) as [l0| | |] eqn:E0; try discriminate.
    destruct l0 as [|a l0]; [reflexivity|]. exfalso.
    unfold bindr in H. cbn [bind bindl] in H.
    destruct (bindl l0 _) as [y| | |]; cbn [bind app] in H; discriminate.
  - intros (f & -> & H). cbn [sem]. change (-1 =? -1) with true. cbv iota.
    rewrite H. reflexivity.
Qed.

Theorem bp_bump_sound : forall fuel o body p,
  bp_shape_g body \/ bp_shape_a body ->
  attempt e fuel (NCapture o 0 (-1) body) p = Ok None ->
  forall p', p < p' <= p + bp_run p ->
  attempt e fuel (NCapture o 0 (-1) body) p' = Ok None.
Proof.
  intros fuel o body p Hshape Hfail p' Hp'.
  apply bp_attempt_none in Hfail. destruct Hfail as (f & -> & Hs).
  apply bp_attempt_none. exists f. split; [reflexivity|].
  set (s := {| pos := p; caps := [] |}) in *.
  assert (Hd : 0 < p' - p <= bp_run (pos s)) by (cbn [pos s]; lia).
  replace {| pos := p'; caps := [] |} with (bp_shift s (p' - p))
    by (unfold bp_shift, with_pos, s; cbn [pos caps]; f_equal; lia).
  destruct Hshape as [Hg|Ha].
  - destruct (bp_shape_g_prefix body Hg f s [] (p' - p) Hd Hs) as (l' & Hl' & (t & Ht)).
    symmetry in Ht. apply app_eq_nil in Ht. destruct Ht as [-> _]. exact Hl'.
  - exact (bp_shape_a_nil body Ha f s (p' - p) Hd Hs).
Qed.

End Bump.

(* ------------------------------------------------------------------------------------------
   Links between the abstract loop of Model/Scan.v and the reference semantics. *)
From Verif Require Import Model.Scan Proofs.ScanProofs.

Section SpecLink.
Variable e : env.
Variable fuel : nat.
Variable root : node.

(* one attempt of the reference semantics as an [exec] component; [bumpq p] is where a failed
   attempt leaves Runtextpos (p itself without the shortcut) *)
Definition bp_exec (bumpq : Z -> Z) (p : Z) : option st * Z :=
  match attempt e fuel root p with
  | Ok (Some s) => (Some s, p)
  | Ok None => (@None st, bumpq p)
  | _ => (@None st, p)
  end.

(* [Spec.find] is the naive scan over the attempts (whenever the attempts have enough fuel) *)
Lemma bp_scan_from_naive : forall (rtl : bool) bumpq k p fuel',
  (forall x, 0 <= x <= tlen e -> exists r, attempt e fuel root x = Ok r) ->
  0 <= p <= tlen e ->
  (Z.to_nat (if rtl then p else tlen e - p) < k)%nat ->
  (Z.to_nat (if rtl then p else tlen e - p) < fuel')%nat ->
  scan_from e fuel k root rtl p = naive_loop (tlen e) rtl (bp_exec bumpq) fuel' p.
Proof.
  intros rtl bumpq k. induction k as [|k IH]; intros p fuel' Hok Hp Hk Hf; [lia|].
  destruct fuel' as [|f']; [lia|].
  rewrite sc_naive_loop_S. cbn [scan_from]. unfold bp_exec at 1.
  destruct (Hok p Hp) as [r Hr]. rewrite Hr. cbn [bind].
  destruct r as [s|]; [reflexivity|]. cbn [fst].
  unfold stoppos, bump.
  destruct rtl.
  - destruct (p <=? 0) eqn:E1; destruct (p =? 0) eqn:E2; try lia; [reflexivity|].
    replace (p + -1) with (p - 1) by lia. apply IH; try assumption; lia.
  - destruct (tlen e <=? p) eqn:E1; destruct (p =? tlen e) eqn:E2; try lia; [reflexivity|].
    apply IH; try assumption; lia.
Qed.

Theorem bp_find_naive_scan : forall (rtl : bool) bumpq start prevlen,
  (forall x, 0 <= x <= tlen e -> exists r, attempt e fuel root x = Ok r) ->
  0 <= start <= tlen e ->
  find e fuel root rtl start prevlen = naive_scan (tlen e) rtl (bp_exec bumpq) start prevlen.
Proof.
  intros rtl bumpq start prevlen Hok Hs.
  pose proof (bp_scan_from_naive rtl bumpq) as L. unfold naive_loop in L.
  unfold find, naive_scan, scan, stoppos, bump, scan_fuel.
  destruct (prevlen =? 0) eqn:Ep; cbn [andb].
  - destruct rtl.
    + destruct (start =? 0) eqn:E; [reflexivity|].
      replace (start + -1) with (start - 1) by lia.
      apply L; try assumption; lia.
    + destruct (start =? tlen e) eqn:E; [reflexivity|].
      apply L; try assumption; lia.
  - destruct rtl; apply L; try assumption; lia.
Qed.

(* (H3) holds for the real bump-along shortcut on the shapes of [bp_bump_sound]: whatever position
   in [p, p + run] a failed attempt leaves behind *)
Variable k : ckind.
Variable c : Z.
Variable ol : Z.
Hypothesis Hltr : is_rtl ol = false.

Lemma bp_run_le_avail : forall maxn p, run_len e k c ol maxn p <= Z.of_nat maxn.
Proof.
  induction maxn as [|m IH]; intros p; cbn [run_len]; [lia|].
  destruct ((0 <? avail e ol p) && char_test e k c (next_char e ol p)); [|lia].
  specialize (IH (p + dir ol)). lia.
Qed.

Theorem bp_H3 : forall o body bumpq,
  root = NCapture o 0 (-1) body ->
  bp_shape_g k c ol body \/ bp_shape_a k c ol body ->
  (forall p, p <= bumpq p <= p + bp_run e k c ol p) ->
  sc_H3 st (tlen e) false (bp_exec bumpq).
Proof.
  intros o body bumpq Hroot Hshape Hq p q Hp Hex.
  unfold sc_in_text, sc_ord in *.
  assert (Hrun : bp_run e k c ol p <= tlen e - p).
  { unfold bp_run. pose proof (bp_run_le_avail (Z.to_nat (avail e ol p)) p) as H.
    unfold avail in *. rewrite Hltr in *. lia. }
  unfold bp_exec in Hex.
  destruct (attempt e fuel root p) as [[s|]| | |] eqn:Ea; inversion Hex; subst q.
  - specialize (Hq p). repeat split; try lia.
    intros x Hx1 Hx2. unfold sc_fails, bp_exec.
    assert (Hc : x = p \/ p < x) by lia. destruct Hc as [->|Hc].
    + rewrite Ea. reflexivity.
    + subst root. rewrite (bp_bump_sound e k c ol Hltr fuel o body p Hshape Ea x); [reflexivity | lia].
  - repeat split; try lia. intros x Hx1 Hx2. assert (x = p) by lia. subst x.
    unfold sc_fails, bp_exec. rewrite Ea. reflexivity.
  - repeat split; try lia. intros x Hx1 Hx2. assert (x = p) by lia. subst x.
    unfold sc_fails, bp_exec. rewrite Ea. reflexivity.
  - repeat split; try lia. intros x Hx1 Hx2. assert (x = p) by lia. subst x.
    unfold sc_fails, bp_exec. rewrite Ea. reflexivity.
Qed.

End SpecLink.
