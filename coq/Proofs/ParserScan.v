(* Proofs about Model/Parser.v, part 1: the scanners never fault, never run out of fuel (given
   fuel above the length of what is left of the pattern) and only move right - whether they succeed
   or return an error (the capture pre-scan goes on from the cursor an error leaves). *)
From Verif Require Import Base.Prelude Gen.ParseLitGen Model.Escape Model.ParseLit Model.GroupMap Model.CharClass
  Model.Parser Proofs.ParseLitProofs.

(* ---------------------------------------------------------------- the parse monad *)
Definition psafe {A} (r : pr A) : Prop := match r with PC _ | PF => False | _ => True end.

(* [padv r n]: r is not a fault, and the cursor it leaves (with its result or with its error) has at
   most n runes to the right *)
Definition padv {A} (r : pr (A * list Z)) (n : nat) : Prop :=
  match r with
  | POk (_, q) => (length q <= n)%nat
  | PE _ q => (length q <= n)%nat
  | PO => True
  | PC _ | PF => False
  end.
Definition padv0 (r : pr (list Z)) (n : nat) : Prop :=
  match r with
  | POk q => (length q <= n)%nat
  | PE _ q => (length q <= n)%nat
  | PO => True
  | PC _ | PF => False
  end.

Lemma padv_weaken {A} (r : pr (A * list Z)) n m : padv r n -> (n <= m)%nat -> padv r m.
Proof. destruct r as [[a q]|c q| | |]; cbn; intros; try lia; auto. Qed.
Lemma padv0_weaken (r : pr (list Z)) n m : padv0 r n -> (n <= m)%nat -> padv0 r m.
Proof. destruct r as [q|c q| | |]; cbn; intros; try lia; auto. Qed.
Lemma padv_safe {A} (r : pr (A * list Z)) n : padv r n -> psafe r.
Proof. destruct r as [[a q]|c q| | |]; cbn; auto. Qed.

Lemma pbind_safe {A B} (r : pr A) (f : A -> pr B) :
  psafe r -> (forall a, r = POk a -> psafe (f a)) -> psafe (pbind r f).
Proof. destruct r; cbn; intros H1 H2; auto. Qed.

(* sequencing two scanners *)
Lemma pbind_padv {A B} (r : pr (A * list Z)) (f : A * list Z -> pr (B * list Z)) n :
  padv r n -> (forall a q, r = POk (a, q) -> (length q <= n)%nat -> padv (f (a, q)) n) -> padv (pbind r f) n.
Proof. destruct r as [[a q]|c q| | |]; cbn; intros H1 H2; auto. Qed.
Lemma pbind_padv0 {B} (r : pr (list Z)) (f : list Z -> pr (B * list Z)) n :
  padv0 r n -> (forall q, r = POk q -> (length q <= n)%nat -> padv (f q) n) -> padv (pbind r f) n.
Proof. destruct r as [q|c q| | |]; cbn; intros H1 H2; auto. Qed.

Lemma of_res_padv {A} (r : res (A * list Z)) (q : list Z) n :
  adv r n -> (length q <= n)%nat -> padv (of_res r q) n.
Proof.
  intros [F L] Hq. destruct r as [[a rest]|c|w|]; cbn in *; try contradiction.
  - exact (L a rest eq_refl).
  - exact Hq.
Qed.

(* ---------------------------------------------------------------- scanBlank *)
Lemma blank_adv x p : forall md, padv0 (blank x md p) (length p).
Proof.
  induction p as [|c p IH]; intros md; cbn [blank length].
  - destruct md; cbn; lia.
  - destruct md.
    + destruct (x && is_space c); [eapply padv0_weaken; [apply IH|lia]|].
      destruct (x && (c =? 35)); [eapply padv0_weaken; [apply IH|lia]|].
      destruct ((c =? 40) && starts_qhash p); [eapply padv0_weaken; [apply IH|lia]|].
      cbn. lia.
    + destruct (c =? 10).
      * destruct (is_space 10); [eapply padv0_weaken; [apply IH|lia] | cbn; lia].
      * eapply padv0_weaken; [apply IH|lia].
    + destruct (c =? 41); eapply padv0_weaken; try apply IH; lia.
Qed.

Lemma scan_blank_full_adv o p : padv0 (scan_blank_full o p) (length p).
Proof. apply blank_adv. Qed.

(* a blank in front is consumed *)
Lemma blank_strict x c p :
  (x && is_space c = true) \/ (x && (c =? 35) = true) \/ ((c =? 40) && starts_qhash p = true) ->
  padv0 (blank x BNorm (c :: p)) (length p).
Proof.
  intros H. cbn [blank].
  destruct (x && is_space c) eqn:E1; [apply blank_adv|].
  destruct (x && (c =? 35)) eqn:E2; [apply blank_adv|].
  destruct ((c =? 40) && starts_qhash p) eqn:E3; [apply blank_adv|].
  destruct H as [H|[H|H]]; discriminate.
Qed.

(* scanBlank stops in front of a rune it would not skip *)
Lemma blank_head x p : forall md c t, blank x md p = POk (c :: t) ->
  x && is_space c = false /\ x && (c =? 35) = false.
Proof.
  induction p as [|a p IH]; intros md c t H; cbn [blank] in H.
  - destruct md; discriminate.
  - destruct md.
    + destruct (x && is_space a) eqn:E1; [exact (IH _ _ _ H)|].
      destruct (x && (a =? 35)) eqn:E2; [exact (IH _ _ _ H)|].
      destruct ((a =? 40) && starts_qhash p); [exact (IH _ _ _ H)|].
      inversion H; subst. auto.
    + destruct (a =? 10) eqn:E10.
      * destruct (is_space 10) eqn:Es; [exact (IH _ _ _ H)|].
        inversion H; subst. assert (c = 10) by lia. subst c. rewrite Es.
        split; [apply andb_false_r | destruct x; reflexivity].
      * exact (IH _ _ _ H).
    + destruct (a =? 41); exact (IH _ _ _ H).
Qed.

(* ---------------------------------------------------------------- scanOptions *)
Lemma ochars_of_len p : (length (snd (ochars_of p)) <= length p)%nat.
Proof.
  induction p as [|c p IH]; cbn [ochars_of length snd]; [lia|].
  destruct (c =? 45); [destruct (ochars_of p); cbn [snd] in *; lia|].
  destruct (c =? 43); [destruct (ochars_of p); cbn [snd] in *; lia|].
  destruct ((option_from_code c =? 0) || is_only_top_option (option_from_code c)); [cbn; lia|].
  destruct (ochars_of p); cbn [snd] in *; lia.
Qed.
Lemma scan_options_text_len o p o' q : scan_options_text o p = (o', q) -> (length q <= length p)%nat.
Proof.
  unfold scan_options_text. pose proof (ochars_of_len p) as L.
  destruct (ochars_of p) as [cs r]. intros H. inversion H; subst. exact L.
Qed.

(* ---------------------------------------------------------------- scanCharEscape, scanDecimal *)
Lemma hexbrace_err_rest_len p : forall i, (length (hexbrace_err_rest i p) <= length p)%nat.
Proof.
  induction p as [|c p IH]; intros i; cbn [hexbrace_err_rest length]; [lia|].
  destruct (c =? 125); [lia|]. destruct (hex_digit c <? 0); [lia|].
  destruct (1114111 <? i * 16 + hex_digit c); [lia|]. specialize (IH (i * 16 + hex_digit c)). lia.
Qed.
Lemma hex_err_rest_len c : forall p, (length (hex_err_rest c p) <= length p)%nat.
Proof.
  induction c as [|c IH]; intros p; cbn [hex_err_rest]; [lia|].
  destruct p as [|a p]; cbn [length]; [lia|]. destruct (hex_digit a <? 0); [lia|]. specialize (IH p). lia.
Qed.
Lemma scan_hex_err_rest_len c p : (length (scan_hex_err_rest c p) <= length p)%nat.
Proof. unfold scan_hex_err_rest. destruct (Nat.leb c (length p)); [apply hex_err_rest_len | lia]. Qed.

Lemma esc_err_rest_len o p : (length (esc_err_rest o p) <= length p)%nat.
Proof.
  destruct p as [|ch p']; cbn [esc_err_rest length]; [lia|].
  destruct (ch =? 120).
  { destruct p' as [|c2 p'']; cbn [length]; [lia|].
    destruct (c2 =? 123).
    - pose proof (hexbrace_err_rest_len p'' 0). lia.
    - pose proof (scan_hex_err_rest_len pl_x_digits (c2 :: p'')). cbn [length] in *. lia. }
  destruct (ch =? 117).
  { destruct p' as [|c2 p'']; cbn [length]; [lia|].
    destruct ((c2 =? 123) && useE o && useU o).
    - pose proof (hexbrace_err_rest_len p'' 0). lia.
    - pose proof (scan_hex_err_rest_len pl_u_digits (c2 :: p'')). cbn [length] in *. lia. }
  destruct (ch =? 99); [destruct p'; cbn [length]; lia | lia].
Qed.

Lemma dec_err_rest_len p : forall i, (length (dec_err_rest i p) <= length p)%nat.
Proof.
  induction p as [|c p IH]; intros i; cbn [dec_err_rest length]; [lia|].
  destruct ((c - 48 <? 0) || (9 <? c - 48)); [cbn [length]; lia|].
  destruct ((214748364 <? i) || ((i =? 214748364) && (7 <? c - 48))); [lia|].
  specialize (IH (i * 10 + (c - 48))). lia.
Qed.

Lemma decimal_adv p : padv (decimal p) (length p).
Proof. apply of_res_padv; [apply scan_decimal_adv | apply dec_err_rest_len]. Qed.

Section Scan.
Variable is_word_char : Z -> bool.
Variable to_lower : Z -> Z.
Variable simple_fold : Z -> Z.
Variable participates : Z -> bool.
Variable cat_in : Z -> Z -> bool.
Variable cat_name : list Z -> Z.

Local Notation char_escape := (char_escape is_word_char).
Local Notation parse_property := (parse_property is_word_char cat_name).
Local Notation cs_loop := (cs_loop is_word_char cat_name).
Local Notation cs_scan := (cs_scan is_word_char cat_name).

Lemma char_escape_adv o p : p <> [] -> padv (char_escape o p) (length p).
Proof.
  intros Hne. apply of_res_padv; [apply (pl_scan_char_escape_adv is_word_char to_lower is_word_char is_word_char is_word_char to_lower); exact Hne | apply esc_err_rest_len].
Qed.

(* ---------------------------------------------------------------- parseProperty *)
Lemma prop_name_len p : (length (snd (prop_name is_word_char p)) <= length p)%nat.
Proof.
  induction p as [|c p IH]; cbn [prop_name length snd]; [lia|].
  destruct (is_word_char c || (c =? 45) || (c =? 61)); [|cbn; lia].
  destruct (prop_name is_word_char p); cbn [snd] in *; lia.
Qed.

Lemma prop_lookup_adv nm q n : (length q <= n)%nat -> padv (prop_lookup cat_name nm q) n.
Proof.
  intros H. unfold prop_lookup. destruct (0 <=? cat_name nm); [exact H|].
  destruct (cat_name nm =? -1); [exact H | exact I].
Qed.

Lemma parse_property_adv o p : padv (parse_property o p) (length p).
Proof.
  unfold Parser.parse_property. destruct p as [|ch p1]; [cbn; lia|].
  destruct (negb (ch =? 123) && (negb (useE o) || negb (useU o))); [apply prop_lookup_adv; cbn [length]; lia|].
  destruct (negb (longer (ch :: p1) 2)); [cbn; lia|].
  destruct (negb (ch =? 123)); [cbn; lia|].
  pose proof (prop_name_len p1) as L. destruct (prop_name is_word_char p1) as [nm q]. cbn [snd] in L.
  destruct q as [|c q']; [cbn; lia|].
  cbn [length] in *. destruct (c =? 125); [apply prop_lookup_adv; lia | cbn; lia].
Qed.

(* ---------------------------------------------------------------- scanCharSet *)
Lemma tl_len {A} (q : list A) : (length (tl q) <= length q)%nat.
Proof. destruct q; cbn; lia. Qed.
Lemma skipn_len {A} k (q : list A) : (length (skipn k q) <= length q)%nat.
Proof. rewrite skipn_length. lia. Qed.

Lemma caret_len p : (length (snd (caret p)) <= length p)%nat.
Proof. unfold caret. destruct (hd_is p 94); cbn [snd]; [apply tl_len | lia]. Qed.

Lemma scan_word_len' p : (length (snd (scan_word is_word_char p)) <= length p)%nat.
Proof.
  destruct (scan_word is_word_char p) as [w r] eqn:E. cbn [snd].
  eapply (scan_word_len is_word_char to_lower is_word_char is_word_char is_word_char to_lower). exact E.
Qed.

(* what the class loop needs of its recursive call: on every pattern of at most n runes it moves right
   and does not fault *)
Definition rec_ok (rec : cs_rec) (n : nat) : Prop :=
  forall so ng q cp ir fi its sb, (length q <= n)%nat -> padv (rec so ng q cp ir fi its sb) (length q).

Section ClassLoopProofs.
Variable rec : cs_rec.
Variable n : nat.
Hypothesis Hrec : rec_ok rec n.

Lemma cs_next_adv so ng q cp ir its sb m :
  (length q <= n)%nat -> (length q <= m)%nat -> padv (cs_next rec so ng q cp ir its sb) m.
Proof. intros H1 H2. eapply padv_weaken; [apply Hrec; exact H1 | exact H2]. Qed.

Lemma cs_nested_adv so' q m :
  (length q <= n)%nat -> (length q <= m)%nat -> padv (cs_nested rec so' q) m.
Proof.
  intros H1 H2. unfold cs_nested. pose proof (caret_len q) as L. destruct (caret q) as [ng2 q2]. cbn [snd] in L.
  eapply padv_weaken; [apply Hrec; lia | lia].
Qed.

Lemma cs_after_sub_adv so ng chprev sb q3 its m :
  (length q3 <= n)%nat -> (length q3 <= m)%nat -> padv (cs_after_sub rec so ng chprev (sb, q3) its) m.
Proof.
  intros H1 H2. unfold cs_after_sub.
  destruct (negb (match q3 with [] => true | _ => false end) && negb (hd_is q3 93)); [exact H2|].
  apply cs_next_adv; assumption.
Qed.

Lemma cs_generic_adv so ng chprev inrange first sub ch tr q its m :
  (length q <= n)%nat -> (length q <= m)%nat ->
  padv (cs_generic rec so ng chprev inrange first sub ch tr q its) m.
Proof.
  intros H1 H2. unfold cs_generic.
  destruct inrange.
  - destruct so.
    { destruct ((ch =? 91) && negb tr && negb first); [|apply cs_next_adv; assumption].
      pose proof (cs_nested_adv true q (length q) H1 (le_n _)) as S.
      destruct (cs_nested rec true q) as [[sb q3]|e q3| | |]; cbn in S; try contradiction; try exact I;
        apply cs_next_adv; lia. }
    destruct ((ch =? 91) && negb tr && negb first).
    + pose proof (cs_nested_adv false q (length q) H1 (le_n _)) as S.
      destruct (cs_nested rec false q) as [[sb q3]|e q3| | |]; cbn [pbind padv] in *; try contradiction; [|lia|exact I].
      apply cs_after_sub_adv; lia.
    + destruct (ch <? chprev); [exact H2 | apply cs_next_adv; assumption].
  - destruct (longer q 1 && hd_is q 45 && negb (nth_is 1 q 93)).
    { pose proof (tl_len q). apply cs_next_adv; lia. }
    destruct (longer q 0 && (ch =? 45) && negb tr && hd_is q 91 && negb first); [|apply cs_next_adv; assumption].
    pose proof (tl_len q) as T.
    destruct so.
    + pose proof (cs_nested_adv true (tl q) (length (tl q)) ltac:(lia) (le_n _)) as S.
      destruct (cs_nested rec true (tl q)) as [[sb q3]|e q3| | |]; cbn in S; try contradiction; try exact I;
        apply cs_next_adv; lia.
    + pose proof (cs_nested_adv false (tl q) (length (tl q)) ltac:(lia) (le_n _)) as S.
      destruct (cs_nested rec false (tl q)) as [[sb q3]|e q3| | |]; cbn [pbind padv] in *; try contradiction; [|lia|exact I].
      apply cs_after_sub_adv; lia.
Qed.

Lemma cs_shorthand_adv so o ng chprev inrange sub it q its m :
  (length q <= n)%nat -> (length q <= m)%nat ->
  padv (cs_shorthand rec so o ng chprev inrange sub it q its) m.
Proof.
  intros H1 H2. unfold cs_shorthand. destruct so; [apply cs_next_adv; assumption|].
  destruct inrange; [|apply cs_next_adv; assumption].
  destruct (negb (useE o)); [exact H2 | apply cs_next_adv; assumption].
Qed.

Lemma cs_prop_adv so o ng chprev inrange sub c2 p2 its m :
  (length p2 <= n)%nat -> (length p2 <= m)%nat ->
  padv (cs_prop is_word_char cat_name rec so o ng chprev inrange sub c2 p2 its) m.
Proof.
  intros H1 H2. unfold cs_prop.
  destruct (useE o && negb (useU o) && (c2 =? 80) && inrange); [exact H2|].
  destruct (useE o && negb (useU o) && (c2 =? 112)).
  - destruct inrange.
    + destruct so; [apply cs_next_adv; assumption|].
      destruct (112 <? chprev); [exact H2 | apply cs_next_adv; assumption].
    + pose proof (skipn_len 2 p2) as SK.
      destruct (longer p2 1 && hd_is p2 45 && negb (nth_is 1 p2 93)); [|apply cs_next_adv; assumption].
      destruct so; [apply cs_next_adv; lia|].
      destruct (nth 1 p2 0 <? 112); [unfold padv; cbn [length] in *; lia | apply cs_next_adv; lia].
  - pose proof (parse_property_adv o p2) as PP.
    destruct (parse_property o p2) as [[id q]|e q| | |]; cbn [pbind padv] in *; try contradiction; [|lia|exact I].
    destruct so; [apply cs_next_adv; lia|].
    destruct inrange; [unfold padv; cbn [length] in *; lia | apply cs_next_adv; lia].
Qed.

Lemma cs_posix_adv so o ng chprev inrange first sub p1 its m :
  (length p1 <= n)%nat -> (length p1 <= m)%nat ->
  padv (cs_posix is_word_char rec so o ng chprev inrange first sub p1 (tl p1) its) m.
Proof.
  intros H1 H2. unfold cs_posix.
  pose proof (tl_len p1) as T1.
  set (P3 := if longer (tl p1) 1 && hd_is (tl p1) 94 then (true, tl (tl p1)) else (false, tl p1)).
  assert (L3 : (length (snd P3) <= length (tl p1))%nat).
  { subst P3. destruct (longer (tl p1) 1 && hd_is (tl p1) 94); cbn [snd]; [apply tl_len | lia]. }
  destruct P3 as [ngp p3]. cbn [snd] in L3.
  pose proof (scan_word_len' p3) as L4. destruct (scan_word is_word_char p3) as [nm p4]. cbn [snd] in L4.
  pose proof (skipn_len 2 p4) as SK.
  destruct (longer p4 1 && hd_is p4 58 && nth_is 1 p4 93).
  - destruct (useRE2 o); [|apply cs_generic_adv; lia].
    destruct (negb so); cbn [pbind]; [|apply cs_next_adv; lia].
    destruct (posix_index nm); cbn [pbind]; [apply cs_next_adv; lia | unfold padv; cbn [length] in *; lia].
  - apply cs_generic_adv; lia.
Qed.

Lemma cs_body_adv so o ng chprev inrange first sub p its :
  (length p <= S n)%nat ->
  padv (cs_body is_word_char cat_name rec so o ng chprev inrange first sub p its) (length p).
Proof.
  intros Hp. unfold cs_body. destruct p as [|ch p1]; [unfold padv; cbn [length] in *; lia|].
  cbn [length] in *.
  destruct (ch =? 93).
  { destruct (negb first || useE o); [unfold padv; cbn [length] in *; lia | apply cs_generic_adv; lia]. }
  destruct (ch =? 92).
  { destruct p1 as [|c2 p2]; [apply cs_generic_adv; cbn [length]; lia|].
    cbn [length] in *.
    destruct ((c2 =? 68) || (c2 =? 100)); [apply cs_shorthand_adv; lia|].
    destruct ((c2 =? 83) || (c2 =? 115)); [apply cs_shorthand_adv; lia|].
    destruct ((c2 =? 87) || (c2 =? 119)); [apply cs_shorthand_adv; lia|].
    destruct ((c2 =? 112) || (c2 =? 80)); [apply cs_prop_adv; lia|].
    destruct (c2 =? 45); [apply cs_next_adv; lia|].
    pose proof (char_escape_adv o (c2 :: p2) ltac:(discriminate)) as CE.
    destruct (char_escape o (c2 :: p2)) as [[c q]|e q| | |]; cbn [pbind padv length] in *; try contradiction; [|lia|exact I].
    apply cs_generic_adv; lia. }
  destruct ((ch =? 91) && hd_is p1 58 && negb inrange); [apply cs_posix_adv; lia|].
  apply cs_generic_adv; lia.
Qed.
End ClassLoopProofs.

Lemma cs_loop_adv fuel : forall so o ng p chprev inrange first items sub,
  (length p < fuel)%nat -> padv (cs_loop fuel so o ng p chprev inrange first items sub) (length p).
Proof.
  induction fuel as [|f IH]; intros so o ng p chprev inrange first items sub Hf; [lia|].
  cbn [Parser.cs_loop].
  destruct f as [|f'].
  - destruct p; [cbn; lia | cbn [length] in Hf; lia].
  - apply (cs_body_adv (fun so' ng' q cp ir fi its sb => cs_loop (S f') so' o ng' q cp ir fi its sb) f').
    + intros so' ng' q cp ir fi its sb Hq. apply IH. lia.
    + lia.
Qed.

Lemma cs_scan_adv fuel so o p : (length p < fuel)%nat -> padv (cs_scan fuel so o p) (length p).
Proof.
  intros Hf. unfold Parser.cs_scan. pose proof (caret_len p) as L. destruct (caret p) as [ng p0]. cbn [snd] in L.
  eapply padv_weaken; [apply cs_loop_adv; lia | exact L].
Qed.

End Scan.
