(* C02 — the string entry points equal the rune entry points.

   Part A: what newStringPrefixFilter guarantees about the filter it builds (enf_ok) and how the
           published compile-time facts of the FindOptimizations record become the fact of that
           filter (enp_code_fact -> enf_fact).
   Part B: the glue of regexp.go around an abstract engine [search]: with a sound filter
           (EntryFilter.enf_filter_sound) and an engine that does not depend on where the scan
           started other than by skipping earlier positions (no \G: enp_start_indep), every string
           entry point returns what the rune entry point returns at the corresponding rune start. *)
From Verif Require Import Base.Prelude Base.Utf8 Gen.CodeGen Model.Offsets Model.Entry
  Proofs.Utf8Proofs Proofs.EntryBase Proofs.EntryFilter.
From Coq Require Import ZifyBool.
Ltac Zify.zify_post_hook ::= Z.div_mod_to_equations.

(* ================================================================================================
   Part A: the constructor
   ================================================================================================ *)

(* FixedDistanceSets[0] of a LeadingSet pattern, for a set that is not negated: the rune at the set's
   distance lies in Range when Range is published, else is one of Chars *)
Definition enp_set_fact (set : en_fdset) (r : list Z) (q : nat) : Prop :=
  exists c, nth_error r (q + Z.to_nat (fs_distance set)) = Some c /\
    match fs_range set with
    | Some (first, last) => first <= c <= last
    | None => In c (fs_chars set)
    end.

(* what the FindOptimizations record claims about a match starting at rune position q of r,
   mode by mode (the predicates of C04) *)
Definition enp_code_fact (o : en_opts) (r : list Z) (q : nat) : Prop :=
  enf_min_fact (fo_min o) r q /\
  (fo_mode o = MODE_LeadingString_LeftToRight -> enf_lit_fact (fo_prefix o) r q) /\
  (fo_mode o = MODE_LeadingString_OrdinalIgnoreCase_LeftToRight -> enf_ci_fact (fo_prefix o) r q) /\
  (fo_mode o = MODE_LeadingStrings_LeftToRight -> exists P, In P (fo_prefixes o) /\ enf_lit_fact P r q) /\
  (fo_mode o = MODE_LeadingStrings_OrdinalIgnoreCase_LeftToRight ->
     exists P, In P (fo_prefixes o) /\ enf_ci_fact P r q) /\
  (fo_mode o = MODE_LeadingSet_LeftToRight ->
     forall set rest, fo_sets o = set :: rest -> fs_negated set = false -> enp_set_fact set r q) /\
  (fo_mode o = MODE_FixedDistanceChar_LeftToRight ->
     nth_error r (q + Z.to_nat (fo_lit_dist o)) = Some (fo_lit_c o)) /\
  (fo_mode o = MODE_FixedDistanceString_LeftToRight ->
     enf_lit_fact (fo_lit_s o) r (q + Z.to_nat (fo_lit_dist o))) /\
  (fo_mode o = MODE_LiteralAfterLoop_LeftToRight ->
     forall l, fo_lal o = Some l -> exists j, (q <= j)%nat /\ enf_lal_at l r j).

(* the switch of newStringPrefixFilter (stringprefixfilter.go:44-70) *)
Definition enp_select (o : en_opts) : option en_filter :=
  let minreq := fo_min o in
  let m := fo_mode o in
  if m =? MODE_LeadingString_LeftToRight then en_index_prefix_filter (fo_prefix o) false minreq
  else if m =? MODE_LeadingString_OrdinalIgnoreCase_LeftToRight then en_index_prefix_filter (fo_prefix o) true minreq
  else if m =? MODE_LeadingStrings_LeftToRight then en_index_prefixes_filter (fo_prefixes o) false minreq
  else if m =? MODE_LeadingStrings_OrdinalIgnoreCase_LeftToRight then en_index_prefixes_filter (fo_prefixes o) true minreq
  else if m =? MODE_LeadingSet_LeftToRight then
    match fo_sets o with
    | [] => None
    | set :: _ =>
      match fs_range set with
      | None => if (zlen (fs_chars set) =? 0) || (5 <? zlen (fs_chars set)) then None else en_set_filter set minreq
      | Some _ => en_set_filter set minreq
      end
    end
  else if m =? MODE_FixedDistanceChar_LeftToRight then en_char_filter (fo_lit_c o) (fo_lit_dist o) minreq
  else if m =? MODE_FixedDistanceString_LeftToRight then en_string_filter (fo_lit_s o) (fo_lit_dist o) minreq
  else if m =? MODE_LiteralAfterLoop_LeftToRight then en_lit_loop_filter (fo_lal o) minreq
  else None.

(* the constructor builds a filter only for a left-to-right program without a Start (\G)
   instruction whose literals contain no U+FFFD, and then by the switch *)
Lemma enp_new_filter_inv c f :
  en_new_filter c = Ok (Some f) ->
  exists o, cd_opts c = Some o /\ cd_rtl c = false /\
            en_has_opcode (S (length (cd_codes c))) (cd_codes c) G_Start = Ok false /\
            en_literals_contain o rune_error = false /\ enp_select o = Some f.
Proof.
  unfold en_new_filter. destruct (cd_opts c) as [o|] eqn:Eo; [|discriminate].
  destruct (cd_rtl c) eqn:Er; [discriminate|].
  destruct (en_has_opcode (S (length (cd_codes c))) (cd_codes c) G_Start) as [hs| | |] eqn:Eh; cbn [bind]; try discriminate.
  destruct hs; [discriminate|].
  destruct (en_literals_contain o rune_error) eqn:Eg; [discriminate|].
  intros H. exists o. split; [reflexivity|]. split; [reflexivity|]. split; [reflexivity|]. split; [exact Eg|].
  unfold enp_select. cbv zeta in *.
  repeat match type of H with
         | (if ?c then _ else _) = _ => destruct c
         end; try discriminate H; try (injection H as H; exact H).
  destruct (fo_sets o) as [|set ?]; [discriminate H|].
  destruct (fs_range set); [injection H as H; exact H|].
  destruct ((zlen (fs_chars set) =? 0) || (5 <? zlen (fs_chars set))); [discriminate H|injection H as H; exact H].
Qed.

Lemma enp_new_filter_rtl c flt : en_new_filter c = Ok flt -> cd_rtl c = true -> flt = None.
Proof.
  unfold en_new_filter. intros H Hr. destruct (cd_opts c); [|congruence]. rewrite Hr in H. congruence.
Qed.

(* ---- the guard ---- *)

Record enp_guard (o : en_opts) : Prop := {
  gd_prefix : enb_no_fffd (fo_prefix o);
  gd_lit_s : enb_no_fffd (fo_lit_s o);
  gd_lit_c : fo_lit_c o <> rune_error;
  gd_prefixes : Forall enb_no_fffd (fo_prefixes o);
  gd_lal : forall l, fo_lal o = Some l -> enb_no_fffd (la_string l)
}.

Lemma enp_guard_of o : en_literals_contain o rune_error = false -> enp_guard o.
Proof.
  unfold en_literals_contain. intros H.
  repeat (apply orb_false_iff in H; let H' := fresh "G" in destruct H as [H H']).
  constructor.
  - exact H.
  - exact G3.
  - lia.
  - apply Forall_forall. intros P Hin. unfold enb_no_fffd.
    destruct (en_contains_rune P rune_error) eqn:E; [|reflexivity].
    assert (X : existsb (fun p => en_contains_rune p rune_error) (fo_prefixes o) = true).
    { apply existsb_exists. exists P. split; assumption. }
    congruence.
  - intros l Hl. rewrite Hl in G. repeat (apply orb_false_iff in G; let H' := fresh "K" in destruct G as [G H']).
    exact G.
Qed.

Lemma enp_encode_bytes_nonneg p : valid_rune p = true -> Forall (fun x => 0 <= x) (encode p).
Proof.
  intros Hv. unfold valid_rune, is_surrogate, max_rune in Hv. unfold encode, is_surrogate, max_rune.
  repeat break_if; try lia; repeat constructor; lia.
Qed.

(* bytes all below 128 + no U+FFFD (hence valid UTF-8, hence real bytes): an ASCII string *)
Lemma enp_ascii P : en_is_ascii P = true -> enb_no_fffd P -> enf_ascii P.
Proof.
  intros HA HN. destruct (enb_no_fffd_good P HN) as [HP Hg].
  assert (Hnn : Forall (fun x => 0 <= x) P).
  { rewrite HP. generalize (runes_of P) Hg. clear. intros ps Hg. unfold encode_string.
    induction Hg as [|p ps [Hv _] _ IH]; [constructor|].
    cbn [flat_map]. apply Forall_app. split; [apply enp_encode_bytes_nonneg; exact Hv|exact IH]. }
  unfold enf_ascii, en_is_ascii in *. rewrite forallb_forall in HA. rewrite Forall_forall in *.
  intros x Hin. specialize (HA x Hin). specialize (Hnn x Hin). lia.
Qed.

(* ---- each constructor function ---- *)

Lemma enp_select_ok o f :
  enp_guard o -> enp_select o = Some f ->
  enf_ok f /\ forall r q, enp_code_fact o r q -> enf_fact f r q.
Proof.
  intros G. unfold enp_select. cbv zeta.
  destruct (fo_mode o =? MODE_LeadingString_LeftToRight) eqn:E1.
  { unfold en_index_prefix_filter. destruct (fo_prefix o) eqn:EP; [discriminate|]. rewrite <- EP. cbn [andb].
    intros H. injection H as <-. split; [exact (gd_prefix o G)|].
    intros r q (HM & H11 & _). split; [exact HM|]. apply H11. lia. }
  destruct (fo_mode o =? MODE_LeadingString_OrdinalIgnoreCase_LeftToRight) eqn:E2.
  { unfold en_index_prefix_filter. destruct (fo_prefix o) eqn:EP; [discriminate|]. rewrite <- EP. cbn [andb].
    destruct (en_is_ascii (fo_prefix o)) eqn:EA; cbn [negb]; [|discriminate].
    intros H. injection H as <-. split; [exact (enp_ascii _ EA (gd_prefix o G))|].
    intros r q (HM & _ & H13 & _). split; [exact HM|]. apply H13. lia. }
  assert (Hprefixes : forall ci, (forall r q, enp_code_fact o r q -> exists P, In P (fo_prefixes o) /\ enf_str_fact ci P r q) ->
            en_index_prefixes_filter (fo_prefixes o) ci (fo_min o) = Some f ->
            enf_ok f /\ forall r q, enp_code_fact o r q -> enf_fact f r q).
  { intros ci Hfact. unfold en_index_prefixes_filter.
    destruct (fo_prefixes o) as [|P0 Ps0] eqn:EP; [discriminate|]. rewrite <- EP in *.
    pose proof (gd_prefixes o G) as GP.
    destruct (ci && negb (forallb en_is_ascii (fo_prefixes o))) eqn:EA; [discriminate|].
    assert (Hstr : Forall (enf_str_ok ci) (fo_prefixes o)).
    { rewrite Forall_forall in *. intros P Hin. unfold enf_str_ok. destruct ci; [|exact (GP P Hin)].
      cbn [andb] in EA. apply Bool.negb_false_iff in EA. rewrite forallb_forall in EA.
      exact (enp_ascii P (EA P Hin) (GP P Hin)). }
    unfold en_compile_ascii_set.
    destruct ci.
    - intros H. injection H as <-. split; [exact Hstr|].
      intros r q HF. split; [exact (proj1 HF)|exact (Hfact r q HF)].
    - destruct (negb (forallb (fun p => negb (zlen p =? 0) && en_is_ascii p) (fo_prefixes o))) eqn:EN.
      { intros H. injection H as <-. split; [exact Hstr|].
        intros r q HF. split; [exact (proj1 HF)|exact (Hfact r q HF)]. }
      destruct (negb (en_has_shared_first (fo_prefixes o))).
      { intros H. injection H as <-. split; [exact Hstr|].
        intros r q HF. split; [exact (proj1 HF)|exact (Hfact r q HF)]. }
      destruct (en_first_chars (fo_prefixes o)).
      { intros H. injection H as <-. split; [exact Hstr|].
        intros r q HF. split; [exact (proj1 HF)|exact (Hfact r q HF)]. }
      intros H. injection H as <-. split.
      + apply Bool.negb_false_iff in EN. rewrite forallb_forall in EN. cbn [enf_ok].
        rewrite Forall_forall in *. intros P Hin. specialize (EN P Hin). apply andb_true_iff in EN. destruct EN as [EN1 EN2].
        split; [exact (enp_ascii P EN2 (GP P Hin))|]. intros ->. cbn in EN1. discriminate EN1.
      + intros r q HF. split; [exact (proj1 HF)|exact (Hfact r q HF)]. }
  destruct (fo_mode o =? MODE_LeadingStrings_LeftToRight) eqn:E3.
  { apply (Hprefixes false). intros r q (_ & _ & _ & H14 & _). apply H14. lia. }
  destruct (fo_mode o =? MODE_LeadingStrings_OrdinalIgnoreCase_LeftToRight) eqn:E4.
  { apply (Hprefixes true). intros r q (_ & _ & _ & _ & H15 & _). apply H15. lia. }
  clear Hprefixes.
  destruct (fo_mode o =? MODE_LeadingSet_LeftToRight) eqn:E5.
  { destruct (fo_sets o) as [|set rest] eqn:ES; [discriminate|].
    assert (Hset : en_set_filter set (fo_min o) = Some f ->
              enf_ok f /\ forall r q, enp_code_fact o r q -> enf_fact f r q).
    { unfold en_set_filter, en_new_scanner.
      destruct (fs_negated set) eqn:EN; cbn [orb]; [discriminate|].
      destruct (fs_distance set <? 0) eqn:ED; [discriminate|].
      destruct (fs_range set) as [[first last]|] eqn:ER.
      - destruct ((first <? 0) || (127 <? last)) eqn:EB; [discriminate|].
        intros H. injection H as <-. split; [cbn; lia|].
        intros r q (HM & _ & _ & _ & _ & H16 & _). split; [exact HM|].
        destruct (H16 ltac:(lia) set rest ES EN) as [c [Hn Hc]]. rewrite ER in Hc.
        exists c. split; [exact Hn|]. unfold enf_scanner_member. cbn. exact Hc.
      - destruct (fs_chars set) as [|c0 cs] eqn:EC; [discriminate|]. rewrite <- EC.
        destruct (forallb (fun ch => negb ((ch <? 0) || (127 <? ch))) (fs_chars set)) eqn:EF; [|discriminate].
        intros H. injection H as <-. split.
        + cbn. split; [lia|]. split; [|rewrite EC; discriminate].
          unfold enf_ascii. rewrite forallb_forall in EF. apply Forall_forall. intros x Hin. specialize (EF x Hin). lia.
        + intros r q (HM & _ & _ & _ & _ & H16 & _). split; [exact HM|].
          destruct (H16 ltac:(lia) set rest ES EN) as [c [Hn Hc]]. rewrite ER in Hc.
          exists c. split; [exact Hn|]. unfold enf_scanner_member. cbn. exact Hc. }
    destruct (fs_range set); [exact Hset|].
    destruct ((zlen (fs_chars set) =? 0) || (5 <? zlen (fs_chars set))); [discriminate|exact Hset]. }
  destruct (fo_mode o =? MODE_FixedDistanceChar_LeftToRight) eqn:E6.
  { unfold en_char_filter. destruct (fo_lit_dist o <? 0) eqn:ED; [discriminate|].
    intros H. injection H as <-. split; [cbn; split; [lia|exact (gd_lit_c o G)]|].
    intros r q (HM & _ & _ & _ & _ & _ & H19 & _). split; [exact HM|]. apply H19. lia. }
  destruct (fo_mode o =? MODE_FixedDistanceString_LeftToRight) eqn:E7.
  { unfold en_string_filter. destruct (fo_lit_s o) eqn:EL; [discriminate|]. rewrite <- EL.
    destruct ((fo_lit_dist o <? 0) || (8 <? zlen (fo_lit_s o))) eqn:ED; [discriminate|].
    intros H. injection H as <-. split; [cbn; split; [lia|split; [exact (gd_lit_s o G)|rewrite EL; discriminate]]|].
    intros r q (HM & _ & _ & _ & _ & _ & _ & H20 & _). split; [exact HM|]. apply H20. lia. }
  destruct (fo_mode o =? MODE_LiteralAfterLoop_LeftToRight) eqn:E8; [|discriminate].
  unfold en_lit_loop_filter. destruct (fo_lal o) as [l|] eqn:EL; [|discriminate].
  destruct (negb (la_loop_set l)); [discriminate|].
  destruct (la_string_ci l && ((zlen (la_string l) =? 0) || negb (en_is_ascii (la_string l)))) eqn:EC; [discriminate|].
  intros H. injection H as <-. split.
  - cbn [enf_ok]. unfold enf_str_ok. destruct (la_string_ci l) eqn:Eci; [|exact (gd_lal o G l EL)].
    cbn [andb] in EC. apply orb_false_iff in EC. destruct EC as [_ EC]. apply Bool.negb_false_iff in EC.
    exact (enp_ascii _ EC (gd_lal o G l EL)).
  - intros r q (HM & _ & _ & _ & _ & _ & _ & _ & H22). split; [exact HM|]. apply (H22 ltac:(lia) l EL).
Qed.

(* ================================================================================================
   Part B: the glue
   ================================================================================================ *)

Section EntryGlue.
Variable M : Type.
Variable m_index : M -> Z.                    (* Match.RuneIndex *)
Variable search : list Z -> Z -> option M.

(* a match found from start s begins at or after s, inside the text (C07/C08) *)
Definition enp_in_range : Prop :=
  forall r s m, 0 <= s <= zlen r -> search r s = Some m -> s <= m_index m <= zlen r.

(* the engine reads the scan start only to skip earlier positions: starting later, at or before
   the match it would have found, finds the same match; nothing found stays nothing found.
   True of a scan whose attempts do not depend on Runtextstart, i.e. of a program without \G. *)
Definition enp_start_indep : Prop :=
  forall r s s', 0 <= s <= s' -> s' <= zlen r ->
    (forall m, search r s = Some m -> s' <= m_index m) -> search r s' = search r s.

(* a match starts at rune position q *)
Definition enp_starts (r : list Z) (q : nat) : Prop :=
  exists m, search r (Z.of_nat q) = Some m /\ m_index m = Z.of_nat q.

Lemma enp_zlen_runes b : zlen (runes_of b) = Z.of_nat (length (decode b)).
Proof. unfold zlen. rewrite enb_runes_length. reflexivity. Qed.

(* what a filter must satisfy for the glue: the hypotheses under which it was proved sound *)
Definition enp_filter_hyp (f : en_filter) : Prop :=
  enf_ok f /\ enp_start_indep /\
  forall b q, enp_starts (runes_of b) q -> enf_fact f (runes_of b) q.

Lemma enp_found_starts r s m :
  enp_in_range -> enp_start_indep -> 0 <= s <= zlen r -> search r s = Some m ->
  enp_starts r (Z.to_nat (m_index m)) /\ s <= m_index m <= zlen r.
Proof.
  intros HR HI Hs Hm. pose proof (HR r s m Hs Hm) as Hq. split; [|exact Hq].
  exists m. rewrite Z2Nat.id by lia. split; [|reflexivity].
  rewrite (HI r s (m_index m)); [exact Hm|lia|lia|]. intros m' Hm'. assert (m' = m) by congruence. subst m'. lia.
Qed.

(* one call of the filter from a rune boundary *)
Lemma enp_filter_call f b k0 :
  enp_in_range -> enp_filter_hyp f -> (k0 <= length (decode b))%nat ->
  exists c ok, en_run_filter f b (Z.of_nat (boundary b k0)) = Ok (c, ok) /\
    (ok = false -> search (runes_of b) (Z.of_nat k0) = None) /\
    (ok = true -> forall k', (k0 <= k' <= length (decode b))%nat -> c = Z.of_nat (boundary b k') ->
                  search (runes_of b) (Z.of_nat k') = search (runes_of b) (Z.of_nat k0)).
Proof.
  intros HR (Hok & HI & HF) Hk0.
  destruct (enf_filter_sound f Hok b k0 Hk0) as (c & ok & Hr & HB & HC).
  exists c, ok. split; [exact Hr|].
  assert (Hs : 0 <= Z.of_nat k0 <= zlen (runes_of b)) by (rewrite enp_zlen_runes; lia).
  split.
  - intros Hk. destruct (search (runes_of b) (Z.of_nat k0)) as [m|] eqn:Em; [exfalso|reflexivity].
    destruct (enp_found_starts _ _ _ HR HI Hs Em) as [Hst Hq]. rewrite enp_zlen_runes in Hq.
    apply (HB Hk (Z.to_nat (m_index m))); [lia|]. apply HF. exact Hst.
  - intros Hk k' Hk' Hc. apply HI; [lia|rewrite enp_zlen_runes; lia|].
    intros m Em. destruct (enp_found_starts _ _ _ HR HI Hs Em) as [Hst Hq]. rewrite enp_zlen_runes in Hq.
    pose proof (HC Hk (Z.to_nat (m_index m)) ltac:(lia) (HF b _ Hst)) as Hle.
    pose proof (enb_boundary_inj_le b k' (Z.to_nat (m_index m)) ltac:(lia) ltac:(lia) ltac:(lia)). lia.
Qed.

Variable rtl : bool.
Variable flt : option en_filter.

(* right-to-left patterns ignore the filter; otherwise it must satisfy the hypotheses *)
Definition enp_flt_hyp : Prop :=
  rtl = true \/ match flt with Some f => enp_filter_hyp f | None => True end.

(* findStringPrefixCandidate from the boundary of rune k: either "no match from k", or a boundary
   k' from which the engine finds what it finds from k *)
Lemma enp_prefix_candidate b k :
  enp_in_range -> enp_flt_hyp -> (k <= length (decode b))%nat ->
  (en_prefix_candidate rtl flt b (Z.of_nat (boundary b k)) = Ok (0, false) /\
   search (runes_of b) (Z.of_nat k) = None) \/
  (exists k', (k <= k' <= length (decode b))%nat /\
     en_prefix_candidate rtl flt b (Z.of_nat (boundary b k)) = Ok (Z.of_nat (boundary b k'), true) /\
     search (runes_of b) (Z.of_nat k') = search (runes_of b) (Z.of_nat k)).
Proof.
  intros HR HH Hk. unfold en_prefix_candidate. unfold enp_flt_hyp in HH.
  assert (Hsame : exists k', (k <= k' <= length (decode b))%nat /\
            Ok (Z.of_nat (boundary b k), true) = Ok (Z.of_nat (boundary b k'), true) /\
            search (runes_of b) (Z.of_nat k') = search (runes_of b) (Z.of_nat k)) by (exists k; split; [lia|auto]).
  destruct flt as [f|]; [|right; exact Hsame].
  destruct rtl eqn:Ertl; [right; exact Hsame|].
  destruct HH as [HH|HH]; [congruence|].
  destruct (enp_filter_call f b k HR HH Hk) as (c & ok & Hr & HB & HC). rewrite Hr. cbn [bind].
  destruct ok; cbn [negb].
  - right.
    destruct ((c <? Z.of_nat (boundary b k)) || (zlen b <? c) || negb (en_is_boundary b c)) eqn:E; [exact Hsame|].
    apply orb_false_iff in E. destruct E as [E E3]. apply orb_false_iff in E. destruct E as [E1 E2].
    apply Bool.negb_false_iff in E3. apply enb_is_boundary_iff in E3. destruct E3 as [k' [Hk' Hc]].
    assert (Hkk : (k <= k')%nat) by (apply (enb_boundary_inj_le b); lia).
    exists k'. split; [lia|]. rewrite Hc. split; [reflexivity|].
    apply (HC eq_refl k'); [lia|exact Hc].
  - left. split; [reflexivity|apply HB; reflexivity].
Qed.

Lemma enp_get_runes_and_start b k : (k <= length (decode b))%nat ->
  en_get_runes_and_start rtl b (Z.of_nat (boundary b k)) = (runes_of b, Z.of_nat k).
Proof.
  intros Hk. unfold en_get_runes_and_start. replace (Z.of_nat (boundary b k) <? 0) with false by lia.
  apply enb_runes_and_index_boundary. exact Hk.
Qed.

Lemma enp_run_at b k : (k <= length (decode b))%nat ->
  en_run M search rtl (Z.of_nat k) (runes_of b) = Ok (search (runes_of b) (Z.of_nat k)).
Proof.
  intros Hk. unfold en_run. replace (Z.of_nat k <? 0) with false by lia. rewrite enp_zlen_runes.
  replace (Z.of_nat (length (decode b)) <? Z.of_nat k) with false by lia. reflexivity.
Qed.

(* the default start: rune 0, or the end for a right-to-left pattern *)
Definition enp_default_start (b : list Z) : nat := if rtl then length (decode b) else 0%nat.

Lemma enp_run_default b :
  en_run M search rtl (-1) (runes_of b) = Ok (search (runes_of b) (Z.of_nat (enp_default_start b))).
Proof.
  unfold en_run, enp_default_start. cbn [Z.ltb Z.compare]. rewrite enp_zlen_runes.
  destruct rtl.
  - rewrite Z.ltb_irrefl. reflexivity.
  - replace (Z.of_nat (length (decode b)) <? 0) with false by lia. reflexivity.
Qed.

Lemma enp_default_boundary b :
  (if rtl then zlen b else 0) = Z.of_nat (boundary b (enp_default_start b)) /\
  (enp_default_start b <= length (decode b))%nat.
Proof.
  unfold enp_default_start. destruct rtl.
  - rewrite enb_boundary_len. unfold zlen. split; lia.
  - rewrite boundary_0. split; lia.
Qed.

(* ---- FindStringMatchStartingAt ---- *)

(* at the byte offset of rune k: what FindRunesMatchStartingAt(k) returns *)
Theorem enp_starting_at_boundary b k :
  enp_in_range -> enp_flt_hyp -> (k <= length (decode b))%nat ->
  en_find_string_match_starting_at M search rtl flt b (Z.of_nat (boundary b k)) =
  en_find_runes_match_starting_at M search rtl (runes_of b) (Z.of_nat k).
Proof.
  intros HR HH Hk. unfold en_find_string_match_starting_at, en_find_runes_match_starting_at, en_match_start.
  pose proof (boundary_le b k) as Hle.
  replace (zlen b <? Z.of_nat (boundary b k)) with false by (unfold zlen; lia).
  rewrite enb_is_boundary_at. rewrite Bool.andb_false_r.
  replace (Z.of_nat (boundary b k) <? 0) with false by lia.
  rewrite (enp_run_at b k Hk).
  destruct (enp_prefix_candidate b k HR HH Hk) as [[Hc Hs]|(k' & [Hkk' Hk'] & Hc & Hs)]; rewrite Hc; cbn [bind negb].
  - rewrite Hs. reflexivity.
  - rewrite (enp_get_runes_and_start b k' Hk'). replace (Z.of_nat k' =? -1) with false by lia.
    rewrite (enp_run_at b k' Hk'), Hs. reflexivity.
Qed.

(* a negative byte start means "from the default start", as a negative rune start does *)
Theorem enp_starting_at_negative b i :
  enp_in_range -> enp_flt_hyp -> i < 0 ->
  en_find_string_match_starting_at M search rtl flt b i =
  en_find_runes_match_starting_at M search rtl (runes_of b) i.
Proof.
  intros HR HH Hi. unfold en_find_string_match_starting_at, en_find_runes_match_starting_at, en_match_start.
  replace (zlen b <? i) with false by (pose proof (enb_zlen_nonneg b); lia).
  replace (0 <=? i) with false by lia. cbn [andb]. replace (i <? 0) with true by lia.
  destruct (enp_default_boundary b) as [Hd Hdl]. rewrite Hd.
  assert (Hrun : en_run M search rtl i (runes_of b) = Ok (search (runes_of b) (Z.of_nat (enp_default_start b)))).
  { rewrite <- enp_run_default. unfold en_run. replace (i <? 0) with true by lia. reflexivity. }
  rewrite Hrun.
  destruct (enp_prefix_candidate b _ HR HH Hdl) as [[Hc Hs]|(k' & [Hkk' Hk'] & Hc & Hs)]; rewrite Hc; cbn [bind negb].
  - rewrite Hs. reflexivity.
  - rewrite (enp_get_runes_and_start b k' Hk'). replace (Z.of_nat k' =? -1) with false by lia.
    rewrite (enp_run_at b k' Hk'), Hs. reflexivity.
Qed.

(* errors: past the end; inside a rune *)
Theorem enp_starting_at_errors b i :
  (zlen b < i -> en_find_string_match_starting_at M search rtl flt b i = Err ERR_START_TOO_LARGE) /\
  (0 <= i <= zlen b -> en_is_boundary b i = false ->
   en_find_string_match_starting_at M search rtl flt b i = Err ERR_START_NOT_BOUNDARY).
Proof.
  unfold en_find_string_match_starting_at, en_match_start. split.
  - intros H. replace (zlen b <? i) with true by lia. reflexivity.
  - intros H Hb. replace (zlen b <? i) with false by lia. replace (0 <=? i) with true by lia. rewrite Hb. reflexivity.
Qed.

(* ---- FindStringMatch ---- *)

Theorem enp_find_string_match b :
  enp_in_range -> enp_flt_hyp ->
  en_find_string_match M search rtl flt b = en_find_runes_match M search rtl (runes_of b).
Proof.
  intros HR HH. unfold en_find_string_match, en_find_runes_match, en_match_start.
  replace (zlen b <? -1) with false by (pose proof (enb_zlen_nonneg b); lia).
  cbn [Z.leb Z.compare andb Z.ltb].
  destruct (enp_default_boundary b) as [Hd Hdl]. rewrite Hd. rewrite enp_run_default.
  destruct (enp_prefix_candidate b _ HR HH Hdl) as [[Hc Hs]|(k' & [Hkk' Hk'] & Hc & Hs)]; rewrite Hc; cbn [bind negb].
  - rewrite Hs. reflexivity.
  - rewrite (enp_get_runes_and_start b k' Hk'). replace (Z.of_nat k' <? 0) with false by lia.
    rewrite (enp_run_at b k' Hk'), Hs. reflexivity.
Qed.

(* ---- FindAllStringIndex, up to its first scan ---- *)

(* the rune slice is the decoded input and the first scan of findAllRunesIndex starts where it finds
   what a scan from the default start finds (the rest of the iteration only depends on that match: C07) *)
Theorem enp_find_all_string_start b :
  enp_in_range -> enp_flt_hyp ->
  (en_find_all_string_start rtl flt b = Ok None /\
   search (runes_of b) (Z.of_nat (enp_default_start b)) = None) \/
  (exists k', (k' <= length (decode b))%nat /\
     en_find_all_string_start rtl flt b = Ok (Some (runes_of b, Z.of_nat k')) /\
     search (runes_of b) (Z.of_nat k') = search (runes_of b) (Z.of_nat (enp_default_start b))).
Proof.
  intros HR HH. unfold en_find_all_string_start, en_match_start.
  replace (zlen b <? -1) with false by (pose proof (enb_zlen_nonneg b); lia).
  cbn [Z.leb Z.compare andb Z.ltb].
  destruct (enp_default_boundary b) as [Hd Hdl]. rewrite Hd.
  destruct (enp_prefix_candidate b _ HR HH Hdl) as [[Hc Hs]|(k' & [Hkk' Hk'] & Hc & Hs)]; rewrite Hc; cbn [bind negb].
  - left. split; [reflexivity|exact Hs].
  - right. exists k'. split; [exact Hk'|]. split; [|exact Hs].
    destruct (Z.of_nat (boundary b k') =? 0) eqn:E0.
    + assert (k' = 0%nat).
      { destruct k' as [|k'']; [reflexivity|]. pose proof (enb_boundary_lt b 0 (S k'') ltac:(lia) Hk') as L.
        rewrite boundary_0 in L. lia. }
      subst k'. reflexivity.
    + unfold en_decode_with_start. replace (Z.of_nat (boundary b k') <? 0) with false by lia.
      rewrite (enb_runes_and_index_boundary b k' Hk'). replace (Z.of_nat k' <? 0) with false by lia. reflexivity.
Qed.

(* ---- MatchString ---- *)

Variable search_quick : list Z -> Z -> bool.

(* the bool-only program answers "is there a match" (C02_quick_program_sound) *)
Definition enp_quick_agrees : Prop :=
  forall r s, search_quick r s = match search r s with Some _ => true | None => false end.


Lemma enp_decode_with_start b c :
  0 < c ->
  (exists k', (k' <= length (decode b))%nat /\ c = Z.of_nat (boundary b k') /\
              en_decode_with_start b c = (runes_of b, Z.of_nat k')) \/
  (en_is_boundary b c = false /\ en_decode_with_start b c = (runes_of b, -1)).
Proof.
  intros Hc. unfold en_decode_with_start. replace (c <? 0) with false by lia.
  destruct (en_is_boundary b c) eqn:E.
  - left. apply enb_is_boundary_iff in E. destruct E as [k' [Hk' ->]]. exists k'. split; [exact Hk'|].
    split; [reflexivity|]. apply enb_runes_and_index_boundary. exact Hk'.
  - right. split; [reflexivity|]. apply enb_runes_and_index_off. exact E.
Qed.

Theorem enp_match_string b :
  enp_in_range -> enp_quick_agrees -> enp_flt_hyp ->
  en_match_string search_quick rtl flt b = en_match_runes search_quick rtl (runes_of b).
Proof.
  intros HR HQ HH. unfold en_match_string, en_match_runes, en_run_quick. unfold enp_flt_hyp in HH.
  cbn [Z.ltb Z.compare]. rewrite enp_zlen_runes.
  assert (Hplain : en_match_string_at search_quick rtl b (-1) =
                   Ok (search_quick (runes_of b) (if rtl then Z.of_nat (length (decode b)) else 0))).
  { unfold en_match_string_at. cbn [Z.leb Z.compare]. rewrite enp_zlen_runes. reflexivity. }
  assert (Hrhs : (if Z.of_nat (length (decode b)) <? (if rtl then Z.of_nat (length (decode b)) else 0)
                  then Err ERR_START_TOO_LARGE
                  else Ok (search_quick (runes_of b) (if rtl then Z.of_nat (length (decode b)) else 0))) =
                 Ok (search_quick (runes_of b) (if rtl then Z.of_nat (length (decode b)) else 0))).
  { destruct rtl; [rewrite Z.ltb_irrefl; reflexivity|].
    replace (Z.of_nat (length (decode b)) <? 0) with false by lia. reflexivity. }
  rewrite Hrhs.
  destruct flt as [f|]; [|exact Hplain].
  destruct rtl eqn:Ertl; cbn [negb]; [exact Hplain|].
  destruct HH as [HH|HH]; [congruence|].
  destruct (enp_filter_call f b 0 HR HH ltac:(lia)) as (c & ok & Hr & HB & HC).
  rewrite boundary_0 in Hr. change (Z.of_nat 0) with 0 in *. rewrite Hr. cbn [bind].
  destruct ok; cbn [negb].
  - unfold en_match_string_at. destruct (c <=? 0) eqn:Ec; [reflexivity|].
    destruct (enp_decode_with_start b c ltac:(lia)) as [(k' & Hk' & Hck & Hd)|[_ Hd]]; rewrite Hd.
    + replace (Z.of_nat k' <? 0) with false by lia. rewrite !HQ.
      rewrite (HC eq_refl k' ltac:(lia) Hck). reflexivity.
    + cbn [Z.ltb Z.compare]. reflexivity.
  - rewrite HQ, (HB eq_refl). reflexivity.
Qed.

End EntryGlue.

(* ================================================================================================
   The headline: for every program data the constructor accepts
   ================================================================================================ *)

Lemma enp_flt_hyp_of_constructor
  (M : Type) (m_index : M -> Z) (search : list Z -> Z -> option M) (c : en_code) (flt : option en_filter) :
  en_new_filter c = Ok flt ->
  (en_has_opcode (S (length (cd_codes c))) (cd_codes c) G_Start = Ok false -> enp_start_indep M m_index search) ->
  (forall o f, cd_opts c = Some o -> flt = Some f ->
     forall b q, enp_starts M m_index search (runes_of b) q -> enp_code_fact o (runes_of b) q) ->
  enp_flt_hyp M m_index search (cd_rtl c) flt.
Proof.
  intros Hc HG HF. right. destruct flt as [f|]; [|exact I].
  destruct (enp_new_filter_inv c f Hc) as (o & Ho & Hr & Hs & Hg & Hsel).
  destruct (enp_select_ok o f (enp_guard_of o Hg) Hsel) as [Hok Hfact].
  split; [exact Hok|]. split; [exact (HG Hs)|].
  intros b q Hst. apply Hfact. exact (HF o f Ho eq_refl b q Hst).
Qed.

Theorem enp_string_entry_equals_rune_entry
  (M : Type) (m_index : M -> Z) (search : list Z -> Z -> option M) (search_quick : list Z -> Z -> bool)
  (c : en_code) (flt : option en_filter) :
  en_new_filter c = Ok flt ->
  enp_in_range M m_index search ->
  enp_quick_agrees M search search_quick ->
  (en_has_opcode (S (length (cd_codes c))) (cd_codes c) G_Start = Ok false -> enp_start_indep M m_index search) ->
  (forall o f, cd_opts c = Some o -> flt = Some f ->
     forall b q, enp_starts M m_index search (runes_of b) q -> enp_code_fact o (runes_of b) q) ->
  forall b : list Z,
    let rtl := cd_rtl c in
    let r := runes_of b in
    en_find_string_match M search rtl flt b = en_find_runes_match M search rtl r /\
    (forall k, (k <= length r)%nat ->
       en_find_string_match_starting_at M search rtl flt b (Z.of_nat (boundary b k)) =
       en_find_runes_match_starting_at M search rtl r (Z.of_nat k)) /\
    (forall i, i < 0 ->
       en_find_string_match_starting_at M search rtl flt b i = en_find_runes_match_starting_at M search rtl r i) /\
    (forall i, zlen b < i -> en_find_string_match_starting_at M search rtl flt b i = Err ERR_START_TOO_LARGE) /\
    (forall i, 0 <= i <= zlen b -> en_is_boundary b i = false ->
       en_find_string_match_starting_at M search rtl flt b i = Err ERR_START_NOT_BOUNDARY) /\
    en_match_string search_quick rtl flt b = en_match_runes search_quick rtl r.
Proof.
  intros Hc HR HQ HG HF b rtl r.
  pose proof (enp_flt_hyp_of_constructor M m_index search c flt Hc HG HF) as HH. fold rtl in HH.
  split; [apply (enp_find_string_match M m_index search rtl flt b HR HH)|].
  split; [intros k Hk; apply (enp_starting_at_boundary M m_index search rtl flt b k HR HH);
          unfold r in Hk; rewrite enb_runes_length in Hk; exact Hk|].
  split; [intros i Hi; apply (enp_starting_at_negative M m_index search rtl flt b i HR HH Hi)|].
  split; [intros i Hi; apply (proj1 (enp_starting_at_errors M search rtl flt b i) Hi)|].
  split; [intros i Hi Hb; apply (proj2 (enp_starting_at_errors M search rtl flt b i) Hi Hb)|].
  apply (enp_match_string M m_index search rtl flt search_quick b HR HQ HH).
Qed.

(* the candidate the string entry points start from, spelled out (soundness + transparency of
   findStringPrefixCandidate): never a Fuel/Crash answer; "no candidate" means no match from the start;
   a candidate is the byte offset of a rune at or after the start with the same search result *)
Theorem enp_prefix_candidate_sound
  (M : Type) (m_index : M -> Z) (search : list Z -> Z -> option M) (rtl : bool) (flt : option en_filter)
  (b : list Z) (k : nat) :
  enp_in_range M m_index search -> enp_flt_hyp M m_index search rtl flt -> (k <= length (decode b))%nat ->
  (en_prefix_candidate rtl flt b (Z.of_nat (boundary b k)) = Ok (0, false) /\
   search (runes_of b) (Z.of_nat k) = None) \/
  (exists k', (k <= k' <= length (decode b))%nat /\
     en_prefix_candidate rtl flt b (Z.of_nat (boundary b k)) = Ok (Z.of_nat (boundary b k'), true) /\
     search (runes_of b) (Z.of_nat k') = search (runes_of b) (Z.of_nat k)).
Proof. apply enp_prefix_candidate. Qed.

(* what newStringPrefixFilter guarantees when it builds a filter *)
Theorem enp_constructor c f :
  en_new_filter c = Ok (Some f) ->
  cd_rtl c = false /\
  en_has_opcode (S (length (cd_codes c))) (cd_codes c) G_Start = Ok false /\
  enf_ok f /\
  exists o, cd_opts c = Some o /\ forall r q, enp_code_fact o r q -> enf_fact f r q.
Proof.
  intros Hc. destruct (enp_new_filter_inv c f Hc) as (o & Ho & Hr & Hs & Hg & Hsel).
  destruct (enp_select_ok o f (enp_guard_of o Hg) Hsel) as [Hok Hfact].
  split; [exact Hr|]. split; [exact Hs|]. split; [exact Hok|]. exists o. split; [exact Ho|exact Hfact].
Qed.

(* ================================================================================================
   Where the engine hypotheses come from: a scan whose attempts do not read the scan start
   ================================================================================================ *)

(* The accelerator-free scan (runner.go:116-228 without finder; Model/Scan.naive_scan, which C03 proves
   equal to the accelerated scan): attempt the program at s, s+1, ..., len and report the first success.
   When one attempt, anchored at q, does not depend on where the scan started — the only channel is
   Runtextstart, read by the Start (\G) instruction alone — the scan satisfies enp_in_range and
   enp_start_indep.  (With \G the attempt takes the start as a further argument and the second
   property fails: EntryExamples.enx_start_indep_needed.) *)
Section ScanEngine.
Variable M : Type.
Variable m_index : M -> Z.
Variable attempt : list Z -> nat -> option M.
Hypothesis attempt_index : forall r q m, attempt r q = Some m -> m_index m = Z.of_nat q.

Fixpoint enp_scan_from (r : list Z) (fuel q : nat) : option M :=
  match fuel with
  | O => None
  | S f => match attempt r q with Some m => Some m | None => enp_scan_from r f (S q) end
  end.

Definition enp_scan (r : list Z) (s : Z) : option M :=
  enp_scan_from r (S (length r) - Z.to_nat s) (Z.to_nat s).

Lemma enp_scan_from_some r : forall fuel q m,
  enp_scan_from r fuel q = Some m ->
  exists x, (q <= x < q + fuel)%nat /\ attempt r x = Some m /\ forall y, (q <= y < x)%nat -> attempt r y = None.
Proof.
  induction fuel as [|f IH]; intros q m H; [discriminate H|].
  cbn [enp_scan_from] in H. destruct (attempt r q) as [m'|] eqn:E.
  - injection H as <-. exists q. split; [lia|]. split; [exact E|]. intros y Hy. lia.
  - destruct (IH (S q) m H) as (x & H1 & H2 & H3). exists x. split; [lia|]. split; [exact H2|].
    intros y Hy. destruct (Nat.eq_dec y q) as [->|]; [exact E|]. apply H3. lia.
Qed.

Lemma enp_scan_from_none r : forall fuel q,
  enp_scan_from r fuel q = None -> forall y, (q <= y < q + fuel)%nat -> attempt r y = None.
Proof.
  induction fuel as [|f IH]; intros q H y Hy; [lia|].
  cbn [enp_scan_from] in H. destruct (attempt r q) eqn:E; [discriminate H|].
  destruct (Nat.eq_dec y q) as [->|]; [exact E|]. apply (IH (S q) H). lia.
Qed.

Lemma enp_scan_from_first r : forall fuel q x m,
  (q <= x < q + fuel)%nat -> attempt r x = Some m -> (forall y, (q <= y < x)%nat -> attempt r y = None) ->
  enp_scan_from r fuel q = Some m.
Proof.
  induction fuel as [|f IH]; intros q x m Hx Hp Hn; [lia|].
  cbn [enp_scan_from]. destruct (Nat.eq_dec x q) as [->|Hne]; [rewrite Hp; reflexivity|].
  rewrite (Hn q ltac:(lia)). apply (IH (S q) x m); [lia|exact Hp|]. intros y Hy. apply Hn. lia.
Qed.

Lemma enp_scan_from_all_none r : forall fuel q,
  (forall y, (q <= y < q + fuel)%nat -> attempt r y = None) -> enp_scan_from r fuel q = None.
Proof.
  induction fuel as [|f IH]; intros q H; [reflexivity|].
  cbn [enp_scan_from]. rewrite (H q ltac:(lia)). apply IH. intros y Hy. apply H. lia.
Qed.

Theorem enp_scan_in_range : enp_in_range M m_index enp_scan.
Proof.
  intros r s m Hs H. unfold enp_scan in H. unfold zlen in *.
  destruct (enp_scan_from_some r _ _ _ H) as (x & H1 & H2 & _). rewrite (attempt_index r x m H2). lia.
Qed.

Theorem enp_scan_start_indep : enp_start_indep M m_index enp_scan.
Proof.
  intros r s s' Hs Hs' Hm. unfold enp_scan in *. unfold zlen in *.
  destruct (enp_scan_from r (S (length r) - Z.to_nat s) (Z.to_nat s)) as [m|] eqn:E.
  - specialize (Hm m eq_refl).
    destruct (enp_scan_from_some r _ _ _ E) as (x & H1 & H2 & H3). rewrite (attempt_index r x m H2) in Hm.
    apply (enp_scan_from_first r _ _ x m); [lia|exact H2|]. intros y Hy. apply H3. lia.
  - apply enp_scan_from_all_none. intros y Hy. apply (enp_scan_from_none r _ _ E). lia.
Qed.

End ScanEngine.

Theorem enp_scan_engine (M : Type) (m_index : M -> Z) (attempt : list Z -> nat -> option M) :
  (forall r q m, attempt r q = Some m -> m_index m = Z.of_nat q) ->
  enp_in_range M m_index (enp_scan M attempt) /\ enp_start_indep M m_index (enp_scan M attempt).
Proof.
  intros H. split; [exact (enp_scan_in_range M m_index attempt H)|exact (enp_scan_start_indep M m_index attempt H)].
Qed.
