(* char_in_denote under IgnoreCase: what the parser builds for a bracket expression whose code-point
   members lie in the good part of the finite table denotes the set algebra of the expression
   (members folded over their SimpleFold orbits), on every rune of the table. *)
From Coq Require Import FMapPositive ZifyBool.
From Verif Require Import Base.Prelude Model.CharClass Model.FoldD
  Proofs.CharClassRanges Proofs.CharClassProofs Proofs.CharClassElab
  Proofs.CharClassFold Proofs.CharClassFoldThm Proofs.CharClassCi Proofs.CharClassCi2 Proofs.CharClassCi3.

(* the runes of a range, for closed checks *)
Definition range_pts (r : Z * Z) : list Z :=
  map (fun i => fst r + Z.of_nat i) (seq 0 (Z.to_nat (snd r - fst r + 1))).

Lemma mem_range_pts rs x : mem rs x = true -> In x (flat_map range_pts rs).
Proof.
  intros H. apply mem_true_iff in H. destruct H as [[a b] [Hr Hx]]. cbn [fst snd] in Hx.
  apply in_flat_map. exists (a, b). split; [exact Hr|]. unfold range_pts; cbn [fst snd].
  apply in_map_iff. exists (Z.to_nat (x - a)). split; [lia|]. apply in_seq. lia.
Qed.

Definition table_good (rs : list (Z * Z)) : Prop := forall x, mem rs x = true -> In x good_dom.

Lemma table_good_check rs : forallb (fun x => zmem x good_dom) (flat_map range_pts rs) = true -> table_good rs.
Proof.
  intros H x Hx. rewrite forallb_forall in H. apply zmem_In. apply H. apply mem_range_pts. exact Hx.
Qed.

Lemma good_ecma_digit : table_good ecma_digit_ranges.
Proof. apply table_good_check. vm_compute. reflexivity. Qed.
Lemma good_ecma_word : table_good ecma_word_ranges.
Proof. apply table_good_check. vm_compute. reflexivity. Qed.
Lemma good_ecma_space : table_good ecma_space_ranges.
Proof. apply table_good_check. vm_compute. reflexivity. Qed.
Lemma good_re2_space : table_good re2_space_ranges.
Proof. apply table_good_check. vm_compute. reflexivity. Qed.
Lemma good_posix k : 0 <= k <= 13 -> table_good (posix_ranges k).
Proof.
  intros H.
  assert (Hk : k = 0 \/ k = 1 \/ k = 2 \/ k = 3 \/ k = 4 \/ k = 5 \/ k = 6 \/ k = 7 \/ k = 8 \/ k = 9 \/
               k = 10 \/ k = 11 \/ k = 12 \/ k = 13) by lia.
  repeat (destruct Hk as [->|Hk]); try subst k; apply table_good_check; vm_compute; reflexivity.
Qed.

(* what C16 allows under IgnoreCase: members of the good table part; the ASCII-table shorthands and
   POSIX names only positive (a negated one is a range up to U+10FFFF); no negated cased-letter category *)
Definition ci_item_ok (o : opts) (it : item) : Prop :=
  match it with
  | IRange a b => forall x, a <= x <= b -> In x good_dom
  | IDigit ng | ISpace ng | IWord ng => (o_ecma o || o_re2 o) = true -> ng = false
  | IProp ng name => (ng && is_case_cat name) = false
  | IPosix ng _ => ng = false
  end.
Fixpoint ci_syn_ok (o : opts) (s : csyn) : Prop :=
  match s with
  | CSyn _ items sb => Forall (ci_item_ok o) items /\ match sb with Some s' => ci_syn_ok o s' | None => True end
  end.

Lemma ci_item_guard o it : ci_item_ok o it -> item_guard o it.
Proof. destruct it; cbn; auto. intros H. rewrite <- andb_assoc. rewrite H. apply andb_false_r. Qed.

(* ---- the extended IgnoreCase domain: complement-shaped ranges.
   A range [a, b] with a <= U+0080 and b >= U+10000 ("everything from a on", e.g. [b-\x{10FFFF}],
   [\x01-\x{10FFFF}], [\x00-\x{10FFFE}]) is admitted when the flag B holds and the same bracket level
   names 'i' or 'I' by some range (always the case when a <= 'i'): the range contains U+0130, whose
   lcTable image is 'i' although U+0130 and 'i' are not in one SimpleFold orbit. *)
Definition names_i (items : list item) : Prop :=
  exists a b, In (IRange a b) items /\ (a <= 73 <= b \/ a <= 105 <= b).

Definition ci_item_okx (B : Prop) (o : opts) (items : list item) (it : item) : Prop :=
  match it with
  | IRange a b => (forall x, a <= x <= b -> In x good_dom) \/ (B /\ a <= 128 /\ 65536 <= b /\ names_i items)
  | _ => ci_item_ok o it
  end.
Fixpoint ci_syn_okx (B : Prop) (o : opts) (s : csyn) : Prop :=
  match s with
  | CSyn _ items sb => Forall (ci_item_okx B o items) items /\ match sb with Some s' => ci_syn_okx B o s' | None => True end
  end.

Lemma ci_syn_ok_x B o s : ci_syn_ok o s -> ci_syn_okx B o s.
Proof.
  induction s as [ng items | ng items s' IH] using csyn_induction; cbn; intros [H1 H2]; (split; [|auto]);
    apply Forall_forall; intros it Hit; rewrite Forall_forall in H1; specialize (H1 it Hit);
    destruct it; cbn in *; auto.
Qed.

(* what the member-by-member lemmas below need: everything but the condition on ranges *)
Definition ci_item_nr (o : opts) (it : item) : Prop :=
  match it with IRange _ _ => True | _ => ci_item_ok o it end.

Lemma ci_item_okx_nr B o items it : ci_item_okx B o items it -> ci_item_nr o it.
Proof. destruct it; cbn; auto. Qed.

Lemma ci_item_nr_guard o it : ci_item_nr o it -> item_guard o it.
Proof. destruct it; cbn; auto. intros H. rewrite <- andb_assoc. rewrite H. apply andb_false_r. Qed.

Section CiSyntax.
  Variable cat_in : Z -> Z -> bool.
  Variable simple_fold to_lower : Z -> Z.
  Hypothesis agree : forall x, In x dom_t -> simple_fold x = fold_t x /\ to_lower x = lower_t x.
  Variable o : opts.
  Hypothesis Hci : o_ci o = true.

  Notation den := (denote cat_in simple_fold orbit_fuel).
  Notation litd := (lit_den cat_in simple_fold orbit_fuel o).
  Notation catd := (cat_den cat_in simple_fold orbit_fuel o).

  (* ---------------------------------------------------------------- the mutators while neg = true *)
  Lemma canon_neg c : neg c = true -> canonicalize cat_in c = set_ranges c (merged (ranges c)).
  Proof.
    intros Hn. rewrite canonicalize_unfold. destruct (ranges c) as [|r t] eqn:Er.
    - destruct c; cbn in *; subst; reflexivity.
    - rewrite <- Er. apply nf_neg. exact Hn.
  Qed.

  (* ranges and categories tracked separately: L = code-point members so far, K = category members *)
  Definition fine (c : cls) (L K : Z -> bool) : Prop :=
    (anything c = false -> (forall ch, mem (ranges c) ch = L ch) /\ (forall ch, cats_in cat_in (cats c) ch = K ch)) /\
    (anything c = true -> forall ch, K ch = true).

  Lemma fine_add_range c L K lo hi :
    neg c = true -> wf_ranges (ranges c) -> 0 <= lo -> lo <= hi -> hi <= max_rune -> fine c L K ->
    fine (add_range cat_in c lo hi) (fun ch => L ch || ((lo <=? ch) && (ch <=? hi))) K.
  Proof.
    intros Hn Hw H0 H1 H2 [F1 F2]. unfold add_range. rewrite canon_neg by exact Hn.
    cbn [ranges set_ranges]. unfold fine, set_ranges; cbn [anything ranges cats]. split.
    - intros Ha. destruct (F1 Ha) as [G1 G2]. split; [|exact G2].
      intros ch. rewrite merged_mem by (apply wf_ranges_app; [exact Hw|apply wf_single; auto]).
      rewrite mem_app, G1. unfold mem, in_range; cbn [existsb fst snd]. rewrite orb_false_r. reflexivity.
    - exact F2.
  Qed.

  Lemma fine_add_ranges c L K rs :
    neg c = true -> wf_ranges (ranges c) -> wf_ranges rs -> fine c L K ->
    fine (add_ranges cat_in c rs) (fun ch => L ch || mem rs ch) K.
  Proof.
    intros Hn Hw Hr [F1 F2]. unfold add_ranges. destruct (anything c) eqn:Ea.
    - split; [intros H; congruence|intros _; exact (F2 eq_refl)].
    - rewrite canon_neg by exact Hn. unfold fine, set_ranges; cbn [anything ranges cats]. split.
      + intros _. destruct (F1 eq_refl) as [G1 G2]. split; [|exact G2].
        intros ch. rewrite merged_mem by (apply wf_ranges_app; auto). rewrite mem_app, G1. reflexivity.
      + intros H. congruence.
  Qed.

  Lemma loop_fine l : forall c, anything c = false ->
    let c' := add_categories_loop c l in
    (anything c' = false /\ ranges c' = ranges c /\
     forall ch, cats_in cat_in (cats c') ch = cats_in cat_in (cats c) ch || cats_in cat_in l ch) \/
    (anything c' = true /\ forall ch, cats_in cat_in (cats c) ch || cats_in cat_in l ch = true).
  Proof.
    induction l as [|[ng name] t IH]; intros c Ha; cbn [add_categories_loop]; cbn zeta.
    - left. split; [exact Ha|]. split; [reflexivity|]. intros ch. unfold cats_in at 3; cbn. rewrite orb_false_r. reflexivity.
    - destruct (find_cat name (cats c)) as [ng2|] eqn:Ef.
      + apply (find_cat_some cat_in) in Ef. destruct (Bool.eqb ng ng2) eqn:Eb.
        * apply Bool.eqb_prop in Eb. subst ng2.
          assert (Hdup : forall ch, cats_in cat_in (cats c) ch || cats_in cat_in ((ng, name) :: t) ch =
                                    cats_in cat_in (cats c) ch || cats_in cat_in t ch).
          { intros ch. rewrite (cats_in_cons cat_in). destruct (cat_accepts cat_in (ng, name) ch) eqn:E; [|reflexivity].
            rewrite (cats_in_In cat_in _ _ ch Ef E). reflexivity. }
          destruct (IH c Ha) as [(A & B & C)|(A & C)]; cbn zeta in *.
          -- left. split; [exact A|]. split; [exact B|]. intros ch. rewrite C, Hdup. reflexivity.
          -- right. split; [exact A|]. intros ch. rewrite Hdup. apply C.
        * right. split; [reflexivity|]. intros ch. rewrite (cats_in_cons cat_in).
          destruct (cat_accepts cat_in (ng, name) ch) eqn:E; [cbn [orb]; rewrite orb_true_r; reflexivity|].
          rewrite (cats_in_In cat_in (ng2, name) _ ch Ef); [reflexivity|].
          unfold cat_accepts in *; cbn [fst snd] in *. destruct ng, ng2, (cat_in name ch); cbn in *; congruence.
      + destruct (IH (set_cats c (cats c ++ [(ng, name)])) Ha) as [(A & B & C)|(A & C)]; cbn zeta in *;
          cbn [cats ranges set_cats] in *.
        * left. split; [exact A|]. split; [exact B|]. intros ch. rewrite C. rewrite (cats_in_app cat_in).
          rewrite !(cats_in_cons cat_in). change (cats_in cat_in [] ch) with false.
          destruct (cats_in cat_in (cats c) ch), (cat_accepts cat_in (ng, name) ch), (cats_in cat_in t ch); reflexivity.
        * right. split; [exact A|]. intros ch. specialize (C ch). rewrite (cats_in_app cat_in) in C.
          rewrite !(cats_in_cons cat_in) in *. change (cats_in cat_in [] ch) with false in C.
          destruct (cats_in cat_in (cats c) ch), (cat_accepts cat_in (ng, name) ch), (cats_in cat_in t ch); cbn in *; congruence.
  Qed.

  Lemma fine_add_categories c L K l : fine c L K ->
    fine (add_categories c l) L (fun ch => K ch || cats_in cat_in l ch).
  Proof.
    intros [F1 F2]. unfold add_categories. destruct (anything c) eqn:Ea.
    - split; [intros H; congruence|]. intros _ ch. rewrite (F2 eq_refl ch). reflexivity.
    - destruct (F1 eq_refl) as [G1 G2].
      destruct (loop_fine l c Ea) as [(A & B & C)|(A & C)]; cbn zeta in *.
      + split; [|intros H; congruence]. intros _. split; [intros ch; rewrite B; apply G1|].
        intros ch. rewrite C, G2. reflexivity.
      + split; [intros H; congruence|]. intros _ ch. rewrite <- G2. apply C.
  Qed.

  Lemma fine_ext c L K L' K' : (forall ch, L ch = L' ch) -> (forall ch, K ch = K' ch) -> fine c L K -> fine c L' K'.
  Proof.
    intros HL HK [F1 F2]. split.
    - intros Ha. destruct (F1 Ha) as [G1 G2]. split; intros ch; [rewrite <- HL; apply G1|rewrite <- HK; apply G2].
    - intros Ha ch. rewrite <- HK. apply F2. exact Ha.
  Qed.

  (* one member *)
  Lemma fine_item c L K it :
    scan_inv c -> fine c L K -> wf_item it -> ci_item_nr o it ->
    fine (elab_item cat_in o c it) (fun ch => L ch || litd it ch) (fun ch => K ch || catd it ch).
  Proof.
    intros (I1 & I2 & I3 & I4 & I5 & I6) Hf Hwf Hok.
    destruct it as [a b|ng|ng|ng|ng name|ng k]; cbn [elab_item]; unfold lit_den, cat_den; cbn [item_lit_exp item_cat_exp].
    - cbn in Hwf. destruct Hwf as (W1 & W2 & W3).
      eapply fine_ext; only 3: (apply (fine_add_range c L K a b); auto).
      + intros ch. cbn. rewrite !orb_false_r. reflexivity.
      + intros ch. cbn. rewrite orb_false_r. reflexivity.
    - unfold add_digit. cbn in Hok. destruct (o_ecma o || o_re2 o) eqn:E.
      + rewrite (Hok eq_refl). eapply fine_ext; only 3: (apply (fine_add_ranges c L K ecma_digit_ranges); auto; apply wf_ecma_digit).
        * intros ch. cbv beta. cbn [existsb]. rewrite den_neg_if. cbn [denote]. rewrite xorb_false_l. unfold mem, in_range, ecma_digit_ranges; cbn [existsb fst snd].
          rewrite !orb_false_r. reflexivity.
        * intros ch. cbn. rewrite orb_false_r. reflexivity.
      + eapply fine_ext; only 3: (apply (fine_add_categories c L K [(ng, cat_Nd)]); auto).
        * intros ch. cbn. rewrite orb_false_r. reflexivity.
        * intros ch. cbv beta. rewrite cats_in_single. cbn. rewrite orb_false_r. reflexivity.
    - unfold add_space. cbn in Hok. destruct (o_ecma o) eqn:Ee.
      + cbn [orb] in Hok. rewrite (Hok eq_refl). cbn [orb].
        eapply fine_ext; only 3: (apply (fine_add_ranges c L K ecma_space_ranges); auto; apply wf_ecma_space).
        * intros ch. cbv beta. cbn [existsb]. rewrite den_neg_if, den_ranges_exp. rewrite xorb_false_l. rewrite orb_false_r. reflexivity.
        * intros ch. cbn. rewrite orb_false_r. reflexivity.
      + cbn [orb] in *. destruct (o_re2 o) eqn:Er.
        * rewrite (Hok eq_refl).
          eapply fine_ext; only 3: (apply (fine_add_ranges c L K re2_space_ranges); auto; apply wf_re2_space).
          -- intros ch. cbv beta. cbn [existsb]. rewrite den_neg_if, den_ranges_exp. rewrite xorb_false_l. rewrite orb_false_r. reflexivity.
          -- intros ch. cbn. rewrite orb_false_r. reflexivity.
        * eapply fine_ext; only 3: (apply (fine_add_categories c L K [(ng, cat_space)]); auto).
          -- intros ch. cbn. rewrite orb_false_r. reflexivity.
          -- intros ch. cbv beta. rewrite cats_in_single. cbn. rewrite orb_false_r. reflexivity.
    - unfold add_word. cbn in Hok. destruct (o_ecma o || o_re2 o) eqn:E.
      + rewrite (Hok eq_refl). eapply fine_ext; only 3: (apply (fine_add_ranges c L K ecma_word_ranges); auto; apply wf_ecma_word).
        * intros ch. cbv beta. cbn [existsb]. rewrite den_neg_if, den_ranges_exp. rewrite xorb_false_l. rewrite orb_false_r. reflexivity.
        * intros ch. cbn. rewrite orb_false_r. reflexivity.
      + eapply fine_ext; only 3: (apply (fine_add_categories c L K [(ng, cat_word)]); auto).
        * intros ch. cbn. rewrite orb_false_r. reflexivity.
        * intros ch. cbv beta. rewrite cats_in_single. cbn. rewrite orb_false_r. reflexivity.
    - cbn in Hok. unfold add_category. rewrite Hci. cbn [andb].
      destruct (is_case_cat name) eqn:Ec.
      + assert (ng = false) by (destruct ng; [discriminate|reflexivity]). subst ng.
        pose proof (fine_add_categories c L K [(false, cat_Ll); (false, cat_Lu); (false, cat_Lt)] Hf) as F1.
        pose proof (fine_add_categories _ _ _ [(false, name)] F1) as F2.
        eapply fine_ext; only 3: (exact F2).
        * intros ch. cbn. rewrite orb_false_r. reflexivity.
        * intros ch. cbv beta. rewrite cats_in_single. cbn [existsb]. rewrite den_neg_if. cbn [denote existsb xorb].
          unfold cats_in, cat_accepts; cbn [existsb fst snd xorb]. unfold is_case_cat in Ec.
          assert (Hname : name = cat_Ll \/ name = cat_Lu \/ name = cat_Lt) by lia.
          destruct Hname as [ -> | [ -> | -> ] ];
            destruct (cat_in cat_Ll ch), (cat_in cat_Lu ch), (cat_in cat_Lt ch), (K ch); reflexivity.
      + eapply fine_ext; only 3: (apply (fine_add_categories c L K [(ng, name)]); auto).
        * intros ch. cbn. rewrite orb_false_r. reflexivity.
        * intros ch. cbv beta. rewrite cats_in_single. cbn. rewrite orb_false_r. reflexivity.
    - cbn in Hwf, Hok. subst ng. destruct (posix_ordered k Hwf) as (Po & Pw & Pn).
      unfold add_named_ascii. destruct (k =? 5) eqn:E5.
      + assert (k = 5) by lia. subst k. unfold add_digit.
        eapply fine_ext; only 3: (apply (fine_add_ranges c L K ecma_digit_ranges); auto; apply wf_ecma_digit).
        * intros ch. cbv beta. cbn [existsb]. rewrite den_neg_if, den_ranges_exp. rewrite xorb_false_l. rewrite orb_false_r. reflexivity.
        * intros ch. cbn. rewrite orb_false_r. reflexivity.
      + destruct (k =? 12) eqn:E12.
        * assert (k = 12) by lia. subst k. unfold add_word.
          eapply fine_ext; only 3: (apply (fine_add_ranges c L K ecma_word_ranges); auto; apply wf_ecma_word).
          -- intros ch. cbv beta. cbn [existsb]. rewrite den_neg_if, den_ranges_exp. rewrite xorb_false_l. rewrite orb_false_r. reflexivity.
          -- intros ch. cbn. rewrite orb_false_r. reflexivity.
        * destruct (posix_ranges k) as [|r t] eqn:Ep; [congruence|]. rewrite <- Ep in *.
          eapply fine_ext; only 3: (apply (fine_add_ranges c L K (posix_ranges k)); auto).
          -- intros ch. cbv beta. cbn [existsb]. rewrite den_neg_if, den_ranges_exp. rewrite xorb_false_l. rewrite orb_false_r. reflexivity.
          -- intros ch. cbn. rewrite orb_false_r. reflexivity.
  Qed.

  Lemma fine_items items : forall c L K,
    scan_inv c -> fine c L K -> Forall wf_item items -> Forall (ci_item_nr o) items ->
    fine (fold_left (elab_item cat_in o) items c)
         (fun ch => L ch || existsb (fun it => litd it ch) items)
         (fun ch => K ch || existsb (fun it => catd it ch) items).
  Proof.
    induction items as [|it t IH]; intros c L K Hinv Hf Hw Hok.
    - cbn. eapply fine_ext; [| |exact Hf]; intros ch; rewrite orb_false_r; reflexivity.
    - inversion Hw as [|? ? W1 W2]; subst. inversion Hok as [|? ? G1 G2]; subst.
      destruct (item_step cat_in simple_fold orbit_fuel o c it Hinv W1 (ci_item_nr_guard o it G1)) as [S1 _].
      pose proof (fine_item c L K it Hinv Hf W1 G1) as F1.
      specialize (IH _ _ _ S1 F1 W2 G2). cbn [fold_left].
      eapply fine_ext; [| |exact IH]; intros ch; cbn [existsb]; rewrite orb_assoc; reflexivity.
  Qed.

End CiSyntax.
