(* C02: the bool-only entry points run a "quick" program from which unobservable captures are
   removed.
   E1 (Spec level): erasing plain captures of groups that nothing in the tree observes does not
      change the search: same result lists (same length, same positions, same captures of every
      kept group), hence the same [attempt]/[find] answers         (erase_unobserved, erase_find).
   E2 (Writer level): the quick program is exactly the full program of the erased tree
                                                                  (erase_csize, erase_emit, erase_compile). *)
From Verif Require Import Base.Prelude Model.Tree Model.Spec Model.VM Model.Writer.
From Verif Require Import Proofs.SpecProofs Proofs.MaskProofs.

(* ------------------------------------------------------------------------------------------ *)
(* definitions                                                                                 *)

Definition opt_b (f : node -> bool) (no : option node) : bool :=
  match no with Some x => f x | None => false end.

(* group g is read somewhere inside t: back-reference, back-reference conditional, or either side
   of a balancing capture *)
Fixpoint observed (g : Z) (t : node) : bool :=
  match t with
  | NRef _ g' => g =? g'
  | NConcat _ l => existsb (observed g) l
  | NAlternate _ l => existsb (observed g) l
  | NLoop _ _ _ _ r => observed g r
  | NCapture _ a u r => (negb (u =? -1) && ((g =? a) || (g =? u))) || observed g r
  | NGroup r => observed g r
  | NPosLook _ r => observed g r
  | NNegLook _ r => observed g r
  | NAtomic r => observed g r
  | NBackRefCond _ g' yes no => (g =? g') || observed g yes || opt_b (observed g) no
  | NExprCond _ c yes no => observed g c || observed g yes || opt_b (observed g) no
  | _ => false
  end.

(* what the search actually READS of a group's capture stack: the same without the "g = a" side of
   a balancing capture (which only writes a).  [reads g t = true -> observed g t = true]; the
   theorems below are proved from the weaker hypothesis on [reads] and restated for [observed]. *)
Fixpoint reads (g : Z) (t : node) : bool :=
  match t with
  | NRef _ g' => g =? g'
  | NConcat _ l => existsb (reads g) l
  | NAlternate _ l => existsb (reads g) l
  | NLoop _ _ _ _ r => reads g r
  | NCapture _ a u r => (negb (u =? -1) && (g =? u)) || reads g r
  | NGroup r => reads g r
  | NPosLook _ r => reads g r
  | NNegLook _ r => reads g r
  | NAtomic r => reads g r
  | NBackRefCond _ g' yes no => (g =? g') || reads g yes || opt_b (reads g) no
  | NExprCond _ c yes no => reads g c || reads g yes || opt_b (reads g) no
  | _ => false
  end.

(* replace every plain capture of a group that is not kept by a non-capturing group *)
Fixpoint erase (keep : Z -> bool) (t : node) : node :=
  match t with
  | NConcat o l => NConcat o (map (erase keep) l)
  | NAlternate o l => NAlternate o (map (erase keep) l)
  | NLoop lazy o m n r => NLoop lazy o m n (erase keep r)
  | NCapture o g u r =>
      if (u =? -1) && negb (keep g) then NGroup (erase keep r) else NCapture o g u (erase keep r)
  | NGroup r => NGroup (erase keep r)
  | NPosLook o r => NPosLook o (erase keep r)
  | NNegLook o r => NNegLook o (erase keep r)
  | NAtomic r => NAtomic (erase keep r)
  | NBackRefCond o g yes no => NBackRefCond o g (erase keep yes) (mask_opt_node (erase keep) no)
  | NExprCond o c yes no => NExprCond o (erase keep c) (erase keep yes) (mask_opt_node (erase keep) no)
  | _ => t
  end.

(* no erased group is read *)
Definition unobs (keep : Z -> bool) (t : node) : Prop :=
  forall g, keep g = false -> reads g t = false.

Definition caps_agree (keep : Z -> bool) (c1 c2 : caps_t) : Prop :=
  forall g, keep g = true -> cap_get g c1 = cap_get g c2.

(* two states agree: same text position, same capture stack of every kept group *)
Definition agree (keep : Z -> bool) (s1 s2 : st) : Prop :=
  pos s1 = pos s2 /\ caps_agree keep (caps s1) (caps s2).

Definition opt_agree (keep : Z -> bool) (o1 o2 : option st) : Prop :=
  match o1, o2 with
  | None, None => True
  | Some a, Some b => agree keep a b
  | _, _ => False
  end.

(* results related: same kind of outcome, related payloads *)
Definition rrel {A} (R : A -> A -> Prop) (r1 r2 : res A) : Prop :=
  match r1, r2 with
  | Ok a, Ok b => R a b
  | Err c, Err d => c = d
  | Crash c, Crash d => c = d
  | Fuel, Fuel => True
  | _, _ => False
  end.

(* ------------------------------------------------------------------------------------------ *)
(* capture tables                                                                              *)

Lemma er_cap_get_set_same g l c : cap_get g (cap_set g l c) = l.
Proof.
  induction c as [|[g' l'] c IH]; cbn [cap_set cap_get].
  - rewrite Z.eqb_refl. reflexivity.
  - destruct (g =? g') eqn:E; cbn [cap_get]; [rewrite Z.eqb_refl; reflexivity|].
    rewrite E. exact IH.
Qed.

Lemma er_cap_get_set_other g g' l c : g' <> g -> cap_get g' (cap_set g l c) = cap_get g' c.
Proof.
  intros Hne. induction c as [|[g0 l0] c IH]; cbn [cap_set cap_get].
  - replace (g' =? g) with false by lia. reflexivity.
  - destruct (g =? g0) eqn:E; cbn [cap_get].
    + replace (g' =? g) with false by lia. replace (g' =? g0) with false by lia. reflexivity.
    + destruct (g' =? g0); [reflexivity|exact IH].
Qed.

Lemma er_ca_set_both keep g l1 l2 c1 c2 :
  caps_agree keep c1 c2 -> (keep g = true -> l1 = l2) ->
  caps_agree keep (cap_set g l1 c1) (cap_set g l2 c2).
Proof.
  intros Hc Hl g' Hk. destruct (Z.eq_dec g' g) as [E|E].
  - subst g'. rewrite !er_cap_get_set_same. exact (Hl Hk).
  - rewrite !er_cap_get_set_other by exact E. exact (Hc g' Hk).
Qed.

Lemma er_ca_set_left keep g l c1 c2 :
  keep g = false -> caps_agree keep c1 c2 -> caps_agree keep (cap_set g l c1) c2.
Proof.
  intros Hg Hc g' Hk. rewrite er_cap_get_set_other; [exact (Hc g' Hk)|].
  intros E. subst g'. rewrite Hg in Hk. discriminate Hk.
Qed.

Lemma er_ca_push keep g iv c1 c2 :
  caps_agree keep c1 c2 -> caps_agree keep (cap_push g iv c1) (cap_push g iv c2).
Proof.
  intros Hc. unfold cap_push. apply er_ca_set_both; [exact Hc|].
  intros Hk. rewrite (Hc g Hk). reflexivity.
Qed.

Lemma er_ca_pop keep g c1 c2 :
  caps_agree keep c1 c2 -> caps_agree keep (cap_pop g c1) (cap_pop g c2).
Proof.
  intros Hc. unfold cap_pop. apply er_ca_set_both; [exact Hc|].
  intros Hk. rewrite (Hc g Hk). reflexivity.
Qed.

Lemma er_agree_refl keep s : agree keep s s.
Proof. split; [reflexivity|]. intros g _. reflexivity. Qed.

Lemma er_one keep a b : agree keep a b -> Forall2 (agree keep) [a] [b].
Proof. intros H. constructor; [exact H|constructor]. Qed.

Lemma er_agree_with_pos keep s1 s2 p : agree keep s1 s2 -> agree keep (with_pos s1 p) (with_pos s2 p).
Proof. intros [_ Hc]. split; [reflexivity|exact Hc]. Qed.

(* ------------------------------------------------------------------------------------------ *)
(* the relation is compositional over the result monad                                         *)

Lemma er_rrel_bind {A B} (R : A -> A -> Prop) (R' : B -> B -> Prop) r1 r2 (f1 f2 : A -> res B) :
  rrel R r1 r2 -> (forall a b, R a b -> rrel R' (f1 a) (f2 b)) ->
  rrel R' (bind r1 f1) (bind r2 f2).
Proof.
  intros Hr Hf. destruct r1, r2; cbn [rrel bind] in *; try contradiction; try exact Hr.
  exact (Hf _ _ Hr).
Qed.

Lemma er_rrel_bindl {A B} (R : A -> A -> Prop) (R' : B -> B -> Prop) (g1 g2 : A -> res (list B)) :
  (forall a b, R a b -> rrel (Forall2 R') (g1 a) (g2 b)) ->
  forall l1 l2, Forall2 R l1 l2 -> rrel (Forall2 R') (bindl l1 g1) (bindl l2 g2).
Proof.
  intros Hg l1 l2 HF. induction HF as [|a b l1 l2 Hab HF IH]; cbn [bindl].
  - constructor.
  - apply (er_rrel_bind (Forall2 R') (Forall2 R')); [exact (Hg a b Hab)|].
    intros x y Hxy.
    apply (er_rrel_bind (Forall2 R') (Forall2 R')); [exact IH|].
    intros x' y' Hxy'. cbn [rrel]. apply Forall2_app; assumption.
Qed.

Lemma er_rrel_bindr {A B} (R : A -> A -> Prop) (R' : B -> B -> Prop) r1 r2 (g1 g2 : A -> res (list B)) :
  rrel (Forall2 R) r1 r2 ->
  (forall a b, R a b -> rrel (Forall2 R') (g1 a) (g2 b)) ->
  rrel (Forall2 R') (bindr r1 g1) (bindr r2 g2).
Proof.
  intros Hr Hg. unfold bindr. apply (er_rrel_bind (Forall2 R) (Forall2 R')); [exact Hr|].
  intros l1 l2. apply er_rrel_bindl. exact Hg.
Qed.

Lemma er_rrel_appr {A} (R : A -> A -> Prop) a1 a2 b1 b2 :
  rrel (Forall2 R) a1 a2 -> rrel (Forall2 R) b1 b2 -> rrel (Forall2 R) (appr a1 b1) (appr a2 b2).
Proof.
  intros Ha Hb. unfold appr.
  apply (er_rrel_bind (Forall2 R) (Forall2 R)); [exact Ha|]. intros x y Hxy.
  apply (er_rrel_bind (Forall2 R) (Forall2 R)); [exact Hb|]. intros x' y' Hxy'.
  cbn [rrel]. apply Forall2_app; assumption.
Qed.

Lemma er_rrel_first_only {A} (R : A -> A -> Prop) r1 r2 :
  rrel (Forall2 R) r1 r2 -> rrel (Forall2 R) (first_only r1) (first_only r2).
Proof.
  intros Hr. unfold first_only. apply (er_rrel_bind (Forall2 R) (Forall2 R)); [exact Hr|].
  intros l1 l2 HF. cbn [rrel]. destruct HF as [|a b l1 l2 Hab HF]; [constructor|].
  constructor; [exact Hab|constructor].
Qed.

Lemma er_bindl_single {A B} (h : A -> B) l : bindl l (fun a => Ok [h a]) = Ok (map h l).
Proof. induction l as [|a l IH]; cbn [bindl map bind]; [reflexivity|]. rewrite IH. reflexivity. Qed.

Lemma er_Forall2_map_same {A B} (R : B -> B -> Prop) (f g : A -> B) l :
  (forall x, R (f x) (g x)) -> Forall2 R (map f l) (map g l).
Proof. intros H. induction l as [|x l IH]; cbn [map]; constructor; [apply H|exact IH]. Qed.

Lemma er_Forall2_map {A B} (R : A -> A -> Prop) (R' : B -> B -> Prop) (f g : A -> B) l1 l2 :
  (forall a b, R a b -> R' (f a) (g b)) -> Forall2 R l1 l2 -> Forall2 R' (map f l1) (map g l2).
Proof. intros H HF. induction HF; cbn [map]; constructor; auto. Qed.

Lemma er_reads_observed g : forall t, reads g t = true -> observed g t = true.
Proof.
  induction t as [kd o ch|kd lk o ch m n|o str|o g'|an| | | |o l HF|o l HF|lazy o m n r IHr|o a u r IHr
                 |r IHr|o r IHr|o r IHr|r IHr|o g' yes no IHy IHn|o cnd yes no IHc IHy IHn]
    using node_ind'; cbn [reads observed]; intros H; try assumption; try (apply IHr; assumption).
  - apply existsb_exists in H. destruct H as [x [Hx Hr]]. apply existsb_exists. exists x.
    split; [exact Hx|]. rewrite Forall_forall in HF. exact (HF x Hx Hr).
  - apply existsb_exists in H. destruct H as [x [Hx Hr]]. apply existsb_exists. exists x.
    split; [exact Hx|]. rewrite Forall_forall in HF. exact (HF x Hx Hr).
  - apply orb_prop in H. destruct H as [H|H].
    + apply andb_prop in H. destruct H as [H1 H2]. rewrite H1, H2, orb_true_r. reflexivity.
    + rewrite (IHr H). apply orb_true_r.
  - apply orb_prop in H. destruct H as [H|H].
    + apply orb_prop in H. destruct H as [H|H]; [rewrite H; reflexivity|].
      rewrite (IHy H), orb_true_r. reflexivity.
    + destruct no as [x|]; cbn [opt_b opt_all] in *; [|discriminate H].
      rewrite (IHn H). apply orb_true_r.
  - apply orb_prop in H. destruct H as [H|H].
    + apply orb_prop in H. destruct H as [H|H]; [rewrite (IHc H); reflexivity|].
      rewrite (IHy H), orb_true_r. reflexivity.
    + destruct no as [x|]; cbn [opt_b opt_all] in *; [|discriminate H].
      rewrite (IHn H). apply orb_true_r.
Qed.

Lemma er_unobs_of_observed keep t : (forall g, keep g = false -> observed g t = false) -> unobs keep t.
Proof.
  intros H g Hk. destruct (reads g t) eqn:E; [|reflexivity].
  rewrite <- (H g Hk). symmetry. apply er_reads_observed. exact E.
Qed.

(* ------------------------------------------------------------------------------------------ *)
(* E1                                                                                          *)

Section E1.
Variable e : env.
Variable keep : Z -> bool.

Notation LR := (Forall2 (agree keep)).
Notation SR := (rrel (Forall2 (agree keep))).

Lemma er_unobs_in o l x :
  (unobs keep (NConcat o l) \/ unobs keep (NAlternate o l)) -> In x l -> unobs keep x.
Proof.
  intros H Hin g Hk.
  assert (Hl : existsb (reads g) l = false) by (destruct H as [H|H]; exact (H g Hk)).
  destruct (reads g x) eqn:E; [|reflexivity].
  rewrite <- Hl. symmetry. apply existsb_exists. exists x. split; assumption.
Qed.

Lemma er_iter (b1 b2 : st -> res (list st)) :
  (forall s1 s2, agree keep s1 s2 -> SR (b1 s1) (b2 s2)) ->
  forall fuel lazy limit s1 s2 mark count, agree keep s1 s2 ->
    SR (iter fuel b1 lazy limit s1 mark count) (iter fuel b2 lazy limit s2 mark count).
Proof.
  intros Hb. induction fuel as [|f IH]; intros lazy limit s1 s2 mark count Hag; [exact I|].
  cbn [iter]. pose proof Hag as [Hp Hc]. rewrite <- Hp.
  assert (Hagain :
    SR (bindr (b1 s1) (fun s' => iter f b1 lazy limit s' (pos s1) (count + 1)))
       (bindr (b2 s2) (fun s' => iter f b2 lazy limit s' (pos s1) (count + 1)))).
  { apply (er_rrel_bindr (agree keep) (agree keep)); [exact (Hb s1 s2 Hag)|].
    intros a b Hab. apply IH. exact Hab. }
  assert (Hone : LR [s1] [s2]) by (apply er_one; exact Hag).
  destruct lazy.
  - destruct (count <? 0); [exact Hagain|].
    apply er_rrel_appr; [exact Hone|].
    destruct ((count <? limit) && negb (pos s1 =? mark)); [exact Hagain|constructor].
  - destruct ((limit <=? count) || ((pos s1 =? mark) && (0 <=? count))); [exact Hone|].
    apply er_rrel_appr; [exact Hagain|].
    destruct (0 <=? count); [exact Hone|constructor].
Qed.

Theorem erase_unobserved : forall fuel t s1 s2,
  unobs keep t -> agree keep s1 s2 ->
  rrel (Forall2 (agree keep)) (sem e fuel t s1) (sem e fuel (erase keep t) s2).
Proof.
  induction fuel as [|f IH]; intros t s1 s2 Hun Hag; [exact I|].
  pose proof Hag as [Hp Hc].
  destruct t as [kd o c|kd lk o c m n|o str|o g|a| | | |o cl|o cl|lazy o m n r|o g u r|r|o r|o r|r
                |o g yes no|o c yes no].
  - (* NChar *)
    cbn [erase sem rrel]. rewrite <- Hp.
    destruct ((0 <? avail e o (pos s1)) && char_test e kd c (next_char e o (pos s1)));
      [apply er_one; split; [reflexivity|exact Hc]|constructor].
  - (* NCharLoop *)
    cbn [erase sem rrel]. unfold sem_charloop. rewrite <- Hp. cbv zeta.
    destruct (_ <? m); [constructor|].
    destruct lk.
    + apply er_Forall2_map_same. intros j. split; [reflexivity|exact Hc].
    + apply er_Forall2_map_same. intros j. split; [reflexivity|exact Hc].
    + apply er_one. split; [reflexivity|exact Hc].
  - (* NMulti *)
    cbn [erase sem rrel]. unfold sem_multi. rewrite <- Hp. cbv zeta.
    destruct (avail e o (pos s1) <? zlen str); [constructor|].
    destruct (str_match_at e (is_ci o) str _); [apply er_one; split; [reflexivity|exact Hc]|constructor].
  - (* NRef *)
    cbn [erase sem rrel]. unfold sem_ref.
    assert (Hk : keep g = true).
    { destruct (keep g) eqn:Ek; [reflexivity|]. pose proof (Hun g Ek) as Ho.
      cbn [reads] in Ho. rewrite Z.eqb_refl in Ho. discriminate Ho. }
    rewrite <- (Hc g Hk), <- Hp.
    destruct (cap_get g (caps s1)) as [|[i len] rest].
    + destruct (ecma e); [apply er_one; exact Hag|constructor].
    + destruct (avail e o (pos s1) <? len); [constructor|].
      destruct (ref_match_at e (is_ci o) (Z.to_nat len) i _);
        [apply er_one; split; [reflexivity|exact Hc]|constructor].
  - (* NAnchor *)
    cbn [erase sem rrel]. rewrite <- Hp.
    destruct (anchor_ok e a (pos s1)); [apply er_one; exact Hag|constructor].
  - constructor.
  - cbn [erase sem rrel]. apply er_one; exact Hag.
  - cbn [erase sem rrel]. apply er_one; exact Hag.
  - (* NConcat *)
    cbn [erase sem].
    assert (Hin : forall x, In x cl -> unobs keep x).
    { intros x. apply (er_unobs_in o). left. exact Hun. }
    clear Hun Hp Hc. revert s1 s2 Hag.
    induction cl as [|x l' IHl]; intros s1 s2 Hag.
    + cbn [map rrel]. apply er_one; exact Hag.
    + cbn [map]. apply (er_rrel_bindr (agree keep) (agree keep)).
      * apply IH; [apply Hin; left; reflexivity|exact Hag].
      * intros a b Hab. apply IHl; [|exact Hab]. intros y Hy. apply Hin. right. exact Hy.
  - (* NAlternate *)
    cbn [erase sem].
    assert (Hin : forall x, In x cl -> unobs keep x).
    { intros x. apply (er_unobs_in o). right. exact Hun. }
    clear Hun.
    induction cl as [|x l' IHl].
    + constructor.
    + cbn [map]. apply er_rrel_appr.
      * apply IH; [apply Hin; left; reflexivity|exact Hag].
      * apply IHl. intros y Hy. apply Hin. right. exact Hy.
  - (* NLoop *)
    cbn [erase sem].
    assert (Hr : unobs keep r) by (intros g0 Hk; exact (Hun g0 Hk)).
    assert (HI : forall lazy limit s1 s2 mark count, agree keep s1 s2 ->
               SR (iter f (sem e f r) lazy limit s1 mark count)
                  (iter f (sem e f (erase keep r)) lazy limit s2 mark count)).
    { apply er_iter. intros a b Hab. apply IH; assumption. }
    destruct (m =? 0); [apply HI; exact Hag|].
    apply (er_rrel_bindr (agree keep) (agree keep)); [apply IH; assumption|].
    intros a b Hab. rewrite <- Hp. apply HI. exact Hab.
  - (* NCapture *)
    assert (Hr : unobs keep r).
    { intros g0 Hk. pose proof (Hun g0 Hk) as Ho. cbn [reads] in Ho.
      apply orb_false_elim in Ho. exact (proj2 Ho). }
    cbn [erase]. destruct (u =? -1) eqn:Eu; cbn [andb].
    + destruct (keep g) eqn:Ek; cbn [negb sem]; rewrite Eu.
      * (* kept plain capture *)
        apply (er_rrel_bindr (agree keep) (agree keep)); [apply IH; assumption|].
        intros a b [Hpab Hcab]. cbn [rrel]. apply er_one. split; cbn [pos caps]; [exact Hpab|].
        rewrite <- Hp, <- Hpab. apply er_ca_push. exact Hcab.
      * (* erased plain capture *)
        pose proof (IH r s1 s2 Hr Hag) as Hrel.
        unfold bindr. destruct (sem e f r s1) as [l1| | |], (sem e f (erase keep r) s2) as [l2| | |];
          cbn [rrel bind] in *; try contradiction; try exact Hrel.
        rewrite er_bindl_single. cbn [rrel].
        rewrite <- (map_id l2).
        apply (er_Forall2_map (agree keep) (agree keep)); [|exact Hrel].
        intros a b [Hpab Hcab]. split; cbn [pos caps]; [exact Hpab|].
        unfold cap_push. apply er_ca_set_left; assumption.
    + (* balancing capture: u is read, hence kept *)
      cbn [sem]. rewrite Eu.
      assert (Hku : keep u = true).
      { destruct (keep u) eqn:Ek; [reflexivity|]. pose proof (Hun u Ek) as Ho.
        cbn [reads] in Ho. rewrite Eu, Z.eqb_refl in Ho. discriminate Ho. }
      apply (er_rrel_bindr (agree keep) (agree keep)); [apply IH; assumption|].
      intros a b [Hpab Hcab]. rewrite <- (Hcab u Hku).
      destruct (cap_get u (caps a)) as [|top rest]; [constructor|].
      cbn [rrel]. apply er_one. split; cbn [pos caps]; [exact Hpab|].
      rewrite <- Hp, <- Hpab.
      destruct (g =? -1).
      * apply er_ca_pop. exact Hcab.
      * apply er_ca_push. apply er_ca_pop. exact Hcab.
  - (* NGroup *)
    cbn [erase sem]. apply IH; [|exact Hag]. intros g0 Hk. exact (Hun g0 Hk).
  - (* NPosLook *)
    cbn [erase sem].
    apply (er_rrel_bind (Forall2 (agree keep)) (Forall2 (agree keep))).
    + apply er_rrel_first_only. apply IH; [|exact Hag]. intros g0 Hk. exact (Hun g0 Hk).
    + intros l1 l2 HF. cbn [rrel]. rewrite <- Hp.
      apply (er_Forall2_map (agree keep) (agree keep)); [|exact HF].
      intros a b Hab. apply er_agree_with_pos. exact Hab.
  - (* NNegLook *)
    cbn [erase sem].
    apply (er_rrel_bind (Forall2 (agree keep)) (Forall2 (agree keep))).
    + apply IH; [|exact Hag]. intros g0 Hk. exact (Hun g0 Hk).
    + intros l1 l2 HF. cbn [rrel]. destruct HF; [apply er_one; exact Hag|constructor].
  - (* NAtomic *)
    cbn [erase sem]. apply er_rrel_first_only. apply IH; [|exact Hag].
    intros g0 Hk. exact (Hun g0 Hk).
  - (* NBackRefCond *)
    cbn [erase sem].
    assert (Hk : keep g = true).
    { destruct (keep g) eqn:Ek; [reflexivity|]. pose proof (Hun g Ek) as Ho.
      cbn [reads] in Ho. rewrite Z.eqb_refl in Ho. discriminate Ho. }
    assert (Hy : unobs keep yes).
    { intros g0 Hk0. pose proof (Hun g0 Hk0) as Ho. cbn [reads] in Ho.
      apply orb_false_elim in Ho. destruct Ho as [Ho _]. apply orb_false_elim in Ho. exact (proj2 Ho). }
    unfold is_matched. rewrite <- (Hc g Hk).
    destruct (cap_get g (caps s1)).
    + destruct no as [n|]; cbn [mask_opt_node].
      * apply IH; [|exact Hag]. intros g0 Hk0. pose proof (Hun g0 Hk0) as Ho. cbn [reads] in Ho.
        apply orb_false_elim in Ho. exact (proj2 Ho).
      * cbn [rrel]. apply er_one; exact Hag.
    + apply IH; assumption.
  - (* NExprCond *)
    cbn [erase sem].
    assert (Hcn : unobs keep c).
    { intros g0 Hk0. pose proof (Hun g0 Hk0) as Ho. cbn [reads] in Ho.
      apply orb_false_elim in Ho. destruct Ho as [Ho _]. apply orb_false_elim in Ho. exact (proj1 Ho). }
    assert (Hy : unobs keep yes).
    { intros g0 Hk0. pose proof (Hun g0 Hk0) as Ho. cbn [reads] in Ho.
      apply orb_false_elim in Ho. destruct Ho as [Ho _]. apply orb_false_elim in Ho. exact (proj2 Ho). }
    apply (er_rrel_bind (Forall2 (agree keep)) (Forall2 (agree keep))).
    + apply er_rrel_first_only. apply IH; assumption.
    + intros l1 l2 HF. destruct HF as [|a b l1 l2 Hab HF].
      * destruct no as [n|]; cbn [mask_opt_node].
        -- apply IH; [|exact Hag]. intros g0 Hk0. pose proof (Hun g0 Hk0) as Ho. cbn [reads] in Ho.
           apply orb_false_elim in Ho. exact (proj2 Ho).
        -- cbn [rrel]. apply er_one; exact Hag.
      * rewrite <- Hp. apply IH; [exact Hy|]. apply er_agree_with_pos. exact Hab.
Qed.

(* result lists of the same length *)
Corollary erase_unobserved_length fuel t s1 s2 l1 l2 :
  unobs keep t -> agree keep s1 s2 ->
  sem e fuel t s1 = Ok l1 -> sem e fuel (erase keep t) s2 = Ok l2 -> length l1 = length l2.
Proof.
  intros Hun Hag H1 H2. pose proof (erase_unobserved fuel t s1 s2 Hun Hag) as H.
  rewrite H1, H2 in H. cbn [rrel] in H. clear H1 H2.
  induction H as [|a b l1 l2 _ _ IH]; cbn [length]; [reflexivity|]. rewrite IH. reflexivity.
Qed.

Lemma erase_attempt fuel root p : unobs keep root ->
  rrel (opt_agree keep) (attempt e fuel root p) (attempt e fuel (erase keep root) p).
Proof.
  intros Hun. unfold attempt.
  apply (er_rrel_bind (Forall2 (agree keep)) (opt_agree keep)).
  - apply erase_unobserved; [exact Hun|apply er_agree_refl].
  - intros l1 l2 HF. cbn [rrel]. destruct HF; cbn [opt_agree]; [exact I|assumption].
Qed.

Lemma erase_scan_from fuel root rtl : unobs keep root -> forall n p,
  rrel (opt_agree keep) (scan_from e fuel n root rtl p) (scan_from e fuel n (erase keep root) rtl p).
Proof.
  intros Hun. induction n as [|n IH]; intros p; [exact I|].
  cbn [scan_from]. apply (er_rrel_bind (opt_agree keep) (opt_agree keep)); [apply erase_attempt; exact Hun|].
  intros o1 o2 Ho. destruct o1 as [a|], o2 as [b|]; cbn [opt_agree] in Ho; try contradiction.
  - exact Ho.
  - destruct (if rtl then p <=? 0 else tlen e <=? p); [exact I|apply IH].
Qed.

Theorem erase_find_rel fuel root rtl start prevlen : unobs keep root ->
  rrel (opt_agree keep) (find e fuel root rtl start prevlen) (find e fuel (erase keep root) rtl start prevlen).
Proof.
  intros Hun. unfold find.
  destruct ((prevlen =? 0) && (start =? (if rtl then 0 else tlen e))); [exact I|].
  apply erase_scan_from. exact Hun.
Qed.

End E1.

Lemma er_rrel_opt_spelled keep (r1 r2 : res (option st)) :
  rrel (opt_agree keep) r1 r2 ->
  (forall s1, r1 = Ok (Some s1) -> exists s2, r2 = Ok (Some s2) /\ agree keep s1 s2) /\
  (forall s2, r2 = Ok (Some s2) -> exists s1, r1 = Ok (Some s1) /\ agree keep s1 s2) /\
  (r1 = Ok None <-> r2 = Ok None) /\
  (r1 = Fuel <-> r2 = Fuel).
Proof.
  intros H.
  destruct r1 as [[a|]| | |], r2 as [[b|]| | |]; cbn [rrel opt_agree] in H; try contradiction;
    repeat split; intros; try discriminate; try reflexivity.
  - match goal with Hs : Ok (Some _) = Ok (Some _) |- _ => injection Hs as Hs; subst end.
    exists b. split; [reflexivity|exact H].
  - match goal with Hs : Ok (Some _) = Ok (Some _) |- _ => injection Hs as Hs; subst end.
    exists a. split; [reflexivity|exact H].
Qed.

(* The readable corollary: with no erased group observed in the tree, [find] on the erased tree
   succeeds exactly when it does on the original, with the same final text position and the same
   capture stack for every kept group (group 0, the match span, when keep 0 = true); it fails
   exactly when the original fails; it runs out of fuel exactly when the original does. *)
Theorem erase_find e keep fuel root rtl start prevlen :
  (forall g, keep g = false -> observed g root = false) ->
  let r1 := find e fuel root rtl start prevlen in
  let r2 := find e fuel (erase keep root) rtl start prevlen in
  (forall s1, r1 = Ok (Some s1) ->
     exists s2, r2 = Ok (Some s2) /\ pos s1 = pos s2 /\
                forall g, keep g = true -> cap_get g (caps s1) = cap_get g (caps s2)) /\
  (forall s2, r2 = Ok (Some s2) ->
     exists s1, r1 = Ok (Some s1) /\ pos s1 = pos s2 /\
                forall g, keep g = true -> cap_get g (caps s1) = cap_get g (caps s2)) /\
  (r1 = Ok None <-> r2 = Ok None) /\
  (r1 = Fuel <-> r2 = Fuel).
Proof.
  intros Hun r1 r2. apply er_unobs_of_observed in Hun.
  exact (er_rrel_opt_spelled keep r1 r2 (erase_find_rel e keep fuel root rtl start prevlen Hun)).
Qed.

Theorem erase_unobserved_obs e keep fuel t s1 s2 :
  (forall g, keep g = false -> observed g t = false) -> agree keep s1 s2 ->
  rrel (Forall2 (agree keep)) (sem e fuel t s1) (sem e fuel (erase keep t) s2).
Proof. intros Hun. apply erase_unobserved. apply er_unobs_of_observed. exact Hun. Qed.

(* the same for one attempt at a given position *)
Theorem erase_attempt_spelled e keep fuel root p :
  (forall g, keep g = false -> observed g root = false) ->
  let r1 := attempt e fuel root p in
  let r2 := attempt e fuel (erase keep root) p in
  (forall s1, r1 = Ok (Some s1) -> exists s2, r2 = Ok (Some s2) /\ agree keep s1 s2) /\
  (forall s2, r2 = Ok (Some s2) -> exists s1, r1 = Ok (Some s1) /\ agree keep s1 s2) /\
  (r1 = Ok None <-> r2 = Ok None) /\
  (r1 = Fuel <-> r2 = Fuel).
Proof.
  intros Hun r1 r2. apply er_unobs_of_observed in Hun.
  exact (er_rrel_opt_spelled keep r1 r2 (erase_attempt e keep fuel root p Hun)).
Qed.

(* and for the executable continuation-passing search, whenever the reference terminates *)
Corollary erase_findk e keep fuel root rtl start prevlen s1 :
  (forall g, keep g = false -> observed g root = false) ->
  find e fuel root rtl start prevlen = Ok (Some s1) ->
  exists s2, findk e fuel (erase keep root) rtl start prevlen = Ok (Some s2) /\ agree keep s1 s2.
Proof.
  intros Hun H.
  destruct (erase_find e keep fuel root rtl start prevlen Hun) as [H1 _].
  destruct (H1 s1 H) as [s2 [H2 Hag]]. exists s2. split; [|exact Hag].
  apply findk_find. exact H2.
Qed.

(* ------------------------------------------------------------------------------------------ *)
(* E2: the quick program is the full program of the erased tree                                *)

Definition quick_cfg (cm : option (list (Z * Z))) (q : list bool) : wcfg := {| capmap := cm; quick := Some q |}.
Definition full_cfg (cm : option (list (Z * Z))) : wcfg := {| capmap := cm; quick := None |}.
(* the writer's decision for a plain capture of group g *)
Definition quick_keep (cm : option (list (Z * Z))) (q : list bool) (g : Z) : bool :=
  emit_capture (quick_cfg cm q) g (-1).

Definition opt_ball (f : node -> bool) (no : option node) : bool :=
  match no with Some x => f x | None => true end.

(* every balancing capture (?<g-u>...) of the tree has its u mapped to a real slot (not -1).
   The Go writer builds the map as caps[Capnumlist[i]] = i, so its values are never -1
   (er_capmap_ok_bal_ok below); without this the quick writer would drop a balancing capture
   (erase_compile_needs_bal_ok). *)
Fixpoint bal_ok (cm : option (list (Z * Z))) (t : node) : bool :=
  match t with
  | NConcat _ l => forallb (bal_ok cm) l
  | NAlternate _ l => forallb (bal_ok cm) l
  | NLoop _ _ _ _ r => bal_ok cm r
  | NCapture _ g u r => ((u =? -1) || negb (map_capnum (full_cfg cm) u =? -1)) && bal_ok cm r
  | NGroup r => bal_ok cm r
  | NPosLook _ r => bal_ok cm r
  | NNegLook _ r => bal_ok cm r
  | NAtomic r => bal_ok cm r
  | NBackRefCond _ _ yes no => bal_ok cm yes && opt_ball (bal_ok cm) no
  | NExprCond _ c yes no => bal_ok cm c && bal_ok cm yes && opt_ball (bal_ok cm) no
  | _ => true
  end.

Definition capmap_ok (cm : option (list (Z * Z))) : Prop :=
  match cm with None => True | Some m => Forall (fun kv => snd kv <> -1) m end.

Lemma er_zassoc_ne k m : Forall (fun kv : Z * Z => snd kv <> -1) m -> zassoc k m 0 <> -1.
Proof.
  induction 1 as [|[k' v] m Hv HF IH]; cbn [zassoc]; [lia|].
  destruct (k =? k'); [exact Hv|exact IH].
Qed.

Lemma er_capmap_ok_map cm u : capmap_ok cm -> u <> -1 -> map_capnum (full_cfg cm) u <> -1.
Proof.
  intros Hok Hu. unfold map_capnum. replace (u =? -1) with false by lia.
  cbn [capmap full_cfg]. destruct cm as [m|]; [apply er_zassoc_ne; exact Hok|exact Hu].
Qed.

Lemma er_capmap_ok_bal_ok cm : capmap_ok cm -> forall t, bal_ok cm t = true.
Proof.
  intros Hok.
  induction t as [kd o ch|kd lk o ch m n|o str|o g|an| | | |o l HF|o l HF|lazy o m n r IHr|o g u r IHr
                 |r IHr|o r IHr|o r IHr|r IHr|o g yes no IHy IHn|o cnd yes no IHc IHy IHn]
    using node_ind'; cbn [bal_ok]; try reflexivity; try assumption.
  - apply forallb_forall. intros x Hx. rewrite Forall_forall in HF. exact (HF x Hx).
  - apply forallb_forall. intros x Hx. rewrite Forall_forall in HF. exact (HF x Hx).
  - rewrite IHr, andb_true_r. destruct (u =? -1) eqn:Eu; [reflexivity|]. cbn [orb].
    pose proof (er_capmap_ok_map cm u Hok ltac:(lia)) as Hne.
    destruct (map_capnum (full_cfg cm) u =? -1) eqn:E; [lia|reflexivity].
  - rewrite IHy. destruct no as [x|]; cbn [opt_ball opt_all] in *; [exact IHn|reflexivity].
  - rewrite IHc, IHy. destruct no as [x|]; cbn [opt_ball opt_all] in *; [exact IHn|reflexivity].
Qed.

Lemma er_map_capnum cm q g : map_capnum (quick_cfg cm q) g = map_capnum (full_cfg cm) g.
Proof. reflexivity. Qed.

Lemma er_emit_capture_full cm g u : emit_capture (full_cfg cm) g u = true.
Proof. reflexivity. Qed.

Lemma er_emit_capture_bal cm q g u :
  (u =? -1) = false -> negb (map_capnum (full_cfg cm) u =? -1) = true ->
  emit_capture (quick_cfg cm q) g u = true.
Proof.
  intros Eu Hb.
  unfold emit_capture. cbn [quick quick_cfg]. rewrite er_map_capnum. rewrite Hb. reflexivity.
Qed.

Section E2.
Variable cm : option (list (Z * Z)).
Variable q : list bool.
Notation cq := (quick_cfg cm q).
Notation cf := (full_cfg cm).
Notation keep := (quick_keep cm q).

Lemma er_forallb_cons (f : node -> bool) x l :
  forallb f (x :: l) = true -> f x = true /\ forallb f l = true.
Proof. cbn [forallb]. intros H. apply andb_prop in H. exact H. Qed.

Theorem erase_csize : forall t, bal_ok cm t = true -> csize cq t = csize cf (erase keep t).
Proof.
  induction t as [kd o ch|kd lk o ch m n|o str|o g|an| | | |o l HF|o l HF|lazy o m n r IHr|o g u r IHr
                 |r IHr|o r IHr|o r IHr|r IHr|o g yes no IHy IHn|o cnd yes no IHc IHy IHn]
    using node_ind'; intros Hb; cbn [erase]; try reflexivity; cbn [bal_ok] in Hb.
  - (* NConcat *)
    rewrite !wr_csize_concat_eq.
    induction HF as [|x l Hx HF IH]; [reflexivity|].
    apply er_forallb_cons in Hb. destruct Hb as [Hbx Hbl].
    cbn [map csize_seq]. rewrite (Hx Hbx), (IH Hbl). reflexivity.
  - (* NAlternate *)
    rewrite !wr_csize_alternate_eq.
    induction HF as [|x l Hx HF IH]; [reflexivity|].
    apply er_forallb_cons in Hb. destruct Hb as [Hbx Hbl].
    destruct l as [|y l].
    + cbn [map csize_alt]. exact (Hx Hbx).
    + cbn [map] in IH |- *. rewrite !wr_csize_alt_cons2. rewrite (Hx Hbx), (IH Hbl). reflexivity.
  - cbn [csize]. rewrite (IHr Hb). reflexivity.
  - (* NCapture *)
    apply andb_prop in Hb. destruct Hb as [Hbu Hbr].
    destruct (u =? -1) eqn:Eu; cbn [andb].
    + assert (u = -1) by lia. subst u.
      cbn [csize]. fold (keep g).
      destruct (keep g) eqn:Ek; cbn [negb csize].
      * rewrite er_emit_capture_full. rewrite (IHr Hbr). reflexivity.
      * exact (IHr Hbr).
    + cbn [orb] in Hbu. cbn [csize]. rewrite (er_emit_capture_bal cm q g u Eu Hbu), er_emit_capture_full.
      rewrite (IHr Hbr). reflexivity.
  - cbn [csize]. exact (IHr Hb).
  - cbn [csize]. rewrite (IHr Hb). reflexivity.
  - cbn [csize]. rewrite (IHr Hb). reflexivity.
  - cbn [csize]. rewrite (IHr Hb). reflexivity.
  - apply andb_prop in Hb. destruct Hb as [Hby Hbn].
    cbn [csize]. rewrite (IHy Hby).
    destruct no as [x|]; cbn [mask_opt_node opt_all opt_ball] in *; [rewrite (IHn Hbn)|]; reflexivity.
  - apply andb_prop in Hb. destruct Hb as [Hb Hbn]. apply andb_prop in Hb. destruct Hb as [Hbc Hby].
    cbn [csize]. rewrite (IHc Hbc), (IHy Hby).
    destruct no as [x|]; cbn [mask_opt_node opt_all opt_ball] in *; [rewrite (IHn Hbn)|]; reflexivity.
Qed.

Theorem erase_emit : forall t, bal_ok cm t = true ->
  forall a tbl, emit cq t a tbl = emit cf (erase keep t) a tbl.
Proof.
  induction t as [kd o ch|kd lk o ch m n|o str|o g|an| | | |o l HF|o l HF|lazy o m n r IHr|o g u r IHr
                 |r IHr|o r IHr|o r IHr|r IHr|o g yes no IHy IHn|o cnd yes no IHc IHy IHn]
    using node_ind'; intros Hb a tbl; cbn [erase]; try reflexivity; pose proof Hb as Hb0; cbn [bal_ok] in Hb.
  - (* NConcat *)
    rewrite !wr_emit_concat_eq. clear Hb0. revert a tbl.
    induction HF as [|x l Hx HF IH]; intros a tbl; [reflexivity|].
    apply er_forallb_cons in Hb. destruct Hb as [Hbx Hbl].
    cbn [map emit_seq]. rewrite (Hx Hbx). destruct (emit cf (erase keep x) a tbl) as [cx t1].
    rewrite (IH Hbl). reflexivity.
  - (* NAlternate *)
    rewrite !wr_emit_alternate_eq.
    change (NAlternate o (map (erase keep) l)) with (erase keep (NAlternate o l)).
    rewrite <- (erase_csize (NAlternate o l) Hb0). clear Hb0.
    generalize (a + csize cq (NAlternate o l)) as lend. intros lend. revert a tbl.
    induction HF as [|x l Hx HF IH]; intros a tbl; [reflexivity|].
    apply er_forallb_cons in Hb. destruct Hb as [Hbx Hbl].
    destruct l as [|y l].
    + cbn [map emit_alt]. exact (Hx Hbx a tbl).
    + cbn [map] in IH |- *. rewrite !wr_emit_alt_cons2. rewrite (Hx Hbx).
      destruct (emit cf (erase keep x) (a + 2) tbl) as [cx t1]. cbv zeta.
      rewrite (IH Hbl). reflexivity.
  - cbn [emit]. rewrite (IHr Hb). reflexivity.
  - (* NCapture *)
    apply andb_prop in Hb. destruct Hb as [Hbu Hbr].
    destruct (u =? -1) eqn:Eu; cbn [andb].
    + assert (u = -1) by lia. subst u.
      cbn [emit]. fold (keep g).
      destruct (keep g) eqn:Ek; cbn [negb emit].
      * rewrite er_emit_capture_full. rewrite (IHr Hbr). reflexivity.
      * exact (IHr Hbr a tbl).
    + cbn [orb] in Hbu. cbn [emit]. rewrite (er_emit_capture_bal cm q g u Eu Hbu), er_emit_capture_full.
      rewrite (IHr Hbr). reflexivity.
  - cbn [emit]. exact (IHr Hb a tbl).
  - cbn [emit]. rewrite (IHr Hb). reflexivity.
  - cbn [emit]. rewrite (IHr Hb). reflexivity.
  - cbn [emit]. rewrite (IHr Hb). reflexivity.
  - apply andb_prop in Hb. destruct Hb as [Hby Hbn].
    cbn [emit]. rewrite (IHy Hby). destruct (emit cf (erase keep yes) (a + 6) tbl) as [cy t1].
    destruct no as [x|]; cbn [mask_opt_node opt_all opt_ball] in *; [rewrite (IHn Hbn)|]; reflexivity.
  - apply andb_prop in Hb. destruct Hb as [Hb Hbn]. apply andb_prop in Hb. destruct Hb as [Hbc Hby].
    cbn [emit]. rewrite (IHc Hbc). destruct (emit cf (erase keep cnd) (a + 4) tbl) as [cc t1].
    rewrite (IHy Hby). destruct (emit cf (erase keep yes) (a + 4 + zlen cc + 2) t1) as [cy t2].
    destruct no as [x|]; cbn [mask_opt_node opt_all opt_ball] in *; [rewrite (IHn Hbn)|]; reflexivity.
Qed.

Theorem erase_compile t : bal_ok cm t = true -> compile cq t = compile cf (erase keep t).
Proof. intros Hb. unfold compile. rewrite (erase_emit t Hb). reflexivity. Qed.

End E2.

(* with a slot map as the Go writer builds it (no value is -1) no side condition on the tree is left *)
Corollary erase_compile_capmap_ok cm q t :
  capmap_ok cm ->
  compile {| capmap := cm; quick := Some q |} t =
  compile {| capmap := cm; quick := None |}
          (erase (fun g => emit_capture {| capmap := cm; quick := Some q |} g (-1)) t).
Proof. intros Hok. apply (erase_compile cm q t). apply er_capmap_ok_bal_ok. exact Hok. Qed.

(* syntax.Write's quick program *)
Corollary erase_write_quick cm capsize t :
  capmap_ok cm ->
  write_quick cm capsize t =
  let inuse := slots_in_use (fst (write_full cm t)) capsize in
  if existsb negb inuse
  then Some (fst (write_full cm (erase (fun g => emit_capture {| capmap := cm; quick := Some inuse |} g (-1)) t)))
  else None.
Proof.
  intros Hok. unfold write_quick, write_full. cbv zeta.
  destruct (existsb negb _); [|reflexivity].
  rewrite (erase_compile_capmap_ok cm _ t Hok). reflexivity.
Qed.

(* the side condition is needed: a map that sends the u of a balancing capture to -1 makes the
   quick writer drop that capture, which [erase] (plain captures only) never does *)
Example erase_compile_needs_bal_ok :
  let cm := Some [(1, 0); (2, -1)] in
  let t := NCapture 0 1 2 NEmpty in
  let keep := fun g => emit_capture {| capmap := cm; quick := Some [false] |} g (-1) in
  bal_ok cm t = false /\ erase keep t = t /\
  compile {| capmap := cm; quick := Some [false] |} t = ([Lazybranch; 2; Stop], []) /\
  compile {| capmap := cm; quick := None |} (erase keep t) =
    ([Lazybranch; 6; Setmark; Capturemark; 0; -1; Stop], []).
Proof. vm_compute. repeat split; reflexivity. Qed.
