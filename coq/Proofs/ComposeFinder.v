(* C03 x C04, second part: end-to-end soundness of the find modes whose fact C04 proves for the analyses of
   Model/Analysis2.v (prefixanalyzer.go / prefix.go).  Same shape as Proofs/FinderCompose.v:
     on a tree satisfying the C04 side conditions, whatever the decision ladder selected, if the DATA it
     publishes is the output of the analysis function, then the scan loop with the finder of that mode in
     front returns what Spec.find (the accelerator-free scan) returns.
   One attempt of the matcher is Spec.attempt ([bp_exec e fuel root bumpq]).
   Covered: fixed-distance sets / leading set (modes 21 / 16), fixed-distance char (19), fixed-distance
   string (20), literal after loop (22), leading strings exact / ignore-case (14 / 15), ignore-case leading
   string (13), landmark chain (23), and the legacy first-character loop of findFirstCharDefault (both
   directions).
   No new model: only the translation of the analysis' result records (Analysis2.fdset / lal / lm_alt, which
   carry class STRUCTURES or tree set ids) into the records the runner reads (Finder.fdset / fdlal / fdalt,
   which carry set ids answered by a CharIn oracle) and the composition of the two families of theorems. *)
From Coq Require Import ZifyBool.
From Verif Require Import Base.Prelude Base.Utf8 Model.CharClass Model.Tree Model.Spec Model.Scan Model.Finder
     Model.Analysis Model.Analysis2
     Proofs.ScanProofs Proofs.ScanBumpProofs Proofs.FinderProofs Proofs.FinderCompose Proofs.Utf8Proofs
     Proofs.AnalysisReach Proofs.AnalysisProofs Proofs.AnalysisPrefix Proofs.AnalysisFacts
     Proofs.Analysis2Cls Proofs.Analysis2Ffcc Proofs.Analysis2Fixed Proofs.Analysis2Lal Proofs.Analysis2Prefixes
     Proofs.Analysis2Chain Proofs.Analysis2Fc Proofs.Analysis2Abbrev.

(* ---------- translation of the published fixed-distance sets ----------
   FixedDistanceSet.Set is a *CharSet; the finder model reads it through an oracle [set_in id]; the analysis
   model produces the class structure.  The i-th published set gets id i, and the oracle of the finder is
   CharIn of that structure as C16 models it ([char_in cat_in]). *)
Definition cf_fdset (i : Z) (f : Analysis2.fdset) : Finder.fdset :=
  {| Finder.fs_set := Some i; Finder.fs_chars := Analysis2.fs_chars f; Finder.fs_negated := Analysis2.fs_neg f;
     Finder.fs_range := Analysis2.fs_range f; Finder.fs_distance := Analysis2.fs_dist f |}.

Fixpoint cf_fdsets_from (i : Z) (L : list Analysis2.fdset) : list Finder.fdset :=
  match L with
  | [] => []
  | f :: L' => cf_fdset i f :: cf_fdsets_from (i + 1) L'
  end.
Definition cf_fdsets (L : list Analysis2.fdset) : list Finder.fdset := cf_fdsets_from 0 L.

Definition cf_set_in (cat_in : Z -> Z -> bool) (L : list Analysis2.fdset) (id x : Z) : bool :=
  match nth_error L (Z.to_nat id) with
  | Some f => char_in cat_in (Analysis2.fs_set f) x
  | None => false
  end.

Lemma cf_fdsets_from_in : forall L i s, 0 <= i -> In s (cf_fdsets_from i L) ->
  exists j f, 0 <= j /\ s = cf_fdset (i + j) f /\ nth_error L (Z.to_nat j) = Some f.
Proof.
  induction L as [|f0 L IH]; intros i s Hi Hin; cbn [cf_fdsets_from] in Hin; [destruct Hin|].
  destruct Hin as [<-|Hin].
  - exists 0, f0. split; [lia|]. split; [f_equal; lia|reflexivity].
  - destruct (IH (i + 1) s ltac:(lia) Hin) as (j & f & Hj & -> & Hn).
    exists (j + 1), f. split; [lia|]. split; [f_equal; lia|].
    replace (Z.to_nat (j + 1)) with (S (Z.to_nat j)) by lia. exact Hn.
Qed.

Lemma cf_fdsets_in : forall L s, In s (cf_fdsets L) ->
  exists j f, 0 <= j /\ s = cf_fdset j f /\ nth_error L (Z.to_nat j) = Some f.
Proof.
  intros L s Hin. destruct (cf_fdsets_from_in L 0 s ltac:(lia) Hin) as (j & f & Hj & -> & Hn).
  exists j, f. split; [exact Hj|]. split; [f_equal|exact Hn].
Qed.

(* ---------- findFixedDistanceString: the literal lies INSIDE the text, and its distance is a published one ---------- *)
Section CfString.
Variable cat_in : Z -> Z -> bool.
Variable e : env.
Variable p : Z.

Definition cf_lit_in (s : list Z) (d0 : Z) : Prop :=
  forall i, 0 <= i < zlen s -> p + d0 + i < tlen e /\ char_at e (p + d0 + i) = nth (Z.to_nat i) s 0.

Definition cf_cur_ok (cur : option (Z * list Z * Z)) : Prop :=
  match cur with None => True | Some (d0, s, dl) => dl = d0 + zlen s - 1 /\ cf_lit_in s d0 end.
Definition cf_best_ok (best : option (list Z * Z)) : Prop :=
  match best with None => True | Some (s, d0) => cf_lit_in s d0 end.

Lemma cf_close_ok cur best : cf_cur_ok cur -> cf_best_ok best -> cf_best_ok (fds_close_b cur best).
Proof.
  intros Hc Hb. unfold fds_close_b. destruct cur as [[[d0 s] dl]|]; [|exact Hb].
  destruct (_ <=? zlen s); [exact (proj2 Hc)|exact Hb].
Qed.

Lemma cf_lit_in_snoc s d0 c :
  cf_lit_in s d0 -> p + d0 + zlen s < tlen e -> char_at e (p + d0 + zlen s) = c -> cf_lit_in (s ++ [c]) d0.
Proof.
  intros Hs Hb Hc i Hi. unfold zlen in *. rewrite app_length in Hi. cbn [length] in Hi.
  destruct (Z_lt_ge_dec i (Z.of_nat (length s))) as [Hl|Hl].
  - rewrite app_nth1 by lia. apply Hs. unfold zlen. lia.
  - assert (i = Z.of_nat (length s)) by lia. subst i. rewrite app_nth2 by lia.
    replace (Z.to_nat (Z.of_nat (length s)) - length s)%nat with 0%nat by lia. cbn [nth]. split; [exact Hb|exact Hc].
Qed.

Lemma cf_lit_in_single c d0 : p + d0 < tlen e -> char_at e (p + d0) = c -> cf_lit_in [c] d0.
Proof.
  intros Hb Hc i Hi. unfold zlen in Hi. cbn [length] in Hi. assert (i = 0) by lia. subst i.
  replace (p + d0 + 0) with (p + d0) by lia. split; [exact Hb|exact Hc].
Qed.

Lemma cf_walk_ok : forall l cur best,
  (forall f, In f l -> fd_true cat_in e p f) -> cf_cur_ok cur -> cf_best_ok best -> cf_best_ok (fds_walk_b l cur best).
Proof.
  induction l as [|x l IH]; intros cur best Hl Hc Hb; cbn [fds_walk_b]; [apply cf_close_ok; assumption|].
  assert (Hx : fd_true cat_in e p x) by (apply Hl; left; reflexivity).
  assert (Hl' : forall f, In f l -> fd_true cat_in e p f) by (intros f Hf; apply Hl; right; exact Hf).
  destruct (fds_single x) as [c|] eqn:Es.
  - pose proof (fds_single_true cat_in e p x c Hx Es) as Hch.
    assert (Hin : p + Analysis2.fs_dist x < tlen e) by exact (proj1 (proj2 Hx)).
    destruct cur as [[[d0 s] dl]|].
    + destruct (Analysis2.fs_dist x =? dl + 1) eqn:Ed.
      * apply IH; [exact Hl'| |exact Hb]. destruct Hc as [Hdl Hs]. cbn [cf_cur_ok]. split.
        -- unfold zlen in *. rewrite app_length. cbn [length]. lia.
        -- apply cf_lit_in_snoc; [exact Hs| |].
           ++ replace (p + d0 + zlen s) with (p + Analysis2.fs_dist x) by lia. exact Hin.
           ++ rewrite <- Hch. f_equal. lia.
      * apply IH; [exact Hl'| |apply cf_close_ok; assumption]. cbn [cf_cur_ok]. split; [unfold zlen; cbn [length]; lia|].
        apply cf_lit_in_single; assumption.
    + apply IH; [exact Hl'| |exact Hb]. cbn [cf_cur_ok]. split; [unfold zlen; cbn [length]; lia|].
      apply cf_lit_in_single; assumption.
  - apply IH; [exact Hl'|exact I|apply cf_close_ok; assumption].
Qed.

Lemma cf_fds_string_in l str d0 :
  (forall f, In f l -> fd_true cat_in e p f) -> find_fixed_distance_string l = Some (str, d0) -> cf_lit_in str d0.
Proof.
  intros Hl. unfold find_fixed_distance_string. destruct (zlen l <? 2); [discriminate|]. intros H.
  assert (Hb : cf_best_ok (fds_walk_b (fds_sort l) None None)).
  { apply cf_walk_ok; [|exact I|exact I]. intros f Hf. apply Hl. apply fds_sort_in. exact Hf. }
  rewrite H in Hb. exact Hb.
Qed.
End CfString.

(* static: the distance of the extracted string is the distance of a published set *)
Definition cf_cur_d (l0 : list Analysis2.fdset) (cur : option (Z * list Z * Z)) : Prop :=
  match cur with None => True | Some (d0, _, _) => exists f, In f l0 /\ Analysis2.fs_dist f = d0 end.
Definition cf_best_d (l0 : list Analysis2.fdset) (best : option (list Z * Z)) : Prop :=
  match best with None => True | Some (_, d0) => exists f, In f l0 /\ Analysis2.fs_dist f = d0 end.

Lemma cf_close_d l0 cur best : cf_cur_d l0 cur -> cf_best_d l0 best -> cf_best_d l0 (fds_close_b cur best).
Proof.
  intros Hc Hb. unfold fds_close_b. destruct cur as [[[d0 s] dl]|]; [|exact Hb].
  destruct (_ <=? zlen s); [exact Hc|exact Hb].
Qed.

Lemma cf_walk_d l0 : forall l cur best,
  (forall f, In f l -> In f l0) -> cf_cur_d l0 cur -> cf_best_d l0 best -> cf_best_d l0 (fds_walk_b l cur best).
Proof.
  induction l as [|x l IH]; intros cur best Hl Hc Hb; cbn [fds_walk_b]; [apply cf_close_d; assumption|].
  assert (Hx : In x l0) by (apply Hl; left; reflexivity).
  assert (Hl' : forall f, In f l -> In f l0) by (intros f Hf; apply Hl; right; exact Hf).
  assert (Hnew : forall s dl, cf_cur_d l0 (Some (Analysis2.fs_dist x, s, dl))) by (intros s dl; exists x; auto).
  destruct (fds_single x) as [c|].
  - destruct cur as [[[d0 s] dl]|].
    + destruct (Analysis2.fs_dist x =? dl + 1).
      * apply IH; [exact Hl'|exact Hc|exact Hb].
      * apply IH; [exact Hl'|apply Hnew|apply cf_close_d; assumption].
    + apply IH; [exact Hl'|apply Hnew|exact Hb].
  - apply IH; [exact Hl'|exact I|apply cf_close_d; assumption].
Qed.

Lemma cf_fds_string_dist l str d0 :
  find_fixed_distance_string l = Some (str, d0) -> exists f, In f l /\ Analysis2.fs_dist f = d0.
Proof.
  unfold find_fixed_distance_string. destruct (zlen l <? 2); [discriminate|]. intros H.
  assert (Hb : cf_best_d l (fds_walk_b (fds_sort l) None None)).
  { apply cf_walk_d; [|exact I|exact I]. intros f Hf. apply fds_sort_in. exact Hf. }
  rewrite H in Hb. exact Hb.
Qed.

(* ---------- translation of the other published records ---------- *)
(* the record the runner reads: LiteralAfterLoop{String, StringIgnoreCase, Char, Chars, LoopNode.Set};
   a case-sensitive String is the Go string whose bytes the analysis collected ([]rune of it = runes_of),
   the ignore-case String is the ASCII rune list itself *)
Definition cf_lal (L : lal) : fdlal :=
  match lal_what L with
  | LalChar c =>
      {| lal_string := []; lal_string_ic := false; lal_char := c; lal_chars := []; lal_loop_set := Some (lal_loop L) |}
  | LalChars cs =>
      {| lal_string := []; lal_string_ic := false; lal_char := 0; lal_chars := cs; lal_loop_set := Some (lal_loop L) |}
  | LalString b false =>
      {| lal_string := runes_of b; lal_string_ic := false; lal_char := 0; lal_chars := [];
         lal_loop_set := Some (lal_loop L) |}
  | LalString cp true =>
      {| lal_string := cp; lal_string_ic := true; lal_char := 0; lal_chars := []; lal_loop_set := Some (lal_loop L) |}
  end.


Definition cf_alt (a : lm_alt) : fdalt :=
  {| la_literal := la_lit a; Finder.la_set := Analysis2.la_set a; la_lead_ws := la_lead a; la_trail_ws := la_trail a;
     Finder.la_min := Analysis2.la_min a; Finder.la_max := Analysis2.la_max a;
     Finder.la_req_before := Analysis2.la_req_before a; Finder.la_req_after := Analysis2.la_req_after a |}.

Definition cf_chain (loop : Z) (lms : list (list lm_alt)) : fdchain :=
  {| lc_loop_set := Some loop; lc_landmarks := map (map cf_alt) lms |}.

(* ---------- static facts about what the analyses publish ---------- *)
Section CfStatic.
Variable cat_in : Z -> Z -> bool.
Variable sets : list cls.
Variable root : node.

(* static: a published String is not empty *)
Lemma cf_lal_static : forall part_cc L,
  find_lit_after_loop cat_in part_cc sets root = Ok (Some L) ->
  match lal_what L with LalString b _ => b <> [] | _ => True end.
Proof.
  intros part_cc L. unfold find_lit_after_loop. cbv zeta.
  repeat match goal with
  | |- context [match ?x with _ => _ end] => destruct x eqn:?; try discriminate
  end.
  all: intros H; injection H as <-; cbn [lal_what]; try exact I; try discriminate.
  all: cbn [lal_what] in *;
       match goal with H : LalString _ _ = LalString _ _ |- _ => injection H as <- <- end; try discriminate.
  intros E. match goal with H : (2 <=? zlen ?x) = true |- _ => rewrite E in H; discriminate H end.
Qed.

Lemma cf_runes_of_nonempty : forall b, b <> [] -> runes_of b <> [].
Proof. intros [|x b] H; [contradiction|]. unfold runes_of, decode. cbn [decode_aux map]. discriminate. Qed.

Lemma cf_prefixes_static : forall part_cc ic ps,
  find_prefixes cat_in part_cc sets ic root = Some ps -> Forall (fun P => P <> []) ps.
Proof.
  intros part_cc ic ps. unfold find_prefixes. cbv zeta.
  destruct (_ || _) eqn:E; [discriminate|]. intros H. injection H as <-.
  apply orb_false_iff in E. destruct E as [_ E]. apply Forall_forall. intros P HP ->.
  assert (Hex : existsb (fun p => blen p <? MIN_PREFIX_LEN) (snd (fp_core cat_in part_cc sets ic true root [[]])) = true).
  { apply existsb_exists. exists []. split; [exact HP|reflexivity]. }
  congruence.
Qed.

(* static: MinRepeat of every published alternative is positive *)
Lemma cf_lm_core_min : forall t lit st mn mx, lm_core cat_in sets t = Some (lit, st, mn, mx) -> 0 < mn.
Proof.
  intros t lit st mn mx. unfold lm_core.
  repeat match goal with
  | |- context [match ?x with _ => _ end] => destruct x eqn:?; try discriminate
  end.
  all: intros H; injection H as <- <- <- <-; lia.
Qed.

Lemma cf_extract_alt_min : forall t a, extract_alt cat_in sets t = Some a -> 0 < Analysis2.la_min a.
Proof.
  intros t a. unfold extract_alt. cbv zeta.
  repeat match goal with
  | |- context [lm_core cat_in sets ?x] => let E := fresh "Ecore" in destruct (lm_core cat_in sets x) as [[[[? ?] ?] ?]|] eqn:E
  | |- context [match ?x with _ => _ end] => destruct x eqn:?; try discriminate
  end; try discriminate.
  all: intros H; injection H as <-; cbn [Analysis2.la_min];
       match goal with E : lm_core _ _ _ = Some _ |- _ => exact (cf_lm_core_min _ _ _ _ _ E) end.
Qed.

Lemma cf_all_some_forall {A} (P : A -> Prop) : forall (l : list (option A)) r,
  all_some l = Some r -> (forall x, In (Some x) l -> P x) -> Forall P r.
Proof.
  induction l as [|[a|] l IH]; intros r H HP; cbn [all_some] in H; [injection H as <-; constructor| |discriminate].
  destruct (all_some l) as [r'|] eqn:E; [|discriminate]. injection H as <-. constructor.
  - apply HP. left. reflexivity.
  - apply (IH r' eq_refl). intros x Hx. apply HP. right. exact Hx.
Qed.

Lemma cf_extract_landmark_min : forall t lm, extract_landmark cat_in sets t = Some lm ->
  Forall (fun a => 0 < Analysis2.la_min a) lm.
Proof.
  intros t lm. unfold extract_landmark.
  assert (Hone : forall nd, match extract_alt cat_in sets nd with Some a => Some [a] | None => None end = Some lm ->
                  Forall (fun a => 0 < Analysis2.la_min a) lm).
  { intros nd H. destruct (extract_alt cat_in sets nd) as [a|] eqn:E; [|discriminate]. injection H as <-.
    constructor; [exact (cf_extract_alt_min nd a E)|constructor]. }
  destruct (unwrap_t t) eqn:Eu; try (apply Hone).
  destruct (all_some (map (extract_alt cat_in sets) l)) as [[|a r]|] eqn:E; try discriminate.
  intros H. injection H as <-.
  apply (cf_all_some_forall _ _ _ E). intros x Hx. apply in_map_iff in Hx. destruct Hx as (nd & Hnd & _).
  exact (cf_extract_alt_min nd x Hnd).
Qed.

Lemma cf_lm_collect_min : forall l acc r, lm_collect cat_in sets l acc = Some r ->
  Forall (Forall (fun a => 0 < Analysis2.la_min a)) acc -> Forall (Forall (fun a => 0 < Analysis2.la_min a)) r.
Proof.
  induction l as [|x l IH]; intros acc r H Hacc; cbn [lm_collect] in H; [injection H as <-; exact Hacc|].
  destruct (extract_landmark cat_in sets x) as [lm|] eqn:E.
  - apply (IH _ _ H). apply Forall_app. split; [exact Hacc|]. constructor; [exact (cf_extract_landmark_min x lm E)|constructor].
  - destruct acc as [|a0 acc'].
    + destruct (is_zero_width_gap x); [|discriminate]. exact (IH _ _ H Hacc).
    + exact (IH _ _ H Hacc).
Qed.

Lemma cf_chain_static : forall loop lms, find_landmark_chain cat_in sets root = Some (loop, lms) ->
  Forall (Forall (fun a => 0 < Analysis2.la_min a)) lms.
Proof.
  intros loop lms. unfold find_landmark_chain. cbv zeta.
  destruct (match root with NCapture o _ _ _ | NConcat o _ => is_rtl o | _ => false end); [discriminate|].
  destruct (unwrap_t root); try discriminate.
  destruct (zlen l <? 4); [discriminate|]. destruct l as [|first rest]; [discriminate|].
  destruct (is_set_loop_inf (unwrap_t first)) as [lp|]; [|discriminate].
  destruct (lm_collect cat_in sets rest []) as [r|] eqn:E; [|discriminate].
  destruct (zlen r <? 2); [discriminate|]. intros H. injection H as <- <-.
  apply (cf_lm_collect_min rest [] r E). constructor.
Qed.

Lemma cf_chain_len : forall loop lms, find_landmark_chain cat_in sets root = Some (loop, lms) -> 2 <= zlen lms.
Proof.
  intros loop lms. unfold find_landmark_chain. cbv zeta.
  destruct (match root with NCapture o _ _ _ | NConcat o _ => is_rtl o | _ => false end); [discriminate|].
  destruct (unwrap_t root); try discriminate.
  destruct (zlen l <? 4); [discriminate|]. destruct l as [|first rest]; [discriminate|].
  destruct (is_set_loop_inf (unwrap_t first)) as [lp|]; [|discriminate].
  destruct (lm_collect cat_in sets rest []) as [r|]; [|discriminate].
  destruct (zlen r <? 2) eqn:E2; [discriminate|]. intros H. injection H as <- <-. lia.
Qed.

Lemma cf_alts_wf : forall alts, Forall (fun a => 0 < Analysis2.la_min a) alts -> fd_alts_wf (map cf_alt alts).
Proof.
  intros alts H a Hin. apply in_map_iff in Hin. destruct Hin as (a0 & <- & Hin0).
  rewrite Forall_forall in H. specialize (H a0 Hin0). cbn [cf_alt Finder.la_min]. lia.
Qed.

Lemma cf_chain_wf : forall lms, Forall (Forall (fun a => 0 < Analysis2.la_min a)) lms -> fd_chain_wf (map (map cf_alt) lms).
Proof.
  induction lms as [|alts lms IH]; intros H; cbn [map fd_chain_wf]; [exact I|].
  inversion H; subst. split; [apply cf_alts_wf; assumption|apply IH; assumption].
Qed.

End CfStatic.

(* ---------- the analysis' conclusions in the form the finder theorems take ---------- *)
Section CfGeneric.
Variable e : env.
Local Notation n := (tlen e).

(* rune-by-rune comparison: what the analysis proves is what the finder compares *)
Lemma cf_ci_eqc : forall (lower' : Z -> Z) (P : list Z) c x,
  (forall u, 65 <= u <= 90 -> lower' u = u + 32) ->
  ci_match c x = true -> fd_leading_eqc lower' true P x c = true.
Proof.
  intros lower' P c x Hlow H. unfold ci_match in H. unfold fd_leading_eqc.
  destruct (fd_is_ascii_runes P).
  - unfold fd_eq_fold_ascii, fd_fold_ascii.
    destruct ((65 <=? x) && (x <=? 90)) eqn:E1; destruct ((65 <=? c) && (c <=? 90)) eqn:E2; lia.
  - unfold fd_eq_lower. destruct (x =? c) eqn:E; [reflexivity|].
    assert (Hx : 65 <= x <= 90 /\ x = c - 32) by lia. rewrite (Hlow x (proj1 Hx)). lia.
Qed.

Lemma cf_ci_prefix_match : forall (lower' : Z -> Z) (cp : list Z) k,
  (forall u, 65 <= u <= 90 -> lower' u = u + 32) -> 0 <= k ->
  ci_ok e cp k -> fd_prefix_match (fd_leading_eqc lower' true cp) cp (skipn (Z.to_nat k) (txt e)) = true.
Proof.
  intros lower' cp k Hlow Hk Hok.
  destruct (Z.eq_dec (zlen cp) 0) as [Hz|Hz].
  - destruct cp; [reflexivity|]. rewrite fd_zlen_cons in Hz. pose proof (fd_zlen_nonneg cp). lia.
  - pose proof (fd_zlen_nonneg cp) as Hnn.
    destruct (Hok (zlen cp - 1) ltac:(lia)) as [Hb _]. unfold tlen in Hb.
    apply fd_prefix_match_intro.
    + rewrite fd_zlen_skipn by lia. lia.
    + intros j Hj. rewrite fd_nth_skipn_Z by lia. destruct (Hok j Hj) as [_ Hc].
      apply cf_ci_eqc; [exact Hlow|exact Hc].
Qed.

Lemma cf_pm_eqc : forall (ic : bool) c x,
  (ic = true -> forall u, 65 <= u <= 90 -> lower e u = u + 32) ->
  pm ic c x = true -> fd_strings_eqc (lower e) ic x c = true.
Proof.
  intros ic c x Hlow H. unfold pm in H. unfold fd_strings_eqc. destruct ic.
  - unfold ci_match in H. unfold fd_eq_lower. destruct (x =? c) eqn:E; [reflexivity|].
    assert (Hx : 65 <= x <= 90 /\ x = c - 32) by lia. rewrite (Hlow eq_refl x (proj1 Hx)). lia.
  - unfold fd_eq_exact. exact H.
Qed.

(* one alternative: the analysis' [alt_at] gives the finder's [fd_alt_match_at] *)
Lemma cf_alt_match : forall a s c en t, alt_at e a s c en t ->
  fd_alt_match_at (txt e) (set_in e) (cf_alt a) c en /\ 0 <= s <= c /\ en <= t <= n /\
  (forall i, s <= i < c -> fd_opt_set_in (set_in e) (la_lead a) (nth (Z.to_nat i) (txt e) 0) = true).
Proof.
  intros a s c en t (Hlead & Hrb & Hcore & Htrail & Hra & Hs0 & Htn).
  unfold tlen in Htn.
  assert (Hsc : s <= c) by (unfold ws_run in Hlead; destruct (la_lead a); [exact (proj1 Hlead)|lia]).
  assert (Het : en <= t) by (unfold ws_run in Htrail; destruct (la_trail a); [exact (proj1 Htrail)|lia]).
  split; [|split; [lia|split; [unfold tlen; lia|]]].
  - unfold fd_alt_match_at. cbn [cf_alt Finder.la_req_before Finder.la_req_after la_lead_ws la_trail_ws la_literal
                                 Finder.la_set Finder.la_min Finder.la_max].
    split; [|split].
    + intros Hb. specialize (Hrb Hb). split; [lia|]. unfold ws_run in Hlead.
      destruct (la_lead a) as [ws|]; [|lia]. exists ws. split; [reflexivity|]. apply (proj2 Hlead). lia.
    + destruct (Analysis2.la_set a) as [sid|].
      * destruct Hcore as (Hl & Hmn & Hb & Hrun). right. split; [exact Hl|]. exists sid. split; [reflexivity|].
        split; [exact Hmn|]. split.
        -- unfold fd_alt_emax. cbn [cf_alt Finder.la_max Finder.la_min]. destruct (Analysis2.la_max a <=? 0) eqn:E; lia.
        -- split; [lia|exact Hrun].
      * destruct Hcore as (Hl & Hen & Hch). left. split; [exact Hl|]. split; [exact Hen|].
        apply fd_prefix_match_intro.
        -- rewrite fd_zlen_skipn by (unfold tlen in Htn; pose proof (fd_zlen_nonneg (la_lit a)); lia).
           unfold tlen in Htn. lia.
        -- intros j Hj. rewrite fd_nth_skipn_Z by lia. unfold fd_eq_exact. specialize (Hch j Hj).
           unfold char_at in Hch. rewrite Hch. apply Z.eqb_refl.
    + intros Ha. specialize (Hra Ha). split; [unfold tlen in Htn; lia|]. unfold ws_run in Htrail.
      destruct (la_trail a) as [ws|]; [|lia]. exists ws. split; [reflexivity|]. apply (proj2 Htrail). lia.
  - intros i Hi. unfold ws_run in Hlead. unfold fd_opt_set_in. destruct (la_lead a) as [ws|]; [|lia].
    apply (proj2 Hlead). exact Hi.
Qed.

Lemma cf_chain_rest : forall lms from from', chain_from e lms from -> from' <= from ->
  fd_chain_rest (txt e) (set_in e) (map (map cf_alt) lms) from'.
Proof.
  induction lms as [|alts lms IH]; intros from from' H Hle; cbn [map fd_chain_rest]; [exact I|].
  cbn [chain_from] in H. destruct H as (a & s & c & en & t & Hin & Hfs & Hat & Hrest).
  destruct (cf_alt_match a s c en t Hat) as (Hm & Hsc & Het & _).
  exists (cf_alt a), c, en. split; [apply in_map; exact Hin|]. split; [lia|]. split; [lia|]. split; [exact Hm|].
  apply (IH t en Hrest). lia.
Qed.

End CfGeneric.

(* ---------- the composition ---------- *)
Section ComposeFinder.
Variable e : env.
Variable fuel : nat.
Variable root : node.
Variable bumpq : Z -> Z.
Variable later_useful : bool.

Local Notation exec := (bp_exec e fuel root bumpq).
Local Notation n := (tlen e).
Local Notation f := (facts false later_useful root).

Hypothesis Hshape : shape_ok false root = true.
Hypothesis Hnoci : no_ci_lit root = true.
Hypothesis Hlook : look_ok root = true.
Hypothesis Hfuel : forall x, 0 <= x <= n -> exists r, attempt e fuel root x = Ok r.
Hypothesis H3 : sc_H3 st n false exec.

(* fc_optimized_scan with the finder's own CharIn / ToLower oracles *)
Lemma cf_optimized_scan : forall (set_in' : Z -> Z -> bool) (lower' : Z -> Z) (g : fdopts),
  fo_minreq g = f_min f -> fd_mode_handled g = true ->
  fd_mode_fact st (txt e) exec set_in' lower' g ->
  forall start prevlen, 0 <= start <= n ->
  exists r, find e fuel root false start prevlen = Ok r /\
            scan n false (f_min f) (fd_total (fd_optimized_finder (txt e) set_in' lower' g)) exec start prevlen = Ok r.
Proof.
  intros set_in' lower' g Hmr Hh Hmf start prevlen Hs.
  pose proof (fc_minlen_fact e fuel root bumpq later_useful Hshape Hnoci Hlook) as Hmin.
  destruct (fd_optimized_sound st (txt e) exec set_in' lower' g Hh ltac:(rewrite Hmr; exact Hmin) Hmf) as [Hsound _].
  destruct (fd_scan_sound st (txt e) exec (f_min f) _ Hsound Hmin H3 start prevlen Hs) as (r & Hr1 & Hr2).
  exists r. split; [|exact Hr1].
  rewrite (bp_find_naive_scan e fuel root false bumpq start prevlen Hfuel Hs). exact Hr2.
Qed.

(* the class table of the tree and the tie between the semantics' oracle and C16's CharIn *)
Variable cat_in : Z -> Z -> bool.
Variable sets : list cls.
Hypothesis Hgood : forallb cls_good_b sets = true.
Hypothesis Hagree : forall id x, set_in e id x = char_in cat_in (set_cls sets id) x.

Let Hgood' : sets_good cat_in sets := sets_good_b cat_in sets Hgood.

(* ===== fixed-distance sets / leading set, fixed-distance char, fixed-distance string ===== *)
Hypothesis Hvalid : forall i, 0 <= char_at e i <= 1114111.
Hypothesis Hshort : n < INF.
Hypothesis Hlits : lits_ok root = true.

Lemma cf_raw_dist_nonneg th :
  forall S d, In (S, d) (fixed_distance_raw cat_in sets th root) -> 0 <= d.
Proof.
  intros S d Hin. unfold fixed_distance_raw in Hin.
  destruct (syn_loc cat_in sets th root (syn_all cat_in sets th Hgood' root Hshape Hlits)) as (_ & Hall & _).
  unfold locof, rf_res in Hall. destruct (raw_fixed cat_in sets th root [] 0) as [[ok res] dd]. cbn [fst snd] in Hall.
  destruct (filter (fun sd : cls * Z => negb (anything (fst sd))) res) as [|f0 fl] eqn:Ef.
  - destruct (find_first_char_class cat_in sets root) as [c|]; [|destruct Hin].
    destruct (anything c); [destruct Hin|]. destruct Hin as [Heq|[]]. injection Heq as <- <-. lia.
  - rewrite <- Ef in Hin. apply filter_In in Hin. destruct Hin as [Hin _]. exact (proj1 (proj2 (Hall S d Hin))).
Qed.

Lemma cf_fds_dist_nonneg th :
  forall f0, In f0 (find_fixed_distance_sets cat_in sets th root) -> 0 <= Analysis2.fs_dist f0.
Proof.
  intros f0 Hin. unfold find_fixed_distance_sets in Hin. apply in_map_iff in Hin. destruct Hin as [[S d] [<- Hin]].
  replace (Analysis2.fs_dist (fd_decorate cat_in (S, d))) with d.
  - exact (cf_raw_dist_nonneg th S d Hin).
  - unfold fd_decorate. cbn [fst snd]. destruct (get_if_one_range S) as [[a b]|]; [destruct (1 <? b - a)|]; reflexivity.
Qed.

(* every published set holds at every successful attempt, and its decoration is exact *)
Lemma cf_all_true th : forall q, 0 <= q <= n -> fd_succeeds st exec q ->
  forall f0, In f0 (find_fixed_distance_sets cat_in sets th root) -> fd_true cat_in e q f0.
Proof.
  intros q Hq Hs. destruct (fc_succeeds_attempt e fuel root bumpq q Hs) as [s' Hat].
  exact (abbrev_all_true cat_in sets Hgood' e q Hagree Hvalid Hshort th fuel root s' Hshape Hnoci Hlits Hq Hat).
Qed.

(* the decoration Chars / Range / Negated answers exactly what CharIn of the Set answers (static) *)
Lemma cf_abbrev_exact th : forall f0, In f0 (find_fixed_distance_sets cat_in sets th root) ->
  forall j (L : list Analysis2.fdset), nth_error L (Z.to_nat j) = Some f0 -> 0 <= j ->
  forall c, fd_char_in_fds (cf_set_in cat_in L) (cf_fdset j f0) c = cf_set_in cat_in L j c.
Proof.
  intros f0 Hin j L Hn Hj c. unfold cf_set_in at 2. rewrite Hn.
  unfold find_fixed_distance_sets in Hin. apply in_map_iff in Hin. destruct Hin as [[S d] [Heq Hin]].
  destruct (abbrev_decorate cat_in S d (abbrev_raw_good cat_in sets Hgood' th root Hshape Hlits S d Hin))
    as (E1 & E2 & E3 & E4 & E5).
  rewrite Heq in E1, E2, E3, E4, E5.
  unfold fd_char_in_fds, cf_fdset.
  cbn [Finder.fs_chars Finder.fs_negated Finder.fs_range Finder.fs_set].
  destruct (Analysis2.fs_chars f0) as [|c0 cs] eqn:Ec.
  - destruct (Analysis2.fs_range f0) as [[a b]|] eqn:Er.
    + rewrite E1. rewrite (E4 a b eq_refl c). destruct (Analysis2.fs_neg f0); symmetry; [apply Bool.xorb_true_l | apply Bool.xorb_false_l].
    + unfold cf_set_in. rewrite Hn. reflexivity.
  - rewrite E1. rewrite (E5 ltac:(discriminate) c). unfold zmem. destruct (Analysis2.fs_neg f0); symmetry; [apply Bool.xorb_true_l | apply Bool.xorb_false_l].
Qed.

Lemma cf_fds_fact th : forall L,
  (forall f0, In f0 L -> In f0 (find_fixed_distance_sets cat_in sets th root)) ->
  fd_fds_fact st (txt e) exec (cf_set_in cat_in L) (cf_fdsets L).
Proof.
  intros L HL. apply fd_fds_fact_of_sets.
  - intros s Hin. destruct (cf_fdsets_in L s Hin) as (j & f0 & Hj & -> & Hn).
    exists j. split; [reflexivity|]. intros c.
    apply (cf_abbrev_exact th f0); [apply HL; eapply nth_error_In; exact Hn|exact Hn|exact Hj].
  - intros q Hq Hs s id Hin Hid. destruct (cf_fdsets_in L s Hin) as (j & f0 & Hj & -> & Hn).
    cbn [cf_fdset Finder.fs_set] in Hid. injection Hid as <-. cbn [cf_fdset Finder.fs_distance].
    assert (Hf0 : In f0 (find_fixed_distance_sets cat_in sets th root)) by (apply HL; eapply nth_error_In; exact Hn).
    destruct (cf_all_true th q Hq Hs f0 Hf0) as (A & B & C & _).
    split; [unfold tlen in B; lia|]. unfold cf_set_in. rewrite Hn. exact C.
Qed.

(* FixedDistanceSets_LeftToRight / LeadingSet_LeftToRight: the published list is any non-empty selection L of
   the sets findFixedDistanceSets computes (the quality sort and the truncation to the best few only select
   and reorder), the i-th published Set answering CharIn as the C16 model does on its structure *)
Theorem cf_mode_fixed_distance_sets_sound : forall (th : bool) (L : list Analysis2.fdset) (g : fdopts),
  L <> [] -> (forall f0, In f0 L -> In f0 (find_fixed_distance_sets cat_in sets th root)) ->
  fo_mode g = FM_LeadingSet_LeftToRight \/ fo_mode g = FM_FixedDistanceSets_LeftToRight ->
  fo_minreq g = f_min f -> fo_sets g = cf_fdsets L ->
  forall start prevlen, 0 <= start <= n ->
  exists r, find e fuel root false start prevlen = Ok r /\
            scan n false (f_min f) (fd_total (fd_optimized_finder (txt e) (cf_set_in cat_in L) (lower e) g))
                 exec start prevlen = Ok r.
Proof.
  intros th L g HLne HL Hm Hmr Hsets. apply cf_optimized_scan; [exact Hmr| |].
  - unfold fd_mode_handled. cbv zeta. destruct Hm as [-> | ->]; reflexivity.
  - unfold fd_mode_fact. cbv zeta.
    assert (Hfact : exists primary rest id, fo_sets g = primary :: rest /\ Finder.fs_set primary = Some id /\
              0 <= Finder.fs_distance primary /\ fd_fds_fact st (txt e) exec (cf_set_in cat_in L) (fo_sets g)).
    { rewrite Hsets. destruct L as [|f0 L']; [contradiction|].
      exists (cf_fdset 0 f0), (cf_fdsets_from 1 L'), 0. split; [reflexivity|]. split; [reflexivity|]. split.
      - cbn [cf_fdset Finder.fs_distance]. apply (cf_fds_dist_nonneg th). apply HL. left. reflexivity.
      - exact (cf_fds_fact th (f0 :: L') HL). }
    destruct Hm as [-> | ->]; exact Hfact.
Qed.

(* FixedDistanceChar_LeftToRight: a published set whose Chars is one valid non-negated rune *)
Theorem cf_mode_fixed_distance_char_sound : forall (th : bool) (f0 : Analysis2.fdset) (c : Z) (g : fdopts),
  In f0 (find_fixed_distance_sets cat_in sets th root) -> fds_single f0 = Some c ->
  fo_mode g = FM_FixedDistanceChar_LeftToRight -> fo_minreq g = f_min f ->
  fo_fdl_c g = c -> fo_fdl_distance g = Analysis2.fs_dist f0 ->
  forall (set_in' : Z -> Z -> bool) start prevlen, 0 <= start <= n ->
  exists r, find e fuel root false start prevlen = Ok r /\
            scan n false (f_min f) (fd_total (fd_optimized_finder (txt e) set_in' (lower e) g)) exec start prevlen = Ok r.
Proof.
  intros th f0 c g Hin Hsg Hm Hmr Hc Hd set_in'. apply cf_optimized_scan; [exact Hmr| |].
  - unfold fd_mode_handled. cbv zeta. rewrite Hm. reflexivity.
  - unfold fd_mode_fact. cbv zeta. rewrite Hm. cbn. rewrite Hc, Hd. split; [exact (cf_fds_dist_nonneg th f0 Hin)|].
    intros q Hq Hs. pose proof (cf_all_true th q Hq Hs f0 Hin) as Ht.
    split; [exact (proj1 (proj2 Ht))|exact (fds_single_true cat_in e q f0 c Ht Hsg)].
Qed.

(* FixedDistanceString_LeftToRight: the string findFixedDistanceString extracts from the published sets *)
Theorem cf_mode_fixed_distance_string_sound : forall (th : bool) (str : list Z) (d0 : Z) (g : fdopts),
  find_fixed_distance_string (find_fixed_distance_sets cat_in sets th root) = Some (str, d0) ->
  fo_mode g = FM_FixedDistanceString_LeftToRight -> fo_minreq g = f_min f ->
  fo_fdl_s g = str -> fo_fdl_distance g = d0 ->
  forall (set_in' : Z -> Z -> bool) start prevlen, 0 <= start <= n ->
  exists r, find e fuel root false start prevlen = Ok r /\
            scan n false (f_min f) (fd_total (fd_optimized_finder (txt e) set_in' (lower e) g)) exec start prevlen = Ok r.
Proof.
  intros th str d0 g Hstr Hm Hmr Hs Hd set_in'. apply cf_optimized_scan; [exact Hmr| |].
  - unfold fd_mode_handled. cbv zeta. rewrite Hm. reflexivity.
  - unfold fd_mode_fact. cbv zeta. rewrite Hm. cbn. rewrite Hs, Hd.
    assert (Hd0 : 0 <= d0).
    { destruct (cf_fds_string_dist _ str d0 Hstr) as (f0 & Hin & <-). exact (cf_fds_dist_nonneg th f0 Hin). }
    split; [exact Hd0|].
    intros q Hq Hsq.
    pose proof (cf_fds_string_in cat_in e q _ str d0 (cf_all_true th q Hq Hsq) Hstr) as Hlit.
    destruct (Z.eq_dec (zlen str) 0) as [Hz|Hz].
    + destruct str; [reflexivity|]. rewrite fd_zlen_cons in Hz. pose proof (fd_zlen_nonneg str). lia.
    + pose proof (fd_zlen_nonneg str) as Hnn.
      destruct (Hlit (zlen str - 1) ltac:(lia)) as [Hb _]. unfold tlen in Hb.
      apply fd_prefix_match_intro.
      * rewrite fd_zlen_skipn by lia. lia.
      * intros j Hj. rewrite fd_nth_skipn_Z by lia. unfold fd_eq_exact.
        destruct (Hlit j Hj) as [_ Hc]. unfold char_at in Hc.
        replace (q + d0 + j) with (q + d0 + j) in Hc by lia. rewrite Hc. apply Z.eqb_refl.
Qed.


(* ===== literal after a leading loop (FindMode 22) ===== *)



Lemma cf_lal_fact : forall part_cc L,
  find_lit_after_loop cat_in part_cc sets root = Ok (Some L) ->
  (forall b, lal_what L = LalString b false -> valid_utf8 b = true) ->
  (forall u, 65 <= u <= 90 -> lower e u = u + 32) ->
  forallb Utf8.valid_rune (txt e) = true ->
  fd_lal_fact st (txt e) exec (lower e) (set_in e) (cf_lal L) (lal_loop L).
Proof using Hshape Hnoci Hgood Hgood' Hagree Hshort.
  clear Hvalid Hlits Hlook Hfuel H3.
  intros part_cc L HL Hutf Hlow Hsc q Hq Hs.
  destruct (fc_succeeds_attempt e fuel root bumpq q Hs) as [s' Hat].
  destruct (a2_lit_after_loop_sound e cat_in part_cc sets Hgood' Hagree Hshort Hsc fuel root q s' L
              Hshape Hnoci Hq HL Hat) as (k & Hk & Hrun & Hlit).
  exists k. split; [exact Hk|]. split; [exact Hrun|].
  pose proof (cf_lal_static cat_in sets root part_cc L HL) as Hst.
  unfold fd_lal_literal_at, cf_lal. unfold lal_lit_at in Hlit.
  destruct (lal_what L) as [c|b ic|cs] eqn:Ew.
  - cbn [lal_string lal_chars lal_char]. exact Hlit.
  - destruct ic.
    + cbn [lal_string lal_string_ic]. destruct b as [|b0 b']; [contradiction|].
      apply (cf_ci_prefix_match e (lower e) (b0 :: b') k Hlow); [lia|exact Hlit].
    + cbn [lal_string lal_string_ic].
      pose proof (cf_runes_of_nonempty b Hst) as Hne.
      destruct (runes_of b) as [|r0 rs] eqn:Er; [contradiction|].
      destruct (Hlit (Hutf b eq_refl)) as [rest Hrest]. rewrite Hrest. unfold fd_leading_eqc.
      apply fc_prefix_match_app.
  - cbn [lal_string lal_chars lal_char]. destruct Hlit as [Hlt Hin].
    destruct cs as [|c0 cs']; [destruct Hin|]. split; [exact Hlt|].
    unfold zmem. apply (proj2 (abbrev_existsb_in _ _)). exact Hin.
Qed.

Theorem cf_mode_literal_after_loop_sound : forall (part_cc : Z -> bool) (L : lal) (g : fdopts),
  find_lit_after_loop cat_in part_cc sets root = Ok (Some L) ->
  (forall b, lal_what L = LalString b false -> valid_utf8 b = true) ->
  (forall u, 65 <= u <= 90 -> lower e u = u + 32) ->
  forallb Utf8.valid_rune (txt e) = true ->
  fo_mode g = FM_LiteralAfterLoop_LeftToRight -> fo_minreq g = f_min f -> fo_lal g = Some (cf_lal L) ->
  forall start prevlen, 0 <= start <= n ->
  exists r, find e fuel root false start prevlen = Ok r /\
            scan n false (f_min f) (fd_total (fd_optimized_finder (txt e) (set_in e) (lower e) g)) exec start prevlen = Ok r.
Proof using Hshape Hnoci Hlook Hfuel H3 Hgood Hgood' Hagree Hshort.
  intros part_cc L g HL Hutf Hlow Hsc Hm Hmr Hlal. apply cf_optimized_scan; [exact Hmr| |].
  - unfold fd_mode_handled. cbv zeta. rewrite Hm. reflexivity.
  - unfold fd_mode_fact. cbv zeta. rewrite Hm. cbn.
    exists (cf_lal L), (lal_loop L). split; [exact Hlal|]. split.
    + unfold cf_lal. destruct (lal_what L) as [c|b [|]|cs]; reflexivity.
    + exact (cf_lal_fact part_cc L HL Hutf Hlow Hsc).
Qed.

(* ===== leading strings (FindMode 14 / 15) and the ignore-case leading string (13) ===== *)



Lemma cf_prefixes_fact : forall part_cc ic ps,
  find_prefixes cat_in part_cc sets ic root = Some ps ->
  (ic = true -> forall u, 65 <= u <= 90 -> lower e u = u + 32) ->
  fd_prefixes_fact st (txt e) exec (fd_strings_eqc (lower e) ic) ps.
Proof using Hshape Hnoci Hgood Hgood' Hagree.
  clear Hvalid Hshort Hlits Hlook Hfuel H3.
  intros part_cc ic ps Hps Hlow q Hq Hs.
  destruct (fc_succeeds_attempt e fuel root bumpq q Hs) as [s' Hat].
  destruct (a2_prefixes_sound e cat_in part_cc sets ic Hgood' Hagree fuel root q s' ps Hshape Hnoci Hq Hps Hat)
    as (P & HP & Hok).
  exists P. split; [exact HP|]. unfold pw_ok in Hok.
  destruct (Z.eq_dec (zlen P) 0) as [Hz|Hz].
  - destruct P; [reflexivity|]. rewrite fd_zlen_cons in Hz. pose proof (fd_zlen_nonneg P). lia.
  - pose proof (fd_zlen_nonneg P) as Hnn.
    destruct (Hok (zlen P - 1) ltac:(lia)) as [Hb _]. unfold tlen in Hb.
    apply fd_prefix_match_intro.
    + rewrite fd_zlen_skipn by lia. lia.
    + intros j Hj. rewrite fd_nth_skipn_Z by lia. destruct (Hok j Hj) as [_ Hc].
      apply (cf_pm_eqc e); [exact Hlow|exact Hc].
Qed.

(* LeadingStrings_LeftToRight / LeadingStrings_OrdinalIgnoreCase_LeftToRight: the published LeadingPrefixes
   are the rune lists findPrefixes computes (their Go strings read back as the same runes when valid:
   C04_prefix_runes), LeadingPrefixFirstRunes is what leadingPrefixFirstRunes computes from them *)
Theorem cf_mode_leading_strings_sound : forall (part_cc : Z -> bool) (ic : bool) (ps : list (list Z)) (g : fdopts),
  find_prefixes cat_in part_cc sets ic root = Some ps -> ps <> [] ->
  (ic = true -> forall u, 65 <= u <= 90 -> lower e u = u + 32) ->
  fo_mode g = (if ic then FM_LeadingStrings_OrdinalIgnoreCase_LeftToRight else FM_LeadingStrings_LeftToRight) ->
  fo_minreq g = f_min f -> fo_prefixes g = ps ->
  (ic = false -> fo_first_runes g = fd_leading_prefix_first_runes ps) ->
  forall (set_in' : Z -> Z -> bool) start prevlen, 0 <= start <= n ->
  exists r, find e fuel root false start prevlen = Ok r /\
            scan n false (f_min f) (fd_total (fd_optimized_finder (txt e) set_in' (lower e) g)) exec start prevlen = Ok r.
Proof using Hshape Hnoci Hlook Hfuel H3 Hgood Hgood' Hagree.
  intros part_cc ic ps g Hps Hne Hlow Hm Hmr Hpre Hfirst set_in'. apply cf_optimized_scan; [exact Hmr| |].
  - unfold fd_mode_handled. cbv zeta. rewrite Hm. destruct ic; reflexivity.
  - unfold fd_mode_fact. cbv zeta. rewrite Hm, Hpre.
    pose proof (cf_prefixes_static cat_in sets root part_cc ic ps Hps) as Hall.
    pose proof (cf_prefixes_fact part_cc ic ps Hps Hlow) as Hfact.
    destruct ic; cbn.
    + split; [exact Hne|]. split; [exact Hall|exact Hfact].
    + split; [exact Hne|]. split; [exact Hall|]. split; [|exact Hfact].
      rewrite (Hfirst eq_refl). exact (fd_leading_prefix_first_runes_ok ps).
Qed.

(* LeadingString_OrdinalIgnoreCase_LeftToRight: the published prefix is the ASCII rune list
   findPrefixOrdinalCaseInsensitive computes *)
Theorem cf_mode_leading_string_ic_sound : forall (part_cc : Z -> bool) (g : fdopts),
  (forall u, 65 <= u <= 90 -> lower e u = u + 32) ->
  fo_mode g = FM_LeadingString_OrdinalIgnoreCase_LeftToRight -> fo_minreq g = f_min f ->
  fo_prefix g = ci_prefix cat_in part_cc sets root ->
  forall (set_in' : Z -> Z -> bool) start prevlen, 0 <= start <= n ->
  exists r, find e fuel root false start prevlen = Ok r /\
            scan n false (f_min f) (fd_total (fd_optimized_finder (txt e) set_in' (lower e) g)) exec start prevlen = Ok r.
Proof using Hshape Hnoci Hlook Hfuel H3 Hgood Hgood' Hagree Hshort.
  clear Hvalid Hlits.
  intros part_cc g Hlow Hm Hmr Hpre set_in'. apply cf_optimized_scan; [exact Hmr| |].
  - unfold fd_mode_handled. cbv zeta. rewrite Hm. reflexivity.
  - unfold fd_mode_fact. cbv zeta. rewrite Hm, Hpre. cbn.
    intros q Hq Hs. destruct (fc_succeeds_attempt e fuel root bumpq q Hs) as [s' Hat].
    pose proof (attempt_reach e _ _ _ _ Hat) as Hr.
    pose proof (ci_prefix_sound e cat_in part_cc sets Hgood' Hagree Hshort root _ _ Hr Hshape Hnoci Hq) as Hok.
    cbn [pos] in Hok. apply (cf_ci_prefix_match e); [exact Hlow|lia|exact Hok].
Qed.

(* ===== required landmark chain (FindMode 23) ===== *)



Lemma cf_chain_fact : forall loop alts rest,
  find_landmark_chain cat_in sets root = Some (loop, alts :: rest) ->
  fd_chain_fact st (txt e) exec (set_in e) loop (map cf_alt alts) (map (map cf_alt) rest).
Proof using Hshape Hnoci Hlits Hshort.
  clear Hvalid Hgood' Hgood Hagree Hlook Hfuel H3.
  intros loop alts rest Hc q Hq Hs.
  destruct (fc_succeeds_attempt e fuel root bumpq q Hs) as [s' Hat].
  destruct (a2_landmark_chain_sound e cat_in sets Hshort fuel root q s' loop (alts :: rest) Hshape Hnoci Hlits Hq Hc Hat)
    as (s1 & Hs1 & Hrun & Hfirst & _).
  cbn [chain_first] in Hfirst. destruct Hfirst as (a & c & en & t & Hin & Halt & Hrest).
  destruct (cf_alt_match e a s1 c en t Halt) as (Hm & Hsc & Het & Hws).
  exists (cf_alt a), s1, c, en. split; [apply in_map; exact Hin|]. split; [lia|]. split; [exact Hrun|].
  split; [exact Hws|]. split; [exact Hm|]. apply (cf_chain_rest e rest t en Hrest). lia.
Qed.

(* RequiredLandmarkChain_LeftToRight: the published chain is what findRequiredLandmarkChain computes
   (LeadingLoopSet and the landmark sets are set ids of the tree, answered by the semantics' own oracle) *)
Theorem cf_mode_landmark_chain_sound : forall (loop : Z) (lms : list (list lm_alt)) (g : fdopts),
  find_landmark_chain cat_in sets root = Some (loop, lms) ->
  fo_mode g = FM_RequiredLandmarkChain_LeftToRight -> fo_minreq g = f_min f ->
  fo_chain g = Some (cf_chain loop lms) ->
  forall start prevlen, 0 <= start <= n ->
  exists r, find e fuel root false start prevlen = Ok r /\
            scan n false (f_min f) (fd_total (fd_optimized_finder (txt e) (set_in e) (lower e) g)) exec start prevlen = Ok r.
Proof using Hshape Hnoci Hlook Hfuel H3 Hlits Hshort.
  clear Hvalid Hgood' Hgood Hagree.
  intros loop lms g Hc Hm Hmr Hch. apply cf_optimized_scan; [exact Hmr| |].
  - unfold fd_mode_handled. cbv zeta. rewrite Hm. reflexivity.
  - unfold fd_mode_fact. cbv zeta. rewrite Hm. cbn.
    pose proof (cf_chain_static cat_in sets root loop lms Hc) as Hst.
    destruct lms as [|alts rest].
    { exfalso. pose proof (cf_chain_len cat_in sets root loop [] Hc) as Hlen. unfold zlen in Hlen. cbn [length] in Hlen. lia. }
    inversion Hst; subst.
    exists (cf_chain loop (alts :: rest)), loop, (map cf_alt alts), (map (map cf_alt) rest).
    split; [exact Hch|]. split; [reflexivity|]. split; [reflexivity|].
    split; [apply cf_alts_wf; assumption|]. split; [apply cf_chain_wf; assumption|].
    exact (cf_chain_fact loop alts rest Hc).
Qed.

End ComposeFinder.

(* ===== the legacy first-character loop of findFirstCharDefault (Code.FcPrefix), both directions ===== *)
Section ComposeFirstChars.
Variable e : env.
Variable fuel : nat.
Variable root : node.
Variable bumpq : Z -> Z.
Variable rtl : bool.

Local Notation exec := (bp_exec e fuel root bumpq).
Local Notation n := (tlen e).

Hypothesis Hshape : shape_ok rtl root = true.
Hypothesis Hnoci : no_ci_lit root = true.
Hypothesis Hfuel : forall x, 0 <= x <= n -> exists r, attempt e fuel root x = Ok r.
Hypothesis H3 : sc_H3 st n rtl exec.

Variable cat_in : Z -> Z -> bool.
Variable sets : list cls.
Hypothesis Hgood : forallb cls_good_b sets = true.
Hypothesis Hagree : forall id x, set_in e id x = char_in cat_in (set_cls sets id) x.
Hypothesis Hvalid : forall i, 0 <= char_at e i <= 1114111.
Hypothesis Hlits : lits_ok root = true.

(* FcPrefix = (PrefixSet, CaseInsensitive) as getFirstCharsPrefix computes it; the runner tests a rune with
   [fd_fc_test set_in' fc] (the singleton fast path, else CharIn of PrefixSet): all that is needed of it is that
   it accepts every rune the class accepts *)
Lemma cf_fc_fact : forall (to_lower : Z -> Z) (C : cls) (ci : bool) (test : Z -> bool),
  first_chars_prefix cat_in to_lower sets root = Ok (Some (C, ci)) ->
  (forall x, char_in cat_in C x = true -> test x = true) ->
  fd_fc_fact st (txt e) exec rtl test.
Proof.
  intros to_lower C ci test Hfc Htie q Hq Hs.
  destruct (fc_succeeds_attempt e fuel root bumpq q Hs) as [s' Hat].
  destruct (a2_first_chars_prefix_sound cat_in sets (sets_good_b cat_in sets Hgood) e Hagree Hvalid to_lower rtl fuel
              root q s' C ci Hshape Hnoci Hlits Hq Hfc Hat) as (_ & Hpos & Hin).
  destruct rtl.
  - split; [lia|]. apply Htie. exact Hin.
  - split; [unfold tlen in Hpos; lia|]. apply Htie. exact Hin.
Qed.

Theorem cf_mode_first_chars_sound :
  forall (to_lower : Z -> Z) (C : cls) (ci : bool) (set_in' : Z -> Z -> bool) (fc : fdfc) (o : option fdopts),
  first_chars_prefix cat_in to_lower sets root = Ok (Some (C, ci)) ->
  (forall x, char_in cat_in C x = true -> fd_fc_test set_in' fc x = true) ->
  (forall o', o = Some o' -> fd_should_use_optimized o' = false) ->
  forall start prevlen, 0 <= start <= n ->
  exists r, find e fuel root rtl start prevlen = Ok r /\
            scan n rtl (min_len root)
                 (fd_total (fd_find_first_char_default (txt e) set_in' (lower e) rtl 0 (tstart e) None None o (Some fc)))
                 exec start prevlen = Ok r.
Proof.
  intros to_lower C ci set_in' fc o Hfc Htie Hno start prevlen Hs.
  pose proof (cf_fc_fact to_lower C ci (fd_fc_test set_in' fc) Hfc Htie) as Hfact.
  assert (Hnobm : sc_H1_true st (zlen (txt e)) rtl (fd_total (fd_ffc_nobm (txt e) set_in' (lower e) rtl o (Some fc))) exec /\
                  sc_H1_false st (zlen (txt e)) rtl (fd_total (fd_ffc_nobm (txt e) set_in' (lower e) rtl o (Some fc))) exec).
  { apply fd_ffc_nobm_H1.
    - intros o' Ho Hsu. rewrite (Hno o' Ho) in Hsu. discriminate Hsu.
    - intros _ f0 Hf0. injection Hf0 as <-. exact Hfact. }
  destruct (fd_default_H1 st (txt e) exec set_in' (lower e) rtl 0 (tstart e) None None o (Some fc)) as [A1 A2].
  - intros Hb. vm_compute in Hb. discriminate Hb.
  - intros Hb. vm_compute in Hb. discriminate Hb.
  - intros Hb. vm_compute in Hb. discriminate Hb.
  - intros Hb. vm_compute in Hb. discriminate Hb.
  - intros im Him. discriminate Him.
  - intros sc Hsc. discriminate Hsc.
  - intros _. exact Hnobm.
  - destruct (sc_scan_finder_sound st n rtl (min_len root) _ exec A1 A2
                (fc_min_len_H2 e fuel root bumpq rtl Hshape) H3 start prevlen Hs) as (r & Hr1 & Hr2).
    exists r. split; [|exact Hr1].
    rewrite (bp_find_naive_scan e fuel root rtl bumpq start prevlen Hfuel Hs). exact Hr2.
Qed.

(* the canonical reading of the record: no singleton fast path, set id 0 answered by CharIn of PrefixSet *)
Corollary cf_mode_first_chars_sound_canonical :
  forall (to_lower : Z -> Z) (C : cls) (ci : bool),
  first_chars_prefix cat_in to_lower sets root = Ok (Some (C, ci)) ->
  forall start prevlen, 0 <= start <= n ->
  exists r, find e fuel root rtl start prevlen = Ok r /\
            scan n rtl (min_len root)
                 (fd_total (fd_find_first_char_default (txt e) (fun _ x => char_in cat_in C x) (lower e) rtl 0 (tstart e)
                              None None None (Some {| fc_singleton := None; fc_set := 0 |})))
                 exec start prevlen = Ok r.
Proof.
  intros to_lower C ci Hfc. apply (cf_mode_first_chars_sound to_lower C ci); [exact Hfc| |].
  - intros x Hx. exact Hx.
  - intros o' Ho. discriminate Ho.
Qed.

End ComposeFirstChars.

(* ===== findFirstCharDefault ANSWERS: at every position of the text the whole default finder returns Ok
   (no index fault = Crash, no exhausted loop = Fuel), whatever the anchors / Boyer-Moore oracles / FcPrefix are;
   only when an optimized finder is in use does it need that finder's fact (which is what makes the published
   distances / sets / chains usable as indices). ===== *)
Lemma cf_first_char_loop_ok : forall (text : list Z) (set_in : Z -> Z -> bool) (rtl : bool) (fc : option fdfc) (p : Z),
  0 <= p <= zlen text -> exists r, fd_first_char_loop text set_in rtl fc p = Ok r.
Proof.
  intros text set_in rtl fc p Hp. unfold fd_first_char_loop. destruct fc as [fc|]; [|eexists; reflexivity].
  cbv zeta.
  destruct (fd_fc_loop_spec text rtl
              (match fc_singleton fc with Some ch => fun c => ch =? c | None => set_in (fc_set fc) end)
              (Z.to_nat (if rtl then p else fd_n text - p)) p) as (found & q & Hr & _).
  - unfold fd_n. destruct rtl; lia.
  - exact Hp.
  - eexists. exact Hr.
Qed.

Theorem cf_default_finder_answers_ok :
  forall (R : Type) (text : list Z) (exec : Z -> option R * Z) (set_in : Z -> Z -> bool) (lower : Z -> Z)
         (rtl : bool) (anchors ts : Z) (bm : option (Z -> bool)) (bm_scan : option (Z -> Z))
         (o : option fdopts) (fc : option fdfc),
  (forall o', o = Some o' -> fd_should_use_optimized o' = true ->
     fd_minlen_fact R text exec (fo_minreq o') /\ fd_mode_fact R text exec set_in lower o') ->
  forall p, 0 <= p <= zlen text ->
  exists r, fd_find_first_char_default text set_in lower rtl anchors ts bm bm_scan o fc p = Ok r.
Proof.
  intros R text exec set_in lower rtl anchors ts bm bm_scan o fc Ho p Hp.
  unfold fd_find_first_char_default.
  destruct (abit anchors _); [eexists; reflexivity|].
  destruct bm_scan as [sc|].
  { destruct (sc p =? -1); eexists; reflexivity. }
  unfold fd_ffc_nobm. cbv zeta. destruct o as [o'|]; [|apply cf_first_char_loop_ok; exact Hp].
  destruct (fd_should_use_optimized o') eqn:E; [|apply cf_first_char_loop_ok; exact Hp].
  destruct (Ho o' eq_refl E) as [Hmin Hfact].
  destruct (fd_optimized_sound R text exec set_in lower o' (fd_should_use_handled o' E) Hmin Hfact) as [Hs Hh].
  destruct (Hs p Hp) as (found & q & Hr & _). unfold fd_optimized_finder in Hr.
  destruct (fd_find_first_char_optimized text set_in lower o' p) as [[[h f0] q0]| | |] eqn:Eo; cbn in Hr; try discriminate Hr.
  pose proof (Hh p _ Eo) as Hh'. cbn in Hh'. subst h. cbn. eexists. reflexivity.
Qed.
