(* C03 x C04, second part: end-to-end soundness of the find modes whose fact C04 proves for the analyses of
   Model/Analysis2.v (prefixanalyzer.go / prefix.go).  Same shape as Proofs/FinderCompose.v:
     on a tree satisfying the C04 side conditions, whatever the decision ladder selected, if the DATA it
     publishes is the output of the analysis function, then the scan loop with the finder of that mode in
     front returns what Spec.find (the accelerator-free scan) returns.
   One attempt of the matcher is Spec.attempt ([bp_exec e fuel root bumpq]).
   Covered: fixed-distance sets / leading set (modes 21 / 16), fixed-distance char (19), fixed-distance
   string (20), literal after loop (22), leading strings exact / ignore-case (14 / 15), ignore-case leading
   string (13), landmark chain (23), and the legacy first-character loop of findFirstCharDefault (both
   directions).
   No new model: only the translation of the analysis' result records (Analysis2.fdset / lal / lm_alt, which
   carry class STRUCTURES or tree set ids) into the records the runner reads (Finder.fdset / fdlal / fdalt,
   which carry set ids answered by a CharIn oracle) and the composition of the two families of theorems. *)
From Coq Require Import ZifyBool.
From Verif Require Import Base.Prelude Base.Utf8 Model.CharClass Model.Tree Model.Spec Model.Scan Model.Finder
     Model.Analysis Model.Analysis2
     Proofs.ScanProofs Proofs.ScanBumpProofs Proofs.FinderProofs Proofs.FinderCompose Proofs.Utf8Proofs
     Proofs.AnalysisReach Proofs.AnalysisProofs Proofs.AnalysisPrefix Proofs.AnalysisFacts
     Proofs.Analysis2Cls Proofs.Analysis2Ffcc Proofs.Analysis2Fixed Proofs.Analysis2Lal Proofs.Analysis2Prefixes
     Proofs.Analysis2Chain Proofs.Analysis2Fc Proofs.Analysis2Abbrev.

(* ---------- translation of the published fixed-distance sets ----------
   FixedDistanceSet.Set is a *CharSet; the finder model reads it through an oracle [set_in id]; the analysis
   model produces the class structure.  The i-th published set gets id i, and the oracle of the finder is
   CharIn of that structure as C16 models it ([char_in cat_in]). *)
Definition cf_fdset (i : Z) (f : Analysis2.fdset) : Finder.fdset :=
  {| Finder.fs_set := Some i; Finder.fs_chars := Analysis2.fs_chars f; Finder.fs_negated := Analysis2.fs_neg f;
     Finder.fs_range := Analysis2.fs_range f; Finder.fs_distance := Analysis2.fs_dist f |}.

Fixpoint cf_fdsets_from (i : Z) (L : list Analysis2.fdset) : list Finder.fdset :=
  match L with
  | [] => []
  | f :: L' => cf_fdset i f :: cf_fdsets_from (i + 1) L'
  end.
Definition cf_fdsets (L : list Analysis2.fdset) : list Finder.fdset := cf_fdsets_from 0 L.

Definition cf_set_in (cat_in : Z -> Z -> bool) (L : list Analysis2.fdset) (id x : Z) : bool :=
  match nth_error L (Z.to_nat id) with
  | Some f => char_in cat_in (Analysis2.fs_set f) x
  | None => false
  end.

Lemma cf_fdsets_from_in : forall L i s, 0 <= i -> In s (cf_fdsets_from i L) ->
  exists j f, 0 <= j /\ s = cf_fdset (i + j) f /\ nth_error L (Z.to_nat j) = Some f.
Proof.
  induction L as [|f0 L IH]; intros i s Hi Hin; cbn [cf_fdsets_from] in Hin; [destruct Hin|].
  destruct Hin as [<-|Hin].
  - exists 0, f0. split; [lia|]. split; [f_equal; lia|reflexivity].
  - destruct (IH (i + 1) s ltac:(lia) Hin) as (j & f & Hj & -> & Hn).
    exists (j + 1), f. split; [lia|]. split; [f_equal; lia|].
    replace (Z.to_nat (j + 1)) with (S (Z.to_nat j)) by lia. exact Hn.
Qed.

Lemma cf_fdsets_in : forall L s, In s (cf_fdsets L) ->
  exists j f, 0 <= j /\ s = cf_fdset j f /\ nth_error L (Z.to_nat j) = Some f.
Proof.
  intros L s Hin. destruct (cf_fdsets_from_in L 0 s ltac:(lia) Hin) as (j & f & Hj & -> & Hn).
  exists j, f. split; [exact Hj|]. split; [f_equal|exact Hn].
Qed.

(* ---------- findFixedDistanceString: the literal lies INSIDE the text, and its distance is a published one ---------- *)
Section CfString.
Variable cat_in : Z -> Z -> bool.
Variable e : env.
Variable p : Z.

Definition cf_lit_in (s : list Z) (d0 : Z) : Prop :=
  forall i, 0 <= i < zlen s -> p + d0 + i < tlen e /\ char_at e (p + d0 + i) = nth (Z.to_nat i) s 0.

Definition cf_cur_ok (cur : option (Z * list Z * Z)) : Prop :=
  match cur with None => True | Some (d0, s, dl) => dl = d0 + zlen s - 1 /\ cf_lit_in s d0 end.
Definition cf_best_ok (best : option (list Z * Z)) : Prop :=
  match best with None => True | Some (s, d0) => cf_lit_in s d0 end.

Lemma cf_close_ok cur best : cf_cur_ok cur -> cf_best_ok best -> cf_best_ok (fds_close_b cur best).
Proof.
  intros Hc Hb. unfold fds_close_b. destruct cur as [[[d0 s] dl]|]; [|exact Hb].
  destruct (_ <=? zlen s); [exact (proj2 Hc)|exact Hb].
Qed.

Lemma cf_lit_in_snoc s d0 c :
  cf_lit_in s d0 -> p + d0 + zlen s < tlen e -> char_at e (p + d0 + zlen s) = c -> cf_lit_in (s ++ [c]) d0.
Proof.
  intros Hs Hb Hc i Hi. unfold zlen in *. rewrite app_length in Hi. cbn [length] in Hi.
  destruct (Z_lt_ge_dec i (Z.of_nat (length s))) as [Hl|Hl].
  - rewrite app_nth1 by lia. apply Hs. unfold zlen. lia.
  - assert (i = Z.of_nat (length s)) by lia. subst i. rewrite app_nth2 by lia.
    replace (Z.to_nat (Z.of_nat (length s)) - length s)%nat with 0%nat by lia. cbn [nth]. split; [exact Hb|exact Hc].
Qed.

Lemma cf_lit_in_single c d0 : p + d0 < tlen e -> char_at e (p + d0) = c -> cf_lit_in [c] d0.
Proof.
  intros Hb Hc i Hi. unfold zlen in Hi. cbn [length] in Hi. assert (i = 0) by lia. subst i.
  replace (p + d0 + 0) with (p + d0) by lia. split; [exact Hb|exact Hc].
Qed.

Lemma cf_walk_ok : forall l cur best,
  (forall f, In f l -> fd_true cat_in e p f) -> cf_cur_ok cur -> cf_best_ok best -> cf_best_ok (fds_walk_b l cur best).
Proof.
  induction l as [|x l IH]; intros cur best Hl Hc Hb; cbn [fds_walk_b]; [apply cf_close_ok; assumption|].
  assert (Hx : fd_true cat_in e p x) by (apply Hl; left; reflexivity).
  assert (Hl' : forall f, In f l -> fd_true cat_in e p f) by (intros f Hf; apply Hl; right; exact Hf).
  destruct (fds_single x) as [c|] eqn:Es.
  - pose proof (fds_single_true cat_in e p x c Hx Es) as Hch.
    assert (Hin : p + Analysis2.fs_dist x < tlen e) by exact (proj1 (proj2 Hx)).
    destruct cur as [[[d0 s] dl]|].
    + destruct (Analysis2.fs_dist x =? dl + 1) eqn:Ed.
      * apply IH; [exact Hl'| |exact Hb]. destruct Hc as [Hdl Hs]. cbn [cf_cur_ok]. split.
        -- unfold zlen in *. rewrite app_length. cbn [length]. lia.
        -- apply cf_lit_in_snoc; [exact Hs| |].
           ++ replace (p + d0 + zlen s) with (p + Analysis2.fs_dist x) by lia. exact Hin.
           ++ rewrite <- Hch. f_equal. lia.
      * apply IH; [exact Hl'| |apply cf_close_ok; assumption]. cbn [cf_cur_ok]. split; [unfold zlen; cbn [length]; lia|].
        apply cf_lit_in_single; assumption.
    + apply IH; [exact Hl'| |exact Hb]. cbn [cf_cur_ok]. split; [unfold zlen; cbn [length]; lia|].
      apply cf_lit_in_single; assumption.
  - apply IH; [exact Hl'|exact I|apply cf_close_ok; assumption].
Qed.

Lemma cf_fds_string_in l str d0 :
  (forall f, In f l -> fd_true cat_in e p f) -> find_fixed_distance_string l = Some (str, d0) -> cf_lit_in str d0.
Proof.
  intros Hl. unfold find_fixed_distance_string. destruct (zlen l <? 2); [discriminate|]. intros H.
  assert (Hb : cf_best_ok (fds_walk_b (fds_sort l) None None)).
  { apply cf_walk_ok; [|exact I|exact I]. intros f Hf. apply Hl. apply fds_sort_in. exact Hf. }
  rewrite H in Hb. exact Hb.
Qed.
End CfString.

(* static: the distance of the extracted string is the distance of a published set *)
Definition cf_cur_d (l0 : list Analysis2.fdset) (cur : option (Z * list Z * Z)) : Prop :=
  match cur with None => True | Some (d0, _, _) => exists f, In f l0 /\ Analysis2.fs_dist f = d0 end.
Definition cf_best_d (l0 : list Analysis2.fdset) (best : option (list Z * Z)) : Prop :=
  match best with None => True | Some (_, d0) => exists f, In f l0 /\ Analysis2.fs_dist f = d0 end.

Lemma cf_close_d l0 cur best : cf_cur_d l0 cur -> cf_best_d l0 best -> cf_best_d l0 (fds_close_b cur best).
Proof.
  intros Hc Hb. unfold fds_close_b. destruct cur as [[[d0 s] dl]|]; [|exact Hb].
  destruct (_ <=? zlen s); [exact Hc|exact Hb].
Qed.

Lemma cf_walk_d l0 : forall l cur best,
  (forall f, In f l -> In f l0) -> cf_cur_d l0 cur -> cf_best_d l0 best -> cf_best_d l0 (fds_walk_b l cur best).
Proof.
  induction l as [|x l IH]; intros cur best Hl Hc Hb; cbn [fds_walk_b]; [apply cf_close_d; assumption|].
  assert (Hx : In x l0) by (apply Hl; left; reflexivity).
  assert (Hl' : forall f, In f l -> In f l0) by (intros f Hf; apply Hl; right; exact Hf).
  assert (Hnew : forall s dl, cf_cur_d l0 (Some (Analysis2.fs_dist x, s, dl))) by (intros s dl; exists x; auto).
  destruct (fds_single x) as [c|].
  - destruct cur as [[[d0 s] dl]|].
    + destruct (Analysis2.fs_dist x =? dl + 1).
      * apply IH; [exact Hl'|exact Hc|exact Hb].
      * apply IH; [exact Hl'|apply Hnew|apply cf_close_d; assumption].
    + apply IH; [exact Hl'|apply Hnew|exact Hb].
  - apply IH; [exact Hl'|exact I|apply cf_close_d; assumption].
Qed.

Lemma cf_fds_string_dist l str d0 :
  find_fixed_distance_string l = Some (str, d0) -> exists f, In f l /\ Analysis2.fs_dist f = d0.
Proof.
  unfold find_fixed_distance_string. destruct (zlen l <? 2); [discriminate|]. intros H.
  assert (Hb : cf_best_d l (fds_walk_b (fds_sort l) None None)).
  { apply cf_walk_d; [|exact I|exact I]. intros f Hf. apply fds_sort_in. exact Hf. }
  rewrite H in Hb. exact Hb.
Qed.

(* ---------- the composition ---------- *)
Section ComposeFinder.
Variable e : env.
Variable fuel : nat.
Variable root : node.
Variable bumpq : Z -> Z.
Variable later_useful : bool.

Local Notation exec := (bp_exec e fuel root bumpq).
Local Notation n := (tlen e).
Local Notation f := (facts false later_useful root).

Hypothesis Hshape : shape_ok false root = true.
Hypothesis Hnoci : no_ci_lit root = true.
Hypothesis Hlook : look_ok root = true.
Hypothesis Hfuel : forall x, 0 <= x <= n -> exists r, attempt e fuel root x = Ok r.
Hypothesis H3 : sc_H3 st n false exec.

(* fc_optimized_scan with the finder's own CharIn / ToLower oracles *)
Lemma cf_optimized_scan : forall (set_in' : Z -> Z -> bool) (lower' : Z -> Z) (g : fdopts),
  fo_minreq g = f_min f -> fd_mode_handled g = true ->
  fd_mode_fact st (txt e) exec set_in' lower' g ->
  forall start prevlen, 0 <= start <= n ->
  exists r, find e fuel root false start prevlen = Ok r /\
            scan n false (f_min f) (fd_total (fd_optimized_finder (txt e) set_in' lower' g)) exec start prevlen = Ok r.
Proof.
  intros set_in' lower' g Hmr Hh Hmf start prevlen Hs.
  pose proof (fc_minlen_fact e fuel root bumpq later_useful Hshape Hnoci Hlook) as Hmin.
  destruct (fd_optimized_sound st (txt e) exec set_in' lower' g Hh ltac:(rewrite Hmr; exact Hmin) Hmf) as [Hsound _].
  destruct (fd_scan_sound st (txt e) exec (f_min f) _ Hsound Hmin H3 start prevlen Hs) as (r & Hr1 & Hr2).
  exists r. split; [|exact Hr1].
  rewrite (bp_find_naive_scan e fuel root false bumpq start prevlen Hfuel Hs). exact Hr2.
Qed.

(* the class table of the tree and the tie between the semantics' oracle and C16's CharIn *)
Variable cat_in : Z -> Z -> bool.
Variable sets : list cls.
Hypothesis Hgood : forallb cls_good_b sets = true.
Hypothesis Hagree : forall id x, set_in e id x = char_in cat_in (set_cls sets id) x.

Let Hgood' : sets_good cat_in sets := sets_good_b cat_in sets Hgood.

(* ===== fixed-distance sets / leading set, fixed-distance char, fixed-distance string ===== *)
Hypothesis Hvalid : forall i, 0 <= char_at e i <= 1114111.
Hypothesis Hshort : n < INF.
Hypothesis Hlits : lits_ok root = true.

Lemma cf_raw_dist_nonneg th :
  forall S d, In (S, d) (fixed_distance_raw cat_in sets th root) -> 0 <= d.
Proof.
  intros S d Hin. unfold fixed_distance_raw in Hin.
  destruct (syn_loc cat_in sets th root (syn_all cat_in sets th Hgood' root Hshape Hlits)) as (_ & Hall & _).
  unfold locof, rf_res in Hall. destruct (raw_fixed cat_in sets th root [] 0) as [[ok res] dd]. cbn [fst snd] in Hall.
  destruct (filter (fun sd : cls * Z => negb (anything (fst sd))) res) as [|f0 fl] eqn:Ef.
  - destruct (find_first_char_class cat_in sets root) as [c|]; [|destruct Hin].
    destruct (anything c); [destruct Hin|]. destruct Hin as [Heq|[]]. injection Heq as <- <-. lia.
  - rewrite <- Ef in Hin. apply filter_In in Hin. destruct Hin as [Hin _]. exact (proj1 (proj2 (Hall S d Hin))).
Qed.

Lemma cf_fds_dist_nonneg th :
  forall f0, In f0 (find_fixed_distance_sets cat_in sets th root) -> 0 <= Analysis2.fs_dist f0.
Proof.
  intros f0 Hin. unfold find_fixed_distance_sets in Hin. apply in_map_iff in Hin. destruct Hin as [[S d] [<- Hin]].
  replace (Analysis2.fs_dist (fd_decorate cat_in (S, d))) with d.
  - exact (cf_raw_dist_nonneg th S d Hin).
  - unfold fd_decorate. cbn [fst snd]. destruct (get_if_one_range S) as [[a b]|]; [destruct (1 <? b - a)|]; reflexivity.
Qed.

(* every published set holds at every successful attempt, and its decoration is exact *)
Lemma cf_all_true th : forall q, 0 <= q <= n -> fd_succeeds st exec q ->
  forall f0, In f0 (find_fixed_distance_sets cat_in sets th root) -> fd_true cat_in e q f0.
Proof.
  intros q Hq Hs. destruct (fc_succeeds_attempt e fuel root bumpq q Hs) as [s' Hat].
  exact (abbrev_all_true cat_in sets Hgood' e q Hagree Hvalid Hshort th fuel root s' Hshape Hnoci Hlits Hq Hat).
Qed.

(* the decoration Chars / Range / Negated answers exactly what CharIn of the Set answers (static) *)
Lemma cf_abbrev_exact th : forall f0, In f0 (find_fixed_distance_sets cat_in sets th root) ->
  forall j (L : list Analysis2.fdset), nth_error L (Z.to_nat j) = Some f0 -> 0 <= j ->
  forall c, fd_char_in_fds (cf_set_in cat_in L) (cf_fdset j f0) c = cf_set_in cat_in L j c.
Proof.
  intros f0 Hin j L Hn Hj c. unfold cf_set_in at 2. rewrite Hn.
  unfold find_fixed_distance_sets in Hin. apply in_map_iff in Hin. destruct Hin as [[S d] [Heq Hin]].
  destruct (abbrev_decorate cat_in S d (abbrev_raw_good cat_in sets Hgood' th root Hshape Hlits S d Hin))
    as (E1 & E2 & E3 & E4 & E5).
  rewrite Heq in E1, E2, E3, E4, E5.
  unfold fd_char_in_fds, cf_fdset.
  cbn [Finder.fs_chars Finder.fs_negated Finder.fs_range Finder.fs_set].
  destruct (Analysis2.fs_chars f0) as [|c0 cs] eqn:Ec.
  - destruct (Analysis2.fs_range f0) as [[a b]|] eqn:Er.
    + rewrite E1. rewrite (E4 a b eq_refl c). destruct (Analysis2.fs_neg f0); symmetry; [apply Bool.xorb_true_l | apply Bool.xorb_false_l].
    + unfold cf_set_in. rewrite Hn. reflexivity.
  - rewrite E1. rewrite (E5 ltac:(discriminate) c). unfold zmem. destruct (Analysis2.fs_neg f0); symmetry; [apply Bool.xorb_true_l | apply Bool.xorb_false_l].
Qed.

Lemma cf_fds_fact th : forall L,
  (forall f0, In f0 L -> In f0 (find_fixed_distance_sets cat_in sets th root)) ->
  fd_fds_fact st (txt e) exec (cf_set_in cat_in L) (cf_fdsets L).
Proof.
  intros L HL. apply fd_fds_fact_of_sets.
  - intros s Hin. destruct (cf_fdsets_in L s Hin) as (j & f0 & Hj & -> & Hn).
    exists j. split; [reflexivity|]. intros c.
    apply (cf_abbrev_exact th f0); [apply HL; eapply nth_error_In; exact Hn|exact Hn|exact Hj].
  - intros q Hq Hs s id Hin Hid. destruct (cf_fdsets_in L s Hin) as (j & f0 & Hj & -> & Hn).
    cbn [cf_fdset Finder.fs_set] in Hid. injection Hid as <-. cbn [cf_fdset Finder.fs_distance].
    assert (Hf0 : In f0 (find_fixed_distance_sets cat_in sets th root)) by (apply HL; eapply nth_error_In; exact Hn).
    destruct (cf_all_true th q Hq Hs f0 Hf0) as (A & B & C & _).
    split; [unfold tlen in B; lia|]. unfold cf_set_in. rewrite Hn. exact C.
Qed.

(* FixedDistanceSets_LeftToRight / LeadingSet_LeftToRight: the published list is any non-empty selection L of
   the sets findFixedDistanceSets computes (the quality sort and the truncation to the best few only select
   and reorder), the i-th published Set answering CharIn as the C16 model does on its structure *)
Theorem cf_mode_fixed_distance_sets_sound : forall (th : bool) (L : list Analysis2.fdset) (g : fdopts),
  L <> [] -> (forall f0, In f0 L -> In f0 (find_fixed_distance_sets cat_in sets th root)) ->
  fo_mode g = FM_LeadingSet_LeftToRight \/ fo_mode g = FM_FixedDistanceSets_LeftToRight ->
  fo_minreq g = f_min f -> fo_sets g = cf_fdsets L ->
  forall start prevlen, 0 <= start <= n ->
  exists r, find e fuel root false start prevlen = Ok r /\
            scan n false (f_min f) (fd_total (fd_optimized_finder (txt e) (cf_set_in cat_in L) (lower e) g))
                 exec start prevlen = Ok r.
Proof.
  intros th L g HLne HL Hm Hmr Hsets. apply cf_optimized_scan; [exact Hmr| |].
  - unfold fd_mode_handled. cbv zeta. destruct Hm as [-> | ->]; reflexivity.
  - unfold fd_mode_fact. cbv zeta.
    assert (Hfact : exists primary rest id, fo_sets g = primary :: rest /\ Finder.fs_set primary = Some id /\
              0 <= Finder.fs_distance primary /\ fd_fds_fact st (txt e) exec (cf_set_in cat_in L) (fo_sets g)).
    { rewrite Hsets. destruct L as [|f0 L']; [contradiction|].
      exists (cf_fdset 0 f0), (cf_fdsets_from 1 L'), 0. split; [reflexivity|]. split; [reflexivity|]. split.
      - cbn [cf_fdset Finder.fs_distance]. apply (cf_fds_dist_nonneg th). apply HL. left. reflexivity.
      - exact (cf_fds_fact th (f0 :: L') HL). }
    destruct Hm as [-> | ->]; exact Hfact.
Qed.

(* FixedDistanceChar_LeftToRight: a published set whose Chars is one valid non-negated rune *)
Theorem cf_mode_fixed_distance_char_sound : forall (th : bool) (f0 : Analysis2.fdset) (c : Z) (g : fdopts),
  In f0 (find_fixed_distance_sets cat_in sets th root) -> fds_single f0 = Some c ->
  fo_mode g = FM_FixedDistanceChar_LeftToRight -> fo_minreq g = f_min f ->
  fo_fdl_c g = c -> fo_fdl_distance g = Analysis2.fs_dist f0 ->
  forall (set_in' : Z -> Z -> bool) start prevlen, 0 <= start <= n ->
  exists r, find e fuel root false start prevlen = Ok r /\
            scan n false (f_min f) (fd_total (fd_optimized_finder (txt e) set_in' (lower e) g)) exec start prevlen = Ok r.
Proof.
  intros th f0 c g Hin Hsg Hm Hmr Hc Hd set_in'. apply cf_optimized_scan; [exact Hmr| |].
  - unfold fd_mode_handled. cbv zeta. rewrite Hm. reflexivity.
  - unfold fd_mode_fact. cbv zeta. rewrite Hm. cbn. rewrite Hc, Hd. split; [exact (cf_fds_dist_nonneg th f0 Hin)|].
    intros q Hq Hs. pose proof (cf_all_true th q Hq Hs f0 Hin) as Ht.
    split; [exact (proj1 (proj2 Ht))|exact (fds_single_true cat_in e q f0 c Ht Hsg)].
Qed.

(* FixedDistanceString_LeftToRight: the string findFixedDistanceString extracts from the published sets *)
Theorem cf_mode_fixed_distance_string_sound : forall (th : bool) (str : list Z) (d0 : Z) (g : fdopts),
  find_fixed_distance_string (find_fixed_distance_sets cat_in sets th root) = Some (str, d0) ->
  fo_mode g = FM_FixedDistanceString_LeftToRight -> fo_minreq g = f_min f ->
  fo_fdl_s g = str -> fo_fdl_distance g = d0 ->
  forall (set_in' : Z -> Z -> bool) start prevlen, 0 <= start <= n ->
  exists r, find e fuel root false start prevlen = Ok r /\
            scan n false (f_min f) (fd_total (fd_optimized_finder (txt e) set_in' (lower e) g)) exec start prevlen = Ok r.
Proof.
  intros th str d0 g Hstr Hm Hmr Hs Hd set_in'. apply cf_optimized_scan; [exact Hmr| |].
  - unfold fd_mode_handled. cbv zeta. rewrite Hm. reflexivity.
  - unfold fd_mode_fact. cbv zeta. rewrite Hm. cbn. rewrite Hs, Hd.
    assert (Hd0 : 0 <= d0).
    { destruct (cf_fds_string_dist _ str d0 Hstr) as (f0 & Hin & <-). exact (cf_fds_dist_nonneg th f0 Hin). }
    split; [exact Hd0|].
    intros q Hq Hsq.
    pose proof (cf_fds_string_in cat_in e q _ str d0 (cf_all_true th q Hq Hsq) Hstr) as Hlit.
    destruct (Z.eq_dec (zlen str) 0) as [Hz|Hz].
    + destruct str; [reflexivity|]. rewrite fd_zlen_cons in Hz. pose proof (fd_zlen_nonneg str). lia.
    + pose proof (fd_zlen_nonneg str) as Hnn.
      destruct (Hlit (zlen str - 1) ltac:(lia)) as [Hb _]. unfold tlen in Hb.
      apply fd_prefix_match_intro.
      * rewrite fd_zlen_skipn by lia. lia.
      * intros j Hj. rewrite fd_nth_skipn_Z by lia. unfold fd_eq_exact.
        destruct (Hlit j Hj) as [_ Hc]. unfold char_at in Hc.
        replace (q + d0 + j) with (q + d0 + j) in Hc by lia. rewrite Hc. apply Z.eqb_refl.
Qed.

End ComposeFinder.
