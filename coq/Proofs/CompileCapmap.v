(* compile_correct for SPARSE capture maps (writer.caps / mapCapnum, writer.go:78-87, 479-490).

   When the pattern's group numbers are not 0..n-1 the Go writer maps them to slots:
   caps[Capnumlist[i]] = i, and every group operand of the code goes through mapCapnum
   (Model/Writer.v: map_capnum; -1 stays -1, a missing key reads 0).

   Method: no new interpreter proof.  The code emitted under a slot map IS the cfg0 code of the tree
   whose group numbers have been renamed by the map,
       cmap_compile :  compile {| capmap := cm; quick := None |} t = compile cfg0 (ren c t),
   and renaming groups by a map that is injective on the groups that occur commutes with the reference
   semantics (cmap_sem: results pairwise equal in position, and slot [map g] of the renamed run holds the
   capture stack of group g of the original run).  compile_correct2 (Proofs/CompileBal.v) applied to the
   renamed tree then gives the statement for the original tree, with the capture relation read THROUGH the
   map ([caps_rel_map]).

   SIDE CONDITIONS on the map, relative to a set G of group numbers (for the Go writer: the keys of the map;
   for the identity map: everything):
     cm_inj   map injective on G, and it sends no group of G other than -1 to -1
     ren_ok   every group number occurring in the tree is in G (the pushed side of (?<-u>...) is -1)
   cm_good (decidable, what syntax/writer.go builds: distinct keys, distinct values) implies cm_inj. *)
From Verif Require Import Base.Prelude Model.Tree Model.Spec Model.VM Model.Writer Gen.RunnerGen
  Proofs.SpecProofs Proofs.SpecBoundsProofs Proofs.MaskProofs Proofs.EraseProofs
  Proofs.VMU Proofs.VMUOps2 Proofs.CompileBase Proofs.CompileDefs Proofs.CompileProofs
  Proofs.CompileBalDen Proofs.CompileBalBase Proofs.CompileBalDefs Proofs.CompileBalCapture Proofs.CompileBal.
From Coq Require Import Relations ZifyBool.

(* ---------- renaming the group numbers of a tree ---------- *)
Fixpoint ren_with (mc : Z -> Z) (t : node) : node :=
  match t with
  | NRef o g => NRef o (mc g)
  | NConcat o l => NConcat o (map (ren_with mc) l)
  | NAlternate o l => NAlternate o (map (ren_with mc) l)
  | NLoop lazy o m n r => NLoop lazy o m n (ren_with mc r)
  | NCapture o g u r => NCapture o (mc g) (mc u) (ren_with mc r)
  | NGroup r => NGroup (ren_with mc r)
  | NPosLook o r => NPosLook o (ren_with mc r)
  | NNegLook o r => NNegLook o (ren_with mc r)
  | NAtomic r => NAtomic (ren_with mc r)
  | NBackRefCond o g yes no => NBackRefCond o (mc g) (ren_with mc yes) (mask_opt_node (ren_with mc) no)
  | NExprCond o c yes no => NExprCond o (ren_with mc c) (ren_with mc yes) (mask_opt_node (ren_with mc) no)
  | _ => t
  end.
Definition ren (c : wcfg) : node -> node := ren_with (map_capnum c).

(* every group number of the tree is in G *)
Definition ren_ok_node (G : Z -> Prop) (t : node) : Prop :=
  match t with
  | NCapture _ g u _ => if u =? -1 then G g else G u /\ (g = -1 \/ G g)
  | NRef _ g => G g
  | NBackRefCond _ g _ _ => G g
  | _ => True
  end.
Definition ren_ok (G : Z -> Prop) (t : node) : Prop := sb_all (ren_ok_node G) t.

Definition cm_inj (mc : Z -> Z) (G : Z -> Prop) : Prop :=
  (forall a b, G a -> G b -> mc a = mc b -> a = b) /\ (forall a, G a -> a <> -1 -> mc a <> -1).

(* ---------- the writer: code under a slot map = cfg0 code of the renamed tree ---------- *)
Section Syn.
Variable c : wcfg.
Hypothesis Hq : quick c = None.

Lemma cmap_emit_capture g u : emit_capture c g u = true.
Proof. unfold emit_capture. rewrite Hq. reflexivity. Qed.

Theorem cmap_csize : forall t, csize c t = csize cfg0 (ren c t).
Proof.
  induction t as [kd o ch|kd lk o ch m n|o str|o g|an| | | |o l HF|o l HF|lazy o m n r IHr|o g u r IHr
                 |r IHr|o r IHr|o r IHr|r IHr|o g yes no IHy IHn|o cnd yes no IHc IHy IHn]
    using node_ind'; unfold ren in *; cbn [ren_with]; try reflexivity.
  - rewrite !wr_csize_concat_eq.
    induction HF as [|x l Hx HF IH]; [reflexivity|]. cbn [map csize_seq]. rewrite Hx, IH. reflexivity.
  - rewrite !wr_csize_alternate_eq.
    induction HF as [|x l Hx HF IH]; [reflexivity|].
    destruct l as [|y l].
    + cbn [map csize_alt]. exact Hx.
    + cbn [map] in IH |- *. rewrite !wr_csize_alt_cons2. rewrite Hx, IH. reflexivity.
  - cbn [csize]. rewrite IHr. reflexivity.
  - cbn [csize]. rewrite cmap_emit_capture. change (emit_capture cfg0 _ _) with true. cbv iota. rewrite IHr. reflexivity.
  - cbn [csize]. exact IHr.
  - cbn [csize]. rewrite IHr. reflexivity.
  - cbn [csize]. rewrite IHr. reflexivity.
  - cbn [csize]. rewrite IHr. reflexivity.
  - cbn [csize]. rewrite IHy. destruct no as [x|]; cbn [mask_opt_node opt_all] in *; [rewrite IHn|]; reflexivity.
  - cbn [csize]. rewrite IHc, IHy. destruct no as [x|]; cbn [mask_opt_node opt_all] in *; [rewrite IHn|]; reflexivity.
Qed.

Theorem cmap_emit : forall t a tbl, emit c t a tbl = emit cfg0 (ren c t) a tbl.
Proof.
  induction t as [kd o ch|kd lk o ch m n|o str|o g|an| | | |o l HF|o l HF|lazy o m n r IHr|o g u r IHr
                 |r IHr|o r IHr|o r IHr|r IHr|o g yes no IHy IHn|o cnd yes no IHc IHy IHn]
    using node_ind'; intros a tbl; try reflexivity.
  - (* NRef *) unfold ren. cbn [ren_with emit]. rewrite c2_map_capnum0. reflexivity.
  - (* NConcat *)
    unfold ren in *. cbn [ren_with]. rewrite !wr_emit_concat_eq. revert a tbl.
    induction HF as [|x l Hx HF IH]; intros a tbl; [reflexivity|].
    cbn [map emit_seq]. rewrite Hx. destruct (emit cfg0 (ren_with (map_capnum c) x) a tbl) as [cx t1].
    rewrite IH. reflexivity.
  - (* NAlternate *)
    rewrite !wr_emit_alternate_eq. rewrite (cmap_csize (NAlternate o l)).
    unfold ren in *. cbn [ren_with]. rewrite wr_emit_alternate_eq.
    generalize (a + csize cfg0 (NAlternate o (map (ren_with (map_capnum c)) l))) as lend. intros lend. revert a tbl.
    induction HF as [|x l Hx HF IH]; intros a tbl; [reflexivity|].
    destruct l as [|y l].
    + cbn [map emit_alt]. exact (Hx a tbl).
    + cbn [map] in IH |- *. rewrite !wr_emit_alt_cons2. rewrite Hx.
      destruct (emit cfg0 (ren_with (map_capnum c) x) (a + 2) tbl) as [cx t1]. cbv zeta.
      rewrite IH. reflexivity.
  - unfold ren in *. cbn [ren_with emit]. rewrite IHr. reflexivity.
  - (* NCapture *)
    unfold ren in *. cbn [ren_with emit]. rewrite cmap_emit_capture. change (emit_capture cfg0 _ _) with true. cbv iota.
    rewrite IHr, !c2_map_capnum0. reflexivity.
  - unfold ren in *. cbn [ren_with emit]. exact (IHr a tbl).
  - unfold ren in *. cbn [ren_with emit]. rewrite IHr. reflexivity.
  - unfold ren in *. cbn [ren_with emit]. rewrite IHr. reflexivity.
  - unfold ren in *. cbn [ren_with emit]. rewrite IHr. reflexivity.
  - unfold ren in *. cbn [ren_with emit]. rewrite IHy, c2_map_capnum0.
    destruct (emit cfg0 (ren_with (map_capnum c) yes) (a + 6) tbl) as [cy t1].
    destruct no as [x|]; cbn [mask_opt_node opt_all] in *; [rewrite IHn|]; reflexivity.
  - unfold ren in *. cbn [ren_with emit]. rewrite IHc.
    destruct (emit cfg0 (ren_with (map_capnum c) cnd) (a + 4) tbl) as [cc t1].
    rewrite IHy. destruct (emit cfg0 (ren_with (map_capnum c) yes) (a + 4 + zlen cc + 2) t1) as [cy t2].
    destruct no as [x|]; cbn [mask_opt_node opt_all] in *; [rewrite IHn|]; reflexivity.
Qed.

Theorem cmap_compile t : compile c t = compile cfg0 (ren c t).
Proof. unfold compile. rewrite cmap_emit. reflexivity. Qed.

End Syn.

Lemma cmap_supported2_list mc l : Forall (fun t => supported2 (ren_with mc t) = supported2 t) l ->
  supported2_list (map (ren_with mc) l) = supported2_list l.
Proof.
  induction 1 as [|x l Hx HF IH]; [reflexivity|]. cbn [map].
  change (supported2_list (ren_with mc x :: map (ren_with mc) l))
    with (supported2 (ren_with mc x) && supported2_list (map (ren_with mc) l)).
  change (supported2_list (x :: l)) with (supported2 x && supported2_list l).
  rewrite Hx, IH. reflexivity.
Qed.

Lemma cmap_supported2 mc : forall t, supported2 (ren_with mc t) = supported2 t.
Proof.
  induction t as [kd o ch|kd lk o ch m n|o str|o g|an| | | |o l HF|o l HF|lazy o m n r IHr|o g u r IHr
                 |r IHr|o r IHr|o r IHr|r IHr|o g yes no IHy IHn|o cnd yes no IHc IHy IHn]
    using node_ind'; cbn [ren_with supported2]; try reflexivity; try assumption.
  - exact (cmap_supported2_list mc l HF).
  - replace (match map (ren_with mc) l with [] => false | _ => true end) with (match l with [] => false | _ => true end)
      by (destruct l; reflexivity).
    f_equal. exact (cmap_supported2_list mc l HF).
  - rewrite IHr. reflexivity.
  - rewrite IHy. destruct no as [x|]; cbn [mask_opt_node opt_all] in *; [rewrite IHn|]; reflexivity.
  - rewrite IHc, IHy. destruct no as [x|]; cbn [mask_opt_node opt_all] in *; [rewrite IHn|]; reflexivity.
Qed.

(* ---------- the reference semantics commutes with an injective renaming ---------- *)
Section Sem.
Variable e : env.
Variable mc : Z -> Z.
Variable G : Z -> Prop.
Hypothesis Hinj : cm_inj mc G.
Hypothesis Hfix : mc (-1) = -1.

Definition rcaps (c1 c2 : caps_t) : Prop := forall g, G g -> cap_get (mc g) c2 = cap_get g c1.
Definition ragree (s1 s2 : st) : Prop := pos s1 = pos s2 /\ rcaps (caps s1) (caps s2).

Notation LR := (Forall2 ragree).
Notation SR := (rrel (Forall2 ragree)).

Lemma cm_rc_set g l c1 c2 : G g -> rcaps c1 c2 -> rcaps (cap_set g l c1) (cap_set (mc g) l c2).
Proof.
  intros Hg Hc g' Hg'. destruct (Z.eq_dec g' g) as [->|Hne].
  - rewrite !er_cap_get_set_same. reflexivity.
  - rewrite (er_cap_get_set_other g g' l c1) by exact Hne.
    rewrite er_cap_get_set_other; [exact (Hc g' Hg')|].
    intros E. apply Hne. destruct Hinj as [Hi _]. apply Hi; assumption.
Qed.
Lemma cm_rc_push g iv c1 c2 : G g -> rcaps c1 c2 -> rcaps (cap_push g iv c1) (cap_push (mc g) iv c2).
Proof. intros Hg Hc. unfold cap_push. rewrite (Hc g Hg). apply cm_rc_set; assumption. Qed.
Lemma cm_rc_pop g c1 c2 : G g -> rcaps c1 c2 -> rcaps (cap_pop g c1) (cap_pop (mc g) c2).
Proof. intros Hg Hc. unfold cap_pop. rewrite (Hc g Hg). apply cm_rc_set; assumption. Qed.

Lemma cm_one a b : ragree a b -> LR [a] [b].
Proof. intros H. constructor; [exact H|constructor]. Qed.
Lemma cm_with_pos s1 s2 q : ragree s1 s2 -> ragree (with_pos s1 q) (with_pos s2 q).
Proof. intros [_ Hc]. split; [reflexivity|exact Hc]. Qed.

Lemma cm_iter (b1 b2 : st -> res (list st)) :
  (forall s1 s2, ragree s1 s2 -> SR (b1 s1) (b2 s2)) ->
  forall fuel lazy limit s1 s2 mark count, ragree s1 s2 ->
    SR (iter fuel b1 lazy limit s1 mark count) (iter fuel b2 lazy limit s2 mark count).
Proof.
  intros Hb. induction fuel as [|f IH]; intros lazy limit s1 s2 mark count Hag; [exact I|].
  cbn [iter]. pose proof Hag as [Hp Hc]. rewrite <- Hp.
  assert (Hagain :
    SR (bindr (b1 s1) (fun s' => iter f b1 lazy limit s' (pos s1) (count + 1)))
       (bindr (b2 s2) (fun s' => iter f b2 lazy limit s' (pos s1) (count + 1)))).
  { apply (er_rrel_bindr ragree ragree); [exact (Hb s1 s2 Hag)|].
    intros a b Hab. apply IH. exact Hab. }
  assert (Hone : LR [s1] [s2]) by (apply cm_one; exact Hag).
  destruct lazy.
  - destruct (count <? 0); [exact Hagain|].
    apply er_rrel_appr; [exact Hone|].
    destruct ((count <? limit) && negb (pos s1 =? mark)); [exact Hagain|constructor].
  - destruct ((limit <=? count) || ((pos s1 =? mark) && (0 <=? count))); [exact Hone|].
    apply er_rrel_appr; [exact Hagain|].
    destruct (0 <=? count); [exact Hone|constructor].
Qed.

Theorem cmap_sem : forall fuel t s1 s2,
  ren_ok G t -> ragree s1 s2 ->
  rrel (Forall2 ragree) (sem e fuel t s1) (sem e fuel (ren_with mc t) s2).
Proof.
  induction fuel as [|f IH]; intros t s1 s2 Hok Hag; [exact I|].
  pose proof Hag as [Hp Hc].
  pose proof (sb_all_here _ t Hok) as Hn.
  destruct t as [kd o c|kd lk o c m n|o str|o g|a| | | |o cl|o cl|lazy o m n r|o g u r|r|o r|o r|r
                |o g yes no|o c yes no]; cbn [sb_all] in Hok; cbn [ren_ok_node] in Hn.
  - cbn [ren_with sem rrel]. rewrite <- Hp.
    destruct ((0 <? avail e o (pos s1)) && char_test e kd c (next_char e o (pos s1)));
      [apply cm_one; split; [reflexivity|exact Hc]|constructor].
  - cbn [ren_with sem rrel]. unfold sem_charloop. rewrite <- Hp. cbv zeta.
    destruct (_ <? m); [constructor|].
    destruct lk.
    + apply er_Forall2_map_same. intros j. split; [reflexivity|exact Hc].
    + apply er_Forall2_map_same. intros j. split; [reflexivity|exact Hc].
    + apply cm_one. split; [reflexivity|exact Hc].
  - cbn [ren_with sem rrel]. unfold sem_multi. rewrite <- Hp. cbv zeta.
    destruct (avail e o (pos s1) <? zlen str); [constructor|].
    destruct (str_match_at e (is_ci o) str _); [apply cm_one; split; [reflexivity|exact Hc]|constructor].
  - (* NRef *)
    cbn [ren_with sem rrel]. unfold sem_ref. rewrite (Hc g Hn), <- Hp.
    destruct (cap_get g (caps s1)) as [|[i len] rest].
    + destruct (ecma e); [apply cm_one; exact Hag|constructor].
    + destruct (avail e o (pos s1) <? len); [constructor|].
      destruct (ref_match_at e (is_ci o) (Z.to_nat len) i _);
        [apply cm_one; split; [reflexivity|exact Hc]|constructor].
  - cbn [ren_with sem rrel]. rewrite <- Hp.
    destruct (anchor_ok e a (pos s1)); [apply cm_one; exact Hag|constructor].
  - constructor.
  - cbn [ren_with sem rrel]. apply cm_one; exact Hag.
  - cbn [ren_with sem rrel]. apply cm_one; exact Hag.
  - (* NConcat *)
    cbn [ren_with sem]. destruct Hok as [_ Hok]. clear Hn Hp Hc. revert s1 s2 Hag.
    induction cl as [|x l' IHl]; intros s1 s2 Hag.
    + cbn [map rrel]. apply cm_one; exact Hag.
    + destruct Hok as [Hx Hl]. cbn [map]. apply (er_rrel_bindr ragree ragree).
      * apply IH; assumption.
      * intros a b Hab. apply IHl; assumption.
  - (* NAlternate *)
    cbn [ren_with sem]. destruct Hok as [_ Hok]. clear Hn.
    induction cl as [|x l' IHl].
    + constructor.
    + destruct Hok as [Hx Hl]. cbn [map]. apply er_rrel_appr.
      * apply IH; assumption.
      * apply IHl. exact Hl.
  - (* NLoop *)
    cbn [ren_with sem]. destruct Hok as [_ Hr].
    assert (HI : forall lazy limit s1 s2 mark count, ragree s1 s2 ->
               SR (iter f (sem e f r) lazy limit s1 mark count)
                  (iter f (sem e f (ren_with mc r)) lazy limit s2 mark count)).
    { apply cm_iter. intros a b Hab. apply IH; assumption. }
    destruct (m =? 0); [apply HI; exact Hag|].
    apply (er_rrel_bindr ragree ragree); [apply IH; assumption|].
    intros a b Hab. rewrite <- Hp. apply HI. exact Hab.
  - (* NCapture *)
    destruct Hok as [_ Hr]. cbn [ren_with sem].
    destruct (u =? -1) eqn:Eu.
    + assert (u = -1) by lia. subst u. rewrite Hfix. change (-1 =? -1) with true. cbv iota.
      apply (er_rrel_bindr ragree ragree); [apply IH; assumption|].
      intros a b [Hpab Hcab]. cbn [rrel]. apply cm_one. split; cbn [pos caps]; [exact Hpab|].
      rewrite <- Hp, <- Hpab. apply cm_rc_push; assumption.
    + destruct Hn as [Hgu Hgg].
      assert (Hmu : (mc u =? -1) = false).
      { destruct Hinj as [_ Hne]. pose proof (Hne u Hgu ltac:(lia)). lia. }
      rewrite Hmu.
      apply (er_rrel_bindr ragree ragree); [apply IH; assumption|].
      intros a b [Hpab Hcab]. rewrite (Hcab u Hgu).
      destruct (cap_get u (caps a)) as [|top rest]; [constructor|].
      cbn [rrel]. apply cm_one. split; cbn [pos caps]; [exact Hpab|].
      rewrite <- Hp, <- Hpab.
      destruct Hgg as [->|Hgg].
      * rewrite Hfix. change (-1 =? -1) with true. cbv iota. apply cm_rc_pop; assumption.
      * destruct (g =? -1) eqn:Eg.
        -- assert (g = -1) by lia. subst g. rewrite Hfix. change (-1 =? -1) with true. cbv iota.
           apply cm_rc_pop; assumption.
        -- assert (Hmg : (mc g =? -1) = false).
           { destruct Hinj as [_ Hne]. pose proof (Hne g Hgg ltac:(lia)). lia. }
           rewrite Hmg. apply cm_rc_push; [exact Hgg|]. apply cm_rc_pop; assumption.
  - cbn [ren_with sem]. destruct Hok as [_ Hr]. apply IH; assumption.
  - (* NPosLook *)
    cbn [ren_with sem]. destruct Hok as [_ Hr].
    apply (er_rrel_bind (Forall2 ragree) (Forall2 ragree)).
    + apply er_rrel_first_only. apply IH; assumption.
    + intros l1 l2 HF. cbn [rrel]. rewrite <- Hp.
      apply (er_Forall2_map ragree ragree); [|exact HF].
      intros a b Hab. apply cm_with_pos. exact Hab.
  - (* NNegLook *)
    cbn [ren_with sem]. destruct Hok as [_ Hr].
    apply (er_rrel_bind (Forall2 ragree) (Forall2 ragree)).
    + apply IH; assumption.
    + intros l1 l2 HF. cbn [rrel]. destruct HF; [apply cm_one; exact Hag|constructor].
  - cbn [ren_with sem]. destruct Hok as [_ Hr]. apply er_rrel_first_only. apply IH; assumption.
  - (* NBackRefCond *)
    cbn [ren_with sem]. destruct Hok as [_ [Hy Hno]].
    unfold is_matched. rewrite (Hc g Hn).
    destruct (cap_get g (caps s1)).
    + destruct no as [n|]; cbn [mask_opt_node].
      * apply IH; assumption.
      * cbn [rrel]. apply cm_one; exact Hag.
    + apply IH; assumption.
  - (* NExprCond *)
    cbn [ren_with sem]. destruct Hok as [_ [Hcn [Hy Hno]]].
    apply (er_rrel_bind (Forall2 ragree) (Forall2 ragree)).
    + apply er_rrel_first_only. apply IH; assumption.
    + intros l1 l2 HF. destruct HF as [|a b l1 l2 Hab HF].
      * destruct no as [n|]; cbn [mask_opt_node].
        -- apply IH; assumption.
        -- cbn [rrel]. apply cm_one; exact Hag.
      * rewrite <- Hp. apply IH; [exact Hy|]. apply cm_with_pos. exact Hab.
Qed.

Definition opt_ragree (o1 o2 : option st) : Prop :=
  match o1, o2 with
  | None, None => True
  | Some a, Some b => ragree a b
  | _, _ => False
  end.

Lemma cmap_attempt fuel root t0 : ren_ok G root ->
  rrel opt_ragree (attempt e fuel root t0) (attempt e fuel (ren_with mc root) t0).
Proof.
  intros Hok. unfold attempt.
  apply (er_rrel_bind (Forall2 ragree) opt_ragree).
  - apply cmap_sem; [exact Hok|]. split; [reflexivity|]. intros g _. reflexivity.
  - intros l1 l2 HF. cbn [rrel]. destruct HF; cbn [opt_ragree]; [exact I|assumption].
Qed.

End Sem.

(* ---------- slot maps as the Go writer builds them ---------- *)
Definition cm_G (cm : option (list (Z * Z))) (g : Z) : Prop :=
  match cm with None => True | Some m => In g (map fst m) end.

Fixpoint znodupb (l : list Z) : bool :=
  match l with [] => true | x :: l' => negb (zmem x l') && znodupb l' end.

(* distinct keys, distinct values, no value -1 *)
Definition cm_good (cm : option (list (Z * Z))) : bool :=
  match cm with
  | None => true
  | Some m => znodupb (map fst m) && znodupb (map snd m) && negb (zmem (-1) (map snd m))
  end.

Lemma cm_zmem_in x l : zmem x l = true <-> In x l.
Proof.
  unfold zmem. rewrite existsb_exists. split.
  - intros (y & Hy & E). apply Z.eqb_eq in E. subst y. exact Hy.
  - intros H. exists x. split; [exact H|apply Z.eqb_refl].
Qed.

Lemma cm_zassoc_in k m : In k (map fst m) -> In (k, zassoc k m 0) m.
Proof.
  induction m as [|[k' v] m IH]; cbn [map fst In zassoc]; [contradiction|].
  intros H. destruct (k =? k') eqn:E.
  - left. f_equal. lia.
  - right. apply IH. destruct H as [H|H]; [lia|exact H].
Qed.

Lemma cm_nodup_snd_inj m : znodupb (map fst m) = true -> znodupb (map snd m) = true ->
  forall a b v, In (a, v) m -> In (b, v) m -> a = b.
Proof.
  induction m as [|[k w] m IH]; cbn [map fst snd znodupb In]; intros Hk Hv a b v Ha Hb; [contradiction|].
  apply andb_prop in Hk. destruct Hk as [Hk1 Hk2]. apply andb_prop in Hv. destruct Hv as [Hv1 Hv2].
  assert (Hnv : forall x, In (x, w) m -> False).
  { intros x Hx. apply (in_map snd) in Hx. cbn [snd] in Hx. apply cm_zmem_in in Hx. rewrite Hx in Hv1. discriminate. }
  destruct Ha as [Ha|Ha], Hb as [Hb|Hb].
  - congruence.
  - injection Ha as <- <-. exfalso. eapply Hnv. exact Hb.
  - injection Hb as <- <-. exfalso. eapply Hnv. exact Ha.
  - eapply IH; eassumption.
Qed.

Lemma cm_good_inj cm : cm_good cm = true ->
  cm_inj (map_capnum {| capmap := cm; quick := None |}) (cm_G cm).
Proof.
  destruct cm as [m|]; cbn [cm_good cm_G]; intros H.
  - apply andb_prop in H. destruct H as [H Hm1]. apply andb_prop in H. destruct H as [Hk Hv].
    assert (Hne : forall a, In a (map fst m) -> zassoc a m 0 <> -1).
    { intros a Ha E. apply cm_zassoc_in in Ha. rewrite E in Ha. apply (in_map snd) in Ha. cbn [snd] in Ha.
      apply cm_zmem_in in Ha. rewrite Ha in Hm1. discriminate. }
    split.
    + intros a b Ha Hb E. unfold map_capnum in E. cbn [capmap] in E.
      pose proof (Hne a Ha). pose proof (Hne b Hb).
      destruct (a =? -1) eqn:Ea, (b =? -1) eqn:Eb; try lia.
      eapply (cm_nodup_snd_inj m Hk Hv a b (zassoc a m 0)); [apply cm_zassoc_in; exact Ha|].
      rewrite E. apply cm_zassoc_in. exact Hb.
    + intros a Ha Hna. unfold map_capnum. cbn [capmap]. replace (a =? -1) with false by lia. apply Hne. exact Ha.
  - split.
    + intros a b _ _ E. unfold map_capnum in E. cbn [capmap] in E.
      destruct (a =? -1) eqn:Ea, (b =? -1) eqn:Eb; lia.
    + intros a _ Hna. unfold map_capnum. cbn [capmap]. replace (a =? -1) with false by lia. exact Hna.
Qed.

(* ---------- compile_correct through a slot map ---------- *)
Section Top.
Variable e : env.
Variable p : program.
Variable cm : option (list (Z * Z)).
Notation c := {| capmap := cm; quick := None |}.

(* slot [map g] of the interpreter's capture arrays denotes group g's reference capture stack *)
Definition caps_rel_map (cp : caps_t) (M : list (list Z)) : Prop :=
  zlen M = capsize p /\
  forall g, cm_G cm g -> 0 <= map_capnum c g < capsize p ->
    exists ps, nth (Z.to_nat (map_capnum c g)) M [] = flat (rev ps) /\ Den ps (cap_get g cp).

Theorem compile_correct_capmap_exec_partial :
  0 <= trackcount p -> tlen e <= INF ->
  forall L fuel vfuel o body t0 r s',
  let root := NCapture o 0 (-1) body in
  let M0 := repeat [] (Z.to_nat (capsize p)) in
  let stop := 2 + csize c root in
  codes p = fst (compile c root) -> strings p = snd (compile c root) ->
  supported2 root = true -> cm_good cm = true -> map_capnum c 0 = 0 ->
  ren_ok (cm_G cm) root -> groups_ok2 (capsize p) (ren c root) ->
  0 <= t0 <= tlen e -> Z.of_nat fuel <= INF ->
  attempt e fuel root t0 = Ok r ->
  exec_at e p L vfuel t0 = Ok s' ->
  pc s' = stop /\ mode s' = 0 /\
  match r with
  | Some q => tp s' = pos q /\ caps_rel_map (caps q) (mcaps s') /\ matched0 s' = true
  | None => mcaps s' = M0 /\ matched0 s' = false
  end.
Proof.
  intros Htc Htl L fuel vfuel o body t0 r s' root M0 stop Hcodes Hstr Hs Hgood H0 Hok Hg Ht0 Hf Hatt Hex.
  pose proof (cm_good_inj cm Hgood) as Hinj.
  assert (Hfix : map_capnum c (-1) = -1) by reflexivity.
  assert (Hren : ren c root = NCapture o 0 (-1) (ren c body)).
  { unfold ren, root. cbn [ren_with]. rewrite H0, Hfix. reflexivity. }
  pose proof (cmap_attempt e (map_capnum c) (cm_G cm) Hinj Hfix fuel root t0 Hok) as Hsim.
  rewrite Hatt in Hsim.
  destruct (attempt e fuel (ren_with (map_capnum c) root) t0) as [r'| | |] eqn:Hatt'; cbn [rrel] in Hsim; try contradiction.
  fold (ren c root) in Hatt'. rewrite Hren in Hatt', Hg.
  rewrite (cmap_compile c eq_refl root), Hren in Hcodes, Hstr.
  assert (Hs' : supported2 (NCapture o 0 (-1) (ren c body)) = true).
  { rewrite <- Hren. unfold ren. rewrite cmap_supported2. exact Hs. }
  destruct (compile_correct2_exec_partial e p Htc Htl L fuel vfuel o (ren c body) t0 r' s'
              Hcodes Hstr Hs' Hg Ht0 Hf Hatt' Hex) as (Hpc & Hmd & Hres).
  split. { unfold stop. rewrite (cmap_csize c eq_refl root), Hren. exact Hpc. }
  split; [exact Hmd|].
  destruct r as [q|], r' as [q'|]; cbn [opt_ragree] in Hsim; try contradiction.
  - destruct Hres as (Htp & Hcr & Hm0). destruct Hsim as [Hpq Hcq].
    split; [congruence|]. split; [|exact Hm0].
    destruct Hcr as [Hl Hc]. split; [exact Hl|].
    intros g HG Hslot. destruct (Hc _ Hslot) as (ps & Ea & Hd). exists ps. split; [exact Ea|].
    rewrite (Hcq g HG) in Hd. exact Hd.
  - exact Hres.
Qed.

End Top.

Print Assumptions compile_correct_capmap_exec_partial.

(* ---------- a concrete instance: (?<5>a)(?<9>b)\5 with slots 5 -> 1, 9 -> 2 ---------- *)
Example cmap_demo :
  let cm := Some [(0, 0); (5, 1); (9, 2)] in
  let c := {| capmap := cm; quick := None |} in
  let root := NCapture 0 0 (-1) (NConcat 0 [NCapture 0 5 (-1) (NChar COne 0 97); NCapture 0 9 (-1) (NChar COne 0 98); NRef 0 5]) in
  let p := {| codes := fst (compile c root); strings := snd (compile c root);
              trackcount := track_count (fst (compile c root)); capsize := 3 |} in
  let e := cc_demo_env2 [97; 98; 97] in
  cm_good cm = true /\ ren c root <> root /\
  attempt e 20 root 0 = Ok (Some {| pos := 3; caps := [(5, [(0, 1)]); (9, [(1, 1)]); (0, [(0, 3)])] |}) /\
  (exists s', exec_at e p (-1) 5 0 = Ok s' /\ tp s' = 3 /\ mcaps s' = [[0; 3]; [0; 1]; [1; 1]]).
Proof.
  cbv zeta. split; [reflexivity|]. split; [discriminate|]. split; [vm_compute; reflexivity|].
  eexists. split; [vm_compute; reflexivity|]. split; reflexivity.
Qed.
