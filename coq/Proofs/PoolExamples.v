(* A concrete environment used by the non-vacuity Examples of Properties/C12.v and C11.v: a toy interpreter whose
   traces make the track grow, leave junk everywhere, match / fail / time out / hit the limit depending on the
   text, so that pooled runners, buffers and the cache really carry stale state between calls. *)
From Verif Require Import Base.Prelude Model.Pool Proofs.PoolStackProofs Proofs.PoolRunnerProofs
  Proofs.PoolStateProofs Proofs.PoolSimProofs Proofs.PoolProofs.

Definition toy_cfg (re : nat) : re_cfg :=
  {| cfg_has_quick := Nat.eqb re 0; cfg_rtl := Nat.eqb re 2; cfg_tc := fun _ => 2; cfg_capsize := 2;
     cfg_limit := if Nat.eqb re 1 then 65 else 100000;
     cfg_max_rune := 16; cfg_max_byte := 16; cfg_cache_max := 2; cfg_cache_bytes := -1;
     cfg_timeout := if Nat.eqb re 1 then 5 else max_int64; cfg_debug := false |}.

(* checks every 8 slots (4*TrackCount) down to the depth given by the first rune of the text *)
Fixpoint toy_segs (n : nat) (d : Z) : list seg :=
  match n with
  | O => []
  | S n' => {| sg_td := d; sg_tmax := d + 8; sg_sd := 0; sg_smax := 4 |} :: toy_segs n' (d + 8)
  end.

Definition toy_interp (re : nat) (v : view) : trace :=
  let t := v_text v in
  let first := hd 0 t in
  {| tr_segs := toy_segs (Z.to_nat first) 0;
     tr_term := if zlen t =? 0 then TNone
                else if nth 1 t 0 =? 99 then TTimeout
                else if v_textpos v <? zlen t
                     then TMatch {| md_index := v_textpos v; md_length := 1; md_textpos := v_textpos v + 1;
                                    md_caps := [[v_textpos v; 1]]; md_balancing := false |}
                     else TNone;
     tr_junk := {| j_track := t; j_tpos := 3; j_stack := [7; 7]; j_spos := 1; j_crawl := [5]; j_cpos := 2;
                   j_crawl_len := 64; j_matchcount := [1; 3]; j_matches := [t; t]; j_balancing := true;
                   j_textpos := 42; j_misc := [1; 2; 3; 4] |} |}.

Definition toy_env : env :=
  {| e_cfg := toy_cfg; e_interp := toy_interp; e_decode := fun s => s;
     e_rune_start := fun s a => if (0 <=? a) && (a <=? zlen s) then a else -1;
     e_ms_cand := fun re s => if zlen s =? 7 then None else Some (-1);
     e_str_start := fun re s a at_v => if zlen s <? a then Err E_START_LARGE else Ok (Some (if a <? 0 then 0 else a));
     e_fa_start := fun re s => Ok (Some 0);
     e_fa_index := fun s i => i;
     e_fa_emit := fun pe m => negb (md_length m =? 0) || negb (md_index m =? pe);
     e_fa_edge := fun m => md_textpos m;
     e_parse_repl := fun re k => if zlen k =? 0 then Err 6 else Ok k;
     e_repl_out := fun rtl d t ms => flat_map (fun m => d) ms;
     e_replf_out := fun ev rtl t ms => map md_index ms;
     e_split_out := fun t ms => map (fun m => [md_index m]) ms;
     e_blen := fun l => zlen l;
     e_bytes_grow := fun c n => n * 2;
     e_deadline := fun d => d + 1000 |}.

Lemma toy_segs_wf : forall n d, 0 <= d -> segs_wf 2 d 4 (toy_segs n d).
Proof.
  induction n as [|n IH]; intros d H; cbn [toy_segs segs_wf]; [exact I|].
  cbn [sg_td sg_tmax sg_sd sg_smax]. repeat split; try lia.
  assert (X : segs_wf 2 (d + 8) 4 (toy_segs n (d + 8))) by (apply IH; lia). exact X.
Qed.
Lemma toy_segs_wf0 : forall n, segs_wf 2 0 0 (toy_segs n 0).
Proof.
  destruct n as [|n]; cbn [toy_segs segs_wf]; [exact I|].
  cbn [sg_td sg_tmax sg_sd sg_smax]. repeat split; try lia. apply (toy_segs_wf n 8). lia.
Qed.

Lemma toy_env_wf : env_wf toy_env.
Proof.
  split; [|split].
  - intros re. repeat split; cbn; lia.
  - intros re v H. cbn in H. rewrite H. cbn [e_interp toy_env toy_interp tr_segs]. apply toy_segs_wf0.
  - intros s. cbn. lia.
Qed.

(* three Regexps (0: has a bool-only program; 1: stack limit 65 and a timeout; 2: right-to-left) sharing pools with
   classes 4/8 (runes) and 8/16 (bytes) *)
Definition toy_g0 : gstate := gstate0 3 [4; 8] [8; 16].

(* a history that recycles everything: [Some 0] always takes the most recently pooled object *)
Definition toy_history : list hstep :=
  [ HCall (OMatchString 0 [9; 1; 1]) [];                         (* track grows to 128 *)
    HCall (OMatchString 0 [1; 2]) [Some O; Some O];              (* same runner, same buffer: stale tail [1] *)
    HCall (OFindStringMatch 0 [2; 2; 2]) [Some O];               (* quick runner reused by a full-program call *)
    HCall (OMatchRunes 1 [9; 1]) [];                             (* limit 65: refused at depth 64 *)
    HCall (OMatchRunes 1 [1; 99]) [Some O];                         (* times out on the runner that hit the limit *)
    HCall (OMatchRunes 1 [3; 3]) [Some O];                       (* and then matches normally *)
    HCall (OReplace 0 [1; 1] [50] (-1) (-1)) [Some O; Some O; Some O];
    HCall (OReplace 0 [1; 1] [51] (-1) (-1)) [Some O; Some O; Some O];
    HCall (OReplace 0 [1; 1] [52] (-1) (-1)) [Some O; Some O; Some O];   (* evicts [50] *)
    HCall (OReplace 0 [1; 1] [50] (-1) (-1)) [Some O; Some O; Some O];   (* miss again, evicts [51] *)
    HCall (OReplace 0 [1; 1] [] (-1) (-1)) [];                   (* unparsable replacement *)
    HCall (OFindAllStringIndex 0 [1; 2; 3] (-1)) [Some O; Some O];
    HGc (fun i => Nat.eqb i 1);
    HCall (OFindAllRunesIndex 2 [1; 2; 3] 2) [Some O];
    HCall (OSplit 0 [1; 2] (-1)) [Some O; Some O; Some O];
    HCall (OReplaceFunc 0 [1; 2] 7 0 (-1)) [Some O; Some O; Some O];
    HCall (OFindNextMatch 0 (Some ([1; 2; 3], 1, 1))) [Some O];
    HCall (OMatchString 0 [1; 1; 1; 1; 1; 1; 1]) [] ].

Definition toy_fuel : nat := 20.

(* two goroutines on the same Regexp, strictly alternating, each Get taking the most recently pooled object *)
Definition toy_opss : list (list op) :=
  [ [OMatchString 0 [9; 1; 1]; OReplace 0 [1; 1] [50] (-1) (-1); OFindAllStringIndex 0 [1; 2; 3] (-1)];
    [OMatchString 0 [1; 2]; OFindStringMatch 0 [2; 2; 2]; OReplace 0 [1; 1] [50] (-1) (-1); OSplit 0 [1; 2] (-1)];
    [OMatchRunes 1 [9; 1]; OMatchRunes 1 [1; 99]; OMatchRunes 1 [3; 3]] ].
Fixpoint toy_sched (n : nat) : list (nat * pick) :=
  match n with
  | O => []
  | S n' => (O, Some O) :: (1%nat, Some O) :: (2%nat, None) :: (1%nat, Some 1%nat) :: toy_sched n'
  end.
Definition toy_c0 : config := {| c_g := toy_g0; c_threads := map spawn toy_opss; c_fault := false |}.
