(* Basic facts used by the GroupMap proofs: names, association lists, sorted key lists, itoa. *)
From Verif Require Import Base.Prelude Model.GroupMap.
From Coq Require Import Sorting.Sorted DecimalPos DecimalFacts Decimal FinFun.

(* ---------- zlist_eqb / zmem ---------- *)

Lemma zlist_eqb_refl : forall a, zlist_eqb a a = true.
Proof. induction a as [|x a IH]; cbn; [reflexivity|]. now rewrite Z.eqb_refl, IH. Qed.

Lemma zlist_eqb_eq : forall a b, zlist_eqb a b = true <-> a = b.
Proof.
  induction a as [|x a IH]; destruct b as [|y b]; cbn; split; intros H; try reflexivity; try discriminate.
  - apply andb_true_iff in H. destruct H as [H1 H2]. apply Z.eqb_eq in H1. apply IH in H2. now subst.
  - inversion H; subst. now rewrite Z.eqb_refl, zlist_eqb_refl.
Qed.

Lemma zlist_eqb_neq : forall a b, zlist_eqb a b = false <-> a <> b.
Proof.
  intros a b. split; intros H.
  - intros E. apply zlist_eqb_eq in E. congruence.
  - destruct (zlist_eqb a b) eqn:E; [|reflexivity]. apply zlist_eqb_eq in E. contradiction.
Qed.

Lemma zmem_In : forall x l, zmem x l = true <-> In x l.
Proof.
  intros x l. unfold zmem. rewrite existsb_exists. split.
  - intros [y [Hy E]]. apply Z.eqb_eq in E. now subst.
  - intros H. exists x. split; [assumption|apply Z.eqb_refl].
Qed.

Lemma zmem_false : forall x l, zmem x l = false <-> ~ In x l.
Proof.
  intros. split; intros H.
  - intros HI. apply zmem_In in HI. congruence.
  - destruct (zmem x l) eqn:E; [|reflexivity]. apply zmem_In in E. contradiction.
Qed.

(* ---------- association lists ---------- *)

Lemma aget_aset_same : forall s v m, aget s (aset s v m) = Some v.
Proof.
  induction m as [|[k w] m IH]; cbn.
  - now rewrite zlist_eqb_refl.
  - destruct (zlist_eqb s k) eqn:E; cbn; rewrite E; [reflexivity|assumption].
Qed.

Lemma aget_aset_other : forall s s' v m, s <> s' -> aget s (aset s' v m) = aget s m.
Proof.
  intros s s' v m Hn. induction m as [|[k w] m IH]; cbn.
  - apply zlist_eqb_neq in Hn. now rewrite Hn.
  - destruct (zlist_eqb s' k) eqn:E; cbn.
    + apply zlist_eqb_eq in E. subst k. apply zlist_eqb_neq in Hn. now rewrite Hn.
    + destruct (zlist_eqb s k); [reflexivity|assumption].
Qed.

Lemma amem_aget : forall s m, amem s m = true <-> exists v, aget s m = Some v.
Proof.
  intros. unfold amem. destruct (aget s m); split; intros H; try reflexivity; try discriminate.
  - now eexists.
  - destruct H; discriminate.
Qed.

Lemma amem_false : forall s m, amem s m = false <-> aget s m = None.
Proof. intros. unfold amem. destruct (aget s m); split; intros; congruence. Qed.

Lemma aget0_some : forall s m v, aget s m = Some v -> aget0 s m = v.
Proof. intros. unfold aget0. now rewrite H. Qed.

(* keys of an association list *)
Definition akeys (m : nmap) : list name := map fst m.

Lemma aget_none_keys : forall s m, aget s m = None <-> ~ In s (akeys m).
Proof.
  induction m as [|[k w] m IH]; cbn; [tauto|].
  destruct (zlist_eqb s k) eqn:E.
  - apply zlist_eqb_eq in E. subst. split; [discriminate|]. intros H. exfalso. apply H. now left.
  - apply zlist_eqb_neq in E. rewrite IH. split; intros H.
    + intros [H1|H1]; [congruence|contradiction].
    + intros H1. apply H. now right.
Qed.

Lemma akeys_aset : forall s v m x, In x (akeys (aset s v m)) <-> x = s \/ In x (akeys m).
Proof.
  induction m as [|[k w] m IH]; intros x; cbn.
  - split; [intros [H|[]]; now left | intros [H|[]]; now left].
  - destruct (zlist_eqb s k) eqn:E; cbn.
    + apply zlist_eqb_eq in E. subst k. split; [tauto|]. intros [H|H]; [now left|assumption].
    + rewrite IH. tauto.
Qed.

(* ---------- zget on (key, index) lists ---------- *)

Lemma zget_combine_nth : forall (l : list Z) (vs : list Z) k i,
  NoDup l -> length l = length vs -> nth_error l i = Some k ->
  zget k (combine l vs) = nth_error vs i.
Proof.
  induction l as [|x l IH]; intros vs k i Hnd Hlen Hn; destruct vs as [|v vs]; try discriminate.
  - destruct i; discriminate.
  - inversion Hnd as [|? ? Hx Hnd']; subst. cbn in Hlen. injection Hlen as Hlen.
    destruct i as [|i]; cbn in *.
    + injection Hn as ->. now rewrite Z.eqb_refl.
    + destruct (k =? x) eqn:E.
      * apply Z.eqb_eq in E. subst. exfalso. apply Hx. eapply nth_error_In; eauto.
      * eapply IH; eauto.
Qed.

Lemma zget_combine_none : forall (l vs : list Z) k, ~ In k l -> zget k (combine l vs) = None.
Proof.
  induction l as [|x l IH]; intros vs k Hn; destruct vs as [|v vs]; cbn; try reflexivity.
  destruct (k =? x) eqn:E.
  - apply Z.eqb_eq in E. subst. exfalso. apply Hn. now left.
  - apply IH. intros H. apply Hn. now right.
Qed.

Lemma zget_combine_some_in : forall (l vs : list Z) k v, zget k (combine l vs) = Some v -> In k l.
Proof.
  induction l as [|x l IH]; intros vs k v H; destruct vs as [|w vs]; cbn in *; try discriminate.
  destruct (k =? x) eqn:E.
  - apply Z.eqb_eq in E. now left.
  - right. eapply IH; eauto.
Qed.

(* ---------- zrange ---------- *)

Lemma zrange_length : forall n, length (zrange n) = Z.to_nat n.
Proof. intros. unfold zrange. now rewrite map_length, seq_length. Qed.

Lemma zrange_nth : forall n i, (i < Z.to_nat n)%nat -> nth_error (zrange n) i = Some (Z.of_nat i).
Proof.
  intros n i H. unfold zrange. rewrite nth_error_map.
  rewrite (nth_error_nth' _ 0%nat) by (now rewrite seq_length).
  rewrite seq_nth by assumption. reflexivity.
Qed.

Lemma zrange_In : forall n k, In k (zrange n) <-> 0 <= k < n.
Proof.
  intros n k. unfold zrange. rewrite in_map_iff. split.
  - intros [i [E H]]. apply in_seq in H. lia.
  - intros H. exists (Z.to_nat k). split; [lia|]. apply in_seq. lia.
Qed.

(* ---------- strictly increasing key lists ---------- *)

Definition ssorted (l : list Z) : Prop := StronglySorted Z.lt l.

Lemma ssorted_NoDup : forall l, ssorted l -> NoDup l.
Proof.
  induction l as [|x l IH]; intros H; [constructor|].
  inversion H as [|? ? Hs Hf]; subst. constructor; [|now apply IH].
  intros HI. rewrite Forall_forall in Hf. specialize (Hf _ HI). lia.
Qed.

Lemma caps_insert_In : forall i l y, In y (caps_insert i l) <-> y = i \/ In y l.
Proof.
  induction l as [|x l IH]; intros y; cbn.
  - split; [intros [H|[]]; now left|intros [H|[]]; now left].
  - destruct (i <? x) eqn:E1; [cbn; intuition|].
    destruct (i =? x) eqn:E2.
    + apply Z.eqb_eq in E2. subst. cbn. intuition.
    + cbn. rewrite IH. intuition.
Qed.

Lemma caps_insert_sorted : forall i l, ssorted l -> ssorted (caps_insert i l).
Proof.
  induction l as [|x l IH]; intros H; cbn.
  - constructor; constructor.
  - inversion H as [|? ? Hs Hf]; subst.
    destruct (i <? x) eqn:E1.
    + apply Z.ltb_lt in E1. constructor; [assumption|].
      constructor; [assumption|]. rewrite Forall_forall in *. intros y Hy. specialize (Hf _ Hy). lia.
    + destruct (i =? x) eqn:E2; [assumption|].
      apply Z.ltb_ge in E1. apply Z.eqb_neq in E2.
      constructor; [now apply IH|].
      rewrite Forall_forall in *. intros y Hy. apply caps_insert_In in Hy. destruct Hy as [->|Hy]; [lia|now apply Hf].
Qed.

Lemma caps_insert_length : forall i l, ~ In i l -> length (caps_insert i l) = S (length l).
Proof.
  induction l as [|x l IH]; intros Hn; cbn; [reflexivity|].
  destruct (i <? x); [reflexivity|].
  destruct (i =? x) eqn:E2.
  - apply Z.eqb_eq in E2. subst. exfalso. apply Hn. now left.
  - cbn. rewrite IH; [reflexivity|]. intros H. apply Hn. now right.
Qed.

(* a strictly increasing list inside [lo, hi) has at most hi - lo elements *)
Lemma ssorted_length_bound : forall l lo hi, ssorted l -> (forall x, In x l -> lo <= x < hi) ->
  Z.of_nat (length l) <= Z.max 0 (hi - lo).
Proof.
  induction l as [|x l IH]; intros lo hi Hs Hb; cbn [length]; [lia|].
  inversion Hs as [|? ? Hs' Hf]; subst.
  assert (Hx : lo <= x < hi) by (apply Hb; now left).
  specialize (IH (x + 1) hi Hs').
  assert (Z.of_nat (length l) <= Z.max 0 (hi - (x + 1))).
  { apply IH. intros y Hy. rewrite Forall_forall in Hf. specialize (Hf _ Hy). specialize (Hb y (or_intror Hy)). lia. }
  lia.
Qed.

(* ... and if it has exactly hi - lo elements it is lo, lo+1, ..., hi-1 *)
Lemma ssorted_full : forall l lo, ssorted l ->
  (forall x, In x l -> lo <= x < lo + Z.of_nat (length l)) ->
  l = map (fun i => lo + Z.of_nat i) (seq 0 (length l)).
Proof.
  induction l as [|x l IH]; intros lo Hs Hb; [reflexivity|].
  inversion Hs as [|? ? Hs' Hf]; subst.
  assert (Hx : lo <= x < lo + Z.of_nat (length (x :: l))) by (apply Hb; now left).
  assert (Hlen : Z.of_nat (length l) <= Z.max 0 (lo + Z.of_nat (length (x :: l)) - (x + 1))).
  { apply ssorted_length_bound; [assumption|]. intros y Hy. rewrite Forall_forall in Hf. specialize (Hf _ Hy).
    specialize (Hb y (or_intror Hy)). lia. }
  cbn [length] in *.
  assert (x = lo) by lia. subst x.
  cbn [seq map]. f_equal; [lia|].
  rewrite <- seq_shift, map_map.
  rewrite (IH (lo + 1) Hs').
  - rewrite map_length, seq_length. apply map_ext. intros. lia.
  - intros y Hy. rewrite Forall_forall in Hf. specialize (Hf _ Hy). specialize (Hb y (or_intror Hy)). lia.
Qed.

Lemma ssorted_dense : forall l n, ssorted l -> (forall x, In x l -> 0 <= x < n) -> Z.of_nat (length l) = n -> l = zrange n.
Proof.
  intros l n Hs Hb Hl. unfold zrange. rewrite <- Hl, Nat2Z.id.
  rewrite (ssorted_full l 0 Hs) at 1.
  - apply map_ext. intros. lia.
  - intros x Hx. specialize (Hb _ Hx). lia.
Qed.

Lemma ssorted_nth_lt : forall l i j a b, ssorted l -> nth_error l i = Some a -> nth_error l j = Some b ->
  (i < j)%nat -> a < b.
Proof.
  induction l as [|x l IH]; intros i j a b Hs Hi Hj Hlt.
  - destruct i; discriminate.
  - inversion Hs as [|? ? Hs' Hf]; subst.
    destruct j as [|j]; [lia|]. cbn in Hj.
    destruct i as [|i]; cbn in Hi.
    + injection Hi as ->. rewrite Forall_forall in Hf. apply Hf. eapply nth_error_In; eauto.
    + eapply IH; eauto. lia.
Qed.

(* ---------- next_free ---------- *)

Lemma next_free_spec : forall fuel caps a,
  let r := next_free fuel caps a in
  a <= r /\ (forall n, a <= n < r -> In n caps) /\ (~ In r caps \/ r = a + Z.of_nat fuel).
Proof.
  induction fuel as [|f IH]; intros caps a; cbn [next_free].
  - repeat split; [lia| intros; lia | right; lia].
  - destruct (zmem a caps) eqn:E.
    + specialize (IH caps (a + 1)). cbn zeta in IH. destruct IH as [H1 [H2 H3]].
      repeat split; [lia| |].
      * intros n Hn. destruct (Z.eq_dec n a) as [->|Hne]; [now apply zmem_In|]. apply H2. lia.
      * destruct H3 as [H3|H3]; [now left|right; lia].
    + repeat split; [lia|intros; lia|]. left. now apply zmem_false.
Qed.

Lemma next_free_not_in : forall caps a, ssorted caps ->
  ~ In (next_free (S (length caps)) caps a) caps.
Proof.
  intros caps a Hs HI.
  destruct (next_free_spec (S (length caps)) caps a) as [H1 [H2 H3]].
  destruct H3 as [H3|H3]; [contradiction|].
  set (r := next_free (S (length caps)) caps a) in *.
  (* a, a+1, ..., r all in caps: |caps|+2 distinct... at least |caps|+1 *)
  assert (Hall : forall n, a <= n <= r -> In n caps).
  { intros n Hn. destruct (Z.eq_dec n r) as [->|]; [assumption|apply H2; lia]. }
  pose (l := map (fun i => a + Z.of_nat i) (seq 0 (S (S (length caps))))).
  assert (Hincl : incl l caps).
  { intros x Hx. unfold l in Hx. apply in_map_iff in Hx. destruct Hx as [i [<- Hi]]. apply in_seq in Hi. apply Hall. lia. }
  assert (Hnd : NoDup l).
  { unfold l. apply FinFun.Injective_map_NoDup; [|apply seq_NoDup]. intros x y Hxy. lia. }
  pose proof (NoDup_incl_length Hnd Hincl) as Hle.
  unfold l in Hle. rewrite map_length, seq_length in Hle. lia.
Qed.

(* ---------- itoa ---------- *)

Lemma uint_digits_inj : forall u v, uint_digits u = uint_digits v -> u = v.
Proof.
  induction u; destruct v; cbn; intros H; try reflexivity; try discriminate;
    injection H as H; f_equal; now apply IHu.
Qed.

Definition is_digit (c : Z) : bool := (48 <=? c) && (c <=? 57).

Lemma uint_digits_all_digits : forall u, forallb is_digit (uint_digits u) = true.
Proof. induction u; cbn; try reflexivity; assumption. Qed.

Lemma to_uint_not_zero : forall q, uint_digits (Pos.to_uint q) <> [48].
Proof.
  intros q H. change [48] with (uint_digits (D0 Nil)) in H. apply uint_digits_inj in H.
  pose proof (Unsigned.of_to q) as Hq. rewrite H in Hq. cbn in Hq. discriminate.
Qed.

Lemma itoa_inj : forall a b, 0 <= a -> 0 <= b -> itoa a = itoa b -> a = b.
Proof.
  intros a b Ha Hb H.
  destruct a as [|p|p]; destruct b as [|q|q]; try lia; cbn in H.
  - exfalso. symmetry in H. now apply to_uint_not_zero in H.
  - exfalso. now apply to_uint_not_zero in H.
  - apply uint_digits_inj in H.
    pose proof (Unsigned.of_to p) as Hp. pose proof (Unsigned.of_to q) as Hq.
    rewrite H in Hp. rewrite Hp in Hq. now injection Hq as ->.
Qed.

Lemma itoa_nonneg_digits : forall a, 0 <= a -> forallb is_digit (itoa a) = true.
Proof.
  intros a Ha. destruct a as [|p|p]; try lia; cbn; [reflexivity|apply uint_digits_all_digits].
Qed.

Lemma itoa_nonempty : forall a, 0 <= a -> itoa a <> [].
Proof.
  intros a Ha. destruct a as [|p|p]; try lia; cbn; [discriminate|].
  pose proof (Unsigned.of_to p) as Hp. destruct (Pos.to_uint p); cbn; try discriminate; cbn in Hp; discriminate Hp.
Qed.

(* a lexical group name: not empty, does not start with a digit *)
Definition lexname (s : name) : bool :=
  match s with
  | [] => false
  | c :: _ => negb (is_digit c)
  end.

Lemma lexname_not_itoa : forall s k, lexname s = true -> 0 <= k -> s <> itoa k.
Proof.
  intros s k Hs Hk E. subst s.
  pose proof (itoa_nonneg_digits k Hk) as Hd. pose proof (itoa_nonempty k Hk) as Hn.
  destruct (itoa k) as [|c r]; [contradiction|]. cbn in Hs, Hd.
  apply andb_true_iff in Hd. destruct Hd as [Hd _]. rewrite Hd in Hs. discriminate.
Qed.

Lemma lexname_nonempty : forall s, lexname s = true -> s <> [].
Proof. intros s H E. subst. discriminate. Qed.

(* ---------- Forall2 ---------- *)

Lemma Forall2_len : forall {A B} (R : A -> B -> Prop) l l', Forall2 R l l' -> length l = length l'.
Proof. intros A B R l l' H. induction H; cbn; congruence. Qed.

Lemma Forall2_nth : forall {A B} (R : A -> B -> Prop) l l' i a b,
  Forall2 R l l' -> nth_error l i = Some a -> nth_error l' i = Some b -> R a b.
Proof.
  intros A B R l l' i a b H. revert i. induction H as [|x y l l' Hxy H IH]; intros i Ha Hb.
  - destruct i; discriminate.
  - destruct i; cbn in *; [congruence|eauto].
Qed.

Lemma Forall2_impl : forall {A B} (R R' : A -> B -> Prop) l l',
  (forall a b, R a b -> R' a b) -> Forall2 R l l' -> Forall2 R' l l'.
Proof. intros A B R R' l l' HI H. induction H; constructor; auto. Qed.

Lemma nth_error_ext_eq : forall {A} (l1 l2 : list A), (forall n, nth_error l1 n = nth_error l2 n) -> l1 = l2.
Proof.
  induction l1 as [|x l1 IH]; intros l2 H.
  - destruct l2 as [|y l2]; [reflexivity|]. specialize (H 0%nat). discriminate.
  - destruct l2 as [|y l2]; [specialize (H 0%nat); discriminate|].
    pose proof (H 0%nat) as H0. cbn in H0. injection H0 as ->. f_equal. apply IH. intros n. apply (H (S n)).
Qed.

Lemma zrange_nth_none : forall n i, (Z.to_nat n <= i)%nat -> nth_error (zrange n) i = None.
Proof. intros. apply nth_error_None. now rewrite zrange_length. Qed.

Lemma NoDup_app_singleton : forall {A} (l : list A) x, NoDup l -> ~ In x l -> NoDup (l ++ [x]).
Proof.
  intros A l x Hnd Hn. induction Hnd as [|y l Hy Hnd IH]; cbn.
  - constructor; [intros []|constructor].
  - constructor.
    + intros Hi. apply in_app_or in Hi. destruct Hi as [Hi|[<-|[]]]; [contradiction|]. apply Hn. now left.
    + apply IH. intros Hi. apply Hn. now right.
Qed.

(* ---------- set_nth ---------- *)

Lemma set_nth_spec : forall {A} (l : list A) i v l',
  set_nth i v l = Some l' ->
  length l' = length l /\ forall j, nth_error l' j = if Nat.eqb j i then Some v else nth_error l j.
Proof.
  induction l as [|x l IH]; intros i v l' H; [destruct i; discriminate|].
  destruct i as [|i]; cbn in H.
  - injection H as <-. split; [reflexivity|]. intros [|j]; reflexivity.
  - destruct (set_nth i v l) as [r|] eqn:E; [|discriminate]. injection H as <-.
    destruct (IH _ _ _ E) as [Hl Hn]. split; [cbn; now rewrite Hl|].
    intros [|j]; cbn; [reflexivity|apply Hn].
Qed.

Lemma set_nth_some : forall {A} (l : list A) i v, (i < length l)%nat -> exists l', set_nth i v l = Some l'.
Proof.
  induction l as [|x l IH]; intros i v H; [cbn in H; lia|].
  destruct i as [|i]; cbn; [eexists; reflexivity|].
  destruct (IH i v ltac:(cbn in H; lia)) as [r ->]. eexists; reflexivity.
Qed.

Lemma sorted_head_zero : forall l, ssorted l -> In 0 l -> (forall k, In k l -> 0 <= k) -> exists r, l = 0 :: r.
Proof.
  intros [|x l] Hs Hi Hn; [destruct Hi|].
  inversion Hs as [|? ? _ Hf]; subst. destruct Hi as [->|Hi]; [eexists; reflexivity|].
  rewrite Forall_forall in Hf. specialize (Hf _ Hi). specialize (Hn x (or_introl eq_refl)). lia.
Qed.

Lemma Forall2_nth_intro : forall {A B} (R : A -> B -> Prop) l l',
  length l = length l' ->
  (forall i a b, nth_error l i = Some a -> nth_error l' i = Some b -> R a b) -> Forall2 R l l'.
Proof.
  induction l as [|x l IH]; intros l' Hlen H; destruct l' as [|y l']; try discriminate; constructor.
  - apply (H 0%nat); reflexivity.
  - apply IH; [cbn in Hlen; lia|]. intros i a b Ha Hb. apply (H (S i)); assumption.
Qed.
