(* C15 — right-to-left mode is the mirror image of left-to-right (reference semantics Spec.sem).

   Mirror image of everything:
     text      rev (txt e)                         position   p        |-> n - p      (n = tlen e)
     capture   (i, len) |-> (n - i - len, len)     state      mirror_st, environment mirror_env
     tree      flip : toggles the Rtl bit of every option word, swaps Beginning<->End, Bol<->Eol,
               reverses the literal of a Multi (stored in text order), keeps list order of
               concatenations (the parser already put them in evaluation order).

   PROVED (running list; everything below is Qed, nothing pending)
     - option bits under flip_opt (flip_is_rtl, flip_is_ci), tlen / char_at of the mirrored environment
     - leaves: avail/dir/next_char, run_len, sem_charloop, str_match_at / sem_multi,
       ref_match_at / sem_ref, is_boundary / anchor_ok (all anchors except EndZ), capture stacks
     - combinators bindl/bindr/appr/first_only and the generic loop [iter]
     - sem_pos_in_range: sem maps in-range states to in-range states (fragment mirror_ok)
     - mirror_sem_partial: sem (mirror_env e) fuel (flip t) (mirror_st e s)
                           = map_res (map (mirror_st e)) (sem e fuel t s)      (fragment mirror_ok)
     - mirror_attempt_partial, mirror_scan_from_partial, mirror_find_partial,
       mirror_find_as_opposite_partial / mirror_rtl_is_mirrored_ltr_partial
     - involutions: flip_invol, flip_mirror_ok, mirror_env_invol, mirror_st_invol, mirror_st_ok_mirror
     - EndZ under endz_strict: mirror_sem_endz_to_end, mirror_sem_endz_strict_partial,
       mirror_find_endz_strict_partial
     - NOT symmetric: mirror_balance_example (capture-recording balancing groups),
       mirror_endz_no_mirror_anchor (non-strict EndZ has no mirror anchor)

   All lemma names are prefixed mirror_/flip_ (topic prefix). *)
From Coq Require Import ZifyBool.
From Verif Require Import Base.Prelude Model.Tree Model.Spec.

(* ---------------------------------------------------------------------------------------------- *)
(* Definitions                                                                                    *)
(* ---------------------------------------------------------------------------------------------- *)

Definition map_res {A B} (f : A -> B) (r : res A) : res B :=
  match r with
  | Ok a => Ok (f a)
  | Err c => Err c
  | Crash w => Crash w
  | Fuel => Fuel
  end.

Definition mirror_span (n : Z) (iv : Z * Z) : Z * Z := (n - fst iv - snd iv, snd iv).
(* every capture of every group is mirrored; the order inside a group's stack is kept *)
Definition mirror_caps (n : Z) (c : caps_t) : caps_t :=
  map (fun gl => (fst gl, map (mirror_span n) (snd gl))) c.
Definition mirror_st (e : env) (s : st) : st :=
  {| pos := tlen e - pos s; caps := mirror_caps (tlen e) (caps s) |}.
Definition mirror_env (e : env) : env :=
  {| txt := rev (txt e);
     tstart := tlen e - tstart e;
     ecma := ecma e;
     endz_strict := endz_strict e;
     set_in := set_in e;
     lower := lower e;
     is_word := is_word e;
     is_eword := is_eword e |}.

Definition flip_opt (o : Z) : Z := Z.lxor o OPT_RTL.

(* EndZ has no mirror anchor among the existing ones: it is kept and excluded by [mirror_ok]
   (see mirror_endz_* below for the RE2/ECMAScript case where EndZ = End). *)
Definition flip_anchor (a : anchor) : anchor :=
  match a with
  | ABol => AEol
  | AEol => ABol
  | ABeginning => AEnd
  | AEnd => ABeginning
  | ABoundary => ABoundary
  | ANonboundary => ANonboundary
  | AECMABoundary => AECMABoundary
  | ANonECMABoundary => ANonECMABoundary
  | AStart => AStart
  | AEndZ => AEndZ
  end.

Fixpoint flip (t : node) : node :=
  match t with
  | NChar k o c => NChar k (flip_opt o) c
  | NCharLoop k l o c m n => NCharLoop k l (flip_opt o) c m n
  | NMulti o s => NMulti (flip_opt o) (rev s)
  | NRef o g => NRef (flip_opt o) g
  | NAnchor a => NAnchor (flip_anchor a)
  | NNothing => NNothing
  | NEmpty => NEmpty
  | NBump => NBump
  | NConcat o l => NConcat (flip_opt o) (map flip l)
  | NAlternate o l => NAlternate (flip_opt o) (map flip l)
  | NLoop lz o m n r => NLoop lz (flip_opt o) m n (flip r)
  | NCapture o g u r => NCapture (flip_opt o) g u (flip r)
  | NGroup r => NGroup (flip r)
  | NPosLook o r => NPosLook (flip_opt o) (flip r)
  | NNegLook o r => NNegLook (flip_opt o) (flip r)
  | NAtomic r => NAtomic (flip r)
  | NBackRefCond o g y no => NBackRefCond (flip_opt o) g (flip y) (option_map flip no)
  | NExprCond o c y no => NExprCond (flip_opt o) (flip c) (flip y) (option_map flip no)
  end.

Definition opt_forall (f : node -> bool) (o : option node) : bool :=
  match o with Some x => f x | None => true end.

(* The fragment the mirror theorem covers.  Excluded:
     - the anchor EndZ (no mirror anchor exists in the node language);
     - balancing groups (?<g-u>...) that RECORD a capture (u <> -1 and g <> -1): [balance_span] is
       not mirror-symmetric (see mirror_balance_example);  pure pops (?<-u>...) are covered;
     - single-character loops with a negative minimum (never produced by the parser; a negative
       minimum would let the loop walk out of the text). *)
Fixpoint mirror_ok (t : node) : bool :=
  match t with
  | NChar _ _ _ => true
  | NCharLoop _ _ _ _ m _ => 0 <=? m
  | NMulti _ _ => true
  | NRef _ _ => true
  | NAnchor a => match a with AEndZ => false | _ => true end
  | NNothing => true
  | NEmpty => true
  | NBump => true
  | NConcat _ l => forallb mirror_ok l
  | NAlternate _ l => forallb mirror_ok l
  | NLoop _ _ _ _ r => mirror_ok r
  | NCapture _ g u r => ((u =? -1) || (g =? -1)) && mirror_ok r
  | NGroup r => mirror_ok r
  | NPosLook _ r => mirror_ok r
  | NNegLook _ r => mirror_ok r
  | NAtomic r => mirror_ok r
  | NBackRefCond _ _ y no => mirror_ok y && opt_forall mirror_ok no
  | NExprCond _ c y no => mirror_ok c && mirror_ok y && opt_forall mirror_ok no
  end.

(* states the semantics works on: position inside the text, captures inside the text *)
Definition span_ok (n : Z) (iv : Z * Z) : Prop := 0 <= fst iv /\ 0 <= snd iv /\ fst iv + snd iv <= n.
Definition caps_ok (n : Z) (c : caps_t) : Prop := Forall (fun gl => Forall (span_ok n) (snd gl)) c.
Definition st_ok (e : env) (s : st) : Prop := 0 <= pos s <= tlen e /\ caps_ok (tlen e) (caps s).

(* ---------------------------------------------------------------------------------------------- *)
(* Option bits                                                                                    *)
(* ---------------------------------------------------------------------------------------------- *)

Lemma mirror_land_pow2 : forall o k, 0 <= k ->
  Z.land o (2 ^ k) = if Z.testbit o k then 2 ^ k else 0.
Proof.
  intros o k Hk. apply Z.bits_inj'. intros j Hj.
  rewrite Z.land_spec, Z.pow2_bits_eqb by lia.
  destruct (Z.eqb_spec k j) as [->|Hne].
  - rewrite andb_true_r. destruct (Z.testbit o j) eqn:E.
    + now rewrite Z.pow2_bits_true.
    + now rewrite Z.bits_0.
  - rewrite andb_false_r. destruct (Z.testbit o k).
    + symmetry. apply Z.pow2_bits_false. lia.
    + now rewrite Z.bits_0.
Qed.

Lemma mirror_has_bit_pow2 : forall o k, 0 <= k -> has_bit o (2 ^ k) = Z.testbit o k.
Proof.
  intros o k Hk. unfold has_bit. rewrite mirror_land_pow2 by lia.
  assert (0 < 2 ^ k) by (apply Z.pow_pos_nonneg; lia).
  destruct (Z.testbit o k); lia.
Qed.

Lemma flip_is_rtl : forall o, is_rtl (flip_opt o) = negb (is_rtl o).
Proof.
  intros o. unfold is_rtl, flip_opt, OPT_RTL. change 64 with (2 ^ 6).
  rewrite !mirror_has_bit_pow2 by lia. rewrite Z.lxor_spec.
  rewrite Z.pow2_bits_true by lia. apply xorb_true_r.
Qed.

Lemma flip_is_ci : forall o, is_ci (flip_opt o) = is_ci o.
Proof.
  intros o. unfold is_ci, flip_opt, OPT_RTL, OPT_CI. change 1 with (2 ^ 0). change 64 with (2 ^ 6).
  rewrite !mirror_has_bit_pow2 by lia. rewrite Z.lxor_spec.
  rewrite (Z.pow2_bits_false 6 0) by lia. apply xorb_false_r.
Qed.

Lemma flip_opt_invol : forall o, flip_opt (flip_opt o) = o.
Proof.
  intros o. unfold flip_opt. rewrite Z.lxor_assoc, Z.lxor_nilpotent. apply Z.lxor_0_r.
Qed.

(* ---------------------------------------------------------------------------------------------- *)
(* Text                                                                                           *)
(* ---------------------------------------------------------------------------------------------- *)

Lemma mirror_tlen : forall e, tlen (mirror_env e) = tlen e.
Proof. intros e. unfold tlen, zlen. cbn [txt mirror_env]. now rewrite rev_length. Qed.

Lemma mirror_char_at : forall e i, 0 <= i < tlen e ->
  char_at (mirror_env e) i = char_at e (tlen e - 1 - i).
Proof.
  intros e i Hi. unfold char_at, tlen, zlen in *. cbn [txt mirror_env].
  rewrite rev_nth by lia. f_equal. lia.
Qed.

Lemma mirror_tlen_nonneg : forall e, 0 <= tlen e.
Proof. intros e. unfold tlen, zlen. lia. Qed.

(* ---------------------------------------------------------------------------------------------- *)
(* Leaves                                                                                         *)
(* ---------------------------------------------------------------------------------------------- *)
Section Leaves.
Variable e : env.
Local Notation n := (tlen e).
Local Notation e' := (mirror_env e).

Lemma mirror_avail : forall o p, avail e' (flip_opt o) (n - p) = avail e o p.
Proof.
  intros o p. unfold avail. rewrite flip_is_rtl, mirror_tlen.
  destruct (is_rtl o); cbn [negb]; lia.
Qed.

Lemma mirror_dir : forall o, dir (flip_opt o) = - dir o.
Proof. intros o. unfold dir. rewrite flip_is_rtl. destruct (is_rtl o); reflexivity. Qed.

Lemma mirror_dir_cases : forall o, dir o = 1 \/ dir o = -1.
Proof. intros o. unfold dir. destruct (is_rtl o); auto. Qed.

Lemma mirror_next_char : forall o p, 0 <= p <= n -> 0 < avail e o p ->
  next_char e' (flip_opt o) (n - p) = next_char e o p.
Proof.
  intros o p Hp Ha. unfold next_char, avail in *. rewrite flip_is_rtl.
  destruct (is_rtl o); cbn [negb].
  - rewrite mirror_char_at by lia. f_equal. lia.
  - rewrite mirror_char_at by lia. f_equal. lia.
Qed.

Lemma mirror_char_test : forall k c x, char_test e' k c x = char_test e k c x.
Proof. intros k c x. destruct k; reflexivity. Qed.

(* the single-character step, shared by NChar and run_len *)
Lemma mirror_step_test : forall k c o p, 0 <= p <= n ->
  (0 <? avail e' (flip_opt o) (n - p)) && char_test e' k c (next_char e' (flip_opt o) (n - p))
  = (0 <? avail e o p) && char_test e k c (next_char e o p).
Proof.
  intros k c o p Hp. rewrite mirror_avail.
  destruct (0 <? avail e o p) eqn:E; [|reflexivity].
  rewrite mirror_next_char by lia. now rewrite mirror_char_test.
Qed.

Lemma mirror_avail_step : forall o p, 0 <= p <= n -> 0 < avail e o p -> 0 <= p + dir o <= n.
Proof.
  intros o p Hp Ha. unfold avail, dir in *. destruct (is_rtl o); lia.
Qed.

Lemma mirror_run_len : forall k c o maxn p, 0 <= p <= n ->
  run_len e' k c (flip_opt o) maxn (n - p) = run_len e k c o maxn p.
Proof.
  intros k c o maxn. induction maxn as [|m IH]; intros p Hp; [reflexivity|].
  cbn [run_len]. rewrite mirror_step_test by lia.
  destruct ((0 <? avail e o p) && char_test e k c (next_char e o p)) eqn:E; [|reflexivity].
  rewrite mirror_dir.
  replace (n - p + - dir o) with (n - (p + dir o)) by lia.
  rewrite IH; [reflexivity|]. apply mirror_avail_step; lia.
Qed.

Lemma mirror_run_len_bound : forall k c o maxn p, 0 <= p <= n ->
  0 <= run_len e k c o maxn p <= avail e o p.
Proof.
  intros k c o maxn. induction maxn as [|m IH]; intros p Hp.
  - cbn [run_len]. unfold avail. destruct (is_rtl o); lia.
  - cbn [run_len].
    destruct ((0 <? avail e o p) && char_test e k c (next_char e o p)) eqn:E.
    + assert (Ha : 0 < avail e o p) by lia.
      pose proof (mirror_avail_step o p Hp Ha) as Hs.
      specialize (IH (p + dir o) Hs).
      unfold avail, dir in *. destruct (is_rtl o); lia.
    + unfold avail. destruct (is_rtl o); lia.
Qed.

Lemma mirror_with_pos : forall s p, mirror_st e (with_pos s p) = with_pos (mirror_st e s) (n - p).
Proof. reflexivity. Qed.

(* --- single-character loops --- *)
Lemma mirror_sem_charloop : forall k l o c m mx s, 0 <= pos s <= n ->
  sem_charloop e' k l (flip_opt o) c m mx (mirror_st e s) = map (mirror_st e) (sem_charloop e k l o c m mx s).
Proof.
  intros k l o c m mx s Hp. unfold sem_charloop. cbn [pos mirror_st].
  rewrite mirror_avail, mirror_run_len by lia.
  set (cap := if mx =? INF then avail e o (pos s) else Z.min mx (avail e o (pos s))).
  set (r := run_len e k c o (Z.to_nat cap) (pos s)).
  destruct (r <? m); [reflexivity|].
  assert (Hmk : forall j, with_pos (mirror_st e s) (n - pos s + dir (flip_opt o) * j)
                          = mirror_st e (with_pos s (pos s + dir o * j))).
  { intros j. rewrite mirror_with_pos, mirror_dir. f_equal. lia. }
  destruct l; cbn [map]; rewrite ?map_map, ?Hmk; try reflexivity;
    apply map_ext; intros j; apply Hmk.
Qed.

Lemma mirror_count_down_aux_range : forall k a j, In j (count_down_aux k a) -> a - Z.of_nat k < j <= a.
Proof.
  induction k as [|k IH]; intros a j Hj; cbn [count_down_aux] in Hj; [contradiction|].
  destruct Hj as [<-|Hj]; [lia|]. apply IH in Hj. lia.
Qed.
Lemma mirror_count_up_aux_range : forall k a j, In j (count_up_aux k a) -> a <= j < a + Z.of_nat k.
Proof.
  induction k as [|k IH]; intros a j Hj; cbn [count_up_aux] in Hj; [contradiction|].
  destruct Hj as [<-|Hj]; [lia|]. apply IH in Hj. lia.
Qed.
Lemma mirror_count_down_range : forall a b j, In j (count_down a b) -> b <= j <= a.
Proof.
  intros a b j Hj. unfold count_down in Hj. destruct (a <? b) eqn:E; [contradiction|].
  apply mirror_count_down_aux_range in Hj. lia.
Qed.
Lemma mirror_count_up_range : forall a b j, In j (count_up a b) -> a <= j <= b.
Proof.
  intros a b j Hj. unfold count_up in Hj. destruct (b <? a) eqn:E; [contradiction|].
  apply mirror_count_up_aux_range in Hj. lia.
Qed.

Lemma mirror_with_pos_ok : forall s p, st_ok e s -> 0 <= p <= n -> st_ok e (with_pos s p).
Proof. intros s p [_ Hc] Hp. split; assumption. Qed.

Lemma mirror_sem_charloop_ok : forall k l o c m mx s, 0 <= m -> st_ok e s ->
  Forall (st_ok e) (sem_charloop e k l o c m mx s).
Proof.
  intros k l o c m mx s Hm Hs. unfold sem_charloop.
  set (cap := if mx =? INF then avail e o (pos s) else Z.min mx (avail e o (pos s))).
  pose proof (mirror_run_len_bound k c o (Z.to_nat cap) (pos s) (proj1 Hs)) as Hr.
  set (r := run_len e k c o (Z.to_nat cap) (pos s)) in *.
  destruct (r <? m) eqn:E; [constructor|].
  assert (Hj : forall j, m <= j <= r -> st_ok e (with_pos s (pos s + dir o * j))).
  { intros j Hjr. apply mirror_with_pos_ok; [assumption|].
    destruct Hs as [Hp _]. unfold avail, dir in *. destruct (is_rtl o); lia. }
  destruct l.
  - apply Forall_forall. intros x Hx. apply in_map_iff in Hx. destruct Hx as [j [<- Hin]].
    apply Hj. apply mirror_count_down_range in Hin. lia.
  - apply Forall_forall. intros x Hx. apply in_map_iff in Hx. destruct Hx as [j [<- Hin]].
    apply Hj. apply mirror_count_up_range in Hin. lia.
  - constructor; [|constructor]. apply Hj. lia.
Qed.

End Leaves.

(* ---------------------------------------------------------------------------------------------- *)
(* Literal strings, back-references, anchors, capture stacks                                      *)
(* ---------------------------------------------------------------------------------------------- *)
Section Leaves2.
Variable e : env.
Local Notation n := (tlen e).
Local Notation e' := (mirror_env e).

Lemma mirror_str_match_app : forall (ev : env) ci a b p,
  str_match_at ev ci (a ++ b) p = str_match_at ev ci a p && str_match_at ev ci b (p + zlen a).
Proof.
  intros ev ci a. induction a as [|c a IH]; intros b p.
  - cbn [app str_match_at andb]. unfold zlen. cbn [length]. f_equal. lia.
  - cbn [app str_match_at]. rewrite IH, andb_assoc. do 2 f_equal.
    unfold zlen. cbn [length]. lia.
Qed.

Lemma mirror_zlen_rev : forall (A : Type) (l : list A), zlen (rev l) = zlen l.
Proof. intros A l. unfold zlen. now rewrite rev_length. Qed.

Lemma mirror_zlen_cons : forall (A : Type) (a : A) l, zlen (a :: l) = 1 + zlen l.
Proof. intros A a l. unfold zlen. cbn [length]. lia. Qed.

Lemma mirror_zlen_nonneg : forall (A : Type) (l : list A), 0 <= zlen l.
Proof. intros A l. unfold zlen. lia. Qed.

(* the literal [s] at [p, p+|s|) in the text  =  [rev s] at the mirrored interval of the reversed text *)
Lemma mirror_str_match_at : forall ci s p, 0 <= p -> p + zlen s <= n ->
  str_match_at e' ci (rev s) (n - p - zlen s) = str_match_at e ci s p.
Proof.
  intros ci s. induction s as [|c s IH]; intros p Hp Hle; [reflexivity|].
  rewrite mirror_zlen_cons in *. pose proof (mirror_zlen_nonneg _ s) as Hs.
  cbn [rev]. rewrite mirror_str_match_app. cbn [str_match_at]. rewrite andb_true_r.
  rewrite mirror_zlen_rev.
  replace (n - p - (1 + zlen s)) with (n - (p + 1) - zlen s) by lia.
  rewrite IH by lia. rewrite andb_comm. f_equal.
  rewrite mirror_char_at by lia.
  replace (n - 1 - (n - (p + 1) - zlen s + zlen s)) with p by lia. reflexivity.
Qed.

Lemma mirror_sem_multi : forall o str s, 0 <= pos s <= n ->
  sem_multi e' (flip_opt o) (rev str) (mirror_st e s) = map (mirror_st e) (sem_multi e o str s).
Proof.
  intros o str s Hp. unfold sem_multi. cbn [pos mirror_st].
  rewrite mirror_avail, mirror_zlen_rev, flip_is_rtl, flip_is_ci, mirror_dir.
  pose proof (mirror_zlen_nonneg _ str) as Hl.
  destruct (avail e o (pos s) <? zlen str) eqn:E; [reflexivity|].
  assert (Hst : str_match_at e' (is_ci o) (rev str)
                  (if negb (is_rtl o) then n - pos s - zlen str else n - pos s)
                = str_match_at e (is_ci o) str (if is_rtl o then pos s - zlen str else pos s)).
  { unfold avail in E. destruct (is_rtl o); cbn [negb].
    - replace (n - pos s) with (n - (pos s - zlen str) - zlen str) by lia.
      apply mirror_str_match_at; lia.
    - apply mirror_str_match_at; lia. }
  rewrite Hst.
  destruct (str_match_at e (is_ci o) str (if is_rtl o then pos s - zlen str else pos s)); [|reflexivity].
  cbn [map]. rewrite mirror_with_pos. do 2 f_equal. lia.
Qed.

Lemma mirror_sem_multi_ok : forall o str s, st_ok e s -> Forall (st_ok e) (sem_multi e o str s).
Proof.
  intros o str s Hs. unfold sem_multi. pose proof (mirror_zlen_nonneg _ str) as Hl.
  destruct (avail e o (pos s) <? zlen str) eqn:E; [constructor|].
  destruct (str_match_at _ _ _ _); constructor; [|constructor].
  apply mirror_with_pos_ok; [assumption|].
  destruct Hs as [Hp _]. unfold avail, dir in *. destruct (is_rtl o); lia.
Qed.

(* --- back-references --- *)
Lemma mirror_ref_match_snoc : forall (ev : env) ci len i p,
  ref_match_at ev ci (S len) i p =
  ref_match_at ev ci len i p &&
  (if ci then lower ev (char_at ev (i + Z.of_nat len)) =? lower ev (char_at ev (p + Z.of_nat len))
   else char_at ev (i + Z.of_nat len) =? char_at ev (p + Z.of_nat len)).
Proof.
  intros ev ci len. induction len as [|len IH]; intros i p.
  - cbn [ref_match_at]. rewrite andb_true_r. cbn [andb Z.of_nat]. now rewrite !Z.add_0_r.
  - change (ref_match_at ev ci (S (S len)) i p) with
      ((if ci then lower ev (char_at ev i) =? lower ev (char_at ev p) else char_at ev i =? char_at ev p)
       && ref_match_at ev ci (S len) (i + 1) (p + 1)).
    rewrite IH. cbn [ref_match_at]. rewrite andb_assoc.
    replace (i + 1 + Z.of_nat len) with (i + Z.of_nat (S len)) by lia.
    replace (p + 1 + Z.of_nat len) with (p + Z.of_nat (S len)) by lia. reflexivity.
Qed.

Lemma mirror_ref_match_at : forall ci len i p,
  0 <= i -> i + Z.of_nat len <= n -> 0 <= p -> p + Z.of_nat len <= n ->
  ref_match_at e' ci len (n - i - Z.of_nat len) (n - p - Z.of_nat len) = ref_match_at e ci len i p.
Proof.
  intros ci len. induction len as [|len IH]; intros i p Hi Hil Hp Hpl; [reflexivity|].
  rewrite (mirror_ref_match_snoc e).
  cbn [ref_match_at].
  replace (n - i - Z.of_nat (S len) + 1) with (n - i - Z.of_nat len) by lia.
  replace (n - p - Z.of_nat (S len) + 1) with (n - p - Z.of_nat len) by lia.
  rewrite IH by lia. rewrite andb_comm. f_equal.
  rewrite !mirror_char_at by lia.
  replace (n - 1 - (n - i - Z.of_nat (S len))) with (i + Z.of_nat len) by lia.
  replace (n - 1 - (n - p - Z.of_nat (S len))) with (p + Z.of_nat len) by lia.
  reflexivity.
Qed.

Lemma mirror_cap_get : forall g c, cap_get g (mirror_caps n c) = map (mirror_span n) (cap_get g c).
Proof.
  intros g c. induction c as [|[g' l] c IH]; [reflexivity|].
  cbn [mirror_caps map cap_get fst snd]. destruct (g =? g'); [reflexivity|]. apply IH.
Qed.

Lemma mirror_cap_set : forall g l c,
  cap_set g (map (mirror_span n) l) (mirror_caps n c) = mirror_caps n (cap_set g l c).
Proof.
  intros g l c. induction c as [|[g' l'] c IH]; [reflexivity|].
  cbn [mirror_caps map cap_set fst snd]. destruct (g =? g'); [reflexivity|].
  cbn [map fst snd]. f_equal. apply IH.
Qed.

Lemma mirror_cap_push : forall g iv c,
  cap_push g (mirror_span n iv) (mirror_caps n c) = mirror_caps n (cap_push g iv c).
Proof.
  intros g iv c. unfold cap_push. rewrite mirror_cap_get, <- mirror_cap_set. reflexivity.
Qed.

Lemma mirror_cap_pop : forall g c, cap_pop g (mirror_caps n c) = mirror_caps n (cap_pop g c).
Proof.
  intros g c. unfold cap_pop. rewrite mirror_cap_get, <- mirror_cap_set. f_equal.
  destruct (cap_get g c); reflexivity.
Qed.

Lemma mirror_is_matched : forall g c, is_matched g (mirror_caps n c) = is_matched g c.
Proof. intros g c. unfold is_matched. rewrite mirror_cap_get. destruct (cap_get g c); reflexivity. Qed.

Lemma mirror_span_span : forall a b, mirror_span n (span a b) = span (n - a) (n - b).
Proof. intros a b. unfold mirror_span, span. cbn [fst snd]. f_equal; lia. Qed.

Lemma mirror_cap_get_ok : forall g c, caps_ok n c -> Forall (span_ok n) (cap_get g c).
Proof.
  intros g c Hc. induction Hc as [|[g' l] c Hl Hc IH]; [constructor|].
  cbn [cap_get]. destruct (g =? g'); assumption.
Qed.

Lemma mirror_cap_set_ok : forall g l c, Forall (span_ok n) l -> caps_ok n c -> caps_ok n (cap_set g l c).
Proof.
  intros g l c Hl Hc. induction Hc as [|[g' l'] c Hl' Hc IH].
  - constructor; [assumption|constructor].
  - cbn [cap_set]. destruct (g =? g'); constructor; assumption.
Qed.

Lemma mirror_cap_push_ok : forall g iv c, span_ok n iv -> caps_ok n c -> caps_ok n (cap_push g iv c).
Proof.
  intros g iv c Hiv Hc. unfold cap_push. apply mirror_cap_set_ok; [|assumption].
  constructor; [assumption|]. now apply mirror_cap_get_ok.
Qed.

Lemma mirror_cap_pop_ok : forall g c, caps_ok n c -> caps_ok n (cap_pop g c).
Proof.
  intros g c Hc. unfold cap_pop. apply mirror_cap_set_ok; [|assumption].
  pose proof (mirror_cap_get_ok g c Hc) as H. destruct (cap_get g c); [constructor|].
  cbn [tl]. now inversion H.
Qed.

Lemma mirror_span_ok : forall a b, 0 <= a <= n -> 0 <= b <= n -> span_ok n (span a b).
Proof. intros a b Ha Hb. unfold span_ok, span. cbn [fst snd]. lia. Qed.

Lemma mirror_sem_ref : forall o g s, st_ok e s ->
  sem_ref e' (flip_opt o) g (mirror_st e s) = map (mirror_st e) (sem_ref e o g s).
Proof.
  intros o g s [Hp Hc]. unfold sem_ref. cbn [pos caps mirror_st ecma mirror_env].
  rewrite mirror_cap_get. pose proof (mirror_cap_get_ok g _ Hc) as Hg.
  destruct (cap_get g (caps s)) as [|[i len] rest].
  - cbn [map]. destruct (ecma e); reflexivity.
  - cbn [map mirror_span fst snd]. inversion Hg as [|x y Hiv _]; subst.
    destruct Hiv as [Hi [Hlen Hil]]. cbn [fst snd] in *.
    rewrite mirror_avail, flip_is_rtl, flip_is_ci, mirror_dir.
    destruct (avail e o (pos s) <? len) eqn:E; [reflexivity|].
    assert (Hst : ref_match_at e' (is_ci o) (Z.to_nat len) (n - i - len)
                    (if negb (is_rtl o) then n - pos s - len else n - pos s)
                  = ref_match_at e (is_ci o) (Z.to_nat len) i (if is_rtl o then pos s - len else pos s)).
    { unfold avail in E. replace len with (Z.of_nat (Z.to_nat len)) at 2 3 by lia.
      destruct (is_rtl o); cbn [negb].
      - replace (n - pos s) with (n - (pos s - len) - Z.of_nat (Z.to_nat len)) by lia.
        apply mirror_ref_match_at; lia.
      - apply mirror_ref_match_at; lia. }
    rewrite Hst.
    destruct (ref_match_at e (is_ci o) (Z.to_nat len) i (if is_rtl o then pos s - len else pos s));
      [|reflexivity].
    cbn [map]. rewrite mirror_with_pos. do 2 f_equal. lia.
Qed.

Lemma mirror_sem_ref_ok : forall o g s, st_ok e s -> Forall (st_ok e) (sem_ref e o g s).
Proof.
  intros o g s Hs. unfold sem_ref. pose proof (mirror_cap_get_ok g _ (proj2 Hs)) as Hg.
  destruct (cap_get g (caps s)) as [|[i len] rest].
  - destruct (ecma e); repeat constructor; apply Hs.
  - inversion Hg as [|x y Hiv _]; subst. destruct Hiv as [Hi [Hlen Hil]]. cbn [fst snd] in *.
    destruct (avail e o (pos s) <? len) eqn:E; [constructor|].
    destruct (ref_match_at _ _ _ _ _); constructor; [|constructor].
    apply mirror_with_pos_ok; [assumption|].
    destruct Hs as [Hp _]. unfold avail, dir in *. destruct (is_rtl o); lia.
Qed.

(* --- anchors --- *)
Lemma mirror_is_boundary : forall w i, 0 <= i <= n ->
  is_boundary e' w (n - i) = is_boundary e w i.
Proof.
  intros w i Hi. unfold is_boundary. rewrite mirror_tlen. rewrite xorb_comm. f_equal.
  - destruct (0 <? i) eqn:E.
    + replace (n - i <? n) with true by lia. cbn [andb].
      rewrite mirror_char_at by lia. do 2 f_equal. lia.
    + replace (n - i <? n) with false by lia. reflexivity.
  - destruct (i <? n) eqn:E.
    + replace (0 <? n - i) with true by lia. cbn [andb].
      rewrite mirror_char_at by lia. do 2 f_equal. lia.
    + replace (0 <? n - i) with false by lia. reflexivity.
Qed.

Lemma mirror_anchor_ok : forall a p, 0 <= p <= n -> a <> AEndZ ->
  anchor_ok e' (flip_anchor a) (n - p) = anchor_ok e a p.
Proof.
  intros a p Hp Ha. destruct a; cbn [flip_anchor anchor_ok]; try congruence;
    rewrite ?mirror_tlen, ?mirror_is_boundary by lia; try reflexivity.
  - (* Bol -> Eol *)
    destruct (p <=? 0) eqn:E.
    + replace (n <=? n - p) with true by lia. reflexivity.
    + replace (n <=? n - p) with false by lia. cbn [orb].
      rewrite mirror_char_at by lia. do 2 f_equal. lia.
  - (* Eol -> Bol *)
    destruct (n <=? p) eqn:E.
    + replace (n - p <=? 0) with true by lia. reflexivity.
    + replace (n - p <=? 0) with false by lia. cbn [orb].
      rewrite mirror_char_at by lia. do 2 f_equal. lia.
  - (* Beginning -> End *) lia.
  - (* Start *) cbn [tstart mirror_env]. lia.
  - (* End -> Beginning *) lia.
Qed.

(* RE2 / ECMAScript: EndZ is End *)
Lemma mirror_endz_strict_is_end : forall p, endz_strict e = true ->
  anchor_ok e AEndZ p = anchor_ok e AEnd p.
Proof. intros p H. cbn [anchor_ok]. rewrite H. destruct (1 <? n - p) eqn:E; lia. Qed.

End Leaves2.

(* ---------------------------------------------------------------------------------------------- *)
(* Result-list combinators                                                                        *)
(* ---------------------------------------------------------------------------------------------- *)
Definition res_all {A} (ok : A -> Prop) (r : res (list A)) : Prop :=
  match r with Ok l => Forall ok l | _ => True end.

Section Comb.
Context {A B : Type} (m : A -> B) (ok : A -> Prop).

Lemma mirror_bindl : forall (l : list A) (f : A -> res (list A)) (f' : B -> res (list B)),
  Forall ok l -> (forall a, ok a -> f' (m a) = map_res (map m) (f a)) ->
  bindl (map m l) f' = map_res (map m) (bindl l f).
Proof.
  intros l f f' Hl Hf. induction Hl as [|a l Ha Hl IH]; [reflexivity|].
  cbn [map bindl]. rewrite (Hf a Ha). destruct (f a) as [x| | |]; cbn [map_res bind]; try reflexivity.
  rewrite IH. destruct (bindl l f) as [y| | |]; cbn [map_res bind]; try reflexivity.
  now rewrite map_app.
Qed.

Lemma mirror_bindr : forall (r : res (list A)) (r' : res (list B)) f f',
  r' = map_res (map m) r -> res_all ok r ->
  (forall a, ok a -> f' (m a) = map_res (map m) (f a)) ->
  bindr r' f' = map_res (map m) (bindr r f).
Proof.
  intros r r' f f' -> Hr Hf. unfold bindr. destruct r as [l| | |]; cbn [map_res bind]; try reflexivity.
  apply mirror_bindl; assumption.
Qed.

Lemma mirror_appr : forall (a b : res (list A)) (a' b' : res (list B)),
  a' = map_res (map m) a -> b' = map_res (map m) b -> appr a' b' = map_res (map m) (appr a b).
Proof.
  intros a b a' b' -> ->. unfold appr.
  destruct a as [x| | |]; cbn [map_res bind]; try reflexivity.
  destruct b as [y| | |]; cbn [map_res bind]; try reflexivity.
  now rewrite map_app.
Qed.

Lemma mirror_first_only : forall (r : res (list A)) (r' : res (list B)),
  r' = map_res (map m) r -> first_only r' = map_res (map m) (first_only r).
Proof.
  intros r r' ->. unfold first_only. destruct r as [[|a l]| | |]; reflexivity.
Qed.

Lemma mirror_bindl_ok : forall (l : list A) (f : A -> res (list A)),
  Forall ok l -> (forall a, ok a -> res_all ok (f a)) -> res_all ok (bindl l f).
Proof.
  intros l f Hl Hf. induction Hl as [|a l Ha Hl IH]; [constructor|].
  cbn [bindl]. specialize (Hf a Ha). destruct (f a) as [x| | |]; cbn [bind res_all]; try exact I.
  destruct (bindl l f) as [y| | |]; cbn [bind res_all] in *; try exact I.
  apply Forall_app; split; assumption.
Qed.

Lemma mirror_bindr_ok : forall (r : res (list A)) f,
  res_all ok r -> (forall a, ok a -> res_all ok (f a)) -> res_all ok (bindr r f).
Proof.
  intros r f Hr Hf. unfold bindr. destruct r as [l| | |]; cbn [bind res_all]; try exact I.
  apply mirror_bindl_ok; assumption.
Qed.

Lemma mirror_appr_ok : forall (a b : res (list A)),
  res_all ok a -> res_all ok b -> res_all ok (appr a b).
Proof.
  intros a b Ha Hb. unfold appr. destruct a as [x| | |]; cbn [bind res_all]; try exact I.
  destruct b as [y| | |]; cbn [bind res_all] in *; try exact I.
  apply Forall_app; split; assumption.
Qed.

Lemma mirror_first_only_ok : forall (r : res (list A)), res_all ok r -> res_all ok (first_only r).
Proof.
  intros r Hr. unfold first_only. destruct r as [[|a l]| | |]; cbn [bind res_all] in *; try exact I.
  - constructor.
  - inversion Hr; subst. constructor; [assumption|constructor].
Qed.

End Comb.

(* ---------------------------------------------------------------------------------------------- *)
(* Generic loops                                                                                  *)
(* ---------------------------------------------------------------------------------------------- *)
Section Iter.
Variable e : env.
Local Notation n := (tlen e).
Local Notation mir := (mirror_st e).
Local Notation ok := (st_ok e).

Lemma mirror_iter_ok : forall fuel body lazy limit s mark count,
  (forall s, ok s -> res_all ok (body s)) -> ok s ->
  res_all ok (iter fuel body lazy limit s mark count).
Proof.
  induction fuel as [|f IH]; intros body lazy limit s mark count Hb Hs; [exact I|].
  cbn [iter].
  assert (Hagain : res_all ok (bindr (body s) (fun s' => iter f body lazy limit s' (pos s) (count + 1)))).
  { apply mirror_bindr_ok; [now apply Hb|]. intros a Ha. now apply IH. }
  assert (Hone : res_all ok (Ok [s])) by (repeat constructor; apply Hs).
  destruct lazy.
  - destruct (count <? 0); [assumption|].
    apply mirror_appr_ok; [assumption|].
    destruct ((count <? limit) && negb (pos s =? mark)); [assumption|constructor].
  - destruct ((limit <=? count) || ((pos s =? mark) && (0 <=? count))); [assumption|].
    apply mirror_appr_ok; [assumption|]. destruct (0 <=? count); [assumption|constructor].
Qed.

Lemma mirror_iter : forall fuel body body' lazy limit s mark mark' count,
  (forall s, ok s -> body' (mir s) = map_res (map mir) (body s)) ->
  (forall s, ok s -> res_all ok (body s)) ->
  ok s -> (n - pos s =? mark') = (pos s =? mark) ->
  iter fuel body' lazy limit (mir s) mark' count
  = map_res (map mir) (iter fuel body lazy limit s mark count).
Proof.
  induction fuel as [|f IH]; intros body body' lazy limit s mark mark' count Hb Hbo Hs Hm; [reflexivity|].
  cbn [iter]. cbn [pos mirror_st]. rewrite Hm.
  assert (Hagain :
    bindr (body' (mir s)) (fun s' => iter f body' lazy limit s' (n - pos s) (count + 1))
    = map_res (map mir) (bindr (body s) (fun s' => iter f body lazy limit s' (pos s) (count + 1)))).
  { apply mirror_bindr with (ok := ok); [now apply Hb|now apply Hbo|].
    intros a Ha. apply IH; try assumption. lia. }
  rewrite Hagain.
  destruct lazy.
  - destruct (count <? 0); [reflexivity|].
    apply mirror_appr; [reflexivity|].
    destruct ((count <? limit) && negb (pos s =? mark)); reflexivity.
  - destruct ((limit <=? count) || ((pos s =? mark) && (0 <=? count))); [reflexivity|].
    apply mirror_appr; [reflexivity|]. destruct (0 <=? count); reflexivity.
Qed.

End Iter.

(* ---------------------------------------------------------------------------------------------- *)
(* sem: the local fixes on child lists, named                                                     *)
(* ---------------------------------------------------------------------------------------------- *)
Definition seq_sem (rec : node -> st -> res (list st)) : list node -> st -> res (list st) :=
  fix seq (l : list node) (s : st) : res (list st) :=
    match l with
    | [] => Ok [s]
    | x :: l' => bindr (rec x s) (seq l')
    end.
Definition alt_sem (rec : node -> st -> res (list st)) (s : st) : list node -> res (list st) :=
  fix alt (l : list node) : res (list st) :=
    match l with
    | [] => Ok []
    | x :: l' => appr (rec x s) (alt l')
    end.

Lemma mirror_sem_concat_eq : forall ev f o l s, sem ev (S f) (NConcat o l) s = seq_sem (sem ev f) l s.
Proof. reflexivity. Qed.
Lemma mirror_sem_alt_eq : forall ev f o l s, sem ev (S f) (NAlternate o l) s = alt_sem (sem ev f) s l.
Proof. reflexivity. Qed.

Lemma mirror_ok_list : forall l, forallb mirror_ok l = true -> Forall (fun x => mirror_ok x = true) l.
Proof. intros l H. apply Forall_forall. now apply forallb_forall. Qed.

(* ---------------------------------------------------------------------------------------------- *)
(* The semantics never leaves the text: positions stay in [0, n], captures stay inside the text   *)
(* ---------------------------------------------------------------------------------------------- *)
Section Range.
Variable e : env.
Local Notation n := (tlen e).
Local Notation ok := (st_ok e).

Lemma mirror_seq_ok : forall rec,
  (forall x s, mirror_ok x = true -> ok s -> res_all ok (rec x s)) ->
  forall l s, Forall (fun x => mirror_ok x = true) l -> ok s -> res_all ok (seq_sem rec l s).
Proof.
  intros rec Hrec l. induction l as [|x l IH]; intros s Hl Hs.
  - repeat constructor; apply Hs.
  - inversion Hl; subst. cbn [seq_sem]. apply mirror_bindr_ok; [now apply Hrec|].
    intros a Ha. now apply IH.
Qed.

Lemma mirror_alt_ok : forall rec s,
  (forall x, mirror_ok x = true -> res_all ok (rec x s)) ->
  forall l, Forall (fun x => mirror_ok x = true) l -> res_all ok (alt_sem rec s l).
Proof.
  intros rec s Hrec l. induction l as [|x l IH]; intros Hl.
  - constructor.
  - inversion Hl; subst. cbn [alt_sem]. apply mirror_appr_ok; [now apply Hrec|now apply IH].
Qed.

Lemma mirror_one_ok : forall s, ok s -> res_all ok (Ok [s]).
Proof. intros s Hs. repeat constructor; apply Hs. Qed.

Theorem sem_pos_in_range : forall fuel t s, mirror_ok t = true -> ok s -> res_all ok (sem e fuel t s).
Proof.
  induction fuel as [|f IH]; intros t s Ht Hs; [exact I|].
  destruct t; cbn [mirror_ok] in Ht.
  - (* Char *) cbn [sem res_all].
    destruct ((0 <? avail e o (pos s)) && char_test e k c (next_char e o (pos s))) eqn:E; [|constructor].
    constructor; [|constructor]. apply mirror_with_pos_ok; [assumption|].
    apply mirror_avail_step; [apply Hs|lia].
  - (* CharLoop *) cbn [sem res_all]. apply mirror_sem_charloop_ok; [lia|assumption].
  - (* Multi *) cbn [sem res_all]. now apply mirror_sem_multi_ok.
  - (* Ref *) cbn [sem res_all]. now apply mirror_sem_ref_ok.
  - (* Anchor *) cbn [sem res_all]. destruct (anchor_ok e a (pos s)); repeat constructor; apply Hs.
  - constructor.
  - now apply mirror_one_ok.
  - now apply mirror_one_ok.
  - (* Concat *) rewrite mirror_sem_concat_eq. apply mirror_seq_ok; [exact IH|now apply mirror_ok_list|assumption].
  - (* Alternate *) rewrite mirror_sem_alt_eq. apply mirror_alt_ok; [|now apply mirror_ok_list].
    intros x Hx. now apply IH.
  - (* Loop *) cbn [sem].
    assert (Hb : forall s0, ok s0 -> res_all ok (sem e f t s0)) by (intros; now apply IH).
    destruct (m =? 0).
    + now apply mirror_iter_ok.
    + apply mirror_bindr_ok; [now apply IH|]. intros a Ha. now apply mirror_iter_ok.
  - (* Capture *) cbn [sem]. apply andb_prop in Ht. destruct Ht as [Hgu Ht].
    destruct (u =? -1) eqn:Eu.
    + apply mirror_bindr_ok; [now apply IH|]. intros a Ha. cbn [res_all].
      constructor; [|constructor]. split; cbn [pos caps]; [apply Ha|].
      apply mirror_cap_push_ok; [|apply Ha]. apply mirror_span_ok; [apply Hs|apply Ha].
    + cbn [orb] in Hgu. rewrite Hgu.
      apply mirror_bindr_ok; [now apply IH|]. intros a Ha.
      destruct (cap_get u (caps a)); [constructor|]. cbn [res_all].
      constructor; [|constructor]. split; cbn [pos caps]; [apply Ha|].
      apply mirror_cap_pop_ok. apply Ha.
  - (* Group *) cbn [sem]. now apply IH.
  - (* PosLook *) cbn [sem].
    pose proof (mirror_first_only_ok ok _ (IH t s Ht Hs)) as H.
    destruct (first_only (sem e f t s)) as [l| | |]; cbn [bind res_all] in *; try exact I.
    apply Forall_forall. intros x Hx. apply in_map_iff in Hx. destruct Hx as [a [<- Hin]].
    rewrite Forall_forall in H. apply mirror_with_pos_ok; [now apply H|apply Hs].
  - (* NegLook *) cbn [sem].
    destruct (sem e f t s) as [[|a l]| | |]; cbn [bind res_all]; try exact I; [|constructor].
    repeat constructor; apply Hs.
  - (* Atomic *) cbn [sem]. apply mirror_first_only_ok. now apply IH.
  - (* BackRefCond *) cbn [sem]. apply andb_prop in Ht. destruct Ht as [Hy Hn].
    destruct (is_matched g (caps s)); [now apply IH|].
    destruct no as [x|]; cbn [opt_forall] in Hn; [now apply IH|now apply mirror_one_ok].
  - (* ExprCond *) cbn [sem]. apply andb_prop in Ht. destruct Ht as [Hcy Hn].
    apply andb_prop in Hcy. destruct Hcy as [Hc Hy].
    pose proof (mirror_first_only_ok ok _ (IH t1 s Hc Hs)) as H.
    destruct (first_only (sem e f t1 s)) as [[|a l]| | |]; cbn [bind res_all] in *; try exact I.
    + destruct no as [x|]; cbn [opt_forall] in Hn; [now apply IH|now apply mirror_one_ok].
    + inversion H; subst. apply IH; [assumption|]. apply mirror_with_pos_ok; [assumption|apply Hs].
Qed.

End Range.

(* ---------------------------------------------------------------------------------------------- *)
(* Main theorem: sem commutes with mirroring                                                      *)
(* ---------------------------------------------------------------------------------------------- *)
Section Main.
Variable e : env.
Local Notation n := (tlen e).
Local Notation e' := (mirror_env e).
Local Notation mir := (mirror_st e).
Local Notation ok := (st_ok e).

Lemma mirror_seq : forall rec rec',
  (forall x s, mirror_ok x = true -> ok s -> rec' (flip x) (mir s) = map_res (map mir) (rec x s)) ->
  (forall x s, mirror_ok x = true -> ok s -> res_all ok (rec x s)) ->
  forall l s, Forall (fun x => mirror_ok x = true) l -> ok s ->
  seq_sem rec' (map flip l) (mir s) = map_res (map mir) (seq_sem rec l s).
Proof.
  intros rec rec' Hrec Hok l. induction l as [|x l IH]; intros s Hl Hs; [reflexivity|].
  inversion Hl; subst. cbn [map seq_sem].
  apply mirror_bindr with (ok := ok); [now apply Hrec|now apply Hok|].
  intros a Ha. now apply IH.
Qed.

Lemma mirror_alt : forall rec rec' s,
  (forall x, mirror_ok x = true -> rec' (flip x) (mir s) = map_res (map mir) (rec x s)) ->
  forall l, Forall (fun x => mirror_ok x = true) l ->
  alt_sem rec' (mir s) (map flip l) = map_res (map mir) (alt_sem rec s l).
Proof.
  intros rec rec' s Hrec l. induction l as [|x l IH]; intros Hl; [reflexivity|].
  inversion Hl; subst. cbn [map alt_sem]. apply mirror_appr; [now apply Hrec|now apply IH].
Qed.

Theorem mirror_sem_partial : forall fuel t s, mirror_ok t = true -> ok s ->
  sem e' fuel (flip t) (mir s) = map_res (map mir) (sem e fuel t s).
Proof.
  induction fuel as [|f IH]; intros t s Ht Hs; [reflexivity|].
  pose proof (sem_pos_in_range e f) as IHok.
  destruct t; cbn [mirror_ok] in Ht; cbn [flip].
  - (* Char *) cbn [sem map_res pos mirror_st]. f_equal.
    rewrite mirror_step_test by apply Hs.
    destruct ((0 <? avail e o (pos s)) && char_test e k c (next_char e o (pos s))); [|reflexivity].
    cbn [map]. rewrite mirror_with_pos, mirror_dir. do 2 f_equal. lia.
  - (* CharLoop *) cbn [sem map_res]. f_equal. apply mirror_sem_charloop. apply Hs.
  - (* Multi *) cbn [sem map_res]. f_equal. apply mirror_sem_multi. apply Hs.
  - (* Ref *) cbn [sem map_res]. f_equal. now apply mirror_sem_ref.
  - (* Anchor *) cbn [sem map_res pos mirror_st]. f_equal.
    rewrite mirror_anchor_ok; [|apply Hs|intros ->; discriminate].
    destruct (anchor_ok e a (pos s)); reflexivity.
  - reflexivity.
  - reflexivity.
  - reflexivity.
  - (* Concat *) rewrite !mirror_sem_concat_eq.
    apply mirror_seq; [exact IH|exact IHok|now apply mirror_ok_list|assumption].
  - (* Alternate *) rewrite !mirror_sem_alt_eq.
    apply mirror_alt; [|now apply mirror_ok_list]. intros x Hx. now apply IH.
  - (* Loop *) cbn [sem].
    assert (Hb : forall s0, ok s0 -> sem e' f (flip t) (mir s0) = map_res (map mir) (sem e f t s0))
      by (intros; now apply IH).
    assert (Hbo : forall s0, ok s0 -> res_all ok (sem e f t s0)) by (intros; now apply IHok).
    destruct (m =? 0).
    + apply mirror_iter; try assumption. destruct Hs as [Hp _]. lia.
    + apply mirror_bindr with (ok := ok); [now apply Hb|now apply Hbo|].
      intros a Ha. cbn [pos mirror_st]. apply mirror_iter; try assumption. lia.
  - (* Capture *) cbn [sem]. apply andb_prop in Ht. destruct Ht as [Hgu Ht].
    destruct (u =? -1) eqn:Eu.
    + apply mirror_bindr with (ok := ok); [now apply IH|now apply IHok|].
      intros a Ha. cbn [map_res map pos caps mirror_st]. do 2 f_equal.
      unfold mirror_st. cbn [pos caps]. f_equal.
      rewrite <- mirror_cap_push, mirror_span_span. reflexivity.
    + cbn [orb] in Hgu. rewrite Hgu.
      apply mirror_bindr with (ok := ok); [now apply IH|now apply IHok|].
      intros a Ha. cbn [caps mirror_st]. rewrite mirror_cap_get.
      destruct (cap_get u (caps a)); [reflexivity|].
      cbn [map map_res pos]. rewrite mirror_cap_pop. reflexivity.
  - (* Group *) cbn [sem]. now apply IH.
  - (* PosLook *) cbn [sem].
    rewrite (mirror_first_only mir _ _ (IH t s Ht Hs)).
    destruct (first_only (sem e f t s)) as [l| | |]; cbn [bind map_res]; try reflexivity.
    f_equal. rewrite !map_map. apply map_ext. reflexivity.
  - (* NegLook *) cbn [sem]. rewrite (IH t s Ht Hs).
    destruct (sem e f t s) as [[|a l]| | |]; reflexivity.
  - (* Atomic *) cbn [sem]. apply mirror_first_only. now apply IH.
  - (* BackRefCond *) cbn [sem]. apply andb_prop in Ht. destruct Ht as [Hy Hn].
    cbn [caps mirror_st]. rewrite mirror_is_matched.
    destruct (is_matched g (caps s)); [now apply IH|].
    destruct no as [x|]; cbn [opt_forall option_map] in *; [now apply IH|reflexivity].
  - (* ExprCond *) cbn [sem]. apply andb_prop in Ht. destruct Ht as [Hcy Hn].
    apply andb_prop in Hcy. destruct Hcy as [Hc Hy].
    rewrite (mirror_first_only mir _ _ (IH t1 s Hc Hs)).
    pose proof (mirror_first_only_ok ok _ (IHok t1 s Hc Hs)) as H.
    destruct (first_only (sem e f t1 s)) as [[|a l]| | |]; cbn [bind map_res map res_all] in *;
      try reflexivity.
    + destruct no as [x|]; cbn [opt_forall option_map] in *; [now apply IH|reflexivity].
    + inversion H; subst.
      change (with_pos (mir a) (pos (mir s))) with (mir (with_pos a (pos s))).
      apply IH; [assumption|]. apply mirror_with_pos_ok; [assumption|apply Hs].
Qed.

End Main.

(* ---------------------------------------------------------------------------------------------- *)
(* Corollaries: one attempt, the scan, find                                                       *)
(* ---------------------------------------------------------------------------------------------- *)
Section Scan.
Variable e : env.
Local Notation n := (tlen e).
Local Notation e' := (mirror_env e).
Local Notation mir := (mirror_st e).

Lemma mirror_init_ok : forall p, 0 <= p <= n -> st_ok e {| pos := p; caps := [] |}.
Proof. intros p Hp. split; [exact Hp|constructor]. Qed.

Theorem mirror_attempt_partial : forall fuel root p, mirror_ok root = true -> 0 <= p <= n ->
  attempt e' fuel (flip root) (n - p) = map_res (option_map mir) (attempt e fuel root p).
Proof.
  intros fuel root p Hr Hp. unfold attempt.
  change {| pos := n - p; caps := [] |} with (mir {| pos := p; caps := [] |}).
  rewrite mirror_sem_partial by (try assumption; now apply mirror_init_ok).
  destruct (sem e fuel root {| pos := p; caps := [] |}) as [[|a l]| | |]; reflexivity.
Qed.

Lemma mirror_scan_from_partial : forall fuel root rtl cnt p, mirror_ok root = true -> 0 <= p <= n ->
  scan_from e' fuel cnt (flip root) (negb rtl) (n - p)
  = map_res (option_map mir) (scan_from e fuel cnt root rtl p).
Proof.
  intros fuel root rtl cnt. induction cnt as [|c IH]; intros p Hr Hp; [reflexivity|].
  cbn [scan_from]. rewrite mirror_attempt_partial by assumption.
  destruct (attempt e fuel root p) as [[s|]| | |]; cbn [map_res option_map bind]; try reflexivity.
  rewrite mirror_tlen.
  replace (if negb rtl then n - p <=? 0 else n <=? n - p) with (if rtl then p <=? 0 else n <=? p)
    by (destruct rtl; cbn [negb]; lia).
  destruct (if rtl then p <=? 0 else n <=? p) eqn:E; [reflexivity|].
  replace (if negb rtl then n - p - 1 else n - p + 1) with (n - (if rtl then p - 1 else p + 1))
    by (destruct rtl; cbn [negb]; lia).
  apply IH; [assumption|]. destruct rtl; lia.
Qed.

(* The scan in direction [rtl] from [start]  =  the scan in the opposite direction of the flipped
   tree over the reversed text from [n - start]; the match found is the mirror image. *)
Theorem mirror_find_partial : forall fuel root rtl start prevlen, mirror_ok root = true -> 0 <= start <= n ->
  find e' fuel (flip root) (negb rtl) (n - start) prevlen
  = map_res (option_map mir) (find e fuel root rtl start prevlen).
Proof.
  intros fuel root rtl start prevlen Hr Hs. unfold find. rewrite mirror_tlen.
  replace (n - start =? (if negb rtl then 0 else n)) with (start =? (if rtl then 0 else n))
    by (destruct rtl; cbn [negb]; lia).
  destruct ((prevlen =? 0) && (start =? (if rtl then 0 else n))) eqn:E; [reflexivity|].
  replace (if prevlen =? 0 then if negb rtl then n - start - 1 else n - start + 1 else n - start)
    with (n - (if prevlen =? 0 then if rtl then start - 1 else start + 1 else start))
    by (destruct (prevlen =? 0), rtl; cbn [negb]; lia).
  apply mirror_scan_from_partial; [assumption|].
  destruct (prevlen =? 0) eqn:Ep; [|lia]. destruct rtl; lia.
Qed.

End Scan.

(* ---------------------------------------------------------------------------------------------- *)
(* Mirroring is an involution, so the theorem reads in both directions                            *)
(* ---------------------------------------------------------------------------------------------- *)
Lemma flip_anchor_invol : forall a, flip_anchor (flip_anchor a) = a.
Proof. destruct a; reflexivity. Qed.

Lemma mirror_env_invol : forall e, mirror_env (mirror_env e) = e.
Proof.
  intros e. destruct e as [t ts ec ez si lo iw ie]. unfold mirror_env, tlen, zlen.
  cbn [txt tstart ecma endz_strict set_in lower is_word is_eword].
  rewrite rev_involutive, rev_length. f_equal. lia.
Qed.

Lemma mirror_span_invol : forall n iv, mirror_span n (mirror_span n iv) = iv.
Proof. intros n [i l]. unfold mirror_span. cbn [fst snd]. f_equal. lia. Qed.

Lemma mirror_caps_invol : forall n c, mirror_caps n (mirror_caps n c) = c.
Proof.
  intros n c. unfold mirror_caps. rewrite map_map. rewrite <- (map_id c) at 2.
  apply map_ext. intros [g l]. cbn [fst snd]. f_equal.
  rewrite map_map. rewrite <- (map_id l) at 2. apply map_ext. apply mirror_span_invol.
Qed.

Lemma mirror_st_invol : forall e s, mirror_st (mirror_env e) (mirror_st e s) = s.
Proof.
  intros e [p c]. unfold mirror_st. cbn [pos caps]. rewrite mirror_tlen, mirror_caps_invol.
  f_equal. lia.
Qed.

Lemma mirror_span_ok_mirror : forall n iv, span_ok n iv -> span_ok n (mirror_span n iv).
Proof. intros n [i l] H. unfold span_ok, mirror_span in *. cbn [fst snd] in *. lia. Qed.

Lemma mirror_st_ok_mirror : forall e s, st_ok e s -> st_ok (mirror_env e) (mirror_st e s).
Proof.
  intros e s [Hp Hc]. split; rewrite mirror_tlen; cbn [pos caps mirror_st]; [lia|].
  unfold caps_ok, mirror_caps in *. rewrite Forall_map. eapply Forall_impl; [|exact Hc].
  intros [g l] Hl. cbn [fst snd] in *. rewrite Forall_map. eapply Forall_impl; [|exact Hl].
  apply mirror_span_ok_mirror.
Qed.

(* [flip] is an involution on every tree; the two list cases go through the fuel-free size-free
   route: a nested induction principle for [node] is avoided by a depth bound. *)
Fixpoint mirror_depth (t : node) : nat :=
  match t with
  | NConcat _ l | NAlternate _ l => S (fold_right (fun x a => Nat.max (mirror_depth x) a) O l)
  | NLoop _ _ _ _ r | NCapture _ _ _ r | NGroup r | NPosLook _ r | NNegLook _ r | NAtomic r =>
      S (mirror_depth r)
  | NBackRefCond _ _ y no =>
      S (Nat.max (mirror_depth y) (match no with Some x => mirror_depth x | None => O end))
  | NExprCond _ c y no =>
      S (Nat.max (mirror_depth c)
           (Nat.max (mirror_depth y) (match no with Some x => mirror_depth x | None => O end)))
  | _ => O
  end.

Lemma mirror_depth_list : forall (P : node -> Prop) d l,
  (forall t, (mirror_depth t <= d)%nat -> P t) ->
  (fold_right (fun x a => Nat.max (mirror_depth x) a) O l <= d)%nat -> Forall P l.
Proof.
  intros P d l H. induction l as [|x l IH]; intros Hd; [constructor|].
  cbn [fold_right] in Hd. constructor; [apply H; lia|apply IH; lia].
Qed.

Lemma mirror_map_id_Forall : forall (f : node -> node) l, Forall (fun x => f x = x) l -> map f l = l.
Proof. intros f l H. induction H as [|x l Hx _ IH]; [reflexivity|]. cbn [map]. now rewrite Hx, IH. Qed.

Lemma flip_invol_depth : forall d t, (mirror_depth t <= d)%nat -> flip (flip t) = t.
Proof.
  induction d as [|d IH]; intros t Hd.
  - destruct t; cbn [mirror_depth] in Hd; try lia; cbn [flip];
      rewrite ?flip_opt_invol, ?rev_involutive, ?flip_anchor_invol; reflexivity.
  - destruct t; cbn [mirror_depth] in Hd; cbn [flip];
      rewrite ?flip_opt_invol, ?rev_involutive, ?flip_anchor_invol; try reflexivity.
    + f_equal. rewrite map_map. apply mirror_map_id_Forall.
      apply (mirror_depth_list _ d); [exact IH|lia].
    + f_equal. rewrite map_map. apply mirror_map_id_Forall.
      apply (mirror_depth_list _ d); [exact IH|lia].
    + rewrite IH by lia. reflexivity.
    + rewrite IH by lia. reflexivity.
    + rewrite IH by lia. reflexivity.
    + rewrite IH by lia. reflexivity.
    + rewrite IH by lia. reflexivity.
    + rewrite IH by lia. reflexivity.
    + rewrite IH by lia. destruct no as [x|]; cbn [option_map]; [rewrite IH by lia|]; reflexivity.
    + rewrite (IH t1), (IH t2) by lia.
      destruct no as [x|]; cbn [option_map]; [rewrite IH by lia|]; reflexivity.
Qed.

Theorem flip_invol : forall t, flip (flip t) = t.
Proof. intros t. apply (flip_invol_depth (mirror_depth t)). lia. Qed.

Lemma mirror_forallb_Forall : forall (f g : node -> bool) l,
  Forall (fun x => f x = g x) l -> forallb f l = forallb g l.
Proof. intros f g l H. induction H as [|x l Hx _ IH]; [reflexivity|]. cbn [forallb]. now rewrite Hx, IH. Qed.

Lemma mirror_forallb_map : forall (f : node -> bool) (g : node -> node) l,
  forallb f (map g l) = forallb (fun x => f (g x)) l.
Proof. intros f g l. induction l as [|x l IH]; [reflexivity|]. cbn [map forallb]. now rewrite IH. Qed.

Lemma flip_mirror_ok_depth : forall d t, (mirror_depth t <= d)%nat -> mirror_ok (flip t) = mirror_ok t.
Proof.
  induction d as [|d IH]; intros t Hd.
  - destruct t; cbn [mirror_depth] in Hd; try lia; cbn [flip mirror_ok]; try reflexivity.
    destruct a; reflexivity.
  - destruct t; cbn [mirror_depth] in Hd; cbn [flip mirror_ok]; try reflexivity.
    + destruct a; reflexivity.
    + rewrite mirror_forallb_map. apply mirror_forallb_Forall.
      apply (mirror_depth_list _ d); [exact IH|lia].
    + rewrite mirror_forallb_map. apply mirror_forallb_Forall.
      apply (mirror_depth_list _ d); [exact IH|lia].
    + apply IH; lia.
    + rewrite IH by lia. reflexivity.
    + apply IH; lia.
    + apply IH; lia.
    + apply IH; lia.
    + apply IH; lia.
    + rewrite IH by lia. destruct no as [x|]; cbn [option_map opt_forall]; [rewrite IH by lia|]; reflexivity.
    + rewrite (IH t1), (IH t2) by lia.
      destruct no as [x|]; cbn [option_map opt_forall]; [rewrite IH by lia|]; reflexivity.
Qed.

Theorem flip_mirror_ok : forall t, mirror_ok (flip t) = mirror_ok t.
Proof. intros t. apply (flip_mirror_ok_depth (mirror_depth t)). lia. Qed.

(* ---------------------------------------------------------------------------------------------- *)
(* Reading the theorem the other way round: a search = the mirror of the mirrored search          *)
(* ---------------------------------------------------------------------------------------------- *)
Lemma mirror_map_res_invol : forall e (r : res (option st)),
  map_res (option_map (mirror_st (mirror_env e))) (map_res (option_map (mirror_st e)) r) = r.
Proof.
  intros e r. destruct r as [[s|]| | |]; cbn [map_res option_map]; try reflexivity.
  now rewrite mirror_st_invol.
Qed.

Theorem mirror_find_as_opposite_partial : forall e fuel root rtl start prevlen,
  mirror_ok root = true -> 0 <= start <= tlen e ->
  find e fuel root rtl start prevlen
  = map_res (option_map (mirror_st (mirror_env e)))
      (find (mirror_env e) fuel (flip root) (negb rtl) (tlen e - start) prevlen).
Proof.
  intros e fuel root rtl start prevlen Hr Hs.
  rewrite mirror_find_partial by assumption. now rewrite mirror_map_res_invol.
Qed.

(* ---------------------------------------------------------------------------------------------- *)
(* EndZ under RE2 / ECMAScript (endz_strict): there \Z is \z, whose mirror is \A                   *)
(* ---------------------------------------------------------------------------------------------- *)
Definition endz_anchor (a : anchor) : anchor := match a with AEndZ => AEnd | x => x end.

Fixpoint endz_to_end (t : node) : node :=
  match t with
  | NAnchor a => NAnchor (endz_anchor a)
  | NConcat o l => NConcat o (map endz_to_end l)
  | NAlternate o l => NAlternate o (map endz_to_end l)
  | NLoop lz o m n r => NLoop lz o m n (endz_to_end r)
  | NCapture o g u r => NCapture o g u (endz_to_end r)
  | NGroup r => NGroup (endz_to_end r)
  | NPosLook o r => NPosLook o (endz_to_end r)
  | NNegLook o r => NNegLook o (endz_to_end r)
  | NAtomic r => NAtomic (endz_to_end r)
  | NBackRefCond o g y no => NBackRefCond o g (endz_to_end y) (option_map endz_to_end no)
  | NExprCond o c y no => NExprCond o (endz_to_end c) (endz_to_end y) (option_map endz_to_end no)
  | x => x
  end.

Lemma mirror_bindl_ext : forall (A B : Type) (l : list A) (f g : A -> res (list B)),
  (forall a, f a = g a) -> bindl l f = bindl l g.
Proof.
  intros A B l f g H. induction l as [|a l IH]; [reflexivity|]. cbn [bindl]. now rewrite H, IH.
Qed.

Lemma mirror_bindr_ext : forall (A B : Type) (r r' : res (list A)) (f g : A -> res (list B)),
  r = r' -> (forall a, f a = g a) -> bindr r f = bindr r' g.
Proof.
  intros A B r r' f g -> H. unfold bindr. destruct r'; cbn [bind]; try reflexivity.
  now apply mirror_bindl_ext.
Qed.

Lemma mirror_iter_ext : forall fuel body body' lazy limit s mark count,
  (forall s, body s = body' s) ->
  iter fuel body lazy limit s mark count = iter fuel body' lazy limit s mark count.
Proof.
  induction fuel as [|f IH]; intros body body' lazy limit s mark count H; [reflexivity|].
  cbn [iter].
  rewrite (mirror_bindr_ext _ _ (body s) (body' s)
             (fun s' => iter f body lazy limit s' (pos s) (count + 1))
             (fun s' => iter f body' lazy limit s' (pos s) (count + 1)) (H s)); [reflexivity|].
  intros a. now apply IH.
Qed.

Section EndZ.
Variable e : env.
Hypothesis Hstrict : endz_strict e = true.

Lemma mirror_endz_anchor_ok : forall a p, anchor_ok e (endz_anchor a) p = anchor_ok e a p.
Proof.
  intros a p. destruct a; try reflexivity. cbn [endz_anchor]. symmetry.
  now apply mirror_endz_strict_is_end.
Qed.

Lemma mirror_sem_endz_to_end : forall fuel t s, sem e fuel (endz_to_end t) s = sem e fuel t s.
Proof.
  induction fuel as [|f IH]; intros t s; [reflexivity|].
  destruct t; cbn [endz_to_end]; try reflexivity.
  - (* Anchor *) cbn [sem]. now rewrite mirror_endz_anchor_ok.
  - (* Concat *) rewrite !mirror_sem_concat_eq. revert s.
    induction l as [|x l IHl]; intros s; [reflexivity|].
    cbn [map seq_sem]. apply mirror_bindr_ext; [apply IH|exact IHl].
  - (* Alternate *) rewrite !mirror_sem_alt_eq.
    induction l as [|x l IHl]; [reflexivity|].
    cbn [map alt_sem]. now rewrite IH, IHl.
  - (* Loop *) cbn [sem]. destruct (m =? 0).
    + apply mirror_iter_ext. intros s0. apply IH.
    + apply mirror_bindr_ext; [apply IH|]. intros a. apply mirror_iter_ext. intros s0. apply IH.
  - (* Capture *) cbn [sem]. now rewrite IH.
  - cbn [sem]. apply IH.
  - cbn [sem]. now rewrite IH.
  - cbn [sem]. now rewrite IH.
  - cbn [sem]. now rewrite IH.
  - (* BackRefCond *) cbn [sem]. rewrite IH. destruct no as [x|]; cbn [option_map]; [now rewrite IH|reflexivity].
  - (* ExprCond *) cbn [sem]. rewrite IH.
    destruct (first_only (sem e f t1 s)) as [[|a l]| | |]; cbn [bind]; try reflexivity.
    + destruct no as [x|]; cbn [option_map]; [now rewrite IH|reflexivity].
    + apply IH.
Qed.

Lemma mirror_find_endz_to_end : forall fuel root rtl start prevlen,
  find e fuel (endz_to_end root) rtl start prevlen = find e fuel root rtl start prevlen.
Proof.
  intros fuel root rtl start prevlen. unfold find.
  destruct ((prevlen =? 0) && (start =? (if rtl then 0 else tlen e))); [reflexivity|].
  generalize (if prevlen =? 0 then if rtl then start - 1 else start + 1 else start).
  generalize (S (Z.to_nat (tlen e))). intros cnt.
  induction cnt as [|c IHc]; intros p; [reflexivity|].
  cbn [scan_from]. unfold attempt. rewrite mirror_sem_endz_to_end.
  destruct (sem e fuel root {| pos := p; caps := [] |}) as [[|a l]| | |]; cbn [bind]; try reflexivity.
  destruct (if rtl then p <=? 0 else tlen e <=? p); [reflexivity|]. apply IHc.
Qed.

(* mirror theorem for trees that contain EndZ, in RE2/ECMAScript mode: first read EndZ as End *)
Theorem mirror_sem_endz_strict_partial : forall fuel t s,
  mirror_ok (endz_to_end t) = true -> st_ok e s ->
  sem (mirror_env e) fuel (flip (endz_to_end t)) (mirror_st e s)
  = map_res (map (mirror_st e)) (sem e fuel t s).
Proof.
  intros fuel t s Ht Hs. rewrite mirror_sem_partial by assumption.
  now rewrite mirror_sem_endz_to_end.
Qed.

Theorem mirror_find_endz_strict_partial : forall fuel root rtl start prevlen,
  mirror_ok (endz_to_end root) = true -> 0 <= start <= tlen e ->
  find (mirror_env e) fuel (flip (endz_to_end root)) (negb rtl) (tlen e - start) prevlen
  = map_res (option_map (mirror_st e)) (find e fuel root rtl start prevlen).
Proof.
  intros fuel root rtl start prevlen Hr Hs. rewrite mirror_find_partial by assumption.
  now rewrite mirror_find_endz_to_end.
Qed.

End EndZ.

(* ---------------------------------------------------------------------------------------------- *)
(* What is NOT mirror-symmetric (concrete witnesses)                                              *)
(* ---------------------------------------------------------------------------------------------- *)
(* a small concrete environment: ASCII letters are word characters, no sets, identity lower-casing *)
Definition mirror_ex_env (t : list Z) (start : Z) (strict : bool) : env :=
  {| txt := t; tstart := start; ecma := false; endz_strict := strict;
     set_in := fun _ _ => false; lower := fun c => c;
     is_word := fun c => (97 <=? c) && (c <=? 122);
     is_eword := fun c => (97 <=? c) && (c <=? 122) |}.

(* (?<a>x)z(?<b-a>y)  (a = group 1, b = group 2), left-to-right, on "xzy" *)
Definition mirror_ex_balance : node :=
  NConcat 0 [NCapture 0 1 (-1) (NChar COne 0 120); NChar COne 0 122; NCapture 0 2 1 (NChar COne 0 121)].

(* Balancing groups that record a capture are NOT mirror-symmetric: left-to-right, group b gets the
   text BETWEEN the popped capture and the new one, (1,1) = "z"; in the mirrored search (the
   right-to-left pattern (?<b-a>y)z(?<a>x) on "yzx") [balance_span] = runner.go transferCapture takes
   its second branch ("end <= start2: start = start2") and records index 2, length -1.
   The real engine does the same (and its tidy step then drops the negative-length capture). *)
(* UPDATE: transferCapture was repaired in /repo (cd1c469) and balance_span follows it: the second
   branch now records the interval between the two spans, so this example IS mirror-symmetric. *)
Theorem mirror_balance_example :
  let e := mirror_ex_env [120; 122; 121] 0 false in
  let s := {| pos := 0; caps := [] |} in
  st_ok e s /\
  map_res (map (mirror_st e)) (sem e 10 mirror_ex_balance s)
    = Ok [{| pos := 0; caps := [(1, []); (2, [(1, 1)])] |}] /\
  sem (mirror_env e) 10 (flip mirror_ex_balance) (mirror_st e s)
    = Ok [{| pos := 0; caps := [(1, []); (2, [(1, 1)])] |}].
Proof.
  cbv zeta. split; [|split; vm_compute; reflexivity].
  split; [vm_compute; split; congruence|constructor].
Qed.

(* Without RE2/ECMAScript, no anchor of the node language is the mirror image of EndZ: whatever
   anchor a' one picks, some text and in-range position tell them apart. *)
Definition mirror_endz_witness (a' : anchor) : env * Z :=
  match a' with
  | ABol => (mirror_ex_env [97; 10; 10] 0 false, 1)
  | AEol => (mirror_ex_env [97; 98] 0 false, 2)
  | ABoundary => (mirror_ex_env [97; 98] 0 false, 0)
  | ANonboundary => (mirror_ex_env [97; 98] 0 false, 2)
  | ABeginning => (mirror_ex_env [97; 10] 0 false, 1)
  | AStart => (mirror_ex_env [97; 98] 0 false, 0)
  | AEndZ => (mirror_ex_env [97; 98] 0 false, 2)
  | AEnd => (mirror_ex_env [97; 98] 0 false, 2)
  | AECMABoundary => (mirror_ex_env [97; 98] 0 false, 0)
  | ANonECMABoundary => (mirror_ex_env [97; 98] 0 false, 2)
  end.

Theorem mirror_endz_no_mirror_anchor : forall a',
  let e := fst (mirror_endz_witness a') in let p := snd (mirror_endz_witness a') in
  endz_strict e = false /\ 0 <= p <= tlen e /\
  anchor_ok (mirror_env e) a' (tlen e - p) <> anchor_ok e AEndZ p.
Proof.
  intros a'. destruct a'; vm_compute; repeat split; congruence.
Qed.

(* ---------------------------------------------------------------------------------------------- *)
(* Concrete instances used by Properties/C15.v (non-vacuity)                                      *)
(* ---------------------------------------------------------------------------------------------- *)
(* (a+)(b|c) parsed with RightToLeft: every node carries the Rtl bit (64) and the parser has already
   reversed the concatenation, so the list is in evaluation order: (b|c) first, then a+. *)
Definition mirror_ex_rtl : node :=
  NCapture 64 0 (-1)
    (NConcat 64 [NCapture 64 2 (-1) (NAlternate 64 [NChar COne 64 98; NChar COne 64 99]);
                 NCapture 64 1 (-1) (NCharLoop COne LGreedy 64 97 1 INF)]).

(* a left-to-right mix: non-boundary, a lookbehind for x (Rtl child), a lookahead containing a capture
   of "aa", a back-reference to it, an atomic greedy loop of a, a conditional on group 1 (b, else c),
   a negative lookahead for z, and End *)
Definition mirror_ex_mixed : node :=
  NCapture 0 0 (-1)
    (NConcat 0 [NAnchor ANonboundary;
                NPosLook 64 (NChar COne 64 120);
                NPosLook 0 (NCapture 0 1 (-1) (NMulti 0 [97; 97]));
                NRef 0 1;
                NAtomic (NLoop false 0 0 INF (NChar COne 0 97));
                NBackRefCond 0 1 (NChar COne 0 98) (Some (NChar COne 0 99));
                NNegLook 0 (NChar COne 0 122);
                NAnchor AEnd]).

(* ---------------------------------------------------------------------------------------------- *)
(* Statement forms used by Properties/C15.v                                                       *)
(* ---------------------------------------------------------------------------------------------- *)
Lemma mirror_sem_pos_in_range_list : forall (e : env) (fuel : nat) (t : node) (s : st) (l : list st),
  mirror_ok t = true -> st_ok e s -> sem e fuel t s = Ok l -> Forall (st_ok e) l.
Proof.
  intros e fuel t s l Ht Hs H. pose proof (sem_pos_in_range e fuel t s Ht Hs) as R.
  rewrite H in R. exact R.
Qed.

Lemma mirror_rtl_is_mirrored_ltr_partial : forall (e : env) (fuel : nat) (root : node) (start prevlen : Z),
  mirror_ok root = true -> 0 <= start <= tlen e ->
  find e fuel root true start prevlen
  = map_res (option_map (mirror_st (mirror_env e)))
      (find (mirror_env e) fuel (flip root) false (tlen e - start) prevlen).
Proof. intros e fuel root. exact (mirror_find_as_opposite_partial e fuel root true). Qed.

Lemma mirror_involution_all :
  (forall t, flip (flip t) = t) /\ (forall t, mirror_ok (flip t) = mirror_ok t) /\
  (forall e, mirror_env (mirror_env e) = e) /\
  (forall e s, mirror_st (mirror_env e) (mirror_st e s) = s) /\
  (forall e s, st_ok e s -> st_ok (mirror_env e) (mirror_st e s)).
Proof.
  exact (conj flip_invol (conj flip_mirror_ok (conj mirror_env_invol (conj mirror_st_invol mirror_st_ok_mirror)))).
Qed.
