(* C15 — right-to-left mode is the mirror image of left-to-right (reference semantics Spec.sem).

   Mirror image of everything:
     text      rev (txt e)                         position   p        |-> n - p      (n = tlen e)
     capture   (i, len) |-> (n - i - len, len)     state      mirror_st, environment mirror_env
     tree      flip : toggles the Rtl bit of every option word, swaps Beginning<->End, Bol<->Eol,
               reverses the literal of a Multi (stored in text order), keeps list order of
               concatenations (the parser already put them in evaluation order).

   PROVED (running list)
     - [x] option bits under flip_opt, tlen / char_at of the mirrored environment
     - [ ] leaves, combinators, sem, attempt, find

   All lemma names are prefixed mirror_/flip_ (topic prefix). *)
From Coq Require Import ZifyBool.
From Verif Require Import Base.Prelude Model.Tree Model.Spec.

(* ---------------------------------------------------------------------------------------------- *)
(* Definitions                                                                                    *)
(* ---------------------------------------------------------------------------------------------- *)

Definition map_res {A B} (f : A -> B) (r : res A) : res B :=
  match r with
  | Ok a => Ok (f a)
  | Err c => Err c
  | Crash w => Crash w
  | Fuel => Fuel
  end.

Definition mirror_span (n : Z) (iv : Z * Z) : Z * Z := (n - fst iv - snd iv, snd iv).
(* every capture of every group is mirrored; the order inside a group's stack is kept *)
Definition mirror_caps (n : Z) (c : caps_t) : caps_t :=
  map (fun gl => (fst gl, map (mirror_span n) (snd gl))) c.
Definition mirror_st (e : env) (s : st) : st :=
  {| pos := tlen e - pos s; caps := mirror_caps (tlen e) (caps s) |}.
Definition mirror_env (e : env) : env :=
  {| txt := rev (txt e);
     tstart := tlen e - tstart e;
     ecma := ecma e;
     endz_strict := endz_strict e;
     set_in := set_in e;
     lower := lower e;
     is_word := is_word e;
     is_eword := is_eword e |}.

Definition flip_opt (o : Z) : Z := Z.lxor o OPT_RTL.

(* EndZ has no mirror anchor among the existing ones: it is kept and excluded by [mirror_ok]
   (see mirror_endz_* below for the RE2/ECMAScript case where EndZ = End). *)
Definition flip_anchor (a : anchor) : anchor :=
  match a with
  | ABol => AEol
  | AEol => ABol
  | ABeginning => AEnd
  | AEnd => ABeginning
  | ABoundary => ABoundary
  | ANonboundary => ANonboundary
  | AECMABoundary => AECMABoundary
  | ANonECMABoundary => ANonECMABoundary
  | AStart => AStart
  | AEndZ => AEndZ
  end.

Fixpoint flip (t : node) : node :=
  match t with
  | NChar k o c => NChar k (flip_opt o) c
  | NCharLoop k l o c m n => NCharLoop k l (flip_opt o) c m n
  | NMulti o s => NMulti (flip_opt o) (rev s)
  | NRef o g => NRef (flip_opt o) g
  | NAnchor a => NAnchor (flip_anchor a)
  | NNothing => NNothing
  | NEmpty => NEmpty
  | NBump => NBump
  | NConcat o l => NConcat (flip_opt o) (map flip l)
  | NAlternate o l => NAlternate (flip_opt o) (map flip l)
  | NLoop lz o m n r => NLoop lz (flip_opt o) m n (flip r)
  | NCapture o g u r => NCapture (flip_opt o) g u (flip r)
  | NGroup r => NGroup (flip r)
  | NPosLook o r => NPosLook (flip_opt o) (flip r)
  | NNegLook o r => NNegLook (flip_opt o) (flip r)
  | NAtomic r => NAtomic (flip r)
  | NBackRefCond o g y no => NBackRefCond (flip_opt o) g (flip y) (option_map flip no)
  | NExprCond o c y no => NExprCond (flip_opt o) (flip c) (flip y) (option_map flip no)
  end.

Definition opt_forall (f : node -> bool) (o : option node) : bool :=
  match o with Some x => f x | None => true end.

(* The fragment the mirror theorem covers.  Excluded:
     - the anchor EndZ (no mirror anchor exists in the node language);
     - balancing groups (?<g-u>...) that RECORD a capture (u <> -1 and g <> -1): [balance_span] is
       not mirror-symmetric (see mirror_balance_refuted);  pure pops (?<-u>...) are covered;
     - single-character loops with a negative minimum (never produced by the parser; a negative
       minimum would let the loop walk out of the text). *)
Fixpoint mirror_ok (t : node) : bool :=
  match t with
  | NChar _ _ _ => true
  | NCharLoop _ _ _ _ m _ => 0 <=? m
  | NMulti _ _ => true
  | NRef _ _ => true
  | NAnchor a => match a with AEndZ => false | _ => true end
  | NNothing => true
  | NEmpty => true
  | NBump => true
  | NConcat _ l => forallb mirror_ok l
  | NAlternate _ l => forallb mirror_ok l
  | NLoop _ _ _ _ r => mirror_ok r
  | NCapture _ g u r => ((u =? -1) || (g =? -1)) && mirror_ok r
  | NGroup r => mirror_ok r
  | NPosLook _ r => mirror_ok r
  | NNegLook _ r => mirror_ok r
  | NAtomic r => mirror_ok r
  | NBackRefCond _ _ y no => mirror_ok y && opt_forall mirror_ok no
  | NExprCond _ c y no => mirror_ok c && mirror_ok y && opt_forall mirror_ok no
  end.

(* states the semantics works on: position inside the text, captures inside the text *)
Definition span_ok (n : Z) (iv : Z * Z) : Prop := 0 <= fst iv /\ 0 <= snd iv /\ fst iv + snd iv <= n.
Definition caps_ok (n : Z) (c : caps_t) : Prop := Forall (fun gl => Forall (span_ok n) (snd gl)) c.
Definition st_ok (e : env) (s : st) : Prop := 0 <= pos s <= tlen e /\ caps_ok (tlen e) (caps s).

(* ---------------------------------------------------------------------------------------------- *)
(* Option bits                                                                                    *)
(* ---------------------------------------------------------------------------------------------- *)

Lemma mirror_land_pow2 : forall o k, 0 <= k ->
  Z.land o (2 ^ k) = if Z.testbit o k then 2 ^ k else 0.
Proof.
  intros o k Hk. apply Z.bits_inj'. intros j Hj.
  rewrite Z.land_spec, Z.pow2_bits_eqb by lia.
  destruct (Z.eqb_spec k j) as [->|Hne].
  - rewrite andb_true_r. destruct (Z.testbit o j) eqn:E.
    + now rewrite Z.pow2_bits_true.
    + now rewrite Z.bits_0.
  - rewrite andb_false_r. destruct (Z.testbit o k).
    + symmetry. apply Z.pow2_bits_false. lia.
    + now rewrite Z.bits_0.
Qed.

Lemma mirror_has_bit_pow2 : forall o k, 0 <= k -> has_bit o (2 ^ k) = Z.testbit o k.
Proof.
  intros o k Hk. unfold has_bit. rewrite mirror_land_pow2 by lia.
  assert (0 < 2 ^ k) by (apply Z.pow_pos_nonneg; lia).
  destruct (Z.testbit o k); lia.
Qed.

Lemma flip_is_rtl : forall o, is_rtl (flip_opt o) = negb (is_rtl o).
Proof.
  intros o. unfold is_rtl, flip_opt, OPT_RTL. change 64 with (2 ^ 6).
  rewrite !mirror_has_bit_pow2 by lia. rewrite Z.lxor_spec.
  rewrite Z.pow2_bits_true by lia. apply xorb_true_r.
Qed.

Lemma flip_is_ci : forall o, is_ci (flip_opt o) = is_ci o.
Proof.
  intros o. unfold is_ci, flip_opt, OPT_RTL, OPT_CI. change 1 with (2 ^ 0). change 64 with (2 ^ 6).
  rewrite !mirror_has_bit_pow2 by lia. rewrite Z.lxor_spec.
  rewrite (Z.pow2_bits_false 6 0) by lia. apply xorb_false_r.
Qed.

Lemma flip_opt_invol : forall o, flip_opt (flip_opt o) = o.
Proof.
  intros o. unfold flip_opt. rewrite Z.lxor_assoc, Z.lxor_nilpotent. apply Z.lxor_0_r.
Qed.

(* ---------------------------------------------------------------------------------------------- *)
(* Text                                                                                           *)
(* ---------------------------------------------------------------------------------------------- *)

Lemma mirror_tlen : forall e, tlen (mirror_env e) = tlen e.
Proof. intros e. unfold tlen, zlen. cbn [txt mirror_env]. now rewrite rev_length. Qed.

Lemma mirror_char_at : forall e i, 0 <= i < tlen e ->
  char_at (mirror_env e) i = char_at e (tlen e - 1 - i).
Proof.
  intros e i Hi. unfold char_at, tlen, zlen in *. cbn [txt mirror_env].
  rewrite rev_nth by lia. f_equal. lia.
Qed.

Lemma mirror_tlen_nonneg : forall e, 0 <= tlen e.
Proof. intros e. unfold tlen, zlen. lia. Qed.

(* ---------------------------------------------------------------------------------------------- *)
(* Leaves                                                                                         *)
(* ---------------------------------------------------------------------------------------------- *)
Section Leaves.
Variable e : env.
Local Notation n := (tlen e).
Local Notation e' := (mirror_env e).

Lemma mirror_avail : forall o p, avail e' (flip_opt o) (n - p) = avail e o p.
Proof.
  intros o p. unfold avail. rewrite flip_is_rtl, mirror_tlen.
  destruct (is_rtl o); cbn [negb]; lia.
Qed.

Lemma mirror_dir : forall o, dir (flip_opt o) = - dir o.
Proof. intros o. unfold dir. rewrite flip_is_rtl. destruct (is_rtl o); reflexivity. Qed.

Lemma mirror_dir_cases : forall o, dir o = 1 \/ dir o = -1.
Proof. intros o. unfold dir. destruct (is_rtl o); auto. Qed.

Lemma mirror_next_char : forall o p, 0 <= p <= n -> 0 < avail e o p ->
  next_char e' (flip_opt o) (n - p) = next_char e o p.
Proof.
  intros o p Hp Ha. unfold next_char, avail in *. rewrite flip_is_rtl.
  destruct (is_rtl o); cbn [negb].
  - rewrite mirror_char_at by lia. f_equal. lia.
  - rewrite mirror_char_at by lia. f_equal. lia.
Qed.

Lemma mirror_char_test : forall k c x, char_test e' k c x = char_test e k c x.
Proof. intros k c x. destruct k; reflexivity. Qed.

(* the single-character step, shared by NChar and run_len *)
Lemma mirror_step_test : forall k c o p, 0 <= p <= n ->
  (0 <? avail e' (flip_opt o) (n - p)) && char_test e' k c (next_char e' (flip_opt o) (n - p))
  = (0 <? avail e o p) && char_test e k c (next_char e o p).
Proof.
  intros k c o p Hp. rewrite mirror_avail.
  destruct (0 <? avail e o p) eqn:E; [|reflexivity].
  rewrite mirror_next_char by lia. now rewrite mirror_char_test.
Qed.

Lemma mirror_avail_step : forall o p, 0 <= p <= n -> 0 < avail e o p -> 0 <= p + dir o <= n.
Proof.
  intros o p Hp Ha. unfold avail, dir in *. destruct (is_rtl o); lia.
Qed.

Lemma mirror_run_len : forall k c o maxn p, 0 <= p <= n ->
  run_len e' k c (flip_opt o) maxn (n - p) = run_len e k c o maxn p.
Proof.
  intros k c o maxn. induction maxn as [|m IH]; intros p Hp; [reflexivity|].
  cbn [run_len]. rewrite mirror_step_test by lia.
  destruct ((0 <? avail e o p) && char_test e k c (next_char e o p)) eqn:E; [|reflexivity].
  rewrite mirror_dir.
  replace (n - p + - dir o) with (n - (p + dir o)) by lia.
  rewrite IH; [reflexivity|]. apply mirror_avail_step; lia.
Qed.

Lemma mirror_run_len_bound : forall k c o maxn p, 0 <= p <= n ->
  0 <= run_len e k c o maxn p <= avail e o p.
Proof.
  intros k c o maxn. induction maxn as [|m IH]; intros p Hp.
  - cbn [run_len]. unfold avail. destruct (is_rtl o); lia.
  - cbn [run_len].
    destruct ((0 <? avail e o p) && char_test e k c (next_char e o p)) eqn:E.
    + assert (Ha : 0 < avail e o p) by lia.
      pose proof (mirror_avail_step o p Hp Ha) as Hs.
      specialize (IH (p + dir o) Hs).
      unfold avail, dir in *. destruct (is_rtl o); lia.
    + unfold avail. destruct (is_rtl o); lia.
Qed.

Lemma mirror_with_pos : forall s p, mirror_st e (with_pos s p) = with_pos (mirror_st e s) (n - p).
Proof. reflexivity. Qed.

(* --- single-character loops --- *)
Lemma mirror_sem_charloop : forall k l o c m mx s, 0 <= pos s <= n ->
  sem_charloop e' k l (flip_opt o) c m mx (mirror_st e s) = map (mirror_st e) (sem_charloop e k l o c m mx s).
Proof.
  intros k l o c m mx s Hp. unfold sem_charloop. cbn [pos mirror_st].
  rewrite mirror_avail, mirror_run_len by lia.
  set (cap := if mx =? INF then avail e o (pos s) else Z.min mx (avail e o (pos s))).
  set (r := run_len e k c o (Z.to_nat cap) (pos s)).
  destruct (r <? m); [reflexivity|].
  assert (Hmk : forall j, with_pos (mirror_st e s) (n - pos s + dir (flip_opt o) * j)
                          = mirror_st e (with_pos s (pos s + dir o * j))).
  { intros j. rewrite mirror_with_pos, mirror_dir. f_equal. lia. }
  destruct l; cbn [map]; rewrite ?map_map, ?Hmk; try reflexivity;
    apply map_ext; intros j; apply Hmk.
Qed.

Lemma mirror_count_down_aux_range : forall k a j, In j (count_down_aux k a) -> a - Z.of_nat k < j <= a.
Proof.
  induction k as [|k IH]; intros a j Hj; cbn [count_down_aux] in Hj; [contradiction|].
  destruct Hj as [<-|Hj]; [lia|]. apply IH in Hj. lia.
Qed.
Lemma mirror_count_up_aux_range : forall k a j, In j (count_up_aux k a) -> a <= j < a + Z.of_nat k.
Proof.
  induction k as [|k IH]; intros a j Hj; cbn [count_up_aux] in Hj; [contradiction|].
  destruct Hj as [<-|Hj]; [lia|]. apply IH in Hj. lia.
Qed.
Lemma mirror_count_down_range : forall a b j, In j (count_down a b) -> b <= j <= a.
Proof.
  intros a b j Hj. unfold count_down in Hj. destruct (a <? b) eqn:E; [contradiction|].
  apply mirror_count_down_aux_range in Hj. lia.
Qed.
Lemma mirror_count_up_range : forall a b j, In j (count_up a b) -> a <= j <= b.
Proof.
  intros a b j Hj. unfold count_up in Hj. destruct (b <? a) eqn:E; [contradiction|].
  apply mirror_count_up_aux_range in Hj. lia.
Qed.

Lemma mirror_with_pos_ok : forall s p, st_ok e s -> 0 <= p <= n -> st_ok e (with_pos s p).
Proof. intros s p [_ Hc] Hp. split; assumption. Qed.

Lemma mirror_sem_charloop_ok : forall k l o c m mx s, 0 <= m -> st_ok e s ->
  Forall (st_ok e) (sem_charloop e k l o c m mx s).
Proof.
  intros k l o c m mx s Hm Hs. unfold sem_charloop.
  set (cap := if mx =? INF then avail e o (pos s) else Z.min mx (avail e o (pos s))).
  pose proof (mirror_run_len_bound k c o (Z.to_nat cap) (pos s) (proj1 Hs)) as Hr.
  set (r := run_len e k c o (Z.to_nat cap) (pos s)) in *.
  destruct (r <? m) eqn:E; [constructor|].
  assert (Hj : forall j, m <= j <= r -> st_ok e (with_pos s (pos s + dir o * j))).
  { intros j Hjr. apply mirror_with_pos_ok; [assumption|].
    destruct Hs as [Hp _]. unfold avail, dir in *. destruct (is_rtl o); lia. }
  destruct l.
  - apply Forall_forall. intros x Hx. apply in_map_iff in Hx. destruct Hx as [j [<- Hin]].
    apply Hj. apply mirror_count_down_range in Hin. lia.
  - apply Forall_forall. intros x Hx. apply in_map_iff in Hx. destruct Hx as [j [<- Hin]].
    apply Hj. apply mirror_count_up_range in Hin. lia.
  - constructor; [|constructor]. apply Hj. lia.
Qed.

End Leaves.
