(* compile_correct2 (C01, link 3, EVERY constructor of Tree.node): the code the writer emits for a tree,
   run by the interpreter, delivers exactly the reference semantics' priority-ordered result list --
   balancing captures (?<g-u>...) / (?<-u>...) included.

   This is Proofs/CompileProofs.v re-done over the capture relation [caps_rel2] (Proofs/CompileBalDen.v):
   an interpreter capture array may contain balanceMatch's marker pairs and DENOTES the reference
   semantics' capture stack; without markers caps_rel2 is caps_rel (bd_caps_rel_of_plain).
   The per-node lemmas of CompileStage1/Loop/CharLoop/Multi/Stage4/Cond/Ref are repeated proof for proof
   over [leadsg2]/[ok_node2] in CompileBalStage1/... (only the three places that READ the capture arrays
   changed: plain capture, Ref, Testref); the new node is Proofs/CompileBalCapture.v (c2_capture_bal) with
   the opcode lemmas of Proofs/CompileBalOps.v.

   PROVED (all closed under the global context), writer configuration cfg0:
     compile_correct2_partial      as compile_correct_partial, for every [supported2] tree
     compile_correct2_top_partial  as compile_correct_top_partial; the final capture arrays are related to the
                                   reference captures by caps_rel2
     compile_correct2_exec_partial as compile_correct_exec_partial (real finite stacks, any limit)
     c2_demo                       a^n b^n with a balancing group, cross-checked against VM.exec_at

   THE SET [supported2] = CompileDefs.supported WITHOUT the restriction u = -1 on NCapture.
   NEW SIDE CONDITION (groups_ok2): for NCapture _ g u r with u <> -1:  0 <= u < capsize  and
   (g = -1  or  0 <= g < capsize).  Nothing else: the uncapture/crawl discipline is not a hypothesis, it is
   part of the invariant (leadsg2: "unwind C' M' = Some M0" -- the crawl entries g :: u pushed by
   transferCapture are undone by Capturemark|Back, in that order, and restore the arrays exactly).
   Still [_partial]: NAlternate [] and NCharLoop with m > n (parser never builds them), fuel/length <= MaxInt32. *)
From Verif Require Import Base.Prelude Model.Tree Model.Spec Model.VM Model.Writer Gen.RunnerGen
  Proofs.SpecProofs Proofs.SpecBoundsProofs Proofs.MaskProofs
  Proofs.VMU Proofs.VMUOps Proofs.VMUOps2 Proofs.VMUOps6 Proofs.VMUOps3 Proofs.CompileBase
  Proofs.CompileDefs Proofs.CompileStage1 Proofs.CompileProofs
  Proofs.CompileBalDen Proofs.CompileBalBase Proofs.CompileBalDefs Proofs.CompileBalStage1 Proofs.CompileBalCapture
  Proofs.CompileBalLoop Proofs.CompileBalCharLoop Proofs.CompileBalMulti Proofs.CompileBalStage4
  Proofs.CompileBalCond Proofs.CompileBalRef
  Proofs.VMLimitProofs Proofs.VMLimitSimProofs Proofs.VMUBridge.
From Coq Require Import Relations ZifyBool.

Lemma c2_den_nonempty ps x stk : Den ps (x :: stk) -> 0 < zlen (flat (rev ps)).
Proof.
  intros H. inversion H; subst; rewrite bd_flat_rev_cons, zlen_app;
    pose proof (zlen_nonneg (flat (rev ps0))); change (zlen [fst ?a; snd ?a]) with 2; cbn [zlen length]; lia.
Qed.

Section CC.
Variable e : env.
Variable p : program.
Hypothesis tc_nonneg : 0 <= trackcount p.
Hypothesis Htlen : tlen e <= INF.

Notation rsteps := (VMUOps2.rsteps e p).
Notation leadsg2 := (CompileBalBase.leadsg2 e p).
Notation has_code := (CompileBase.has_code p).
Notation track_ok := (CompileBase.track_ok p).
Notation caps_rel2 := (CompileBalDen.caps_rel2 p).

Notation code_ex := (CompileDefs.code_ex p).
Notation tbl_ok := (CompileDefs.tbl_ok p).
Notation ok_node2 := (CompileBalDefs.ok_node2 e p).
Notation ok_at2 := (CompileBalDefs.ok_at2 e p).

(* ---------- the main induction ---------- *)
Theorem c2_all_ok : forall f, Z.of_nat f <= INF -> ok_at2 f.
Proof.
  induction f as [|f IH]; intros Hf t Hs Hg.
  - intros s res Hsem. discriminate Hsem.
  - assert (IH' : ok_at2 f) by (apply IH; lia). clear IH.
    destruct t; try discriminate Hs.
    + apply c2_char; exact tc_nonneg.
    + cbn [supported2] in Hs. apply c2_charloop; try assumption; lia.
    + apply c2_multi; exact tc_nonneg.
    + apply c2_ref; try exact tc_nonneg. destruct Hg as [Hg0 _]. exact Hg0.
    + apply c2_anchor; exact tc_nonneg.
    + apply c2_nothing; exact tc_nonneg.
    + apply c2_empty.
    + apply c2_bump.
    + apply c2_concat; assumption.
    + apply c2_alternate; assumption.
    + cbn [supported2] in Hs. apply andb_prop in Hs. destruct Hs as [Hs Hsr]. apply andb_prop in Hs. destruct Hs as [Hm Hn].
      destruct Hg as [_ Hg]. apply c2_loop; try assumption; try lia. apply IH'; assumption.
    + cbn [supported2] in Hs. destruct Hg as [Hg0 Hg]. cbn [grp_ok_node2] in Hg0.
      destruct (u =? -1) eqn:Eu.
      * apply Z.eqb_eq in Eu. subst u.
        apply c2_capture; [exact tc_nonneg|apply IH'; assumption|exact Hs|exact Hg0].
      * apply Z.eqb_neq in Eu. destruct Hg0 as [Hgu Hgg].
        apply c2_capture_bal; [exact tc_nonneg|apply IH'; assumption|exact Hs|exact Eu|exact Hgu|exact Hgg].
    + apply c2_group. apply IH'; [exact Hs|]. destruct Hg as [_ Hg]. exact Hg.
    + apply c2_poslook; [exact tc_nonneg|]. apply IH'; [exact Hs|]. destruct Hg as [_ Hg]. exact Hg.
    + apply c2_neglook; [exact tc_nonneg|]. apply IH'; [exact Hs|]. destruct Hg as [_ Hg]. exact Hg.
    + apply c2_atomic; [exact tc_nonneg|]. apply IH'; [exact Hs|]. destruct Hg as [_ Hg]. exact Hg.
    + cbn [supported2] in Hs. apply andb_prop in Hs. destruct Hs as [Hsy Hsn].
      destruct Hg as [Hg0 [Hgy Hgn]].
      apply c2_backrefcond; [exact tc_nonneg|apply IH'; assumption| |exact Hg0].
      destruct no as [x|]; [apply IH'; assumption|exact I].
    + cbn [supported2] in Hs. apply andb_prop in Hs. destruct Hs as [Hs Hsn]. apply andb_prop in Hs. destruct Hs as [Hsc Hsy].
      destruct Hg as [_ [Hgc [Hgy Hgn]]].
      apply c2_exprcond; [exact tc_nonneg|apply IH'; assumption|exact Hsc|apply IH'; assumption|].
      destruct no as [x|]; [apply IH'; assumption|exact I].
Qed.

Theorem compile_correct2_partial : forall fuel t s res,
  Z.of_nat fuel <= INF ->
  sem e fuel t s = Ok res -> supported2 t = true -> st_ok e s -> groups_ok2 (capsize p) t ->
  forall a tbl T S C M,
    has_code a (fst (emit cfg0 t a tbl)) -> (exists w, code_at p (a + csize cfg0 t) = Some w) ->
    track_ok T -> caps_rel2 (caps s) M -> tbl_ok (snd (emit cfg0 t a tbl)) ->
    leadsg2 (a + csize cfg0 t) T S S C M (mkr a 0 (pos s) T S C M) res.
Proof.
  intros fuel t s res Hf Hsem Hs Hst Hg a tbl T S C M Hc Hex Hk Hr Htb.
  exact (c2_all_ok fuel Hf t Hs Hg s res Hsem Hst a tbl T S C M Hc Hex Hk Hr Htb).
Qed.

(* ---------- the whole program: Lazybranch Lend ; root ; Lend: Stop ---------- *)
Theorem compile_correct2_top_partial : forall fuel o body t0 r,
  let root := NCapture o 0 (-1) body in
  let M0 := repeat [] (Z.to_nat (capsize p)) in
  let stop := 2 + csize cfg0 root in
  codes p = fst (compile cfg0 root) -> strings p = snd (compile cfg0 root) ->
  supported2 root = true -> groups_ok2 (capsize p) root -> 0 <= t0 <= tlen e ->
  Z.of_nat fuel <= INF ->
  attempt e fuel root t0 = Ok r ->
  code_at p stop = Some Stop /\
  exists t T S C M,
    VMU.usteps e p (VMU.mk 0 0 t0 [] [] [] M0) (VMU.mk stop 0 t T S C M) /\
    VMU.ustep e p (VMU.mk stop 0 t T S C M) = Ok (Done (VMU.mk stop 0 t T S C M)) /\
    match r with
    | Some q => t = pos q /\ caps_rel2 (caps q) M /\ matched0 (VMU.mk stop 0 t T S C M) = true
    | None => M = M0 /\ T = [] /\ S = [] /\ C = [] /\ matched0 (VMU.mk stop 0 t T S C M) = false
    end.
Proof.
  intros fuel o body t0 r root M0 stop Hcodes Hstrings Hs Hg Ht0 Hfuel Hatt.
  unfold attempt in Hatt. apply sp_bind_ok in Hatt. destruct Hatt as [l [Hsem Hr]]. injection Hr as <-.
  pose proof (cc_has_code_self p) as Hc. rewrite Hcodes in Hc. unfold compile in Hc, Hstrings.
  pose proof (emit_length cfg0 root 2 []) as Lr.
  destruct (emit cfg0 root 2 []) as [cr tbl'] eqn:Er. cbn [fst snd] in Lr, Hc, Hstrings.
  apply has_code_cons in Hc. destruct Hc as [H0 Hc]. apply has_code_cons in Hc. destruct Hc as [H1 Hc].
  apply has_code_app in Hc. destruct Hc as [Hcr Hc]. apply has_code_cons in Hc. destruct Hc as [Hstop _].
  replace (0 + 1) with 1 in * by lia. replace (1 + 1) with 2 in * by lia.
  rewrite Lr in *. fold stop in H1, Hstop.
  split; [exact Hstop|].
  assert (Hg0 : 0 <= 0 < capsize p) by (destruct Hg as [Hg0 _]; exact Hg0).
  assert (Hst : st_ok e {| pos := t0; caps := [] |}) by (apply sb_init_ok; exact Ht0).
  assert (Hex2 : code_ex 2).
  { eapply cc_code_ex_start; [exact Hcr|]. rewrite Lr. exists Stop. exact Hstop. }
  destruct Hex2 as [w2 Hw2].
  assert (Hcap : 0 <= capsize p) by lia.
  assert (G : leadsg2 stop [0] [] [] [] M0 (mkr 2 0 t0 [0] [] [] M0) l).
  { apply (compile_correct2_partial fuel root {| pos := t0; caps := [] |} l Hfuel Hsem Hs Hst Hg 2 [] [0] [] [] M0).
    - rewrite Er. exact Hcr.
    - exists Stop. exact Hstop.
    - eapply track_ok_cons. exact H0.
    - apply bd_caps_rel_init. exact Hcap.
    - rewrite Er. cbn [snd]. intros i str Hi. rewrite Hstrings. exact Hi. }
  assert (Hstep1 : VMU.usteps e p (VMU.mk 0 0 t0 [] [] [] M0) (mkr 2 0 t0 [0] [] [] M0 t0)).
  { apply usteps_one. unfold mkr. cbn [app]. eapply ustep_lazybranch; eassumption. }
  assert (HlM0 : zlen M0 = capsize p) by (unfold M0, zlen; rewrite repeat_length; lia).
  destruct l as [|q l'].
  - cbn [leadsg2] in G. destruct G as (np & T' & t & HT & Hs1). injection HT as <- <-.
    destruct (Hs1 t0) as [r' Hr']. rewrite bkr_pos in Hr' by lia. unfold mkr in Hr' at 2. cbn [app] in Hr'.
    exists r', [], [], [], M0.
    split.
    { eapply usteps_trans; [exact Hstep1|]. eapply usteps_trans; [exact Hr'|]. apply usteps_one.
      eapply ustep_lazybranch_back; eassumption. }
    split. { apply ustep_stop. exact Hstop. }
    repeat (split; [reflexivity|]).
    unfold matched0, mc_get. cbn [mcaps VMU.mk]. rewrite (cc_znth_nth M0 0 []) by lia.
    destruct (cc_caps_rel_init p Hcap) as [_ Hn]. fold M0 in Hn. change (nth 0 M0 []) with (nth (Z.to_nat 0) M0 []).
    rewrite Hn by lia. reflexivity.
  - cbn [leadsg2] in G. destruct G as (T' & C' & M' & Hcq & Hu & Hk & Hs1 & _).
    destruct (Hs1 t0) as [r' Hr']. unfold mkr in Hr' at 2.
    exists (pos q), ((T' ++ [0]) ++ [r']), [], (C' ++ []), M'.
    split. { eapply usteps_trans; [exact Hstep1|exact Hr']. }
    split. { apply ustep_stop. exact Hstop. }
    split; [reflexivity|]. split; [exact Hcq|].
    unfold root in Hsem. destruct fuel as [|f]; [discriminate Hsem|]. rewrite cc_sem_capture in Hsem. apply sp_bindr_ok in Hsem. destruct Hsem as [la [_ Hb]].
    apply sb_bindl_singleton in Hb. destruct la as [|s' la']; [discriminate Hb|]. cbn [map] in Hb. injection Hb as -> _.
    destruct Hcq as [HlM HcM]. unfold matched0, mc_get. cbn [mcaps VMU.mk]. rewrite (cc_znth_nth M' 0 []) by lia.
    destruct (HcM 0 Hg0) as (ps & Ea & Hd). rewrite Ea.
    cbn [caps] in Hd. unfold cap_push in Hd. rewrite sb_cap_get_set_same in Hd.
    pose proof (c2_den_nonempty _ _ _ Hd). lia.
Qed.

End CC.

Print Assumptions compile_correct2_partial.

Print Assumptions compile_correct2_top_partial.

(* ---------- the interpreter with its real finite stacks (as CompileExec.compile_correct_exec_partial) ---------- *)
Theorem compile_correct2_exec_partial :
  forall (e : env) (p : program), 0 <= trackcount p -> tlen e <= INF ->
  forall L fuel vfuel o body t0 r s',
  let root := NCapture o 0 (-1) body in
  let M0 := repeat [] (Z.to_nat (capsize p)) in
  let stop := 2 + csize cfg0 root in
  codes p = fst (compile cfg0 root) -> strings p = snd (compile cfg0 root) ->
  supported2 root = true -> groups_ok2 (capsize p) root -> 0 <= t0 <= tlen e ->
  Z.of_nat fuel <= INF ->
  attempt e fuel root t0 = Ok r ->
  exec_at e p L vfuel t0 = Ok s' ->
  pc s' = stop /\ mode s' = 0 /\
  match r with
  | Some q => tp s' = pos q /\ caps_rel2 p (caps q) (mcaps s') /\ matched0 s' = true
  | None => mcaps s' = M0 /\ matched0 s' = false
  end.
Proof.
  intros e p Htc Htl L fuel vfuel o body t0 r s' root M0 stop Hcodes Hstr Hs Hg Ht0 Hf Hatt Hex.
  assert (HL : lim_le L (-1)) by (left; lia).
  destruct (vml_exec_raise_limit e p L (-1) vfuel t0 s' HL Hex) as (s2 & Hex2 & Heq).
  destruct (exec_at_usteps e p Htc vfuel t0 s2 Hex2) as (sd & Hpath & Hdone).
  destruct (compile_correct2_top_partial e p Htc Htl fuel o body t0 r Hcodes Hstr Hs Hg Ht0 Hf Hatt)
    as (_ & t & T & S & C & M & Hpath' & Hdone' & Hres).
  fold M0 in Hpath. fold root stop M0 in Hpath', Hdone', Hres.
  destruct (usteps_done_unique e p _ _ _ _ _ Hpath Hdone Hpath' Hdone') as [_ Hfin].
  unfold eqv in Heq. destruct Heq as (Epc & Emd & Etp & _ & _ & _ & _ & Emc).
  unfold norm, VMU.mk in Hfin. injection Hfin as Fpc Fmd Ftp _ _ _ Fmc.
  assert (Hm0 : matched0 s' = matched0 (VMU.mk stop 0 t T S C M)).
  { unfold matched0. cbn [mcaps VMU.mk]. rewrite Emc, Fmc. reflexivity. }
  split; [congruence|]. split; [congruence|].
  destruct r as [q|].
  - destruct Hres as (Ht & Hc & Hm). split; [congruence|]. split; [|congruence].
    rewrite Emc, Fmc. exact Hc.
  - destruct Hres as (HM & _ & _ & _ & Hm). split; [congruence|congruence].
Qed.

Print Assumptions compile_correct2_exec_partial.

(* supported trees are supported2 trees with the same slot condition *)
Lemma c2_supported_of_supported : forall t, supported t = true -> supported2 t = true.
Proof.
  induction t using node_ind'; intros Hs; cbn [supported supported2] in *; try exact Hs.
  - change (supported_list l = true) in Hs. change (supported2_list l = true).
    induction H as [|x l Hx Hl IH]; [reflexivity|]. cbn [supported_list supported2_list] in *.
    apply andb_prop in Hs. destruct Hs as [H1 H2]. rewrite (Hx H1). cbn [andb]. apply IH. exact H2.
  - apply andb_prop in Hs. destruct Hs as [Hne Hs]. rewrite Hne. cbn [andb].
    change (supported_list l = true) in Hs. change (supported2_list l = true). clear Hne.
    induction H as [|x l Hx Hl IH]; [reflexivity|]. cbn [supported_list supported2_list] in *.
    apply andb_prop in Hs. destruct Hs as [H1 H2]. rewrite (Hx H1). cbn [andb]. apply IH. exact H2.
  - apply andb_prop in Hs. destruct Hs as [Hmn Hs]. rewrite Hmn, (IHt Hs). reflexivity.
  - apply andb_prop in Hs. destruct Hs as [_ Hs]. apply IHt. exact Hs.
  - apply IHt. exact Hs.
  - apply IHt. exact Hs.
  - apply IHt. exact Hs.
  - apply IHt. exact Hs.
  - apply andb_prop in Hs. destruct Hs as [Hy Hn]. rewrite (IHt Hy). cbn [andb].
    destruct no as [x|]; [apply H; exact Hn|reflexivity].
  - apply andb_prop in Hs. destruct Hs as [Hs Hn]. apply andb_prop in Hs. destruct Hs as [Hc Hy].
    rewrite (IHt1 Hc), (IHt2 Hy). cbn [andb]. destruct no as [x|]; [apply H; exact Hn|reflexivity].
Qed.

(* ---------- a concrete instance: a^n b^n with a balancing group ----------
   (?<1>a)+ (?<2-1>b)+ (?(1)(?!)) (?<-2>) \z   on "aabb":
   every b pops one a (group 2 records the text in between), the conditional checks that no a is left,
   (?<-2>) pops one capture of 2 again.  Reference result: group 1 = [] (both popped), group 2 = [(2,0)].
   The interpreter's arrays carry the markers: slot 1 = a a marker(->pair 0) marker(none), slot 2 = two
   captures and a marker.  On "aab" the conditional fails the only candidate: no match, arrays restored. *)
Definition c2_demo_body : node :=
  NConcat 0 [ NLoop false 0 1 INF (NCapture 0 1 (-1) (NChar COne 0 97));
              NLoop false 0 1 INF (NCapture 0 2 1 (NChar COne 0 98));
              NBackRefCond 0 1 NNothing (Some NEmpty);
              NCapture 0 (-1) 2 NEmpty;
              NAnchor AEnd ].
Definition c2_demo_prog : program :=
  let root := NCapture 0 0 (-1) c2_demo_body in
  {| codes := fst (compile cfg0 root); strings := snd (compile cfg0 root);
     trackcount := track_count (fst (compile cfg0 root)); capsize := 3 |}.

Example c2_demo :
  let e := cc_demo_env2 [97;97;98;98] in
  let e' := cc_demo_env2 [97;97;98] in
  let root := NCapture 0 0 (-1) c2_demo_body in
  let p := c2_demo_prog in
  let q := {| pos := 4; caps := [(1, []); (2, [(2, 0)]); (0, [(0, 4)])] |} in
  supported root = false /\ supported2 root = true /\
  attempt e 40 root 0 = Ok (Some q) /\
  (exists t T S C M,
     VMU.usteps e p (VMU.mk 0 0 0 [] [] [] [[]; []; []]) (VMU.mk 39 0 t T S C M) /\
     VMU.ustep e p (VMU.mk 39 0 t T S C M) = Ok (Done (VMU.mk 39 0 t T S C M)) /\
     t = 4 /\ caps_rel2 p (caps q) M) /\
  (exists s', exec_at e p (-1) 5 0 = Ok s' /\ pc s' = 39 /\ tp s' = 4 /\
              mcaps s' = [[0; 4]; [0; 1; 1; 1; -3; -4; -1; -2]; [2; 0; 1; 2; -3; -4]]) /\
  attempt e' 40 root 0 = Ok None /\
  (exists s', exec_at e' p (-1) 5 0 = Ok s' /\ pc s' = 39 /\ mcaps s' = [[]; []; []]).
Proof.
  intros e e' root p q. split; [reflexivity|]. split; [reflexivity|]. split; [vm_compute; reflexivity|]. split.
  - assert (Htc : 0 <= trackcount p) by (vm_compute; congruence).
    assert (Hg : groups_ok2 (capsize p) root).
    { cbn. repeat split; try exact I; try (left; reflexivity); try (right; split); cbv; congruence. }
    assert (Hp : 0 <= 0 <= tlen e) by (cbv; split; congruence).
    destruct (compile_correct2_top_partial e p Htc ltac:(cbv; congruence) 40 0 c2_demo_body 0 (Some q)
                eq_refl eq_refl eq_refl Hg Hp ltac:(cbv; congruence) ltac:(vm_compute; reflexivity))
      as [_ (t & T & S & C & M & H1 & H2 & H3 & H4 & H5)].
    exists t, T, S, C, M. exact (conj H1 (conj H2 (conj H3 H4))).
  - split; [eexists; split; [vm_compute; reflexivity|]; repeat split|].
    split; [vm_compute; reflexivity|].
    eexists. split; [vm_compute; reflexivity|]. repeat split.
Qed.
