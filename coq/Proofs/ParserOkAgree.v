(* Proofs about Model/Parser.v, part 9: the capture pre-scan and the main pass agree on which parentheses capture.

   Both passes read the same text.  [Sim]: at the start of every round of scanRegex there is a state of the
   pre-scan, standing at the same place of the pattern, with the same option word up to the RightToLeft bit
   (which only the main pass changes, at lookarounds), the same option stack, the same ignoreNextParen and the
   same automatic capture number; and the pre-scan, run on from there, ends in the state whose tables the main
   pass was given.  Hence the number a plain "(" takes in the main pass is the number the pre-scan noted for
   it, a key of the capture table: the hypothesis [Hac] of Proofs/ParserOkMain.v.

   Not ECMAScript (there a shorthand class in range position, [a-\d], leaves the scan-only class scanner with a
   stale "in range" flag; no counterexample known, no proof).  Oracle tie: a word character is none of
   ! # ' ( ) - < = > [ \ and the ASCII digits are word characters. *)
From Coq Require Import ZifyBool.
From Verif Require Import Base.Prelude Gen.ParseLitGen Model.Escape Model.ParseLit Model.GroupMap Model.CharClass
  Model.Parser Proofs.ParseLitProofs Proofs.GMBase Proofs.ParserScan Proofs.ParserTree Proofs.ParserMain Proofs.ParserPre
  Proofs.ParserProofs Proofs.ParserOkTree Proofs.ParserOkMain Proofs.ParserOkPre.

(* ---------------------------------------------------------------- option words up to RightToLeft *)
Definition oeqv (a b : Z) : Prop := Z.lor a 64 = Z.lor b 64.

Lemma oeqv_refl a : oeqv a a. Proof. reflexivity. Qed.
Lemma oeqv_sym a b : oeqv a b -> oeqv b a. Proof. unfold oeqv. congruence. Qed.
Lemma oeqv_trans a b c : oeqv a b -> oeqv b c -> oeqv a c. Proof. unfold oeqv. congruence. Qed.

Lemma oeqv_bit a b k : oeqv a b -> Z.land 64 k = 0 -> pl_bit a k = pl_bit b k.
Proof.
  intros H K. unfold pl_bit. rewrite <- (land_lor_disjoint a 64 k K), <- (land_lor_disjoint b 64 k K), H. reflexivity.
Qed.

Lemma oeqv_useX a b : oeqv a b -> useX a = useX b. Proof. intros H. apply oeqv_bit; [exact H | reflexivity]. Qed.
Lemma oeqv_useN a b : oeqv a b -> useN a = useN b. Proof. intros H. apply oeqv_bit; [exact H | reflexivity]. Qed.
Lemma oeqv_useE a b : oeqv a b -> useE a = useE b. Proof. intros H. apply oeqv_bit; [exact H | reflexivity]. Qed.
Lemma oeqv_useRE2 a b : oeqv a b -> useRE2 a = useRE2 b. Proof. intros H. apply oeqv_bit; [exact H | reflexivity]. Qed.
Lemma oeqv_useU a b : oeqv a b -> useU a = useU b. Proof. intros H. apply oeqv_bit; [exact H | reflexivity]. Qed.
Lemma oeqv_useI a b : oeqv a b -> useI a = useI b. Proof. intros H. apply oeqv_bit; [exact H | reflexivity]. Qed.

Lemma oeqv_set_rtl o : oeqv (set_rtl o) o.
Proof. unfold oeqv, set_rtl, PL_RightToLeft. rewrite <- Z.lor_assoc, Z.lor_diag. reflexivity. Qed.

Lemma oeqv_clear_rtl o : oeqv (clear_rtl o) o.
Proof.
  unfold oeqv, clear_rtl, PL_RightToLeft. apply Z.bits_inj'. intros n Hn. rewrite !Z.lor_spec, Z.ldiff_spec.
  destruct (Z.testbit o n), (Z.testbit 64 n); reflexivity.
Qed.

Lemma lor_ldiff_comm a bb : Z.land bb 64 = 0 -> Z.lor (Z.ldiff a bb) 64 = Z.ldiff (Z.lor a 64) bb.
Proof.
  intros H. apply Z.bits_inj'. intros n Hn. rewrite Z.lor_spec, !Z.ldiff_spec, Z.lor_spec.
  assert (T : Z.testbit bb n && Z.testbit 64 n = false) by (rewrite <- Z.land_spec, H; apply Z.bits_0).
  destruct (Z.testbit a n), (Z.testbit bb n), (Z.testbit 64 n); cbn in *; congruence.
Qed.

Lemma scan_options_oeqv cs : Forall (fun c => match c with OBit b => Z.land b 64 = 0 | _ => True end) cs ->
  forall off a b, oeqv a b -> oeqv (scan_options off cs a) (scan_options off cs b).
Proof.
  induction 1 as [|c cs Hc Hcs IH]; intros off a b H; cbn [scan_options]; [exact H|].
  destruct c as [| |bb]; try (apply IH; exact H).
  apply IH. unfold oeqv in *. destruct off.
  - rewrite !lor_ldiff_comm by exact Hc. rewrite H. reflexivity.
  - rewrite <- !Z.lor_assoc, (Z.lor_comm bb 64), !Z.lor_assoc, H. reflexivity.
Qed.

Lemma scan_options_text_oeqv a b p : oeqv a b ->
  oeqv (fst (scan_options_text a p)) (fst (scan_options_text b p)) /\ snd (scan_options_text a p) = snd (scan_options_text b p).
Proof.
  intros H. unfold scan_options_text. pose proof (ochars_of_disjoint 64 (or_introl eq_refl) p) as D.
  destruct (ochars_of p) as [cs r]. cbn [fst snd] in *. split; [|reflexivity]. apply scan_options_oeqv; assumption.
Qed.


(* ---------------------------------------------------------------- characters the pre-scan steps over *)
Definition ptriv (x : bool) (c : Z) : bool := negb (zmem c [92; 91; 41; 40]) && negb (x && (c =? 35)).

Lemma ptriv_inv x c : ptriv x c = true ->
  (c =? 92) = false /\ (c =? 91) = false /\ (c =? 41) = false /\ (c =? 40) = false /\ (x && (c =? 35)) = false.
Proof. unfold ptriv, zmem. cbn [existsb]. intros H. destruct x; cbn [andb] in *; repeat split; lia. Qed.

Lemma ptriv_intro x c : c <> 92 -> c <> 91 -> c <> 41 -> c <> 40 -> (x = true -> c <> 35) -> ptriv x c = true.
Proof. unfold ptriv, zmem. cbn [existsb]. intros. destruct x; [specialize (H3 eq_refl)|]; lia. Qed.

Definition tskip (x : bool) (p q : list Z) : Prop := exists seg, p = seg ++ q /\ forallb (ptriv x) seg = true.

Lemma tskip_refl x p : tskip x p p.
Proof. exists []. split; reflexivity. Qed.
Lemma tskip_trans x p q r : tskip x p q -> tskip x q r -> tskip x p r.
Proof.
  intros [s1 [E1 F1]] [s2 [E2 F2]]. exists (s1 ++ s2). split; [subst; rewrite app_assoc; reflexivity|].
  rewrite forallb_app, F1, F2. reflexivity.
Qed.
Lemma tskip_cons x c p : ptriv x c = true -> tskip x (c :: p) p.
Proof. intros H. exists [c]. split; [reflexivity | cbn; rewrite H; reflexivity]. Qed.
Lemma tskip_tl x q c : hd_is q c = true -> ptriv x c = true -> tskip x q (tl q).
Proof.
  destruct q as [|d q']; [discriminate|]. cbn [hd_is tl]. intros H T. assert (d = c) by lia. subst d. apply tskip_cons. exact T.
Qed.

Lemma digit_ptriv x c : (c - 48 <? 0) || (9 <? c - 48) = false -> ptriv x c = true.
Proof. intros H. apply ptriv_intro; lia. Qed.

Lemma scan_decimal_tskip x p : forall i v q, scan_decimal i p = Ok (v, q) -> tskip x p q.
Proof.
  induction p as [|c p IH]; intros i v q H; cbn [scan_decimal] in H; [inversion H; apply tskip_refl|].
  destruct ((c - 48 <? 0) || (9 <? c - 48)) eqn:E; [inversion H; apply tskip_refl|].
  destruct ((214748364 <? i) || ((i =? 214748364) && (7 <? c - 48))); [discriminate|].
  eapply tskip_trans; [apply tskip_cons; apply digit_ptriv; exact E | eapply IH; exact H].
Qed.

Lemma decimal_tskip x p v q : decimal p = POk (v, q) -> tskip x p q.
Proof.
  unfold decimal, of_res. destruct (scan_decimal 0 p) as [[v' q']|c|w|] eqn:E; try discriminate.
  intros H. inversion H; subst. eapply scan_decimal_tskip. exact E.
Qed.

Section Agree.
Variable is_word_char : Z -> bool.
Variable to_lower : Z -> Z.
Variable simple_fold : Z -> Z.
Variable participates : Z -> bool.
Variable cat_in : Z -> Z -> bool.
Variable cat_name : list Z -> Z.

(* the oracle tie *)
Hypothesis HW : forall c, is_word_char c = true -> negb (zmem c [33; 35; 39; 40; 41; 45; 60; 61; 62; 91; 92]) = true.
Hypothesis HD : forall c, (49 <=? c) && (c <=? 57) = true -> is_word_char c = true.

Lemma word_ptriv x c : is_word_char c = true -> ptriv x c = true.
Proof. intros H. apply HW in H. unfold zmem in H. cbn [existsb] in H. apply ptriv_intro; intros; lia. Qed.

Lemma scan_word_tskip x p : tskip x p (snd (scan_word is_word_char p)).
Proof.
  induction p as [|c p IH]; cbn [scan_word]; [apply tskip_refl|].
  destruct (is_word_char c) eqn:E; [|apply tskip_refl].
  destruct (scan_word is_word_char p) as [w r]. cbn [snd] in *.
  eapply tskip_trans; [apply tskip_cons; apply word_ptriv; exact E | exact IH].
Qed.

Local Notation prescan_open := (prescan_open is_word_char).
Local Notation prescan_step := (prescan_step is_word_char to_lower simple_fold cat_in cat_name).
Local Notation prescan_loop := (prescan_loop is_word_char to_lower simple_fold cat_in cat_name).

Variable mco : bool.
Variable cstF : cst.

(* the pre-scan, run on from (st, p), ends in the final state *)
Definition reach (st : cst) (p : list Z) : Prop := exists f, prescan_loop f mco st p = POk cstF.

Lemma reach_cons st ch p1 :
  reach st (ch :: p1) <-> exists st' q, prescan_step mco st ch p1 = POk (st', q) /\ reach st' q.
Proof.
  split.
  - intros [f H]. destruct f as [|f]; [discriminate|]. cbn [Parser.prescan_loop] in H.
    destruct (prescan_step mco st ch p1) as [[st' q]|e q| | |]; cbn [pbind] in H; try discriminate.
    exists st', q. split; [reflexivity | exists f; exact H].
  - intros [st' [q [E [f H]]]]. exists (S f). cbn [Parser.prescan_loop]. rewrite E. cbn [pbind]. exact H.
Qed.

Lemma prescan_step_ptriv st c p1 : ptriv (useX (cs_o st)) c = true -> prescan_step mco st c p1 = POk (st, p1).
Proof.
  intros H. destruct (ptriv_inv _ _ H) as [H1 [H2 [H3 [H4 H5]]]]. unfold Parser.prescan_step. rewrite H1.
  destruct (c =? 35) eqn:E35.
  - rewrite andb_true_r in H5. rewrite H5. reflexivity.
  - rewrite H2, H3, H4. reflexivity.
Qed.

Lemma reach_tskip st p q : tskip (useX (cs_o st)) p q -> (reach st p <-> reach st q).
Proof.
  intros [seg [-> F]]. induction seg as [|c seg IH]; [reflexivity|].
  cbn [forallb] in F. apply andb_prop in F. destruct F as [F1 F2]. cbn [app].
  rewrite reach_cons. rewrite <- (IH F2). split.
  - intros [st' [q' [E R]]]. rewrite (prescan_step_ptriv st c (seg ++ q) F1) in E. inversion E; subst. exact R.
  - intros R. exists st, (seg ++ q). split; [apply prescan_step_ptriv; exact F1 | exact R].
Qed.

(* scanBlank of the main pass = steps of the pre-scan (a comment is one step: the same function) *)
Lemma space_ptriv x c : is_space c = true -> ptriv x c = true.
Proof.
  intros H. apply ptriv_intro; intros; intros ->; vm_compute in H; discriminate.
Qed.

Lemma set_cs_ign_same st : cs_ign st = false -> set_cs_ign st false = st.
Proof. destruct st; cbn. intros ->. reflexivity. Qed.

Lemma blank_reach st : cs_ign st = false -> forall p q, blank (useX (cs_o st)) BNorm p = POk q -> (reach st p <-> reach st q).
Proof.
  intros Hi. induction p as [|ch p' IH]; intros q H; cbn [blank] in H; [inversion H; reflexivity|].
  destruct (useX (cs_o st) && is_space ch) eqn:E1.
  { rewrite <- (IH q H). apply reach_tskip. apply tskip_cons. apply space_ptriv. apply andb_prop in E1. tauto. }
  assert (STEP : forall stq, prescan_step mco st ch p' = POk (st, stq) -> stq = q -> (reach st (ch :: p') <-> reach st q)).
  { intros stq E -> . rewrite reach_cons. split.
    - intros [st' [q' [E' R]]]. rewrite E in E'. inversion E'; subst. exact R.
    - intros R. exists st, q. auto. }
  destruct (useX (cs_o st) && (ch =? 35)) eqn:E2.
  { apply andb_prop in E2. destruct E2 as [X E35]. apply (STEP q); [|reflexivity].
    assert (ch = 35) by lia. subst ch.
    assert (B : scan_blank_full (cs_o st) (35 :: p') = POk q).
    { unfold scan_blank_full. cbn [blank]. rewrite E1, X. cbn [andb Z.eqb Pos.eqb]. rewrite X in H. exact H. }
    unfold Parser.prescan_step. cbn [Z.eqb Pos.eqb]. rewrite X, B. reflexivity. }
  destruct ((ch =? 40) && starts_qhash p') eqn:E3.
  { apply andb_prop in E3. destruct E3 as [E40 Q]. assert (ch = 40) by lia. subst ch. apply (STEP q); [|reflexivity].
    assert (B : scan_blank_full (cs_o st) (40 :: p') = POk q).
    { unfold scan_blank_full. cbn [blank]. rewrite E1, E2. cbn [andb Z.eqb Pos.eqb]. rewrite Q. exact H. }
    unfold Parser.prescan_step. cbn [Z.eqb Pos.eqb]. unfold Parser.prescan_open. rewrite Q, B. cbn [ignore_err0 pbind].
    rewrite set_cs_ign_same by exact Hi. reflexivity. }
  inversion H; subst. reflexivity.
Qed.


(* ---------------------------------------------------------------- scanCharSet: scan-only = full, on the cursor *)
(* whenever the full scan succeeds, the scan-only scan (any items, any subtraction so far, an option word equal
   up to RightToLeft) succeeds with the same cursor *)
Definition agr (rf rs : pr (csyn * list Z)) : Prop :=
  forall syn q, rf = POk (syn, q) -> exists syn', rs = POk (syn', q).

Lemma parse_property_oeqv a b p : oeqv a b -> parse_property is_word_char cat_name a p = parse_property is_word_char cat_name b p.
Proof. intros H. unfold parse_property. rewrite (oeqv_useE _ _ H), (oeqv_useU _ _ H). reflexivity. Qed.

Lemma char_escape_oeqv a b p : oeqv a b -> char_escape is_word_char a p = char_escape is_word_char b p.
Proof.
  intros H. unfold char_escape, pl_scan_char_escape, esc_err_rest, pl_scan_octal.
  rewrite (oeqv_useE _ _ H), (oeqv_useU _ _ H), (oeqv_useRE2 _ _ H). reflexivity.
Qed.

Section ClassAgree.
Variable recF recS : cs_rec.
Variable a b : Z.
Hypothesis Hab : oeqv a b.
Hypothesis HE : useE a = false.
Hypothesis HR : forall ng q cp ir fi its sb its' sb',
  agr (recF false ng q cp ir fi its sb) (recS true ng q cp ir fi its' sb').

Lemma HEb : useE b = false.
Proof. rewrite <- (oeqv_useE _ _ Hab). exact HE. Qed.

Lemma cs_next_agr ng q cp ir its sb its' sb' :
  agr (cs_next recF false ng q cp ir its sb) (cs_next recS true ng q cp ir its' sb').
Proof. apply HR. Qed.

Lemma cs_nested_agr q : agr (cs_nested recF false q) (cs_nested recS true q).
Proof. unfold cs_nested. destruct (caret q) as [ng2 q2]. apply HR. Qed.

(* the subtraction branch of both scanners *)
Lemma sub_branch_agr ng chprev q its its' sb' :
  agr (pdo r <- cs_nested recF false q ; cs_after_sub recF false ng chprev r its)
      (match cs_nested recS true q with
       | POk (_, q3) => cs_next recS true ng q3 chprev false its' sb'
       | PE _ q3 => cs_next recS true ng q3 chprev false its' sb'
       | PO => PO
       | PC w => PC w
       | PF => PF
       end).
Proof.
  intros syn qf H.
  destruct (cs_nested recF false q) as [[sb q3]|e q3| | |] eqn:EN; cbn [pbind] in H; try discriminate.
  destruct (cs_nested_agr q sb q3 EN) as [sb2 ES]. rewrite ES.
  unfold cs_after_sub in H.
  destruct (negb (match q3 with [] => true | _ => false end) && negb (hd_is q3 93)); [discriminate|].
  eapply cs_next_agr. exact H.
Qed.

Lemma cs_generic_agr ng chprev inrange first sub sub' ch tr q its its' :
  agr (cs_generic recF false ng chprev inrange first sub ch tr q its)
      (cs_generic recS true ng chprev inrange first sub' ch tr q its').
Proof.
  unfold cs_generic. destruct inrange.
  - destruct ((ch =? 91) && negb tr && negb first).
    + apply sub_branch_agr.
    + intros syn qf H. destruct (ch <? chprev); [discriminate|]. eapply cs_next_agr. exact H.
  - destruct (longer q 1 && hd_is q 45 && negb (nth_is 1 q 93)); [apply cs_next_agr|].
    destruct (longer q 0 && (ch =? 45) && negb tr && hd_is q 91 && negb first); [apply sub_branch_agr | apply cs_next_agr].
Qed.

Lemma cs_shorthand_agr ng chprev inrange sub sub' it q its its' :
  agr (cs_shorthand recF false a ng chprev inrange sub it q its)
      (cs_shorthand recS true b ng chprev inrange sub' it q its').
Proof.
  unfold cs_shorthand. intros syn qf H. destruct inrange.
  - rewrite HE in H. discriminate.
  - eapply cs_next_agr. exact H.
Qed.

Lemma cs_prop_agr ng chprev inrange sub sub' c2 p2 its its' :
  agr (cs_prop is_word_char cat_name recF false a ng chprev inrange sub c2 p2 its)
      (cs_prop is_word_char cat_name recS true b ng chprev inrange sub' c2 p2 its').
Proof.
  unfold cs_prop. rewrite HE, HEb. cbn [andb]. rewrite (parse_property_oeqv a b p2 Hab).
  intros syn qf H.
  destruct (parse_property is_word_char cat_name b p2) as [[id q]|e q| | |]; cbn [pbind] in *; try discriminate.
  destruct inrange; [discriminate|]. eapply cs_next_agr. exact H.
Qed.

Lemma cs_posix_agr ng chprev inrange first sub sub' p1 p2 its its' :
  agr (cs_posix is_word_char recF false a ng chprev inrange first sub p1 p2 its)
      (cs_posix is_word_char recS true b ng chprev inrange first sub' p1 p2 its').
Proof.
  unfold cs_posix.
  destruct (if longer p2 1 && hd_is p2 94 then (true, tl p2) else (false, p2)) as [ngp p3].
  destruct (scan_word is_word_char p3) as [nm p4]. cbn [negb andb pbind].
  rewrite <- (oeqv_useRE2 _ _ Hab).
  intros syn qf H.
  match type of H with pbind ?x _ = _ => destruct x as [itsF|e q| | |] end; cbn [pbind] in H; try discriminate.
  destruct (longer p4 1 && hd_is p4 58 && nth_is 1 p4 93).
  - destruct (useRE2 a); [eapply cs_next_agr; exact H | eapply cs_generic_agr; exact H].
  - eapply cs_generic_agr; exact H.
Qed.

Lemma cs_body_agr ng chprev inrange first sub sub' p its its' :
  agr (cs_body is_word_char cat_name recF false a ng chprev inrange first sub p its)
      (cs_body is_word_char cat_name recS true b ng chprev inrange first sub' p its').
Proof.
  unfold cs_body. destruct p as [|ch p1]; [intros syn qf H; discriminate|].
  destruct (ch =? 93).
  { rewrite HE, HEb, !orb_false_r. destruct (negb first).
    - intros syn qf H. inversion H; subst. eexists. reflexivity.
    - apply cs_generic_agr. }
  destruct (ch =? 92).
  { destruct p1 as [|c2 p2]; [apply cs_generic_agr|].
    destruct ((c2 =? 68) || (c2 =? 100)); [apply cs_shorthand_agr|].
    destruct ((c2 =? 83) || (c2 =? 115)); [apply cs_shorthand_agr|].
    destruct ((c2 =? 87) || (c2 =? 119)); [apply cs_shorthand_agr|].
    destruct ((c2 =? 112) || (c2 =? 80)); [apply cs_prop_agr|].
    destruct (c2 =? 45); [apply cs_next_agr|].
    rewrite (char_escape_oeqv a b (c2 :: p2) Hab). intros syn qf H.
    destruct (char_escape is_word_char b (c2 :: p2)) as [[c q]|e q| | |]; cbn [pbind] in *; try discriminate.
    eapply cs_generic_agr. exact H. }
  destruct ((ch =? 91) && hd_is p1 58 && negb inrange); [apply cs_posix_agr | apply cs_generic_agr].
Qed.

End ClassAgree.

Lemma cs_loop_agr fuel : forall a b, oeqv a b -> useE a = false ->
  forall ng p chprev inrange first its sb its' sb',
  agr (cs_loop is_word_char cat_name fuel false a ng p chprev inrange first its sb)
      (cs_loop is_word_char cat_name fuel true b ng p chprev inrange first its' sb').
Proof.
  induction fuel as [|f IH]; intros a b Hab HE ng p chprev inrange first its sb its' sb'; cbn [cs_loop].
  - intros syn q H. discriminate.
  - apply (cs_body_agr (fun so' ng' q cp ir fi its0 sb0 => cs_loop is_word_char cat_name f so' a ng' q cp ir fi its0 sb0)
                       (fun so' ng' q cp ir fi its0 sb0 => cs_loop is_word_char cat_name f so' b ng' q cp ir fi its0 sb0) a b Hab HE).
    intros ng0 q cp ir fi its0 sb0 its0' sb0'. apply IH; assumption.
Qed.

Lemma cs_scan_agr fuel a b p syn q : oeqv a b -> useE a = false ->
  cs_scan is_word_char cat_name fuel false a p = POk (syn, q) ->
  exists syn', cs_scan is_word_char cat_name fuel true b p = POk (syn', q).
Proof.
  intros Hab HE. unfold cs_scan. destruct (caret p) as [ng p0]. apply cs_loop_agr; assumption.
Qed.


(* ---------------------------------------------------------------- scanBackslash: scan-only = full, up to digits *)
(* "\18" with fewer than 18 groups: the full scan re-reads it as an octal escape and stops after "\1", the
   scan-only scan has read the whole number; the characters in between are digits *)
Definition bsagr (x : bool) (rf rs : pr (bres * list Z)) : Prop :=
  forall b0 q', rf = POk (b0, q') -> exists q, ignore_err rs = POk q /\ tskip x q' q.

Lemma octal_loop_digits e c : forall i p, exists ds, p = ds ++ snd (pl_octal_loop e c i p) /\ forallb ParseLit.is_digit ds = true.
Proof.
  induction c as [|c IH]; intros i p; cbn [pl_octal_loop]; [exists []; split; reflexivity|].
  destruct p as [|ch p']; [exists []; split; reflexivity|].
  destruct ((48 <=? ch) && (ch <=? 55)) eqn:E; [|exists []; split; reflexivity].
  destruct ((32 <=? i) && e); [exists []; split; reflexivity|].
  destruct (IH (i * 8 + (ch - 48)) p') as [ds [E1 E2]]. exists (ch :: ds). split; [cbn [app]; f_equal; exact E1|].
  cbn [forallb]. rewrite E2. unfold ParseLit.is_digit. lia.
Qed.

Lemma digits_then_decimal x ds : forall r i v q, forallb ParseLit.is_digit ds = true -> scan_decimal i (ds ++ r) = Ok (v, q) -> tskip x r q.
Proof.
  induction ds as [|d ds IH]; intros r i v q F H; [eapply scan_decimal_tskip; exact H|].
  cbn [forallb] in F. apply andb_prop in F. destruct F as [F1 F2]. cbn [app scan_decimal] in H.
  assert (D : (d - 48 <? 0) || (9 <? d - 48) = false) by (unfold ParseLit.is_digit in F1; lia). rewrite D in H.
  destruct ((214748364 <? i) || ((i =? 214748364) && (7 <? d - 48))); [discriminate|].
  eapply IH; eassumption.
Qed.

Section BsAgree.
Variable tbF tbS : captab.
Variable a b : Z.
Hypothesis Hab : oeqv a b.
Hypothesis HE : useE a = false.
Variable x : bool.

Local Notation char_code := (char_code is_word_char to_lower simple_fold cat_in).
Local Notation name_or_num := (name_or_num is_word_char to_lower simple_fold cat_in).
Local Notation basic_backslash := (basic_backslash is_word_char to_lower simple_fold cat_in).
Local Notation scan_backslash_full := (scan_backslash_full is_word_char to_lower simple_fold cat_in cat_name).

Lemma char_code_bsagr p : bsagr x (char_code false a p) (char_code true b p).
Proof.
  unfold Parser.char_code. rewrite (char_escape_oeqv a b p Hab). intros b0 q' H.
  destruct (char_escape is_word_char b p) as [[c q]|e q| | |]; cbn [pbind] in *; try discriminate.
  destruct (mk_node_ch simple_fold cat_in T_One a (if useI a then to_lower c else c)); cbn [pbind] in H; try discriminate.
  inversion H; subst. exists q'. split; [reflexivity | apply tskip_refl].
Qed.

Lemma name_or_num_bsagr k close p0 cur : bsagr x (name_or_num false tbF a k close p0 cur) (name_or_num true tbS b k close p0 cur).
Proof.
  unfold Parser.name_or_num. destruct cur as [|ch cur']; [intros b0 q' H; discriminate|].
  destruct (ParseLit.is_digit ch).
  - destruct (decimal (ch :: cur')) as [[capnum r1]|e q| | |]; cbn [pbind]; try (intros b0 q' H; discriminate).
    destruct (hd_is r1 close); [|apply char_code_bsagr].
    intros b0 q' H. destruct (ct_slot tbF capnum); [|discriminate]. inversion H; subst.
    exists (tl r1). split; [destruct (ct_slot tbS capnum); reflexivity | apply tskip_refl].
  - rewrite <- (oeqv_useE _ _ Hab), HE.
    destruct (scan_word is_word_char (ch :: cur')) as [nm r1].
    destruct (negb (match nm with [] => true | _ => false end) && hd_is r1 close).
    + intros b0 q' H. destruct (ct_name tbF nm); [|discriminate]. inversion H; subst.
      exists (tl r1). split; [reflexivity | apply tskip_refl].
    + destruct k; [intros b0 q' H; destruct (negb match nm with [] => true | _ => false end); discriminate | apply char_code_bsagr].
Qed.

Lemma digit_escape_digits o ch p1 c q : (49 <=? ch) && (ch <=? 57) = true ->
  char_escape is_word_char o (ch :: p1) = POk (c, q) -> exists ds, ch :: p1 = ds ++ q /\ forallb ParseLit.is_digit ds = true.
Proof.
  intros Hd H. unfold char_escape, of_res in H.
  destruct (pl_scan_char_escape is_word_char o (ch :: p1)) as [[c' q'']|e|w|] eqn:E; try discriminate. inversion H; subst. clear H.
  unfold pl_scan_char_escape in E.
  destruct ((48 <=? ch) && (ch <=? 55)) eqn:E1.
  - inversion E; subst. unfold pl_scan_octal in H0.
    destruct (octal_loop_digits (useE o) 3 0 (ch :: p1)) as [ds [D1 D2]].
    destruct (pl_octal_loop (useE o) 3 0 (ch :: p1)) as [i p']. cbn [snd] in D1. inversion H0; subst. exists ds. auto.
  - assert (C : ch = 56 \/ ch = 57) by lia.
    assert (Q : q = p1).
    { destruct C as [-> | ->]; cbn in E; destruct (negb (useE o) && negb (useRE2 o) && is_word_char _); inversion E; reflexivity. }
    subst q. exists [ch]. split; [reflexivity|]. cbn. unfold ParseLit.is_digit. lia.
Qed.

Lemma basic_backslash_bsagr p : bsagr x (basic_backslash false tbF a p) (basic_backslash true tbS b p).
Proof.
  unfold Parser.basic_backslash. destruct p as [|ch p1]; [intros b0 q' H; discriminate|].
  rewrite <- (oeqv_useE _ _ Hab), HE. cbn [negb orb andb].
  destruct (ch =? 107).
  { cbn [andb]. destruct p1 as [|c2 p2]; [intros b0 q' H; discriminate|].
    destruct (negb ((c2 =? 60) || (c2 =? 39))); [intros b0 q' H; discriminate|].
    destruct p2 as [|c3 p3]; [intros b0 q' H; discriminate|]. apply name_or_num_bsagr. }
  cbn [andb].
  destruct (((ch =? 60) || (ch =? 39)) && longer (ch :: p1) 1); [apply name_or_num_bsagr|].
  destruct ((49 <=? ch) && (ch <=? 57)) eqn:Ed; [|apply char_code_bsagr].
  unfold decimal, of_res. destruct (scan_decimal 0 (ch :: p1)) as [[capnum q]|e|w|] eqn:SD; cbn [pbind]; try (intros b0 q' H; discriminate).
  intros b0 q' H. exists q. split; [reflexivity|].
  destruct (ct_slot tbF capnum); [inversion H; subst; apply tskip_refl|].
  destruct (capnum <=? 9); [discriminate|]. cbn [andb] in H.
  unfold Parser.char_code in H.
  destruct (char_escape is_word_char a (ch :: p1)) as [[c q2]|e q2| | |] eqn:CE; cbn [pbind] in H; try discriminate.
  destruct (mk_node_ch simple_fold cat_in T_One a (if useI a then to_lower c else c)); cbn [pbind] in H; try discriminate.
  inversion H; subst. destruct (digit_escape_digits _ _ _ _ _ Ed CE) as [ds [D1 D2]].
  rewrite D1 in SD. eapply digits_then_decimal; eassumption.
Qed.

Lemma scan_backslash_full_bsagr p : bsagr x (scan_backslash_full false tbF a p) (scan_backslash_full true tbS b p).
Proof.
  unfold Parser.scan_backslash_full. destruct p as [|ch p1]; [intros b0 q' H; discriminate|].
  destruct (zmem ch pl_assert_letters).
  { intros b0 q' H. inversion H; subst. exists q'. split; [reflexivity | apply tskip_refl]. }
  destruct (zmem ch pl_class_letters).
  { intros b0 q' H. destruct (mk_node_set simple_fold cat_in T_Set a (class_of_letter a ch)); cbn [pbind] in H; try discriminate.
    inversion H; subst. exists q'. split; [reflexivity | apply tskip_refl]. }
  destruct ((ch =? 112) || (ch =? 80)); [|apply basic_backslash_bsagr].
  rewrite <- (oeqv_useE _ _ Hab), HE. cbn [andb].
  rewrite (parse_property_oeqv a b p1 Hab). intros b0 q' H.
  destruct (parse_property is_word_char cat_name b p1) as [[id q]|e q| | |]; cbn [pbind] in *; try discriminate.
  match type of H with pbind ?m _ = _ => destruct m end; cbn [pbind] in H; try discriminate.
  inversion H; subst. exists q'. split; [reflexivity | apply tskip_refl].
Qed.

End BsAgree.

End Agree.
