(* Proofs about Model/Parser.v, part 9: the capture pre-scan and the main pass agree on which parentheses capture.

   Both passes read the same text.  [Sim]: at the start of every round of scanRegex there is a state of the
   pre-scan, standing at the same place of the pattern, with the same option word up to the RightToLeft bit
   (which only the main pass changes, at lookarounds), the same option stack, the same ignoreNextParen and the
   same automatic capture number; and the pre-scan, run on from there, ends in the state whose tables the main
   pass was given.  Hence the number a plain "(" takes in the main pass is the number the pre-scan noted for
   it, a key of the capture table: the hypothesis [Hac] of Proofs/ParserOkMain.v.

   Every option word (under ECMAScript the pre-scan notes no names, so \\k is read the same way by both passes).
   Oracle tie: a word character is none of
   ! # ' ( ) - < = > [ \ and the ASCII digits are word characters. *)
From Coq Require Import ZifyBool.
From Verif Require Import Base.Prelude Gen.ParseLitGen Model.Escape Model.ParseLit Model.GroupMap Model.CharClass
  Model.Parser Proofs.ParseLitProofs Proofs.GMBase Proofs.ParserScan Proofs.ParserTree Proofs.ParserMain Proofs.ParserPre
  Proofs.ParserProofs Proofs.GMPrescan Proofs.ParserOkTree Proofs.ParserOkMain Proofs.ParserOkPre.

(* ---------------------------------------------------------------- option words up to RightToLeft *)
Definition oeqv (a b : Z) : Prop := Z.lor a 64 = Z.lor b 64.

Lemma oeqv_refl a : oeqv a a. Proof. reflexivity. Qed.
Lemma oeqv_sym a b : oeqv a b -> oeqv b a. Proof. unfold oeqv. congruence. Qed.
Lemma oeqv_trans a b c : oeqv a b -> oeqv b c -> oeqv a c. Proof. unfold oeqv. congruence. Qed.

Lemma oeqv_bit a b k : oeqv a b -> Z.land 64 k = 0 -> pl_bit a k = pl_bit b k.
Proof.
  intros H K. unfold pl_bit. rewrite <- (land_lor_disjoint a 64 k K), <- (land_lor_disjoint b 64 k K), H. reflexivity.
Qed.

Lemma oeqv_useX a b : oeqv a b -> useX a = useX b. Proof. intros H. apply oeqv_bit; [exact H | reflexivity]. Qed.
Lemma oeqv_useN a b : oeqv a b -> useN a = useN b. Proof. intros H. apply oeqv_bit; [exact H | reflexivity]. Qed.
Lemma oeqv_useE a b : oeqv a b -> useE a = useE b. Proof. intros H. apply oeqv_bit; [exact H | reflexivity]. Qed.
Lemma oeqv_useRE2 a b : oeqv a b -> useRE2 a = useRE2 b. Proof. intros H. apply oeqv_bit; [exact H | reflexivity]. Qed.
Lemma oeqv_useU a b : oeqv a b -> useU a = useU b. Proof. intros H. apply oeqv_bit; [exact H | reflexivity]. Qed.
Lemma oeqv_useI a b : oeqv a b -> useI a = useI b. Proof. intros H. apply oeqv_bit; [exact H | reflexivity]. Qed.

Lemma oeqv_set_rtl o : oeqv (set_rtl o) o.
Proof. unfold oeqv, set_rtl, PL_RightToLeft. rewrite <- Z.lor_assoc, Z.lor_diag. reflexivity. Qed.

Lemma oeqv_clear_rtl o : oeqv (clear_rtl o) o.
Proof.
  unfold oeqv, clear_rtl, PL_RightToLeft. apply Z.bits_inj'. intros n Hn. rewrite !Z.lor_spec, Z.ldiff_spec.
  destruct (Z.testbit o n), (Z.testbit 64 n); reflexivity.
Qed.

Lemma lor_ldiff_comm a bb : Z.land bb 64 = 0 -> Z.lor (Z.ldiff a bb) 64 = Z.ldiff (Z.lor a 64) bb.
Proof.
  intros H. apply Z.bits_inj'. intros n Hn. rewrite Z.lor_spec, !Z.ldiff_spec, Z.lor_spec.
  assert (T : Z.testbit bb n && Z.testbit 64 n = false) by (rewrite <- Z.land_spec, H; apply Z.bits_0).
  destruct (Z.testbit a n), (Z.testbit bb n), (Z.testbit 64 n); cbn in *; congruence.
Qed.

Lemma scan_options_oeqv cs : Forall (fun c => match c with OBit b => Z.land b 64 = 0 | _ => True end) cs ->
  forall off a b, oeqv a b -> oeqv (scan_options off cs a) (scan_options off cs b).
Proof.
  induction 1 as [|c cs Hc Hcs IH]; intros off a b H; cbn [scan_options]; [exact H|].
  destruct c as [| |bb]; try (apply IH; exact H).
  apply IH. unfold oeqv in *. destruct off.
  - rewrite !lor_ldiff_comm by exact Hc. rewrite H. reflexivity.
  - rewrite <- !Z.lor_assoc, (Z.lor_comm bb 64), !Z.lor_assoc, H. reflexivity.
Qed.

Lemma scan_options_text_oeqv a b p : oeqv a b ->
  oeqv (fst (scan_options_text a p)) (fst (scan_options_text b p)) /\ snd (scan_options_text a p) = snd (scan_options_text b p).
Proof.
  intros H. unfold scan_options_text. pose proof (ochars_of_disjoint 64 (or_introl eq_refl) p) as D.
  destruct (ochars_of p) as [cs r]. cbn [fst snd] in *. split; [|reflexivity]. apply scan_options_oeqv; assumption.
Qed.


(* ---------------------------------------------------------------- characters the pre-scan steps over *)
Definition ptriv (x : bool) (c : Z) : bool := negb (zmem c [92; 91; 41; 40]) && negb (x && (c =? 35)).

Lemma ptriv_inv x c : ptriv x c = true ->
  (c =? 92) = false /\ (c =? 91) = false /\ (c =? 41) = false /\ (c =? 40) = false /\ (x && (c =? 35)) = false.
Proof. unfold ptriv, zmem. cbn [existsb]. intros H. destruct x; cbn [andb] in *; repeat split; lia. Qed.

Lemma ptriv_intro x c : c <> 92 -> c <> 91 -> c <> 41 -> c <> 40 -> (x = true -> c <> 35) -> ptriv x c = true.
Proof. unfold ptriv, zmem. cbn [existsb]. intros. destruct x; [specialize (H3 eq_refl)|]; lia. Qed.

Definition tskip (x : bool) (p q : list Z) : Prop := exists seg, p = seg ++ q /\ forallb (ptriv x) seg = true.

Lemma tskip_refl x p : tskip x p p.
Proof. exists []. split; reflexivity. Qed.
Lemma tskip_trans x p q r : tskip x p q -> tskip x q r -> tskip x p r.
Proof.
  intros [s1 [E1 F1]] [s2 [E2 F2]]. exists (s1 ++ s2). split; [subst; rewrite app_assoc; reflexivity|].
  rewrite forallb_app, F1, F2. reflexivity.
Qed.
Lemma tskip_cons x c p : ptriv x c = true -> tskip x (c :: p) p.
Proof. intros H. exists [c]. split; [reflexivity | cbn; rewrite H; reflexivity]. Qed.
Lemma tskip_tl x q c : hd_is q c = true -> ptriv x c = true -> tskip x q (tl q).
Proof.
  destruct q as [|d q']; [discriminate|]. cbn [hd_is tl]. intros H T. assert (d = c) by lia. subst d. apply tskip_cons. exact T.
Qed.

Lemma digit_ptriv x c : (c - 48 <? 0) || (9 <? c - 48) = false -> ptriv x c = true.
Proof. intros H. apply ptriv_intro; lia. Qed.

Lemma scan_decimal_tskip x p : forall i v q, scan_decimal i p = Ok (v, q) -> tskip x p q.
Proof.
  induction p as [|c p IH]; intros i v q H; cbn [scan_decimal] in H; [inversion H; apply tskip_refl|].
  destruct ((c - 48 <? 0) || (9 <? c - 48)) eqn:E; [inversion H; apply tskip_refl|].
  destruct ((214748364 <? i) || ((i =? 214748364) && (7 <? c - 48))); [discriminate|].
  eapply tskip_trans; [apply tskip_cons; apply digit_ptriv; exact E | eapply IH; exact H].
Qed.

Lemma decimal_tskip x p v q : decimal p = POk (v, q) -> tskip x p q.
Proof.
  unfold decimal, of_res. destruct (scan_decimal 0 p) as [[v' q']|c|w|] eqn:E; try discriminate.
  intros H. inversion H; subst. eapply scan_decimal_tskip. exact E.
Qed.

Lemma scan_decimal_ge p : forall i v q, scan_decimal i p = Ok (v, q) -> 0 <= i -> i <= v.
Proof.
  induction p as [|c p IH]; intros i v q H Hi; cbn [scan_decimal] in H; [inversion H; lia|].
  destruct ((c - 48 <? 0) || (9 <? c - 48)) eqn:E; [inversion H; lia|].
  destruct ((214748364 <? i) || ((i =? 214748364) && (7 <? c - 48))); [discriminate|].
  specialize (IH _ _ _ H ltac:(lia)). lia.
Qed.

Lemma decimal_nonzero c2 cur' n q : (49 <=? c2) && (c2 <=? 57) = true -> decimal (c2 :: cur') = POk (n, q) -> (n =? 0) = false.
Proof.
  intros Hd H. unfold decimal, of_res in H. destruct (scan_decimal 0 (c2 :: cur')) as [[v' q'']|e|w|] eqn:E; try discriminate.
  inversion H; subst. cbn [scan_decimal] in E.
  destruct ((c2 - 48 <? 0) || (9 <? c2 - 48)) eqn:E1; [lia|].
  destruct ((214748364 <? 0) || ((0 =? 214748364) && (7 <? c2 - 48))); [discriminate|].
  apply scan_decimal_ge in E; lia.
Qed.

Section Agree.
Variable is_word_char : Z -> bool.
Variable to_lower : Z -> Z.
Variable simple_fold : Z -> Z.
Variable participates : Z -> bool.
Variable cat_in : Z -> Z -> bool.
Variable cat_name : list Z -> Z.

(* the oracle tie *)
Hypothesis HW : forall c, is_word_char c = true -> negb (zmem c [33; 35; 39; 40; 41; 45; 60; 61; 62; 63; 91; 92]) = true.
Hypothesis HD : forall c, (49 <=? c) && (c <=? 57) = true -> is_word_char c = true.

Lemma word_ptriv x c : is_word_char c = true -> ptriv x c = true.
Proof. intros H. apply HW in H. unfold zmem in H. cbn [existsb] in H. apply ptriv_intro; intros; lia. Qed.

Lemma scan_word_tskip x p : tskip x p (snd (scan_word is_word_char p)).
Proof.
  induction p as [|c p IH]; cbn [scan_word]; [apply tskip_refl|].
  destruct (is_word_char c) eqn:E; [|apply tskip_refl].
  destruct (scan_word is_word_char p) as [w r]. cbn [snd] in *.
  eapply tskip_trans; [apply tskip_cons; apply word_ptriv; exact E | exact IH].
Qed.

Local Notation prescan_open := (prescan_open is_word_char).
Local Notation prescan_step := (prescan_step is_word_char to_lower simple_fold cat_in cat_name).
Local Notation prescan_loop := (prescan_loop is_word_char to_lower simple_fold cat_in cat_name).

Variable mco : bool.
Variable cstF : cst.

(* the pre-scan, run on from (st, p), ends in the final state *)
Definition reach (st : cst) (p : list Z) : Prop := exists f, prescan_loop f mco st p = POk cstF.

Lemma reach_cons st ch p1 :
  reach st (ch :: p1) <-> exists st' q, prescan_step mco st ch p1 = POk (st', q) /\ reach st' q.
Proof.
  split.
  - intros [f H]. destruct f as [|f]; [discriminate|]. cbn [Parser.prescan_loop] in H.
    destruct (prescan_step mco st ch p1) as [[st' q]|e q| | |]; cbn [pbind] in H; try discriminate.
    exists st', q. split; [reflexivity | exists f; exact H].
  - intros [st' [q [E [f H]]]]. exists (S f). cbn [Parser.prescan_loop]. rewrite E. cbn [pbind]. exact H.
Qed.

Lemma prescan_step_ptriv st c p1 : ptriv (useX (cs_o st)) c = true -> prescan_step mco st c p1 = POk (st, p1).
Proof.
  intros H. destruct (ptriv_inv _ _ H) as [H1 [H2 [H3 [H4 H5]]]]. unfold Parser.prescan_step. rewrite H1.
  destruct (c =? 35) eqn:E35.
  - rewrite andb_true_r in H5. rewrite H5. reflexivity.
  - rewrite H2, H3, H4. reflexivity.
Qed.

Lemma reach_tskip st p q : tskip (useX (cs_o st)) p q -> (reach st p <-> reach st q).
Proof.
  intros [seg [-> F]]. induction seg as [|c seg IH]; [reflexivity|].
  cbn [forallb] in F. apply andb_prop in F. destruct F as [F1 F2]. cbn [app].
  rewrite reach_cons. rewrite <- (IH F2). split.
  - intros [st' [q' [E R]]]. rewrite (prescan_step_ptriv st c (seg ++ q) F1) in E. inversion E; subst. exact R.
  - intros R. exists st, (seg ++ q). split; [apply prescan_step_ptriv; exact F1 | exact R].
Qed.

(* scanBlank of the main pass = steps of the pre-scan (a comment is one step: the same function) *)
Lemma space_ptriv x c : is_space c = true -> ptriv x c = true.
Proof.
  intros H. apply ptriv_intro; intros; intros ->; vm_compute in H; discriminate.
Qed.

Lemma set_cs_ign_same st : cs_ign st = false -> set_cs_ign st false = st.
Proof. destruct st; cbn. intros ->. reflexivity. Qed.

Lemma blank_reach st : cs_ign st = false -> forall p q, blank (useX (cs_o st)) BNorm p = POk q -> (reach st p <-> reach st q).
Proof.
  intros Hi. induction p as [|ch p' IH]; intros q H; cbn [blank] in H; [inversion H; reflexivity|].
  destruct (useX (cs_o st) && is_space ch) eqn:E1.
  { rewrite <- (IH q H). apply reach_tskip. apply tskip_cons. apply space_ptriv. apply andb_prop in E1. tauto. }
  assert (STEP : forall stq, prescan_step mco st ch p' = POk (st, stq) -> stq = q -> (reach st (ch :: p') <-> reach st q)).
  { intros stq E -> . rewrite reach_cons. split.
    - intros [st' [q' [E' R]]]. rewrite E in E'. inversion E'; subst. exact R.
    - intros R. exists st, q. auto. }
  destruct (useX (cs_o st) && (ch =? 35)) eqn:E2.
  { apply andb_prop in E2. destruct E2 as [X E35]. apply (STEP q); [|reflexivity].
    assert (ch = 35) by lia. subst ch.
    assert (B : scan_blank_full (cs_o st) (35 :: p') = POk q).
    { unfold scan_blank_full. cbn [blank]. rewrite E1, X. cbn [andb Z.eqb Pos.eqb]. rewrite X in H. exact H. }
    unfold Parser.prescan_step. cbn [Z.eqb Pos.eqb]. rewrite X, B. reflexivity. }
  destruct ((ch =? 40) && starts_qhash p') eqn:E3.
  { apply andb_prop in E3. destruct E3 as [E40 Q]. assert (ch = 40) by lia. subst ch. apply (STEP q); [|reflexivity].
    assert (B : scan_blank_full (cs_o st) (40 :: p') = POk q).
    { unfold scan_blank_full. cbn [blank]. rewrite E1, E2. cbn [andb Z.eqb Pos.eqb]. rewrite Q. exact H. }
    unfold Parser.prescan_step. cbn [Z.eqb Pos.eqb]. unfold Parser.prescan_open. rewrite Q, B. cbn [ignore_err0 pbind].
    rewrite set_cs_ign_same by exact Hi. reflexivity. }
  inversion H; subst. reflexivity.
Qed.


(* ---------------------------------------------------------------- scanCharSet: scan-only = full, on the cursor *)
(* whenever the full scan succeeds, the scan-only scan (any items, any subtraction so far, an option word equal
   up to RightToLeft) succeeds with the same cursor *)
Definition agr (rf rs : pr (csyn * list Z)) : Prop :=
  forall syn q, rf = POk (syn, q) -> exists syn', rs = POk (syn', q).

Lemma parse_property_oeqv a b p : oeqv a b -> parse_property is_word_char cat_name a p = parse_property is_word_char cat_name b p.
Proof. intros H. unfold parse_property. rewrite (oeqv_useE _ _ H), (oeqv_useU _ _ H). reflexivity. Qed.

Lemma char_escape_oeqv a b p : oeqv a b -> char_escape is_word_char a p = char_escape is_word_char b p.
Proof.
  intros H. unfold char_escape, pl_scan_char_escape, esc_err_rest, pl_scan_octal.
  rewrite (oeqv_useE _ _ H), (oeqv_useU _ _ H), (oeqv_useRE2 _ _ H). reflexivity.
Qed.

Section ClassAgree.
Variable recF recS : cs_rec.
Variable a b : Z.
Hypothesis Hab : oeqv a b.
Hypothesis HR : forall ng q cp ir fi its sb its' sb',
  agr (recF false ng q cp ir fi its sb) (recS true ng q cp ir fi its' sb').

Lemma cs_next_agr ng q cp ir its sb its' sb' :
  agr (cs_next recF false ng q cp ir its sb) (cs_next recS true ng q cp ir its' sb').
Proof. apply HR. Qed.

Lemma cs_nested_agr q : agr (cs_nested recF false q) (cs_nested recS true q).
Proof. unfold cs_nested. destruct (caret q) as [ng2 q2]. apply HR. Qed.

(* the subtraction branch of both scanners *)
Lemma sub_branch_agr ng chprev q its its' sb' :
  agr (pdo r <- cs_nested recF false q ; cs_after_sub recF false ng chprev r its)
      (match cs_nested recS true q with
       | POk (_, q3) => cs_next recS true ng q3 chprev false its' sb'
       | PE _ q3 => cs_next recS true ng q3 chprev false its' sb'
       | PO => PO
       | PC w => PC w
       | PF => PF
       end).
Proof.
  intros syn qf H.
  destruct (cs_nested recF false q) as [[sb q3]|e q3| | |] eqn:EN; cbn [pbind] in H; try discriminate.
  destruct (cs_nested_agr q sb q3 EN) as [sb2 ES]. rewrite ES.
  unfold cs_after_sub in H.
  destruct (negb (match q3 with [] => true | _ => false end) && negb (hd_is q3 93)); [discriminate|].
  eapply cs_next_agr. exact H.
Qed.

Lemma cs_generic_agr ng chprev inrange first sub sub' ch tr q its its' :
  agr (cs_generic recF false ng chprev inrange first sub ch tr q its)
      (cs_generic recS true ng chprev inrange first sub' ch tr q its').
Proof.
  unfold cs_generic. destruct inrange.
  - destruct ((ch =? 91) && negb tr && negb first).
    + apply sub_branch_agr.
    + intros syn qf H. destruct (ch <? chprev); [discriminate|]. eapply cs_next_agr. exact H.
  - destruct (longer q 1 && hd_is q 45 && negb (nth_is 1 q 93)); [apply cs_next_agr|].
    destruct (longer q 0 && (ch =? 45) && negb tr && hd_is q 91 && negb first); [apply sub_branch_agr | apply cs_next_agr].
Qed.

Lemma cs_shorthand_agr ng chprev inrange sub sub' it q its its' :
  agr (cs_shorthand recF false a ng chprev inrange sub it q its)
      (cs_shorthand recS true b ng chprev inrange sub' it q its').
Proof.
  unfold cs_shorthand. intros syn qf H. destruct inrange.
  - destruct (negb (useE a)); [discriminate|]. eapply cs_next_agr. exact H.
  - eapply cs_next_agr. exact H.
Qed.

Lemma cs_prop_agr ng chprev inrange sub sub' c2 p2 its its' :
  agr (cs_prop is_word_char cat_name recF false a ng chprev inrange sub c2 p2 its)
      (cs_prop is_word_char cat_name recS true b ng chprev inrange sub' c2 p2 its').
Proof.
  unfold cs_prop. rewrite <- (oeqv_useE _ _ Hab), <- (oeqv_useU _ _ Hab).
  destruct (useE a && negb (useU a) && (c2 =? 80) && inrange); [intros syn qf H; discriminate|].
  destruct (useE a && negb (useU a) && (c2 =? 112)).
  - intros syn qf H. destruct inrange.
    + destruct (112 <? chprev); [discriminate|]. eapply cs_next_agr. exact H.
    + destruct (longer p2 1 && hd_is p2 45 && negb (nth_is 1 p2 93)).
      * cbv zeta in H |- *. destruct (nth 1 p2 0 <? 112); [discriminate|]. eapply cs_next_agr. exact H.
      * eapply cs_next_agr. exact H.
  - rewrite (parse_property_oeqv a b p2 Hab). intros syn qf H.
    destruct (parse_property is_word_char cat_name b p2) as [[id q]|e q| | |]; cbn [pbind] in *; try discriminate.
    destruct inrange; [discriminate|]. eapply cs_next_agr. exact H.
Qed.

Lemma cs_posix_agr ng chprev inrange first sub sub' p1 p2 its its' :
  agr (cs_posix is_word_char recF false a ng chprev inrange first sub p1 p2 its)
      (cs_posix is_word_char recS true b ng chprev inrange first sub' p1 p2 its').
Proof.
  unfold cs_posix.
  destruct (if longer p2 1 && hd_is p2 94 then (true, tl p2) else (false, p2)) as [ngp p3].
  destruct (scan_word is_word_char p3) as [nm p4]. cbn [negb andb pbind].
  rewrite <- (oeqv_useRE2 _ _ Hab).
  destruct (longer p4 1 && hd_is p4 58 && nth_is 1 p4 93); [|apply cs_generic_agr].
  destruct (useRE2 a); [|apply cs_generic_agr].
  intros syn qf H.
  match type of H with pbind ?x _ = _ => destruct x as [itsF|e q| | |] end; cbn [pbind] in H; try discriminate.
  eapply cs_next_agr. exact H.
Qed.

Lemma cs_body_agr ng chprev inrange first sub sub' p its its' :
  agr (cs_body is_word_char cat_name recF false a ng chprev inrange first sub p its)
      (cs_body is_word_char cat_name recS true b ng chprev inrange first sub' p its').
Proof.
  unfold cs_body. destruct p as [|ch p1]; [intros syn qf H; discriminate|].
  destruct (ch =? 93).
  { rewrite <- (oeqv_useE _ _ Hab). destruct (negb first || useE a).
    - intros syn qf H. inversion H; subst. eexists. reflexivity.
    - apply cs_generic_agr. }
  destruct (ch =? 92).
  { destruct p1 as [|c2 p2]; [apply cs_generic_agr|].
    destruct ((c2 =? 68) || (c2 =? 100)); [apply cs_shorthand_agr|].
    destruct ((c2 =? 83) || (c2 =? 115)); [apply cs_shorthand_agr|].
    destruct ((c2 =? 87) || (c2 =? 119)); [apply cs_shorthand_agr|].
    destruct ((c2 =? 112) || (c2 =? 80)); [apply cs_prop_agr|].
    destruct (c2 =? 45); [apply cs_next_agr|].
    rewrite (char_escape_oeqv a b (c2 :: p2) Hab). intros syn qf H.
    destruct (char_escape is_word_char b (c2 :: p2)) as [[c q]|e q| | |]; cbn [pbind] in *; try discriminate.
    eapply cs_generic_agr. exact H. }
  destruct ((ch =? 91) && hd_is p1 58 && negb inrange); [apply cs_posix_agr | apply cs_generic_agr].
Qed.

End ClassAgree.

Lemma cs_loop_agr fuel : forall a b, oeqv a b ->
  forall ng p chprev inrange first its sb its' sb',
  agr (cs_loop is_word_char cat_name fuel false a ng p chprev inrange first its sb)
      (cs_loop is_word_char cat_name fuel true b ng p chprev inrange first its' sb').
Proof.
  induction fuel as [|f IH]; intros a b Hab ng p chprev inrange first its sb its' sb'; cbn [cs_loop].
  - intros syn q H. discriminate.
  - apply (cs_body_agr (fun so' ng' q cp ir fi its0 sb0 => cs_loop is_word_char cat_name f so' a ng' q cp ir fi its0 sb0)
                       (fun so' ng' q cp ir fi its0 sb0 => cs_loop is_word_char cat_name f so' b ng' q cp ir fi its0 sb0) a b Hab).
    intros ng0 q cp ir fi its0 sb0 its0' sb0'. apply IH; assumption.
Qed.

Lemma cs_scan_agr fuel a b p syn q : oeqv a b ->
  cs_scan is_word_char cat_name fuel false a p = POk (syn, q) ->
  exists syn', cs_scan is_word_char cat_name fuel true b p = POk (syn', q).
Proof.
  intros Hab. unfold cs_scan. destruct (caret p) as [ng p0]. apply cs_loop_agr; assumption.
Qed.


(* ---------------------------------------------------------------- scanBackslash: scan-only = full, up to digits *)
(* "\18" with fewer than 18 groups: the full scan re-reads it as an octal escape and stops after "\1", the
   scan-only scan has read the whole number; the characters in between are digits *)
Definition bsagr (x : bool) (rf rs : pr (bres * list Z)) : Prop :=
  forall b0 q', rf = POk (b0, q') -> exists q, ignore_err rs = POk q /\ tskip x q' q.

Lemma octal_loop_digits e c : forall i p, exists ds, p = ds ++ snd (pl_octal_loop e c i p) /\ forallb ParseLit.is_digit ds = true.
Proof.
  induction c as [|c IH]; intros i p; cbn [pl_octal_loop]; [exists []; split; reflexivity|].
  destruct p as [|ch p']; [exists []; split; reflexivity|].
  destruct ((48 <=? ch) && (ch <=? 55)) eqn:E; [|exists []; split; reflexivity].
  destruct ((32 <=? i) && e); [exists []; split; reflexivity|].
  destruct (IH (i * 8 + (ch - 48)) p') as [ds [E1 E2]]. exists (ch :: ds). split; [cbn [app]; f_equal; exact E1|].
  cbn [forallb]. rewrite E2. unfold ParseLit.is_digit. lia.
Qed.

Lemma digits_then_decimal x ds : forall r i v q, forallb ParseLit.is_digit ds = true -> scan_decimal i (ds ++ r) = Ok (v, q) -> tskip x r q.
Proof.
  induction ds as [|d ds IH]; intros r i v q F H; [eapply scan_decimal_tskip; exact H|].
  cbn [forallb] in F. apply andb_prop in F. destruct F as [F1 F2]. cbn [app scan_decimal] in H.
  assert (D : (d - 48 <? 0) || (9 <? d - 48) = false) by (unfold ParseLit.is_digit in F1; lia). rewrite D in H.
  destruct ((214748364 <? i) || ((i =? 214748364) && (7 <? d - 48))); [discriminate|].
  eapply IH; eassumption.
Qed.

Section BsAgree.
Variable tbF tbS : captab.
Variable a b : Z.
Hypothesis Hab : oeqv a b.
(* under ECMAScript "\k" is a back-reference only when the table has names: both tables agree on that *)
Hypothesis HN : useE a = true -> ct_named tbF = ct_named tbS.
Variable x : bool.

Local Notation char_code := (char_code is_word_char to_lower simple_fold cat_in).
Local Notation name_or_num := (name_or_num is_word_char to_lower simple_fold cat_in).
Local Notation basic_backslash := (basic_backslash is_word_char to_lower simple_fold cat_in).
Local Notation scan_backslash_full := (scan_backslash_full is_word_char to_lower simple_fold cat_in cat_name).

Lemma char_code_bsagr p : bsagr x (char_code false a p) (char_code true b p).
Proof.
  unfold Parser.char_code. rewrite (char_escape_oeqv a b p Hab). intros b0 q' H.
  destruct (char_escape is_word_char b p) as [[c q]|e q| | |]; cbn [pbind] in *; try discriminate.
  destruct (mk_node_ch simple_fold cat_in T_One a (if useI a then to_lower c else c)); cbn [pbind] in H; try discriminate.
  inversion H; subst. exists q'. split; [reflexivity | apply tskip_refl].
Qed.

Lemma name_or_num_bsagr k close p0 cur : bsagr x (name_or_num false tbF a k close p0 cur) (name_or_num true tbS b k close p0 cur).
Proof.
  unfold Parser.name_or_num. destruct cur as [|ch cur']; [intros b0 q' H; discriminate|].
  destruct (ParseLit.is_digit ch).
  - destruct (decimal (ch :: cur')) as [[capnum r1]|e q| | |]; cbn [pbind]; try (intros b0 q' H; discriminate).
    destruct (hd_is r1 close); [|apply char_code_bsagr].
    intros b0 q' H. destruct (ct_slot tbF capnum); [|discriminate]. inversion H; subst.
    exists (tl r1). split; [destruct (ct_slot tbS capnum); reflexivity | apply tskip_refl].
  - rewrite <- (oeqv_useE _ _ Hab). destruct (useE a); [intros b0 q' H; discriminate|].
    destruct (scan_word is_word_char (ch :: cur')) as [nm r1].
    destruct (negb (match nm with [] => true | _ => false end) && hd_is r1 close).
    + intros b0 q' H. destruct (ct_name tbF nm); [|discriminate]. inversion H; subst.
      exists (tl r1). split; [reflexivity | apply tskip_refl].
    + destruct k; [intros b0 q' H; destruct (negb match nm with [] => true | _ => false end); discriminate | apply char_code_bsagr].
Qed.

Lemma digit_escape_digits o ch p1 c q : (49 <=? ch) && (ch <=? 57) = true ->
  char_escape is_word_char o (ch :: p1) = POk (c, q) -> exists ds, ch :: p1 = ds ++ q /\ forallb ParseLit.is_digit ds = true.
Proof.
  intros Hd H. unfold char_escape, of_res in H.
  destruct (pl_scan_char_escape is_word_char o (ch :: p1)) as [[c' q'']|e|w|] eqn:E; try discriminate. inversion H; subst. clear H.
  unfold pl_scan_char_escape in E.
  destruct ((48 <=? ch) && (ch <=? 55)) eqn:E1.
  - inversion E; subst. unfold pl_scan_octal in H0.
    destruct (octal_loop_digits (useE o) 3 0 (ch :: p1)) as [ds [D1 D2]].
    destruct (pl_octal_loop (useE o) 3 0 (ch :: p1)) as [i p']. cbn [snd] in D1. inversion H0; subst. exists ds. auto.
  - assert (C : ch = 56 \/ ch = 57) by lia.
    assert (Q : q = p1).
    { destruct C as [-> | ->]; cbn in E; destruct (negb (useE o) && negb (useRE2 o) && is_word_char _); inversion E; reflexivity. }
    subst q. exists [ch]. split; [reflexivity|]. cbn. unfold ParseLit.is_digit. lia.
Qed.

Lemma basic_backslash_bsagr p : bsagr x (basic_backslash false tbF a p) (basic_backslash true tbS b p).
Proof.
  unfold Parser.basic_backslash. destruct p as [|ch p1]; [intros b0 q' H; discriminate|].
  rewrite <- (oeqv_useE _ _ Hab), <- (oeqv_useU _ _ Hab).
  assert (KS : negb (useE a) || useU a || ct_named tbS = negb (useE a) || useU a || ct_named tbF).
  { destruct (useE a) eqn:EE; [rewrite (HN eq_refl); reflexivity | reflexivity]. }
  rewrite KS.
  destruct ((ch =? 107) && (negb (useE a) || useU a || ct_named tbF)).
  { destruct p1 as [|c2 p2]; [intros b0 q' H; discriminate|].
    destruct (negb ((c2 =? 60) || (negb (useE a) && (c2 =? 39)))); [intros b0 q' H; discriminate|].
    destruct p2 as [|c3 p3]; [intros b0 q' H; discriminate|]. apply name_or_num_bsagr. }
  destruct (negb (useE a) && ((ch =? 60) || (ch =? 39)) && longer (ch :: p1) 1); [apply name_or_num_bsagr|].
  destruct ((49 <=? ch) && (ch <=? 57)) eqn:Ed; [|apply char_code_bsagr].
  unfold decimal, of_res. destruct (scan_decimal 0 (ch :: p1)) as [[capnum q]|e|w|] eqn:SD; cbn [pbind]; try (intros b0 q' H; discriminate).
  intros b0 q' H. exists q. split; [reflexivity|].
  destruct (ct_slot tbF capnum); [inversion H; subst; apply tskip_refl|].
  destruct ((capnum <=? 9) && negb (useE a)); [discriminate|].
  unfold Parser.char_code in H.
  destruct (char_escape is_word_char a (ch :: p1)) as [[c q2]|e q2| | |] eqn:CE; cbn [pbind] in H; try discriminate.
  destruct (mk_node_ch simple_fold cat_in T_One a (if useI a then to_lower c else c)); cbn [pbind] in H; try discriminate.
  inversion H; subst. destruct (digit_escape_digits _ _ _ _ _ Ed CE) as [ds [D1 D2]].
  rewrite D1 in SD. eapply digits_then_decimal; eassumption.
Qed.

Lemma scan_backslash_full_bsagr p : bsagr x (scan_backslash_full false tbF a p) (scan_backslash_full true tbS b p).
Proof.
  unfold Parser.scan_backslash_full. destruct p as [|ch p1]; [intros b0 q' H; discriminate|].
  destruct (zmem ch pl_assert_letters).
  { intros b0 q' H. inversion H; subst. exists q'. split; [reflexivity | apply tskip_refl]. }
  destruct (zmem ch pl_class_letters).
  { intros b0 q' H. destruct (mk_node_set simple_fold cat_in T_Set a (class_of_letter a ch)); cbn [pbind] in H; try discriminate.
    inversion H; subst. exists q'. split; [reflexivity | apply tskip_refl]. }
  destruct ((ch =? 112) || (ch =? 80)); [|apply basic_backslash_bsagr].
  rewrite <- (oeqv_useE _ _ Hab), <- (oeqv_useU _ _ Hab). destruct (useE a && negb (useU a)); [apply basic_backslash_bsagr|].
  rewrite (parse_property_oeqv a b p1 Hab). intros b0 q' H.
  destruct (parse_property is_word_char cat_name b p1) as [[id q]|e q| | |]; cbn [pbind] in *; try discriminate.
  match type of H with pbind ?m _ = _ => destruct m end; cbn [pbind] in H; try discriminate.
  inversion H; subst. exists q'. split; [reflexivity | apply tskip_refl].
Qed.

End BsAgree.


(* ---------------------------------------------------------------- what only grows along the pre-scan *)
Lemma reach_mono st p : reach st p ->
  incl (c_caps (cs_c st)) (c_caps (cs_c cstF)) /\
  (forall s v, aget s (names_of (cs_c st)) = Some v -> aget s (names_of (cs_c cstF)) = Some v).
Proof.
  intros [f H].
  apply (prescan_loop_gen is_word_char to_lower simple_fold cat_in cat_name mco
           (fun c => incl (c_caps (cs_c st)) (c_caps c) /\
                     (forall s v, aget s (names_of (cs_c st)) = Some v -> aget s (names_of c) = Some v))
           ) with (fuel := f) (st := st) (p := p); [| | | split; [apply incl_refl | auto] | exact H].
  - intros c [I N]. unfold note_auto. split.
    + intros k Hk. apply note_slot_caps. right. cbn. apply I. exact Hk.
    + destruct (note_slot_fields (c_autocap c) (mkC (c_autocap c + 1) (c_caps c) (c_capcount c) (c_captop c) (c_capnames c) (c_capnamelist c))) as [_ [F2 _]].
      unfold names_of in *. rewrite F2. cbn. exact N.
  - intros _ c i [I N] _. split.
    + intros k Hk. apply note_slot_caps. right. apply I. exact Hk.
    + destruct (note_slot_fields i c) as [_ [F2 _]]. unfold names_of in *. rewrite F2. exact N.
  - intros o s c c' [I N] E. unfold note_name_pr in E.
    destruct (note_name mco (useE o) s c) as [c2| | |] eqn:NN; try discriminate. inversion E; subst c2. clear E.
    unfold note_name in NN. destruct (aget s (names_of c)) as [v0|] eqn:Eg.
    + destruct (useE o); [discriminate|]. inversion NN; subst. cbn. split; [exact I|].
      intros s0 v Hs. specialize (N s0 v Hs). unfold names_of in *. cbn. destruct (c_capnames c); [exact N | discriminate].
    + assert (NEW : forall s0 v w, aget s0 (names_of (cs_c st)) = Some v -> aget s0 (aset s w (names_of c)) = Some v).
      { intros s0 v w Hs. specialize (N s0 v Hs). rewrite aget_aset_other; [exact N|]. intros ->. congruence. }
      destruct mco; inversion NN; subst; clear NN.
      * split.
        -- intros k Hk. cbn. apply note_slot_caps. right. cbn. apply I. exact Hk.
        -- match goal with |- context [note_slot ?i ?cc] => destruct (note_slot_fields i cc) as [_ [F2 _]] end.
           unfold names_of at 2. cbn. rewrite F2. cbn. intros s0 v Hs. apply NEW. exact Hs.
      * split; [exact I|]. unfold names_of at 2. cbn. intros s0 v Hs. apply NEW. exact Hs.
Qed.


(* ---------------------------------------------------------------- the literal run, quantifiers *)
Lemma nonstopper_ptriv o c : is_stopper o c = false -> ptriv (useX o) c = true.
Proof.
  unfold is_stopper. intros H. apply ptriv_intro; [intros -> | intros -> | intros -> | intros -> | intros X ->];
    destruct (useX o); try discriminate; vm_compute in H; discriminate.
Qed.

Lemma take_run_tskip o p : forall run p1, take_run o p = (run, p1) -> tskip (useX o) p p1.
Proof.
  induction p as [|ch p' IH]; intros run p1 H; cbn [take_run] in H; [inversion H; apply tskip_refl|].
  destruct (is_stopper o ch && (negb (ch =? 123) || is_true_quantifier (ch :: p'))) eqn:E; [inversion H; apply tskip_refl|].
  destruct (take_run o p') as [r rest] eqn:Et. inversion H; subst.
  eapply tskip_trans; [apply tskip_cons | eapply IH; reflexivity].
  destruct (is_stopper o ch) eqn:Es; [|apply nonstopper_ptriv; exact Es].
  cbn [andb] in E. assert (ch = 123) by lia. subst ch. apply ptriv_intro; intros; lia.
Qed.

Definition ctl (st : mst) : Z * list Z * bool * Z := (ms_o st, ms_os st, ms_ign st, ms_autocap st).

Local Notation add_concatenate := (add_concatenate cat_in).
Local Notation add_concatenate3 := (add_concatenate3 cat_in).
Local Notation scan_quantifier := (scan_quantifier cat_in).
Local Notation after_unit := (after_unit cat_in).

Lemma add_concatenate_ctl st st' : add_concatenate st = POk st' -> ctl st' = ctl st.
Proof.
  unfold Parser.add_concatenate. destruct (ms_unit st) as [u|]; [|discriminate].
  destruct (add_child cat_in (ms_concat st) u); cbn [of_res pbind]; try discriminate. intros H. inversion H; reflexivity.
Qed.

Lemma add_concatenate3_ctl st lazy mn mx st' : add_concatenate3 st lazy mn mx = POk st' -> ctl st' = ctl st.
Proof.
  unfold Parser.add_concatenate3. destruct (ms_unit st) as [u|]; [|discriminate].
  destruct (make_quantifier cat_in u lazy mn mx) as [qq| | |]; cbn [of_res pbind]; try discriminate.
  destruct (add_child cat_in (ms_concat st) qq); cbn [of_res pbind]; try discriminate. intros H. inversion H; reflexivity.
Qed.

Lemma brace_counts_tskip x p1 mn mx q : brace_counts p1 = POk (Some (mn, mx, q)) -> tskip x p1 q.
Proof.
  unfold brace_counts. intros H.
  destruct (decimal p1) as [[mn0 q0]|e q0| | |] eqn:D; cbn [pbind] in H; try discriminate.
  pose proof (decimal_tskip x _ _ _ D) as T0.
  match type of H with pbind ?m _ = _ => destruct m as [[mx0 q2]|e q2| | |] eqn:D2 end; cbn [pbind] in H; try discriminate.
  destruct ((length q0 =? length p1)%nat || negb (hd_is q2 125)) eqn:EC; [discriminate|]. inversion H; subst.
  assert (T2 : tskip x q0 q2).
  { destruct ((length q0 <? length p1)%nat && hd_is q0 44) eqn:E1; [|inversion D2; subst; apply tskip_refl].
    assert (TC : tskip x q0 (tl q0)) by (apply tskip_tl with (c := 44); [apply andb_prop in E1; tauto | apply ptriv_intro; intros; lia]).
    destruct (is_nil (tl q0) || hd_is (tl q0) 125); [inversion D2; subst; exact TC|].
    eapply tskip_trans; [exact TC | eapply decimal_tskip; exact D2]. }
  eapply tskip_trans; [exact T0|]. eapply tskip_trans; [exact T2|].
  apply tskip_tl with (c := 125); [|apply ptriv_intro; intros; lia].
  destruct (hd_is q2 125); [reflexivity|]. rewrite orb_true_r in EC. discriminate.
Qed.

(* the cursor after a quantifier, for a pre-scan state with the same x option and no pending ignoreNextParen *)
Lemma scan_quantifier_cursor st p st' q cs : oeqv (ms_o st) (cs_o cs) -> cs_ign cs = false -> ms_unit st <> None ->
  scan_quantifier st p = POk (st', q) -> ctl st' = ctl st /\ (reach cs p <-> reach cs q).
Proof.
  intros Ho Hi Hu E. unfold Parser.scan_quantifier in E. destruct p as [|ch p1]; [discriminate|].
  pose proof (oeqv_useX _ _ Ho) as HX.
  destruct (ms_unit st) as [u|] eqn:Eu; [|congruence].
  match type of E with pbind ?m _ = _ => destruct m as [[[[mn mx] q0]|]|e q0| | |] eqn:EA end; cbn [pbind] in E; try discriminate.
  - assert (T0 : tskip (useX (cs_o cs)) (ch :: p1) q0).
    { destruct (ch =? 42) eqn:C1; [inversion EA; subst; apply tskip_cons; apply ptriv_intro; intros; lia|].
      destruct (ch =? 63) eqn:C2; [inversion EA; subst; apply tskip_cons; apply ptriv_intro; intros; lia|].
      destruct (ch =? 43) eqn:C3; [inversion EA; subst; apply tskip_cons; apply ptriv_intro; intros; lia|].
      destruct (ch =? 123) eqn:C4; [|discriminate].
      eapply tskip_trans; [apply tskip_cons; apply ptriv_intro; intros; lia | eapply brace_counts_tskip; exact EA]. }
    destruct (scan_blank_full (ms_o st) q0) as [q1|e q1| | |] eqn:EB; cbn [pbind] in E; try discriminate.
    unfold scan_blank_full in EB. rewrite HX in EB.
    destruct (if hd_is q1 63 then (true, tl q1) else (false, q1)) as [lazy q2] eqn:EL.
    destruct (mx <? mn); [discriminate|].
    destruct (add_concatenate3 st lazy mn mx) as [st1|e q3| | |] eqn:E3; cbn [pbind] in E; try discriminate.
    inversion E; subst. split; [eapply add_concatenate3_ctl; exact E3|].
    rewrite (reach_tskip cs _ _ T0). rewrite (blank_reach cs Hi q0 q1 EB).
    destruct (hd_is q1 63) eqn:EH; inversion EL; subst; [|reflexivity].
    apply reach_tskip. apply tskip_tl with (c := 63); [exact EH | apply ptriv_intro; intros; lia].
  - destruct (add_concatenate st) as [st1|e q3| | |] eqn:E1; cbn [pbind] in E; try discriminate.
    inversion E; subst. split; [eapply add_concatenate_ctl; exact E1 | reflexivity].
Qed.

Lemma after_unit_cursor st p st' q wq cs : oeqv (ms_o st) (cs_o cs) -> cs_ign cs = false -> ms_unit st <> None ->
  after_unit st p = POk (st', q, wq) -> ctl st' = ctl st /\ (reach cs p <-> reach cs q).
Proof.
  intros Ho Hi Hu E. unfold Parser.after_unit in E.
  destruct (scan_blank_full (ms_o st) p) as [p1|e p1| | |] eqn:EB; cbn [pbind] in E; try discriminate.
  unfold scan_blank_full in EB. rewrite (oeqv_useX _ _ Ho) in EB.
  rewrite (blank_reach cs Hi p p1 EB).
  destruct (is_nil p1 || negb (is_true_quantifier p1)).
  - destruct (add_concatenate st) as [st1|e q3| | |] eqn:E1; cbn [pbind] in E; try discriminate.
    inversion E; subst. split; [eapply add_concatenate_ctl; exact E1 | reflexivity].
  - destruct (scan_quantifier st p1) as [[st1 q1]|e q3| | |] eqn:E1; cbn [pbind] in E; try discriminate.
    inversion E; subst. eapply scan_quantifier_cursor; eassumption.
Qed.


(* ---------------------------------------------------------------- runs of pre-scan steps *)
Inductive psteps : cst -> list Z -> cst -> list Z -> Prop :=
| ps_refl cs p : psteps cs p cs p
| ps_step cs ch p1 cs1 q1 cs' q : prescan_step mco cs ch p1 = POk (cs1, q1) -> psteps cs1 q1 cs' q -> psteps cs (ch :: p1) cs' q.

Lemma psteps_reach cs p cs' q : psteps cs p cs' q -> (reach cs p <-> reach cs' q).
Proof.
  induction 1 as [|cs ch p1 cs1 q1 cs' q E _ IH]; [reflexivity|].
  rewrite reach_cons, <- IH. split.
  - intros [st' [q' [E' R]]]. rewrite E in E'. inversion E'; subst. exact R.
  - intros R. exists cs1, q1. auto.
Qed.

Lemma psteps_trans cs p cs1 q1 cs2 q2 : psteps cs p cs1 q1 -> psteps cs1 q1 cs2 q2 -> psteps cs p cs2 q2.
Proof. induction 1; [auto|]. intros H2. eapply ps_step; [eassumption | auto]. Qed.

Lemma psteps_one cs ch p1 cs1 q1 : prescan_step mco cs ch p1 = POk (cs1, q1) -> psteps cs (ch :: p1) cs1 q1.
Proof. intros E. eapply ps_step; [exact E | apply ps_refl]. Qed.

Lemma psteps_tskip cs p q : tskip (useX (cs_o cs)) p q -> psteps cs p cs q.
Proof.
  intros [seg [-> F]]. induction seg as [|c seg IH]; [apply ps_refl|].
  cbn [forallb] in F. apply andb_prop in F. destruct F as [F1 F2]. cbn [app].
  eapply ps_step; [apply prescan_step_ptriv; exact F1 | apply IH; exact F2].
Qed.

Lemma psteps_inv (J : cstate -> Prop) :
  (forall c, J c -> J (note_auto c)) ->
  (mco = false -> forall c i, J c -> 0 <= i <= 2147483647 -> J (note_slot i c)) ->
  (forall o s c c', J c -> note_name_pr mco o s c = POk c' -> J c') ->
  forall cs p cs' q, psteps cs p cs' q -> J (cs_c cs) -> J (cs_c cs').
Proof.
  intros J1 J2 J3 cs p cs' q H. induction H as [|cs ch p1 cs1 q1 cs' q E _ IH]; [auto|].
  intros Hc. apply IH. eapply (prescan_step_gen is_word_char to_lower simple_fold cat_in cat_name mco J J1 J2 J3); eassumption.
Qed.

Lemma psteps_cw cs p cs' q : psteps cs p cs' q -> cw (cs_c cs) -> cw (cs_c cs').
Proof.
  apply psteps_inv; [apply note_auto_cw | intros _ c i W Hi; apply note_slot_cw; [exact W | lia] | intros o s c c'; apply note_name_pr_cw].
Qed.

Lemma psteps_cinv cs p cs' q : psteps cs p cs' q -> cinv mco (cs_c cs) -> cinv mco (cs_c cs').
Proof.
  apply psteps_inv.
  - apply note_auto_cinv.
  - intros Em c i W Hi. revert W. rewrite Em. intros W. apply note_slot_cinv_plain; [exact W | lia].
  - intros o s c c' W E. pose proof (note_name_pr_ok mco o s c W) as N. rewrite E in N. exact N.
Qed.

(* ECMAScript: no names, the numbers are 0 .. autocap-1 *)
Lemma psteps_EN cs p cs' q : psteps cs p cs' q -> Eall cs -> EN (cs_c cs) -> Eall cs' /\ EN (cs_c cs').
Proof.
  induction 1 as [|cs ch p1 cs1 q1 cs' q E _ IH]; [auto|]. intros HE HN.
  destruct (prescan_step_E is_word_char to_lower simple_fold cat_in cat_name mco cs ch p1 cs1 q1 HE HN E) as [E' N']. auto.
Qed.

Definition near (x : bool) (p q : list Z) : Prop := tskip x p q \/ tskip x q p.

Lemma reach_near cs p q : near (useX (cs_o cs)) p q -> (reach cs p <-> reach cs q).
Proof. intros [H|H]; [apply reach_tskip; exact H | symmetry; apply reach_tskip; exact H]. Qed.

Lemma near_refl x p : near x p p.
Proof. left. apply tskip_refl. Qed.


(* ---------------------------------------------------------------- "(" : scanGroupOpen against the pre-scan *)
Variable tb : GroupMap.ptree.
Hypothesis HF2 : mco = true -> forall s v, aget s (names_of (cs_c cstF)) = Some v -> ct_name (captab_main tb) s = Some v.

Lemma step40 cs p3 : prescan_step mco cs 40 p3 = prescan_open mco cs (40 :: p3) p3.
Proof. reflexivity. Qed.

Lemma step41 cs p1 o' r : cs_os cs = o' :: r -> prescan_step mco cs 41 p1 = POk (mkCS (cs_c cs) o' r (cs_ign cs), p1).
Proof. intros H. unfold Parser.prescan_step. cbn [Z.eqb Pos.eqb]. rewrite H. reflexivity. Qed.

Lemma note_auto_autocap c : c_autocap (note_auto c) = c_autocap c + 1 /\ In (c_autocap c) (c_caps (note_auto c)).
Proof.
  unfold note_auto. match goal with |- context [note_slot ?k ?cc] => destruct (note_slot_fields k cc) as [F1 _] end.
  split; [rewrite F1; reflexivity | apply note_slot_caps; left; reflexivity].
Qed.

(* the state both passes are in after the "(" *)
Definition open_post (cs : cst) (o : Z) (ign : bool) (a : Z) (p3 : list Z) (g : option rnode) (v' : gvars) (q' : list Z) : Prop :=
  exists cs' qp,
    psteps cs (40 :: p3) cs' qp /\ near (useX (cs_o cs')) qp q' /\
    oeqv (gv_o v') (cs_o cs') /\ cs_ign cs' = gv_ign v' /\ c_autocap (cs_c cs') = gv_autocap v' /\
    cs_os cs' = (match g with Some _ => cs_o cs :: cs_os cs | None => cs_os cs end) /\
    (gv_ign v' = true -> hd_is q' 40 = true /\ starts_qhash (tl q') = false) /\
    (hd_is p3 63 = false -> (useN o || ign) = false -> In a (c_caps (cs_c cs'))).

(* what noteCaptureName does to the automatic number = what consumeCaptureSlot does in the main pass *)
Lemma name_bump cs0 s c' q : cinv mco (cs_c cs0) ->
  note_name_pr mco (cs_o cs0) s (cs_c cs0) = POk c' ->
  reach (mkCS c' (cs_o cs0) (cs_os cs0) false) q ->
  c_autocap c' = consume_slot mco (match ct_name (captab_main tb) s with Some g => g | None => -1 end) (c_autocap (cs_c cs0)).
Proof.
  intros CI E R. unfold note_name_pr in E.
  destruct (note_name mco (useE (cs_o cs0)) s (cs_c cs0)) as [c2| | |] eqn:NN; try discriminate. inversion E; subst c2. clear E.
  unfold consume_slot. destruct mco eqn:Em; cbn [andb].
  2:{ unfold note_name in NN. destruct (aget s (names_of (cs_c cs0))); [destruct (useE (cs_o cs0)); [discriminate|]|]; inversion NN; reflexivity. }
  destruct (reach_mono _ _ R) as [_ MN]. cbn [cs_c] in MN.
  destruct CI as [A N M D]. destruct (D eq_refl) as [D1 [D2 [D3 D4]]].
  unfold note_name in NN. destruct (aget s (names_of (cs_c cs0))) as [v0|] eqn:Eg.
  - destruct (useE (cs_o cs0)); [discriminate|]. inversion NN; subst c'. cbn [c_autocap].
    assert (K : ct_name (captab_main tb) s = Some v0).
    { apply HF2; [reflexivity|]. apply MN. unfold names_of. cbn. unfold names_of in Eg. destruct (c_capnames (cs_c cs0)); [exact Eg | discriminate]. }
    rewrite K. specialize (D4 _ _ Eg). destruct (v0 =? c_autocap (cs_c cs0)) eqn:EV; [lia | reflexivity].
  - inversion NN; subst c'. clear NN.
    match goal with |- context [note_slot ?k ?cc] => destruct (note_slot_fields k cc) as [F1 [F2 _]] end.
    cbn [c_autocap]. rewrite F1. cbn [c_autocap].
    assert (K : ct_name (captab_main tb) s = Some (c_autocap (cs_c cs0))).
    { apply HF2; [reflexivity|]. apply MN. unfold names_of at 1. cbn [c_capnames]. rewrite F2. cbn [c_capnames]. apply aget_aset_same. }
    rewrite K, Z.eqb_refl. reflexivity.
Qed.


Section OpenSim.
Variable cs : cst.
Variable o a : Z.
Hypothesis Ho : oeqv o (cs_o cs).
Hypothesis Ha : c_autocap (cs_c cs) = a.
Hypothesis Hci : cinv mco (cs_c cs).

Local Notation st1 := (mkCS (cs_c cs) (cs_o cs) (cs_o cs :: cs_os cs) (cs_ign cs)).
Local Notation tbm := (captab_main tb).
Local Notation xx := (useX (cs_o cs)).

Lemma HEb' : useE o = false -> useE (cs_o cs) = false.
Proof. intros HE. rewrite <- (oeqv_useE _ _ Ho). exact HE. Qed.

Lemma consume_minus1 : consume_slot mco (-1) a = a.
Proof.
  unfold consume_slot. destruct mco; [|reflexivity]. cbn [andb].
  destruct Hci as [A _ _ _]. rewrite Ha in A. destruct (-1 =? a) eqn:E; [lia | reflexivity].
Qed.

(* the state the pre-scan is in after filing the name s *)
Lemma named_state s c' q :
  note_name_pr mco (cs_o cs) s (cs_c cs) = POk c' ->
  reach (set_cs_ign (set_cs_c st1 c') false) q ->
  c_autocap c' = consume_slot mco (match ct_name tbm s with Some g => g | None => -1 end) a.
Proof. intros E R. rewrite <- Ha. exact (name_bump st1 s c' q Hci E R). Qed.

Definition named_post (r : pr (cst * list Z)) (v' : gvars) (q' : list Z) : Prop :=
  exists cs1 q1, r = POk (cs1, q1) /\ tskip xx q1 q' /\
    cs_o cs1 = cs_o cs /\ cs_os cs1 = cs_o cs :: cs_os cs /\ cs_ign cs1 = false /\
    gv_o v' = o /\ gv_ign v' = false /\ c_autocap (cs_c cs1) = gv_autocap v'.

(* the tail of a group name in the main pass: "-name" and the closing character *)
Lemma group_name_tail close capnum proceed q (r2 : pr (Z * list Z)) uncapnum q3 :
  (close = 39 \/ close = 62) ->
  r2 = (if (negb (capnum =? -1) || proceed) && hd_is q 45 then
          let q1 := tl q in
          match q1 with
          | [] => PE PE_InvalidGroupName q1
          | c3 :: _ =>
              if ParseLit.is_digit c3 then
                pdo r <- decimal q1 ;
                let '(u, q2) := r in
                if negb (ct_slot tbm u) then PE E_UndefinedBackRef q2
                else if hd_is_not q2 close then PE PE_InvalidGroupName q2
                else POk (u, q2)
              else if is_word_char c3 then
                let '(nm, q2) := scan_word is_word_char q1 in
                match ct_name tbm nm with
                | None => PE E_UndefinedNameRef q2
                | Some u => if hd_is_not q2 close then PE PE_InvalidGroupName q2 else POk (u, q2)
                end
              else PE PE_InvalidGroupName q1
          end
        else POk (-1, q)) ->
  r2 = POk (uncapnum, q3) -> hd_is q3 close = true -> tskip xx q (tl q3).
Proof.
  intros Hc -> H HC.
  assert (TC : tskip xx q3 (tl q3)).
  { apply tskip_tl with (c := close); [exact HC | destruct Hc as [-> | ->]; apply ptriv_intro; intros; lia]. }
  destruct ((negb (capnum =? -1) || proceed) && hd_is q 45) eqn:E1; [|inversion H; subst; exact TC].
  assert (T1 : tskip xx q (tl q)) by (apply tskip_tl with (c := 45); [apply andb_prop in E1; tauto | apply ptriv_intro; intros; lia]).
  cbv zeta in H. destruct (tl q) as [|c3 q1'] eqn:Eq1; [discriminate|].
  destruct (ParseLit.is_digit c3).
  - destruct (decimal (c3 :: q1')) as [[u q2]|e q2| | |] eqn:D; cbn [pbind] in H; try discriminate.
    destruct (negb (ct_slot tbm u)); [discriminate|]. destruct (hd_is_not q2 close); [discriminate|]. inversion H; subst.
    eapply tskip_trans; [exact T1|]. eapply tskip_trans; [eapply decimal_tskip; exact D | exact TC].
  - destruct (is_word_char c3); [|discriminate].
    pose proof (scan_word_tskip xx (c3 :: q1')) as W. destruct (scan_word is_word_char (c3 :: q1')) as [nm q2]. cbn [snd] in W.
    destruct (ct_name tbm nm); [|discriminate]. destruct (hd_is_not q2 close); [discriminate|]. inversion H; subst.
    eapply tskip_trans; [exact T1|]. eapply tskip_trans; [exact W | exact TC].
Qed.

Lemma note_name_pr_total ob s c : useE ob = false -> exists c', note_name_pr mco ob s c = POk c'.
Proof.
  intros H. unfold note_name_pr, note_name. rewrite H.
  destruct (aget s (names_of c)); [eexists; reflexivity|]. destruct mco; eexists; reflexivity.
Qed.

Lemma consume_nonmco k : mco = false -> consume_slot mco k a = a.
Proof. intros H. unfold consume_slot. rewrite H. reflexivity. Qed.

Lemma mco_cases : mco = true \/ mco = false.
Proof. destruct mco; auto. Qed.

Lemma named_sim close cur g v' q' :
  (close = 39 \/ close = 62) ->
  Parser.group_name is_word_char tbm mco (mkGV o false a) close cur = POk (g, v', q') ->
  (forall cs1 q1, prescan_named is_word_char mco st1 cur = POk (cs1, q1) -> reach cs1 q1) ->
  named_post (prescan_named is_word_char mco st1 cur) v' q' /\ g <> None.
Proof.
  intros Hc E R. unfold Parser.group_name in E. destruct cur as [|c2 cur']; [discriminate|].
  cbn [gv_o gv_ign gv_autocap] in E. destruct (useE o) eqn:HE; [discriminate|]. pose proof (HEb' HE) as HEb.
  set (cur := c2 :: cur') in *.
  (* the end of the main pass' scan, once the first part (capnum, proceed, q) is known *)
  assert (FIN : forall capnum proceed q,
    (pdo r2 <-
       (if (negb (capnum =? -1) || proceed) && hd_is q 45 then
          let q1 := tl q in
          match q1 with
          | [] => PE PE_InvalidGroupName q1
          | c3 :: _ =>
              if ParseLit.is_digit c3 then
                pdo r <- decimal q1 ;
                let '(u, q2) := r in
                if negb (ct_slot tbm u) then PE E_UndefinedBackRef q2
                else if hd_is_not q2 close then PE PE_InvalidGroupName q2
                else POk (u, q2)
              else if is_word_char c3 then
                let '(nm, q2) := scan_word is_word_char q1 in
                match ct_name tbm nm with
                | None => PE E_UndefinedNameRef q2
                | Some u => if hd_is_not q2 close then PE PE_InvalidGroupName q2 else POk (u, q2)
                end
              else PE PE_InvalidGroupName q1
          end
        else POk (-1, q)) ;
     let '(uncapnum, q3) := r2 in
     if (negb (capnum =? -1) || negb (uncapnum =? -1)) && hd_is q3 close
     then POk (Some (mk_node_mn T_Capture o capnum uncapnum), mkGV o false (consume_slot mco capnum a), tl q3)
     else PE PE_UnrecognizedGrouping (tl q3)) = POk (g, v', q') ->
    tskip xx q q' /\ gv_o v' = o /\ gv_ign v' = false /\ gv_autocap v' = consume_slot mco capnum a /\ g <> None).
  { intros capnum proceed q H.
    match type of H with pbind ?B _ = _ => remember B as r2 eqn:ER2 end.
    destruct r2 as [[uncapnum q3]|e q3| | |]; cbn [pbind] in H; try discriminate.
    destruct ((negb (capnum =? -1) || negb (uncapnum =? -1)) && hd_is q3 close) eqn:EC; [|discriminate].
    injection H as <- <- <-. cbn [gv_o gv_ign gv_autocap].
    split; [|repeat split; discriminate].
    eapply (group_name_tail close capnum proceed q _ uncapnum q3 Hc ER2 eq_refl). apply andb_prop in EC. tauto. }
  unfold Parser.prescan_named, cur. cbv iota. fold cur. cbn [cs_o]. rewrite HEb.
  destruct (ParseLit.is_digit c2) eqn:Edig.
  - (* digits *)
    destruct (decimal cur) as [[n q]|e q| | |] eqn:D; cbn [pbind] in E; try discriminate.
    pose proof (decimal_tskip xx _ _ _ D) as TD.
    destruct (hd_is_not q close && hd_is_not q 45); [discriminate|].
    match type of E with pbind (if ?cz then _ else _) _ = _ => destruct cz eqn:EZ end; [discriminate|]. cbn [pbind] in E.
    destruct (FIN _ _ _ E) as [T [F1 [F2 [F3 F4]]]]. split; [|exact F4].
    destruct (c2 =? 48) eqn:E48.
    + (* a leading zero: the pre-scan files nothing, the main pass gets no number *)
      cbn [negb andb]. eexists _, cur. split; [reflexivity|]. split; [eapply tskip_trans; [exact TD | exact T]|].
      cbn [set_cs_ign cs_o cs_os cs_ign cs_c]. repeat split; auto.
      rewrite F3, Ha. symmetry.
      destruct mco_cases as [Em|Em]; [|apply consume_nonmco; exact Em].
      rewrite Em in EZ |- *. destruct (n =? 0) eqn:En; cbn [negb andb] in EZ |- *.
      * destruct (ct_slot tbm n); [lia | rewrite <- Em; apply consume_minus1].
      * rewrite <- Em. apply consume_minus1.
    + assert (D9 : (49 <=? c2) && (c2 <=? 57) = true) by (unfold ParseLit.is_digit in Edig; lia).
      rewrite (HD c2 D9). cbn [negb andb]. rewrite D9. cbn [pbind].
      pose proof (decimal_nonzero _ _ _ _ D9 D) as NZ.
      destruct mco_cases as [Em|Em].
      * destruct (note_name_pr_total (cs_o cs) (itoa n) (cs_c cs) HEb) as [c' N].
        assert (PN : prescan_named is_word_char mco st1 cur = POk (set_cs_ign (set_cs_c st1 c') false, q)).
        { unfold Parser.prescan_named, cur. cbv iota. fold cur. cbn [cs_o]. rewrite HEb, E48, (HD c2 D9). cbn [negb andb].
          rewrite D9, D. cbn [pbind]. rewrite Em. cbn [cs_c]. rewrite <- Em, N. reflexivity. }
        rewrite Em. cbn [cs_c]. rewrite <- Em, N. cbn [pbind].
        eexists _, q. split; [reflexivity|]. split; [exact T|].
        cbn [set_cs_ign set_cs_c cs_o cs_os cs_ign cs_c]. repeat split; auto.
        rewrite F3. rewrite NZ, Em. cbn [negb andb]. rewrite <- Em.
        apply (named_state (itoa n) c' q N). apply R. exact PN.
      * rewrite Em. eexists _, q. split; [reflexivity|]. split; [exact T|].
        cbn [set_cs_ign set_cs_c cs_o cs_os cs_ign cs_c]. repeat split; auto.
        destruct (note_slot_fields n (cs_c cs)) as [G1 _]. rewrite G1, F3, Ha. symmetry. apply consume_nonmco. exact Em.
  - destruct (is_word_char c2) eqn:Ew.
    + (* a name *)
      destruct (scan_word is_word_char cur) as [nm q] eqn:SW.
      pose proof (scan_word_tskip xx cur) as TW. rewrite SW in TW. cbn [snd] in TW.
      destruct (hd_is_not q close && hd_is_not q 45); [discriminate|]. cbn [pbind] in E.
      destruct (FIN _ _ _ E) as [T [F1 [F2 [F3 F4]]]]. split; [|exact F4].
      assert (N48 : (c2 =? 48) = false) by (unfold ParseLit.is_digit in Edig; lia).
      assert (N9 : (49 <=? c2) && (c2 <=? 57) = false) by (unfold ParseLit.is_digit in Edig; lia).
      rewrite N48. cbn [negb andb]. rewrite N9.
      destruct (note_name_pr_total (cs_o cs) nm (cs_c cs) HEb) as [c' N]. cbn [cs_c]. rewrite N. cbn [pbind].
      eexists _, q. split; [reflexivity|]. split; [exact T|].
      cbn [set_cs_ign set_cs_c cs_o cs_os cs_ign cs_c]. repeat split; auto.
      rewrite F3. apply (named_state nm c' q N). apply R. unfold Parser.prescan_named, cur. cbv iota. fold cur. cbn [cs_o]. rewrite HEb, N48, Ew. cbn [negb andb].
      rewrite N9, SW. cbn [cs_c]. rewrite N. reflexivity.
    + destruct (c2 =? 45) eqn:E45; [|discriminate]. cbn [pbind] in E.
      destruct (FIN _ _ _ E) as [T [F1 [F2 [F3 F4]]]]. split; [|exact F4].
      rewrite andb_false_r. eexists _, cur. split; [reflexivity|]. split; [exact T|].
      cbn [set_cs_ign cs_o cs_os cs_ign cs_c]. repeat split; auto. rewrite F3, Ha. symmetry. apply consume_minus1.
Qed.

Lemma pyname_sim p2 g v' q' :
  Parser.group_pyname is_word_char tbm mco (mkGV o false a) p2 = POk (g, v', q') ->
  (forall cs1 q1, prescan_pyname is_word_char mco st1 (tl p2) = POk (cs1, q1) -> reach cs1 q1) ->
  longer p2 2 = true /\ hd_is p2 60 = true /\ named_post (prescan_pyname is_word_char mco st1 (tl p2)) v' q' /\ g <> None.
Proof.
  intros E R. unfold Parser.group_pyname in E. cbn [gv_o gv_ign gv_autocap] in E.
  destruct (longer p2 2) eqn:L2; [|discriminate]. cbn [negb] in E.
  destruct (hd_is p2 60) eqn:H60; [|discriminate]. cbn [negb] in E.
  destruct p2 as [|c0 [|c1 p4]]; try discriminate. cbn [nth tl] in *.
  destruct (is_word_char c1) eqn:Ew; [|discriminate]. destruct (useE o) eqn:HE; [discriminate|]. pose proof (HEb' HE) as HEb.
  destruct (scan_word is_word_char (c1 :: p4)) as [nm q] eqn:SW.
  pose proof (scan_word_tskip xx (c1 :: p4)) as TW. rewrite SW in TW. cbn [snd] in TW.
  destruct (hd_is_not q 62) eqn:HN; [discriminate|].
  match type of E with (if ?c then _ else _) = _ => destruct c eqn:EC end; [|discriminate].
  injection E as <- <- <-. split; [reflexivity|]. split; [reflexivity|]. split; [|discriminate].
  assert (TQ : tskip xx q (tl q)).
  { apply tskip_tl with (c := 62); [apply andb_prop in EC; tauto | apply ptriv_intro; intros; lia]. }
  unfold Parser.prescan_pyname. rewrite Ew. cbn [cs_o]. rewrite HEb, SW. cbn [cs_c].
  destruct (note_name_pr_total (cs_o cs) nm (cs_c cs) HEb) as [c' N]. rewrite N. cbn [pbind].
  eexists _, q. split; [reflexivity|]. split; [exact TQ|].
  cbn [set_cs_ign set_cs_c cs_o cs_os cs_ign cs_c gv_o gv_ign gv_autocap]. repeat split; auto.
  apply (named_state nm c' q N). apply R. unfold Parser.prescan_pyname. rewrite Ew. cbn [cs_o]. rewrite HEb, SW. cbn [cs_c]. rewrite N. reflexivity.
Qed.

Lemma open_post_one ign p3 g v' q' cs1 q1 :
  prescan_open mco cs (40 :: p3) p3 = POk (cs1, q1) ->
  near (useX (cs_o cs1)) q1 q' ->
  oeqv (gv_o v') (cs_o cs1) -> cs_ign cs1 = gv_ign v' -> c_autocap (cs_c cs1) = gv_autocap v' ->
  cs_os cs1 = (match g with Some _ => cs_o cs :: cs_os cs | None => cs_os cs end) ->
  (gv_ign v' = true -> hd_is q' 40 = true /\ starts_qhash (tl q') = false) ->
  (hd_is p3 63 = false -> (useN o || ign) = false -> In a (c_caps (cs_c cs1))) ->
  open_post cs o ign a p3 g v' q'.
Proof.
  intros E N H1 H2 H3 H4 H5 H6. exists cs1, q1. split; [apply psteps_one; rewrite step40; exact E|].
  repeat split; auto; apply H5; assumption.
Qed.

(* "(?(" : the condition *)
Lemma cond_sim ign p2 g v' q' :
  cs_ign cs = ign ->
  Parser.group_cond is_word_char tbm (mkGV o false a) (40 :: p2) = POk (g, v', q') ->
  open_post cs o ign a (63 :: 40 :: p2) g v' q'.
Proof.
  intros Hign E.
  (* the first step of the pre-scan: "(?(" pushes the options and sets ignoreNextParen *)
  set (cs1 := mkCS (cs_c cs) (cs_o cs) (cs_o cs :: cs_os cs) true).
  assert (S1 : prescan_open mco cs (40 :: 63 :: 40 :: p2) (63 :: 40 :: p2) = POk (cs1, 40 :: p2)).
  { unfold Parser.prescan_open. cbn [starts_qhash hd_is nth_is skipn tl Z.eqb Pos.eqb andb orb].
    rewrite !andb_false_r. cbn [andb].
    replace (scan_options_text (cs_o cs) (40 :: p2)) with (cs_o cs, 40 :: p2) by reflexivity.
    cbn [hd_is Z.eqb Pos.eqb cs_c cs_o cs_os cs_ign set_cs_ign]. reflexivity. }
  unfold Parser.group_cond in E. cbn [tl gv_o gv_autocap] in E.
  (* the expression-condition outcome *)
  assert (EXPR : forall gg, starts_qhash p2 = false ->
             open_post cs o ign a (63 :: 40 :: p2) (Some gg) (mkGV o true a) (40 :: p2)).
  { intros gg Q. eapply open_post_one; [exact S1 | apply near_refl | exact Ho | reflexivity | exact Ha | reflexivity | | intros H; discriminate].
    intros _. cbn [hd_is tl]. split; [reflexivity | exact Q]. }
  match type of E with pbind ?A _ = _ => destruct A as [[[gn q1]|]|e q1| | |] eqn:EA end; cbn [pbind] in E; try discriminate.
  - (* a back-reference condition "(?(n)" / "(?(name)": the pre-scan walks through "(n)" *)
    injection E as <- <- <-.
    assert (TK : exists q, tskip xx p2 q /\ hd_is q 41 = true /\ q1 = tl q /\ p2 <> [] /\ hd_is p2 63 = false).
    { destruct p2 as [|c p2']; [discriminate|].
      destruct (ParseLit.is_digit c) eqn:Ed.
      - destruct (decimal (c :: p2')) as [[n q]|e q| | |] eqn:D; cbn [pbind] in EA; try discriminate.
        destruct (hd_is q 41) eqn:H41; [|discriminate]. destruct (ct_slot tbm n); [|discriminate]. inversion EA; subst.
        exists q. split; [eapply decimal_tskip; exact D|]. repeat split; auto; try discriminate.
        cbn [hd_is]. unfold ParseLit.is_digit in Ed. lia.
      - destruct (is_word_char c) eqn:Ew; [|discriminate]. destruct (useE o) eqn:HE; [discriminate|].
        pose proof (scan_word_tskip xx (c :: p2')) as TW. destruct (scan_word is_word_char (c :: p2')) as [nm q]. cbn [snd] in TW.
        destruct (ct_name tbm nm); [|discriminate]. destruct (hd_is q 41) eqn:H41; [|discriminate]. inversion EA; subst.
        exists q. split; [exact TW|]. repeat split; auto; try discriminate.
        cbn [hd_is]. apply HW in Ew. unfold zmem in Ew. cbn [existsb] in Ew. lia. }
    destruct TK as [q [T [H41 [-> [NE H63]]]]].
    set (cs2 := mkCS (cs_c cs) (cs_o cs) (cs_o cs :: cs_o cs :: cs_os cs) false).
    assert (S2 : prescan_open mco cs1 (40 :: p2) p2 = POk (cs2, p2)).
    { unfold Parser.prescan_open. cbn [cs_o cs_os cs_ign cs_c cs1].
      assert (Q : starts_qhash p2 = false) by (unfold starts_qhash; rewrite H63; reflexivity). rewrite Q, H63.
      rewrite andb_false_r. reflexivity. }
    set (cs3 := mkCS (cs_c cs) (cs_o cs) (cs_o cs :: cs_os cs) false).
    exists cs3, (tl q). split.
    + eapply ps_step; [rewrite step40; exact S1|]. eapply ps_step; [rewrite step40; exact S2|].
      eapply psteps_trans; [apply psteps_tskip; exact T|].
      destruct q as [|c q']; [discriminate|]. cbn [hd_is] in H41. assert (c = 41) by lia. subst c.
      apply psteps_one. cbn [tl]. exact (step41 cs2 q' (cs_o cs) (cs_o cs :: cs_os cs) eq_refl).
    + cbn [cs3 cs_o cs_os cs_ign cs_c gv_o gv_ign gv_autocap]. split; [apply near_refl|]. repeat split; auto; discriminate.
  - (* an expression condition *)
    assert (Q : starts_qhash p2 = false).
    { destruct (starts_qhash p2) eqn:Q; [|reflexivity]. exfalso.
      unfold starts_qhash in Q. apply andb_prop in Q. destruct Q as [Q1 Q2].
      destruct p2 as [|c0 [|c1 p4]]; try discriminate. cbn [hd_is nth_is skipn] in Q1, Q2.
      assert (c0 = 63) by lia. assert (c1 = 35) by lia. subst c0 c1. cbn in E. discriminate. }
    repeat match type of E with (if ?c then _ else _) = _ => destruct c end; try discriminate; injection E as <- <- <-; apply EXPR; exact Q.
Qed.

(* scanOptions reads nothing from a character that is no option letter *)
Lemma no_option_char ob ch p5 : (ch =? 45) = false -> (ch =? 43) = false -> option_from_code ch = 0 ->
  scan_options_text ob (ch :: p5) = (ob, ch :: p5).
Proof.
  intros H1 H2 H3. unfold scan_options_text. cbn [ochars_of]. rewrite H1, H2, H3. reflexivity.
Qed.

Lemma pyname_open p5 : useRE2 (cs_o cs) = true -> longer p5 2 = true -> hd_is p5 60 = true ->
  prescan_open mco cs (40 :: 63 :: 80 :: p5) (63 :: 80 :: p5) = prescan_pyname is_word_char mco st1 (tl p5).
Proof.
  intros RE L2 H60. unfold Parser.prescan_open.
  change (starts_qhash (63 :: 80 :: p5)) with false. cbv iota.
  change (hd_is (63 :: 80 :: p5) 63) with true. cbv iota. cbn [tl].
  change (hd_is (80 :: p5) 60) with false. change (hd_is (80 :: p5) 39) with false. cbn [orb]. rewrite andb_false_r.
  change (hd_is (80 :: p5) 80) with true. change (nth_is 1 (80 :: p5) 60) with (hd_is p5 60).
  cbn [cs_o]. rewrite RE, H60, !andb_true_r, andb_true_l.
  assert (L : longer (80 :: p5) 2 = true) by (unfold longer in *; cbn [length]; apply Nat.ltb_lt in L2; apply Nat.ltb_lt; lia).
  rewrite L. destruct p5; reflexivity.
Qed.

Lemma open_sim gt ign p3 g v' q' :
  cs_ign cs = ign -> reach cs (40 :: p3) -> starts_qhash p3 = false ->
  Parser.group_open is_word_char tbm mco gt (mkGV o ign a) p3 = POk (g, v', q') ->
  (hd_is p3 63 = true /\ nth_is 1 p3 41 = true /\ q' = p3 /\ g <> None) \/
  (open_post cs o ign a p3 g v' q' /\ ((is_nil p3 || negb (hd_is p3 63) || nth_is 1 p3 41) = true -> hd_is p3 63 = false)).
Proof.
  intros Hign HR Hq E. unfold Parser.group_open in E. cbn [gv_o gv_ign gv_autocap] in E.
  pose proof (oeqv_useN _ _ Ho) as HN.
  destruct (is_nil p3 || negb (hd_is p3 63) || nth_is 1 p3 41) eqn:E0.
  { destruct (hd_is p3 63) eqn:H63.
    - left. assert (N1 : nth_is 1 p3 41 = true).
      { destruct p3; [discriminate|]. cbn [is_nil negb orb] in E0. exact E0. }
      split; [reflexivity|]. split; [exact N1|]. destruct (useN o || ign); injection E as <- <- <-; split; try reflexivity; discriminate.
    - right. split; [|intros _; reflexivity].
      assert (PO : prescan_open mco cs (40 :: p3) p3 =
                   POk (if negb (useN (cs_o cs)) && negb (cs_ign cs)
                        then set_cs_ign (set_cs_c st1 (note_auto (cs_c cs))) false else set_cs_ign st1 false, p3)).
      { unfold Parser.prescan_open. rewrite Hq, H63. cbn [cs_o cs_ign]. destruct (negb (useN (cs_o cs)) && negb (cs_ign cs)); reflexivity. }
      rewrite <- HN, Hign in PO.
      destruct (useN o || ign) eqn:EN.
      + injection E as <- <- <-.
        assert (C : negb (useN o) && negb ign = false) by (destruct (useN o), ign; try discriminate; reflexivity). rewrite C in PO.
        eapply open_post_one; [exact PO | apply near_refl | exact Ho | reflexivity | exact Ha | reflexivity | intros H; discriminate | intros _ H; congruence].
      + injection E as <- <- <-.
        assert (C : negb (useN o) && negb ign = true) by (destruct (useN o), ign; try discriminate; reflexivity). rewrite C in PO.
        destruct (note_auto_autocap (cs_c cs)) as [NA1 NA2].
        eapply open_post_one; [exact PO | apply near_refl | exact Ho | | | reflexivity | | ].
        * cbn [set_cs_ign set_cs_c cs_ign gv_ign]. destruct (useN o), ign; try discriminate; reflexivity.
        * cbn [set_cs_ign set_cs_c cs_c gv_autocap]. rewrite NA1, Ha. reflexivity.
        * cbn [gv_ign]. intros H. destruct (useN o), ign; discriminate.
        * intros _ _. cbn [set_cs_ign set_cs_c cs_c]. rewrite <- Ha. exact NA2. }
  right. split; [|intros HH; rewrite HH in E0; discriminate].
  assert (H63 : hd_is p3 63 = true) by (destruct (hd_is p3 63); [reflexivity | rewrite orb_true_r in E0; discriminate]).
  destruct p3 as [|c0 p4]; [discriminate|]. cbn [hd_is] in H63. assert (c0 = 63) by lia. subst c0. cbn [tl] in E.
  destruct p4 as [|ch p5]; [discriminate|].
  assert (N41 : (ch =? 41) = false) by (cbn in E0; destruct (ch =? 41); [discriminate | reflexivity]).
  (* the pre-scan on "(?" + a character that starts neither a name nor (under RE2) "P<" : the options branch *)
  assert (OPTS : (ch =? 60) = false -> (ch =? 39) = false -> (useRE2 (cs_o cs) && (ch =? 80)) = false ->
            prescan_open mco cs (40 :: 63 :: ch :: p5) (63 :: ch :: p5) =
            (let '(o2, q) := scan_options_text (cs_o cs) (ch :: p5) in
             if hd_is q 41 then POk (mkCS (cs_c cs) o2 (cs_os cs) false, tl q)
             else if hd_is q 40 then POk (mkCS (cs_c cs) o2 (cs_o cs :: cs_os cs) true, q)
             else POk (mkCS (cs_c cs) o2 (cs_o cs :: cs_os cs) false, q))).
  { intros A1 A2 A3. unfold Parser.prescan_open. rewrite Hq. cbn [hd_is tl Z.eqb Pos.eqb]. rewrite A1, A2. cbn [orb]. rewrite andb_false_r.
    assert (PY : useRE2 (cs_o cs) && longer (ch :: p5) 2 && (ch =? 80) && nth_is 1 (ch :: p5) 60 = false).
    { destruct (useRE2 (cs_o cs)); [|reflexivity]. cbn [andb] in A3 |- *. rewrite A3. rewrite andb_false_r. reflexivity. }
    rewrite PY. destruct (scan_options_text (cs_o cs) (ch :: p5)) as [o2 q]. cbn [cs_c cs_o cs_os cs_ign set_cs_ign].
    destruct (hd_is q 41); [reflexivity|]. destruct (hd_is q 40); reflexivity. }
  (* a one-character group opener: ":" "=" "!" ">" *)
  assert (SIMPLE : forall t o', (ch =? 58) || (ch =? 61) || (ch =? 33) || (ch =? 62) = true -> oeqv o' o ->
            open_post cs o ign a (63 :: ch :: p5) (Some (mk_node t o')) (mkGV o' false a) p5).
  { intros t o' C Oo.
    assert (NO : scan_options_text (cs_o cs) (ch :: p5) = (cs_o cs, ch :: p5)).
    { apply no_option_char; try lia. unfold option_from_code.
      repeat match goal with |- context [if ?c then _ else _] => destruct c eqn:? end; try reflexivity; lia. }
    specialize (OPTS ltac:(lia) ltac:(lia) ltac:(destruct (useRE2 (cs_o cs)); [cbn; lia | reflexivity])).
    rewrite NO in OPTS. cbn [hd_is] in OPTS. rewrite N41 in OPTS.
    assert (N40 : (ch =? 40) = false) by lia. rewrite N40 in OPTS.
    eapply open_post_one; [exact OPTS | | | reflexivity | exact Ha | reflexivity | intros H; discriminate | intros H; discriminate].
    - left. apply tskip_cons. apply ptriv_intro; intros; lia.
    - cbn [cs_o gv_o]. eapply oeqv_trans; [exact Oo | exact Ho]. }
  destruct (ch =? 58) eqn:C58; [injection E as <- <- <-; apply SIMPLE; [lia | apply oeqv_refl]|].
  destruct (ch =? 61) eqn:C61; [injection E as <- <- <-; apply SIMPLE; [lia | apply oeqv_clear_rtl]|].
  destruct (ch =? 33) eqn:C33; [injection E as <- <- <-; apply SIMPLE; [lia | apply oeqv_clear_rtl]|].
  destruct (ch =? 62) eqn:C62; [injection E as <- <- <-; apply SIMPLE; [lia | apply oeqv_refl]|].
  destruct ((ch =? 39) || (ch =? 60)) eqn:CQ.
  { (* "(?<" / "(?'" *)
    destruct p5 as [|c2 p6]; [discriminate|].
    assert (NAMED : prescan_open mco cs (40 :: 63 :: ch :: c2 :: p6) (63 :: ch :: c2 :: p6) = prescan_named is_word_char mco st1 (c2 :: p6)).
    { unfold Parser.prescan_open. rewrite Hq. cbn [hd_is tl]. 
      assert (T : longer (ch :: c2 :: p6) 1 && ((ch =? 60) || (ch =? 39)) = true) by (unfold longer; cbn [length]; cbn; lia). rewrite T. reflexivity. }
    destruct ((c2 =? 61) || (c2 =? 33)) eqn:CL.
    - (* lookbehind *)
      destruct ((if ch =? 39 then 39 else 62) =? 39); [discriminate|]. injection E as <- <- <-.
      assert (PN : prescan_named is_word_char mco st1 (c2 :: p6) = POk (set_cs_ign st1 false, c2 :: p6)).
      { unfold Parser.prescan_named. cbn [cs_o]. destruct (useE (cs_o cs)).
        - assert (CC : (c2 =? 61) || (c2 =? 33) || (c2 =? 48) = true) by lia. rewrite CC. reflexivity.
        - assert (NW : is_word_char c2 = false).
          { destruct (is_word_char c2) eqn:Ew; [|reflexivity]. apply HW in Ew. unfold zmem in Ew. cbn [existsb] in Ew. lia. }
          rewrite NW, andb_false_r. reflexivity. }
      rewrite PN in NAMED.
      eapply open_post_one; [exact NAMED | | | reflexivity | exact Ha | reflexivity | intros H; discriminate | intros H; discriminate].
      + left. apply tskip_cons. apply ptriv_intro; intros; lia.
      + cbn [cs_o set_cs_ign gv_o]. eapply oeqv_trans; [apply oeqv_set_rtl | exact Ho].
    - destruct (named_sim (if ch =? 39 then 39 else 62) (c2 :: p6) g v' q') as [[cs1 [q1 [E1 [T [F1 [F2 [F3 [F4 [F5 F6]]]]]]]]] GN].
      + destruct (ch =? 39); auto.
      + exact E.
      + intros cs1 q1 E1. rewrite <- NAMED in E1. apply reach_cons in HR. destruct HR as [st' [qq [ES RR]]].
        rewrite step40, E1 in ES. inversion ES; subst. exact RR.
      + rewrite E1 in NAMED.
        eapply open_post_one; [exact NAMED | left; rewrite F1; exact T | rewrite F1, F4; exact Ho | rewrite F3, F5; reflexivity | exact F6 | | rewrite F5; intros H; discriminate | intros H; discriminate].
        destruct g; [exact F2 | congruence]. }
  destruct (ch =? 40) eqn:C40.
  { assert (ch = 40) by lia. subst ch. eapply cond_sim; [exact Hign | exact E]. }
  destruct ((ch =? 80) && useRE2 o) eqn:CP.
  { (* "(?P<" under RE2 *)
    apply andb_prop in CP. destruct CP as [C80 RE]. assert (ch = 80) by lia. subst ch.
    assert (LH : longer p5 2 = true /\ hd_is p5 60 = true).
    { pose proof E as E'. unfold Parser.group_pyname in E'. destruct (longer p5 2); [|discriminate]. destruct (hd_is p5 60); [auto | discriminate]. }
    destruct LH as [L2 H60].
    destruct (pyname_sim p5 g v' q' E) as [_ [_ [[cs1 [q1 [E1 [T [F1 [F2 [F3 [F4 [F5 F6]]]]]]]]] GN]]].
    - intros cs1 q1 E1. apply reach_cons in HR. destruct HR as [st' [qq [ES RR]]].
      rewrite step40, (pyname_open p5 ltac:(rewrite <- (oeqv_useRE2 _ _ Ho); exact RE) L2 H60), E1 in ES. inversion ES; subst. exact RR.
    - assert (PO : prescan_open mco cs (40 :: 63 :: 80 :: p5) (63 :: 80 :: p5) = POk (cs1, q1)).
      { rewrite (pyname_open p5 ltac:(rewrite <- (oeqv_useRE2 _ _ Ho); exact RE) L2 H60). exact E1. }
      eapply open_post_one; [exact PO | left; rewrite F1; exact T | rewrite F1, F4; exact Ho | rewrite F3, F5; reflexivity | exact F6 | | rewrite F5; intros H; discriminate | intros H; discriminate].
      destruct g; [exact F2 | congruence]. }
  (* inline options *)
  assert (A3 : useRE2 (cs_o cs) && (ch =? 80) = false).
  { rewrite <- (oeqv_useRE2 _ _ Ho). destruct (ch =? 80); [cbn in CP; rewrite CP; reflexivity | apply andb_false_r]. }
  specialize (OPTS ltac:(lia) ltac:(lia) A3).
  destruct (gt =? T_ExprCond) eqn:GT.
  { (* no options directly inside a conditional *)
    destruct (ch =? 41); [discriminate|]. rewrite C58 in E. discriminate. }
  destruct (scan_options_text_oeqv o (cs_o cs) (ch :: p5) Ho) as [SO1 SO2].
  destruct (scan_options_text o (ch :: p5)) as [o2 q] eqn:EO. destruct (scan_options_text (cs_o cs) (ch :: p5)) as [b2 qb] eqn:EB.
  cbn [fst snd] in SO1, SO2. subst qb.
  destruct q as [|c q1]; [discriminate|]. cbn [hd_is tl] in OPTS.
  destruct (c =? 41) eqn:D41.
  - injection E as <- <- <-.
    eapply open_post_one; [exact OPTS | apply near_refl | exact SO1 | reflexivity | exact Ha | reflexivity | intros H; discriminate | intros H; discriminate].
  - destruct (c =? 58) eqn:D58; [|discriminate]. injection E as <- <- <-.
    assert (D40 : (c =? 40) = false) by lia. rewrite D40 in OPTS.
    eapply open_post_one; [exact OPTS | | exact SO1 | reflexivity | exact Ha | reflexivity | intros H; discriminate | intros H; discriminate].
    left. apply tskip_cons. apply ptriv_intro; intros; lia.
Qed.

End OpenSim.


(* scanGroupOpen never touches the ECMAScript bit *)
Lemma group_open_useE gt v p g v' q :
  Parser.group_open is_word_char (captab_main tb) mco gt v p = POk (g, v', q) -> useE (gv_o v') = useE (gv_o v).
Proof.
  unfold Parser.group_open. intros E.
  destruct (is_nil p || negb (hd_is p 63) || nth_is 1 p 41).
  { destruct (useN (gv_o v) || gv_ign v); injection E as <- <- <-; reflexivity. }
  destruct (tl p) as [|ch p2]; [discriminate|].
  assert (CL : useE (clear_rtl (gv_o v)) = useE (gv_o v)) by (apply oeqv_useE; apply oeqv_clear_rtl).
  assert (ST : useE (set_rtl (gv_o v)) = useE (gv_o v)) by (apply oeqv_useE; apply oeqv_set_rtl).
  destruct (ch =? 58); [injection E as <- <- <-; reflexivity|].
  destruct (ch =? 61); [injection E as <- <- <-; exact CL|].
  destruct (ch =? 33); [injection E as <- <- <-; exact CL|].
  destruct (ch =? 62); [injection E as <- <- <-; reflexivity|].
  destruct ((ch =? 39) || (ch =? 60)).
  { destruct p2 as [|c2 p3]; [discriminate|].
    destruct ((c2 =? 61) || (c2 =? 33)).
    - destruct ((if ch =? 39 then 39 else 62) =? 39); [discriminate|]. injection E as <- <- <-. exact ST.
    - unfold Parser.group_name in E. cbn [gv_o gv_ign gv_autocap] in E.
      destruct (useE (gv_o v)) eqn:EE; [discriminate|].
      match type of E with pbind ?A _ = _ => destruct A as [[[capnum proceed] q0]|e q0| | |] end; cbn [pbind] in E; try discriminate.
      match type of E with pbind ?A _ = _ => destruct A as [[uncapnum q3]|e q3| | |] end; cbn [pbind] in E; try discriminate.
      match type of E with (if ?c then _ else _) = _ => destruct c end; [|discriminate]. injection E as <- <- <-. cbn [gv_o]. first [reflexivity | exact EE]. }
  destruct (ch =? 40).
  { unfold Parser.group_cond in E. cbn [gv_o gv_ign gv_autocap] in E.
    match type of E with pbind ?A _ = _ => destruct A as [[[gn q1]|]|e q1| | |] end; cbn [pbind] in E; try discriminate.
    - injection E as <- <- <-. reflexivity.
    - repeat match type of E with (if ?c then _ else _) = _ => destruct c end; try discriminate; injection E as <- <- <-; reflexivity. }
  destruct ((ch =? 80) && useRE2 (gv_o v)).
  { unfold Parser.group_pyname in E. cbn [gv_o gv_ign gv_autocap] in E.
    destruct (negb (longer p2 2)); [discriminate|]. destruct (negb (hd_is p2 60)); [discriminate|].
    destruct (is_word_char (nth 1 p2 0)); [|discriminate]. destruct (useE (gv_o v)) eqn:EE; [discriminate|].
    destruct (scan_word is_word_char (tl p2)) as [nm q0]. destruct (hd_is_not q0 62); [discriminate|].
    match type of E with (if ?c then _ else _) = _ => destruct c end; [|discriminate]. injection E as <- <- <-. cbn [gv_o]. first [reflexivity | exact EE]. }
  destruct (if gt =? T_ExprCond then (gv_o v, ch :: p2) else scan_options_text (gv_o v) (ch :: p2)) as [o2 q0] eqn:Eo.
  assert (R : useE o2 = useE (gv_o v)).
  { destruct (gt =? T_ExprCond); [inversion Eo; reflexivity|]. apply inline_options_keep_top_bits in Eo. tauto. }
  destruct q0 as [|c q1]; [discriminate|].
  destruct (c =? 41); [injection E as <- <- <-; exact R|].
  destruct (c =? 58); [|discriminate]. injection E as <- <- <-. exact R.
Qed.

(* ---------------------------------------------------------------- the simulation *)
Variable caps : list Z.
Hypothesis HF1 : incl (c_caps (cs_c cstF)) caps.
(* the ECMAScript bit of the option word the parse started with *)
Variable e0 : bool.
Hypothesis HF3 : e0 = true -> no_names tb = true.

Record Sim (cs : cst) (st : mst) (p : list Z) : Prop := mkSim {
  sm_o : oeqv (ms_o st) (cs_o cs);
  sm_os : Forall2 oeqv (ms_os st) (cs_os cs);
  sm_ign : cs_ign cs = ms_ign st;
  sm_auto : c_autocap (cs_c cs) = ms_autocap st;
  sm_E : useE (ms_o st) = e0;
  sm_Es : Forall (fun o => useE o = e0) (ms_os st);
  sm_cond : ms_ign st = true -> hd_is p 40 = true /\ starts_qhash (tl p) = false;
  sm_cinv : cinv mco (cs_c cs);
  sm_reach : reach cs p;
  sm_nn : e0 = true -> EN (cs_c cs) }.

Lemma Sim_Eall cs st p : Sim cs st p -> e0 = true -> Eall cs.
Proof.
  intros S He. split.
  - rewrite <- (oeqv_useE _ _ (sm_o _ _ _ S)), (sm_E _ _ _ S). exact He.
  - pose proof (sm_os _ _ _ S) as F2. pose proof (sm_Es _ _ _ S) as F1. revert F1.
    induction F2 as [|a b la lb Hab _ IH]; intros F1; [constructor|].
    inversion F1; subst. constructor; [rewrite <- (oeqv_useE _ _ Hab); congruence | apply IH; assumption].
Qed.

Lemma Sim_move cs st p st' q : Sim cs st p -> ctl st' = ctl st -> ms_ign st = false -> (reach cs p <-> reach cs q) -> Sim cs st' q.
Proof.
  intros [S1 S2 S3 S4 S5 S6 S7 S8 S9 S10] C I R. unfold ctl in C. injection C as C1 C2 C3 C4.
  constructor; rewrite ?C1, ?C2, ?C3, ?C4; auto.
  - intros H. congruence.
  - apply R. exact S9.
Qed.

Lemma blank_paren x p : hd_is p 40 = true -> starts_qhash (tl p) = false -> blank x BNorm p = POk p.
Proof.
  destruct p as [|c t]; [discriminate|]. cbn [hd_is tl]. intros H Q. assert (c = 40) by lia. subst c.
  cbn [blank]. change (is_space 40) with false. rewrite andb_false_r. cbn [Z.eqb Pos.eqb]. rewrite andb_false_r, Q. reflexivity.
Qed.

Lemma take_run_paren o t : take_run o (40 :: t) = ([], 40 :: t).
Proof.
  cbn [take_run]. assert (S : is_stopper o 40 = true) by (unfold is_stopper; destruct (useX o); reflexivity).
  rewrite S. reflexivity.
Qed.

(* the head of a round: blanks, the literal run, blanks *)
Lemma round_head cs st p p0 run p1 p2 : Sim cs st p ->
  scan_blank_full (ms_o st) p = POk p0 -> take_run (ms_o st) p0 = (run, p1) -> scan_blank_full (ms_o st) p1 = POk p2 ->
  reach cs p2 /\ (ms_ign st = true -> p2 = p /\ run = []).
Proof.
  intros S E0 Er E1. pose proof (oeqv_useX _ _ (sm_o _ _ _ S)) as HX.
  destruct (ms_ign st) eqn:Ig.
  - destruct (sm_cond _ _ _ S Ig) as [H40 Q].
    unfold scan_blank_full in E0. rewrite (blank_paren _ p H40 Q) in E0. inversion E0; subst p0.
    destruct p as [|c t]; [discriminate|]. cbn [hd_is] in H40. assert (c = 40) by lia. subst c.
    rewrite take_run_paren in Er. inversion Er; subst.
    unfold scan_blank_full in E1. rewrite (blank_paren _ (40 :: t) eq_refl Q) in E1. inversion E1; subst.
    split; [exact (sm_reach _ _ _ S) | auto].
  - split; [|discriminate].
    assert (CI : cs_ign cs = false) by (rewrite (sm_ign _ _ _ S); exact Ig).
    unfold scan_blank_full in E0, E1. rewrite HX in E0, E1.
    apply (blank_reach cs CI p1 p2 E1). apply (reach_tskip cs p0 p1); [rewrite <- HX; eapply take_run_tskip; exact Er|].
    apply (blank_reach cs CI p p0 E0). exact (sm_reach _ _ _ S).
Qed.


Local Notation tbm := (captab_main tb).
Local Notation add_run := (add_run simple_fold participates cat_in).
Local Notation add_alternate := (add_alternate cat_in).
Local Notation add_group := (add_group cat_in).
Local Notation pop_group := (pop_group cat_in).
Local Notation round_open := (round_open is_word_char cat_in).
Local Notation round_close := (round_close cat_in).
Local Notation scan_round := (scan_round is_word_char to_lower simple_fold participates cat_in cat_name).
Local Notation scan_loop_full := (scan_loop_full is_word_char to_lower simple_fold participates cat_in cat_name).

Lemma Sim_at cs st p st' q : Sim cs st p -> ctl st' = ctl st -> ms_ign st = false -> reach cs q -> Sim cs st' q.
Proof. intros S C I R. eapply Sim_move; [exact S | exact C | exact I |]. split; [intros _; exact R | intros _; exact (sm_reach _ _ _ S)]. Qed.

Lemma sim_after cs st p st1 q st' q' wq : Sim cs st p -> ms_ign st = false -> ctl st1 = ctl st -> ms_unit st1 <> None ->
  reach cs q -> after_unit st1 q = POk (st', q', wq) -> Sim cs st' q'.
Proof.
  intros S I C U R E.
  assert (O1 : oeqv (ms_o st1) (cs_o cs)) by (unfold ctl in C; injection C as C1 _ _ _; rewrite C1; exact (sm_o _ _ _ S)).
  assert (CI : cs_ign cs = false) by (rewrite (sm_ign _ _ _ S); exact I).
  destruct (after_unit_cursor st1 q st' q' wq cs O1 CI U E) as [C' RR].
  eapply Sim_at; [exact S | rewrite C'; exact C | exact I | apply RR; exact R].
Qed.

Lemma add_alternate_ctl st st' : add_alternate st = POk st' -> ctl st' = ctl st.
Proof.
  unfold Parser.add_alternate. destruct (is_cond_t (n_t (ms_group st))).
  - destruct (add_child cat_in (ms_group st) (reverse_left (ms_concat st))); cbn [of_res pbind]; try discriminate. intros H. inversion H; reflexivity.
  - destruct (add_child cat_in (ms_alt st) (reverse_left (ms_concat st))); cbn [of_res pbind]; try discriminate. intros H. inversion H; reflexivity.
Qed.

Lemma add_group_ctl st st' : add_group st = POk st' -> ctl st' = ctl st /\ ms_stack st' = ms_stack st.
Proof.
  unfold Parser.add_group. destruct (is_cond_t (n_t (ms_group st))).
  - destruct (add_child cat_in (ms_group st) (reverse_left (ms_concat st))) as [g'| | |]; cbn [of_res pbind]; try discriminate.
    match goal with |- (if ?c then _ else _) = _ -> _ => destruct c end; [discriminate|]. intros H. inversion H; split; reflexivity.
  - destruct (add_child cat_in (ms_alt st) (reverse_left (ms_concat st))) as [a'| | |]; cbn [of_res pbind]; try discriminate.
    destruct (add_child cat_in (ms_group st) a') as [g'| | |]; cbn [of_res pbind]; try discriminate. intros H. inversion H; split; reflexivity.
Qed.

Lemma pop_group_ctl st st' : pop_group st = POk st' -> ctl st' = ctl st.
Proof.
  unfold Parser.pop_group. destruct (ms_stack st) as [|[[g a0] c] r]; [discriminate|].
  destruct ((n_t g =? T_ExprCond) && match n_kids g with [] => true | _ => false end).
  - destruct (ms_unit st) as [u|]; [|discriminate].
    destruct (add_child cat_in g u); cbn [of_res pbind]; try discriminate. intros H. inversion H; reflexivity.
  - intros H. inversion H; reflexivity.
Qed.

(* ")" *)
Lemma sim_close cs st p st1 p3 st' nxt : Sim cs st p -> ms_ign st = false -> ctl st1 = ctl st -> reach cs (41 :: p3) ->
  round_close st1 p3 = POk (st', nxt) -> exists q wq cs', nxt = Some (q, wq) /\ Sim cs' st' q.
Proof.
  intros S I C R E. unfold Parser.round_close in E. destruct (ms_stack st1) as [|f r] eqn:Es; [discriminate|].
  destruct (add_group st1) as [st2|e q| | |] eqn:E2; cbn [pbind] in E; try discriminate.
  destruct (pop_group st2) as [st3|e q| | |] eqn:E3; cbn [pbind] in E; try discriminate.
  destruct (add_group_ctl _ _ E2) as [C2 _]. pose proof (pop_group_ctl _ _ E3) as C3.
  assert (C13 : ctl st3 = ctl st) by (rewrite C3, C2; exact C).
  unfold ctl in C13. injection C13 as K1 K2 K3 K4.
  unfold pop_options in E. destruct (ms_os st3) as [|o1 os1] eqn:Eos; [discriminate|]. cbn [pbind] in E.
  pose proof (sm_os _ _ _ S) as F2. rewrite <- K2 in F2. inversion F2 as [|? b1 ? bs Ob Obs Eq1 Eq2]; subst.
  set (cs' := mkCS (cs_c cs) b1 bs (cs_ign cs)).
  assert (R' : reach cs' p3).
  { apply reach_cons in R. destruct R as [st'' [qq [ES RR]]]. rewrite (step41 cs p3 b1 bs (eq_sym Eq2)) in ES. inversion ES; subst. exact RR. }
  set (st4 := mkMS (ms_stack st3) (ms_group st3) (ms_alt st3) (ms_concat st3) (ms_unit st3) o1 os1 (ms_ign st3) (ms_autocap st3)) in *.
  pose proof (sm_Es _ _ _ S) as FE. rewrite <- K2 in FE. inversion FE as [|? ? E1 Es']; subst.
  assert (S4 : Sim cs' st4 p3).
  { constructor; cbn [cs' st4 ms_o ms_os ms_ign ms_autocap cs_o cs_os cs_ign cs_c]; auto.
    - rewrite K3. exact (sm_ign _ _ _ S).
    - rewrite K4. exact (sm_auto _ _ _ S).
    - rewrite K3, I. discriminate.
    - exact (sm_cinv _ _ _ S).
    - exact (sm_nn _ _ _ S). }
  destruct (ms_unit st4) as [u|] eqn:EU.
  - destruct (after_unit st4 p3) as [[[st5 q5] wq]|e q0| | |] eqn:EA; cbn [pbind] in E; try discriminate.
    inversion E; subst. exists q5, wq, cs'. split; [reflexivity|].
    eapply sim_after; [exact S4 | cbn; rewrite K3; exact I | reflexivity | rewrite EU; discriminate | exact R' | exact EA].
  - inversion E; subst. exists p3, false, cs'. split; [reflexivity | exact S4].
Qed.


Lemma in_caps cs' q k : reach cs' q -> In k (c_caps (cs_c cs')) -> zmem k caps = true.
Proof. intros R H. apply zmem_In. apply HF1. destruct (reach_mono cs' q R) as [M _]. apply M. exact H. Qed.

(* "(" *)
Lemma sim_open cs st p st1 p3 st' nxt : Sim cs st p -> ctl st1 = ctl st -> ms_unit st1 = None ->
  reach cs (40 :: p3) -> starts_qhash p3 = false ->
  round_open tbm mco st1 p3 = POk (st', nxt) ->
  (nxt = Some (p3, false) /\ hd_is p3 63 = true /\ ms_unit st' = None) \/
  (((is_nil p3 || negb (hd_is p3 63) || nth_is 1 p3 41) = true -> (useN (ms_o st) || ms_ign st) = false ->
    zmem (ms_autocap st) caps = true) /\
   exists q wq cs', nxt = Some (q, wq) /\ Sim cs' st' q).
Proof.
  intros S C U R Q E. unfold ctl in C. injection C as C1 C2 C3 C4.
  pose proof (sm_o _ _ _ S) as So. pose proof (sm_E _ _ _ S) as SE.
  unfold Parser.round_open in E. rewrite C1, C3, C4 in E.
  destruct (useRE2 (ms_o st) && negb (ms_ign st) && hd_is p3 63 && nth_is 1 p3 80 && nth_is 2 p3 61) eqn:PY.
  { (* (?P=name) under RE2: no group *)
    right. split.
    { intros HP _. exfalso. destruct p3 as [|c0 [|c1 p5]]; try (rewrite ?andb_false_r in PY; discriminate).
      cbn [hd_is nth_is skipn] in PY. cbn [is_nil hd_is nth_is skipn negb orb] in HP. lia. }
    destruct (python_backref is_word_char tbm (ms_o st) (skipn 3 p3)) as [[x q]|e q| | |] eqn:EP; cbn [pbind] in E; try discriminate.
    destruct (after_unit (set_unit st1 (Some x)) q) as [[[st5 q5] wq]|e q0| | |] eqn:EA; cbn [pbind] in E; try discriminate.
    inversion E; subst. exists q5, wq, cs. split; [reflexivity|].
    assert (I : ms_ign st = false) by (destruct (ms_ign st); [cbn [negb] in PY; rewrite andb_false_r in PY; cbn [andb] in PY; discriminate | reflexivity]).
    eapply (sim_after cs st p (set_unit st1 (Some x)) q st' q5 wq S I); [unfold ctl, set_unit; cbn [ms_o ms_os ms_ign ms_autocap]; rewrite C1, C2, C3, C4; reflexivity | unfold set_unit; cbn [ms_unit]; discriminate | | exact EA].
    (* the pre-scan: "(" pushes, "?P=name" are plain characters, ")" pops *)
    destruct p3 as [|c0 [|c1 [|c2 p6]]]; try (rewrite ?andb_false_r in PY; discriminate).
    cbn [hd_is nth_is skipn] in PY. assert (c0 = 63) by lia. assert (c1 = 80) by lia. assert (c2 = 61) by lia. subst c0 c1 c2.
    cbn [skipn] in EP. unfold Parser.python_backref in EP. destruct p6 as [|ch p7]; [discriminate|]. destruct (useE (ms_o st)); [discriminate|].
    destruct (negb (is_word_char ch)); [discriminate|].
    pose proof (scan_word_tskip (useX (cs_o cs)) (ch :: p7)) as TW. destruct (scan_word is_word_char (ch :: p7)) as [nm q0]. cbn [snd] in TW.
    destruct (negb (is_nil nm) && hd_is q0 41) eqn:EH; [|discriminate]. destruct (ct_name tbm nm); [|discriminate]. inversion EP; subst.
    set (cs1 := mkCS (cs_c cs) (cs_o cs) (cs_o cs :: cs_os cs) false).
    assert (S1 : prescan_open mco cs (40 :: 63 :: 80 :: 61 :: ch :: p7) (63 :: 80 :: 61 :: ch :: p7) = POk (cs1, 80 :: 61 :: ch :: p7)).
    { unfold Parser.prescan_open. change (starts_qhash (63 :: 80 :: 61 :: ch :: p7)) with false. cbv iota.
      change (hd_is (63 :: 80 :: 61 :: ch :: p7) 63) with true. cbv iota. cbn [tl].
      change (hd_is (80 :: 61 :: ch :: p7) 60) with false. change (hd_is (80 :: 61 :: ch :: p7) 39) with false. cbn [orb]. rewrite andb_false_r.
      change (nth_is 1 (80 :: 61 :: ch :: p7) 60) with false. rewrite andb_false_r.
      replace (scan_options_text (cs_o cs) (80 :: 61 :: ch :: p7)) with (cs_o cs, 80 :: 61 :: ch :: p7) by reflexivity.
      cbn [hd_is Z.eqb Pos.eqb cs_c cs_o cs_os cs_ign set_cs_ign]. reflexivity. }
    apply (psteps_reach cs (40 :: 63 :: 80 :: 61 :: ch :: p7) cs (tl q0)); [|exact R].
    eapply ps_step; [rewrite step40; exact S1|].
    eapply psteps_trans; [apply psteps_tskip; apply tskip_cons; apply ptriv_intro; intros; lia|].
    eapply psteps_trans; [apply psteps_tskip; apply tskip_cons; apply ptriv_intro; intros; lia|].
    eapply psteps_trans; [apply psteps_tskip; exact TW|].
    destruct q0 as [|c q0']; [rewrite andb_false_r in EH; discriminate|]. apply andb_prop in EH. destruct EH as [_ EH]. cbn [hd_is] in EH.
    assert (c = 41) by lia. subst c. cbn [tl].
    assert (CI : cs_ign cs = false) by (rewrite (sm_ign _ _ _ S); exact I).
    apply psteps_one. rewrite (step41 cs1 q0' (cs_o cs) (cs_os cs) eq_refl). cbn [cs1 cs_c cs_ign].
    clear - CI. destruct cs as [c0 o0 os0 i0]. cbn in CI |- *. subst i0. reflexivity. }
  (* scanGroupOpen *)
  destruct (Parser.group_open is_word_char tbm mco (n_t (ms_group st1)) (mkGV (ms_o st) (ms_ign st) (ms_autocap st)) p3) as [[[g v] q]|e q| | |] eqn:EG;
    cbn [pbind] in E; try discriminate.
  destruct (open_sim cs (ms_o st) (ms_autocap st) So (sm_auto _ _ _ S) (sm_cinv _ _ _ S) _ (ms_ign st) p3 g v q (sm_ign _ _ _ S) R Q EG)
    as [[D1 [D2 [D3 D4]]] | [[cs' [qp [PS [NR [P1 [P2 [P3 [P4 [P5 P6]]]]]]]]] PL]].
  - left. subst q. destruct g as [gn|]; [|congruence]. inversion E; subst. split; [reflexivity|]. split; [exact D1 | cbn; exact U].
  - right.
    assert (R' : reach cs' q) by (apply (reach_near cs' qp q NR); apply (psteps_reach _ _ _ _ PS); exact R).
    split.
    { intros HP HN. eapply in_caps; [exact R'|]. apply P6; [apply PL; exact HP | exact HN]. }
    pose proof (group_open_useE _ _ _ _ _ _ EG) as GE. cbn [gv_o] in GE.
    destruct g as [gn|]; inversion E; subst; exists q, false, cs'; (split; [reflexivity|]).
    + constructor; cbn [start_group push_group ms_o ms_os ms_ign ms_autocap]; auto.
      * rewrite P4, C2. constructor; [exact So | exact (sm_os _ _ _ S)].
      * rewrite GE. exact SE.
      * rewrite C2. constructor; [exact SE | exact (sm_Es _ _ _ S)].
      * eapply psteps_cinv; [exact PS | exact (sm_cinv _ _ _ S)].
      * intros He. exact (proj2 (psteps_EN _ _ _ _ PS (Sim_Eall _ _ _ S He) (sm_nn _ _ _ S He))).
    + constructor; cbn [ms_o ms_os ms_ign ms_autocap]; auto.
      * rewrite P4, C2. exact (sm_os _ _ _ S).
      * rewrite GE. exact SE.
      * rewrite C2. exact (sm_Es _ _ _ S).
      * eapply psteps_cinv; [exact PS | exact (sm_cinv _ _ _ S)].
      * intros He. exact (proj2 (psteps_EN _ _ _ _ PS (Sim_Eall _ _ _ S He) (sm_nn _ _ _ S He))).
Qed.


(* ---------------------------------------------------------------- one round *)
Definition hac (st : mst) (p : list Z) : Prop :=
  forall p0 run p1 p3, scan_blank_full (ms_o st) p = POk p0 -> take_run (ms_o st) p0 = (run, p1) ->
       scan_blank_full (ms_o st) p1 = POk (40 :: p3) ->
       (is_nil p3 || negb (hd_is p3 63) || nth_is 1 p3 41) = true -> (useN (ms_o st) || ms_ign st) = false ->
       zmem (ms_autocap st) caps = true.

Lemma add_run_ctl st run isq st1 : add_run st run isq = POk st1 -> ctl st1 = ctl st.
Proof.
  intros E. destruct (add_run_fields simple_fold participates cat_in st run isq st1 E) as [F1 [F2 [F3 [F4 _]]]].
  unfold ctl. rewrite F1, F2, F3, F4. reflexivity.
Qed.


Lemma sim_round cs st p wasq st' nxt :
  minv st -> ms_unit st = None -> Sim cs st p ->
  scan_round tbm mco st p wasq = POk (st', nxt) ->
  (exists q, nxt = Some (q, false) /\ hd_is q 63 = true /\ ms_unit st' = None) \/
  (hac st p /\ match nxt with Some (q, _) => exists cs', Sim cs' st' q | None => True end).
Proof.
  intros Iv Hu SM E. unfold Parser.scan_round in E.
  destruct (scan_blank_full (ms_o st) p) as [p0|e q| | |] eqn:E0; cbn [pbind] in E; try discriminate.
  destruct (take_run (ms_o st) p0) as [run p1] eqn:Er.
  destruct (scan_blank_full (ms_o st) p1) as [p2|e q| | |] eqn:E1; cbn [pbind] in E; try discriminate.
  destruct (round_head cs st p p0 run p1 p2 SM E0 Er E1) as [R2 IGN].
  (* the hypothesis on the number of a plain "(" speaks of this round's "(" only *)
  assert (HAC0 : forall ch p3, p2 = ch :: p3 -> (ch =? 40) = false -> hac st p).
  { intros ch p3 -> C. intros p0' run' p1' p3' H0 Hr H1 _ _. rewrite E0 in H0. inversion H0; subst p0'.
    rewrite Er in Hr. inversion Hr; subst. rewrite E1 in H1. inversion H1; subst. discriminate. }
  destruct p2 as [|ch p3].
  { right. split.
    - intros p0' run' p1' p3' H0 Hr H1 _ _. rewrite E0 in H0. inversion H0; subst p0'. rewrite Er in Hr. inversion Hr; subst. rewrite E1 in H1. discriminate.
    - destruct (add_run st run false) as [st1| | | |]; cbn [pbind] in E; try discriminate. inversion E; subst. exact I. }
  (* with ignoreNextParen set the round starts at its "(" *)
  assert (IG40 : ms_ign st = true -> ch = 40).
  { intros H. destruct (IGN H) as [EP _]. destruct (sm_cond _ _ _ SM H) as [H40 _]. rewrite <- EP in H40. cbn [hd_is] in H40. lia. }
  destruct (negb (is_special ch)) eqn:Esp.
  { right. assert (I : ms_ign st = false).
    { destruct (ms_ign st) eqn:Ig; [|reflexivity]. rewrite (IG40 eq_refl) in Esp. discriminate. }
    split; [apply (HAC0 ch p3 eq_refl); destruct (ch =? 40) eqn:C; [assert (ch = 40) by lia; subst ch; discriminate | reflexivity]|].
    destruct (add_run st run false) as [st1| | | |] eqn:Ea; cbn [pbind] in E; try discriminate. inversion E; subst.
    exists cs. eapply Sim_at; [exact SM | eapply add_run_ctl; exact Ea | exact I | exact R2]. }
  destruct (add_run st run (is_quantifier ch)) as [st1| | | |] eqn:Ea; cbn [pbind] in E; try discriminate.
  pose proof (add_run_ctl _ _ _ _ Ea) as C1.
  pose proof (add_run_ok is_word_char to_lower simple_fold participates cat_in cat_name st run (is_quantifier ch) (proj1 Iv) Hu) as A. rewrite Ea in A.
  destruct A as [A1 [A2 [A3 A4]]].
  assert (NQ : is_quantifier ch = false -> ms_unit st1 = None).
  { intros Hq. destruct (ms_unit st1); [|reflexivity]. destruct (A3 ltac:(discriminate)) as [_ F]. congruence. }
  pose proof (sm_o _ _ _ SM) as So. pose proof (sm_E _ _ _ SM) as SE.
  (* a unit scanned under the current options, then its quantifier *)
  assert (UNIT : forall x q, (ch =? 40) = false -> reach cs q ->
            (pdo r <- after_unit (set_unit st1 (Some x)) q ; let '(st', q', wq) := r in POk (st', Some (q', wq))) = POk (st', nxt) ->
            (exists q0, nxt = Some (q0, false) /\ hd_is q0 63 = true /\ ms_unit st' = None) \/
            (hac st p /\ match nxt with Some (q0, _) => exists cs', Sim cs' st' q0 | None => True end)).
  { intros x q C40 Rq EU. right. split; [apply (HAC0 ch p3 eq_refl C40)|].
    destruct (after_unit (set_unit st1 (Some x)) q) as [[[st5 q5] wq]|e q0| | |] eqn:EA; cbn [pbind] in EU; try discriminate.
    inversion EU; subst. exists cs.
    assert (I : ms_ign st = false) by (destruct (ms_ign st) eqn:Ig; [rewrite (IG40 eq_refl) in C40; discriminate | reflexivity]).
    eapply (sim_after cs st p (set_unit st1 (Some x)) q st' q5 wq SM I); [| unfold set_unit; cbn [ms_unit]; discriminate | exact Rq | exact EA].
    unfold ctl, set_unit. cbn [ms_o ms_os ms_ign ms_autocap]. exact C1. }
  destruct (ch =? 91) eqn:K1.
  { assert (ch = 91) by lia. subst ch.
    destruct (Parser.cs_scan is_word_char cat_name (S (length p3)) false (ms_o st) p3) as [[syn q]|e q| | |] eqn:ECS; cbn [pbind] in E; try discriminate.
    destruct (Parser.class_node to_lower simple_fold cat_in (ms_o st) syn) as [x| | | |]; cbn [pbind] in E; try discriminate.
    apply (UNIT x q eq_refl); [|exact E].
    destruct (cs_scan_agr (S (length p3)) (ms_o st) (cs_o cs) p3 syn q So ECS) as [syn' ES].
    apply reach_cons in R2. destruct R2 as [st'' [qq [EST RR]]].
    unfold Parser.prescan_step in EST. cbn [Z.eqb Pos.eqb] in EST. rewrite ES in EST. cbn [ignore_err pbind] in EST. inversion EST; subst. exact RR. }
  destruct (ch =? 40) eqn:K2.
  { assert (ch = 40) by lia. subst ch.
    assert (Q : starts_qhash p3 = false).
    { unfold scan_blank_full in E1. destruct (blank_head_full _ _ _ _ _ E1) as [_ [_ H3]]. cbn [Z.eqb Pos.eqb andb] in H3. exact H3. }
    destruct (sim_open cs st p st1 p3 st' nxt SM C1 (NQ eq_refl) R2 Q E) as [[D1 [D2 D3]] | [HA [q [wq [cs' [-> SM']]]]]].
    - left. exists p3. auto.
    - right. split; [|exists cs'; exact SM'].
      intros p0' run' p1' p3' H0 Hr H1 HP HN. rewrite E0 in H0. inversion H0; subst p0'. rewrite Er in Hr. inversion Hr; subst.
      rewrite E1 in H1. inversion H1; subst. apply HA; assumption. }
  assert (I : ms_ign st = false) by (destruct (ms_ign st) eqn:Ig; [rewrite (IG40 eq_refl) in K2; discriminate | reflexivity]).
  destruct (ch =? 124) eqn:K3.
  { right. split; [apply (HAC0 ch p3 eq_refl K2)|].
    destruct (add_alternate st1) as [st2|e q| | |] eqn:E2; cbn [pbind] in E; try discriminate. inversion E; subst.
    exists cs. eapply Sim_at; [exact SM | rewrite (add_alternate_ctl _ _ E2); exact C1 | exact I|].
    apply (reach_tskip cs (ch :: p3) p3); [apply tskip_cons; apply ptriv_intro; intros; lia | exact R2]. }
  destruct (ch =? 41) eqn:K4.
  { right. split; [apply (HAC0 ch p3 eq_refl K2)|]. assert (ch = 41) by lia. subst ch.
    destruct (sim_close cs st p st1 p3 st' nxt SM I C1 R2 E) as [q [wq [cs' [-> SM']]]]. exists cs'. exact SM'. }
  destruct (ch =? 92) eqn:K5.
  { assert (ch = 92) by lia. subst ch.
    destruct (Parser.scan_backslash_full is_word_char to_lower simple_fold cat_in cat_name false tbm (ms_o st) p3) as [[b0 q']|e q| | |] eqn:EB; cbn [pbind] in E; try discriminate.
    destruct b0 as [x|]; [|discriminate].
    apply (UNIT x q' eq_refl); [|exact E].
    assert (HN : useE (ms_o st) = true -> ct_named tbm = ct_named (captab_pre (cs_c cs))).
    { intros He. rewrite SE in He. destruct (sm_nn _ _ _ SM He) as [N _]. cbn [captab_main captab_pre ct_named]. rewrite N, (HF3 He). reflexivity. }
    destruct (scan_backslash_full_bsagr tbm (captab_pre (cs_c cs)) (ms_o st) (cs_o cs) So HN (useX (cs_o cs)) p3 (BNode x) q' EB) as [q [EI T]].
    apply (reach_tskip cs q' q T).
    apply reach_cons in R2. destruct R2 as [st'' [qq [EST RR]]].
    unfold Parser.prescan_step in EST. cbn [Z.eqb Pos.eqb] in EST.
    destruct p3 as [|c p4]; [cbn in EB; discriminate|]. rewrite EI in EST. cbn [pbind] in EST. inversion EST; subst. exact RR. }
  destruct ((ch =? 94) || (ch =? 36) || (ch =? 46)) eqn:K6.
  { destruct (Parser.simple_unit simple_fold cat_in (ms_o st) ch) as [x| | | |]; cbn [pbind] in E; try discriminate.
    apply (UNIT x p3 eq_refl); [|exact E].
    apply (reach_tskip cs (ch :: p3) p3); [apply tskip_cons; apply ptriv_intro; intros; lia | exact R2]. }
  destruct ((ch =? 123) || (ch =? 42) || (ch =? 43) || (ch =? 63)) eqn:K7; [|discriminate].
  destruct (ms_unit st1) as [u|] eqn:Eu; [|discriminate].
  right. split; [apply (HAC0 ch p3 eq_refl K2)|].
  destruct (after_unit st1 (ch :: p3)) as [[[st2 q2] wq]|e q0| | |] eqn:EA; cbn [pbind] in E; try discriminate.
  inversion E; subst. exists cs.
  eapply (sim_after cs st p st1 (ch :: p3) st' q2 wq SM I C1); [rewrite Eu; discriminate | exact R2 | exact EA].
Qed.


(* ---------------------------------------------------------------- the loop *)
Hypothesis Hslot : forall k, ct_slot tbm k = true -> zmem k caps = true.
Hypothesis Hname : forall s g, ct_name tbm s = Some g -> zmem g caps = true.

(* after "(?)" the next round meets the quantifier "?" with nothing to repeat *)
Lemma doomed_round st q wasq st' nxt : hd_is q 63 = true -> ms_unit st = None ->
  scan_round tbm mco st q wasq = POk (st', nxt) -> False.
Proof.
  intros H63 Hu E. destruct q as [|c r]; [discriminate|]. cbn [hd_is] in H63. assert (c = 63) by lia. subst c.
  unfold Parser.scan_round in E.
  assert (B : scan_blank_full (ms_o st) (63 :: r) = POk (63 :: r)).
  { unfold scan_blank_full. cbn [blank]. change (is_space 63) with false. rewrite andb_false_r. cbn [Z.eqb Pos.eqb]. rewrite andb_false_r. reflexivity. }
  rewrite B in E. cbn [pbind] in E.
  assert (T : take_run (ms_o st) (63 :: r) = ([], 63 :: r)).
  { cbn [take_run]. assert (SS : is_stopper (ms_o st) 63 = true) by (unfold is_stopper; destruct (useX (ms_o st)); reflexivity).
    rewrite SS. reflexivity. }
  rewrite T, B in E. cbn [pbind] in E.
  change (is_special 63) with true in E. cbn [negb] in E.
  unfold Parser.add_run in E. cbn [pbind] in E. cbn [Z.eqb Pos.eqb orb] in E. rewrite Hu in E. discriminate.
Qed.

Lemma sim_loop fuel : forall st p wasq stF, minv st -> oinv (fun k => zmem k caps) st -> ms_unit st = None -> einv st -> (exists cs, Sim cs st p) ->
  scan_loop_full fuel tbm mco st p wasq = POk stF -> minv stF /\ oinv (fun k => zmem k caps) stF /\ einv stF /\ ms_ign stF = false.
Proof.
  induction fuel as [|f IH]; intros st p wasq stF Iv Ho Hu He [cs SM] E; [discriminate|].
  cbn [Parser.scan_loop_full] in E. destruct p as [|c p'].
  { inversion E; subst. split; [exact Iv|]. split; [exact Ho|]. split; [exact He|].
    destruct (ms_ign stF) eqn:IG; [|reflexivity]. destruct (sm_cond _ _ _ SM IG) as [H _]. discriminate. }
  destruct (scan_round tbm mco st (c :: p') wasq) as [[st' nxt]|e q| | |] eqn:ER; cbn [pbind] in E; try discriminate.
  pose proof (scan_round_ok is_word_char to_lower simple_fold participates cat_in cat_name tbm mco st (c :: p') wasq Iv Hu ltac:(discriminate)) as RR.
  rewrite ER in RR.
  pose proof (sm_cond _ _ _ SM) as Hi.
  destruct (scan_round_x (fun k => zmem k caps) tbm Hslot Hname is_word_char to_lower simple_fold participates cat_in cat_name mco st (c :: p') wasq st' nxt Hu He Hi ER) as [He' Hn].
  destruct (sim_round cs st (c :: p') wasq st' nxt Iv Hu SM ER) as [[q [-> [H63 U']]] | [HA NX]].
  - exfalso. destruct f as [|f']; [discriminate|]. cbn [Parser.scan_loop_full] in E.
    destruct q as [|c0 q']; [discriminate|].
    destruct (scan_round tbm mco st' (c0 :: q') false) as [[st2 nxt2]|e q2| | |] eqn:ER2; cbn [pbind] in E; try discriminate.
    exact (doomed_round st' (c0 :: q') false st2 nxt2 H63 U' ER2).
  - pose proof (scan_round_o (fun k => zmem k caps) tbm Hslot Hname is_word_char to_lower simple_fold participates cat_in cat_name mco st (c :: p') wasq st' nxt Iv Ho Hu He Hi HA ER) as Ho'.
    destruct nxt as [[q wq]|].
    + cbn [round_res] in RR. destruct RR as [R1 [R2 _]]. eapply IH; [exact R1 | exact Ho' | exact R2 | exact He' | exact NX | exact E].
    + inversion E; subst. cbn [round_res] in RR. auto.
Qed.

End Agree.

(* ---------------------------------------------------------------- syntax.Parse builds well-formed trees *)
Section Final.
Variable is_word_char : Z -> bool.
Variable to_lower : Z -> Z.
Variable simple_fold : Z -> Z.
Variable participates : Z -> bool.
Variable cat_in : Z -> Z -> bool.
Variable cat_name : list Z -> Z.
Hypothesis HW : forall c, is_word_char c = true -> negb (zmem c [33; 35; 39; 40; 41; 45; 60; 61; 62; 63; 91; 92]) = true.
Hypothesis HD : forall c, (49 <=? c) && (c <=? 57) = true -> is_word_char c = true.

Local Notation parse := (parse is_word_char to_lower simple_fold participates cat_in cat_name).

(* Every option word.  Captop below MaxInt32 (no group numbered 2^31-1, fewer than 2^31-1 groups). *)
Theorem parse_tree_wf o mco_flag p t caps captop :
  captop < maxint32 ->
  parse o mco_flag p = Ok (PR_Tree t caps captop) ->
  wf (fun k => zmem k caps) t.
Proof.
  intros HT E. unfold Parser.parse in E.
  destruct (negb pl_bounds_ok); [discriminate|].
  destruct (negb (forallb (fun c => 0 <=? c) p)); [discriminate|].
  set (mco := mco_flag || useE o || useRE2 o) in *.
  destruct (count_captures is_word_char to_lower simple_fold cat_in cat_name mco o p) as [tb|e q| | |] eqn:EC; cbn [pbind] in E; try discriminate.
  destruct (scan_regex is_word_char to_lower simple_fold participates cat_in cat_name (captab_main tb) mco o p) as [t0|e q| | |] eqn:ES;
    cbn [pbind] in E; try discriminate.
  inversion E; subst t0 caps captop. clear E.
  destruct (count_captures_table is_word_char to_lower simple_fold participates cat_in cat_name mco o p tb EC)
    as [TK [stF [EL [IN [CW NM]]]]].
  pose proof TK as [TS TZ TN TB TL TV].
  (* what the main pass reads from the table *)
  assert (Hslot : forall k, ct_slot (captab_main tb) k = true -> zmem k (t_caps tb) = true) by (intros k H; exact H).
  assert (Hname : forall s g, ct_name (captab_main tb) s = Some g -> zmem g (t_caps tb) = true).
  { intros s g H. cbn [captab_main ct_name] in H. destruct (is_name tb s) eqn:EN; [|discriminate]. inversion H; subst g.
    specialize (TV HT). unfold vals_ok in TV. unfold is_name, slot_from_name in *.
    destruct (t_capnames tb) as [m|]; [|discriminate]. apply amem_aget in EN. destruct EN as [v Ev].
    rewrite (aget0_some _ _ _ Ev). apply zmem_In. eapply TV. exact Ev. }
  assert (HF2 : mco = true -> forall s v, aget s (names_of (cs_c stF)) = Some v -> ct_name (captab_main tb) s = Some v).
  { intros Em s v Hs. destruct (NM Em s v Hs) as [m [E1 E2]]. cbn [captab_main ct_name]. unfold is_name, slot_from_name. rewrite E1.
    assert (A : amem s m = true) by (apply amem_aget; exists v; exact E2). rewrite A, (aget0_some _ _ _ E2). reflexivity. }
  unfold Parser.scan_regex in ES.
  set (st0 := mkMS [] (mk_node_mn T_Capture o 0 (-1)) (mk_node T_Alternate o) (mk_node T_Concatenate o) None o [] false 1) in *.
  destruct (scan_loop_full is_word_char to_lower simple_fold participates cat_in cat_name (S (length p)) (captab_main tb) mco st0 p false)
    as [st| | | |] eqn:ELP; cbn [pbind] in ES; try discriminate.
  assert (I0 : minv st0).
  { split; [|reflexivity]. constructor; cbn; auto; (split; [constructor | reflexivity]). }
  assert (O0 : oinv (fun k => zmem k (t_caps tb)) st0) by (apply oinv_init; apply zmem_In; exact TZ).
  assert (HF3 : useE o = true -> no_names tb = true).
  { intros He. exact (count_captures_nonames is_word_char to_lower simple_fold cat_in cat_name mco o p tb He EC). }
  assert (S0 : exists cs, Sim is_word_char to_lower simple_fold cat_in cat_name mco stF (useE o) cs st0 p).
  { exists (mkCS c_init o [] false). constructor; cbn [st0 ms_o ms_os ms_ign ms_autocap cs_o cs_os cs_ign cs_c]; auto.
    - apply oeqv_refl.
    - intros H; discriminate.
    - apply cinv_init.
    - exists (S (length p)). exact EL.
    - intros _. apply EN_init. }
  assert (E0 : einv st0) by (intros H; discriminate).
  destruct (sim_loop is_word_char to_lower simple_fold participates cat_in cat_name HW HD mco stF tb HF2 (t_caps tb) IN (useE o) HF3 Hslot Hname
              (S (length p)) st0 p false st I0 O0 eq_refl E0 S0 ELP) as [IvF [OF [EF GF]]].
  destruct (ms_stack st); [|discriminate].
  destruct (add_group cat_in st) as [st'| | | |] eqn:EG; cbn [pbind] in ES; try discriminate.
  destruct (ms_unit st') as [u|] eqn:EU; [|discriminate]. inversion ES; subst u.
  exact (scan_end_o (fun k => zmem k (t_caps tb)) (captab_main tb) Hslot Hname is_word_char to_lower simple_fold participates cat_in cat_name st st' t (proj1 IvF) OF EF GF EG EU).
Qed.

End Final.
