(* Per-opcode lemmas for Ref (back-reference), by symbolic evaluation of VM.step; root-slot liftings. *)
From Verif Require Import Base.Prelude Model.Tree Model.Spec Model.VM Model.Writer Gen.RunnerGen
  Proofs.VMU Proofs.VMUOps Proofs.VMUOps2 Proofs.VMCapacityProofs.
From Coq Require Import Relations ZifyBool.

Section Ops7.
Variable e : env.
Variable p : program.
Hypothesis tc_nonneg : 0 <= trackcount p.

Notation ustep := (VMU.ustep e p).
Notation mk := VMU.mk.

Ltac start H0 :=
  unfold VMU.ustep, step; cbn [repad VMU.mk pc mode tp track stack crawl mcaps tcap scap]; rewrite H0.
Ltac fin := cbn [bind cont norm VMU.mk repad set_pc set_tp set_track set_stack set_caps set_tcap set_scap pc mode tp track stack crawl mcaps tcap scap app];
            try reflexivity.
Ltac pcs := cbn [repad VMU.mk set_pc set_tp set_track set_stack set_caps pc]; lia.
Ltac adv n H := erewrite (advance_at p _ _ n) by (first [exact H | pcs]).
Ltac opn a H := erewrite (opnd_at p _ _ a) by (first [exact H | pcs]).
Ltac fail_to H3 := (erewrite brk_ok; [| cbn [repad VMU.mk set_pc set_tp set_track set_stack set_caps track]; reflexivity | exact H3 | room | room]).

Lemma rtl_of_ref o : rtl_of (Ref + bits_of o) = is_rtl o.
Proof. unfold rtl_of, bits_of. destruct (is_rtl o), (is_ci o); reflexivity. Qed.
Lemma ci_of_ref o : ci_of (Ref + bits_of o) = is_ci o.
Proof. unfold ci_of, bits_of. destruct (is_rtl o), (is_ci o); reflexivity. Qed.

Lemma cmp_ref_spec ci : forall n i p0, 0 <= i -> i + Z.of_nat n <= tlen e -> 0 <= p0 -> p0 + Z.of_nat n <= tlen e ->
  cmp_ref e ci n i p0 = Some (ref_match_at e ci n i p0).
Proof.
  induction n as [|n IH]; intros i p0 Hi Hil Hp Hpl; cbn [cmp_ref ref_match_at]; [reflexivity|].
  rewrite !text_at_ok by lia.
  destruct (if ci then lower e (char_at e i) =? lower e (char_at e p0) else char_at e i =? char_at e p0);
    cbn [andb]; [|reflexivity].
  apply IH; lia.
Qed.

Definition ref_cond (o i len t : Z) : bool :=
  if avail e o t <? len then false
  else ref_match_at e (is_ci o) (Z.to_nat len) i (if is_rtl o then t - len else t).

Lemma ustep_ref_set_ok o g i len pc0 t T S C M w2 :
  code_at p pc0 = Some (Ref + bits_of o) -> code_at p (pc0 + 1) = Some g -> code_at p (pc0 + 2) = Some w2 ->
  vm_is_matched g M = Some true -> vm_match_index g M = Some i -> vm_match_length g M = Some len ->
  0 <= i -> 0 <= len -> i + len <= tlen e -> 0 <= t <= tlen e -> ref_cond o i len t = true ->
  ustep (mk pc0 0 t T S C M) = Ok (Next (mk (pc0 + 2) 0 (t + dir o * len) T S C M)).
Proof.
  intros H0 H1 H2 Hm Hix Hln Hi Hl Hil Ht Hc.
  set (w := Ref + bits_of o) in *.
  assert (Hw : Z.land w 63 = Ref) by (apply cp_land_bits; cbv; split; congruence).
  assert (Hr : rtl_of w = is_rtl o) by apply rtl_of_ref.
  assert (Hci : ci_of w = is_ci o) by apply ci_of_ref.
  clearbody w. unfold ref_cond in Hc.
  start H0. rewrite Hw. cbn -[opnd fwdchars cmp_ref brk advance vm_is_matched vm_match_index vm_match_length Z.to_nat].
  opn (pc0 + 1) H1. cbn [bind]. cbn [mcaps repad VMU.mk]. rewrite Hm, Hix, Hln.
  unfold fwdchars. rewrite Hr, Hci. cbn [tp repad VMU.mk].
  unfold avail, dir in *. destruct (is_rtl o).
  - destruct (t <? len) eqn:E; [discriminate|].
    rewrite cmp_ref_spec by lia. rewrite Hc. adv (pc0 + 2) H2.
    fin; unfold norm, set_pc, set_tp, repad, VMU.mk; cbn [pc mode tp track stack crawl mcaps]; repeat f_equal; lia.
  - destruct (tlen e - t <? len) eqn:E; [discriminate|].
    rewrite cmp_ref_spec by lia. rewrite Hc. adv (pc0 + 2) H2.
    fin; unfold norm, set_pc, set_tp, repad, VMU.mk; cbn [pc mode tp track stack crawl mcaps]; repeat f_equal; lia.
Qed.

Lemma ustep_ref_set_fail o g i len pc0 t np T S C M w3 :
  code_at p pc0 = Some (Ref + bits_of o) -> code_at p (pc0 + 1) = Some g -> code_at p (Z.abs np) = Some w3 ->
  vm_is_matched g M = Some true -> vm_match_index g M = Some i -> vm_match_length g M = Some len ->
  0 <= i -> 0 <= len -> i + len <= tlen e -> 0 <= t <= tlen e -> ref_cond o i len t = false ->
  ustep (mk pc0 0 t (np :: T) S C M) = Ok (Next (bk np t T S C M)).
Proof.
  intros H0 H1 H3 Hm Hix Hln Hi Hl Hil Ht Hc.
  set (w := Ref + bits_of o) in *.
  assert (Hw : Z.land w 63 = Ref) by (apply cp_land_bits; cbv; split; congruence).
  assert (Hr : rtl_of w = is_rtl o) by apply rtl_of_ref.
  assert (Hci : ci_of w = is_ci o) by apply ci_of_ref.
  clearbody w. unfold ref_cond in Hc.
  start H0. rewrite Hw. cbn -[opnd fwdchars cmp_ref brk advance vm_is_matched vm_match_index vm_match_length Z.to_nat].
  opn (pc0 + 1) H1. cbn [bind]. cbn [mcaps repad VMU.mk]. rewrite Hm, Hix, Hln.
  unfold fwdchars. rewrite Hr, Hci. cbn [tp repad VMU.mk].
  unfold avail in *. destruct (is_rtl o).
  - destruct (t <? len) eqn:E; [fail_to H3; fin|].
    rewrite cmp_ref_spec by lia. rewrite Hc. fail_to H3; fin.
  - destruct (tlen e - t <? len) eqn:E; [fail_to H3; fin|].
    rewrite cmp_ref_spec by lia. rewrite Hc. fail_to H3; fin.
Qed.

Lemma ustep_ref_unset_ecma o g pc0 t T S C M w2 :
  code_at p pc0 = Some (Ref + bits_of o) -> code_at p (pc0 + 1) = Some g -> code_at p (pc0 + 2) = Some w2 ->
  vm_is_matched g M = Some false -> ecma e = true ->
  ustep (mk pc0 0 t T S C M) = Ok (Next (mk (pc0 + 2) 0 t T S C M)).
Proof.
  intros H0 H1 H2 Hm He.
  set (w := Ref + bits_of o) in *.
  assert (Hw : Z.land w 63 = Ref) by (apply cp_land_bits; cbv; split; congruence).
  clearbody w.
  start H0. rewrite Hw. cbn -[opnd fwdchars cmp_ref brk advance vm_is_matched vm_match_index vm_match_length Z.to_nat].
  opn (pc0 + 1) H1. cbn [bind]. cbn [mcaps repad VMU.mk]. rewrite Hm, He. adv (pc0 + 2) H2. fin.
Qed.

Lemma ustep_ref_unset o g pc0 t np T S C M w3 :
  code_at p pc0 = Some (Ref + bits_of o) -> code_at p (pc0 + 1) = Some g -> code_at p (Z.abs np) = Some w3 ->
  vm_is_matched g M = Some false -> ecma e = false ->
  ustep (mk pc0 0 t (np :: T) S C M) = Ok (Next (bk np t T S C M)).
Proof.
  intros H0 H1 H3 Hm He.
  set (w := Ref + bits_of o) in *.
  assert (Hw : Z.land w 63 = Ref) by (apply cp_land_bits; cbv; split; congruence).
  clearbody w.
  start H0. rewrite Hw. cbn -[opnd fwdchars cmp_ref brk advance vm_is_matched vm_match_index vm_match_length Z.to_nat].
  opn (pc0 + 1) H1. cbn [bind]. cbn [mcaps repad VMU.mk]. rewrite Hm, He. fail_to H3; fin.
Qed.

End Ops7.

Section Root7.
Variable e : env.
Variable p : program.
Hypothesis tc_nonneg : 0 <= trackcount p.
Notation rsteps := (VMUOps2.rsteps e p).

Ltac lift L := intros; apply rsteps_one; intro r; unfold bkr, mkr; cbn [app]; eapply L; eassumption.

Lemma rs_ref_set_ok o g i len pc0 t T S C M w2 :
  code_at p pc0 = Some (Ref + bits_of o) -> code_at p (pc0 + 1) = Some g -> code_at p (pc0 + 2) = Some w2 ->
  vm_is_matched g M = Some true -> vm_match_index g M = Some i -> vm_match_length g M = Some len ->
  0 <= i -> 0 <= len -> i + len <= tlen e -> 0 <= t <= tlen e -> ref_cond e o i len t = true ->
  rsteps (mkr pc0 0 t T S C M) (mkr (pc0 + 2) 0 (t + dir o * len) T S C M).
Proof. lift ustep_ref_set_ok. Qed.

Lemma rs_ref_set_fail o g i len pc0 t np T S C M w3 :
  code_at p pc0 = Some (Ref + bits_of o) -> code_at p (pc0 + 1) = Some g -> code_at p (Z.abs np) = Some w3 ->
  vm_is_matched g M = Some true -> vm_match_index g M = Some i -> vm_match_length g M = Some len ->
  0 <= i -> 0 <= len -> i + len <= tlen e -> 0 <= t <= tlen e -> ref_cond e o i len t = false ->
  rsteps (mkr pc0 0 t (np :: T) S C M) (bkr np t T S C M).
Proof. lift ustep_ref_set_fail. Qed.

Lemma rs_ref_unset_ecma o g pc0 t T S C M w2 :
  code_at p pc0 = Some (Ref + bits_of o) -> code_at p (pc0 + 1) = Some g -> code_at p (pc0 + 2) = Some w2 ->
  vm_is_matched g M = Some false -> ecma e = true ->
  rsteps (mkr pc0 0 t T S C M) (mkr (pc0 + 2) 0 t T S C M).
Proof. lift ustep_ref_unset_ecma. Qed.

Lemma rs_ref_unset o g pc0 t np T S C M w3 :
  code_at p pc0 = Some (Ref + bits_of o) -> code_at p (pc0 + 1) = Some g -> code_at p (Z.abs np) = Some w3 ->
  vm_is_matched g M = Some false -> ecma e = false ->
  rsteps (mkr pc0 0 t (np :: T) S C M) (bkr np t T S C M).
Proof. lift ustep_ref_unset. Qed.

End Root7.
