(* compile_correct (C01, link 3): the code the writer emits for a tree, run by the interpreter,
   delivers exactly the reference semantics' priority-ordered result list.

   PROVED SO FAR (see [supported] below for the exact constructor set):
     - emit_length            : zlen (fst (emit c t a tbl)) = csize c t        (all constructors)
     - compile_correct_partial: the main theorem, for [supported] trees
   Writer configuration: cfg0 = {| capmap := None; quick := None |} (identity slot map, full code). *)
From Verif Require Import Base.Prelude Model.Tree Model.Spec Model.VM Model.Writer Gen.RunnerGen
  Proofs.SpecProofs Proofs.SpecBoundsProofs Proofs.MaskProofs
  Proofs.VMU Proofs.VMUOps Proofs.VMUOps2 Proofs.CompileBase.
From Coq Require Import Relations ZifyBool.

Definition cfg0 : wcfg := {| capmap := None; quick := None |}.

(* ---------- the constructor set covered ---------- *)
Fixpoint supported (t : node) : bool :=
  match t with
  | NChar _ _ _ | NAnchor _ | NNothing | NEmpty | NBump => true
  | NConcat _ l => (fix go (l : list node) : bool := match l with [] => true | x :: l' => supported x && go l' end) l
  | NAlternate _ l =>
      match l with [] => false | _ => true end &&
      (fix go (l : list node) : bool := match l with [] => true | x :: l' => supported x && go l' end) l
  | NCapture _ g u r => (u =? -1) && supported r
  | NGroup r => supported r
  | _ => false
  end.

Definition supported_list (l : list node) : bool :=
  (fix go (l : list node) : bool := match l with [] => true | x :: l' => supported x && go l' end) l.

(* every group number used is a slot of the program *)
Definition grp_ok_node (cs : Z) (t : node) : Prop :=
  match t with
  | NCapture _ g _ _ => 0 <= g < cs
  | NRef _ g => 0 <= g < cs
  | NBackRefCond _ g _ _ => 0 <= g < cs
  | _ => True
  end.
Definition groups_ok (cs : Z) (t : node) : Prop := sb_all (grp_ok_node cs) t.

(* ---------- length of the emitted code ---------- *)
Lemma emit_seq_length c l : Forall (fun t => forall a tbl, zlen (fst (emit c t a tbl)) = csize c t) l ->
  forall a tbl, zlen (fst (emit_seq c l a tbl)) = csize_seq c l.
Proof.
  induction 1 as [|x l Hx Hl IH]; intros a tbl; cbn [emit_seq csize_seq]; [reflexivity|].
  specialize (Hx a tbl). destruct (emit c x a tbl) as [cx t1]. cbn [fst] in Hx.
  specialize (IH (a + zlen cx) t1). destruct (emit_seq c l (a + zlen cx) t1) as [cr t2]. cbn [fst] in *.
  rewrite zlen_app. lia.
Qed.

Lemma emit_alt_length c lend l : Forall (fun t => forall a tbl, zlen (fst (emit c t a tbl)) = csize c t) l ->
  forall a tbl, zlen (fst (emit_alt c lend l a tbl)) = csize_alt c l.
Proof.
  induction 1 as [|x l Hx Hl IH]; intros a tbl; [reflexivity|].
  destruct l as [|y l'].
  - cbn [emit_alt csize_alt]. apply Hx.
  - rewrite wr_emit_alt_cons2, wr_csize_alt_cons2.
    specialize (Hx (a + 2) tbl). destruct (emit c x (a + 2) tbl) as [cx t1]. cbn [fst] in Hx.
    cbv zeta. specialize (IH (a + 2 + zlen cx + 2) t1).
    destruct (emit_alt c lend (y :: l') (a + 2 + zlen cx + 2) t1) as [cr t2]. cbn [fst] in *.
    rewrite !zlen_app, !zlen_cons, zlen_nil. lia.
Qed.

Lemma emit_length c : forall t a tbl, zlen (fst (emit c t a tbl)) = csize c t.
Proof.
  induction t using node_ind'; intros aa tbl.
  - reflexivity.
  - cbn [emit csize fst]. destruct (0 <? m), (m <? n); reflexivity.
  - cbn [emit csize]. destruct (string_code s tbl). reflexivity.
  - reflexivity.
  - reflexivity.
  - reflexivity.
  - reflexivity.
  - reflexivity.
  - rewrite wr_emit_concat_eq, wr_csize_concat_eq. apply emit_seq_length. assumption.
  - rewrite wr_emit_alternate_eq, wr_csize_alternate_eq. apply emit_alt_length. assumption.
  - cbn [emit csize].
    match goal with |- context [emit c t ?x tbl] => specialize (IHt x tbl); destruct (emit c t x tbl) as [cr t1] end.
    cbn [fst] in *. rewrite !zlen_app, IHt.
    destruct (counted m n), (m =? 0); rewrite ?zlen_cons, ?zlen_nil; lia.
  - cbn [emit csize]. destruct (emit_capture c g u).
    + specialize (IHt (aa + 1) tbl). destruct (emit c t (aa + 1) tbl) as [cr t1]. cbn [fst] in *.
      rewrite !zlen_app, IHt, !zlen_cons, zlen_nil. lia.
    + apply IHt.
  - cbn [emit csize]. apply IHt.
  - cbn [emit csize]. specialize (IHt (aa + 2) tbl). destruct (emit c t (aa + 2) tbl) as [cr t1]. cbn [fst] in *.
    rewrite !zlen_app, IHt, !zlen_cons, zlen_nil. lia.
  - cbn [emit csize]. specialize (IHt (aa + 3) tbl). destruct (emit c t (aa + 3) tbl) as [cr t1]. cbn [fst] in *.
    rewrite !zlen_app, IHt, !zlen_cons, zlen_nil. lia.
  - cbn [emit csize]. specialize (IHt (aa + 1) tbl). destruct (emit c t (aa + 1) tbl) as [cr t1]. cbn [fst] in *.
    rewrite !zlen_app, IHt, !zlen_cons, zlen_nil. lia.
  - cbn [emit csize]. specialize (IHt (aa + 6) tbl). destruct (emit c t (aa + 6) tbl) as [cy t1]. cbn [fst] in *.
    destruct no as [x|]; cbn [opt_all] in *.
    + match goal with |- context [emit c x ?y t1] => specialize (H y t1); destruct (emit c x y t1) as [cn t2] end.
      cbn [fst] in *. rewrite !zlen_app, IHt, H, !zlen_cons, zlen_nil. lia.
    + cbn [fst]. rewrite !zlen_app, IHt, !zlen_cons, zlen_nil. lia.
  - cbn [emit csize]. specialize (IHt1 (aa + 4) tbl). destruct (emit c t1 (aa + 4) tbl) as [cc t1']. cbn [fst] in *.
    match goal with |- context [emit c t2 ?y t1'] => specialize (IHt2 y t1'); destruct (emit c t2 y t1') as [cy t2'] end.
    cbn [fst] in *.
    destruct no as [x|]; cbn [opt_all] in *.
    + match goal with |- context [emit c x ?y t2'] => specialize (H y t2'); destruct (emit c x y t2') as [cn t3] end.
      cbn [fst] in *. rewrite !zlen_app, IHt1, IHt2, H, !zlen_cons, zlen_nil. lia.
    + cbn [fst]. rewrite !zlen_app, IHt1, IHt2, !zlen_cons, zlen_nil. lia.
Qed.

(* ---------- list_set / capture-array facts ---------- *)
Lemma cc_list_set_length {A} (l : list A) n x : length (list_set l n x) = length l.
Proof. revert n; induction l as [|h l IH]; intros [|n]; cbn [list_set length]; try reflexivity. rewrite IH. reflexivity. Qed.
Lemma cc_nth_list_set_same {A} (l : list A) n x d : (n < length l)%nat -> nth n (list_set l n x) d = x.
Proof. revert n; induction l as [|h l IH]; intros [|n] H; cbn [list_set nth length] in *; try lia; [reflexivity|]. apply IH. lia. Qed.
Lemma cc_nth_list_set_other {A} (l : list A) n m x d : n <> m -> nth m (list_set l n x) d = nth m l d.
Proof.
  revert n m; induction l as [|h l IH]; intros [|n] [|m] H; cbn [list_set nth]; try reflexivity; try congruence.
  apply IH. congruence.
Qed.
Lemma cc_list_set_set {A} (l : list A) n x y : list_set (list_set l n x) n y = list_set l n y.
Proof. revert n; induction l as [|h l IH]; intros [|n]; cbn [list_set]; try reflexivity. rewrite IH. reflexivity. Qed.
Lemma cc_list_set_id {A} (l : list A) n d : list_set l n (nth n l d) = l.
Proof. revert n; induction l as [|h l IH]; intros [|n]; cbn [list_set nth]; try reflexivity. rewrite IH. reflexivity. Qed.

Lemma cc_znth_nth {A} (l : list A) g d : 0 <= g < zlen l -> znth l g = Some (nth (Z.to_nat g) l d).
Proof.
  intros H. unfold znth. replace (g <? 0) with false by lia. apply nth_error_nth'. unfold zlen in H. lia.
Qed.
Lemma cc_znth_some_nth {A} (l : list A) g d x : znth l g = Some x -> nth (Z.to_nat g) l d = x /\ 0 <= g < zlen l.
Proof.
  unfold znth. destruct (g <? 0) eqn:E; [discriminate|]. intros H. split.
  - apply nth_error_nth. exact H.
  - assert (Hl : (Z.to_nat g < length l)%nat) by (apply nth_error_Some; congruence). unfold zlen. lia.
Qed.

Lemma cc_flat_app a b : flat (a ++ b) = flat a ++ flat b.
Proof. induction a as [|[i n] a IH]; cbn [flat app]; [reflexivity|]. rewrite IH. reflexivity. Qed.

Lemma cc_remove_match_set M g arr x y :
  znth M g = Some arr -> remove_match g (mc_set g (arr ++ [x; y]) M) = Some M.
Proof.
  intros H. pose proof (cc_znth_some_nth M g [] arr H) as [Hn Hg].
  unfold remove_match, mc_get, mc_set.
  assert (Hl : (Z.to_nat g < length M)%nat) by (unfold zlen in Hg; lia).
  rewrite (cc_znth_nth _ g []) by (unfold zlen; rewrite cc_list_set_length; unfold zlen in Hg; lia).
  rewrite cc_nth_list_set_same by exact Hl.
  rewrite zlen_app. replace (zlen arr + zlen [x; y] <? 2) with false by (pose proof (zlen_nonneg arr); cbn; lia).
  rewrite cc_list_set_set. f_equal.
  rewrite app_length. cbn [length]. replace (length arr + 2 - 2)%nat with (length arr + 0)%nat by lia.
  rewrite firstn_app_2. cbn [firstn]. rewrite app_nil_r. rewrite <- Hn. apply cc_list_set_id.
Qed.

(* ---------- properties of [supported] / [groups_ok] ---------- *)
Lemma cc_supported_list_forall l : supported_list l = true -> Forall (fun t => supported t = true) l.
Proof.
  induction l as [|x l IH]; cbn [supported_list]; intros H; [constructor|].
  apply andb_prop in H. destruct H as [Hx Hl]. constructor; [exact Hx|apply IH; exact Hl].
Qed.

Lemma cc_groups_list cs l : sb_all_list (grp_ok_node cs) l -> Forall (groups_ok cs) l.
Proof.
  induction l as [|x l IH]; intros H; [constructor|]. destruct H as [Hx Hl]. constructor; [exact Hx|apply IH; exact Hl].
Qed.

Lemma cc_supported_min_ok : forall t, supported t = true -> loops_min_ok t.
Proof.
  unfold loops_min_ok.
  induction t using node_ind'; intros Hs; cbn [supported] in Hs; try discriminate Hs;
    cbn [sb_all sb_min_ok]; try (split; exact I).
  - split; [exact I|]. change (supported_list l = true) in Hs. apply cc_supported_list_forall in Hs.
    induction H as [|x l Hx Hl IH]; [exact I|]. inversion Hs; subst. split; [apply Hx; assumption|apply IH; assumption].
  - split; [exact I|]. apply andb_prop in Hs. destruct Hs as [_ Hs].
    change (supported_list l = true) in Hs. apply cc_supported_list_forall in Hs.
    induction H as [|x l Hx Hl IH]; [exact I|]. inversion Hs; subst. split; [apply Hx; assumption|apply IH; assumption].
  - apply andb_prop in Hs. destruct Hs as [_ Hs]. split; [exact I|apply IHt; exact Hs].
  - split; [exact I|apply IHt; exact Hs].
Qed.

Section CC.
Variable e : env.
Variable p : program.
Hypothesis tc_nonneg : 0 <= trackcount p.

Notation rsteps := (VMUOps2.rsteps e p).
Notation leadsg := (CompileBase.leadsg e p).
Notation has_code := (CompileBase.has_code p).
Notation track_ok := (CompileBase.track_ok p).
Notation caps_rel := (CompileBase.caps_rel p).

Definition code_ex (a : Z) : Prop := exists w, code_at p a = Some w.

Lemma cc_code_ex_start a ws : has_code a ws -> code_ex (a + zlen ws) -> code_ex a.
Proof.
  intros H Hx. destruct ws as [|w ws].
  - rewrite zlen_nil, Z.add_0_r in Hx. exact Hx.
  - apply has_code_cons in H. destruct H as [H _]. exists w. exact H.
Qed.

Lemma cc_caps_rel_push c M g iv : caps_rel c M -> 0 <= g < capsize p ->
  caps_rel (cap_push g iv c) (mc_set g (nth (Z.to_nat g) M [] ++ [fst iv; snd iv]) M).
Proof.
  intros [Hl Hc] Hg. split.
  - unfold mc_set, zlen. rewrite cc_list_set_length. exact Hl.
  - intros g' Hg'. unfold mc_set, cap_push. destruct (Z.eq_dec g' g) as [->|Hne].
    + rewrite cc_nth_list_set_same by (unfold zlen in Hl; lia).
      rewrite sb_cap_get_set_same. cbn [rev]. rewrite cc_flat_app. rewrite Hc by exact Hg.
      destruct iv as [i n]. reflexivity.
    + rewrite cc_nth_list_set_other by lia. rewrite sb_cap_get_set_other by exact Hne. apply Hc. exact Hg'.
Qed.

(* what has to be shown for one node at one fuel level *)
Definition ok_node (f : nat) (t : node) : Prop :=
  forall s res, sem e f t s = Ok res -> st_ok e s ->
  forall a tbl T S C M, has_code a (fst (emit cfg0 t a tbl)) -> code_ex (a + csize cfg0 t) ->
    track_ok T -> caps_rel (caps s) M ->
    leadsg (a + csize cfg0 t) T S S C M (mkr a 0 (pos s) T S C M) res.

Definition ok_at (f : nat) : Prop :=
  forall t, supported t = true -> groups_ok (capsize p) t -> ok_node f t.

(* ---------- leaves ---------- *)
Lemma cc_char f k o c : ok_node (S f) (NChar k o c).
Proof.
  intros s res Hsem Hst a tbl T S C M Hc Hex Hk Hr.
  cbn [sem] in Hsem. injection Hsem as <-.
  cbn [emit fst csize] in *.
  apply has_code_cons in Hc. destruct Hc as [H0 Hc]. apply has_code_cons in Hc. destruct Hc as [H1 _].
  destruct Hex as [w2 H2]. destruct Hst as [Hp _].
  destruct ((0 <? avail e o (pos s)) && char_test e k c (next_char e o (pos s))) eqn:E.
  - apply leadsg_leaf; [exact Hk|exact Hr|]. cbn [pos with_pos]. eapply rs_char_ok; eassumption.
  - destruct Hk as (np & T' & -> & w3 & H3). eapply leadsg_fail; [reflexivity|]. eapply rs_char_fail; eassumption.
Qed.

Lemma cc_anchor f an : ok_node (S f) (NAnchor an).
Proof.
  intros s res Hsem Hst a tbl T S C M Hc Hex Hk Hr.
  cbn [sem] in Hsem. injection Hsem as <-.
  cbn [emit fst csize] in *.
  apply has_code_cons in Hc. destruct Hc as [H0 _].
  destruct Hex as [w2 H2]. destruct Hst as [Hp _].
  pose proof Hk as (np & T' & -> & w3 & H3).
  assert (G : rsteps (mkr a 0 (pos s) (np :: T') S C M)
            (if anchor_ok e an (pos s) then mkr (a + 1) 0 (pos s) (np :: T') S C M else bkr np (pos s) T' S C M))
    by (eapply rs_anchor; eassumption).
  destruct (anchor_ok e an (pos s)).
  - apply leadsg_leaf; [exact Hk|exact Hr|exact G].
  - eapply leadsg_fail; [reflexivity|exact G].
Qed.

Lemma cc_nothing f : ok_node (S f) NNothing.
Proof.
  intros s res Hsem Hst a tbl T S C M Hc Hex Hk Hr.
  cbn [sem] in Hsem. injection Hsem as <-.
  cbn [emit fst csize] in *.
  apply has_code_cons in Hc. destruct Hc as [H0 _].
  destruct Hk as (np & T' & -> & w3 & H3). eapply leadsg_fail; [reflexivity|]. eapply rs_nothing; eassumption.
Qed.

Lemma cc_empty f : ok_node (S f) NEmpty.
Proof.
  intros s res Hsem Hst a tbl T S C M Hc Hex Hk Hr.
  cbn [sem] in Hsem. injection Hsem as <-.
  cbn [csize]. rewrite Z.add_0_r. apply leadsg_leaf; [exact Hk|exact Hr|apply rsteps_refl].
Qed.

Lemma cc_bump f : ok_node (S f) NBump.
Proof.
  intros s res Hsem Hst a tbl T S C M Hc Hex Hk Hr.
  cbn [sem] in Hsem. injection Hsem as <-.
  cbn [emit fst csize] in *.
  apply has_code_cons in Hc. destruct Hc as [H0 _]. destruct Hex as [w2 H2].
  apply leadsg_leaf; [exact Hk|exact Hr|]. eapply rs_bump; eassumption.
Qed.

(* ---------- results stay inside the text ---------- *)
Lemma cc_res_ok f t s res : supported t = true -> sem e f t s = Ok res -> st_ok e s -> Forall (st_ok e) res.
Proof. intros Hs H Hst. eapply sb_sem_in_bounds; [apply cc_supported_min_ok; exact Hs|exact H|exact Hst]. Qed.

Lemma cc_res_ok_in f t s res q : supported t = true -> sem e f t s = Ok res -> st_ok e s -> In q res -> st_ok e q.
Proof. intros Hs H Hst Hin. pose proof (cc_res_ok f t s res Hs H Hst) as F. rewrite Forall_forall in F. apply F. exact Hin. Qed.

(* ---------- Group ---------- *)
Lemma cc_group f r : ok_node f r -> ok_node (S f) (NGroup r).
Proof. intros Hr s res Hsem. cbn [sem] in Hsem. cbn [emit csize]. apply Hr. exact Hsem. Qed.

(* ---------- Concat ---------- *)
Definition seqf (f : nat) : list node -> st -> res (list st) :=
  fix seq (l : list node) (s : st) : res (list st) :=
    match l with
    | [] => Ok [s]
    | x :: l' => bindr (sem e f x s) (seq l')
    end.

Lemma cc_concat_list f : ok_at f -> forall l,
  Forall (fun t => supported t = true) l -> Forall (groups_ok (capsize p)) l ->
  forall s res, seqf f l s = Ok res -> st_ok e s ->
  forall a tbl T S C M, has_code a (fst (emit_seq cfg0 l a tbl)) -> code_ex (a + csize_seq cfg0 l) ->
    track_ok T -> caps_rel (caps s) M ->
    leadsg (a + csize_seq cfg0 l) T S S C M (mkr a 0 (pos s) T S C M) res.
Proof.
  intros Hok. induction l as [|x l IH]; intros Hsl Hgl s res Hsem Hst a tbl T S C M Hc Hex Hk Hr.
  - cbn [seqf] in Hsem. injection Hsem as <-. cbn [csize_seq]. rewrite Z.add_0_r.
    apply leadsg_leaf; [exact Hk|exact Hr|apply rsteps_refl].
  - inversion Hsl as [|? ? Hsx Hsl']; subst. inversion Hgl as [|? ? Hgx Hgl']; subst.
    cbn [seqf] in Hsem. apply sp_bindr_ok in Hsem. destruct Hsem as [la [Hla Hb]].
    cbn [emit_seq] in Hc. pose proof (emit_length cfg0 x a tbl) as Lx.
    destruct (emit cfg0 x a tbl) as [cx t1] eqn:Ex. cbn [fst] in Lx. rewrite Lx in Hc.
    destruct (emit_seq cfg0 l (a + csize cfg0 x) t1) as [cr t2] eqn:Er. cbn [fst] in Hc.
    apply has_code_app in Hc. destruct Hc as [Hcx Hcr]. rewrite Lx in Hcr.
    assert (Lr : zlen cr = csize_seq cfg0 l).
    { replace cr with (fst (emit_seq cfg0 l (a + csize cfg0 x) t1)) by (rewrite Er; reflexivity).
      apply emit_seq_length. apply Forall_forall. intros t _. apply emit_length. }
    cbn [csize_seq] in *. rewrite Z.add_assoc in *.
    assert (Hexx : code_ex (a + csize cfg0 x)).
    { eapply cc_code_ex_start; [exact Hcr|]. rewrite Lr. exact Hex. }
    eapply leadsg_bindl with (m := a + csize cfg0 x) (Ss1 := S) (f := seqf f l); [|exact Hb|].
    + apply (Hok x Hsx Hgx s la Hla Hst a tbl T S C M); [rewrite Ex; exact Hcx|exact Hexx|exact Hk|exact Hr].
    + intros q rq T' C' M' Hin Hq Hcq Hu Hkq.
      apply IH with (tbl := t1); try assumption.
      * eapply cc_res_ok_in; eassumption.
      * rewrite Er. exact Hcr.
Qed.

Lemma cc_concat f o l : ok_at f -> supported (NConcat o l) = true -> groups_ok (capsize p) (NConcat o l) ->
  ok_node (S f) (NConcat o l).
Proof.
  intros Hok Hs Hg s res Hsem Hst a tbl T S C M Hc Hex Hk Hr.
  cbn [sem] in Hsem. change (seqf f l s = Ok res) in Hsem.
  rewrite wr_emit_concat_eq in Hc. rewrite wr_csize_concat_eq in *.
  eapply cc_concat_list; try eassumption.
  - apply cc_supported_list_forall. exact Hs.
  - apply cc_groups_list. destruct Hg as [_ Hg]. exact Hg.
Qed.

(* ---------- Alternate ---------- *)
Definition altf (f : nat) (s : st) : list node -> res (list st) :=
  fix alt (l : list node) : res (list st) :=
    match l with
    | [] => Ok []
    | x :: l' => appr (sem e f x s) (alt l')
    end.

Lemma cc_alt_list f lend : ok_at f -> forall l, l <> [] ->
  Forall (fun t => supported t = true) l -> Forall (groups_ok (capsize p)) l ->
  forall s res, altf f s l = Ok res -> st_ok e s ->
  forall a tbl T S C M, has_code a (fst (emit_alt cfg0 lend l a tbl)) -> lend = a + csize_alt cfg0 l ->
    code_ex lend -> track_ok T -> caps_rel (caps s) M ->
    leadsg lend T S S C M (mkr a 0 (pos s) T S C M) res.
Proof.
  intros Hok. induction l as [|x l IH]; intros Hne Hsl Hgl s res Hsem Hst a tbl T S C M Hc Hl Hex Hk Hr;
    [congruence|].
  inversion Hsl as [|? ? Hsx Hsl']; subst l0 x0. inversion Hgl as [|? ? Hgx Hgl']; subst l0 x0.
  cbn [altf] in Hsem. apply sp_appr_ok in Hsem. destruct Hsem as (rx & ry & Hrx & Hry & ->).
  destruct l as [|y l'].
  - cbn [altf] in Hry. injection Hry as <-. rewrite app_nil_r.
    cbn [emit_alt csize_alt] in *. subst lend.
    apply (Hok x Hsx Hgx s rx Hrx Hst a tbl T S C M); assumption.
  - rewrite wr_emit_alt_cons2 in Hc. rewrite wr_csize_alt_cons2 in Hl.
    pose proof (emit_length cfg0 x (a + 2) tbl) as Lx.
    destruct (emit cfg0 x (a + 2) tbl) as [cx t1] eqn:Ex. cbn [fst] in Lx. cbv zeta in Hc.
    destruct (emit_alt cfg0 lend (y :: l') (a + 2 + zlen cx + 2) t1) as [cr t2] eqn:Er. cbn [fst] in Hc.
    rewrite Lx in *.
    apply has_code_cons in Hc. destruct Hc as [H0 Hc]. apply has_code_cons in Hc. destruct Hc as [H1 Hc].
    replace (a + 1 + 1) with (a + 2) in Hc by lia.
    apply has_code_app in Hc. destruct Hc as [Hcx Hc]. rewrite Lx in Hc.
    apply has_code_cons in Hc. destruct Hc as [Hg0 Hc]. apply has_code_cons in Hc. destruct Hc as [Hg1 Hcr].
    replace (a + 2 + csize cfg0 x + 1 + 1) with (a + 2 + csize cfg0 x + 2) in Hcr by lia.
    pose proof (code_at_nonneg p _ _ H0) as Ha.
    destruct Hex as [wl Hwl].
    eapply leadsg_pre.
    { eapply rs_lazybranch; try exact tc_nonneg; [exact H0|exact H1|].
      instantiate (1 := match cx with [] => Goto | w :: _ => w end).
      destruct cx as [|w cx']; [rewrite <- Lx, zlen_nil, Z.add_0_r in Hg0; exact Hg0|].
      apply has_code_cons in Hcx. destruct Hcx as [Hcx _]. exact Hcx. }
    eapply leadsg_app with (T1 := [a; pos s]) (Cx := []) (Sf1 := S) (M1 := M); [|reflexivity|].
    + eapply leadsg_exit_map with (m := a + 2 + csize cfg0 x).
      { intros t T0 C0 M0. eapply rs_goto; eassumption. }
      apply (Hok x Hsx Hgx s rx Hrx Hst (a + 2) tbl ([a; pos s] ++ T) S C M).
      * rewrite Ex. exact Hcx.
      * exists Goto. exact Hg0.
      * cbn [app]. eapply track_ok_cons. rewrite Z.abs_eq by lia. exact H0.
      * exact Hr.
    + intros np T' t HT. cbn [app] in HT. injection HT as <- <-.
      rewrite bkr_pos by exact Ha.
      eapply leadsg_pre.
      { eapply rs_lazybranch_back; try exact tc_nonneg; [exact H0|exact H1|].
        instantiate (1 := match cr with [] => wl | w :: _ => w end).
        destruct cr as [|w cr'].
        - assert (Lr : zlen (fst (emit_alt cfg0 lend (y :: l') (a + 2 + csize cfg0 x + 2) t1)) = csize_alt cfg0 (y :: l')).
          { apply emit_alt_length. apply Forall_forall. intros t0 _. apply emit_length. }
          rewrite Er in Lr. cbn [fst] in Lr. rewrite zlen_nil in Lr.
          replace (a + 2 + csize cfg0 x + 2) with lend by lia. exact Hwl.
        - apply has_code_cons in Hcr. destruct Hcr as [Hcr _]. exact Hcr. }
      apply IH with (tbl := t1); try assumption.
      * discriminate.
      * rewrite Er. exact Hcr.
      * lia.
      * exists wl. exact Hwl.
Qed.

Lemma cc_alternate f o l : ok_at f -> supported (NAlternate o l) = true -> groups_ok (capsize p) (NAlternate o l) ->
  ok_node (S f) (NAlternate o l).
Proof.
  intros Hok Hs Hg s res Hsem Hst a tbl T S C M Hc Hex Hk Hr.
  cbn [sem] in Hsem. change (altf f s l = Ok res) in Hsem.
  rewrite wr_emit_alternate_eq in Hc.
  cbn [supported] in Hs. apply andb_prop in Hs. destruct Hs as [Hne Hs].
  eapply cc_alt_list; try eassumption.
  - destruct l; [discriminate|discriminate].
  - apply cc_supported_list_forall. exact Hs.
  - apply cc_groups_list. destruct Hg as [_ Hg]. exact Hg.
  - reflexivity.
Qed.

(* ---------- Capture (plain) ---------- *)
Lemma cc_sem_capture f o g r s :
  sem e (S f) (NCapture o g (-1) r) s =
  bindr (sem e f r s) (fun s' => Ok [{| pos := pos s'; caps := cap_push g (span (pos s) (pos s')) (caps s') |}]).
Proof. reflexivity. Qed.

Lemma cc_emit_capture o g r a tbl : 0 <= g ->
  emit cfg0 (NCapture o g (-1) r) a tbl =
  (let '(cr, t1) := emit cfg0 r (a + 1) tbl in ([Setmark] ++ cr ++ [Capturemark; g; -1], t1)).
Proof.
  intros Hg. cbn [emit]. unfold emit_capture, map_capnum. cbn [quick cfg0 capmap].
  replace (g =? -1) with false by lia. reflexivity.
Qed.

Lemma cc_capture f o g r : ok_node f r -> supported r = true -> 0 <= g < capsize p ->
  ok_node (S f) (NCapture o g (-1) r).
Proof.
  intros Hokr Hsr Hg s res Hsem Hst a tbl T S C M Hc Hex Hk Hr.
  rewrite cc_sem_capture in Hsem. apply sp_bindr_ok in Hsem. destruct Hsem as [la [Hla Hb]].
  rewrite cc_emit_capture in Hc by lia.
  pose proof (emit_length cfg0 r (a + 1) tbl) as Lr.
  destruct (emit cfg0 r (a + 1) tbl) as [cr t1] eqn:Er. cbn [fst] in Lr, Hc.
  replace (csize cfg0 (NCapture o g (-1) r)) with (1 + csize cfg0 r + 3) in * by reflexivity.
  apply has_code_cons in Hc. destruct Hc as [H0 Hc].
  apply has_code_app in Hc. destruct Hc as [Hcr Hc]. rewrite Lr in Hc.
  apply has_code_cons in Hc. destruct Hc as [Hm0 Hc]. apply has_code_cons in Hc. destruct Hc as [Hm1 Hc].
  apply has_code_cons in Hc. destruct Hc as [Hm2 _].
  set (m := a + 1 + csize cfg0 r) in *.
  replace (a + (1 + csize cfg0 r + 3)) with (m + 3) in * by (unfold m; lia).
  pose proof (code_at_nonneg p _ _ H0) as Ha. pose proof (code_at_nonneg p _ _ Hm0) as Hm.
  replace (m + 1 + 1) with (m + 2) in Hm2 by lia.
  destruct Hex as [wx Hwx].
  assert (Hex1 : code_ex (a + 1)).
  { eapply cc_code_ex_start; [exact Hcr|]. rewrite Lr. exists Capturemark. exact Hm0. }
  destruct Hex1 as [w1 Hw1].
  eapply leadsg_pre. { eapply rs_setmark; try exact tc_nonneg; eassumption. }
  rewrite <- (app_nil_r res).
  eapply leadsg_app with (T1 := [a]) (Cx := []) (Sf1 := pos s :: S) (M1 := M); [|reflexivity|].
  - cbn [app].
    eapply leadsg_bindl with (m := m) (Ss1 := pos s :: S); [|exact Hb|].
    + apply (Hokr s la Hla Hst (a + 1) tbl (a :: T) (pos s :: S) C M).
      * rewrite Er. exact Hcr.
      * exists Capturemark. exact Hm0.
      * eapply track_ok_cons. rewrite Z.abs_eq by lia. exact H0.
      * exact Hr.
    + intros q rq T' C' M' Hin Hq Hcq Hu Hkq. injection Hq as <-.
      destruct Hcq as [HlM HcM].
      assert (Hzn : znth M' g = Some (nth (Z.to_nat g) M' [])) by (apply cc_znth_nth; lia).
      exists [m; pos s], [g], (mc_set g (nth (Z.to_nat g) M' [] ++ [Z.min (pos s) (pos q); Z.abs (pos q - pos s)]) M').
      cbn [pos caps].
      split. { apply (cc_caps_rel_push (caps q) M' g (span (pos s) (pos q))); [split; assumption|exact Hg]. }
      split. { cbn [unwind]. rewrite cc_remove_match_set by exact Hzn. reflexivity. }
      split. { cbn [app]. eapply track_ok_cons. rewrite Z.abs_eq by lia. exact Hm0. }
      split. { cbn [app]. eapply rs_capturemark; try exact tc_nonneg; eassumption. }
      intros np T'' t HT. cbn [app] in HT. injection HT as <- <-.
      rewrite bkr_pos by exact Hm.
      destruct Hkq as (np' & T3 & HT3 & w3 & Hw3).
      eapply leadsg_fail; [exact HT3|].
      rewrite HT3. eapply rs_capturemark_back; try exact tc_nonneg; try eassumption.
      apply cc_remove_match_set. exact Hzn.
  - intros np T' t HT. cbn [app] in HT. injection HT as <- <-.
    rewrite bkr_pos by exact Ha. destruct Hk as (np' & T3 & -> & w3 & Hw3).
    eapply leadsg_fail; [reflexivity|].
    eapply rs_mark_back; try exact tc_nonneg; try eassumption. left. reflexivity.
Qed.

(* ---------- the main induction ---------- *)
Theorem cc_all_ok : forall f, ok_at f.
Proof.
  induction f as [|f IH]; intros t Hs Hg.
  - intros s res Hsem. discriminate Hsem.
  - destruct t; try discriminate Hs.
    + apply cc_char.
    + apply cc_anchor.
    + apply cc_nothing.
    + apply cc_empty.
    + apply cc_bump.
    + apply cc_concat; assumption.
    + apply cc_alternate; assumption.
    + cbn [supported] in Hs. apply andb_prop in Hs. destruct Hs as [Hu Hs]. apply Z.eqb_eq in Hu. subst u.
      destruct Hg as [Hg0 Hg]. apply cc_capture; [apply IH; assumption|exact Hs|exact Hg0].
    + apply cc_group. apply IH; [exact Hs|]. destruct Hg as [_ Hg]. exact Hg.
Qed.

Theorem compile_correct_partial : forall fuel t s res,
  sem e fuel t s = Ok res -> supported t = true -> st_ok e s -> groups_ok (capsize p) t ->
  forall a tbl T S C M,
    has_code a (fst (emit cfg0 t a tbl)) -> (exists w, code_at p (a + csize cfg0 t) = Some w) ->
    track_ok T -> caps_rel (caps s) M ->
    leadsg (a + csize cfg0 t) T S S C M (mkr a 0 (pos s) T S C M) res.
Proof.
  intros fuel t s res Hsem Hs Hst Hg a tbl T S C M Hc Hex Hk Hr.
  exact (cc_all_ok fuel t Hs Hg s res Hsem Hst a tbl T S C M Hc Hex Hk Hr).
Qed.

(* ---------- the whole program: Lazybranch Lend ; root ; Lend: Stop ---------- *)
Lemma cc_has_code_self : has_code 0 (codes p).
Proof.
  intros i w Hi. unfold code_at, znth. replace (0 + Z.of_nat i <? 0) with false by lia.
  replace (Z.to_nat (0 + Z.of_nat i)) with i by lia. exact Hi.
Qed.

Lemma cc_caps_rel_init : 0 <= capsize p -> caps_rel [] (repeat [] (Z.to_nat (capsize p))).
Proof.
  intros H. split.
  - unfold zlen. rewrite repeat_length. lia.
  - intros g Hg. cbn [cap_get rev flat].
    destruct (nth_in_or_default (Z.to_nat g) (repeat (@nil Z) (Z.to_nat (capsize p))) []) as [Hin|Hd]; [|exact Hd].
    apply repeat_spec in Hin. exact Hin.
Qed.

Theorem compile_correct_top_partial : forall fuel o body t0 r,
  let root := NCapture o 0 (-1) body in
  let M0 := repeat [] (Z.to_nat (capsize p)) in
  let stop := 2 + csize cfg0 root in
  codes p = fst (compile cfg0 root) ->
  supported root = true -> groups_ok (capsize p) root -> 0 <= t0 <= tlen e ->
  attempt e fuel root t0 = Ok r ->
  code_at p stop = Some Stop /\
  exists t T S C M,
    VMU.usteps e p (VMU.mk 0 0 t0 [] [] [] M0) (VMU.mk stop 0 t T S C M) /\
    VMU.ustep e p (VMU.mk stop 0 t T S C M) = Ok (Done (VMU.mk stop 0 t T S C M)) /\
    match r with
    | Some q => t = pos q /\ caps_rel (caps q) M /\ matched0 (VMU.mk stop 0 t T S C M) = true
    | None => M = M0 /\ T = [] /\ S = [] /\ C = [] /\ matched0 (VMU.mk stop 0 t T S C M) = false
    end.
Proof.
  intros fuel o body t0 r root M0 stop Hcodes Hs Hg Ht0 Hatt.
  unfold attempt in Hatt. apply sp_bind_ok in Hatt. destruct Hatt as [l [Hsem Hr]]. injection Hr as <-.
  pose proof cc_has_code_self as Hc. rewrite Hcodes in Hc. unfold compile in Hc.
  pose proof (emit_length cfg0 root 2 []) as Lr.
  destruct (emit cfg0 root 2 []) as [cr tbl'] eqn:Er. cbn [fst] in Lr, Hc.
  apply has_code_cons in Hc. destruct Hc as [H0 Hc]. apply has_code_cons in Hc. destruct Hc as [H1 Hc].
  apply has_code_app in Hc. destruct Hc as [Hcr Hc]. apply has_code_cons in Hc. destruct Hc as [Hstop _].
  replace (0 + 1) with 1 in * by lia. replace (1 + 1) with 2 in * by lia.
  rewrite Lr in *. fold stop in H1, Hstop.
  split; [exact Hstop|].
  assert (Hg0 : 0 <= 0 < capsize p) by (destruct Hg as [Hg0 _]; exact Hg0).
  assert (Hst : st_ok e {| pos := t0; caps := [] |}) by (apply sb_init_ok; exact Ht0).
  assert (Hex2 : code_ex 2).
  { eapply cc_code_ex_start; [exact Hcr|]. rewrite Lr. exists Stop. exact Hstop. }
  destruct Hex2 as [w2 Hw2].
  assert (Hcap : 0 <= capsize p) by lia.
  assert (G : leadsg stop [0] [] [] [] M0 (mkr 2 0 t0 [0] [] [] M0) l).
  { apply (compile_correct_partial fuel root {| pos := t0; caps := [] |} l Hsem Hs Hst Hg 2 [] [0] [] [] M0).
    - rewrite Er. exact Hcr.
    - exists Stop. exact Hstop.
    - eapply track_ok_cons. exact H0.
    - apply cc_caps_rel_init. exact Hcap. }
  assert (Hstep1 : VMU.usteps e p (VMU.mk 0 0 t0 [] [] [] M0) (mkr 2 0 t0 [0] [] [] M0 t0)).
  { apply usteps_one. unfold mkr. cbn [app]. eapply ustep_lazybranch; eassumption. }
  assert (HlM0 : zlen M0 = capsize p) by (unfold M0, zlen; rewrite repeat_length; lia).
  destruct l as [|q l'].
  - cbn [leadsg] in G. destruct G as (np & T' & t & HT & Hs1). injection HT as <- <-.
    destruct (Hs1 t0) as [r' Hr']. rewrite bkr_pos in Hr' by lia. unfold mkr in Hr' at 2. cbn [app] in Hr'.
    exists r', [], [], [], M0.
    split.
    { eapply usteps_trans; [exact Hstep1|]. eapply usteps_trans; [exact Hr'|]. apply usteps_one.
      eapply ustep_lazybranch_back; eassumption. }
    split. { apply ustep_stop. exact Hstop. }
    repeat (split; [reflexivity|]).
    unfold matched0, mc_get. cbn [mcaps VMU.mk]. rewrite (cc_znth_nth M0 0 []) by lia.
    destruct (cc_caps_rel_init Hcap) as [_ Hn]. fold M0 in Hn. change (nth 0 M0 []) with (nth (Z.to_nat 0) M0 []).
    rewrite Hn by lia. reflexivity.
  - cbn [leadsg] in G. destruct G as (T' & C' & M' & Hcq & Hu & Hk & Hs1 & _).
    destruct (Hs1 t0) as [r' Hr']. unfold mkr in Hr' at 2.
    exists (pos q), ((T' ++ [0]) ++ [r']), [], (C' ++ []), M'.
    split. { eapply usteps_trans; [exact Hstep1|exact Hr']. }
    split. { apply ustep_stop. exact Hstop. }
    split; [reflexivity|]. split; [exact Hcq|].
    unfold root in Hsem. destruct fuel as [|f]; [discriminate Hsem|]. rewrite cc_sem_capture in Hsem. apply sp_bindr_ok in Hsem. destruct Hsem as [la [_ Hb]].
    apply sb_bindl_singleton in Hb. destruct la as [|s' la']; [discriminate Hb|]. cbn [map] in Hb. injection Hb as -> _.
    destruct Hcq as [HlM HcM]. unfold matched0, mc_get. cbn [mcaps VMU.mk]. rewrite (cc_znth_nth M' 0 []) by lia.
    change (nth (Z.to_nat 0) M' []) with (nth 0 M' []) in *.
    specialize (HcM 0 Hg0). change (nth (Z.to_nat 0) M' []) with (nth 0 M' []) in HcM. rewrite HcM.
    cbn [caps]. unfold cap_push. rewrite sb_cap_get_set_same. cbn [rev]. rewrite cc_flat_app.
    destruct (span t0 (pos s')) as [i n]. cbn [flat]. unfold zlen. rewrite app_length. cbn [length]. lia.
Qed.

End CC.

Print Assumptions compile_correct_partial.

Print Assumptions compile_correct_top_partial.

(* ---------- a concrete instance: (a|ab)(c|bcd) on "abc" ----------
   The first alternative of group 1 ("a") leads nowhere, the interpreter backtracks into it and
   takes "ab", then "c".  The corollary gives a reachable Stop state whose position and capture
   arrays are the reference result; the bounded interpreter [exec_at] computes the same state. *)
Definition cc_demo_env : env :=
  {| txt := [97; 98; 99]; tstart := 0; ecma := false; endz_strict := false;
     set_in := fun _ _ => false; lower := fun x => x; is_word := fun _ => true; is_eword := fun _ => true |}.
Definition cc_demo_body : node :=
  NConcat 0 [NCapture 0 1 (-1) (NAlternate 0 [NChar COne 0 97; NConcat 0 [NChar COne 0 97; NChar COne 0 98]]);
             NCapture 0 2 (-1) (NAlternate 0 [NChar COne 0 99;
                                              NConcat 0 [NChar COne 0 98; NChar COne 0 99; NChar COne 0 100]])].
Definition cc_demo_root : node := NCapture 0 0 (-1) cc_demo_body.
Definition cc_demo_prog : program :=
  {| codes := fst (compile cfg0 cc_demo_root); strings := snd (compile cfg0 cc_demo_root);
     trackcount := track_count (fst (compile cfg0 cc_demo_root)); capsize := 3 |}.
Definition cc_demo_result : st := {| pos := 3; caps := [(1, [(0, 2)]); (2, [(2, 1)]); (0, [(0, 3)])] |}.

Example cc_demo :
  attempt cc_demo_env 20 cc_demo_root 0 = Ok (Some cc_demo_result) /\
  (exists t T S C M,
     VMU.usteps cc_demo_env cc_demo_prog (VMU.mk 0 0 0 [] [] [] [[]; []; []]) (VMU.mk 36 0 t T S C M) /\
     VMU.ustep cc_demo_env cc_demo_prog (VMU.mk 36 0 t T S C M) = Ok (Done (VMU.mk 36 0 t T S C M)) /\
     t = 3 /\ caps_rel cc_demo_prog (caps cc_demo_result) M /\
     matched0 (VMU.mk 36 0 t T S C M) = true) /\
  (exists s', exec_at cc_demo_env cc_demo_prog (-1) 5 0 = Ok s' /\ pc s' = 36 /\ tp s' = 3 /\
              mcaps s' = [[0; 3]; [0; 2]; [2; 1]]).
Proof.
  split; [vm_compute; reflexivity|]. split.
  - assert (Htc : 0 <= trackcount cc_demo_prog) by (vm_compute; congruence).
    assert (Hg : groups_ok (capsize cc_demo_prog) cc_demo_root).
    { cbn. repeat split; try exact I; cbv; congruence. }
    assert (Hp : 0 <= 0 <= tlen cc_demo_env) by (cbv; split; congruence).
    destruct (compile_correct_top_partial cc_demo_env cc_demo_prog Htc 20 0 cc_demo_body 0 (Some cc_demo_result)
                eq_refl eq_refl Hg Hp ltac:(vm_compute; reflexivity)) as [_ (t & T & S & C & M & H1 & H2 & H3 & H4 & H5)].
    exists t, T, S, C, M. exact (conj H1 (conj H2 (conj H3 (conj H4 H5)))).
  - eexists. split; [vm_compute; reflexivity|]. repeat split.
Qed.
