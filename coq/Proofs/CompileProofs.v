(* compile_correct (C01, link 3): the code the writer emits for a tree, run by the interpreter,
   delivers exactly the reference semantics' priority-ordered result list.

   Writer configuration: cfg0 = {| capmap := None; quick := None |} (identity slot map, full code).

   PROVED (all closed under the global context):
     emit_length (CompileDefs)     zlen (fst (emit c t a tbl)) = csize c t, every constructor, every cfg
     emit_tbl_ext (CompileDefs)    the string table only grows
     compile_correct_partial       for every [supported] tree t, fuel <= MaxInt32 with sem e fuel t s = Ok res,
                                   start state inside the text, group numbers inside capsize, text no longer
                                   than MaxInt32, program string table containing the writer's table:
                                   from the fragment's entry (any base track T with a valid frame on top, any
                                   grouping stack S, crawl C, capture arrays M related to caps s) the machine
                                   [leadsg]-delivers exactly res, in order, at the fragment's exit, and when res
                                   is exhausted backtracks into T with S, C, M restored.
     compile_correct_top_partial   whole program  Lazybranch Lend ; [root] ; Lend: Stop  with root =
                                   NCapture o 0 (-1) body: from the initial state the machine reaches the final
                                   Stop in a state whose position and capture arrays are those of
                                   attempt e fuel root t0 (group 0 set), or, when attempt = None, with empty
                                   captures and empty stacks (group 0 unset).
     cc_demo, cc_demo2, cc_demo3   concrete instances (vm_compute), cross-checked against VM.exec_at.
     compile_correct_exec_partial  (Proofs/CompileExec.v, via Proofs/VMUBridge.v) the same for the interpreter with
                                   its real finite stacks and any stack limit L: whenever VM.exec_at returns a
                                   state, it is that final Stop state (position, captures, group 0 as above).

   THE SET [supported] (CompileDefs.supported) = every constructor of Tree.node, with these side conditions:
     NCapture _ g u r     u = -1                      (balancing groups are outside the C01 fragment)
     NAlternate _ l       l <> []                     (the writer emits no code for an empty alternation while
                                                       the reference semantics fails; the parser never builds one)
     NLoop _ _ m n r      0 <= m, n <= MaxInt32
     NCharLoop ... m n    0 <= m <= n <= MaxInt32     (for m > n the writer still emits X-rep m: code and
                                                       semantics differ; the parser never builds one)
   Stage 1: NEmpty NNothing NBump NGroup NAnchor (10) NChar (One/Notone/Set, both directions) NConcat
            NAlternate NCapture;  stage 2: NLoop (Branchmark, Lazybranchmark, Branchcount, Lazybranchcount);
   stage 3: NCharLoop (rep + loop/lazy/loopatomic), NMulti;  stage 4: NAtomic NPosLook NNegLook NRef
            NBackRefCond NExprCond.
   Files: VMUOps2..7 (opcode lemmas, root-slot lifting), CompileBase (leadsg), CompileDefs, CompileStage1,
   CompileLoop, CharLoopFacts, CompileCharLoop, CompileMulti, CompileStage4, CapFacts, CompileCond, CompileRef. *)
From Verif Require Import Base.Prelude Model.Tree Model.Spec Model.VM Model.Writer Gen.RunnerGen
  Proofs.SpecProofs Proofs.SpecBoundsProofs Proofs.MaskProofs
  Proofs.VMU Proofs.VMUOps Proofs.VMUOps2 Proofs.VMUOps6 Proofs.VMUOps3 Proofs.CompileBase
  Proofs.CompileDefs Proofs.CompileStage1 Proofs.CompileLoop Proofs.CompileCharLoop Proofs.CompileMulti Proofs.CompileStage4 Proofs.CompileCond Proofs.CompileRef.
From Coq Require Import Relations ZifyBool.

Section CC.
Variable e : env.
Variable p : program.
Hypothesis tc_nonneg : 0 <= trackcount p.
Hypothesis Htlen : tlen e <= INF.

Notation rsteps := (VMUOps2.rsteps e p).
Notation leadsg := (CompileBase.leadsg e p).
Notation has_code := (CompileBase.has_code p).
Notation track_ok := (CompileBase.track_ok p).
Notation caps_rel := (CompileBase.caps_rel p).

Notation code_ex := (CompileDefs.code_ex p).
Notation tbl_ok := (CompileDefs.tbl_ok p).
Notation ok_node := (CompileDefs.ok_node e p).
Notation ok_at := (CompileDefs.ok_at e p).

(* ---------- the main induction ---------- *)
Theorem cc_all_ok : forall f, Z.of_nat f <= INF -> ok_at f.
Proof.
  induction f as [|f IH]; intros Hf t Hs Hg.
  - intros s res Hsem. discriminate Hsem.
  - assert (IH' : ok_at f) by (apply IH; lia). clear IH.
    destruct t; try discriminate Hs.
    + apply cc_char; exact tc_nonneg.
    + cbn [supported] in Hs. apply cc_charloop; try assumption; lia.
    + apply cc_multi; exact tc_nonneg.
    + apply cc_ref; try exact tc_nonneg. destruct Hg as [Hg0 _]. exact Hg0.
    + apply cc_anchor; exact tc_nonneg.
    + apply cc_nothing; exact tc_nonneg.
    + apply cc_empty.
    + apply cc_bump.
    + apply cc_concat; assumption.
    + apply cc_alternate; assumption.
    + cbn [supported] in Hs. apply andb_prop in Hs. destruct Hs as [Hs Hsr]. apply andb_prop in Hs. destruct Hs as [Hm Hn].
      destruct Hg as [_ Hg]. apply cc_loop; try assumption; try lia. apply IH'; assumption.
    + cbn [supported] in Hs. apply andb_prop in Hs. destruct Hs as [Hu Hs]. apply Z.eqb_eq in Hu. subst u.
      destruct Hg as [Hg0 Hg]. apply cc_capture; [exact tc_nonneg|apply IH'; assumption|exact Hs|exact Hg0].
    + apply cc_group. apply IH'; [exact Hs|]. destruct Hg as [_ Hg]. exact Hg.
    + apply cc_poslook; [exact tc_nonneg|]. apply IH'; [exact Hs|]. destruct Hg as [_ Hg]. exact Hg.
    + apply cc_neglook; [exact tc_nonneg|]. apply IH'; [exact Hs|]. destruct Hg as [_ Hg]. exact Hg.
    + apply cc_atomic; [exact tc_nonneg|]. apply IH'; [exact Hs|]. destruct Hg as [_ Hg]. exact Hg.
    + cbn [supported] in Hs. apply andb_prop in Hs. destruct Hs as [Hsy Hsn].
      destruct Hg as [Hg0 [Hgy Hgn]].
      apply cc_backrefcond; [exact tc_nonneg|apply IH'; assumption| |exact Hg0].
      destruct no as [x|]; [apply IH'; assumption|exact I].
    + cbn [supported] in Hs. apply andb_prop in Hs. destruct Hs as [Hs Hsn]. apply andb_prop in Hs. destruct Hs as [Hsc Hsy].
      destruct Hg as [_ [Hgc [Hgy Hgn]]].
      apply cc_exprcond; [exact tc_nonneg|apply IH'; assumption|exact Hsc|apply IH'; assumption|].
      destruct no as [x|]; [apply IH'; assumption|exact I].
Qed.

Theorem compile_correct_partial : forall fuel t s res,
  Z.of_nat fuel <= INF ->
  sem e fuel t s = Ok res -> supported t = true -> st_ok e s -> groups_ok (capsize p) t ->
  forall a tbl T S C M,
    has_code a (fst (emit cfg0 t a tbl)) -> (exists w, code_at p (a + csize cfg0 t) = Some w) ->
    track_ok T -> caps_rel (caps s) M -> tbl_ok (snd (emit cfg0 t a tbl)) ->
    leadsg (a + csize cfg0 t) T S S C M (mkr a 0 (pos s) T S C M) res.
Proof.
  intros fuel t s res Hf Hsem Hs Hst Hg a tbl T S C M Hc Hex Hk Hr Htb.
  exact (cc_all_ok fuel Hf t Hs Hg s res Hsem Hst a tbl T S C M Hc Hex Hk Hr Htb).
Qed.

(* ---------- the whole program: Lazybranch Lend ; root ; Lend: Stop ---------- *)
Lemma cc_has_code_self : has_code 0 (codes p).
Proof.
  intros i w Hi. unfold code_at, znth. replace (0 + Z.of_nat i <? 0) with false by lia.
  replace (Z.to_nat (0 + Z.of_nat i)) with i by lia. exact Hi.
Qed.

Lemma cc_caps_rel_init : 0 <= capsize p -> caps_rel [] (repeat [] (Z.to_nat (capsize p))).
Proof.
  intros H. split.
  - unfold zlen. rewrite repeat_length. lia.
  - intros g Hg. cbn [cap_get rev flat].
    destruct (nth_in_or_default (Z.to_nat g) (repeat (@nil Z) (Z.to_nat (capsize p))) []) as [Hin|Hd]; [|exact Hd].
    apply repeat_spec in Hin. exact Hin.
Qed.

Theorem compile_correct_top_partial : forall fuel o body t0 r,
  let root := NCapture o 0 (-1) body in
  let M0 := repeat [] (Z.to_nat (capsize p)) in
  let stop := 2 + csize cfg0 root in
  codes p = fst (compile cfg0 root) -> strings p = snd (compile cfg0 root) ->
  supported root = true -> groups_ok (capsize p) root -> 0 <= t0 <= tlen e ->
  Z.of_nat fuel <= INF ->
  attempt e fuel root t0 = Ok r ->
  code_at p stop = Some Stop /\
  exists t T S C M,
    VMU.usteps e p (VMU.mk 0 0 t0 [] [] [] M0) (VMU.mk stop 0 t T S C M) /\
    VMU.ustep e p (VMU.mk stop 0 t T S C M) = Ok (Done (VMU.mk stop 0 t T S C M)) /\
    match r with
    | Some q => t = pos q /\ caps_rel (caps q) M /\ matched0 (VMU.mk stop 0 t T S C M) = true
    | None => M = M0 /\ T = [] /\ S = [] /\ C = [] /\ matched0 (VMU.mk stop 0 t T S C M) = false
    end.
Proof.
  intros fuel o body t0 r root M0 stop Hcodes Hstrings Hs Hg Ht0 Hfuel Hatt.
  unfold attempt in Hatt. apply sp_bind_ok in Hatt. destruct Hatt as [l [Hsem Hr]]. injection Hr as <-.
  pose proof cc_has_code_self as Hc. rewrite Hcodes in Hc. unfold compile in Hc, Hstrings.
  pose proof (emit_length cfg0 root 2 []) as Lr.
  destruct (emit cfg0 root 2 []) as [cr tbl'] eqn:Er. cbn [fst snd] in Lr, Hc, Hstrings.
  apply has_code_cons in Hc. destruct Hc as [H0 Hc]. apply has_code_cons in Hc. destruct Hc as [H1 Hc].
  apply has_code_app in Hc. destruct Hc as [Hcr Hc]. apply has_code_cons in Hc. destruct Hc as [Hstop _].
  replace (0 + 1) with 1 in * by lia. replace (1 + 1) with 2 in * by lia.
  rewrite Lr in *. fold stop in H1, Hstop.
  split; [exact Hstop|].
  assert (Hg0 : 0 <= 0 < capsize p) by (destruct Hg as [Hg0 _]; exact Hg0).
  assert (Hst : st_ok e {| pos := t0; caps := [] |}) by (apply sb_init_ok; exact Ht0).
  assert (Hex2 : code_ex 2).
  { eapply cc_code_ex_start; [exact Hcr|]. rewrite Lr. exists Stop. exact Hstop. }
  destruct Hex2 as [w2 Hw2].
  assert (Hcap : 0 <= capsize p) by lia.
  assert (G : leadsg stop [0] [] [] [] M0 (mkr 2 0 t0 [0] [] [] M0) l).
  { apply (compile_correct_partial fuel root {| pos := t0; caps := [] |} l Hfuel Hsem Hs Hst Hg 2 [] [0] [] [] M0).
    - rewrite Er. exact Hcr.
    - exists Stop. exact Hstop.
    - eapply track_ok_cons. exact H0.
    - apply cc_caps_rel_init. exact Hcap.
    - rewrite Er. cbn [snd]. intros i str Hi. rewrite Hstrings. exact Hi. }
  assert (Hstep1 : VMU.usteps e p (VMU.mk 0 0 t0 [] [] [] M0) (mkr 2 0 t0 [0] [] [] M0 t0)).
  { apply usteps_one. unfold mkr. cbn [app]. eapply ustep_lazybranch; eassumption. }
  assert (HlM0 : zlen M0 = capsize p) by (unfold M0, zlen; rewrite repeat_length; lia).
  destruct l as [|q l'].
  - cbn [leadsg] in G. destruct G as (np & T' & t & HT & Hs1). injection HT as <- <-.
    destruct (Hs1 t0) as [r' Hr']. rewrite bkr_pos in Hr' by lia. unfold mkr in Hr' at 2. cbn [app] in Hr'.
    exists r', [], [], [], M0.
    split.
    { eapply usteps_trans; [exact Hstep1|]. eapply usteps_trans; [exact Hr'|]. apply usteps_one.
      eapply ustep_lazybranch_back; eassumption. }
    split. { apply ustep_stop. exact Hstop. }
    repeat (split; [reflexivity|]).
    unfold matched0, mc_get. cbn [mcaps VMU.mk]. rewrite (cc_znth_nth M0 0 []) by lia.
    destruct (cc_caps_rel_init Hcap) as [_ Hn]. fold M0 in Hn. change (nth 0 M0 []) with (nth (Z.to_nat 0) M0 []).
    rewrite Hn by lia. reflexivity.
  - cbn [leadsg] in G. destruct G as (T' & C' & M' & Hcq & Hu & Hk & Hs1 & _).
    destruct (Hs1 t0) as [r' Hr']. unfold mkr in Hr' at 2.
    exists (pos q), ((T' ++ [0]) ++ [r']), [], (C' ++ []), M'.
    split. { eapply usteps_trans; [exact Hstep1|exact Hr']. }
    split. { apply ustep_stop. exact Hstop. }
    split; [reflexivity|]. split; [exact Hcq|].
    unfold root in Hsem. destruct fuel as [|f]; [discriminate Hsem|]. rewrite cc_sem_capture in Hsem. apply sp_bindr_ok in Hsem. destruct Hsem as [la [_ Hb]].
    apply sb_bindl_singleton in Hb. destruct la as [|s' la']; [discriminate Hb|]. cbn [map] in Hb. injection Hb as -> _.
    destruct Hcq as [HlM HcM]. unfold matched0, mc_get. cbn [mcaps VMU.mk]. rewrite (cc_znth_nth M' 0 []) by lia.
    change (nth (Z.to_nat 0) M' []) with (nth 0 M' []) in *.
    specialize (HcM 0 Hg0). change (nth (Z.to_nat 0) M' []) with (nth 0 M' []) in HcM. rewrite HcM.
    cbn [caps]. unfold cap_push. rewrite sb_cap_get_set_same. cbn [rev]. rewrite cc_flat_app.
    destruct (span t0 (pos s')) as [i n]. cbn [flat]. unfold zlen. rewrite app_length. cbn [length]. lia.
Qed.

End CC.

Print Assumptions compile_correct_partial.

Print Assumptions compile_correct_top_partial.

(* ---------- a concrete instance: (a|ab)(c|bcd) on "abc" ----------
   The first alternative of group 1 ("a") leads nowhere, the interpreter backtracks into it and
   takes "ab", then "c".  The corollary gives a reachable Stop state whose position and capture
   arrays are the reference result; the bounded interpreter [exec_at] computes the same state. *)
Definition cc_demo_env : env :=
  {| txt := [97; 98; 99]; tstart := 0; ecma := false; endz_strict := false;
     set_in := fun _ _ => false; lower := fun x => x; is_word := fun _ => true; is_eword := fun _ => true |}.
Definition cc_demo_body : node :=
  NConcat 0 [NCapture 0 1 (-1) (NAlternate 0 [NChar COne 0 97; NConcat 0 [NChar COne 0 97; NChar COne 0 98]]);
             NCapture 0 2 (-1) (NAlternate 0 [NChar COne 0 99;
                                              NConcat 0 [NChar COne 0 98; NChar COne 0 99; NChar COne 0 100]])].
Definition cc_demo_root : node := NCapture 0 0 (-1) cc_demo_body.
Definition cc_demo_prog : program :=
  {| codes := fst (compile cfg0 cc_demo_root); strings := snd (compile cfg0 cc_demo_root);
     trackcount := track_count (fst (compile cfg0 cc_demo_root)); capsize := 3 |}.
Definition cc_demo_result : st := {| pos := 3; caps := [(1, [(0, 2)]); (2, [(2, 1)]); (0, [(0, 3)])] |}.

Example cc_demo :
  attempt cc_demo_env 20 cc_demo_root 0 = Ok (Some cc_demo_result) /\
  (exists t T S C M,
     VMU.usteps cc_demo_env cc_demo_prog (VMU.mk 0 0 0 [] [] [] [[]; []; []]) (VMU.mk 36 0 t T S C M) /\
     VMU.ustep cc_demo_env cc_demo_prog (VMU.mk 36 0 t T S C M) = Ok (Done (VMU.mk 36 0 t T S C M)) /\
     t = 3 /\ caps_rel cc_demo_prog (caps cc_demo_result) M /\
     matched0 (VMU.mk 36 0 t T S C M) = true) /\
  (exists s', exec_at cc_demo_env cc_demo_prog (-1) 5 0 = Ok s' /\ pc s' = 36 /\ tp s' = 3 /\
              mcaps s' = [[0; 3]; [0; 2]; [2; 1]]).
Proof.
  split; [vm_compute; reflexivity|]. split.
  - assert (Htc : 0 <= trackcount cc_demo_prog) by (vm_compute; congruence).
    assert (Hg : groups_ok (capsize cc_demo_prog) cc_demo_root).
    { cbn. repeat split; try exact I; cbv; congruence. }
    assert (Hp : 0 <= 0 <= tlen cc_demo_env) by (cbv; split; congruence).
    destruct (compile_correct_top_partial cc_demo_env cc_demo_prog Htc ltac:(cbv; congruence) 20 0 cc_demo_body 0 (Some cc_demo_result)
                eq_refl eq_refl eq_refl Hg Hp ltac:(cbv; congruence) ltac:(vm_compute; reflexivity)) as [_ (t & T & S & C & M & H1 & H2 & H3 & H4 & H5)].
    exists t, T, S, C, M. exact (conj H1 (conj H2 (conj H3 (conj H4 H5)))).
  - eexists. split; [vm_compute; reflexivity|]. repeat split.
Qed.

(* ---------- two richer instances ----------
   (1)  on "abaaac": a greedy Branchmark loop around capture 1 whose body is the alternation of the
        literal string "ab" and the lazy single-character loop a{1,2}?; then a back-reference to 1,
        a positive lookahead for c, a negative lookahead for d, an atomic greedy c-loop, and a
        back-reference conditional (group 1 set: end anchor, else z).  Group 1 is captured three times.
   (2)  on "ababaa": a lazy counted loop {2,3}? around capture 1 (a set), an expression conditional,
        a right-to-left lookbehind for "ab", a greedy counted loop {2,} (Branchcount with n = INF),
        and the end anchor. *)
Definition cc_demo_env2 (t : list Z) : env :=
  {| txt := t; tstart := 0; ecma := false; endz_strict := false;
     set_in := fun _ x => (97 <=? x) && (x <=? 98); lower := fun x => x; is_word := fun _ => true; is_eword := fun _ => true |}.
Definition cc_demo_body2 : node :=
  NConcat 0 [ NLoop false 0 0 INF (NCapture 0 1 (-1) (NAlternate 0 [NMulti 0 [97;98]; NCharLoop COne LLazy 0 97 1 2]));
              NRef 0 1;
              NPosLook 0 (NChar COne 0 99);
              NNegLook 0 (NChar COne 0 100);
              NAtomic (NCharLoop COne LGreedy 0 99 0 INF);
              NBackRefCond 0 1 (NAnchor AEndZ) (Some (NChar COne 0 122)) ].
Definition cc_demo_body3 : node :=
  NConcat 0 [ NLoop true 0 2 3 (NCapture 0 1 (-1) (NChar CSet 0 0));
              NExprCond 0 (NChar COne 0 98) (NChar COne 0 98) (Some (NChar COne 0 97));
              NPosLook 64 (NConcat 64 [NChar COne 64 98; NChar COne 64 97]);
              NLoop false 0 2 INF (NChar CNotone 0 120);
              NAnchor AEnd ].
Definition cc_demo_prog_of (root : node) : program :=
  {| codes := fst (compile cfg0 root); strings := snd (compile cfg0 root);
     trackcount := track_count (fst (compile cfg0 root)); capsize := 2 |}.

Example cc_demo2 :
  let e := cc_demo_env2 [97;98;97;97;97;99] in
  let root := NCapture 0 0 (-1) cc_demo_body2 in
  let p := cc_demo_prog_of root in
  let q := {| pos := 6; caps := [(1, [(3, 1); (2, 1); (0, 2)]); (0, [(0, 6)])] |} in
  supported root = true /\
  attempt e 40 root 0 = Ok (Some q) /\
  (exists t T S C M,
     VMU.usteps e p (VMU.mk 0 0 0 [] [] [] [[]; []]) (VMU.mk 59 0 t T S C M) /\
     VMU.ustep e p (VMU.mk 59 0 t T S C M) = Ok (Done (VMU.mk 59 0 t T S C M)) /\
     t = 6 /\ caps_rel p (caps q) M) /\
  (exists s', exec_at e p (-1) 5 0 = Ok s' /\ pc s' = 59 /\ tp s' = 6 /\ mcaps s' = [[0; 6]; [0; 2; 2; 1; 3; 1]]).
Proof.
  intros e root p q. split; [reflexivity|]. split; [vm_compute; reflexivity|]. split.
  - assert (Htc : 0 <= trackcount p) by (vm_compute; congruence).
    assert (Hg : groups_ok (capsize p) root) by (cbn; repeat split; try exact I; cbv; congruence).
    assert (Hp : 0 <= 0 <= tlen e) by (cbv; split; congruence).
    destruct (compile_correct_top_partial e p Htc ltac:(cbv; congruence) 40 0 cc_demo_body2 0 (Some q)
                eq_refl eq_refl eq_refl Hg Hp ltac:(cbv; congruence) ltac:(vm_compute; reflexivity))
      as [_ (t & T & S & C & M & H1 & H2 & H3 & H4 & H5)].
    exists t, T, S, C, M. exact (conj H1 (conj H2 (conj H3 H4))).
  - eexists. split; [vm_compute; reflexivity|]. repeat split.
Qed.

Example cc_demo3 :
  let e := cc_demo_env2 [97;98;97;98;97;97] in
  let root := NCapture 0 0 (-1) cc_demo_body3 in
  let p := cc_demo_prog_of root in
  let q := {| pos := 6; caps := [(1, [(2, 1); (1, 1); (0, 1)]); (0, [(0, 6)])] |} in
  supported root = true /\
  attempt e 40 root 0 = Ok (Some q) /\
  (exists t T S C M,
     VMU.usteps e p (VMU.mk 0 0 0 [] [] [] [[]; []]) (VMU.mk 49 0 t T S C M) /\
     VMU.ustep e p (VMU.mk 49 0 t T S C M) = Ok (Done (VMU.mk 49 0 t T S C M)) /\
     t = 6 /\ caps_rel p (caps q) M) /\
  (exists s', exec_at e p (-1) 5 0 = Ok s' /\ pc s' = 49 /\ tp s' = 6 /\ mcaps s' = [[0; 6]; [0; 1; 1; 1; 2; 1]]).
Proof.
  intros e root p q. split; [reflexivity|]. split; [vm_compute; reflexivity|]. split.
  - assert (Htc : 0 <= trackcount p) by (vm_compute; congruence).
    assert (Hg : groups_ok (capsize p) root) by (cbn; repeat split; try exact I; cbv; congruence).
    assert (Hp : 0 <= 0 <= tlen e) by (cbv; split; congruence).
    destruct (compile_correct_top_partial e p Htc ltac:(cbv; congruence) 40 0 cc_demo_body3 0 (Some q)
                eq_refl eq_refl eq_refl Hg Hp ltac:(cbv; congruence) ltac:(vm_compute; reflexivity))
      as [_ (t & T & S & C & M & H1 & H2 & H3 & H4 & H5)].
    exists t, T, S, C, M. exact (conj H1 (conj H2 (conj H3 H4))).
  - eexists. split; [vm_compute; reflexivity|]. repeat split.
Qed.
