(* C03 x C04: end-to-end soundness of the modes whose fact C04 proves for the analysis.
   "The analysis computes the fact  =>  the scan with the finder of that mode returns what Spec.find
   returns", on a tree, for the reference semantics (one attempt = Spec.attempt, Proofs/ScanBumpProofs.v
   [bp_exec]).  Covered: the minimum-length cut-off (both directions), the fixed-length trailing \z jump,
   the leading literal prefix (LeadingString_LeftToRight; under "text and prefix are well-formed UTF-8"),
   the anchor jumps of findFirstCharDefault from Code.Anchors. *)
From Coq Require Import ZifyBool.
From Verif Require Import Base.Prelude Base.Utf8 Model.Tree Model.Spec Model.Scan Model.Finder Model.Analysis
     Proofs.ScanProofs Proofs.ScanBumpProofs Proofs.FinderProofs Proofs.Utf8Proofs
     Proofs.AnalysisReach Proofs.AnalysisProofs Proofs.AnalysisPrefix Proofs.AnalysisFacts.

(* ---------- UTF-8: a byte prefix that is the encoding of valid runes is a rune prefix ---------- *)

Lemma fc_encode_nonempty : forall r, encode r <> [].
Proof.
  intros r H. pose proof (encode_length r) as HL. pose proof (encode_len_range r) as HR.
  rewrite H in HL. unfold zlen in HL. cbn in HL. lia.
Qed.

Lemma fc_encode_prefix_runes : forall P t rest,
  forallb valid_rune P = true -> forallb valid_rune t = true ->
  encode_string t = encode_string P ++ rest -> exists t', t = P ++ t'.
Proof.
  induction P as [|r P IH]; intros t rest HP Ht H; [exists t; reflexivity|].
  cbn [forallb] in HP. apply andb_prop in HP. destruct HP as [Hr HP].
  unfold encode_string in H. cbn [flat_map] in H. fold (encode_string P) in H.
  destruct t as [|x t].
  - cbn in H. symmetry in H. apply app_eq_nil in H. destruct H as [H _].
    apply app_eq_nil in H. destruct H as [H _]. exfalso. exact (fc_encode_nonempty r H).
  - cbn [forallb] in Ht. apply andb_prop in Ht. destruct Ht as [Hx Ht].
    cbn [flat_map] in H. fold (encode_string t) in H.
    assert (Hd : decode_rune (encode x ++ encode_string t) = decode_rune (encode r ++ (encode_string P ++ rest))).
    { rewrite H, <- app_assoc. reflexivity. }
    rewrite !decode_rune_encode_any in Hd. unfold sanitize in Hd. rewrite Hx, Hr in Hd.
    injection Hd as Hxr _. subst x.
    rewrite <- app_assoc in H. apply app_inv_head in H.
    destruct (IH t rest HP Ht H) as [t' ->]. exists t'. reflexivity.
Qed.

Lemma fc_prefix_match_app : forall P t', fd_prefix_match fd_eq_exact P (P ++ t') = true.
Proof.
  induction P as [|c P IH]; intros t'; [reflexivity|].
  cbn [app fd_prefix_match]. unfold fd_eq_exact at 1. rewrite Z.eqb_refl. apply IH.
Qed.

(* []rune(string(P)) = P for valid runes *)
Lemma fc_runes_of_encode : forall P, forallb valid_rune P = true -> runes_of (encode_string P) = P.
Proof.
  intros P HP. unfold runes_of. rewrite decode_encode_valid by exact HP.
  rewrite map_map. cbn [fst]. apply map_id.
Qed.

(* ---------- the matcher of the reference semantics as an [exec] ---------- *)
Section Compose.
Variable e : env.
Variable fuel : nat.
Variable root : node.
Variable bumpq : Z -> Z.

Local Notation exec := (bp_exec e fuel root bumpq).
Local Notation n := (tlen e).

Lemma fc_succeeds_attempt : forall q, fd_succeeds st exec q -> exists s', attempt e fuel root q = Ok (Some s').
Proof.
  intros q H. unfold fd_succeeds, bp_exec in H.
  destruct (attempt e fuel root q) as [[s'|]| | |]; cbn [fst] in H; try contradiction. eauto.
Qed.

(* without the bump-along shortcut a failed attempt leaves the position it started from *)
Lemma fc_H3_id : (forall p, bumpq p = p) -> forall rtl, sc_H3 st n rtl exec.
Proof.
  intros Hid rtl p q Hp He. unfold bp_exec in He.
  assert (Hq : q = p /\ fst (exec p) = None).
  { unfold bp_exec. destruct (attempt e fuel root p) as [[s'|]| | |]; inversion He; subst; rewrite ?Hid; split; reflexivity. }
  destruct Hq as [-> Hf]. unfold sc_ord, sc_in_text in *. split; [destruct rtl; lia|]. split; [exact Hp|].
  intros x H1 H2. assert (x = p) by (destruct rtl; lia). subst x. exact Hf.
Qed.

(* MinRequiredLength, both directions (C04_min_len_sound / _rtl) *)
Lemma fc_min_len_H2 : forall rtl, shape_ok rtl root = true -> sc_H2 st n rtl (min_len root) exec.
Proof.
  intros rtl Hs x Hx Ha. apply fd_not_succeeds_fails. intros Hsx.
  destruct (fc_succeeds_attempt x Hsx) as [s' Hat]. unfold sc_in_text in Hx.
  destruct (an_attempt_len_sound e rtl fuel root x s' Hs Hx Hat) as (Hb & Hmin & _).
  unfold sc_ahead in Ha. destruct rtl; lia.
Qed.

(* the published record [facts] (left-to-right) *)
Variable later_useful : bool.
Hypothesis Hshape : shape_ok false root = true.
Hypothesis Hnoci : no_ci_lit root = true.
Hypothesis Hlook : look_ok root = true.

Local Notation f := (facts false later_useful root).

Lemma fc_facts_at : forall q, 0 <= q <= n -> fd_succeeds st exec q ->
  exists s', attempt e fuel root q = Ok (Some s') /\ facts_hold e false q s' f.
Proof.
  intros q Hq Hs. destruct (fc_succeeds_attempt q Hs) as [s' Hat]. exists s'. split; [exact Hat|].
  exact (an_facts_sound e false later_useful fuel root q s' Hshape Hnoci Hlook Hq Hat).
Qed.

Lemma fc_minlen_fact : fd_minlen_fact st (txt e) exec (f_min f).
Proof.
  intros q Hq Hs. destruct (fc_facts_at q Hq Hs) as (s' & _ & Hf & _). cbv iota in Hf. exact Hf.
Qed.

(* FindMode 9 comes from the whole-pattern analysis only: trailing \z, min = max *)
Lemma fc_ffn_mode9 : forall rtl partial t, f_mode (facts_for_node rtl partial t) = 9 ->
  partial = false /\ f_trail (facts_for_node rtl partial t) = 21 /\
  f_min (facts_for_node rtl partial t) = f_max (facts_for_node rtl partial t) /\
  f_min (facts_for_node rtl partial t) = min_len t.
Proof.
  intros rtl partial t. unfold facts_for_node. cbv zeta.
  set (la := match lead_anchor true t with Some ABol => if rtl then None else lead_anchor true t | _ => lead_anchor true t end).
  destruct (negb (get_find_mode rtl la =? 0)) eqn:E0.
  { cbn [f_mode]. intros H. unfold get_find_mode in H. destruct la as [[]|]; destruct rtl; discriminate. }
  set (ta := if negb rtl && negb partial then oanchor_code (lead_anchor false t) else 0).
  destruct (((ta =? 21) || (ta =? 20)) && (min_len t =? (if (ta =? 21) || (ta =? 20) then max_len t else -1))) eqn:E1.
  - cbn [f_mode f_trail f_min f_max]. intros H.
    destruct (ta =? 21) eqn:E21; [|discriminate].
    assert (Hp : partial = false).
    { destruct partial; [|reflexivity]. unfold ta in E21. rewrite andb_false_r in E21. discriminate. }
    cbn [orb] in *. split; [exact Hp|]. split; [lia|]. split; [lia | reflexivity].
  - destruct (1 <? zlen (find_prefix t)); cbn [f_mode]; intros H; [destruct rtl; discriminate | discriminate].
Qed.

Lemma fc_facts_mode9 : f_mode f = 9 -> f_trail f = 21 /\ f_min f = f_max f /\ f_min f = min_len root.
Proof.
  unfold facts. cbv zeta.
  destruct (negb false && negb (if f_mode (facts_for_node false false root) =? MODE_LATER
                               then later_useful || (f_lead (facts_for_node false false root) =? 14) else true)) eqn:Ew.
  - destruct (fst (lead_pos_look root)) as [c|].
    + cbn [f_mode f_trail f_min f_max]. intros H. destruct (fc_ffn_mode9 false true c H) as [Hp _]. discriminate.
    + intros H. destruct (fc_ffn_mode9 false false root H) as (_ & H1 & H2 & H3). auto.
  - intros H. destruct (fc_ffn_mode9 false false root H) as (_ & H1 & H2 & H3). auto.
Qed.

Lemma fc_trailing_end_fact : f_mode f = 9 -> 0 <= f_min f /\ fd_trailing_end_fact st (txt e) exec (f_min f).
Proof.
  intros Hm. destruct (fc_facts_mode9 Hm) as (Ht & Hmm & Hml). split.
  - rewrite Hml. apply (an_min_len_nonneg false). exact Hshape.
  - intros q Hq Hs. destruct (fc_facts_at q Hq Hs) as (s' & Hat & Hmin & Hmax & _ & Htr & _). cbv iota in Hmin.
    specialize (Htr AEnd). rewrite Ht in Htr. specialize (Htr eq_refl). cbn [anchor_ok] in Htr.
    destruct (an_attempt_len_sound e false fuel root q s' Hshape Hq Hat) as (Hb & _ & _).
    assert (H0 : 0 <= f_min f) by (rewrite Hml; apply (an_min_len_nonneg false); exact Hshape).
    specialize (Hmax ltac:(lia)). fold n. lia.
Qed.

(* the FindOptimizations record as far as Analysis.facts models it *)
Definition fc_opts_of_facts (g : facts_t) : fdopts :=
  {| fo_mode := f_mode g; fo_minreq := f_min g; fo_prefix := runes_of (f_prefix g); fo_prefixes := [];
     fo_first_runes := []; fo_fdl_c := 0; fo_fdl_s := []; fo_fdl_distance := 0; fo_sets := []; fo_lal := None;
     fo_chain := None |}.

(* LeadingString_LeftToRight: the published byte prefix is the encoding of valid runes P, the text holds
   valid runes: the text at a successful attempt starts with P = []rune(LeadingPrefix) *)
Lemma fc_prefix_fact : forall P, forallb valid_rune P = true -> forallb valid_rune (txt e) = true ->
  f_prefix f = encode_string P ->
  runes_of (f_prefix f) = P /\ fd_prefix_fact st (txt e) exec fd_eq_exact P.
Proof.
  intros P HP Ht Hpre. split; [rewrite Hpre; apply fc_runes_of_encode; exact HP|].
  intros q Hq Hs. destruct (fc_facts_at q Hq Hs) as (s' & _ & _ & _ & _ & _ & Hpf).
  destruct (Hpf eq_refl) as [rest Hr]. unfold bytes_from in Hr. rewrite Hpre in Hr.
  assert (Hts : forallb valid_rune (skipn (Z.to_nat q) (txt e)) = true).
  { rewrite forallb_forall in *. intros x Hx. apply Ht. rewrite <- (firstn_skipn (Z.to_nat q) (txt e)).
    apply in_or_app. right. exact Hx. }
  destruct (fc_encode_prefix_runes P _ rest HP Hts Hr) as [t' ->]. apply fc_prefix_match_app.
Qed.

Hypothesis Hfuel : forall x, 0 <= x <= n -> exists r, attempt e fuel root x = Ok r.
Hypothesis H3 : sc_H3 st n false exec.

(* the scan with the optimized finder of the published mode = Spec.find *)
Lemma fc_optimized_scan : forall (g : fdopts),
  fo_minreq g = f_min f -> fd_mode_handled g = true ->
  fd_mode_fact st (txt e) exec (set_in e) (lower e) g ->
  forall start prevlen, 0 <= start <= n ->
  exists r, find e fuel root false start prevlen = Ok r /\
            scan n false (f_min f) (fd_total (fd_optimized_finder (txt e) (set_in e) (lower e) g)) exec start prevlen = Ok r.
Proof.
  intros g Hmr Hh Hmf start prevlen Hs.
  pose proof fc_minlen_fact as Hmin.
  destruct (fd_optimized_sound st (txt e) exec (set_in e) (lower e) g Hh ltac:(rewrite Hmr; exact Hmin) Hmf) as [Hsound _].
  destruct (fd_scan_sound st (txt e) exec (f_min f) _ Hsound Hmin H3 start prevlen Hs) as (r & Hr1 & Hr2).
  exists r. split; [|exact Hr1].
  rewrite (bp_find_naive_scan e fuel root false bumpq start prevlen Hfuel Hs). exact Hr2.
Qed.

Theorem fc_mode_trailing_end_sound :
  f_mode f = FM_TrailingAnchor_FixedLength_LeftToRight_End ->
  forall start prevlen, 0 <= start <= n ->
  exists r, find e fuel root false start prevlen = Ok r /\
            scan n false (f_min f) (fd_total (fd_optimized_finder (txt e) (set_in e) (lower e) (fc_opts_of_facts f)))
                 exec start prevlen = Ok r.
Proof.
  intros Hm. apply fc_optimized_scan; [reflexivity | |].
  - unfold fd_mode_handled, fc_opts_of_facts. cbn [fo_mode]. rewrite Hm. reflexivity.
  - unfold fd_mode_fact, fc_opts_of_facts. cbn [fo_mode fo_minreq]. rewrite Hm. cbn.
    exact (fc_trailing_end_fact Hm).
Qed.

Theorem fc_mode_leading_string_sound : forall P,
  f_mode f = FM_LeadingString_LeftToRight ->
  forallb valid_rune P = true -> forallb valid_rune (txt e) = true -> f_prefix f = encode_string P ->
  forall start prevlen, 0 <= start <= n ->
  exists r, find e fuel root false start prevlen = Ok r /\
            scan n false (f_min f) (fd_total (fd_optimized_finder (txt e) (set_in e) (lower e) (fc_opts_of_facts f)))
                 exec start prevlen = Ok r.
Proof.
  intros P Hm HP Ht Hpre. destruct (fc_prefix_fact P HP Ht Hpre) as [Hrunes Hfact].
  apply fc_optimized_scan; [reflexivity | |].
  - unfold fd_mode_handled, fc_opts_of_facts. cbn [fo_mode]. rewrite Hm. reflexivity.
  - unfold fd_mode_fact, fc_opts_of_facts. cbn [fo_mode fo_prefix]. rewrite Hm. cbn. rewrite Hrunes. exact Hfact.
Qed.

End Compose.

(* ---------- the minimum-length cut-off alone, and the anchor jumps of findFirstCharDefault ---------- *)
Section ComposeDefault.
Variable e : env.
Variable fuel : nat.
Variable root : node.
Variable bumpq : Z -> Z.
Variable rtl : bool.

Local Notation exec := (bp_exec e fuel root bumpq).
Local Notation n := (tlen e).

Hypothesis Hshape : shape_ok rtl root = true.
Hypothesis Hfuel : forall x, 0 <= x <= n -> exists r, attempt e fuel root x = Ok r.
Hypothesis H3 : sc_H3 st n rtl exec.

(* no candidate finder at all (NoSearch, no FcPrefix, no Boyer-Moore prefix, no anchor bit): only the
   cut-off "fewer than MinRequiredLength runes ahead" (runner.go:170-180) acts *)
Theorem fc_min_length_cut_sound : forall start prevlen, 0 <= start <= n ->
  exists r, find e fuel root rtl start prevlen = Ok r /\
            scan n rtl (min_len root)
                 (fd_total (fd_find_first_char_default (txt e) (set_in e) (lower e) rtl 0 (tstart e) None None None None))
                 exec start prevlen = Ok r.
Proof.
  intros start prevlen Hs.
  set (F := fd_total (fd_find_first_char_default (txt e) (set_in e) (lower e) rtl 0 (tstart e) None None None None)).
  assert (Hfin : forall p, F p = (true, p)).
  { intros p. reflexivity. }
  destruct (sc_scan_finder_sound st n rtl (min_len root) F exec) with (start := start) (prevlen := prevlen) as (r & Hr1 & Hr2).
  - intros p q Hp Hq. rewrite Hfin in Hq. inversion Hq; subst q. unfold sc_ord, sc_before, sc_in_text in *.
    split; [destruct rtl; lia|]. split; [exact Hp|]. intros x H1 H2. destruct rtl; lia.
  - intros p q Hp Hq. rewrite Hfin in Hq. discriminate.
  - apply fc_min_len_H2. exact Hshape.
  - exact H3.
  - exact Hs.
  - exists r. split; [|exact Hr1].
    rewrite (bp_find_naive_scan e fuel root rtl bumpq start prevlen Hfuel Hs). exact Hr2.
Qed.

(* Code.Anchors = the bit of a leading Beginning / Start / EndZ / End anchor (C04_anchors_sound): the anchor
   part of findFirstCharDefault (no Boyer-Moore prefix), whatever FindOptimizations and FcPrefix hold *)
Theorem fc_mode_anchor_sound : forall a (o : option fdopts) (fc : option fdfc),
  get_anchors root = anchor_bit a ->
  (a = ABeginning \/ a = AStart \/ a = AEndZ \/ a = AEnd) ->
  forall start prevlen, 0 <= start <= n ->
  exists r, find e fuel root rtl start prevlen = Ok r /\
            scan n rtl (min_len root)
                 (fd_total (fd_find_first_char_default (txt e) (set_in e) (lower e) rtl (get_anchors root) (tstart e) None None o fc))
                 exec start prevlen = Ok r.
Proof.
  intros a o fc Hga Ha start prevlen Hs.
  assert (Hfind : anchor_findable a = true) by (destruct Ha as [->|[->|[->| ->]]]; reflexivity).
  assert (Hok : forall x, sc_in_text n x -> fst (exec x) <> None -> anchor_ok e a x = true).
  { intros x Hx Hsx. destruct (fc_succeeds_attempt e fuel root bumpq x Hsx) as [s' Hat].
    exact (an_get_anchors_sound e fuel root x s' a Hfind Hga Hat). }
  assert (Habit : abit (get_anchors root) (ANCH_BEGINNING + ANCH_START + ANCH_ENDZ + ANCH_END) = true)
    by (rewrite Hga; destruct Ha as [->|[->|[->| ->]]]; reflexivity).
  (* with an anchor bit set the rest of the finder is never consulted *)
  set (F := fd_total (fd_find_first_char_default (txt e) (set_in e) (lower e) rtl (get_anchors root) (tstart e) None None o fc)).
  assert (Heq : forall p, F p = ffc_default (txt e) rtl (get_anchors root) (tstart e) None naive_finder p).
  { intros p. unfold F, fd_total, fd_find_first_char_default, ffc_default. rewrite Habit. reflexivity. }
  destruct (sc_anchor_H1 st (txt e) rtl (get_anchors root) (tstart e) None naive_finder exec) as [A1 A2].
  - intros Hb x Hx Hsx. specialize (Hok x Hx Hsx). rewrite Hga in Hb.
    destruct Ha as [->|[->|[->| ->]]]; try discriminate Hb. cbn [anchor_ok] in Hok. unfold sc_in_text in Hx. lia.
  - intros Hb x Hx Hsx. specialize (Hok x Hx Hsx). rewrite Hga in Hb.
    destruct Ha as [->|[->|[->| ->]]]; try discriminate Hb. cbn [anchor_ok] in Hok. lia.
  - intros Hb x Hx Hsx. specialize (Hok x Hx Hsx). rewrite Hga in Hb.
    destruct Ha as [->|[->|[->| ->]]]; try discriminate Hb. cbn [anchor_ok] in Hok. unfold sc_in_text in Hx.
    unfold a_n, a_char in *. unfold char_at, tlen in *. cbv zeta in Hok.
    destruct (1 <? zlen (txt e) - x) eqn:E1; cbv iota in Hok; [discriminate|].
    destruct (endz_strict e); cbv iota in Hok; [left; lia|].
    destruct ((zlen (txt e) - x =? 1) && negb (nth (Z.to_nat x) (txt e) 0 =? 10)) eqn:E2; [discriminate|].
    lia.
  - intros Hb x Hx Hsx. specialize (Hok x Hx Hsx). rewrite Hga in Hb.
    destruct Ha as [->|[->|[->| ->]]]; try discriminate Hb. cbn [anchor_ok] in Hok. unfold sc_in_text in Hx.
    unfold a_n in *. unfold tlen in *. lia.
  - intros im Him. discriminate.
  - intros p q Hp Hq. inversion Hq; subst q. unfold sc_ord, sc_before, sc_in_text in *.
    split; [destruct rtl; lia|]. split; [exact Hp|]. intros x H1 H2. destruct rtl; lia.
  - intros p q Hp Hq. discriminate.
  - destruct (sc_scan_finder_sound st n rtl (min_len root) F exec) with (start := start) (prevlen := prevlen) as (r & Hr1 & Hr2).
    + intros p q Hp Hq. rewrite Heq in Hq. exact (A1 p q Hp Hq).
    + intros p q Hp Hq. rewrite Heq in Hq. exact (A2 p q Hp Hq).
    + apply fc_min_len_H2. exact Hshape.
    + exact H3.
    + exact Hs.
    + exists r. split; [|exact Hr1].
      rewrite (bp_find_naive_scan e fuel root rtl bumpq start prevlen Hfuel Hs). exact Hr2.
Qed.

End ComposeDefault.
