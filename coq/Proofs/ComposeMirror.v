(* C15 at the INTERPRETER level, by composition: no new model, no new induction over the interpreter.

     MirrorProofs.mirror_attempt_partial      attempt (mirror_env e) fuel (flip root) (n - t0)
                                              = the mirror image of  attempt e fuel root t0      (reference semantics)
     CompileBal.compile_correct2_exec_partial whenever exec_at returns on the program compiled from a supported2
                                              tree, the returned state carries Spec.attempt's answer
     SpecTermProofs.spec_attempt_total        the reference attempt answers within term_fuel e root
     CompileSafe.compile_exec_total           with no stack limit and enough interpreter fuel exec_at returns

   chained on BOTH sides (the program of [root] on the text, the program of [flip root] on the reversed text):

     cm_exec_mirror_given_attempt   two returned interpreter states are mirror images (match flag, final position,
                                    every capture stack DENOTED by every slot -- CompileBalDen.Den -- and what
                                    match.go's three readers answer), given one reference attempt that answers
     cm_exec_mirror                 the same with the attempt hypothesis discharged by term_ok / term_fuel
     cm_exec_mirror_all_readings    "denoted" is unambiguous: whatever pair lists read the two arrays, the stacks
                                    are mirror images (Den is functional, flat o rev is injective)
     cm_exec_mirror_total           with no stack limit and enough fuel BOTH calls return, and are mirror images
     cm_find_mirror                 the scan over fresh execute() calls (cm_find: Spec.find with exec_at in place of
                                    Spec.attempt) in direction rtl from start  is the mirror image of the scan of
                                    the flipped program in direction (negb rtl) from n - start
     cm_vm_find_mirror              the same for the interpreter's own scan VM.vm_find (capacities carried from
                                    attempt to attempt), any stack limits, whenever both searches return:
                                    vm_find under a limit = vm_find without (VMLimitSimProofs.vml_limit_transparent),
                                    and without a limit it visits the states of the fresh-call scan up to allocated
                                    capacities (cm_vm_find_fresh, from CompileTotal.run_total / exec_total)

   [flip] changes option words, anchors and the literal of a Multi only, so the compile fragment and the slot
   condition are invariant under it (cm_flip_supported2, cm_flip_groups_ok2, cm_flip_term_ok, cm_flip_term_fuel):
   no hypothesis about [flip root] is left in the statements. *)
From Verif Require Import Base.Prelude.
From Verif Require Import Model.Tree Model.Spec Model.VM Model.Writer Gen.RunnerGen
  Proofs.MirrorProofs
  Proofs.SpecProofs Proofs.SpecBoundsProofs Proofs.SpecTermProofs Proofs.MaskProofs
  Proofs.CompileBase Proofs.CompileDefs Proofs.CompileProofs
  Proofs.CompileBalDen Proofs.CompileBalBase Proofs.CompileBalDefs Proofs.CompileBal
  Proofs.VMLimitProofs Proofs.VMLimitSimProofs Proofs.VMCapacityProofs Proofs.VMU Proofs.VMUBridge
  Proofs.CompileTotal Proofs.CompileLimit Proofs.CompileLimitTop
  Proofs.CompileSafe Proofs.CompileFrag Proofs.ComposeExec.
From Coq Require Import ZifyBool.

(* ============================ flip preserves the fragments ============================ *)

Lemma cm_flip_supported2_list l : Forall (fun t => supported2 (flip t) = supported2 t) l ->
  supported2_list (map flip l) = supported2_list l.
Proof.
  induction 1 as [|x l Hx HF IH]; [reflexivity|]. cbn [map].
  change (supported2_list (flip x :: map flip l)) with (supported2 (flip x) && supported2_list (map flip l)).
  change (supported2_list (x :: l)) with (supported2 x && supported2_list l).
  rewrite Hx, IH. reflexivity.
Qed.

Lemma cm_flip_supported2 : forall t, supported2 (flip t) = supported2 t.
Proof.
  induction t as [kd o ch|kd lk o ch m n|o str|o g|an| | | |o l HF|o l HF|lazy o m n r IHr|o g u r IHr
                 |r IHr|o r IHr|o r IHr|r IHr|o g yes no IHy IHn|o cnd yes no IHc IHy IHn]
    using node_ind'; cbn [flip supported2]; try reflexivity; try assumption.
  - exact (cm_flip_supported2_list l HF).
  - replace (match map flip l with [] => false | _ => true end) with (match l with [] => false | _ => true end)
      by (destruct l; reflexivity).
    f_equal. exact (cm_flip_supported2_list l HF).
  - rewrite IHr. reflexivity.
  - rewrite IHy. destruct no as [x|]; cbn [option_map opt_all] in *; [rewrite IHn|]; reflexivity.
  - rewrite IHc, IHy. destruct no as [x|]; cbn [option_map opt_all] in *; [rewrite IHn|]; reflexivity.
Qed.

Lemma cm_flip_sb_all_list (P : node -> Prop) l :
  Forall (fun t => sb_all P t <-> sb_all P (flip t)) l -> (sb_all_list P l <-> sb_all_list P (map flip l)).
Proof.
  induction 1 as [|x l Hx HF IH]; [split; intros; exact I|]. cbn [map].
  change (sb_all_list P (x :: l)) with (sb_all P x /\ sb_all_list P l).
  change (sb_all_list P (flip x :: map flip l)) with (sb_all P (flip x) /\ sb_all_list P (map flip l)).
  rewrite Hx, IH. reflexivity.
Qed.

(* any node predicate that does not look at option words, anchors and literals is kept by flip *)
Lemma cm_flip_sb_all (P : node -> Prop) :
  (forall t, P (flip t) <-> P t) -> forall t, sb_all P t <-> sb_all P (flip t).
Proof.
  intros HP.
  induction t as [kd o ch|kd lk o ch m n|o str|o g|an| | | |o l HF|o l HF|lazy o m n r IHr|o g u r IHr
                 |r IHr|o r IHr|o r IHr|r IHr|o g yes no IHy IHn|o cnd yes no IHc IHy IHn]
    using node_ind';
    match goal with |- sb_all P ?t <-> _ => pose proof (HP t) as H0 end;
    cbn [flip] in H0 |- *; cbn [sb_all]; try (clear - H0; tauto); try (clear - H0 IHr; tauto).
  - pose proof (cm_flip_sb_all_list P l HF) as HL. unfold sb_all_list in HL. clear - H0 HL. tauto.
  - pose proof (cm_flip_sb_all_list P l HF) as HL. unfold sb_all_list in HL. clear - H0 HL. tauto.
  - destruct no as [x|]; cbn [option_map opt_all] in *; clear - H0 IHy IHn; tauto.
  - destruct no as [x|]; cbn [option_map opt_all] in *; clear - H0 IHc IHy IHn; tauto.
Qed.

Lemma cm_flip_groups_ok2 cs t : groups_ok2 cs t <-> groups_ok2 cs (flip t).
Proof.
  unfold groups_ok2. apply cm_flip_sb_all. intros t0. destruct t0; cbn [flip grp_ok_node2]; reflexivity.
Qed.

Lemma cm_flip_no_group0 t : no_group0 t <-> no_group0 (flip t).
Proof.
  unfold no_group0. apply cm_flip_sb_all. intros t0. destruct t0; cbn [flip sb_not0]; reflexivity.
Qed.

Lemma cm_flip_root o body : flip (NCapture o 0 (-1) body) = NCapture (flip_opt o) 0 (-1) (flip body).
Proof. reflexivity. Qed.

(* ---------- the termination side condition and its fuel ---------- *)
Lemma cm_eqb_negb a d : Bool.eqb (negb a) (negb d) = Bool.eqb a d.
Proof. destruct a, d; reflexivity. Qed.

Lemma cm_forallb_map_ext (f g : node -> bool) l :
  Forall (fun t => f (flip t) = g t) l -> forallb f (map flip l) = forallb g l.
Proof. induction 1 as [|x l Hx HF IH]; [reflexivity|]. cbn [map forallb]. rewrite Hx, IH. reflexivity. Qed.

Lemma cm_flip_dir_ok : forall t d, tm_dir_ok (negb d) (flip t) = tm_dir_ok d t.
Proof.
  induction t as [kd o ch|kd lk o ch m n|o str|o g|an| | | |o l HF|o l HF|lazy o m n r IHr|o g u r IHr
                 |r IHr|o r IHr|o r IHr|r IHr|o g yes no IHy IHn|o cnd yes no IHc IHy IHn]
    using node_ind'; intros d; cbn [flip tm_dir_ok]; try reflexivity;
    try (rewrite flip_is_rtl; apply cm_eqb_negb); try (apply IHr).
  - apply cm_forallb_map_ext. eapply Forall_impl; [|exact HF]. intros a Ha. apply Ha.
  - apply cm_forallb_map_ext. eapply Forall_impl; [|exact HF]. intros a Ha. apply Ha.
  - rewrite IHy. destruct no as [x|]; cbn [option_map opt_all tm_opt] in *; [rewrite IHn|]; reflexivity.
  - rewrite IHy. destruct no as [x|]; cbn [option_map opt_all tm_opt] in *; [rewrite IHn|]; reflexivity.
Qed.

Lemma cm_flip_term_ok : forall t, term_ok (flip t) = term_ok t.
Proof.
  induction t as [kd o ch|kd lk o ch m n|o str|o g|an| | | |o l HF|o l HF|lazy o m n r IHr|o g u r IHr
                 |r IHr|o r IHr|o r IHr|r IHr|o g yes no IHy IHn|o cnd yes no IHc IHy IHn]
    using node_ind'; cbn [flip term_ok]; try reflexivity; try assumption.
  - apply cm_forallb_map_ext. exact HF.
  - apply cm_forallb_map_ext. exact HF.
  - rewrite IHr. change false with (negb true) at 1. change true with (negb false) at 2.
    rewrite !cm_flip_dir_ok. rewrite orb_comm. reflexivity.
  - rewrite IHy. destruct no as [x|]; cbn [option_map opt_all tm_opt] in *; [rewrite IHn|]; reflexivity.
  - rewrite IHc, IHy. destruct no as [x|]; cbn [option_map opt_all tm_opt] in *; [rewrite IHn|]; reflexivity.
Qed.

Lemma cm_flip_fuel_list tl l : Forall (fun t => term_fuel_n tl (flip t) = term_fuel_n tl t) l ->
  tm_fuel_list tl (map flip l) = tm_fuel_list tl l.
Proof.
  induction 1 as [|x l Hx HF IH]; [reflexivity|]. cbn [map].
  change (tm_fuel_list tl (flip x :: map flip l)) with (Nat.max (term_fuel_n tl (flip x)) (tm_fuel_list tl (map flip l))).
  change (tm_fuel_list tl (x :: l)) with (Nat.max (term_fuel_n tl x) (tm_fuel_list tl l)).
  rewrite Hx, IH. reflexivity.
Qed.

Lemma cm_flip_term_fuel_n tl : forall t, term_fuel_n tl (flip t) = term_fuel_n tl t.
Proof.
  induction t as [kd o ch|kd lk o ch m n|o str|o g|an| | | |o l HF|o l HF|lazy o m n r IHr|o g u r IHr
                 |r IHr|o r IHr|o r IHr|r IHr|o g yes no IHy IHn|o cnd yes no IHc IHy IHn]
    using node_ind'; cbn [flip term_fuel_n]; try reflexivity; try (rewrite IHr; reflexivity).
  - f_equal. exact (cm_flip_fuel_list tl l HF).
  - f_equal. exact (cm_flip_fuel_list tl l HF).
  - rewrite IHy. destruct no as [x|]; cbn [option_map opt_all] in *; [rewrite IHn|]; reflexivity.
  - rewrite IHc, IHy. destruct no as [x|]; cbn [option_map opt_all] in *; [rewrite IHn|]; reflexivity.
Qed.

Lemma cm_flip_term_fuel e t : term_fuel (mirror_env e) (flip t) = term_fuel e t.
Proof. unfold term_fuel. rewrite mirror_tlen. apply cm_flip_term_fuel_n. Qed.

(* ============================ reading a capture array ============================ *)

(* Den is functional: one pair list denotes one stack *)
Lemma cm_den_fun ps s1 : Den ps s1 -> forall s2, Den ps s2 -> s1 = s2.
Proof.
  induction 1 as [|ps stk i n Hd IH Hi Hn|ps m1 m2 E1 E2|ps k i n ps' stk' m1 m2 E1 E2 Hk Hs Hi Hd IH]; intros s2 H2.
  - inversion H2. reflexivity.
  - inversion H2; subst; try (exfalso; lia). f_equal. apply IH. assumption.
  - inversion H2; subst; try (exfalso; lia). reflexivity.
  - inversion H2 as [|? ? ? ? ? ? ?|? ? ? F1 F2|? k0 i0 n0 ps0' ? ? ? F1 F2 Fk Fs Fi Fd]; subst; try (exfalso; lia).
    assert (Ek : k0 = k) by lia. subst k0. rewrite Hs in Fs. injection Fs as <- <- <-.
    apply IH. exact Fd.
Qed.

Lemma cm_flat_inj : forall a b, flat a = flat b -> a = b.
Proof.
  induction a as [|[i n] a IH]; intros [|[j m] b] H; cbn [flat] in H; try discriminate H; [reflexivity|].
  injection H as -> -> H. f_equal. apply IH. exact H.
Qed.

Lemma cm_flat_rev_inj a b : flat (rev a) = flat (rev b) -> a = b.
Proof.
  intros H. apply cm_flat_inj in H. rewrite <- (rev_involutive a), <- (rev_involutive b), H. reflexivity.
Qed.

(* ============================ the mirror relation between two returned interpreter states ============================ *)

(* [s] returned by the program p on the text of e, [s'] by p' on the reversed text (n = tlen e):
     same match flag;
     no match: both capture tables are the initial ones;
     match: final positions are mirror images, and for every slot g of both programs the two arrays denote
            (CompileBalDen.Den: pairs newest first, balancing markers resolved) capture stacks that are mirror
            images of each other ELEMENT BY ELEMENT IN THE SAME STACK ORDER ([map], as MirrorProofs.mirror_caps):
            (i, len) |-> (n - i - len, len); every capture lies inside the text; and match.go's readers
            (isMatched / matchIndex / matchLength) give mirrored answers. *)
Definition cm_mirrored (e : env) (p p' : program) (s s' : vm) : Prop :=
  matched0 s' = matched0 s /\
  (matched0 s = false ->
     mcaps s = repeat [] (Z.to_nat (capsize p)) /\ mcaps s' = repeat [] (Z.to_nat (capsize p'))) /\
  (matched0 s = true ->
     0 <= tp s <= tlen e /\ tp s' = tlen e - tp s /\
     forall g, 0 <= g < capsize p -> g < capsize p' ->
       exists ps ps' stk,
         nth (Z.to_nat g) (mcaps s) [] = flat (rev ps) /\ Den ps stk /\
         nth (Z.to_nat g) (mcaps s') [] = flat (rev ps') /\ Den ps' (map (mirror_span (tlen e)) stk) /\
         (forall i len, In (i, len) stk -> 0 <= i /\ 0 <= len /\ i + len <= tlen e) /\
         vm_is_matched g (mcaps s) = Some (match stk with [] => false | _ => true end) /\
         vm_is_matched g (mcaps s') = Some (match stk with [] => false | _ => true end) /\
         (forall i len rest, stk = (i, len) :: rest ->
            vm_match_index g (mcaps s) = Some i /\ vm_match_length g (mcaps s) = Some len /\
            vm_match_index g (mcaps s') = Some (tlen e - i - len) /\ vm_match_length g (mcaps s') = Some len)).

(* the hypotheses about the two programs, once *)
Definition cm_compiled (p p' : program) (o : Z) (body : node) : Prop :=
  let root := NCapture o 0 (-1) body in
  0 <= trackcount p /\ 0 <= trackcount p' /\
  codes p = fst (compile cfg0 root) /\ strings p = snd (compile cfg0 root) /\
  codes p' = fst (compile cfg0 (flip root)) /\ strings p' = snd (compile cfg0 (flip root)) /\
  mirror_ok root = true /\ supported2 root = true /\
  groups_ok2 (capsize p) root /\ groups_ok2 (capsize p') root.

Theorem cm_exec_mirror_given_attempt :
  forall (e : env) (p p' : program), 0 <= trackcount p -> 0 <= trackcount p' -> tlen e <= INF ->
  forall L L' fuel vfuel vfuel' o body t0 r s s',
  let root := NCapture o 0 (-1) body in
  codes p = fst (compile cfg0 root) -> strings p = snd (compile cfg0 root) ->
  codes p' = fst (compile cfg0 (flip root)) -> strings p' = snd (compile cfg0 (flip root)) ->
  mirror_ok root = true -> supported2 root = true ->
  groups_ok2 (capsize p) root -> groups_ok2 (capsize p') root ->
  0 <= t0 <= tlen e -> Z.of_nat fuel <= INF ->
  Spec.attempt e fuel root t0 = Ok r ->
  exec_at e p L vfuel t0 = Ok s ->
  exec_at (mirror_env e) p' L' vfuel' (tlen e - t0) = Ok s' ->
  cm_mirrored e p p' s s'.
Proof.
  intros e p p' Htc Htc' Htl L L' fuel vfuel vfuel' o body t0 r s s' root
    Hcodes Hstr Hcodes' Hstr' Hmo Hs Hg Hg' Ht0 Hf Hatt Hex Hex'.
  pose proof (mirror_attempt_partial e fuel root t0 Hmo Ht0) as Hatt'.
  rewrite Hatt in Hatt'. cbn [map_res] in Hatt'.
  assert (Htl' : tlen (mirror_env e) <= INF) by (rewrite mirror_tlen; exact Htl).
  assert (Ht0' : 0 <= tlen e - t0 <= tlen (mirror_env e)) by (rewrite mirror_tlen; lia).
  assert (Hs' : supported2 (flip root) = true) by (rewrite cm_flip_supported2; exact Hs).
  assert (Hgf : groups_ok2 (capsize p') (flip root)) by (apply (proj1 (cm_flip_groups_ok2 _ _)); exact Hg').
  destruct (compile_correct2_exec_partial e p Htc Htl L fuel vfuel o body t0 r s
              Hcodes Hstr Hs Hg Ht0 Hf Hatt Hex) as (_ & _ & Hr).
  destruct (compile_correct2_exec_partial (mirror_env e) p' Htc' Htl' L' fuel vfuel' (flip_opt o) (flip body)
              (tlen e - t0) (option_map (mirror_st e) r) s'
              Hcodes' Hstr' Hs' Hgf Ht0' Hf Hatt' Hex') as (_ & _ & Hr').
  destruct r as [q|]; cbn [option_map] in Hr', Hatt'.
  - destruct Hr as (Hp & Hc & Hm). destruct Hr' as (Hp' & Hc' & Hm').
    assert (Hok : st_ok e q).
    { eapply sb_attempt_in_bounds; [apply c2_supported_min_ok; exact Hs|exact Ht0|exact Hatt]. }
    assert (Hok' : st_ok (mirror_env e) (mirror_st e q)).
    { eapply sb_attempt_in_bounds; [apply c2_supported_min_ok; exact Hs'|exact Ht0'|exact Hatt']. }
    split; [rewrite Hm, Hm'; reflexivity|]. split; [intros Hm0; rewrite Hm in Hm0; discriminate Hm0|].
    intros _. split; [rewrite Hp; exact (proj1 Hok)|]. split; [rewrite Hp', Hp; reflexivity|].
    intros g Hgr Hgr'.
    assert (Hgr2 : 0 <= g < capsize p') by lia.
    destruct Hc as [Hl Hc0]. destruct Hc' as [Hl' Hc0'].
    destruct (Hc0 g Hgr) as (ps & Ea & Hd). destruct (Hc0' g Hgr2) as (ps' & Ea' & Hd').
    cbn [mirror_st caps] in Hd'. rewrite mirror_cap_get in Hd'.
    exists ps, ps', (cap_get g (caps q)).
    split; [exact Ea|]. split; [exact Hd|]. split; [exact Ea'|]. split; [exact Hd'|]. split.
    { intros i len Hin. exact (sb_st_ok_capture e q g i len Hok Hin). }
    destruct (bd_caps_rel_reads e p (caps q) (mcaps s) g (conj Hl Hc0) Hgr (proj2 Hok)) as [R1 R2].
    destruct (bd_caps_rel_reads (mirror_env e) p' (caps (mirror_st e q)) (mcaps s') g (conj Hl' Hc0') Hgr2 (proj2 Hok'))
      as [R1' R2'].
    split; [exact R1|]. split.
    { rewrite R1'. cbn [mirror_st caps]. rewrite mirror_is_matched. reflexivity. }
    intros i len rest E. destruct (R2 i len rest E) as [A1 A2].
    destruct (R2' (tlen e - i - len) len (map (mirror_span (tlen e)) rest)) as [A1' A2'].
    { cbn [mirror_st caps]. rewrite mirror_cap_get, E. reflexivity. }
    repeat split; assumption.
  - destruct Hr as (HM & Hm). destruct Hr' as (HM' & Hm').
    split; [rewrite Hm, Hm'; reflexivity|]. split; [intros _; split; [exact HM|exact HM']|].
    intros Hm0. rewrite Hm in Hm0. discriminate Hm0.
Qed.

(* the reference attempt answers (SpecTermProofs): term_ok root, and its fuel term_fuel e root in counter range *)
Theorem cm_exec_mirror :
  forall (e : env) (p p' : program), 0 <= trackcount p -> 0 <= trackcount p' -> tlen e <= INF ->
  forall L L' vfuel vfuel' o body t0 s s',
  let root := NCapture o 0 (-1) body in
  codes p = fst (compile cfg0 root) -> strings p = snd (compile cfg0 root) ->
  codes p' = fst (compile cfg0 (flip root)) -> strings p' = snd (compile cfg0 (flip root)) ->
  mirror_ok root = true -> supported2 root = true ->
  groups_ok2 (capsize p) root -> groups_ok2 (capsize p') root ->
  term_ok root = true -> Z.of_nat (term_fuel e root) <= INF ->
  0 <= t0 <= tlen e ->
  exec_at e p L vfuel t0 = Ok s ->
  exec_at (mirror_env e) p' L' vfuel' (tlen e - t0) = Ok s' ->
  cm_mirrored e p p' s s'.
Proof.
  intros e p p' Htc Htc' Htl L L' vfuel vfuel' o body t0 s s' root
    Hcodes Hstr Hcodes' Hstr' Hmo Hs Hg Hg' Hok Hf Ht0 Hex Hex'.
  destruct (spec_attempt_total e root t0 Hok Ht0 (term_fuel e root) (Nat.le_refl _)) as (r & Hatt & _).
  exact (cm_exec_mirror_given_attempt e p p' Htc Htc' Htl L L' (term_fuel e root) vfuel vfuel' o body t0 r s s'
           Hcodes Hstr Hcodes' Hstr' Hmo Hs Hg Hg' Ht0 Hf Hatt Hex Hex').
Qed.

(* "denoted" is unambiguous: ANY two readings of the two arrays of a slot as pair lists with a denotation give
   mirror-image stacks, same order *)
Theorem cm_exec_mirror_all_readings :
  forall (e : env) (p p' : program) (s s' : vm), cm_mirrored e p p' s s' -> matched0 s = true ->
  forall g, 0 <= g < capsize p -> g < capsize p' ->
  forall ps stk ps' stk',
    nth (Z.to_nat g) (mcaps s) [] = flat (rev ps) -> Den ps stk ->
    nth (Z.to_nat g) (mcaps s') [] = flat (rev ps') -> Den ps' stk' ->
    stk' = map (mirror_span (tlen e)) stk /\
    stk = map (mirror_span (tlen e)) stk' /\
    (forall i len, In (i, len) stk -> 0 <= i /\ 0 <= len /\ i + len <= tlen e).
Proof.
  intros e p p' s s' (_ & _ & HM) Hm g Hg Hg' ps stk ps' stk' Ea Hd Ea' Hd'.
  destruct (HM Hm) as (_ & _ & HG). destruct (HG g Hg Hg') as (qs & qs' & st0 & Fa & Fd & Fa' & Fd' & Hin & _).
  rewrite Ea in Fa. apply cm_flat_rev_inj in Fa. subst qs.
  rewrite Ea' in Fa'. apply cm_flat_rev_inj in Fa'. subst qs'.
  pose proof (cm_den_fun ps stk Hd st0 Fd) as E. subst st0.
  pose proof (cm_den_fun ps' stk' Hd' _ Fd') as E'. subst stk'.
  split; [reflexivity|]. split; [|exact Hin].
  rewrite map_map. rewrite <- (map_id stk) at 1. apply map_ext. intros a. symmetry. apply mirror_span_invol.
Qed.

(* ============================ both calls return ============================ *)
(* no stack limit, enough interpreter fuel: "both return" is a conclusion.  [track_count (codes p) <= trackcount p]
   (the runner's trackcount is the writer's count) is compile_exec_total's hypothesis. *)
Theorem cm_exec_mirror_total :
  forall (e : env) (p p' : program), 0 <= trackcount p -> 0 <= trackcount p' ->
  track_count (codes p) <= trackcount p -> track_count (codes p') <= trackcount p' -> tlen e <= INF ->
  forall o body t0,
  let root := NCapture o 0 (-1) body in
  codes p = fst (compile cfg0 root) -> strings p = snd (compile cfg0 root) ->
  codes p' = fst (compile cfg0 (flip root)) -> strings p' = snd (compile cfg0 (flip root)) ->
  mirror_ok root = true -> supported2 root = true ->
  groups_ok2 (capsize p) root -> groups_ok2 (capsize p') root ->
  term_ok root = true -> Z.of_nat (term_fuel e root) <= INF ->
  0 <= t0 <= tlen e ->
  exists vfuel0 : nat, forall L L' vfuel vfuel', L < 0 -> L' < 0 -> (vfuel0 <= vfuel)%nat -> (vfuel0 <= vfuel')%nat ->
    exists s s', exec_at e p L vfuel t0 = Ok s /\
                 exec_at (mirror_env e) p' L' vfuel' (tlen e - t0) = Ok s' /\
                 cm_mirrored e p p' s s'.
Proof.
  intros e p p' Htc Htc' Htk Htk' Htl o body t0 root Hcodes Hstr Hcodes' Hstr' Hmo Hs Hg Hg' Hok Hf Ht0.
  destruct (spec_attempt_total e root t0 Hok Ht0 (term_fuel e root) (Nat.le_refl _)) as (r & Hatt & _).
  pose proof (mirror_attempt_partial e (term_fuel e root) root t0 Hmo Ht0) as Hatt'.
  rewrite Hatt in Hatt'. cbn [map_res] in Hatt'.
  assert (Htl' : tlen (mirror_env e) <= INF) by (rewrite mirror_tlen; exact Htl).
  assert (Ht0' : 0 <= tlen e - t0 <= tlen (mirror_env e)) by (rewrite mirror_tlen; lia).
  assert (Hs' : supported2 (flip root) = true) by (rewrite cm_flip_supported2; exact Hs).
  assert (Hgf : groups_ok2 (capsize p') (flip root)) by (apply (proj1 (cm_flip_groups_ok2 _ _)); exact Hg').
  destruct (compile_exec_total e p Htc Htk Htl (term_fuel e root) o body t0 r Hcodes Hstr Hs Hg Ht0 Hf Hatt)
    as [n Hn].
  destruct (compile_exec_total (mirror_env e) p' Htc' Htk' Htl' (term_fuel e root) (flip_opt o) (flip body)
              (tlen e - t0) (option_map (mirror_st e) r) Hcodes' Hstr' Hs' Hgf Ht0' Hf Hatt') as [n' Hn'].
  exists (S (Nat.max n n')). intros L L' vfuel vfuel' HL HL' Hv Hv'.
  destruct (Hn L vfuel) as [_ Hunl]. destruct (Hn' L' vfuel') as [_ Hunl']. cbv zeta in Hunl, Hunl'.
  destruct (Hunl HL ltac:(lia)) as [s Hx]. destruct (Hunl' HL' ltac:(lia)) as [s' Hx'].
  exists s, s'. split; [exact Hx|]. split; [exact Hx'|].
  exact (cm_exec_mirror_given_attempt e p p' Htc Htc' Htl L L' (term_fuel e root) vfuel vfuel' o body t0 r s s'
           Hcodes Hstr Hcodes' Hstr' Hmo Hs Hg Hg' Ht0 Hf Hatt Hx Hx').
Qed.

(* ============================ the scan over fresh execute() calls ============================ *)
(* Spec.scan_from / Spec.find with one interpreter call (VM.exec_at, a fresh runner) in place of Spec.attempt.
   VM.vm_find differs: it carries the grown stack capacities from one attempt to the next (related to this scan
   further down, cm_vm_find_fresh). *)
Fixpoint cm_scan (e : env) (p : program) (L : Z) (vfuel : nat) (n : nat) (rtl : bool) (t : Z) : res (option vm) :=
  match n with
  | O => Ok None
  | S n' =>
      do s <- exec_at e p L vfuel t ;
      if matched0 s then Ok (Some s)
      else if (if rtl then t <=? 0 else tlen e <=? t) then Ok None
      else cm_scan e p L vfuel n' rtl (if rtl then t - 1 else t + 1)
  end.

Definition cm_find (e : env) (p : program) (L : Z) (vfuel : nat) (rtl : bool) (start prevlen : Z) : res (option vm) :=
  let stop := if rtl then 0 else tlen e in
  if (prevlen =? 0) && (start =? stop) then Ok None
  else let p0 := if prevlen =? 0 then (if rtl then start - 1 else start + 1) else start in
       cm_scan e p L vfuel (S (Z.to_nat (tlen e))) rtl p0.

Definition cm_opt_mirrored (e : env) (p p' : program) (x x' : option vm) : Prop :=
  match x, x' with
  | None, None => True
  | Some s, Some s' => cm_mirrored e p p' s s'
  | _, _ => False
  end.

Section Scan.
Variable e : env.
Variables p p' : program.
Variables o : Z.
Variable body : node.
Let root := NCapture o 0 (-1) body.
Hypothesis Htc : 0 <= trackcount p.
Hypothesis Htc' : 0 <= trackcount p'.
Hypothesis Htl : tlen e <= INF.
Hypothesis Hcodes : codes p = fst (compile cfg0 root).
Hypothesis Hstr : strings p = snd (compile cfg0 root).
Hypothesis Hcodes' : codes p' = fst (compile cfg0 (flip root)).
Hypothesis Hstr' : strings p' = snd (compile cfg0 (flip root)).
Hypothesis Hmo : mirror_ok root = true.
Hypothesis Hs : supported2 root = true.
Hypothesis Hg : groups_ok2 (capsize p) root.
Hypothesis Hg' : groups_ok2 (capsize p') root.
Hypothesis Hok : term_ok root = true.
Hypothesis Hf : Z.of_nat (term_fuel e root) <= INF.
Variables L L' : Z.
Variables vfuel vfuel' : nat.

Lemma cm_scan_mirror_sec : forall n rtl t x x', 0 <= t <= tlen e ->
  cm_scan e p L vfuel n rtl t = Ok x ->
  cm_scan (mirror_env e) p' L' vfuel' n (negb rtl) (tlen e - t) = Ok x' ->
  cm_opt_mirrored e p p' x x'.
Proof.
  induction n as [|n IH]; intros rtl t x x' Ht Hx Hx'; cbn [cm_scan] in Hx, Hx'.
  - injection Hx as <-. injection Hx' as <-. exact I.
  - destruct (exec_at e p L vfuel t) as [s| | |] eqn:Ex; cbn [bind] in Hx; try discriminate Hx.
    destruct (exec_at (mirror_env e) p' L' vfuel' (tlen e - t)) as [s'| | |] eqn:Ex'; cbn [bind] in Hx';
      try discriminate Hx'.
    pose proof (cm_exec_mirror e p p' Htc Htc' Htl L L' vfuel vfuel' o body t s s'
                  Hcodes Hstr Hcodes' Hstr' Hmo Hs Hg Hg' Hok Hf Ht Ex Ex') as HM.
    pose proof HM as (Hm & _). rewrite Hm in Hx'. destruct (matched0 s).
    + injection Hx as <-. injection Hx' as <-. exact HM.
    + rewrite mirror_tlen in Hx'.
      assert (Estop : (if negb rtl then tlen e - t <=? 0 else tlen e <=? tlen e - t)
                      = (if rtl then t <=? 0 else tlen e <=? t)) by (destruct rtl; cbn [negb]; lia).
      rewrite Estop in Hx'. destruct (if rtl then t <=? 0 else tlen e <=? t) eqn:Es.
      * injection Hx as <-. injection Hx' as <-. exact I.
      * assert (Enext : (if negb rtl then tlen e - t - 1 else tlen e - t + 1)
                        = tlen e - (if rtl then t - 1 else t + 1)) by (destruct rtl; cbn [negb]; lia).
        rewrite Enext in Hx'. apply (IH rtl (if rtl then t - 1 else t + 1) x x'); [destruct rtl; lia|exact Hx|exact Hx'].
Qed.

Lemma cm_find_mirror_sec : forall rtl start prevlen x x', 0 <= start <= tlen e ->
  cm_find e p L vfuel rtl start prevlen = Ok x ->
  cm_find (mirror_env e) p' L' vfuel' (negb rtl) (tlen e - start) prevlen = Ok x' ->
  cm_opt_mirrored e p p' x x'.
Proof.
  intros rtl start prevlen x x' Hst Hx Hx'. unfold cm_find in Hx, Hx'. rewrite mirror_tlen in Hx'.
  assert (Estop : (tlen e - start =? (if negb rtl then 0 else tlen e)) = (start =? (if rtl then 0 else tlen e)))
    by (destruct rtl; cbn [negb]; lia).
  rewrite Estop in Hx'.
  destruct ((prevlen =? 0) && (start =? (if rtl then 0 else tlen e))) eqn:E0.
  - injection Hx as <-. injection Hx' as <-. exact I.
  - assert (Ep0 : (if prevlen =? 0 then if negb rtl then tlen e - start - 1 else tlen e - start + 1 else tlen e - start)
                  = tlen e - (if prevlen =? 0 then if rtl then start - 1 else start + 1 else start))
      by (destruct (prevlen =? 0), rtl; cbn [negb]; lia).
    rewrite Ep0 in Hx'.
    apply (cm_scan_mirror_sec (S (Z.to_nat (tlen e))) rtl
             (if prevlen =? 0 then if rtl then start - 1 else start + 1 else start) x x'); [|exact Hx|exact Hx'].
    destruct (prevlen =? 0) eqn:Ep; cbn [andb] in E0; [|exact Hst]. destruct rtl; lia.
Qed.

End Scan.

Theorem cm_find_mirror :
  forall (e : env) (p p' : program), 0 <= trackcount p -> 0 <= trackcount p' -> tlen e <= INF ->
  forall L L' vfuel vfuel' o body,
  let root := NCapture o 0 (-1) body in
  codes p = fst (compile cfg0 root) -> strings p = snd (compile cfg0 root) ->
  codes p' = fst (compile cfg0 (flip root)) -> strings p' = snd (compile cfg0 (flip root)) ->
  mirror_ok root = true -> supported2 root = true ->
  groups_ok2 (capsize p) root -> groups_ok2 (capsize p') root ->
  term_ok root = true -> Z.of_nat (term_fuel e root) <= INF ->
  forall rtl start prevlen x x', 0 <= start <= tlen e ->
  cm_find e p L vfuel rtl start prevlen = Ok x ->
  cm_find (mirror_env e) p' L' vfuel' (negb rtl) (tlen e - start) prevlen = Ok x' ->
  cm_opt_mirrored e p p' x x'.
Proof.
  intros e p p' Htc Htc' Htl L L' vfuel vfuel' o body root Hcodes Hstr Hcodes' Hstr' Hmo Hs Hg Hg' Hok Hf.
  exact (cm_find_mirror_sec e p p' o body Htc Htc' Htl Hcodes Hstr Hcodes' Hstr' Hmo Hs Hg Hg' Hok Hf L L' vfuel vfuel').
Qed.

(* ============================ the interpreter's own scan VM.vm_find ============================ *)
(* vm_find carries the (grown) stack capacities of one attempt into the next; cm_find starts every attempt on a
   fresh runner.  Without a limit the two agree in everything but the capacities: both follow the unbounded path
   of the attempt (CompileTotal.run_total / exec_total), whatever capacities they start with. *)
Definition cm_view (a b : vm) : Prop := tp a = tp b /\ mcaps a = mcaps b.

Definition cm_view_rel (r1 r2 : res (option vm)) : Prop :=
  match r1, r2 with
  | Ok x, Ok y => opt_rel cm_view x y
  | Fuel, Fuel => True
  | _, _ => False
  end.

Lemma cm_view_norm a b : norm a = norm b -> cm_view a b.
Proof. intros H. split; [exact (f_equal tp H)|exact (f_equal mcaps H)]. Qed.

Lemma cm_mirrored_view e p p' s s' a a' : cm_view a s -> cm_view a' s' ->
  cm_mirrored e p p' s s' -> cm_mirrored e p p' a a'.
Proof.
  intros [H1 H2] [H3 H4] H. unfold cm_mirrored, matched0 in *. rewrite H1, H2, H3, H4. exact H.
Qed.

Section VmScan.
Variable e : env.
Variable p : program.
Hypothesis Htc : 0 <= trackcount p.
Hypothesis Hw : cp_need (codes p) 0 <= trackcount p * G_ensure_factor.
Variable w0 : Z.
Hypothesis H0 : code_at p 0 = Some w0.
Hypothesis Hall : all_paths e p.

Lemma cm_simrel_refl c : simrel (-1) c c.
Proof. split; [unfold eqv; repeat split|left; reflexivity]. Qed.

Lemma cm_attempt_carrier c t fuel : carrier_ok p c -> 0 <= t <= tlen e ->
  exists s1, goto p (-1) (fresh p c t) 0 = Ok s1 /\
    ((run e p (-1) fuel s1 = Fuel /\ exec_at e p (-1) fuel t = Fuel) \/
     exists a b, run e p (-1) fuel s1 = Ok a /\ exec_at e p (-1) fuel t = Ok b /\ cm_view a b /\ carrier_ok p a).
Proof.
  intros Hc Ht. destruct (Hall t Ht) as (n & sd & sd' & Hap).
  destruct (lim_goto0 e p Hw (-1) c c t w0 n sd sd' H0 (cm_simrel_refl c) Hc Hap)
    as [[_ Habs]|(s1 & s2 & E1 & E2 & Hgp)]; [lia|].
  rewrite E1 in E2. injection E2 as <-. exists s1. split; [exact E1|].
  destruct Hgp as (_ & _ & Hti & Hpo & Hus). destruct Hap as (Hp0 & Hn0 & Hd).
  destruct (run_total e p Htc Hw (-1) ltac:(lia) fuel n s1 sd sd' Hti Hpo Hus Hd) as [R1 R2].
  destruct (exec_total e p Htc Hw (-1) ltac:(lia) t n sd sd' w0 H0 Hp0 Hn0 Hd fuel) as [X1 X2].
  destruct (Nat.lt_ge_cases n (1000 * fuel)) as [Hlt|Hge].
  - right. destruct (R1 Hlt) as (a & Ea & Na & Ta). destruct (X1 Hlt) as (b & Eb & Nb & _).
    exists a, b. split; [exact Ea|]. split; [exact Eb|]. split; [apply cm_view_norm; congruence|].
    apply lim_tinv_carrier. exact Ta.
  - left. split; [exact (R2 Hge)|exact (X2 Hge)].
Qed.

Lemma cm_scan_carrier fuel : forall n rtl c t, carrier_ok p c -> 0 <= t <= tlen e ->
  cm_view_rel (vm_scan_from e p (-1) fuel n rtl c t) (cm_scan e p (-1) fuel n rtl t).
Proof.
  induction n as [|n IH]; intros rtl c t Hc Ht; cbn [vm_scan_from cm_scan]; [exact I|].
  change {| pc := 0; mode := 0; tp := t; track := []; tcap := tcap c; stack := []; scap := scap c;
            crawl := []; mcaps := repeat [] (Z.to_nat (capsize p)) |} with (fresh p c t).
  destruct (cm_attempt_carrier c t fuel Hc Ht) as (s1 & E1 & [[Ea Eb]|(a & b & Ea & Eb & Hv & Hca)]);
    rewrite E1; cbn [bind]; rewrite Ea, Eb; cbn [bind]; [exact I|].
  assert (Hm : matched0 a = matched0 b) by (unfold matched0; rewrite (proj2 Hv); reflexivity).
  rewrite Hm. destruct (matched0 b); [exact Hv|].
  destruct (if rtl then t <=? 0 else tlen e <=? t) eqn:Es; [exact I|].
  apply IH; [exact Hca|destruct rtl; lia].
Qed.

Lemma cm_vm_find_view fuel rtl start prevlen : 0 <= start <= tlen e ->
  cm_view_rel (vm_find e p (-1) fuel rtl start prevlen) (cm_find e p (-1) fuel rtl start prevlen).
Proof.
  intros Hs. unfold vm_find, cm_find.
  destruct ((prevlen =? 0) && (start =? (if rtl then 0 else tlen e))) eqn:E; [exact I|].
  apply cm_scan_carrier.
  - unfold carrier_ok, VMUBridge.need, sinit, init_vm, G_ensure_factor, G_tracksize_mul, G_tracksize_min,
      G_stacksize_mul, G_stacksize_min. cbn [tcap scap].
    change ((0 <=? -1) && _) with false. cbv iota. split; lia.
  - destruct (prevlen =? 0); cbn [andb] in E; [|exact Hs]. destruct rtl; lia.
Qed.

End VmScan.

(* every start position has its unbounded attempt path *)
Lemma cm_all_paths e p : 0 <= trackcount p -> track_count (codes p) <= trackcount p -> tlen e <= INF ->
  forall o body, let root := NCapture o 0 (-1) body in
  codes p = fst (compile cfg0 root) -> strings p = snd (compile cfg0 root) ->
  supported2 root = true -> groups_ok2 (capsize p) root ->
  term_ok root = true -> Z.of_nat (term_fuel e root) <= INF ->
  all_paths e p.
Proof.
  intros Htc Htk Htl o body root Hcodes Hstr Hs Hg Hok Hf t Ht.
  destruct (spec_attempt_total e root t Hok Ht (term_fuel e root) (Nat.le_refl _)) as (r & Hatt & _).
  exact (clt_path e p Htc Htl (term_fuel e root) o body t r Hcodes Hstr Hs Hg Ht Hf Hatt
           (compiled_path_ok cfg0 root p Hcodes Htk e t)).
Qed.

(* vm_find under any limit, when it returns, returns what the fresh-call scan without limit returns (positions and
   capture tables) *)
Lemma cm_vm_find_fresh e p : 0 <= trackcount p -> track_count (codes p) <= trackcount p -> tlen e <= INF ->
  forall o body, let root := NCapture o 0 (-1) body in
  codes p = fst (compile cfg0 root) -> strings p = snd (compile cfg0 root) ->
  supported2 root = true -> groups_ok2 (capsize p) root ->
  term_ok root = true -> Z.of_nat (term_fuel e root) <= INF ->
  forall L fuel rtl start prevlen x, 0 <= start <= tlen e ->
  vm_find e p L fuel rtl start prevlen = Ok x ->
  exists y, cm_find e p (-1) fuel rtl start prevlen = Ok y /\ opt_rel cm_view x y.
Proof.
  intros Htc Htk Htl o body root Hcodes Hstr Hs Hg Hok Hf L fuel rtl start prevlen x Hst Hx.
  destruct (vml_limit_transparent e p L fuel rtl start prevlen x Hx) as (x1 & Hx1 & Hsame).
  pose proof (cm_vm_find_view e p Htc (clt_weight cfg0 root p Hcodes Htk) Lazybranch (clt_code0 root p Hcodes)
                (cm_all_paths e p Htc Htk Htl o body Hcodes Hstr Hs Hg Hok Hf) fuel rtl start prevlen Hst) as HV.
  rewrite Hx1 in HV. unfold cm_view_rel in HV.
  destruct (cm_find e p (-1) fuel rtl start prevlen) as [y| | |]; try contradiction.
  exists y. split; [reflexivity|].
  unfold same_result, opt_rel in *. destruct x as [a|], x1 as [a1|], y as [b|]; try contradiction; try exact I.
  destruct Hsame as (_ & _ & Ht & _ & _ & _ & _ & Hm). destruct HV as [Ht' Hm']. split; congruence.
Qed.

(* C15 for the interpreter's scan: any stack limits, any fuels, whenever both searches return *)
Theorem cm_vm_find_mirror :
  forall (e : env) (p p' : program), 0 <= trackcount p -> 0 <= trackcount p' ->
  track_count (codes p) <= trackcount p -> track_count (codes p') <= trackcount p' -> tlen e <= INF ->
  forall L L' vfuel vfuel' o body,
  let root := NCapture o 0 (-1) body in
  codes p = fst (compile cfg0 root) -> strings p = snd (compile cfg0 root) ->
  codes p' = fst (compile cfg0 (flip root)) -> strings p' = snd (compile cfg0 (flip root)) ->
  mirror_ok root = true -> supported2 root = true ->
  groups_ok2 (capsize p) root -> groups_ok2 (capsize p') root ->
  term_ok root = true -> Z.of_nat (term_fuel e root) <= INF ->
  forall rtl start prevlen x x', 0 <= start <= tlen e ->
  vm_find e p L vfuel rtl start prevlen = Ok x ->
  vm_find (mirror_env e) p' L' vfuel' (negb rtl) (tlen e - start) prevlen = Ok x' ->
  cm_opt_mirrored e p p' x x'.
Proof.
  intros e p p' Htc Htc' Htk Htk' Htl L L' vfuel vfuel' o body root Hcodes Hstr Hcodes' Hstr' Hmo Hs Hg Hg' Hok Hf
    rtl start prevlen x x' Hst Hx Hx'.
  assert (Htl' : tlen (mirror_env e) <= INF) by (rewrite mirror_tlen; exact Htl).
  assert (Hst' : 0 <= tlen e - start <= tlen (mirror_env e)) by (rewrite mirror_tlen; lia).
  assert (Hs' : supported2 (flip root) = true) by (rewrite cm_flip_supported2; exact Hs).
  assert (Hgf : groups_ok2 (capsize p') (flip root)) by (apply (proj1 (cm_flip_groups_ok2 _ _)); exact Hg').
  assert (Hok' : term_ok (flip root) = true) by (rewrite cm_flip_term_ok; exact Hok).
  assert (Hf' : Z.of_nat (term_fuel (mirror_env e) (flip root)) <= INF) by (rewrite cm_flip_term_fuel; exact Hf).
  destruct (cm_vm_find_fresh e p Htc Htk Htl o body Hcodes Hstr Hs Hg Hok Hf L vfuel rtl start prevlen x Hst Hx)
    as (y & Hy & Hv).
  destruct (cm_vm_find_fresh (mirror_env e) p' Htc' Htk' Htl' (flip_opt o) (flip body) Hcodes' Hstr' Hs' Hgf Hok' Hf'
              L' vfuel' (negb rtl) (tlen e - start) prevlen x' Hst' Hx') as (y' & Hy' & Hv').
  pose proof (cm_find_mirror e p p' Htc Htc' Htl (-1) (-1) vfuel vfuel' o body Hcodes Hstr Hcodes' Hstr' Hmo Hs Hg Hg'
                Hok Hf rtl start prevlen y y' Hst Hy Hy') as HM.
  unfold cm_opt_mirrored, opt_rel in *.
  destruct x as [a|], y as [b|]; try contradiction; destruct x' as [a'|], y' as [b'|]; try contradiction; try exact I.
  exact (cm_mirrored_view e p p' b b' a a' Hv Hv' HM).
Qed.

(* ============================ non-vacuity ============================ *)
Definition cm_prog_of (cs : Z) (root : node) : program :=
  {| codes := fst (compile cfg0 root); strings := snd (compile cfg0 root);
     trackcount := track_count (fst (compile cfg0 root)); capsize := cs |}.

(* (a)(b|c)*  -- group 1 = (a), group 2 = the repeated (b|c) *)
Definition cm_demo_body : node :=
  NConcat 0 [NCapture 0 1 (-1) (NChar COne 0 97);
             NLoop false 0 0 INF (NCapture 0 2 (-1) (NAlternate 0 [NChar COne 0 98; NChar COne 0 99]))].

(* every hypothesis of cm_exec_mirror_total holds for (a)(b|c)* on "xabcb" from position 1.  The left-to-right
   program matches (1,4), group 1 = (1,1), group 2 = (2,1) (3,1) (4,1) oldest first; the program of the flipped
   tree (every node RightToLeft) on "bcbax" from position 5 - 1 = 4 matches (0,4), group 1 = (3,1),
   group 2 = (2,1) (1,1) (0,1) oldest first: the mirror images (i,len) |-> (5-i-len,len) in the same order.
   From position 0 neither matches. *)
Example cm_demo :
  let e := mirror_ex_env [120; 97; 98; 99; 98] 0 false in
  let root := NCapture 0 0 (-1) cm_demo_body in
  let p := cm_prog_of 3 root in
  let p' := cm_prog_of 3 (flip root) in
  (0 <= trackcount p /\ 0 <= trackcount p' /\
   track_count (codes p) <= trackcount p /\ track_count (codes p') <= trackcount p' /\ tlen e <= INF /\
   codes p = fst (compile cfg0 root) /\ strings p = snd (compile cfg0 root) /\
   codes p' = fst (compile cfg0 (flip root)) /\ strings p' = snd (compile cfg0 (flip root)) /\
   mirror_ok root = true /\ supported2 root = true /\
   groups_ok2 (capsize p) root /\ groups_ok2 (capsize p') root /\
   term_ok root = true /\ Z.of_nat (term_fuel e root) <= INF) /\
  flip root =
    NCapture 64 0 (-1)
      (NConcat 64 [NCapture 64 1 (-1) (NChar COne 64 97);
                   NLoop false 64 0 INF (NCapture 64 2 (-1) (NAlternate 64 [NChar COne 64 98; NChar COne 64 99]))]) /\
  txt (mirror_env e) = [98; 99; 98; 97; 120] /\
  (exists s s', exec_at e p (-1) 5 1 = Ok s /\ exec_at (mirror_env e) p' (-1) 5 4 = Ok s' /\
     matched0 s = true /\ matched0 s' = true /\ tp s = 5 /\ tp s' = 0 /\
     mcaps s = [[1; 4]; [1; 1]; [2; 1; 3; 1; 4; 1]] /\
     mcaps s' = [[0; 4]; [3; 1]; [2; 1; 1; 1; 0; 1]] /\
     cm_mirrored e p p' s s') /\
  (exists s s', exec_at e p (-1) 5 0 = Ok s /\ exec_at (mirror_env e) p' (-1) 5 5 = Ok s' /\
     matched0 s = false /\ matched0 s' = false /\ cm_mirrored e p p' s s') /\
  (exists s s', cm_find e p (-1) 5 false 0 (-1) = Ok (Some s) /\
                cm_find (mirror_env e) p' (-1) 5 true 5 (-1) = Ok (Some s') /\
                tp s = 5 /\ tp s' = 0 /\ cm_mirrored e p p' s s').
Proof.
  cbv zeta.
  assert (H : 0 <= trackcount (cm_prog_of 3 (NCapture 0 0 (-1) cm_demo_body)) /\
              0 <= trackcount (cm_prog_of 3 (flip (NCapture 0 0 (-1) cm_demo_body))) /\
              tlen (mirror_ex_env [120; 97; 98; 99; 98] 0 false) <= INF /\
              mirror_ok (NCapture 0 0 (-1) cm_demo_body) = true /\
              supported2 (NCapture 0 0 (-1) cm_demo_body) = true /\
              groups_ok2 3 (NCapture 0 0 (-1) cm_demo_body) /\
              term_ok (NCapture 0 0 (-1) cm_demo_body) = true /\
              Z.of_nat (term_fuel (mirror_ex_env [120; 97; 98; 99; 98] 0 false) (NCapture 0 0 (-1) cm_demo_body)) <= INF).
  { split; [vm_compute; congruence|]. split; [vm_compute; congruence|]. split; [vm_compute; congruence|].
    split; [reflexivity|]. split; [reflexivity|]. split; [apply groups_ok2b_sound; vm_compute; reflexivity|].
    split; [reflexivity|]. vm_compute; congruence. }
  destruct H as (Htc & Htc' & Htl & Hmo & Hs & Hg & Hok & Hf).
  split.
  { split; [exact Htc|]. split; [exact Htc'|]. split; [cbn [cm_prog_of codes trackcount]; lia|].
    split; [cbn [cm_prog_of codes trackcount]; lia|]. split; [exact Htl|].
    do 4 (split; [reflexivity|]). split; [exact Hmo|]. split; [exact Hs|]. split; [exact Hg|]. split; [exact Hg|].
    split; [exact Hok|exact Hf]. }
  split; [vm_compute; reflexivity|]. split; [vm_compute; reflexivity|].
  split; [|split].
  - destruct (exec_at (mirror_ex_env [120; 97; 98; 99; 98] 0 false) (cm_prog_of 3 (NCapture 0 0 (-1) cm_demo_body)) (-1) 5 1)
      as [s| | |] eqn:Ex; try (vm_compute in Ex; discriminate Ex).
    destruct (exec_at (mirror_env (mirror_ex_env [120; 97; 98; 99; 98] 0 false))
                (cm_prog_of 3 (flip (NCapture 0 0 (-1) cm_demo_body))) (-1) 5 4)
      as [s'| | |] eqn:Ex'; try (vm_compute in Ex'; discriminate Ex').
    exists s, s'. split; [reflexivity|]. split; [reflexivity|].
    pose proof (cm_exec_mirror _ _ _ Htc Htc' Htl (-1) (-1) 5%nat 5%nat 0 cm_demo_body 1 s s'
                  eq_refl eq_refl eq_refl eq_refl Hmo Hs Hg Hg Hok Hf ltac:(vm_compute; split; congruence) Ex Ex') as HM.
    vm_compute in Ex. injection Ex as <-. vm_compute in Ex'. injection Ex' as <-.
    do 6 (split; [reflexivity|]). exact HM.
  - destruct (exec_at (mirror_ex_env [120; 97; 98; 99; 98] 0 false) (cm_prog_of 3 (NCapture 0 0 (-1) cm_demo_body)) (-1) 5 0)
      as [s| | |] eqn:Ex; try (vm_compute in Ex; discriminate Ex).
    destruct (exec_at (mirror_env (mirror_ex_env [120; 97; 98; 99; 98] 0 false))
                (cm_prog_of 3 (flip (NCapture 0 0 (-1) cm_demo_body))) (-1) 5 5)
      as [s'| | |] eqn:Ex'; try (vm_compute in Ex'; discriminate Ex').
    exists s, s'. split; [reflexivity|]. split; [reflexivity|].
    pose proof (cm_exec_mirror _ _ _ Htc Htc' Htl (-1) (-1) 5%nat 5%nat 0 cm_demo_body 0 s s'
                  eq_refl eq_refl eq_refl eq_refl Hmo Hs Hg Hg Hok Hf ltac:(vm_compute; split; congruence) Ex Ex') as HM.
    vm_compute in Ex. injection Ex as <-. vm_compute in Ex'. injection Ex' as <-.
    do 2 (split; [reflexivity|]). exact HM.
  - destruct (cm_find (mirror_ex_env [120; 97; 98; 99; 98] 0 false) (cm_prog_of 3 (NCapture 0 0 (-1) cm_demo_body))
                (-1) 5 false 0 (-1)) as [[s|]| | |] eqn:Ex; try (vm_compute in Ex; discriminate Ex).
    destruct (cm_find (mirror_env (mirror_ex_env [120; 97; 98; 99; 98] 0 false))
                (cm_prog_of 3 (flip (NCapture 0 0 (-1) cm_demo_body))) (-1) 5 true 5 (-1))
      as [[s'|]| | |] eqn:Ex'; try (vm_compute in Ex'; discriminate Ex').
    exists s, s'. split; [reflexivity|]. split; [reflexivity|].
    pose proof (cm_find_mirror _ _ _ Htc Htc' Htl (-1) (-1) 5%nat 5%nat 0 cm_demo_body
                  eq_refl eq_refl eq_refl eq_refl Hmo Hs Hg Hg Hok Hf false 0 (-1) (Some s) (Some s')
                  ltac:(vm_compute; split; congruence) Ex Ex') as HM.
    vm_compute in Ex. injection Ex as <-. vm_compute in Ex'. injection Ex' as <-.
    do 2 (split; [reflexivity|]). exact HM.
Qed.

(* a balancing group: (?<a>x)z(?<b-a>y) on "xzy" (MirrorProofs.mirror_ex_balance).  Slot 1 (= a) holds one capture
   and one balanceMatch marker on both sides and DENOTES the empty stack on both sides; slot 2 (= b) holds the gap
   "z" = (1,1), its own mirror image; the popped capture (0,1) is (2,1) on the mirrored side. *)
Example cm_demo_balance :
  let e := mirror_ex_env [120; 122; 121] 0 false in
  let root := NCapture 0 0 (-1) mirror_ex_balance in
  let p := cm_prog_of 3 root in
  let p' := cm_prog_of 3 (flip root) in
  mirror_ok root = true /\ supported2 root = true /\ groups_ok2 3 root /\ term_ok root = true /\
  exists s s', exec_at e p (-1) 5 0 = Ok s /\ exec_at (mirror_env e) p' (-1) 5 3 = Ok s' /\
     matched0 s = true /\ tp s = 3 /\ tp s' = 0 /\
     mcaps s = [[0; 3]; [0; 1; -1; -2]; [1; 1]] /\
     mcaps s' = [[0; 3]; [2; 1; -1; -2]; [1; 1]] /\
     cm_mirrored e p p' s s'.
Proof.
  cbv zeta. split; [reflexivity|]. split; [reflexivity|].
  assert (Hg : groups_ok2 3 (NCapture 0 0 (-1) mirror_ex_balance)) by (apply groups_ok2b_sound; vm_compute; reflexivity).
  split; [exact Hg|]. split; [reflexivity|].
  destruct (exec_at (mirror_ex_env [120; 122; 121] 0 false) (cm_prog_of 3 (NCapture 0 0 (-1) mirror_ex_balance)) (-1) 5 0)
    as [s| | |] eqn:Ex; try (vm_compute in Ex; discriminate Ex).
  destruct (exec_at (mirror_env (mirror_ex_env [120; 122; 121] 0 false))
              (cm_prog_of 3 (flip (NCapture 0 0 (-1) mirror_ex_balance))) (-1) 5 3)
    as [s'| | |] eqn:Ex'; try (vm_compute in Ex'; discriminate Ex').
  exists s, s'. split; [reflexivity|]. split; [reflexivity|].
  pose proof (cm_exec_mirror (mirror_ex_env [120; 122; 121] 0 false)
                (cm_prog_of 3 (NCapture 0 0 (-1) mirror_ex_balance))
                (cm_prog_of 3 (flip (NCapture 0 0 (-1) mirror_ex_balance)))
                ltac:(vm_compute; congruence) ltac:(vm_compute; congruence) ltac:(vm_compute; congruence)
                (-1) (-1) 5%nat 5%nat 0 mirror_ex_balance 0 s s'
                eq_refl eq_refl eq_refl eq_refl eq_refl eq_refl Hg Hg eq_refl ltac:(vm_compute; congruence)
                ltac:(vm_compute; split; congruence) Ex Ex') as HM.
  vm_compute in Ex. injection Ex as <-. vm_compute in Ex'. injection Ex' as <-.
  do 5 (split; [reflexivity|]). exact HM.
Qed.

(* the interpreter's own scan on the same instance, left-to-right under a stack limit of 200 words against
   right-to-left without a limit *)
Example cm_demo_vm_find :
  let e := mirror_ex_env [120; 97; 98; 99; 98] 0 false in
  let root := NCapture 0 0 (-1) cm_demo_body in
  let p := cm_prog_of 3 root in
  let p' := cm_prog_of 3 (flip root) in
  exists s s', vm_find e p 200 5 false 0 (-1) = Ok (Some s) /\
               vm_find (mirror_env e) p' (-1) 5 true 5 (-1) = Ok (Some s') /\
               tp s = 5 /\ tp s' = 0 /\
               mcaps s = [[1; 4]; [1; 1]; [2; 1; 3; 1; 4; 1]] /\
               mcaps s' = [[0; 4]; [3; 1]; [2; 1; 1; 1; 0; 1]] /\
               cm_mirrored e p p' s s'.
Proof.
  cbv zeta.
  destruct (vm_find (mirror_ex_env [120; 97; 98; 99; 98] 0 false) (cm_prog_of 3 (NCapture 0 0 (-1) cm_demo_body))
              200 5 false 0 (-1)) as [[s|]| | |] eqn:Ex; try (vm_compute in Ex; discriminate Ex).
  destruct (vm_find (mirror_env (mirror_ex_env [120; 97; 98; 99; 98] 0 false))
              (cm_prog_of 3 (flip (NCapture 0 0 (-1) cm_demo_body))) (-1) 5 true 5 (-1))
    as [[s'|]| | |] eqn:Ex'; try (vm_compute in Ex'; discriminate Ex').
  exists s, s'. split; [reflexivity|]. split; [reflexivity|].
  pose proof (cm_vm_find_mirror (mirror_ex_env [120; 97; 98; 99; 98] 0 false)
                (cm_prog_of 3 (NCapture 0 0 (-1) cm_demo_body))
                (cm_prog_of 3 (flip (NCapture 0 0 (-1) cm_demo_body)))
                ltac:(vm_compute; congruence) ltac:(vm_compute; congruence)
                ltac:(cbn [cm_prog_of codes trackcount]; lia) ltac:(cbn [cm_prog_of codes trackcount]; lia)
                ltac:(vm_compute; congruence)
                200 (-1) 5%nat 5%nat 0 cm_demo_body
                eq_refl eq_refl eq_refl eq_refl eq_refl eq_refl
                ltac:(apply groups_ok2b_sound; vm_compute; reflexivity)
                ltac:(apply groups_ok2b_sound; vm_compute; reflexivity)
                eq_refl ltac:(vm_compute; congruence)
                false 0 (-1) (Some s) (Some s') ltac:(vm_compute; split; congruence) Ex Ex') as HM.
  vm_compute in Ex. injection Ex as <-. vm_compute in Ex'. injection Ex' as <-.
  do 4 (split; [reflexivity|]). exact HM.
Qed.
