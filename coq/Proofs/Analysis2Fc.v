(* C04, part 11: soundness of the legacy first-characters computation getFirstCharsPrefix
   (Analysis2.fc_walk / first_chars_prefix): when it returns a set, no successful attempt is empty and the
   first character read (at p left-to-right, at p-1 right-to-left) belongs to the set. *)
From Coq Require Import ZifyBool.
From Verif Require Import Base.Prelude Model.Tree Model.Spec Model.CharClass Model.Analysis Model.Analysis2
     Proofs.SpecProofs Proofs.CharClassRanges Proofs.CharClassProofs Proofs.MaskProofs
     Proofs.AnalysisReach Proofs.AnalysisProofs Proofs.AnalysisPrefix Proofs.Analysis2Cls Proofs.Analysis2Ffcc.

Lemma fc_last_in (l : list Z) d : l <> [] -> In (last l d) l.
Proof.
  induction l as [|a l IH]; intros Hne; [congruence|]. destruct l as [|b l']; [left; reflexivity|].
  right. apply IH. discriminate.
Qed.

Section Loops.
Variable cat_in : Z -> Z -> bool.
Variable sets : list cls.
Notation FW := (fc_walk cat_in sets).

Fixpoint fc_cat (l : list node) (cum : fcrec) : res (option fcrec) :=
  if negb (fc_null cum) then Ok (Some cum)
  else match l with
       | [] => Ok (Some cum)
       | y :: l'' =>
           do f <- FW y ;
           match f with
           | None => Ok None
           | Some c => match add_fc cat_in cum c true with None => Ok None | Some cum' => fc_cat l'' cum' end
           end
       end.

Fixpoint fc_alt (l : list node) (cum : fcrec) : res (option fcrec) :=
  match l with
  | [] => Ok (Some cum)
  | y :: l'' =>
      do f <- FW y ;
      match f with
      | None => Ok None
      | Some c => match add_fc cat_in cum c false with None => Ok None | Some cum' => fc_alt l'' cum' end
      end
  end.

Lemma fc_concat_eq o x l : FW (NConcat o (x :: l)) =
  do f0 <- FW x ; match f0 with None => Ok None | Some c0 => fc_cat l c0 end.
Proof. reflexivity. Qed.

Lemma fc_alternate_eq o x l : FW (NAlternate o (x :: l)) =
  do f0 <- FW x ; match f0 with None => Ok None | Some c0 => fc_alt l c0 end.
Proof. reflexivity. Qed.

End Loops.

(* ------------------------------------------------------------------------------------------ *)
(* the sets built are well-formed accumulators                                                 *)

Section Good.
Variable cat_in : Z -> Z -> bool.
Variable sets : list cls.
Hypothesis Hgood : sets_good cat_in sets.
Notation FW := (fc_walk cat_in sets).
Notation acc_ok := (acc_ok cat_in).
Notation cmem := (cmem cat_in).

Definition fc_good (fc : fcrec) : Prop := acc_ok (fc_cc fc).

Lemma fc_add_range_low b : 0 <= b < max_rune - 1 ->
  add_range cat_in empty_cls 0 b = Cls [(0, b)] [] None false false None.
Proof.
  intros Hb. unfold add_range, empty_cls, set_ranges. cbn [ranges cats sub neg anything ascii app].
  unfold canonicalize. cbn [ranges].
  unfold normal_form_1. cbn [neg negb no_sub sub no_cats cats andb ranges].
  replace (0 =? 0) with true by reflexivity. replace (b =? max_rune - 1) with false by (unfold max_rune in *; lia).
  unfold normal_form_2. cbn [neg negb no_sub sub andb ranges].
  replace ((0 =? 0) && (b >=? max_rune)) with false by (unfold max_rune in *; lia).
  unfold normal_form_3. cbn [neg negb no_sub sub no_cats cats andb]. reflexivity.
Qed.

(* newRegexFc: a well-formed set that contains the character (resp. every other valid rune) *)
Lemma new_fc_ok ch nt nullable ci : rune_ok ch = true ->
  fc_good (new_fc cat_in ch nt nullable ci) /\
  forall x, valid_rune x -> (if nt then x <> ch else x = ch) -> cmem (fc_cc (new_fc cat_in ch nt nullable ci)) x = true.
Proof.
  intros Hr. pose proof (a2_rune_ok cat_in ch Hr) as Hc. unfold new_fc, fc_good. cbn [fc_cc].
  pose proof (a2_empty_acc cat_in) as He. destruct nt.
  - destruct (0 <? ch) eqn:E0.
    + destruct (ch <? MAXR) eqn:E1.
      * rewrite fc_add_range_low by (unfold MAXR, max_rune in *; lia).
        assert (Hacc : acc_ok (Cls [(0, ch - 1)] [] None false false None)).
        { rewrite <- fc_add_range_low by (unfold MAXR, max_rune in *; lia).
          apply (a2_add_range cat_in empty_cls 0 (ch - 1) He eq_refl); unfold max_rune in *; lia. }
        destruct (a2_add_range cat_in _ (ch + 1) MAXR Hacc eq_refl) as [A B]; try (unfold MAXR, max_rune in *; lia).
        split; [exact A|]. intros x Hx Hne. rewrite B by exact Hx.
        destruct (x <? ch) eqn:Ex.
        -- replace (Analysis2Cls.cmem cat_in (Cls [(0, ch - 1)] [] None false false None) x) with true; [reflexivity|].
           symmetry. unfold Analysis2Cls.cmem, char_in. cbn [ascii]. unfold char_in_slow. cbn.
           destruct Hx as [Hx0 _]. unfold in_ranges. cbn [zlen length Z.of_nat]. cbn. 
           replace (x <? 0) with false by lia. replace (x <=? ch - 1) with true by lia. reflexivity.
        -- apply orb_true_iff. right. destruct Hx as [_ Hx1]. unfold MAXR, max_rune in *. lia.
      * destruct (a2_add_range cat_in empty_cls 0 (ch - 1) He eq_refl) as [A B]; try (unfold MAXR, max_rune in *; lia).
        split; [exact A|]. intros x Hx Hne. rewrite B by exact Hx. destruct Hx. unfold MAXR, max_rune in *.
        apply orb_true_iff. right. lia.
    + assert (ch = 0) by lia. subst ch. replace (0 <? MAXR) with true by reflexivity.
      destruct (a2_add_range cat_in empty_cls (0 + 1) MAXR He eq_refl) as [A B]; try (unfold MAXR, max_rune in *; lia).
      split; [exact A|]. intros x Hx Hne. rewrite B by exact Hx. destruct Hx. unfold MAXR, max_rune in *.
      apply orb_true_iff. right. lia.
  - destruct (a2_add_range cat_in empty_cls ch ch He eq_refl) as [A B]; try lia.
    split; [exact A|]. intros x Hx ->. rewrite B by exact Hx. apply orb_true_iff. right. lia.
Qed.

Lemma null_fc_good : fc_good null_fc.
Proof. exact (a2_empty_acc cat_in). Qed.

Lemma any_class_good : acc_ok any_class.
Proof.
  split; [|reflexivity]. unfold gcls, any_class. cbn [canonical bitmaps_ok canonical_ranges sorted_from ranges].
  split; [split; [split; [unfold MAXR; lia|exact I]|exact I]|].
  split; [split; exact I|]. split; [intros _; reflexivity|].
  constructor; [|constructor]. unfold wf_range, MAXR, max_rune. cbn [fst snd]. lia.
Qed.

Lemma any_class_mem x : valid_rune x -> cmem any_class x = true.
Proof.
  intros [H0 H1]. rewrite (a2_cmem_plain cat_in any_class x (proj1 any_class_good)).
  unfold any_class, MAXR, max_rune in *. cbn. unfold in_range. cbn [fst snd]. 
  replace ((0 <=? x) && (x <=? 1114111)) with true by lia. reflexivity.
Qed.

(* addFC *)
Lemma add_fc_ok r f conc r' :
  fc_good r -> fc_good f -> add_fc cat_in r f conc = Some r' ->
  fc_good r' /\
  (forall x, valid_rune x -> cmem (fc_cc r) x = true -> cmem (fc_cc r') x = true) /\
  ((conc && negb (fc_null r) = false) ->
     (forall x, valid_rune x -> cmem (fc_cc f) x = true -> cmem (fc_cc r') x = true) /\
     fc_null r' = (if conc then (if negb (fc_null f) then false else fc_null r) else (if fc_null f then true else fc_null r))) /\
  ((conc && negb (fc_null r) = true) -> r' = r).
Proof.
  intros Hr Hf. unfold add_fc.
  destruct (negb (is_mergeable (fc_cc r)) || negb (is_mergeable (fc_cc f))) eqn:Em; [discriminate|].
  apply orb_false_iff in Em. destruct Em as [E1 E2]. apply negb_false_iff in E1. apply negb_false_iff in E2.
  destruct (conc && negb (fc_null r)) eqn:Ec.
  - intros H. injection H as <-. split; [exact Hr|]. split; [auto|]. split; [discriminate|reflexivity].
  - intros H. injection H as <-. cbn [fc_cc fc_null].
    destruct (a2_add_set cat_in (fc_cc r) (fc_cc f) Hr E1 (proj1 Hf) E2) as [A B].
    split; [exact A|]. split; [intros x Hx Hm; rewrite B by exact Hx; rewrite Hm; reflexivity|].
    split; [|discriminate]. intros _. split; [intros x Hx Hm; rewrite B by exact Hx; rewrite Hm; apply orb_true_r|reflexivity].
Qed.


Definition fc_wf (t : node) (fc : fcrec) : Prop := fc_good fc /\ (no_ci_lit t = true -> fc_ci fc = false).

Lemma fc_cat_wf : forall l cum r,
  Forall (fun t => forall fc, lits_ok t = true -> FW t = Ok (Some fc) -> fc_wf t fc) l ->
  forallb lits_ok l = true ->
  fc_good cum -> fc_cat cat_in sets l cum = Ok (Some r) ->
  fc_good r /\ (forallb no_ci_lit l = true -> fc_ci cum = false -> fc_ci r = false).
Proof.
  induction l as [|y l IH]; intros cum r Hf Hl Hg H; cbn [fc_cat] in H.
  - destruct (negb (fc_null cum)); injection H as <-; split; auto.
  - destruct (negb (fc_null cum)); [injection H as <-; split; auto|].
    apply sp_bind_ok in H. destruct H as [f [Hy H]]. destruct f as [c|]; [|discriminate H].
    destruct (add_fc cat_in cum c true) as [cum'|] eqn:Ea; [|discriminate H].
    cbn [forallb] in Hl. apply andb_true_iff in Hl. destruct Hl as [Hly Hll].
    inversion Hf as [|? ? Py Pl]; subst. destruct (Py c Hly Hy) as [Gc Cc].
    destruct (add_fc_ok cum c true cum' Hg Gc Ea) as (G' & _).
    destruct (IH cum' r Pl Hll G' H) as [Gr Cr]. split; [exact Gr|].
    intros Hn Hci. cbn [forallb] in Hn. apply andb_true_iff in Hn. destruct Hn as [Hny Hnl].
    apply Cr; [exact Hnl|]. unfold add_fc in Ea.
    destruct (negb (is_mergeable (fc_cc cum)) || negb (is_mergeable (fc_cc c))); [discriminate Ea|].
    destruct (true && negb (fc_null cum)); injection Ea as <-; [exact Hci|]. cbn [fc_ci]. rewrite Hci, (Cc Hny). reflexivity.
Qed.

Lemma fc_alt_wf : forall l cum r,
  Forall (fun t => forall fc, lits_ok t = true -> FW t = Ok (Some fc) -> fc_wf t fc) l ->
  forallb lits_ok l = true ->
  fc_good cum -> fc_alt cat_in sets l cum = Ok (Some r) ->
  fc_good r /\ (forallb no_ci_lit l = true -> fc_ci cum = false -> fc_ci r = false).
Proof.
  induction l as [|y l IH]; intros cum r Hf Hl Hg H; cbn [fc_alt] in H.
  - injection H as <-; split; auto.
  - apply sp_bind_ok in H. destruct H as [f [Hy H]]. destruct f as [c|]; [|discriminate H].
    destruct (add_fc cat_in cum c false) as [cum'|] eqn:Ea; [|discriminate H].
    cbn [forallb] in Hl. apply andb_true_iff in Hl. destruct Hl as [Hly Hll].
    inversion Hf as [|? ? Py Pl]; subst. destruct (Py c Hly Hy) as [Gc Cc].
    destruct (add_fc_ok cum c false cum' Hg Gc Ea) as (G' & _).
    destruct (IH cum' r Pl Hll G' H) as [Gr Cr]. split; [exact Gr|].
    intros Hn Hci. cbn [forallb] in Hn. apply andb_true_iff in Hn. destruct Hn as [Hny Hnl].
    apply Cr; [exact Hnl|]. unfold add_fc in Ea.
    destruct (negb (is_mergeable (fc_cc cum)) || negb (is_mergeable (fc_cc c))); [discriminate Ea|].
    cbn [andb] in Ea. injection Ea as <-. cbn [fc_ci]. rewrite Hci, (Cc Hny). reflexivity.
Qed.

Lemma fc_cond_wf yes n fy fn r :
  fc_wf yes fy -> fc_wf n fn -> add_fc cat_in fy fn false = Some r ->
  fc_good r /\ (no_ci_lit yes = true -> no_ci_lit n = true -> fc_ci r = false).
Proof.
  intros [Gy Cy] [Gn Cn] Ea. destruct (add_fc_ok fy fn false r Gy Gn Ea) as (G' & _). split; [exact G'|].
  intros H1 H2. unfold add_fc in Ea.
  destruct (negb (is_mergeable (fc_cc fy)) || negb (is_mergeable (fc_cc fn))); [discriminate Ea|].
  cbn [andb] in Ea. injection Ea as <-. cbn [fc_ci]. rewrite (Cy H1), (Cn H2). reflexivity.
Qed.

Lemma fc_walk_wf : forall t fc, lits_ok t = true -> FW t = Ok (Some fc) -> fc_wf t fc.
Proof.
  induction t using node_ind'; intros fc Hl Hw; cbn [fc_walk] in Hw.
  - (* NChar *)
    destruct k; cbn [lits_ok no_ci_lit] in *; injection Hw as <-; unfold fc_wf.
    + split; [apply new_fc_ok; exact Hl|]. cbn [new_fc fc_ci]. intros Hn. apply negb_true_iff in Hn. exact Hn.
    + split; [apply new_fc_ok; exact Hl|]. cbn [new_fc fc_ci]. intros Hn. apply negb_true_iff in Hn. exact Hn.
    + split; [apply a2_copy_acc; apply Hgood|]. cbn [fc_ci]. intros Hn. apply negb_true_iff in Hn. exact Hn.
  - (* NCharLoop *)
    destruct k; cbn [lits_ok no_ci_lit] in *; injection Hw as <-; unfold fc_wf.
    + split; [apply new_fc_ok; exact Hl|]. cbn [new_fc fc_ci]. intros Hn. apply negb_true_iff in Hn. exact Hn.
    + split; [apply new_fc_ok; exact Hl|]. cbn [new_fc fc_ci]. intros Hn. apply negb_true_iff in Hn. exact Hn.
    + split; [apply a2_copy_acc; apply Hgood|]. cbn [fc_ci]. intros Hn. apply negb_true_iff in Hn. exact Hn.
  - (* NMulti *)
    destruct s as [|c0 s0]; [discriminate Hl|]. injection Hw as <-. cbn [lits_ok no_ci_lit] in *. unfold fc_wf.
    split; [|cbn [new_fc fc_ci]; intros Hn; apply negb_true_iff in Hn; exact Hn].
    apply new_fc_ok. rewrite forallb_forall in Hl. destruct (is_rtl o); [|apply Hl; left; reflexivity].
    apply Hl. exact (fc_last_in (c0 :: s0) 0 ltac:(discriminate)).
  - (* NRef *) injection Hw as <-. split; [exact any_class_good|reflexivity].
  - injection Hw as <-. split; [exact null_fc_good|reflexivity].
  - injection Hw as <-. split; [exact null_fc_good|reflexivity].
  - injection Hw as <-. split; [exact null_fc_good|reflexivity].
  - injection Hw as <-. split; [exact null_fc_good|reflexivity].
  - (* NConcat *)
    destruct l as [|x l']; [discriminate Hw|]. rewrite <- (fc_concat_eq cat_in sets o x l') in Hw at 1.
    rewrite fc_concat_eq in Hw. apply sp_bind_ok in Hw. destruct Hw as [f0 [Hx Hw]]. destruct f0 as [c0|]; [|discriminate Hw].
    cbn [lits_ok forallb] in Hl. apply andb_true_iff in Hl. destruct Hl as [Hlx Hll].
    inversion H as [|? ? Px Pl]; subst. destruct (Px c0 Hlx Hx) as [G0 C0].
    destruct (fc_cat_wf l' c0 fc Pl Hll G0 Hw) as [Gr Cr]. split; [exact Gr|].
    intros Hn. cbn [no_ci_lit forallb] in Hn. apply andb_true_iff in Hn. destruct Hn as [Hnx Hnl]. auto.
  - (* NAlternate *)
    destruct l as [|x l']; [discriminate Hw|]. rewrite <- (fc_alternate_eq cat_in sets o x l') in Hw at 1.
    rewrite fc_alternate_eq in Hw. apply sp_bind_ok in Hw. destruct Hw as [f0 [Hx Hw]]. destruct f0 as [c0|]; [|discriminate Hw].
    cbn [lits_ok forallb] in Hl. apply andb_true_iff in Hl. destruct Hl as [Hlx Hll].
    inversion H as [|? ? Px Pl]; subst. destruct (Px c0 Hlx Hx) as [G0 C0].
    destruct (fc_alt_wf l' c0 fc Pl Hll G0 Hw) as [Gr Cr]. split; [exact Gr|].
    intros Hn. cbn [no_ci_lit forallb] in Hn. apply andb_true_iff in Hn. destruct Hn as [Hnx Hnl]. auto.
  - (* NLoop *)
    apply sp_bind_ok in Hw. destruct Hw as [f [Hr Hw]]. destruct f as [c|]; [|discriminate Hw]. injection Hw as <-.
    cbn [lits_ok no_ci_lit] in *. destruct (IHt c Hl Hr) as [G C]. destruct (m =? 0); split; auto.
  - (* NCapture *) cbn [lits_ok no_ci_lit] in *. exact (IHt fc Hl Hw).
  - (* NGroup *) cbn [lits_ok no_ci_lit] in *. exact (IHt fc Hl Hw).
  - injection Hw as <-. split; [exact null_fc_good|reflexivity].
  - injection Hw as <-. split; [exact null_fc_good|reflexivity].
  - (* NAtomic *) cbn [lits_ok no_ci_lit] in *. exact (IHt fc Hl Hw).
  - (* NBackRefCond *)
    apply sp_bind_ok in Hw. destruct Hw as [f0 [Hy Hw]]. cbn [lits_ok] in Hl. apply andb_true_iff in Hl. destruct Hl as [Hly Hln].
    destruct f0 as [c0|]; [|discriminate Hw]. destruct no as [n|].
    + apply sp_bind_ok in Hw. destruct Hw as [f [Hn Hw]]. destruct f as [c|]; [|discriminate Hw].
      destruct (add_fc cat_in c0 c false) as [r|] eqn:Ea; [|discriminate Hw]. injection Hw as <-.
      cbn [opt_all] in H. destruct (fc_cond_wf t n c0 c r (IHt c0 Hly Hy) (H c Hln Hn) Ea) as [G C].
      split; [exact G|]. intros Hnc. cbn [no_ci_lit] in Hnc. apply andb_true_iff in Hnc. destruct Hnc. auto.
    + injection Hw as <-. destruct (IHt c0 Hly Hy) as [G C]. split; [exact G|].
      intros Hnc. cbn [no_ci_lit] in Hnc. apply andb_true_iff in Hnc. destruct Hnc. auto.
  - (* NExprCond *)
    apply sp_bind_ok in Hw. destruct Hw as [f0 [Hy Hw]]. cbn [lits_ok] in Hl. apply andb_true_iff in Hl. destruct Hl as [Hly Hln].
    destruct f0 as [c0|]; [|discriminate Hw]. destruct no as [n|].
    + apply sp_bind_ok in Hw. destruct Hw as [f [Hn Hw]]. destruct f as [c|]; [|discriminate Hw].
      destruct (add_fc cat_in c0 c false) as [r|] eqn:Ea; [|discriminate Hw]. injection Hw as <-.
      cbn [opt_all] in H. destruct (fc_cond_wf t2 n c0 c r (IHt2 c0 Hly Hy) (H c Hln Hn) Ea) as [G C].
      split; [exact G|]. intros Hnc. cbn [no_ci_lit] in Hnc. apply andb_true_iff in Hnc. destruct Hnc as [Hnc Hnn].
      apply andb_true_iff in Hnc. destruct Hnc. auto.
    + injection Hw as <-. destruct (IHt2 c0 Hly Hy) as [G C]. split; [exact G|].
      intros Hnc. cbn [no_ci_lit] in Hnc. apply andb_true_iff in Hnc. destruct Hnc as [Hnc _].
      apply andb_true_iff in Hnc. destruct Hnc. auto.
Qed.

(* ------------------------------------------------------------------------------------------ *)
(* soundness against the reference semantics                                                   *)

Variable e : env.
Hypothesis Hagree : forall id x, set_in e id x = cmem (set_cls sets id) x.
Hypothesis Hvalid : forall i, valid_rune (char_at e i).

Definition fc_sound (d : bool) (fc : fcrec) (s y : st) : Prop :=
  (fc_null fc = false -> 0 < disp d s y) /\ (0 < disp d s y -> cmem (fc_cc fc) (fchar e d s) = true).

Definition KT (d : bool) (t : node) (s y : st) : Prop :=
  shape_ok d t = true -> no_ci_lit t = true -> lits_ok t = true -> inb e s -> caps_nonneg (caps s) ->
  forall fc, FW t = Ok (Some fc) -> fc_sound d fc s y.

(* a concatenation's children from s1 on, given what has been accumulated for s .. s1; and the list as a whole *)
Definition KS (d : bool) (l : list node) (s1 y : st) : Prop :=
  forallb (shape_ok d) l = true -> forallb no_ci_lit l = true -> forallb lits_ok l = true ->
  inb e s1 -> caps_nonneg (caps s1) ->
  (forall s cum r, 0 <= disp d s s1 -> fc_sound d cum s s1 -> fc_good cum ->
     fc_cat cat_in sets l cum = Ok (Some r) -> fc_sound d r s y) /\
  (forall x l' c0 r, l = x :: l' -> FW x = Ok (Some c0) -> fc_cat cat_in sets l' c0 = Ok (Some r) -> fc_sound d r s1 y).

Definition KI (d : bool) (r : node) (L : Z) (s : st) (count : Z) (y : st) : Prop :=
  shape_ok d r = true -> no_ci_lit r = true -> lits_ok r = true -> 0 <= L -> inb e s -> caps_nonneg (caps s) ->
  forall fc, FW r = Ok (Some fc) ->
    (fc_null fc = false -> count < 0 -> 0 < disp d s y) /\ (0 < disp d s y -> cmem (fc_cc fc) (fchar e d s) = true).

Lemma fc_sound_zero d fc s y : fc_null fc = true -> pos y = pos s -> fc_sound d fc s y.
Proof. intros Hn Hp. unfold fc_sound, disp. rewrite Hn, Hp. split; [discriminate|]. intros H. destruct d; lia. Qed.

(* the alternation loop: every branch's set and nullability end up in the result *)
Lemma fc_alt_in : forall l cum r,
  forallb lits_ok l = true -> fc_good cum -> fc_alt cat_in sets l cum = Ok (Some r) ->
  (forall x, valid_rune x -> cmem (fc_cc cum) x = true -> cmem (fc_cc r) x = true) /\
  (fc_null cum = true -> fc_null r = true) /\
  forall y, In y l -> exists c, FW y = Ok (Some c) /\
    (forall x, valid_rune x -> cmem (fc_cc c) x = true -> cmem (fc_cc r) x = true) /\
    (fc_null c = true -> fc_null r = true).
Proof.
  induction l as [|y l IH]; intros cum r Hl Hg H; cbn [fc_alt] in H.
  - injection H as <-. split; [auto|]. split; [auto|intros y []].
  - apply sp_bind_ok in H. destruct H as [f [Hy H]]. destruct f as [c|]; [|discriminate H].
    destruct (add_fc cat_in cum c false) as [cum'|] eqn:Ea; [|discriminate H].
    cbn [forallb] in Hl. apply andb_true_iff in Hl. destruct Hl as [Hly Hll].
    destruct (fc_walk_wf y c Hly Hy) as [Gc _].
    destruct (add_fc_ok cum c false cum' Hg Gc Ea) as (G' & M1 & M2 & _). destruct (M2 eq_refl) as [M3 M4].
    destruct (IH cum' r Hll G' H) as (I1 & I2 & I3).
    split; [intros x Hx Hm; apply I1; [exact Hx|apply M1; assumption]|].
    split; [intros Hn; apply I2; rewrite M4, Hn; destruct (fc_null c); reflexivity|].
    intros y0 [<-|Hin]; [|exact (I3 y0 Hin)].
    exists c. split; [exact Hy|]. split; [intros x Hx Hm; apply I1; [exact Hx|apply M3; assumption]|].
    intros Hn. apply I2. rewrite M4, Hn. reflexivity.
Qed.

Lemma fc_sound_sub d fc r s y :
  fc_sound d fc s y -> (forall x, valid_rune x -> cmem (fc_cc fc) x = true -> cmem (fc_cc r) x = true) ->
  (fc_null fc = true -> fc_null r = true) -> fc_sound d r s y.
Proof.
  intros [S1 S2] Hsub Hn. split.
  - intros Hr. apply S1. destruct (fc_null fc); [specialize (Hn eq_refl); congruence|reflexivity].
  - intros Hp. apply Hsub; [apply fchar_valid; exact Hvalid|]. apply S2. exact Hp.
Qed.

Lemma fc_cond_sound d cy cn r s y :
  fc_good cy -> fc_good cn -> add_fc cat_in cy cn false = Some r ->
  (fc_sound d cy s y \/ fc_sound d cn s y) -> fc_sound d r s y.
Proof.
  intros Gy Gn Ea Hs. destruct (add_fc_ok cy cn false r Gy Gn Ea) as (_ & M1 & M2 & _). destruct (M2 eq_refl) as [M3 M4].
  destruct Hs as [Hs|Hs].
  - apply (fc_sound_sub d cy r s y Hs M1). intros Hn. rewrite M4, Hn. destruct (fc_null cn); reflexivity.
  - apply (fc_sound_sub d cn r s y Hs M3). intros Hn. rewrite M4, Hn. reflexivity.
Qed.

Lemma fc_all (d : bool) :
  (forall t s y, Reach e t s y -> KT d t s y) /\
  (forall l s y, ReachSeq e l s y -> KS d l s y) /\
  (forall r L s count y, ReachIter e r L s count y -> KI d r L s count y).
Proof.
  apply Reach_mutind.
  - (* R_char *)
    intros k o c s Hc Hs Hn Hl Hb Hcn fc Hw. cbn [shape_ok] in Hs. apply eqb_prop in Hs.
    apply andb_true_iff in Hc. destruct Hc as [Hav Hch]. rewrite (next_char_fchar e d o s Hs) in Hch.
    assert (Hd : disp d s (with_pos s (pos s + dir o)) = 1).
    { unfold disp, dir. cbn [pos with_pos]. rewrite Hs. destruct d; lia. }
    unfold fc_sound. rewrite Hd. pose proof (fchar_valid e Hvalid d s) as Hx.
    destruct k; cbn [fc_walk lits_ok char_test] in *; injection Hw as <-; (split; [intros _; lia|intros _]).
    + apply (new_fc_ok c false false (is_ci o) Hl); [exact Hx|lia].
    + apply (new_fc_ok c true false (is_ci o) Hl); [exact Hx|lia].
    + cbn [fc_cc]. rewrite a2_copy_mem by apply Hgood. rewrite <- Hagree. exact Hch.
  - (* R_charloop *)
    intros k l o c m n s y Hin Hs Hn Hl Hb Hcn fc Hw.
    cbn [shape_ok] in Hs. apply andb_true_iff in Hs. destruct Hs as [Hs Hmn].
    apply andb_true_iff in Hs. destruct Hs as [Hs Hm0]. apply eqb_prop in Hs.
    apply an_charloop_in2 in Hin. destruct Hin as [j [maxn [-> [Hj _]]]].
    assert (Hd : disp d s (with_pos s (pos s + dir o * j)) = j).
    { unfold disp, dir. cbn [pos with_pos]. rewrite Hs. destruct d; lia. }
    unfold fc_sound. rewrite Hd. pose proof (fchar_valid e Hvalid d s) as Hx.
    assert (Hch : 0 < j -> char_test e k c (fchar e d s) = true).
    { intros Hj0. rewrite <- (next_char_fchar e d o s Hs). apply (run_len_pos e cat_in sets Hagree Hvalid k c o maxn). lia. }
    destruct k; cbn [fc_walk lits_ok char_test] in *; injection Hw as <-; cbn [new_fc fc_null fc_cc];
      (split; [intros Hnl; lia|intros Hj0; specialize (Hch Hj0)]).
    + apply (new_fc_ok c false (m =? 0) (is_ci o) Hl); [exact Hx|lia].
    + apply (new_fc_ok c true (m =? 0) (is_ci o) Hl); [exact Hx|lia].
    + rewrite a2_copy_mem by apply Hgood. rewrite <- Hagree. exact Hch.
  - (* R_multi *)
    intros o str s y Hin Hs Hn Hl Hb Hcn fc Hw. cbn [shape_ok no_ci_lit lits_ok fc_walk] in *.
    apply eqb_prop in Hs. apply negb_true_iff in Hn.
    apply an_multi_in in Hin. destruct Hin as [-> [Hav Hm]]. rewrite Hn in Hm.
    destruct str as [|c0 s0] eqn:Estr; [discriminate Hl|]. rewrite <- Estr in *.
    assert (Hne0 : str <> []) by (rewrite Estr; discriminate).
    assert (Hlen : 0 < zlen str) by (rewrite Estr; unfold zlen; cbn [length]; lia).
    assert (Hd : disp d s (with_pos s (pos s + dir o * zlen str)) = zlen str).
    { unfold disp, dir. cbn [pos with_pos]. rewrite Hs. destruct d; lia. }
    unfold fc_sound. rewrite Hd. pose proof (fchar_valid e Hvalid d s) as Hx.
    assert (Hfc : (if is_rtl o then last str 0 else hd 0 str) = fchar e d s).
    { rewrite Hs in *. unfold fchar. destruct d.
      - rewrite (last_nth e cat_in sets Hagree Hvalid str Hne0).
        rewrite (str_match_nth e cat_in sets Hagree Hvalid str (pos s - zlen str) (length str - 1) Hm) by (unfold zlen in Hlen; lia).
        f_equal. unfold zlen in *. lia.
      - pose proof (str_match_nth e cat_in sets Hagree Hvalid str (pos s) 0 Hm) as H0. rewrite Estr in H0 |- *. cbn [nth length hd] in *.
        rewrite H0 by lia. f_equal. lia. }
    assert (Hw' : fc = new_fc cat_in (fchar e d s) false false (is_ci o)).
    { rewrite Estr in Hw. rewrite <- Estr in Hw. rewrite Hfc in Hw. injection Hw as <-. reflexivity. }
    subst fc. cbn [new_fc fc_null]. split; [intros _; lia|intros _].
    assert (Hr : rune_ok (fchar e d s) = true).
    { unfold rune_ok, MAXR. destruct Hx as [H1 H2]. unfold max_rune in H2. lia. }
    apply (new_fc_ok (fchar e d s) false false (is_ci o) Hr); [exact Hx|reflexivity].
  - (* R_ref *)
    intros o g s y _ _ _ _ _ _ fc Hw. cbn [fc_walk] in Hw. injection Hw as <-. unfold fc_sound. cbn [fc_null fc_cc].
    split; [discriminate|]. intros _. apply any_class_mem. apply fchar_valid. exact Hvalid.
  - (* R_anchor *)
    intros a s _ _ _ _ _ _ fc Hw. cbn [fc_walk] in Hw. injection Hw as <-. apply fc_sound_zero; reflexivity.
  - (* R_empty *)
    intros s _ _ _ _ _ fc Hw. cbn [fc_walk] in Hw. injection Hw as <-. apply fc_sound_zero; reflexivity.
  - (* R_bump *)
    intros s _ _ _ _ _ fc Hw. cbn [fc_walk] in Hw. injection Hw as <-. apply fc_sound_zero; reflexivity.
  - (* R_concat *)
    intros o l s y _ IH Hs Hn Hl Hb Hcn fc Hw. cbn [shape_ok no_ci_lit lits_ok] in *.
    destruct l as [|x l']; [discriminate Hw|]. rewrite fc_concat_eq in Hw.
    apply sp_bind_ok in Hw. destruct Hw as [f0 [Hx Hw]]. destruct f0 as [c0|]; [|discriminate Hw].
    destruct (IH Hs Hn Hl Hb Hcn) as [_ Hhead]. exact (Hhead x l' c0 fc eq_refl Hx Hw).
  - (* R_alt *)
    intros o l x s y Hin Hr IH Hs Hn Hl Hb Hcn fc Hw.
    pose proof (an_alt_forallb d l Hs) as Hfa. cbn [no_ci_lit lits_ok] in Hn, Hl.
    destruct l as [|x0 l']; [destruct Hin|]. rewrite fc_alternate_eq in Hw.
    apply sp_bind_ok in Hw. destruct Hw as [f0 [Hx0 Hw]]. destruct f0 as [c0|]; [|discriminate Hw].
    assert (Hx : shape_ok d x = true /\ no_ci_lit x = true /\ lits_ok x = true).
    { rewrite forallb_forall in Hfa, Hn, Hl. auto. }
    destruct Hx as (Hsx & Hnx & Hlx).
    cbn [forallb] in Hl. apply andb_true_iff in Hl. destruct Hl as [Hl0 Hll].
    destruct (fc_walk_wf x0 c0 Hl0 Hx0) as [G0 _].
    destruct (fc_alt_in l' c0 fc Hll G0 Hw) as (I1 & I2 & I3).
    destruct Hin as [<-|Hin].
    + apply (fc_sound_sub d c0 fc s y (IH Hsx Hnx Hlx Hb Hcn c0 Hx0) I1 I2).
    + destruct (I3 x Hin) as [c [Hc [J1 J2]]].
      apply (fc_sound_sub d c fc s y (IH Hsx Hnx Hlx Hb Hcn c Hc) J1 J2).
  - (* R_loop0 *)
    intros lazy o m n r s y Hm0 Hr IH Hs Hn Hl Hb Hcn fc Hw. subst m. cbn [fc_walk shape_ok no_ci_lit lits_ok] in *.
    apply sp_bind_ok in Hw. destruct Hw as [f [Hfr Hw]]. destruct f as [c|]; [|discriminate Hw]. injection Hw as <-.
    apply andb_true_iff in Hs. destruct Hs as [Hmn Hsr].
    assert (Hlim : 0 <= loop_limit 0 n) by (unfold loop_limit, INF; destruct (n =? 2147483647); lia).
    destruct (IH Hsr Hn Hl Hlim Hb Hcn c Hfr) as [_ I2]. unfold fc_sound. cbn [fc_null fc_cc Z.eqb].
    split; [discriminate|exact I2].
  - (* R_loop1 *)
    intros lazy o m n r s s1 y Hm0 Hr1 IH1 Hr2 IH2 Hs Hn Hl Hb Hcn fc Hw. cbn [fc_walk shape_ok no_ci_lit lits_ok] in *.
    apply sp_bind_ok in Hw. destruct Hw as [f [Hfr Hw]]. destruct f as [c|]; [|discriminate Hw].
    replace (m =? 0) with false in Hw by lia. injection Hw as <-.
    apply andb_true_iff in Hs. destruct Hs as [Hmn Hsr].
    assert (Hlim : 0 <= loop_limit m n) by (unfold loop_limit, INF; destruct (n =? 2147483647); lia).
    destruct (ffcc_fwd e d r s s1 Hr1 Hsr Hb Hcn) as [Hb1 [Hd1 Hcn1]].
    destruct (ffcc_fwd_iter e d r _ s1 _ y Hr2 Hsr Hlim Hb1 Hcn1) as [_ Hd2].
    destruct (IH1 Hsr Hn Hl Hb Hcn c Hfr) as [I1 I2].
    destruct (IH2 Hsr Hn Hl Hlim Hb1 Hcn1 c Hfr) as [_ J2].
    unfold fc_sound. rewrite (an_disp_trans d s s1 y).
    split; [intros H1; specialize (I1 H1); lia|].
    intros Hp. destruct (Z.eq_dec (disp d s s1) 0) as [Hz|Hz].
    + rewrite <- (fchar_pos e d s s1 (disp_zero_pos d s s1 Hz)). apply J2. lia.
    + apply I2. lia.
  - (* R_capture *)
    intros o g r s s1 _ IH Hs Hn Hl Hb Hcn fc Hw. cbn [fc_walk shape_ok no_ci_lit lits_ok] in *.
    exact (IH Hs Hn Hl Hb Hcn fc Hw).
  - (* R_balance *)
    intros o g u r s s1 top rest _ _ IH _ Hs Hn Hl Hb Hcn fc Hw. cbn [fc_walk shape_ok no_ci_lit lits_ok] in *.
    exact (IH Hs Hn Hl Hb Hcn fc Hw).
  - (* R_group *)
    intros r s y _ IH Hs Hn Hl Hb Hcn fc Hw. cbn [fc_walk shape_ok no_ci_lit lits_ok] in *.
    exact (IH Hs Hn Hl Hb Hcn fc Hw).
  - (* R_poslook *)
    intros o r s s1 _ _ _ _ _ _ _ fc Hw. cbn [fc_walk] in Hw. injection Hw as <-. apply fc_sound_zero; reflexivity.
  - (* R_neglook *)
    intros o r s _ _ _ _ _ fc Hw. cbn [fc_walk] in Hw. injection Hw as <-. apply fc_sound_zero; reflexivity.
  - (* R_atomic *)
    intros r s y _ IH Hs Hn Hl Hb Hcn fc Hw. cbn [fc_walk shape_ok no_ci_lit lits_ok] in *.
    exact (IH Hs Hn Hl Hb Hcn fc Hw).
  - (* R_brc_yes *)
    intros o g yes no s y _ Hr IH Hs Hn Hl Hb Hcn fc Hw.
    destruct no as [n|]; [|cbn [shape_ok] in Hs; rewrite andb_false_r in Hs; discriminate Hs].
    cbn [fc_walk shape_ok no_ci_lit lits_ok] in *.
    apply andb_true_iff in Hs. destruct Hs as [Hsy Hsn]. apply andb_true_iff in Hn. destruct Hn as [Hny Hnn].
    apply andb_true_iff in Hl. destruct Hl as [Hly Hln].
    apply sp_bind_ok in Hw. destruct Hw as [f0 [Hy Hw]]. destruct f0 as [cy|]; [|discriminate Hw].
    apply sp_bind_ok in Hw. destruct Hw as [f1 [Hnn' Hw]]. destruct f1 as [cn|]; [|discriminate Hw].
    destruct (add_fc cat_in cy cn false) as [r|] eqn:Ea; [|discriminate Hw]. injection Hw as <-.
    apply (fc_cond_sound d cy cn r s y (proj1 (fc_walk_wf yes cy Hly Hy)) (proj1 (fc_walk_wf n cn Hln Hnn')) Ea).
    left. exact (IH Hsy Hny Hly Hb Hcn cy Hy).
  - (* R_brc_no *)
    intros o g yes n s y _ Hr IH Hs Hn Hl Hb Hcn fc Hw. cbn [fc_walk shape_ok no_ci_lit lits_ok] in *.
    apply andb_true_iff in Hs. destruct Hs as [Hsy Hsn]. apply andb_true_iff in Hn. destruct Hn as [Hny Hnn].
    apply andb_true_iff in Hl. destruct Hl as [Hly Hln].
    apply sp_bind_ok in Hw. destruct Hw as [f0 [Hy Hw]]. destruct f0 as [cy|]; [|discriminate Hw].
    apply sp_bind_ok in Hw. destruct Hw as [f1 [Hnn' Hw]]. destruct f1 as [cn|]; [|discriminate Hw].
    destruct (add_fc cat_in cy cn false) as [r|] eqn:Ea; [|discriminate Hw]. injection Hw as <-.
    apply (fc_cond_sound d cy cn r s y (proj1 (fc_walk_wf yes cy Hly Hy)) (proj1 (fc_walk_wf n cn Hln Hnn')) Ea).
    right. exact (IH Hsn Hnn Hln Hb Hcn cn Hnn').
  - (* R_brc_none *)
    intros o g yes s _ Hs. cbn [shape_ok] in Hs. rewrite andb_false_r in Hs. discriminate Hs.
  - (* R_ec_yes *)
    intros o c yes no s s1 y Hrc _ Hr IH Hs Hn Hl Hb Hcn fc Hw.
    destruct no as [n|]; [|cbn [shape_ok] in Hs; rewrite andb_false_r in Hs; discriminate Hs].
    cbn [fc_walk shape_ok no_ci_lit lits_ok] in *.
    apply andb_true_iff in Hs. destruct Hs as [Hsy Hsn]. apply andb_true_iff in Hn. destruct Hn as [Hn Hnn].
    apply andb_true_iff in Hn. destruct Hn as [Hnc Hny]. apply andb_true_iff in Hl. destruct Hl as [Hly Hln].
    apply sp_bind_ok in Hw. destruct Hw as [f0 [Hy Hw]]. destruct f0 as [cy|]; [|discriminate Hw].
    apply sp_bind_ok in Hw. destruct Hw as [f1 [Hnn' Hw]]. destruct f1 as [cn|]; [|discriminate Hw].
    destruct (add_fc cat_in cy cn false) as [r|] eqn:Ea; [|discriminate Hw]. injection Hw as <-.
    apply (fc_cond_sound d cy cn r s y (proj1 (fc_walk_wf yes cy Hly Hy)) (proj1 (fc_walk_wf n cn Hln Hnn')) Ea).
    left. assert (Hb' : inb e (with_pos s1 (pos s))) by exact Hb.
    assert (Hcn' : caps_nonneg (caps (with_pos s1 (pos s)))).
    { cbn [caps with_pos]. exact (an_reach_caps e _ _ _ Hrc Hcn). }
    exact (IH Hsy Hny Hly Hb' Hcn' cy Hy).
  - (* R_ec_no *)
    intros o c yes n s y Hr IH Hs Hn Hl Hb Hcn fc Hw. cbn [fc_walk shape_ok no_ci_lit lits_ok] in *.
    apply andb_true_iff in Hs. destruct Hs as [Hsy Hsn]. apply andb_true_iff in Hn. destruct Hn as [Hn Hnn].
    apply andb_true_iff in Hn. destruct Hn as [Hnc Hny]. apply andb_true_iff in Hl. destruct Hl as [Hly Hln].
    apply sp_bind_ok in Hw. destruct Hw as [f0 [Hy Hw]]. destruct f0 as [cy|]; [|discriminate Hw].
    apply sp_bind_ok in Hw. destruct Hw as [f1 [Hnn' Hw]]. destruct f1 as [cn|]; [|discriminate Hw].
    destruct (add_fc cat_in cy cn false) as [r|] eqn:Ea; [|discriminate Hw]. injection Hw as <-.
    apply (fc_cond_sound d cy cn r s y (proj1 (fc_walk_wf yes cy Hly Hy)) (proj1 (fc_walk_wf n cn Hln Hnn')) Ea).
    right. exact (IH Hsn Hnn Hln Hb Hcn cn Hnn').
  - (* R_ec_none *)
    intros o c yes s Hs. cbn [shape_ok] in Hs. rewrite andb_false_r in Hs. discriminate Hs.
  - (* RS_nil *)
    intros s1 _ _ _ _ _. split.
    + intros s cum r _ Hc _ H. cbn [fc_cat] in H. destruct (negb (fc_null cum)); injection H as <-; exact Hc.
    + intros x l' c0 r Hnil. discriminate Hnil.
  - (* RS_cons *)
    intros x l s1 s2 y Hr1 IH1 Hr2 IH2 Hs Hn Hl Hb Hcn.
    cbn [forallb] in Hs, Hn, Hl.
    apply andb_true_iff in Hs. destruct Hs as [Hsx Hsl]. apply andb_true_iff in Hn. destruct Hn as [Hnx Hnl].
    apply andb_true_iff in Hl. destruct Hl as [Hlx Hll].
    destruct (ffcc_fwd e d x s1 s2 Hr1 Hsx Hb Hcn) as [Hb2 [Hd12 Hcn2]].
    destruct (ffcc_fwd_seq e d l s2 y Hr2 Hsl Hb2 Hcn2) as [_ Hd2y].
    destruct (IH2 Hsl Hnl Hll Hb2 Hcn2) as [Htail _].
    split.
    + intros s cum r Hd Hc Hg H. cbn [fc_cat] in H. destruct Hc as [C1 C2].
      destruct (fc_null cum) eqn:Enull; cbn [negb] in H.
      * apply sp_bind_ok in H. destruct H as [f [Hfx H]]. destruct f as [c|]; [|discriminate H].
        destruct (add_fc cat_in cum c true) as [cum'|] eqn:Ea; [|discriminate H].
        destruct (fc_walk_wf x c Hlx Hfx) as [Gc _].
        destruct (add_fc_ok cum c true cum' Hg Gc Ea) as (G' & M1 & M2 & _).
        destruct (M2 ltac:(rewrite Enull; reflexivity)) as [M3 M4].
        destruct (IH1 Hsx Hnx Hlx Hb Hcn c Hfx) as [I1 I2].
        apply (Htail s cum' r); [rewrite (an_disp_trans d s s1 s2); lia| |exact G'|exact H].
        unfold fc_sound. rewrite (an_disp_trans d s s1 s2). split.
        -- intros Hn'. rewrite M4, Enull in Hn'. destruct (fc_null c) eqn:Ec; [discriminate Hn'|].
           specialize (I1 eq_refl). lia.
        -- intros Hp. pose proof (fchar_valid e Hvalid d s) as Hx.
           destruct (Z.eq_dec (disp d s s1) 0) as [Hz|Hz].
           ++ apply M3; [exact Hx|]. rewrite <- (fchar_pos e d s s1 (disp_zero_pos d s s1 Hz)). apply I2. lia.
           ++ apply M1; [exact Hx|]. apply C2. lia.
      * injection H as <-. unfold fc_sound. rewrite (an_disp_trans d s s1 y), (an_disp_trans d s1 s2 y). specialize (C1 eq_refl).
        split; [intros _; lia|]. intros _. apply C2. exact C1.
    + intros x' l' c0 r Hcons Hfx H. injection Hcons as <- <-.
      destruct (fc_walk_wf x c0 Hlx Hfx) as [G0 _].
      apply (Htail s1 c0 r); [exact Hd12|exact (IH1 Hsx Hnx Hlx Hb Hcn c0 Hfx)|exact G0|exact H].
  - (* RI_stop *)
    intros r L s count Hc Hs Hn Hl HL Hb Hcn fc Hw. rewrite an_disp_refl. split; intros; lia.
  - (* RI_more *)
    intros r L s count s1 y Hc Hr1 IH1 Hr2 IH2 Hs Hn Hl HL Hb Hcn fc Hw.
    destruct (ffcc_fwd e d r s s1 Hr1 Hs Hb Hcn) as [Hb1 [Hd1 Hcn1]].
    destruct (ffcc_fwd_iter e d r _ s1 _ y Hr2 Hs HL Hb1 Hcn1) as [_ Hd2].
    destruct (IH1 Hs Hn Hl Hb Hcn fc Hw) as [I1 I2].
    destruct (IH2 Hs Hn Hl HL Hb1 Hcn1 fc Hw) as [_ J2].
    rewrite (an_disp_trans d s s1 y).
    split; [intros H1 _; specialize (I1 H1); lia|].
    intros Hp. destruct (Z.eq_dec (disp d s s1) 0) as [Hz|Hz].
    + rewrite <- (fchar_pos e d s s1 (disp_zero_pos d s s1 Hz)). apply J2. lia.
    + apply I2. lia.
Qed.

(* getFirstCharsPrefix returned (set, CaseInsensitive): every successful attempt consumes at least one character
   and the first one (at p left-to-right, at p-1 right-to-left) is in the set; on a tree without
   case-insensitive literals the flag is false and no lower-casing is involved *)
Theorem a2_first_chars_prefix_sound (to_lower : Z -> Z) (d : bool) fuel root p s' C ci :
  shape_ok d root = true -> no_ci_lit root = true -> lits_ok root = true -> 0 <= p <= tlen e ->
  first_chars_prefix cat_in to_lower sets root = Ok (Some (C, ci)) ->
  attempt e fuel root p = Ok (Some s') ->
  ci = false /\
  (if d then 0 < p /\ pos s' < p else p < tlen e /\ p < pos s') /\
  char_in cat_in C (if d then char_at e (p - 1) else char_at e p) = true.
Proof.
  intros Hs Hn Hl Hp Hf Ha. pose proof (attempt_reach e _ _ _ _ Ha) as Hr.
  unfold first_chars_prefix in Hf. apply sp_bind_ok in Hf. destruct Hf as [f [Hw Hf]].
  destruct f as [fc|]; [|discriminate Hf].
  destruct (fc_null fc || is_empty_cls (fc_cc fc)) eqn:En; [discriminate Hf|].
  apply orb_false_iff in En. destruct En as [En _].
  destruct (fc_walk_wf root fc Hl Hw) as [_ Hci]. specialize (Hci Hn). rewrite Hci in Hf. injection Hf as <- <-.
  split; [reflexivity|].
  assert (Hb : inb e {| pos := p; caps := [] |}) by exact Hp.
  destruct (proj1 (fc_all d) _ _ _ Hr Hs Hn Hl Hb an_caps_nonneg_nil fc Hw) as [I1 I2].
  specialize (I1 En). specialize (I2 I1).
  destruct (ffcc_fwd e d root _ _ Hr Hs Hb an_caps_nonneg_nil) as [Hy _].
  unfold inb, disp, fchar, Analysis2Cls.cmem in *. cbn [pos] in *.
  destruct d; (split; [lia|exact I2]).
Qed.

End Good.
