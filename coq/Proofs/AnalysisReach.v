(* C04, part 1: a big-step "reachability" reading of Spec.sem.
   [Reach e t s y] over-approximates "y is one of the results of node t from state s": it keeps, for
   every construct, how a result state is obtained from results of the sub-nodes, and drops the
   negative information (a negative lookaround or a failed condition).  [sem_reach] is the only
   induction on fuel; every soundness statement of the analyses is then an induction on [Reach]. *)
From Verif Require Import Base.Prelude Model.Tree Model.Spec Proofs.SpecProofs.

Lemma an_bindl_in {A B} (f : A -> res (list B)) : forall l r y,
  bindl l f = Ok r -> In y r -> exists x lx, In x l /\ f x = Ok lx /\ In y lx.
Proof.
  induction l as [|a l IH]; intros r y H Hy; cbn [bindl] in H.
  - injection H as <-. destruct Hy.
  - apply sp_bind_ok in H. destruct H as [x [Hx H]].
    apply sp_bind_ok in H. destruct H as [r' [Hr H]]. injection H as <-.
    apply in_app_or in Hy. destruct Hy as [Hy|Hy].
    + exists a, x. split; [left; reflexivity|]. split; assumption.
    + destruct (IH _ _ Hr Hy) as [x0 [lx [Hin [Hf Hy']]]].
      exists x0, lx. split; [right; exact Hin|]. split; assumption.
Qed.

Lemma an_bindr_in {A B} (r : res (list A)) (f : A -> res (list B)) l y :
  bindr r f = Ok l -> In y l -> exists la x lx, r = Ok la /\ In x la /\ f x = Ok lx /\ In y lx.
Proof.
  intros H Hy. apply sp_bindr_ok in H. destruct H as [la [Hr H]].
  destruct (an_bindl_in f _ _ _ H Hy) as [x [lx [Hin [Hf Hy']]]].
  exists la, x, lx. repeat split; assumption.
Qed.

Lemma an_appr_in {A} (a b : res (list A)) l y :
  appr a b = Ok l -> In y l -> (exists la, a = Ok la /\ In y la) \/ (exists lb, b = Ok lb /\ In y lb).
Proof.
  intros H Hy. apply sp_appr_ok in H. destruct H as [x [z [Ha [Hb ->]]]].
  apply in_app_or in Hy. destruct Hy as [Hy|Hy]; [left; exists x|right; exists z]; split; assumption.
Qed.

Lemma an_first_only_in {A} (r : res (list A)) l y :
  first_only r = Ok l -> In y l -> exists l0, r = Ok l0 /\ In y l0.
Proof.
  intros H Hy. apply sp_first_only_ok in H. destruct H as [l0 [Hr ->]].
  exists l0. split; [exact Hr|]. destruct l0 as [|a l0]; [destruct Hy|].
  destruct Hy as [<-|[]]. left; reflexivity.
Qed.

Section Reach.
Variable e : env.

Definition loop_limit (m n : Z) : Z := if n =? INF then INF else n - m.

Inductive Reach : node -> st -> st -> Prop :=
| R_char k o c s :
    (0 <? avail e o (pos s)) && char_test e k c (next_char e o (pos s)) = true ->
    Reach (NChar k o c) s (with_pos s (pos s + dir o))
| R_charloop k l o c m n s y : In y (sem_charloop e k l o c m n s) -> Reach (NCharLoop k l o c m n) s y
| R_multi o str s y : In y (sem_multi e o str s) -> Reach (NMulti o str) s y
| R_ref o g s y : In y (sem_ref e o g s) -> Reach (NRef o g) s y
| R_anchor a s : anchor_ok e a (pos s) = true -> Reach (NAnchor a) s s
| R_empty s : Reach NEmpty s s
| R_bump s : Reach NBump s s
| R_concat o l s y : ReachSeq l s y -> Reach (NConcat o l) s y
| R_alt o l x s y : In x l -> Reach x s y -> Reach (NAlternate o l) s y
| R_loop0 lazy o m n r s y :
    m = 0 -> ReachIter r (loop_limit m n) s 0 y -> Reach (NLoop lazy o m n r) s y
| R_loop1 lazy o m n r s s1 y :
    m <> 0 -> Reach r s s1 -> ReachIter r (loop_limit m n) s1 (1 - m) y -> Reach (NLoop lazy o m n r) s y
| R_capture o g r s s1 :
    Reach r s s1 ->
    Reach (NCapture o g (-1) r) s {| pos := pos s1; caps := cap_push g (span (pos s) (pos s1)) (caps s1) |}
| R_balance o g u r s s1 top rest :
    u <> -1 -> Reach r s s1 -> cap_get u (caps s1) = top :: rest ->
    Reach (NCapture o g u r) s
          {| pos := pos s1;
             caps := if g =? -1 then cap_pop u (caps s1)
                     else cap_push g (balance_span (pos s) (pos s1) top) (cap_pop u (caps s1)) |}
| R_group r s y : Reach r s y -> Reach (NGroup r) s y
| R_poslook o r s s1 : Reach r s s1 -> Reach (NPosLook o r) s (with_pos s1 (pos s))
| R_neglook o r s : Reach (NNegLook o r) s s
| R_atomic r s y : Reach r s y -> Reach (NAtomic r) s y
| R_brc_yes o g yes no s y :
    is_matched g (caps s) = true -> Reach yes s y -> Reach (NBackRefCond o g yes no) s y
| R_brc_no o g yes n s y :
    is_matched g (caps s) = false -> Reach n s y -> Reach (NBackRefCond o g yes (Some n)) s y
| R_brc_none o g yes s :
    is_matched g (caps s) = false -> Reach (NBackRefCond o g yes None) s s
| R_ec_yes o c yes no s s1 y :
    Reach c s s1 -> Reach yes (with_pos s1 (pos s)) y -> Reach (NExprCond o c yes no) s y
| R_ec_no o c yes n s y : Reach n s y -> Reach (NExprCond o c yes (Some n)) s y
| R_ec_none o c yes s : Reach (NExprCond o c yes None) s s
with ReachSeq : list node -> st -> st -> Prop :=
| RS_nil s : ReachSeq [] s s
| RS_cons x l s s1 y : Reach x s s1 -> ReachSeq l s1 y -> ReachSeq (x :: l) s y
with ReachIter : node -> Z -> st -> Z -> st -> Prop :=
| RI_stop r limit s count : (0 <= count \/ limit <= count) -> ReachIter r limit s count s
| RI_more r limit s count s1 y :
    (count < 0 \/ count < limit) -> Reach r s s1 -> ReachIter r limit s1 (count + 1) y ->
    ReachIter r limit s count y.

Scheme Reach_mind := Minimality for Reach Sort Prop
  with ReachSeq_mind := Minimality for ReachSeq Sort Prop
  with ReachIter_mind := Minimality for ReachIter Sort Prop.
Combined Scheme Reach_mutind from Reach_mind, ReachSeq_mind, ReachIter_mind.

(* the iteration of Spec.iter, for any body whose results are Reach-able *)
Lemma iter_reach (r : node) (body : st -> res (list st)) (lazy : bool) (limit : Z) :
  (forall s l y, body s = Ok l -> In y l -> Reach r s y) ->
  forall fuel s mark count l y,
    iter fuel body lazy limit s mark count = Ok l -> In y l -> ReachIter r limit s count y.
Proof.
  intros Hbody. induction fuel as [|f IH]; intros s mark count l y H Hy; [discriminate H|].
  cbn [iter] in H.
  assert (Hagain : forall l', bindr (body s) (fun s' => iter f body lazy limit s' (pos s) (count + 1)) = Ok l' ->
                              In y l' -> (count < 0 \/ count < limit) -> ReachIter r limit s count y).
  { intros l' H' Hy' Hc. destruct (an_bindr_in _ _ _ _ H' Hy') as [la [x [lx [Hb [Hx [Hi Hyx]]]]]].
    eapply RI_more; [exact Hc|eapply Hbody; eassumption|eapply IH; eassumption]. }
  destruct lazy.
  - destruct (count <? 0) eqn:Ec.
    + eapply Hagain; [exact H|exact Hy|left; lia].
    + destruct (an_appr_in _ _ _ _ H Hy) as [[la [Ha Hin]]|[lb [Hb Hin]]].
      * injection Ha as <-. destruct Hin as [<-|[]]. apply RI_stop. left; lia.
      * destruct ((count <? limit) && negb (pos s =? mark)) eqn:Ec2.
        -- eapply Hagain; [exact Hb|exact Hin|right; lia].
        -- injection Hb as <-. destruct Hin.
  - destruct ((limit <=? count) || ((pos s =? mark) && (0 <=? count))) eqn:Ec.
    + injection H as <-. destruct Hy as [<-|[]]. apply RI_stop. lia.
    + destruct (an_appr_in _ _ _ _ H Hy) as [[la [Ha Hin]]|[lb [Hb Hin]]].
      * eapply Hagain; [exact Ha|exact Hin|right; lia].
      * injection Hb as <-. destruct (0 <=? count) eqn:Ec2; [|destruct Hin].
        destruct Hin as [<-|[]]. apply RI_stop. left; lia.
Qed.

Theorem sem_reach : forall fuel t s l y, sem e fuel t s = Ok l -> In y l -> Reach t s y.
Proof.
  induction fuel as [|f IH]; intros t s l y H Hy; [discriminate H|].
  destruct t as [kd o c|kd lk o c m n|o str|o g|a| | | |o cl|o cl|lazy o m n r|o g u r|r|o r|o r|r
                |o g yes no|o c yes no];
    cbn [sem] in H.
  - (* NChar *)
    injection H as <-.
    destruct ((0 <? avail e o (pos s)) && char_test e kd c (next_char e o (pos s))) eqn:E; [|destruct Hy].
    destruct Hy as [<-|[]]. apply R_char. exact E.
  - injection H as <-. apply R_charloop. exact Hy.
  - injection H as <-. apply R_multi. exact Hy.
  - injection H as <-. apply R_ref. exact Hy.
  - injection H as <-. destruct (anchor_ok e a (pos s)) eqn:E; [|destruct Hy].
    destruct Hy as [<-|[]]. apply R_anchor. exact E.
  - injection H as <-. destruct Hy.
  - injection H as <-. destruct Hy as [<-|[]]. apply R_empty.
  - injection H as <-. destruct Hy as [<-|[]]. apply R_bump.
  - (* NConcat *)
    apply R_concat. revert s l H Hy.
    induction cl as [|x cl IHl]; intros s l H Hy.
    + injection H as <-. destruct Hy as [<-|[]]. apply RS_nil.
    + destruct (an_bindr_in _ _ _ _ H Hy) as [la [x1 [lx [Hb [Hx [Hi Hyx]]]]]].
      eapply RS_cons; [eapply IH; eassumption|eapply IHl; eassumption].
  - (* NAlternate *)
    revert l H Hy. induction cl as [|x cl IHl]; intros l H Hy.
    + injection H as <-. destruct Hy.
    + destruct (an_appr_in _ _ _ _ H Hy) as [[la [Ha Hin]]|[lb [Hb Hin]]].
      * eapply R_alt; [left; reflexivity|eapply IH; eassumption].
      * specialize (IHl _ Hb Hin). inversion IHl; subst.
        eapply R_alt; [right; eassumption|eassumption].
  - (* NLoop *)
    fold (loop_limit m n) in H.
    assert (Hbody : forall s l y, sem e f r s = Ok l -> In y l -> Reach r s y) by (intros; eapply IH; eassumption).
    destruct (m =? 0) eqn:Em.
    + apply R_loop0; [lia|]. eapply iter_reach; eassumption.
    + destruct (an_bindr_in _ _ _ _ H Hy) as [la [x1 [lx [Hb [Hx [Hi Hyx]]]]]].
      eapply R_loop1; [lia|eapply IH; eassumption|eapply iter_reach; eassumption].
  - (* NCapture *)
    destruct (u =? -1) eqn:Eu.
    + assert (u = -1) by lia. subst u.
      destruct (an_bindr_in _ _ _ _ H Hy) as [la [x1 [lx [Hb [Hx [Hi Hyx]]]]]].
      injection Hi as <-. destruct Hyx as [<-|[]]. apply R_capture. eapply IH; eassumption.
    + destruct (an_bindr_in _ _ _ _ H Hy) as [la [x1 [lx [Hb [Hx [Hi Hyx]]]]]].
      destruct (cap_get u (caps x1)) as [|top rest] eqn:Ecap.
      * injection Hi as <-. destruct Hyx.
      * injection Hi as <-. destruct Hyx as [<-|[]].
        eapply R_balance; [lia|eapply IH; eassumption|exact Ecap].
  - apply R_group. eapply IH; eassumption.
  - (* NPosLook *)
    apply sp_bind_ok in H. destruct H as [l0 [H0 H]]. injection H as <-.
    apply in_map_iff in Hy. destruct Hy as [s1 [<- Hs1]].
    destruct (an_first_only_in _ _ _ H0 Hs1) as [l1 [H1 Hin]].
    apply R_poslook. eapply IH; eassumption.
  - (* NNegLook *)
    apply sp_bind_ok in H. destruct H as [l0 [H0 H]]. injection H as <-.
    destruct l0; [|destruct Hy]. destruct Hy as [<-|[]]. apply R_neglook.
  - (* NAtomic *)
    destruct (an_first_only_in _ _ _ H Hy) as [l1 [H1 Hin]]. apply R_atomic. eapply IH; eassumption.
  - (* NBackRefCond *)
    destruct (is_matched g (caps s)) eqn:Eg.
    + apply R_brc_yes; [exact Eg|eapply IH; eassumption].
    + destruct no as [n|].
      * apply R_brc_no; [exact Eg|eapply IH; eassumption].
      * injection H as <-. destruct Hy as [<-|[]]. apply R_brc_none. exact Eg.
  - (* NExprCond *)
    apply sp_bind_ok in H. destruct H as [l0 [H0 H]].
    apply sp_first_only_ok in H0. destruct H0 as [l1 [H1 ->]].
    destruct l1 as [|s1 l1].
    + destruct no as [n|].
      * apply R_ec_no. eapply IH; eassumption.
      * injection H as <-. destruct Hy as [<-|[]]. apply R_ec_none.
    + eapply R_ec_yes; [eapply IH; [exact H1|left; reflexivity]|eapply IH; eassumption].
Qed.

(* a successful attempt is a reachable result of the root from the empty-capture state *)
Lemma attempt_reach fuel root p s' :
  attempt e fuel root p = Ok (Some s') -> Reach root {| pos := p; caps := [] |} s'.
Proof.
  unfold attempt. intros H. apply sp_bind_ok in H. destruct H as [l [Hl H]].
  destruct l as [|x l]; [discriminate H|]. injection H as <-.
  eapply sem_reach; [exact Hl|left; reflexivity].
Qed.

End Reach.
