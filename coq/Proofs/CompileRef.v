(* compile_correct, stage 4c: back-references NRef. *)
From Verif Require Import Base.Prelude Model.Tree Model.Spec Model.VM Model.Writer Gen.RunnerGen
  Proofs.SpecProofs Proofs.SpecBoundsProofs Proofs.MaskProofs
  Proofs.VMU Proofs.VMUOps Proofs.VMUOps2 Proofs.VMUOps6 Proofs.VMUOps7 Proofs.CompileBase Proofs.CompileDefs
  Proofs.CapFacts.
From Coq Require Import Relations ZifyBool.

Section CC.
Variable e : env.
Variable p : program.
Hypothesis tc_nonneg : 0 <= trackcount p.

Notation rsteps := (VMUOps2.rsteps e p).
Notation leadsg := (CompileBase.leadsg e p).
Notation has_code := (CompileBase.has_code p).
Notation track_ok := (CompileBase.track_ok p).
Notation caps_rel := (CompileBase.caps_rel p).
Notation code_ex := (CompileDefs.code_ex p).
Notation tbl_ok := (CompileDefs.tbl_ok p).
Notation ok_node := (CompileDefs.ok_node e p).

Lemma cc_ref f o g : 0 <= g < capsize p -> ok_node (S f) (NRef o g).
Proof.
  intros Hg s res Hsem Hst a tbl T S0 C M Hc Hex Hk Hr Htb.
  cbn [sem] in Hsem. injection Hsem as <-.
  cbn [emit csize fst] in Hc, Hex |- *.
  unfold map_capnum in Hc. cbn [capmap cfg0] in Hc. replace (g =? -1) with false in Hc by lia.
  apply has_code_cons in Hc. destruct Hc as [H0 Hc]. apply has_code_cons in Hc. destruct Hc as [H1 _].
  destruct Hex as [w2 H2]. destruct Hst as [Hp Hcs].
  pose proof (cf_matched e p (caps s) M g Hr Hg Hcs) as Hm. unfold is_matched in Hm.
  pose proof Hk as (np & T' & HT & w3 & H3).
  unfold sem_ref.
  destruct (cap_get g (caps s)) as [|[i len] rest] eqn:Eg.
  - destruct (ecma e) eqn:Ee.
    + apply leadsg_leaf; [exact Hk|exact Hr|]. eapply rs_ref_unset_ecma; try exact tc_nonneg; eassumption.
    + eapply leadsg_fail; [exact HT|]. rewrite HT. eapply rs_ref_unset; try exact tc_nonneg; eassumption.
  - destruct (cf_index_length e p (caps s) M g i len rest Hr Hg Hcs Eg) as (Hix & Hln & Hi & Hl & Hil).
    assert (Hres : (if avail e o (pos s) <? len then []
                    else if ref_match_at e (is_ci o) (Z.to_nat len) i (if is_rtl o then pos s - len else pos s)
                         then [with_pos s (pos s + dir o * len)] else []) =
                   if ref_cond e o i len (pos s) then [with_pos s (pos s + dir o * len)] else []).
    { unfold ref_cond. destruct (avail e o (pos s) <? len); reflexivity. }
    cbv zeta. rewrite Hres. destruct (ref_cond e o i len (pos s)) eqn:Ec.
    + apply leadsg_leaf; [exact Hk|exact Hr|]. cbn [pos with_pos].
      eapply rs_ref_set_ok with (i := i) (len := len) (g := g); try exact tc_nonneg; eassumption.
    + eapply leadsg_fail; [exact HT|]. rewrite HT.
      eapply rs_ref_set_fail with (i := i) (len := len) (g := g); try exact tc_nonneg; eassumption.
Qed.

End CC.
